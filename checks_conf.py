"""Per-property check configuration used by ./check (see DESIGN.md section 2)."""

CHECKS = {}

CHECKS["C47"] = {
    "pkg": "header", "files": ["header/c47_test.go"], "run": "^TestC47",
    "quick": {"scale": 1, "shards": 1, "timeout": 300},
    "thorough": {"scale": 10, "shards": 8, "timeout": 900, "fuzz": [{"target": "FuzzC47", "seconds": 45}]},
    "rule": "rapid draws of (version,type,subtype over 0..255, index/counter full range with edge values) encoded "
            "and parsed back against the documented bit layout; byte strings of length 0..64 parsed against an "
            "independent decode with a trailing-bytes metamorphic check; the 256x256 type/subtype table enumerated. "
            "Non-trivial: round trips with version,type < 16 (the 4-bit fields), every parse case, every valid table "
            "entry; distinct by field tuple / header bytes.",
    "assumptions": ["documented layout in header.go comment is the specification"],
}

HOOK_COMMITS = []
NOT_CLAIMED = {}
NOTES = ("All checks are property-based tests / fuzz targets driven by ./check; see DESIGN.md. "
         "Exit 2 means inconclusive (build failure, timeout), never a violation.")
ENGINES = [
    {"name": "E-pure", "path": "/verif/harness", "kind_free_text": "in-package rapid properties over pure functions, injected by go test -overlay"},
    {"name": "E-model", "path": "/verif/harness", "kind_free_text": "rapid state machines against reference models (virtual time via testing/synctest where needed)"},
    {"name": "E-netsim", "path": "/verif/harness/netsim", "kind_free_text": "multi-node nebula networks inside a synctest bubble with a generated network adversary"},
    {"name": "E-sched", "path": "/verif/harness", "kind_free_text": "gated-cipher harness: generated interleavings of concurrent encrypt/decrypt critical sections"},
    {"name": "E-fuzz", "path": "/verif/harness", "kind_free_text": "native go test -fuzz targets with semantic oracles (thorough tier only)"},
]
