"""Per-property check configuration used by ./check (see DESIGN.md section 2)."""

CHECKS = {}

import glob as _glob, os as _os

for _f in sorted(_glob.glob(_os.path.join(_os.path.dirname(_os.path.abspath(__file__)), "conf.d", "C*.py"))):
    _ns = {}
    exec(compile(open(_f).read(), _f, "exec"), _ns)
    CHECKS[_os.path.basename(_f)[:-3]] = _ns["CHECK"]

# Properties whose check is finished (green on the unchanged tree over several seeds, sensitivity
# tested). Only these are claimed in MANIFEST.json; everything else is listed as not claimed.
READY = """C01 C02 C03 C04 C05 C06 C07 C08 C09 C10 C11 C12 C13 C14 C15 C16 C17 C18 C19 C20 C21 C22 C23 C24 C25 C26 C27 C28 C29 C30 C31 C32 C33 C34 C35 C36 C37 C38 C39 C40 C41 C42 C43 C44 C45 C46 C47 C48 C49""".split()

HOOK_COMMITS = []
NOT_CLAIMED = {}
NOTES = ("All checks are property-based tests / fuzz targets driven by ./check; see DESIGN.md. "
         "Exit 2 means inconclusive (build failure, timeout), never a violation.")
ENGINES = [
    {"name": "E-pure", "path": "/verif/harness", "kind_free_text": "in-package rapid properties over pure functions, injected by go test -overlay"},
    {"name": "E-model", "path": "/verif/harness", "kind_free_text": "rapid state machines against reference models (virtual time via testing/synctest where needed)"},
    {"name": "E-netsim", "path": "/verif/harness/netsim", "kind_free_text": "multi-node nebula networks inside a synctest bubble with a generated network adversary"},
    {"name": "E-sched", "path": "/verif/harness", "kind_free_text": "gated-cipher harness: generated interleavings of concurrent encrypt/decrypt critical sections"},
    {"name": "E-fuzz", "path": "/verif/harness", "kind_free_text": "native go test -fuzz targets with semantic oracles (thorough tier only)"},
]
