// Package pktgen draws structured IPv4/IPv6 packets (built with verifkit/pkt) from a rapid.T.
// It is the shared generator of the packet classification (C20) and reject reply (C21) checks and
// can be reused by any check that needs inner IP packets.
//
//	c := pktgen.Draw(rt, pktgen.Hostile)     // or pktgen.Mild / a custom Opts
//	c.Bytes                                  // the packet as handed to the code under test
//	c.P                                      // the structured form it was built from
//
// Construction, not rejection: every class (options, extension chains of 0..12 headers in any
// order incl. look-alike terminal numbers laid out like extension headers, first / non-first /
// atomic fragments, unknown protocols, wrong IHL / length fields / extension lengths, truncation at
// header boundaries, byte mutations, raw noise) is drawn with a fixed weight. All randomness comes
// from rapid draws.
package pktgen

import (
	"net/netip"

	"pgregory.net/rapid"
	"verifkit/pkt"
)

// Opts sets the percentage of cases that get each hostile treatment.
type Opts struct {
	TruncPct   int // truncate the built packet at a drawn point (biased to header boundaries)
	MutatePct  int // overwrite 1..3 bytes in the first 96 bytes
	LenPct     int // wrong total/payload length field
	IHLPct     int // IPv4: wrong IHL
	ExtLenPct  int // IPv6: per extension header, wrong length byte
	RawPct     int // random bytes with only the version nibble forced
	ShortL4Pct int // upper layer replaced by 0..24 raw bytes (header cut short)
	MaxPayload int // largest upper-layer payload
	BigPct     int // percentage of cases that may use a payload > 48 bytes
	MaxExt     int // longest extension chain
}

// Hostile is the C20 profile, Mild the C21 profile (mostly classifiable packets), Benign produces
// only consistent, untruncated packets (still with options, chains, fragments, unknown protocols).
var (
	Benign  = Opts{MaxPayload: 1500, BigPct: 5, MaxExt: 12}
	Hostile = Opts{TruncPct: 22, MutatePct: 8, LenPct: 12, IHLPct: 10, ExtLenPct: 7, RawPct: 3, ShortL4Pct: 12, MaxPayload: 1500, BigPct: 4, MaxExt: 12}
	Mild    = Opts{TruncPct: 6, MutatePct: 2, LenPct: 10, IHLPct: 2, ExtLenPct: 2, RawPct: 0, ShortL4Pct: 6, MaxPayload: 2000, BigPct: 25, MaxExt: 10}
)

// Case is one drawn packet.
type Case struct {
	P       pkt.Packet
	Full    []byte // as built
	Bytes   []byte // after truncation / mutation: the test input
	Trunc   bool
	Mutated bool
	Raw     bool // pure noise, P is meaningless
}

// Roll returns an (almost) uniform number in [0,n). rapid's integer generators are deliberately
// skewed towards small values, which would distort the class weights; the skewed draw is therefore
// passed through a fixed bit mixer. Still a pure function of rapid draws.
func Roll(t *rapid.T, n int, label string) int {
	x := rapid.Uint32().Draw(t, label)
	x = (x + 0x9e3779b9) * 0x85ebca6b
	x ^= x >> 13
	x *= 0xc2b2ae35
	x ^= x >> 16
	return int(x % uint32(n))
}

func pct(t *rapid.T, p int, label string) bool {
	if p <= 0 {
		return false
	}
	return Roll(t, 100, label) < p
}

// Fill returns n bytes of a cheap deterministic pattern seeded by one drawn byte.
func Fill(t *rapid.T, n int, label string) []byte {
	if n == 0 {
		return nil
	}
	seed := rapid.Byte().Draw(t, label)
	b := make([]byte, n)
	x := uint32(seed)*2654435761 + 12345
	for i := range b {
		x = x*1664525 + 1013904223
		b[i] = byte(x >> 24)
	}
	return b
}

func payload(t *rapid.T, o Opts) []byte {
	n := 0
	if pct(t, o.BigPct, "bigpayload") {
		n = rapid.IntRange(0, o.MaxPayload).Draw(t, "paylen")
	} else {
		n = rapid.IntRange(0, 48).Draw(t, "paylen")
	}
	return Fill(t, n, "payseed")
}

var v4pool = []netip.Addr{
	netip.MustParseAddr("10.0.0.1"), netip.MustParseAddr("10.0.0.2"), netip.MustParseAddr("192.168.255.254"),
	netip.MustParseAddr("0.0.0.0"), netip.MustParseAddr("255.255.255.255"), netip.MustParseAddr("224.0.0.1"),
	netip.MustParseAddr("127.0.0.1"),
}
var v6pool = []netip.Addr{
	netip.MustParseAddr("fd00::1"), netip.MustParseAddr("fd00::2"), netip.MustParseAddr("::"), netip.MustParseAddr("::1"),
	netip.MustParseAddr("ff02::1"), netip.AddrFrom16(netip.MustParseAddr("::ffff:10.0.0.1").As16()),
	netip.MustParseAddr("fe80::1"), netip.MustParseAddr("ffff:ffff:ffff:ffff:ffff:ffff:ffff:ffff"),
}

func addr(t *rapid.T, v6 bool, label string) netip.Addr {
	if rapid.Bool().Draw(t, label+"pool") {
		if v6 {
			return rapid.SampledFrom(v6pool).Draw(t, label)
		}
		return rapid.SampledFrom(v4pool).Draw(t, label)
	}
	if v6 {
		var a [16]byte
		copy(a[:], rapid.SliceOfN(rapid.Byte(), 16, 16).Draw(t, label))
		return netip.AddrFrom16(a)
	}
	var a [4]byte
	copy(a[:], rapid.SliceOfN(rapid.Byte(), 4, 4).Draw(t, label))
	return netip.AddrFrom4(a)
}

var edge32 = []uint32{0, 1, 2, 0x7fffffff, 0x80000000, 0xfffffffe, 0xffffffff, 0xfffff800, 0xffffff00}

func u32(t *rapid.T, label string) uint32 {
	if rapid.Bool().Draw(t, label+"edge") {
		return rapid.SampledFrom(edge32).Draw(t, label)
	}
	return rapid.Uint32().Draw(t, label)
}

func port(t *rapid.T, label string) uint16 {
	return rapid.OneOf(rapid.Uint16(), rapid.SampledFrom([]uint16{0, 1, 22, 53, 80, 443, 4242, 0xffff})).Draw(t, label)
}

// TCP draws a TCP segment: every flag byte, data offsets 5..15 via options, sequence numbers near
// the wrap, sometimes a deliberately wrong data offset.
func TCP(t *rapid.T, o Opts) pkt.TCP {
	s := pkt.TCP{
		SrcPort: port(t, "sport"), DstPort: port(t, "dport"),
		Seq: u32(t, "seq"), Ack: u32(t, "ack"),
		Flags:  rapid.Byte().Draw(t, "tcpflags"),
		Window: rapid.Uint16().Draw(t, "win"),
	}
	if Roll(t, 4, "tcpoptsel") == 0 {
		s.Options = Fill(t, rapid.IntRange(1, 10).Draw(t, "tcpoptwords")*4, "tcpoptseed")
	}
	s.Payload = payload(t, o)
	if pct(t, o.ShortL4Pct, "baddoff") {
		s.DataOff = uint8(rapid.IntRange(1, 16).Draw(t, "doff")) // 16 is written as 0
		s.Reserved = rapid.Byte().Draw(t, "tcpres")
	}
	return s
}

var icmp4types = []uint8{0, 8, 3, 4, 5, 11, 12, 13, 14, 15, 16, 17, 18, 9, 10, 30}
var icmp6types = []uint8{128, 129, 1, 2, 3, 4, 133, 134, 135, 136, 137, 130, 143, 100, 127, 0, 255}

// ICMP draws an ICMP (v4) or ICMPv6 message of any type.
func ICMP(t *rapid.T, v6 bool, o Opts) pkt.ICMP {
	var ty uint8
	if Roll(t, 5, "icmprand") == 0 {
		ty = rapid.Byte().Draw(t, "icmptype")
	} else if v6 {
		ty = rapid.SampledFrom(icmp6types).Draw(t, "icmptype")
	} else {
		ty = rapid.SampledFrom(icmp4types).Draw(t, "icmptype")
	}
	return pkt.ICMP{Type: ty, Code: uint8(rapid.IntRange(0, 15).Draw(t, "icmpcode")),
		ID: rapid.Uint16().Draw(t, "icmpid"), Seq: rapid.Uint16().Draw(t, "icmpseq"), Payload: payload(t, o)}
}

// terminal protocol numbers that must NOT be walked as extension headers, plus ordinary ones
var terminals = []uint8{pkt.ProtoTCP, pkt.ProtoTCP, pkt.ProtoTCP, pkt.ProtoUDP, pkt.ProtoUDP, pkt.ProtoICMPv6, pkt.ProtoICMPv6,
	pkt.ProtoICMP, pkt.ProtoNoNext, pkt.ProtoESP, 135, 139, 140, 253, 254, 132, 47, 4, 41, 255}
var exts = []uint8{pkt.ProtoHopByHop, pkt.ProtoRouting, pkt.ProtoDestOpts, pkt.ProtoAH, pkt.ProtoFragment, pkt.ProtoDestOpts, pkt.ProtoHopByHop}

func upper(t *rapid.T, p *pkt.Packet, o Opts, nonFirst bool) {
	sel := Roll(t, 100, "protosel")
	switch {
	case sel < 65:
		p.Proto = rapid.SampledFrom(terminals).Draw(t, "proto")
		if !p.V6 && p.Proto == pkt.ProtoICMPv6 && rapid.Bool().Draw(t, "v4icmp") {
			p.Proto = pkt.ProtoICMP
		}
	case sel < 75:
		p.Proto = rapid.Byte().Draw(t, "proto")
	case sel < 80:
		// an extension header number announced last: under IPv6 the chain then runs into whatever
		// bytes follow; under IPv4 it is just an unknown protocol
		p.Proto = rapid.SampledFrom(exts).Draw(t, "proto")
	default:
		if p.V6 {
			p.Proto = rapid.SampledFrom([]uint8{pkt.ProtoTCP, pkt.ProtoUDP, pkt.ProtoICMPv6}).Draw(t, "proto")
		} else {
			p.Proto = rapid.SampledFrom([]uint8{pkt.ProtoTCP, pkt.ProtoUDP, pkt.ProtoICMP}).Draw(t, "proto")
		}
	}
	if nonFirst || pct(t, o.ShortL4Pct, "shortl4") {
		p.L4 = pkt.Raw(Fill(t, rapid.IntRange(0, 24).Draw(t, "rawlen"), "rawseed"))
		return
	}
	switch {
	case p.Proto == pkt.ProtoTCP:
		p.L4 = TCP(t, o)
	case p.Proto == pkt.ProtoUDP:
		u := pkt.UDP{SrcPort: port(t, "sport"), DstPort: port(t, "dport"), Payload: payload(t, o)}
		if pct(t, o.LenPct, "udplen") {
			u.LenDelta = rapid.IntRange(-16, 16).Draw(t, "udplendelta")
		}
		p.L4 = u
	case !p.V6 && p.Proto == pkt.ProtoICMP, p.V6 && p.Proto == pkt.ProtoICMPv6:
		p.L4 = ICMP(t, p.V6, o)
	default:
		p.L4 = pkt.Raw(payload(t, o))
	}
}

func extChain(t *rapid.T, o Opts) ([]pkt.Ext, bool) {
	var n int
	switch sel := Roll(t, 100, "extsel"); {
	case sel < 28:
		n = 0
	case sel < 60:
		n = rapid.IntRange(1, 3).Draw(t, "next")
	case sel < 74:
		n = rapid.IntRange(4, 7).Draw(t, "next")
	case sel < 84:
		n = 8
	default:
		n = rapid.IntRange(9, 12).Draw(t, "next")
	}
	if n > o.MaxExt {
		n = o.MaxExt
	}
	nonFirst := false
	var out []pkt.Ext
	for i := 0; i < n; i++ {
		var e pkt.Ext
		if Roll(t, 20, "lookalike") == 0 {
			// a terminal number laid out like an extension header: everything behind it is its payload
			e.Type = rapid.SampledFrom([]uint8{135, 139, 140, 253, 254, pkt.ProtoESP, pkt.ProtoNoNext, 132}).Draw(t, "exttype")
		} else {
			e.Type = rapid.SampledFrom(exts).Draw(t, "exttype")
		}
		if e.Type == pkt.ProtoFragment {
			switch Roll(t, 4, "fragshape") {
			case 0: // atomic
			case 1: // first
				e.MF = true
			case 2: // middle
				e.MF = true
				e.FragOff = uint16(rapid.IntRange(1, 0x1fff).Draw(t, "fragoff"))
			default: // last
				e.FragOff = rapid.SampledFrom([]uint16{1, 2, 0x1f, 0x20, 0x100, 0x1fff}).Draw(t, "fragoff")
			}
			e.FragRes = uint8(rapid.IntRange(0, 3).Draw(t, "fragres"))
			e.ID = rapid.Uint32().Draw(t, "fragid")
			if e.FragOff != 0 {
				nonFirst = true
			}
			if pct(t, o.ExtLenPct, "fragresbyte") {
				e.ForceLen, e.Len = true, rapid.Byte().Draw(t, "extlen")
			}
		} else {
			words := 0
			switch Roll(t, 10, "extsize") {
			case 0, 1, 2, 3, 4:
			case 5, 6, 7:
				words = rapid.IntRange(1, 4).Draw(t, "extwords")
			case 8:
				words = rapid.IntRange(5, 40).Draw(t, "extwords")
			default:
				words = rapid.SampledFrom([]int{127, 254, 255}).Draw(t, "extwords")
			}
			if e.Type == pkt.ProtoAH {
				e.Data = make([]byte, 10+4*(words%60))
			} else if e.Type == pkt.ProtoRouting {
				// type 0 source route: type, segments left, 4 reserved bytes, 16-byte addresses
				k := words / 2
				e.Data = make([]byte, 6+16*k)
				e.Data[1] = uint8(k)
			} else if words > 0 {
				// valid option TLVs: one PadN covering the space (max 255+2 each)
				d := make([]byte, 0, words*8+6)
				left := words*8 + 6
				for left > 0 {
					k := left
					if k > 257 {
						k = 257
					}
					if k == 1 {
						d = append(d, 0)
					} else {
						d = append(d, 1, uint8(k-2))
						d = append(d, make([]byte, k-2)...)
					}
					left -= k
				}
				e.Data = d
			}
			if pct(t, o.ExtLenPct, "extlenforce") {
				e.ForceLen = true
				e.Len = rapid.OneOf(rapid.Byte(), rapid.SampledFrom([]uint8{0, 1, 255, 254})).Draw(t, "extlen")
			}
		}
		out = append(out, e)
	}
	return out, nonFirst
}

// v4Options draws 4..40 option bytes: mostly a well-formed list (NOP, record-route style TLVs,
// router alert, EOL padding), sometimes noise.
func v4Options(t *rapid.T) []byte {
	n := rapid.IntRange(1, 10).Draw(t, "optwords") * 4
	if Roll(t, 4, "optnoise") == 0 {
		return Fill(t, n, "optseed")
	}
	o := make([]byte, 0, n)
	for len(o) < n {
		left := n - len(o)
		switch k := Roll(t, 4, "optkind"); {
		case k == 0 || left < 3:
			o = append(o, 1) // NOP
		case k == 1 && left >= 4:
			o = append(o, 148, 4, 0, 0) // router alert
		case k == 2:
			l := 3 + 4*Roll(t, 3, "optrr")
			if l > left {
				l = 3
			}
			rr := make([]byte, l)
			rr[0], rr[1], rr[2] = 7, uint8(l), 4
			o = append(o, rr...)
		default:
			o = append(o, make([]byte, left)...) // EOL and padding
		}
	}
	return o
}

// Draw draws one case.
func Draw(t *rapid.T, o Opts) *Case {
	c := &Case{}
	if pct(t, o.RawPct, "raw") {
		n := rapid.IntRange(0, 120).Draw(t, "rawn")
		b := rapid.SliceOfN(rapid.Byte(), n, n).Draw(t, "rawbytes")
		if n > 0 && Roll(t, 10, "rawver") != 0 {
			v := rapid.SampledFrom([]byte{4, 6}).Draw(t, "ver")
			b[0] = v<<4 | b[0]&0x0f
		}
		c.Raw, c.Full, c.Bytes = true, b, b
		return c
	}
	p := &c.P
	p.V6 = rapid.Bool().Draw(t, "v6")
	p.Src, p.Dst = addr(t, p.V6, "src"), addr(t, p.V6, "dst")
	p.TOS = rapid.Byte().Draw(t, "tos")
	p.TTL = rapid.Byte().Draw(t, "ttl")
	var bounds []int
	if !p.V6 {
		p.ID = rapid.Uint16().Draw(t, "ipid")
		p.Flags = uint8(rapid.IntRange(0, 7).Draw(t, "v4flags"))
		nonFirst := false
		switch Roll(t, 10, "v4frag") {
		case 0, 1:
			p.FragOff = uint16(rapid.IntRange(1, 0x1fff).Draw(t, "fragoff"))
			nonFirst = true
		case 2:
			p.FragOff = rapid.SampledFrom([]uint16{1, 0x1fff, 0x1000, 0x00b9}).Draw(t, "fragoff")
			nonFirst = true
		}
		if Roll(t, 10, "v4optsel") < 4 {
			p.Options = v4Options(t)
		}
		upper(t, p, o, nonFirst && rapid.Bool().Draw(t, "fragraw"))
		if pct(t, o.IHLPct, "ihlforce") {
			p.IHL = uint8(rapid.IntRange(1, 16).Draw(t, "ihl")) // 16 is written as 0
		}
		hl := 20 + (len(p.Options)+3)/4*4
		bounds = []int{0, 1, 19, 20, hl - 1, hl, hl + 1, hl + 3, hl + 4, hl + 5, hl + 6, hl + 7, hl + 8, hl + 19, hl + 20}
	} else {
		p.Flow = rapid.Uint32().Draw(t, "flow")
		var nonFirst bool
		p.Ext, nonFirst = extChain(t, o)
		upper(t, p, o, nonFirst && Roll(t, 4, "fragraw") != 0)
		bounds = []int{0, 1, 39, 40, 41, 42, 44, 46, 47, 48}
	}
	if pct(t, o.LenPct, "lenforce") {
		p.LenDelta = rapid.OneOf(rapid.IntRange(-60, 60), rapid.SampledFrom([]int{-70000, 70000, -1, 1, 8, -8, 1000})).Draw(t, "lendelta")
	}
	c.Full = p.Bytes()
	c.Bytes = c.Full
	if p.V6 {
		// boundaries of every extension header and of the upper layer
		if in, _ := pkt.Parse(c.Full); in != nil {
			for _, e := range in.Ext {
				bounds = append(bounds, e.Off, e.Off+1, e.Off+2, e.Off+7, e.Off+8, e.Off+e.Len-1, e.Off+e.Len)
			}
			bounds = append(bounds, in.L4Off, in.L4Off+1, in.L4Off+3, in.L4Off+4, in.L4Off+5, in.L4Off+6, in.L4Off+19, in.L4Off+20)
		}
	}
	if pct(t, o.MutatePct, "mutate") {
		b := append([]byte(nil), c.Bytes...)
		lim := len(b)
		if lim > 96 {
			lim = 96
		}
		if lim > 0 {
			k := rapid.IntRange(1, 3).Draw(t, "nmut")
			for i := 0; i < k; i++ {
				b[rapid.IntRange(0, lim-1).Draw(t, "mutpos")] = rapid.Byte().Draw(t, "mutval")
			}
			c.Bytes, c.Mutated = b, true
		}
	}
	if pct(t, o.TruncPct, "trunc") {
		var cut int
		if Roll(t, 4, "truncsel") == 0 {
			cut = rapid.IntRange(0, len(c.Bytes)).Draw(t, "cut")
		} else {
			cut = rapid.SampledFrom(bounds).Draw(t, "cut")
		}
		if cut >= 0 && cut < len(c.Bytes) {
			c.Bytes = c.Bytes[:cut:cut]
			c.Trunc = true
		}
	}
	return c
}
