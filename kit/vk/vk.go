// Package vk is the shared harness kit: seed plumbing, case-count scaling, evidence recording and
// known-finding lookup for the property checks that the driver (/verif/check) injects into the
// packages of /repo by overlay.
//
// Environment (set by the driver):
//
//	VERIF_SEED          integer seed of the run (0 is remapped)
//	VERIF_SHARD         shard number of this process (0..n-1)
//	VERIF_SCALE         float multiplier applied to the base case counts (tier)
//	VERIF_TIER          quick | thorough
//	VERIF_EVIDENCE_OUT  file to write this process' partial evidence to
//	VERIF_KNOWN         path of known_findings.json
//	VERIF_FAILFILE      rapid fail file to replay (replay mode)
package vk

import (
	"encoding/json"
	"flag"
	"fmt"
	"hash/fnv"
	"os"
	"sort"
	"strconv"
	"strings"
	"sync"
	"testing"

	"pgregory.net/rapid"
)

const maxSamples = 6
const maxHashes = 400000

type recorder struct {
	Evaluations int64            `json:"evaluations"`
	Hashes      map[uint64]bool  `json:"-"`
	HashList    []uint64         `json:"hashes"`
	Labels      map[string]int64 `json:"labels"`
	Samples     []any            `json:"samples"`
	Excluded    map[string]int64 `json:"excluded"`
	Known       []string         `json:"known_findings_reproduced"`
	Notes       []string         `json:"notes"`
	Exhaustive  bool             `json:"exhaustive"`
}

var (
	mu   sync.Mutex
	recs = map[string]*recorder{}
	sub  = map[string]int{}
)

func rec(pid string) *recorder {
	r := recs[pid]
	if r == nil {
		r = &recorder{Hashes: map[uint64]bool{}, Labels: map[string]int64{}, Excluded: map[string]int64{}}
		recs[pid] = r
	}
	return r
}

func hash(s string) uint64 {
	h := fnv.New64a()
	h.Write([]byte(s))
	return h.Sum64()
}

// Case records one generated case. key identifies the case for distinctness (any string that
// captures the case's content); nontrivial says whether the case satisfies the property's stated
// non-triviality rule; labels feed the class histogram.
func Case(pid string, key string, nontrivial bool, labels ...string) {
	mu.Lock()
	defer mu.Unlock()
	r := rec(pid)
	r.Evaluations++
	if nontrivial && len(r.Hashes) < maxHashes {
		r.Hashes[hash(key)] = true
	}
	for _, l := range labels {
		if l != "" {
			r.Labels[l]++
		}
	}
}

// Label bumps histogram counters without counting a case.
func Label(pid string, labels ...string) {
	mu.Lock()
	defer mu.Unlock()
	r := rec(pid)
	for _, l := range labels {
		if l != "" {
			r.Labels[l]++
		}
	}
}

// LabelN adds n to a histogram counter.
func LabelN(pid string, label string, n int64) {
	mu.Lock()
	defer mu.Unlock()
	rec(pid).Labels[label] += n
}

// Sample stores one of the first few cases verbatim for the evidence file.
func Sample(pid string, v any) {
	mu.Lock()
	defer mu.Unlock()
	r := rec(pid)
	if len(r.Samples) < maxSamples {
		r.Samples = append(r.Samples, v)
	}
}

// WantSample reports whether another sample would still be stored (lets callers avoid building
// expensive descriptions).
func WantSample(pid string) bool {
	mu.Lock()
	defer mu.Unlock()
	return len(rec(pid).Samples) < maxSamples
}

// Excluded counts a generated case that was skipped because it falls in a recorded known-finding
// class (excluded by construction so that search continues past the finding).
func Excluded(pid, class string) {
	mu.Lock()
	defer mu.Unlock()
	rec(pid).Excluded[class]++
}

// Note adds free text to the evidence.
func Note(pid, s string) {
	mu.Lock()
	defer mu.Unlock()
	r := rec(pid)
	for _, n := range r.Notes {
		if n == s {
			return
		}
	}
	r.Notes = append(r.Notes, s)
}

// SetExhaustive marks that a finite space was enumerated completely.
func SetExhaustive(pid string) {
	mu.Lock()
	defer mu.Unlock()
	rec(pid).Exhaustive = true
}

// Flush writes the partial evidence of this process.
func Flush() {
	mu.Lock()
	defer mu.Unlock()
	out := os.Getenv("VERIF_EVIDENCE_OUT")
	if out == "" {
		return
	}
	for _, r := range recs {
		r.HashList = r.HashList[:0]
		for h := range r.Hashes {
			r.HashList = append(r.HashList, h)
		}
		sort.Slice(r.HashList, func(i, j int) bool { return r.HashList[i] < r.HashList[j] })
	}
	b, err := json.Marshal(recs)
	if err != nil {
		fmt.Fprintf(os.Stderr, "VERIF-INFRA: evidence marshal: %v\n", err)
		return
	}
	tmp := out + ".tmp"
	if err := os.WriteFile(tmp, b, 0o644); err == nil {
		os.Rename(tmp, out)
	}
}

// Seed returns the run seed (never 0).
func Seed() uint64 {
	s, _ := strconv.ParseUint(strings.TrimSpace(os.Getenv("VERIF_SEED")), 10, 64)
	if s == 0 {
		s = 0x5eed5eed
	}
	return s
}

// Shard returns this process' shard number.
func Shard() uint64 {
	s, _ := strconv.ParseUint(strings.TrimSpace(os.Getenv("VERIF_SHARD")), 10, 64)
	return s
}

// Scale returns the case-count multiplier of the tier.
func Scale() float64 {
	s, err := strconv.ParseFloat(strings.TrimSpace(os.Getenv("VERIF_SCALE")), 64)
	if err != nil || s <= 0 {
		return 1
	}
	return s
}

// Thorough reports whether the thorough tier is running.
func Thorough() bool { return os.Getenv("VERIF_TIER") == "thorough" }

// N scales a base case count by the tier multiplier (at least 1).
func N(base int) int {
	n := int(float64(base) * Scale())
	if n < 1 {
		n = 1
	}
	return n
}

func subSeed(name string) uint64 {
	mu.Lock()
	k := sub[name]
	sub[name]++
	mu.Unlock()
	s := Seed()*1000003 + Shard()*7919 + hash(name)%1000003 + uint64(k)
	if s == 0 {
		s = 1
	}
	return s
}

// SubSeed derives a deterministic seed for non-rapid enumeration code.
func SubSeed(name string) uint64 { return subSeed(name) }

// Check runs a rapid property with base*scale cases and a seed derived from VERIF_SEED, the
// shard and the test name, then flushes evidence. In replay mode (VERIF_FAILFILE) the fail file
// is replayed instead.
func Check(t *testing.T, base int, prop func(*rapid.T)) {
	t.Helper()
	defer Flush()
	if ff := os.Getenv("VERIF_FAILFILE"); ff != "" {
		flag.Set("rapid.failfile", ff)
	} else {
		flag.Set("rapid.failfile", "")
	}
	flag.Set("rapid.checks", strconv.Itoa(N(base)))
	flag.Set("rapid.seed", strconv.FormatUint(subSeed(t.Name()), 10))
	if os.Getenv("VERIF_SHRINKTIME") != "" {
		flag.Set("rapid.shrinktime", os.Getenv("VERIF_SHRINKTIME"))
	}
	rapid.Check(t, prop)
}

// ---- known findings ------------------------------------------------------------------------

type Finding struct {
	Property string `json:"property"`
	Key      string `json:"key"`
	Status   string `json:"status"` // "open" or "fixed"
	Commit   string `json:"commit,omitempty"`
	What     string `json:"what"`
}

var (
	knownOnce sync.Once
	known     []Finding
)

func loadKnown() {
	// VERIF_KNOWN_EXTRA is a development aid (a proposal file under /verif/findings.d); the
	// registered checks only ever read /verif/known_findings.json.
	for _, p := range []string{os.Getenv("VERIF_KNOWN"), os.Getenv("VERIF_KNOWN_EXTRA")} {
		if p == "" {
			continue
		}
		b, err := os.ReadFile(p)
		if err != nil {
			continue
		}
		var f struct {
			Findings []Finding `json:"findings"`
		}
		if json.Unmarshal(b, &f) == nil {
			known = append(known, f.Findings...)
		}
	}
}

// KnownOpen reports whether (pid,key) is recorded as an open (unrepaired) known finding. Only
// then may a check exclude that class by construction.
func KnownOpen(pid, key string) bool {
	knownOnce.Do(loadKnown)
	for _, f := range known {
		if f.Property == pid && f.Key == key && f.Status == "open" {
			return true
		}
	}
	return false
}

// ReportKnown prints the KNOWN-FINDING line for a recorded finding that a probe just reproduced.
func ReportKnown(pid, key string) {
	knownOnce.Do(loadKnown)
	for _, f := range known {
		if f.Property == pid && f.Key == key && f.Status == "open" {
			mu.Lock()
			r := rec(pid)
			dup := false
			for _, k := range r.Known {
				if k == key {
					dup = true
				}
			}
			if !dup {
				r.Known = append(r.Known, key)
			}
			mu.Unlock()
			if !dup {
				fmt.Printf("KNOWN-FINDING: property=%s %s: %s\n", pid, key, f.What)
			}
			return
		}
	}
}

// Infra marks the run as inconclusive for infrastructure reasons (driver exits 2, never 1).
func Infra(t testing.TB, format string, args ...any) {
	fmt.Printf("VERIF-INFRA: "+format+"\n", args...)
	t.SkipNow()
}
