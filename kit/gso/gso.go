// Package gso is the reference side of the offload checks (C23, C24): an RFC 1071 checksum written
// from the arithmetic definition, an IPv4/IPv6 + TCP/UDP packet builder, a strict parser, and a
// reference implementation of what the Linux kernel does with a virtio_net_hdr GSO superpacket
// written to a tun device (validation in virtio_net_hdr_to_skb / ip_rcv, segmentation in
// inet_gso_segment / ipv6_gso_segment / tcp_gso_segment / __udp_gso_segment).
//
// Nothing here imports the code under test; std only.
package gso

import (
	"encoding/binary"
	"errors"
	"fmt"
)

const (
	ProtoTCP = 6
	ProtoUDP = 17
)

// TCP flag bits.
const (
	FIN = 0x01
	SYN = 0x02
	RST = 0x04
	PSH = 0x08
	ACK = 0x10
	URG = 0x20
	ECE = 0x40
	CWR = 0x80
)

// ---- RFC 1071 -------------------------------------------------------------------------------

// Sum is the exact integer sum of the 16-bit big-endian words of b (an odd tail byte is the high
// byte of a zero-padded word).
func Sum(b []byte) uint64 {
	var s uint64
	n := len(b)
	for i := 0; i+1 < n; i += 2 {
		s += uint64(b[i])<<8 | uint64(b[i+1])
	}
	if n&1 == 1 {
		s += uint64(b[n-1]) << 8
	}
	return s
}

// Fold reduces an exact sum to its one's-complement 16-bit representative: 0 only for 0, otherwise
// the value in 1..0xffff congruent to s modulo 0xffff.
func Fold(s uint64) uint16 {
	if s == 0 {
		return 0
	}
	return uint16((s-1)%0xffff) + 1
}

// SameOnes reports whether two 16-bit values are the same one's-complement number (0x0000 and
// 0xffff both denote zero).
func SameOnes(a, b uint16) bool { return a%0xffff == b%0xffff }

// PseudoSum is the exact sum of the TCP/UDP pseudo header.
func PseudoSum(v6 bool, src, dst []byte, proto byte, l4len int) uint64 {
	s := Sum(src) + Sum(dst) + uint64(proto)
	if v6 {
		s += uint64(l4len>>16) + uint64(l4len&0xffff)
	} else {
		s += uint64(l4len)
	}
	return s
}

// ---- builder --------------------------------------------------------------------------------

// Ext is one IPv6 extension header. For Type 0/43/60 Body holds the bytes after the two-byte
// (next header, length) prefix and len(Body)+2 must be a multiple of 8. For Type 44 (fragment)
// Body holds the 6 bytes after (next header, reserved): offset/flags (2) and identification (4).
// For Type 51 (AH) len(Body)+2 must be a multiple of 4 and at least 8... (Body after next/len).
type Ext struct {
	Type byte
	Body []byte
}

// IP describes the network header.
type IP struct {
	V6       bool
	Src, Dst []byte // 4 or 16 bytes
	TOS      byte   // IPv4 TOS / IPv6 traffic class
	Flow     uint32 // IPv6 flow label
	ID       uint16 // IPv4 identification
	Frag     uint16 // IPv4 flags + fragment offset field (0x4000 DF, 0x2000 MF)
	TTL      byte
	Proto    byte   // upper-layer protocol
	Options  []byte // IPv4 options, multiple of 4, at most 40 bytes
	Ext      []Ext  // IPv6 extension headers in order
}

// HdrLen is the length of the network header including options / extension headers.
func (ip IP) HdrLen() int {
	if !ip.V6 {
		return 20 + len(ip.Options)
	}
	n := 40
	for _, e := range ip.Ext {
		if e.Type == 44 {
			n += 8
		} else {
			n += 2 + len(e.Body)
		}
	}
	return n
}

// Header builds the network header for an upper-layer length of l4len bytes, with correct length
// fields and (IPv4) header checksum.
func (ip IP) Header(l4len int) []byte {
	if !ip.V6 {
		ihl := 20 + len(ip.Options)
		h := make([]byte, ihl)
		h[0] = 0x40 | byte(ihl/4)
		h[1] = ip.TOS
		binary.BigEndian.PutUint16(h[2:], uint16(ihl+l4len))
		binary.BigEndian.PutUint16(h[4:], ip.ID)
		binary.BigEndian.PutUint16(h[6:], ip.Frag)
		h[8] = ip.TTL
		h[9] = ip.Proto
		copy(h[12:16], ip.Src)
		copy(h[16:20], ip.Dst)
		copy(h[20:], ip.Options)
		binary.BigEndian.PutUint16(h[10:], ^Fold(Sum(h)))
		return h
	}
	n := ip.HdrLen()
	h := make([]byte, n)
	h[0] = 0x60 | ip.TOS>>4
	h[1] = ip.TOS<<4 | byte(ip.Flow>>16)&0x0f
	h[2] = byte(ip.Flow >> 8)
	h[3] = byte(ip.Flow)
	binary.BigEndian.PutUint16(h[4:], uint16(n-40+l4len))
	h[7] = ip.TTL
	copy(h[8:24], ip.Src)
	copy(h[24:40], ip.Dst)
	// chain the next-header values
	next := func(i int) byte {
		if i+1 < len(ip.Ext) {
			return ip.Ext[i+1].Type
		}
		return ip.Proto
	}
	if len(ip.Ext) == 0 {
		h[6] = ip.Proto
	} else {
		h[6] = ip.Ext[0].Type
	}
	off := 40
	for i, e := range ip.Ext {
		h[off] = next(i)
		switch e.Type {
		case 44:
			h[off+1] = 0
			copy(h[off+2:off+8], e.Body)
			off += 8
		case 51:
			h[off+1] = byte((len(e.Body)+2)/4 - 2)
			copy(h[off+2:], e.Body)
			off += 2 + len(e.Body)
		default:
			h[off+1] = byte((len(e.Body)+2)/8 - 1)
			copy(h[off+2:], e.Body)
			off += 2 + len(e.Body)
		}
	}
	return h
}

// TCP describes a TCP header.
type TCP struct {
	Sport, Dport uint16
	Seq, Ack     uint32
	Rsvd         byte // low nibble of byte 12 (reserved bits / AE)
	Flags        byte
	Window, Urg  uint16
	Options      []byte // multiple of 4, at most 40 bytes
}

// Header builds the TCP header with a zero checksum field.
func (t TCP) Header() []byte {
	n := 20 + len(t.Options)
	h := make([]byte, n)
	binary.BigEndian.PutUint16(h[0:], t.Sport)
	binary.BigEndian.PutUint16(h[2:], t.Dport)
	binary.BigEndian.PutUint32(h[4:], t.Seq)
	binary.BigEndian.PutUint32(h[8:], t.Ack)
	h[12] = byte(n/4)<<4 | t.Rsvd&0x0f
	h[13] = t.Flags
	binary.BigEndian.PutUint16(h[14:], t.Window)
	binary.BigEndian.PutUint16(h[18:], t.Urg)
	copy(h[20:], t.Options)
	return h
}

func cat(parts ...[]byte) []byte {
	n := 0
	for _, p := range parts {
		n += len(p)
	}
	out := make([]byte, 0, n)
	for _, p := range parts {
		out = append(out, p...)
	}
	return out
}

// BuildTCP returns a complete, valid packet (lengths and both checksums correct).
func BuildTCP(ip IP, t TCP, payload []byte) []byte {
	ip.Proto = ProtoTCP
	th := t.Header()
	l4len := len(th) + len(payload)
	ck := ^Fold(PseudoSum(ip.V6, ip.Src, ip.Dst, ProtoTCP, l4len) + Sum(th) + Sum(payload))
	binary.BigEndian.PutUint16(th[16:], ck)
	return cat(ip.Header(l4len), th, payload)
}

// BuildUDP returns a complete, valid UDP packet (a computed zero checksum is sent as 0xffff).
func BuildUDP(ip IP, sport, dport uint16, payload []byte) []byte {
	ip.Proto = ProtoUDP
	uh := make([]byte, 8)
	binary.BigEndian.PutUint16(uh[0:], sport)
	binary.BigEndian.PutUint16(uh[2:], dport)
	l4len := 8 + len(payload)
	binary.BigEndian.PutUint16(uh[4:], uint16(l4len))
	ck := ^Fold(PseudoSum(ip.V6, ip.Src, ip.Dst, ProtoUDP, l4len) + Sum(uh) + Sum(payload))
	if ck == 0 {
		ck = 0xffff
	}
	binary.BigEndian.PutUint16(uh[6:], ck)
	return cat(ip.Header(l4len), uh, payload)
}

// BuildRaw returns network header + l4 bytes (any protocol; no upper-layer checksum handling).
func BuildRaw(ip IP, l4 []byte) []byte { return cat(ip.Header(len(l4)), l4) }

// ---- strict parser --------------------------------------------------------------------------

// Info is what the reference parser extracts.
type Info struct {
	V6          bool
	L4Off       int  // offset of the upper-layer header (IPv4: IHL*4; IPv6: 40 + extension headers)
	Proto       byte // upper-layer protocol (for a non-first fragment: the fragmented protocol)
	DeclaredLen int  // length the IP header declares (IPv4 total length, IPv6 40 + payload length)
	FragAny     bool // MF set or offset != 0 (IPv4); fragment extension header present (IPv6)
	FragLater   bool // fragment offset != 0: no transport header present
	DF          bool
	ID          uint16
	Src, Dst    []byte

	// Transport (valid only when HasL4).
	HasL4        bool // TCP/UDP header fully present inside the declared length, not a later fragment
	L4HdrLen     int  // TCP data offset * 4, or 8 for UDP
	Sport, Dport uint16
	Seq          uint32
	Flags        byte
	Payload      []byte // upper-layer payload inside the declared length
}

var ErrParse = errors.New("gso: packet does not parse")

// Parse decodes pkt strictly: the IP header must be complete and the declared length must not
// exceed len(pkt). Bytes beyond the declared length are ignored.
func Parse(pkt []byte) (Info, error) {
	var in Info
	if len(pkt) < 20 {
		return in, ErrParse
	}
	switch pkt[0] >> 4 {
	case 4:
		ihl := int(pkt[0]&0x0f) * 4
		if ihl < 20 || len(pkt) < ihl {
			return in, ErrParse
		}
		in.DeclaredLen = int(binary.BigEndian.Uint16(pkt[2:4]))
		if in.DeclaredLen < ihl || in.DeclaredLen > len(pkt) {
			return in, ErrParse
		}
		ff := binary.BigEndian.Uint16(pkt[6:8])
		in.DF = ff&0x4000 != 0
		in.FragAny = ff&0x3fff != 0
		in.FragLater = ff&0x1fff != 0
		in.ID = binary.BigEndian.Uint16(pkt[4:6])
		in.Proto = pkt[9]
		in.L4Off = ihl
		in.Src, in.Dst = pkt[12:16], pkt[16:20]
	case 6:
		if len(pkt) < 40 {
			return in, ErrParse
		}
		in.V6 = true
		in.DeclaredLen = 40 + int(binary.BigEndian.Uint16(pkt[4:6]))
		if in.DeclaredLen > len(pkt) {
			return in, ErrParse
		}
		in.Src, in.Dst = pkt[8:24], pkt[24:40]
		nh := pkt[6]
		off := 40
		d := pkt[:in.DeclaredLen]
	walk:
		for {
			switch nh {
			case 0, 43, 60:
				if len(d) < off+2 {
					return in, ErrParse
				}
				nh, off = d[off], off+(int(d[off+1])+1)*8
			case 51:
				if len(d) < off+2 {
					return in, ErrParse
				}
				nh, off = d[off], off+(int(d[off+1])+2)*4
			case 44:
				if len(d) < off+8 {
					return in, ErrParse
				}
				in.FragAny = true
				if binary.BigEndian.Uint16(d[off+2:off+4])&0xfff8 != 0 {
					in.FragLater = true
					in.Proto = d[off]
					in.L4Off = off
					return in, nil
				}
				nh, off = d[off], off+8
			default:
				break walk
			}
		}
		if off > len(d) {
			return in, ErrParse
		}
		in.Proto = nh
		in.L4Off = off
	default:
		return in, ErrParse
	}
	d := pkt[:in.DeclaredLen]
	if in.FragLater {
		return in, nil
	}
	l4 := d[in.L4Off:]
	switch in.Proto {
	case ProtoTCP:
		if len(l4) < 20 {
			return in, nil
		}
		do := int(l4[12]>>4) * 4
		if do < 20 || do > len(l4) {
			return in, nil
		}
		in.HasL4 = true
		in.L4HdrLen = do
		in.Sport = binary.BigEndian.Uint16(l4[0:2])
		in.Dport = binary.BigEndian.Uint16(l4[2:4])
		in.Seq = binary.BigEndian.Uint32(l4[4:8])
		in.Flags = l4[13]
		in.Payload = l4[do:]
	case ProtoUDP:
		if len(l4) < 8 {
			return in, nil
		}
		in.HasL4 = true
		in.L4HdrLen = 8
		in.Sport = binary.BigEndian.Uint16(l4[0:2])
		in.Dport = binary.BigEndian.Uint16(l4[2:4])
		in.Payload = l4[8:]
	}
	return in, nil
}

// VerifyIPv4 reports whether the IPv4 header checksum of pkt verifies.
func VerifyIPv4(pkt []byte) bool {
	ihl := int(pkt[0]&0x0f) * 4
	return Fold(Sum(pkt[:ihl])) == 0xffff
}

// VerifyL4 reports whether the TCP/UDP checksum over the declared length verifies against the
// pseudo header (UDP: a zero checksum field does NOT verify here; callers decide).
func VerifyL4(pkt []byte, in Info) bool {
	l4 := pkt[in.L4Off:in.DeclaredLen]
	return Fold(PseudoSum(in.V6, in.Src, in.Dst, in.Proto, len(l4))+Sum(l4)) == 0xffff
}

// ---- reference kernel segmenter -------------------------------------------------------------

// Virtio GSO types (virtio_net_hdr.gso_type).
const (
	GSONone  = 0
	GSOTCPv4 = 1
	GSOUDP   = 3
	GSOTCPv6 = 4
	GSOUDPL4 = 5
	GSOECN   = 0x80
)

// MaxSegs is the segment-count ceiling applied to offloaded writes (UDP_MAX_SEGMENTS on the
// kernels that introduced USO; the coalescers document the same bound for TCP).
const MaxSegs = 64

// Super is a packet handed to the tun device together with its virtio_net_hdr.
type Super struct {
	NeedsCsum  bool // VIRTIO_NET_HDR_F_NEEDS_CSUM
	GSOType    byte
	GSOSize    int
	CsumStart  int
	CsumOffset int
	Data       []byte // IP packet
}

// Segment validates s the way the tun write path and ip_rcv/ipv6_rcv do and returns the packets
// the stack ends up with (one for a non-GSO write). An error means the kernel would refuse or
// mangle the write ("geometry the kernel does not accept").
func Segment(s Super) ([][]byte, error) {
	d := s.Data
	if len(d) > 65535 {
		return nil, fmt.Errorf("write of %d bytes exceeds 65535", len(d))
	}
	in, err := Parse(d)
	if err != nil {
		return nil, fmt.Errorf("ip header does not parse")
	}
	if in.DeclaredLen != len(d) {
		return nil, fmt.Errorf("ip-declared length %d != write length %d (ip_rcv would trim or drop)", in.DeclaredLen, len(d))
	}
	if !in.V6 && !VerifyIPv4(d) {
		return nil, fmt.Errorf("ipv4 header checksum does not verify (ip_rcv drops)")
	}
	if !s.NeedsCsum {
		if s.GSOType != GSONone {
			return nil, fmt.Errorf("gso type %d without NEEDS_CSUM", s.GSOType)
		}
		return [][]byte{append([]byte(nil), d...)}, nil
	}
	// NEEDS_CSUM: skb_partial_csum_set + transport header checks
	var proto byte
	var csOff int
	switch s.GSOType &^ GSOECN {
	case GSONone:
		proto = in.Proto
		switch proto {
		case ProtoTCP:
			csOff = 16
		case ProtoUDP:
			csOff = 6
		default:
			return nil, fmt.Errorf("NEEDS_CSUM on protocol %d", proto)
		}
	case GSOTCPv4:
		if in.V6 {
			return nil, fmt.Errorf("GSO_TCPV4 on an IPv6 packet")
		}
		proto, csOff = ProtoTCP, 16
	case GSOTCPv6:
		if !in.V6 {
			return nil, fmt.Errorf("GSO_TCPV6 on an IPv4 packet")
		}
		proto, csOff = ProtoTCP, 16
	case GSOUDPL4:
		if s.GSOType&GSOECN != 0 {
			return nil, fmt.Errorf("GSO_ECN on UDP_L4")
		}
		proto, csOff = ProtoUDP, 6
	default:
		return nil, fmt.Errorf("unsupported gso type %d", s.GSOType)
	}
	if s.GSOType != GSONone && s.GSOSize == 0 {
		return nil, fmt.Errorf("gso type %d with gso_size 0", s.GSOType)
	}
	if in.Proto != proto {
		return nil, fmt.Errorf("ip protocol %d does not match offload protocol %d", in.Proto, proto)
	}
	if in.FragAny {
		return nil, fmt.Errorf("offload write of a fragment")
	}
	if s.CsumStart != in.L4Off {
		return nil, fmt.Errorf("csum_start %d != transport offset %d", s.CsumStart, in.L4Off)
	}
	if s.CsumOffset != csOff {
		return nil, fmt.Errorf("csum_offset %d, want %d", s.CsumOffset, csOff)
	}
	if !in.HasL4 {
		return nil, fmt.Errorf("transport header incomplete")
	}
	l4len := len(d) - in.L4Off
	// the checksum field must hold the (not inverted) pseudo-header sum for the whole write
	field := binary.BigEndian.Uint16(d[in.L4Off+csOff:])
	if want := Fold(PseudoSum(in.V6, in.Src, in.Dst, proto, l4len)); !SameOnes(field, want) {
		return nil, fmt.Errorf("checksum field %#04x is not the pseudo-header sum %#04x for l4 length %d", field, want, l4len)
	}
	if proto == ProtoUDP {
		if ul := int(binary.BigEndian.Uint16(d[in.L4Off+4:])); ul != l4len {
			return nil, fmt.Errorf("udp length %d != %d", ul, l4len)
		}
	}
	g := s.GSOSize
	if s.GSOType == GSONone {
		g = 0
	}
	return expand(d, in, g, MaxSegs)
}

// Expand splits a complete TCP/UDP packet d (lengths consistent, not a fragment) into segments of at
// most g payload bytes the way kernel GSO does: every segment carries a copy of the headers with
// lengths rewritten, IPv4 ID + i, TCP sequence + payload offset, PSH/FIN only on the last segment,
// CWR only on the first, and freshly computed checksums (UDP: computed zero sent as 0xffff). A
// payload of at most g bytes (or g == 0) yields the packet itself with its checksums completed.
// maxSegs <= 0 means no ceiling.
func Expand(d []byte, g int, maxSegs int) ([][]byte, error) {
	in, err := Parse(d)
	if err != nil || in.DeclaredLen != len(d) || !in.HasL4 || in.FragAny {
		return nil, fmt.Errorf("gso.Expand: not a complete TCP/UDP packet")
	}
	return expand(d, in, g, maxSegs)
}

func expand(d []byte, in Info, g int, maxSegs int) ([][]byte, error) {
	csOff := 16
	if in.Proto == ProtoUDP {
		csOff = 6
	}
	hdrLen := in.L4Off + in.L4HdrLen
	payload := d[hdrLen:]
	if g <= 0 || len(payload) <= g {
		// "too small packets are not really GSO ones": checksum completed, nothing else rewritten
		return [][]byte{finish(d, in, in.Proto, csOff, nil, 0, 0, true, true)}, nil
	}
	n := (len(payload) + g - 1) / g
	if maxSegs > 0 && n > maxSegs {
		return nil, fmt.Errorf("%d segments exceed %d", n, maxSegs)
	}
	out := make([][]byte, 0, n)
	for i := 0; i < n; i++ {
		lo, hi := i*g, (i+1)*g
		if hi > len(payload) {
			hi = len(payload)
		}
		out = append(out, finish(d[:hdrLen], in, in.Proto, csOff, payload[lo:hi], i, lo, i == 0, i == n-1))
	}
	return out, nil
}

// finish builds segment i: header copy, lengths, IPv4 ID + i, TCP seq + offset, PSH/FIN only on the
// last, CWR only on the first, checksums from scratch. With pay == nil hdr is a whole packet.
func finish(hdr []byte, in Info, proto byte, csOff int, pay []byte, i, off int, first, last bool) []byte {
	seg := cat(hdr, pay)
	l4 := seg[in.L4Off:]
	if proto == ProtoTCP {
		binary.BigEndian.PutUint32(l4[4:], binary.BigEndian.Uint32(l4[4:])+uint32(off))
		if !first {
			l4[13] &^= CWR
		}
		if !last {
			l4[13] &^= FIN | PSH
		}
	} else {
		binary.BigEndian.PutUint16(l4[4:], uint16(len(l4)))
	}
	if in.V6 {
		binary.BigEndian.PutUint16(seg[4:], uint16(len(seg)-40))
	} else {
		binary.BigEndian.PutUint16(seg[2:], uint16(len(seg)))
		binary.BigEndian.PutUint16(seg[4:], in.ID+uint16(i))
		seg[10], seg[11] = 0, 0
		binary.BigEndian.PutUint16(seg[10:], ^Fold(Sum(seg[:in.L4Off])))
	}
	l4[csOff], l4[csOff+1] = 0, 0
	ck := ^Fold(PseudoSum(in.V6, in.Src, in.Dst, proto, len(l4)) + Sum(l4))
	if proto == ProtoUDP && ck == 0 {
		ck = 0xffff
	}
	binary.BigEndian.PutUint16(l4[csOff:], ck)
	return seg
}
