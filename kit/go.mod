module verifkit

go 1.26.0

require pgregory.net/rapid v1.3.0
