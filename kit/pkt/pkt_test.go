package pkt

import (
	"bytes"
	"encoding/hex"
	"net/netip"
	"testing"
)

func TestChecksumVectors(t *testing.T) {
	// RFC 1071 section 3 example: 00 01 f2 03 f4 f5 f6 f7 -> sum ddf2 -> checksum 220d
	if c := Checksum([]byte{0x00, 0x01, 0xf2, 0x03, 0xf4, 0xf5, 0xf6, 0xf7}); c != 0x220d {
		t.Fatalf("rfc1071 vector: %04x", c)
	}
	// well known IPv4 header example (wikipedia): checksum b861
	h, _ := hex.DecodeString("450000730000400040110000c0a80001c0a800c7")
	if c := Checksum(h); c != 0xb861 {
		t.Fatalf("ipv4 header vector: %04x", c)
	}
	if Checksum([]byte{0xff}) != 0x00ff || Checksum(nil) != 0xffff {
		t.Fatal("odd/empty")
	}
}

func TestBuildParseRoundTrip(t *testing.T) {
	s6, d6 := netip.MustParseAddr("fd00::1"), netip.MustParseAddr("fd00::2")
	p := &Packet{V6: true, Src: s6, Dst: d6, TTL: 64,
		Ext:   []Ext{{Type: ProtoHopByHop}, {Type: ProtoRouting, Data: make([]byte, 22)}, {Type: ProtoAH}, {Type: ProtoFragment, MF: true, ID: 7}, {Type: ProtoDestOpts}},
		Proto: ProtoTCP, L4: TCP{SrcPort: 1, DstPort: 2, Seq: 5, Flags: TCPSyn, Options: []byte{2, 4, 5, 0xb4}, Payload: []byte("abc")}}
	b := p.Bytes()
	in, err := Parse(b)
	if err != nil {
		t.Fatal(err)
	}
	if len(in.Ext) != 5 || in.Proto != ProtoTCP || !in.Frag || in.NonFirst || !in.HasPorts || in.SrcPort != 1 || in.DstPort != 2 ||
		in.L4Off != 40+8+24+12+8+8 || in.TCP == nil || in.TCP.DataOff != 24 || in.Src != s6 || in.Dst != d6 {
		t.Fatalf("%+v", in)
	}
	// fragment => L4 checksum not verified, payload length anomaly-free
	if !in.WellFormed() {
		t.Fatalf("anomalies %v", in.Anomalies)
	}
	// every truncation inside the chain is an error, none panics
	for i := 0; i < in.L4Off; i++ {
		if _, err := Parse(b[:i]); err == nil {
			t.Fatalf("truncation at %d accepted", i)
		}
	}
	if _, err := Parse(b[:in.L4Off]); err != nil {
		t.Fatal(err)
	}

	s4, d4 := netip.MustParseAddr("10.0.0.1"), netip.MustParseAddr("10.0.0.2")
	q := &Packet{Src: s4, Dst: d4, TTL: 9, Options: []byte{1, 1, 1}, Flags: 2, Proto: ProtoUDP, L4: UDP{SrcPort: 53, DstPort: 99, Payload: []byte{1}}}
	b = q.Bytes()
	in, err = Parse(b)
	if err != nil || !in.WellFormed() || in.HdrLen != 24 || in.SrcPort != 53 || in.DstPort != 99 || in.Frag {
		t.Fatalf("%v %+v", err, in)
	}
	b[len(b)-1] ^= 1
	if in, _ = Parse(b); in.WellFormed() {
		t.Fatal("corrupted udp payload not noticed")
	}
	q = &Packet{Src: s4, Dst: d4, Proto: ProtoICMP, L4: ICMP{Type: 8, ID: 77, Payload: []byte{1, 2, 3}}}
	in, err = Parse(q.Bytes())
	if err != nil || !in.WellFormed() || !in.ICMPHasID() || in.ICMPID != 77 {
		t.Fatalf("%v %+v", err, in)
	}
	r := &Packet{V6: true, Src: s6, Dst: d6, Proto: ProtoICMPv6, L4: ICMP{Type: 1, Code: 1, Payload: []byte{1, 2, 3}}}
	in, err = Parse(r.Bytes())
	if err != nil || !in.WellFormed() || !in.ICMPIsError() {
		t.Fatalf("%v %+v", err, in)
	}
	// non-first fragment: protocol is the fragment header's next header, no ports
	r = &Packet{V6: true, Src: s6, Dst: d6, Ext: []Ext{{Type: ProtoDestOpts}, {Type: ProtoFragment, FragOff: 3}}, Proto: ProtoUDP, L4: Raw(bytes.Repeat([]byte{9}, 16))}
	in, err = Parse(r.Bytes())
	if err != nil || !in.NonFirst || in.HasPorts || in.Proto != ProtoUDP || in.FragHdrOff != 48 || in.L4Off != 56 || in.FragOff != 24 {
		t.Fatalf("%v %+v", err, in)
	}
	// look-alike terminal is not walked
	r = &Packet{V6: true, Src: s6, Dst: d6, Ext: []Ext{{Type: 135}, {Type: ProtoDestOpts}}, Proto: ProtoUDP, L4: UDP{}}
	in, err = Parse(r.Bytes())
	if err != nil || in.Proto != 135 || in.L4Off != 40 || len(in.Ext) != 0 {
		t.Fatalf("%v %+v", err, in)
	}
	// wrong fields are reported as anomalies / errors
	q = &Packet{Src: s4, Dst: d4, Proto: ProtoTCP, L4: TCP{}, IHL: 16}
	if _, err = Parse(q.Bytes()); err != ErrBadIHL {
		t.Fatal(err)
	}
	q = &Packet{Src: s4, Dst: d4, Proto: ProtoTCP, L4: TCP{}, LenDelta: 3, BadSum: true}
	if in, err = Parse(q.Bytes()); err != nil || len(in.Anomalies) != 2 {
		t.Fatalf("%v %v", err, in.Anomalies)
	}
}
