// Package pkt is the shared IP packet kit of the /verif harnesses (standard library only). It has
// three independent parts that deliberately share no code with slackhq/nebula, gopacket or x/net:
//
//  1. A structured BUILDER. Fill a Packet (IPv4 or IPv6 header fields, IPv4 options, an IPv6
//     extension header chain []Ext, an upper layer TCP / UDP / ICMP / Raw) and call Bytes(). All
//     lengths, next-header links and checksums are computed, and every one of them can be made
//     deliberately wrong (Packet.IHL, Packet.LenDelta, Packet.BadSum, Ext.ForceLen, TCP.DataOff,
//     UDP.LenDelta, *.BadSum). Truncation is done by the caller by slicing the result.
//
//     b := (&pkt.Packet{V6: true, Src: s, Dst: d, TTL: 64,
//     Ext:   []pkt.Ext{{Type: pkt.ProtoHopByHop}, {Type: pkt.ProtoFragment, MF: true, ID: 7}},
//     Proto: pkt.ProtoTCP, L4: pkt.TCP{SrcPort: 1, DstPort: 2, Flags: pkt.TCPSyn}}).Bytes()
//
//  2. A strict REFERENCE PARSER, Parse(b). It is bounded by the buffer (never by the declared
//     length fields), walks exactly the RFC 8200 extension headers {0,43,44,51,60}, stops at a
//     non-first fragment, and reports addresses, upper-layer protocol, offsets, fragment status,
//     ports / ICMP type,code,id / the TCP header. It returns an error (with the partial Info) when
//     the IP header or the extension chain cannot be fully resolved inside the buffer. Everything a
//     strict receiver would additionally object to (declared length != buffer, bad IPv4 header
//     checksum, bad TCP/UDP/ICMP checksum, hop-by-hop not first, TCP data offset < 5 ...) is listed
//     in Info.Anomalies and does not stop the parse; Info.WellFormed() means "no anomalies".
//
//  3. An independent RFC 1071 CHECKSUM: Checksum(b), PseudoHeader(src,dst,proto,len) (the literal
//     RFC 793 / RFC 8200 section 8.1 pseudo header bytes) and L4Checksum(src,dst,proto,segment).
//     A segment that carries a correct checksum sums to 0: L4Checksum(...)==0, Checksum(hdr)==0.
//
// Conventions: protocol numbers are plain uint8 (constants Proto*); addresses are netip.Addr
// (4-byte form for IPv4, 16-byte form for IPv6, exactly as netip.AddrFromSlice returns them);
// fragment offsets in the builder are in 8-byte units (as on the wire), Info.FragOff is in bytes.
package pkt

import (
	"encoding/binary"
	"errors"
	"fmt"
	"net/netip"
)

// Protocol numbers used by the kit.
const (
	ProtoHopByHop = 0
	ProtoICMP     = 1
	ProtoTCP      = 6
	ProtoUDP      = 17
	ProtoRouting  = 43
	ProtoFragment = 44
	ProtoESP      = 50
	ProtoAH       = 51
	ProtoICMPv6   = 58
	ProtoNoNext   = 59
	ProtoDestOpts = 60
)

// TCP flag bits (byte 13 of the TCP header).
const (
	TCPFin = 1 << iota
	TCPSyn
	TCPRst
	TCPPsh
	TCPAck
	TCPUrg
	TCPEce
	TCPCwr
)

// IsExt reports whether p is one of the IPv6 extension headers a receiver walks through
// (hop-by-hop, routing, fragment, AH, destination options). Everything else is an upper layer.
func IsExt(p uint8) bool {
	return p == ProtoHopByHop || p == ProtoRouting || p == ProtoFragment || p == ProtoAH || p == ProtoDestOpts
}

// ---------------------------------------------------------------------------------------------
// checksum

// Sum is the unfolded one's complement sum of b taken as big-endian 16-bit words (an odd last byte
// is padded with zero on the right).
func Sum(b []byte) uint64 {
	var s uint64
	n := len(b) &^ 1
	for i := 0; i < n; i += 2 {
		s += uint64(binary.BigEndian.Uint16(b[i:]))
	}
	if len(b)&1 == 1 {
		s += uint64(b[len(b)-1]) << 8
	}
	return s
}

// Fold folds the carries of s into 16 bits and complements the result (RFC 1071).
func Fold(s uint64) uint16 {
	for s>>16 != 0 {
		s = s&0xffff + s>>16
	}
	return ^uint16(s)
}

// Checksum is the RFC 1071 internet checksum of b.
func Checksum(b []byte) uint16 { return Fold(Sum(b)) }

// PseudoHeader returns the literal pseudo header bytes for an upper-layer segment of l4len bytes:
// 12 bytes for IPv4 (src, dst, zero, proto, length16), 40 bytes for IPv6 (src, dst, length32,
// 3 zero bytes, next header).
func PseudoHeader(src, dst netip.Addr, proto uint8, l4len int) []byte {
	if src.Is4() {
		s, d := src.As4(), dst.As4()
		ph := make([]byte, 12)
		copy(ph[0:], s[:])
		copy(ph[4:], d[:])
		ph[9] = proto
		binary.BigEndian.PutUint16(ph[10:], uint16(l4len))
		return ph
	}
	s, d := src.As16(), dst.As16()
	ph := make([]byte, 40)
	copy(ph[0:], s[:])
	copy(ph[16:], d[:])
	binary.BigEndian.PutUint32(ph[32:], uint32(l4len))
	ph[39] = proto
	return ph
}

// L4Checksum is the checksum over pseudo header + segment. With the checksum field of seg zeroed
// it is the value to store; over a segment holding a correct checksum it is 0.
func L4Checksum(src, dst netip.Addr, proto uint8, seg []byte) uint16 {
	return Fold(Sum(PseudoHeader(src, dst, proto, len(seg))) + Sum(seg))
}

// ---------------------------------------------------------------------------------------------
// builder

// Layer is an upper-layer payload the builder can marshal: TCP, UDP, ICMP or Raw.
type Layer interface {
	marshal(src, dst netip.Addr, proto uint8) []byte
}

// Raw is an uninterpreted upper-layer byte string.
type Raw []byte

func (r Raw) marshal(_, _ netip.Addr, _ uint8) []byte { return append([]byte(nil), r...) }

// TCP is a TCP segment. Options are zero padded to a multiple of 4 (at most 40 bytes are used).
type TCP struct {
	SrcPort, DstPort uint16
	Seq, Ack         uint32
	Flags            uint8 // TCPFin ... TCPCwr
	Reserved         uint8 // low 4 bits of byte 12
	Window, Urgent   uint16
	Options          []byte
	Payload          []byte
	DataOff          uint8 // 0: computed; otherwise the low 4 bits are written as is (16 writes 0)
	BadSum           bool
}

func (t TCP) marshal(src, dst netip.Addr, proto uint8) []byte {
	opts := padTo(t.Options, 4, 40, 0)
	b := make([]byte, 20+len(opts)+len(t.Payload))
	binary.BigEndian.PutUint16(b[0:], t.SrcPort)
	binary.BigEndian.PutUint16(b[2:], t.DstPort)
	binary.BigEndian.PutUint32(b[4:], t.Seq)
	binary.BigEndian.PutUint32(b[8:], t.Ack)
	do := uint8(5 + len(opts)/4)
	if t.DataOff != 0 {
		do = t.DataOff & 0x0f
	}
	b[12] = do<<4 | t.Reserved&0x0f
	b[13] = t.Flags
	binary.BigEndian.PutUint16(b[14:], t.Window)
	binary.BigEndian.PutUint16(b[18:], t.Urgent)
	copy(b[20:], opts)
	copy(b[20+len(opts):], t.Payload)
	cs := L4Checksum(src, dst, proto, b)
	if t.BadSum {
		cs ^= 0x5a5a
	}
	binary.BigEndian.PutUint16(b[16:], cs)
	return b
}

// UDP is a UDP datagram.
type UDP struct {
	SrcPort, DstPort uint16
	Payload          []byte
	LenDelta         int // added to the correct UDP length field
	BadSum           bool
}

func (u UDP) marshal(src, dst netip.Addr, proto uint8) []byte {
	b := make([]byte, 8+len(u.Payload))
	binary.BigEndian.PutUint16(b[0:], u.SrcPort)
	binary.BigEndian.PutUint16(b[2:], u.DstPort)
	binary.BigEndian.PutUint16(b[4:], uint16(clamp(len(b)+u.LenDelta, 0, 0xffff)))
	copy(b[8:], u.Payload)
	cs := L4Checksum(src, dst, proto, b)
	if cs == 0 {
		cs = 0xffff
	}
	if u.BadSum {
		cs ^= 0x5a5a
	}
	binary.BigEndian.PutUint16(b[6:], cs)
	return b
}

// ICMP is an ICMPv4 message (under IPv4: plain checksum) or an ICMPv6 message (under IPv6:
// checksum with pseudo header). ID and Seq are bytes 4..8 ("rest of header").
type ICMP struct {
	Type, Code uint8
	ID, Seq    uint16
	Payload    []byte
	BadSum     bool
}

func (c ICMP) marshal(src, dst netip.Addr, proto uint8) []byte {
	b := make([]byte, 8+len(c.Payload))
	b[0], b[1] = c.Type, c.Code
	binary.BigEndian.PutUint16(b[4:], c.ID)
	binary.BigEndian.PutUint16(b[6:], c.Seq)
	copy(b[8:], c.Payload)
	var cs uint16
	if src.Is4() {
		cs = Checksum(b)
	} else {
		cs = L4Checksum(src, dst, proto, b)
	}
	if c.BadSum {
		cs ^= 0x5a5a
	}
	binary.BigEndian.PutUint16(b[2:], cs)
	return b
}

// Ext is one IPv6 extension header. Type is the number that announces it in the previous header's
// Next Header field. Fragment (44) uses FragOff/MF/ID; AH (51) is laid out in 4-byte units
// (length field = words-2, Data = reserved, SPI, sequence, ICV); every other Type is laid out as
// the generic (next header, hdr ext len, data) header in 8-byte units, Data being option TLVs or
// routing data. Data is padded to the unit (PadN / Pad1 TLVs for the generic form, zeros for AH).
type Ext struct {
	Type     uint8
	Data     []byte
	FragOff  uint16 // 13 bits, 8-byte units
	MF       bool
	FragRes  uint8 // the 2 reserved bits next to MF
	ID       uint32
	ForceLen bool  // write Len into the length field instead of the true value (not for Fragment,
	Len      uint8 // whose second byte is "reserved": there Len is written into that byte)
}

func (e Ext) marshal(next uint8) []byte {
	switch e.Type {
	case ProtoFragment:
		b := make([]byte, 8)
		b[0] = next
		if e.ForceLen {
			b[1] = e.Len
		}
		v := e.FragOff<<3 | uint16(e.FragRes&3)<<1
		if e.MF {
			v |= 1
		}
		binary.BigEndian.PutUint16(b[2:], v)
		binary.BigEndian.PutUint32(b[4:], e.ID)
		return b
	case ProtoAH:
		d := append([]byte(nil), e.Data...)
		if len(d) < 10 {
			d = append(d, make([]byte, 10-len(d))...)
		}
		for (len(d)+2)%4 != 0 {
			d = append(d, 0)
		}
		if len(d)+2 > 1024 {
			d = d[:1022]
		}
		b := append([]byte{next, uint8((len(d)+2)/4 - 2)}, d...)
		if e.ForceLen {
			b[1] = e.Len
		}
		return b
	default:
		d := append([]byte(nil), e.Data...)
		if len(d)+2 > 2048 {
			d = d[:2046]
		}
		if pad := (8 - (len(d)+2)%8) % 8; pad == 1 {
			d = append(d, 0) // Pad1
		} else if pad > 1 {
			d = append(d, 1, uint8(pad-2)) // PadN
			d = append(d, make([]byte, pad-2)...)
		}
		b := append([]byte{next, uint8((len(d)+2)/8 - 1)}, d...)
		if e.ForceLen {
			b[1] = e.Len
		}
		return b
	}
}

// Packet is a structured IPv4 (V6 false) or IPv6 (V6 true) packet.
type Packet struct {
	V6       bool
	Src, Dst netip.Addr // must be of the packet's family
	TOS      uint8      // IPv4 TOS / IPv6 traffic class
	TTL      uint8      // IPv4 TTL / IPv6 hop limit

	// IPv4 only
	ID      uint16
	Flags   uint8  // 3 bits: 4 reserved, 2 DF, 1 MF
	FragOff uint16 // 13 bits, 8-byte units
	Options []byte // raw option bytes, zero padded to a multiple of 4, at most 40

	// IPv6 only
	Flow uint32 // 20 bits
	Ext  []Ext

	Proto uint8 // upper-layer protocol number announced for L4
	L4    Layer // nil: nothing follows the headers

	// deliberate inconsistencies
	IHL      uint8 // IPv4: if nonzero its low 4 bits are written instead of the true IHL (16 writes 0)
	LenDelta int   // added to the true total length (IPv4) / payload length (IPv6) field
	BadSum   bool  // IPv4: wrong header checksum
}

// Bytes lays the packet out.
func (p *Packet) Bytes() []byte {
	var l4 []byte
	if p.L4 != nil {
		l4 = p.L4.marshal(p.Src, p.Dst, p.Proto)
	}
	if !p.V6 {
		opts := padTo(p.Options, 4, 40, 0)
		hl := 20 + len(opts)
		b := make([]byte, hl+len(l4))
		ihl := uint8(hl / 4)
		if p.IHL != 0 {
			ihl = p.IHL & 0x0f
		}
		b[0] = 4<<4 | ihl
		b[1] = p.TOS
		binary.BigEndian.PutUint16(b[2:], uint16(clamp(len(b)+p.LenDelta, 0, 0xffff)))
		binary.BigEndian.PutUint16(b[4:], p.ID)
		binary.BigEndian.PutUint16(b[6:], uint16(p.Flags&7)<<13|p.FragOff&0x1fff)
		b[8] = p.TTL
		b[9] = p.Proto
		s, d := p.Src.As4(), p.Dst.As4()
		copy(b[12:], s[:])
		copy(b[16:], d[:])
		copy(b[20:], opts)
		cs := Checksum(b[:hl])
		if p.BadSum {
			cs ^= 0x5a5a
		}
		binary.BigEndian.PutUint16(b[10:], cs)
		copy(b[hl:], l4)
		return b
	}
	var chain []byte
	first := p.Proto
	for i, e := range p.Ext {
		next := p.Proto
		if i+1 < len(p.Ext) {
			next = p.Ext[i+1].Type
		}
		if i == 0 {
			first = e.Type
		}
		chain = append(chain, e.marshal(next)...)
	}
	b := make([]byte, 40, 40+len(chain)+len(l4))
	binary.BigEndian.PutUint32(b[0:], 6<<28|uint32(p.TOS)<<20|p.Flow&0xfffff)
	binary.BigEndian.PutUint16(b[4:], uint16(clamp(len(chain)+len(l4)+p.LenDelta, 0, 0xffff)))
	b[6] = first
	b[7] = p.TTL
	s, d := p.Src.As16(), p.Dst.As16()
	copy(b[8:], s[:])
	copy(b[24:], d[:])
	b = append(b, chain...)
	b = append(b, l4...)
	return b
}

func padTo(in []byte, unit, max int, fill byte) []byte {
	o := append([]byte(nil), in...)
	if len(o) > max {
		o = o[:max]
	}
	for len(o)%unit != 0 {
		o = append(o, fill)
	}
	return o
}

func clamp(v, lo, hi int) int {
	if v < lo {
		return lo
	}
	if v > hi {
		return hi
	}
	return v
}

// ---------------------------------------------------------------------------------------------
// reference parser

// Parse errors. A non-nil error means the packet cannot be classified from the bytes in the buffer.
var (
	ErrEmpty          = errors.New("pkt: empty buffer")
	ErrVersion        = errors.New("pkt: IP version is neither 4 nor 6")
	ErrShortHeader    = errors.New("pkt: buffer shorter than the fixed IP header")
	ErrBadIHL         = errors.New("pkt: IPv4 header length below 20 or beyond the buffer")
	ErrTruncatedChain = errors.New("pkt: IPv6 extension header chain does not end inside the buffer")
)

// ExtInfo is one walked IPv6 extension header.
type ExtInfo struct {
	Type     uint8 // its own protocol number
	Next     uint8 // its Next Header field
	Off, Len int   // position in the buffer and length in bytes
}

// TCPInfo is a decoded fixed TCP header (present when 20 bytes are in the buffer).
type TCPInfo struct {
	Seq, Ack uint32
	DataOff  int // in bytes, as declared
	Flags    uint8
	Window   uint16
	Sum      uint16
	Urgent   uint16
}

// Info is what Parse found. Fields after an error are valid up to the point of failure.
type Info struct {
	Version  int
	Src, Dst netip.Addr
	HdrLen   int       // IPv4: IHL*4; IPv6: 40
	DeclLen  int       // packet length the header declares (IPv4 total length, IPv6 40+payload length)
	TTL      uint8     // TTL / hop limit
	Ext      []ExtInfo // IPv6 extension headers walked, in order
	ExtDone  bool      // IPv6: the chain was resolved to an upper layer or a non-first fragment
	Proto    uint8     // upper-layer protocol: IPv4 protocol field; IPv6 first non-extension Next Header, or for a non-first fragment the Next Header of that fragment header (may be an extension header number)
	L4Off    int       // where the upper-layer bytes start (non-first fragment: just after the fragment header)
	L4       []byte    // b[L4Off:] (aliases the input)
	Frag     bool      // any fragmentation: IPv4 MF or offset != 0; IPv6 a fragment header in the chain
	NonFirst bool      // fragment offset != 0: no upper-layer header in this packet
	MoreFrag bool
	FragOff  int // byte offset of this fragment's data in the original datagram
	// IPv6: offset of the fragment header that decided NonFirst (or the last one seen), -1 if none
	FragHdrOff int

	HasPorts         bool // TCP/UDP, not a non-first fragment, >= 4 upper-layer bytes in the buffer
	SrcPort, DstPort uint16
	HasICMP          bool // ICMP (v4) / ICMPv6 (v6), not a non-first fragment, >= 4 bytes (type, code, checksum)
	ICMPType         uint8
	ICMPCode         uint8
	HasICMPRest      bool   // >= 6 bytes: ICMPID below is bytes 4..6 of the message
	ICMPID           uint16 // meaningful as an identifier only if ICMPHasID()
	TCP              *TCPInfo

	Anomalies []string // strict-mode objections that do not stop the parse
}

// WellFormed reports that a strict receiver has nothing to object to.
func (i *Info) WellFormed() bool { return len(i.Anomalies) == 0 }

// ICMPHasID reports whether the ICMP message type carries an identifier in bytes 4..6 (echo and the
// other query/reply pairs).
func (i *Info) ICMPHasID() bool {
	if !i.HasICMP {
		return false
	}
	if i.Version == 4 {
		switch i.ICMPType {
		case 0, 8, 13, 14, 15, 16, 17, 18:
			return true
		}
		return false
	}
	return i.ICMPType == 128 || i.ICMPType == 129
}

// ICMPIsError reports whether the ICMP message is an error message (RFC 1122 3.2.2 / RFC 4443 2.1).
func (i *Info) ICMPIsError() bool {
	if !i.HasICMP {
		return false
	}
	if i.Version == 4 {
		switch i.ICMPType {
		case 3, 4, 5, 11, 12:
			return true
		}
		return false
	}
	return i.ICMPType < 128
}

func (i *Info) anomaly(f string, a ...any) { i.Anomalies = append(i.Anomalies, fmt.Sprintf(f, a...)) }

// Parse is the strict reference parser (see the package comment).
func Parse(b []byte) (*Info, error) {
	in := &Info{FragHdrOff: -1}
	if len(b) == 0 {
		return in, ErrEmpty
	}
	switch b[0] >> 4 {
	case 4:
		in.Version = 4
		return in, parse4(b, in)
	case 6:
		in.Version = 6
		return in, parse6(b, in)
	}
	return in, ErrVersion
}

func parse4(b []byte, in *Info) error {
	if len(b) < 20 {
		return ErrShortHeader
	}
	in.HdrLen = int(b[0]&0x0f) * 4
	in.DeclLen = int(binary.BigEndian.Uint16(b[2:]))
	in.TTL = b[8]
	in.Proto = b[9]
	in.Src = netip.AddrFrom4([4]byte(b[12:16]))
	in.Dst = netip.AddrFrom4([4]byte(b[16:20]))
	ff := binary.BigEndian.Uint16(b[6:])
	in.MoreFrag = ff&0x2000 != 0
	in.FragOff = int(ff&0x1fff) * 8
	in.NonFirst = in.FragOff != 0
	in.Frag = in.NonFirst || in.MoreFrag
	if in.HdrLen < 20 || in.HdrLen > len(b) {
		return ErrBadIHL
	}
	in.L4Off = in.HdrLen
	in.L4 = b[in.L4Off:]
	if Checksum(b[:in.HdrLen]) != 0 {
		in.anomaly("v4-header-checksum")
	}
	if in.DeclLen != len(b) {
		in.anomaly("v4-total-length %d != buffer %d", in.DeclLen, len(b))
	}
	if ff&0x8000 != 0 {
		in.anomaly("v4-reserved-flag")
	}
	parseL4(in)
	return nil
}

func parse6(b []byte, in *Info) error {
	if len(b) < 40 {
		return ErrShortHeader
	}
	in.HdrLen = 40
	in.DeclLen = 40 + int(binary.BigEndian.Uint16(b[4:]))
	in.TTL = b[7]
	in.Src = netip.AddrFrom16([16]byte(b[8:24]))
	in.Dst = netip.AddrFrom16([16]byte(b[24:40]))
	if in.DeclLen != len(b) {
		in.anomaly("v6-payload-length %d != buffer %d", in.DeclLen-40, len(b)-40)
	}
	next, off := b[6], 40
	in.Proto, in.L4Off = next, off
	for IsExt(next) {
		in.Proto, in.L4Off = next, off
		// the two bytes every extension header starts with
		if off+2 > len(b) {
			return ErrTruncatedChain
		}
		var l int
		switch next {
		case ProtoFragment:
			l = 8
		case ProtoAH:
			l = (int(b[off+1]) + 2) * 4
		default:
			l = (int(b[off+1]) + 1) * 8
		}
		if off+l > len(b) {
			return ErrTruncatedChain
		}
		e := ExtInfo{Type: next, Next: b[off], Off: off, Len: l}
		if next == ProtoHopByHop && len(in.Ext) != 0 {
			in.anomaly("v6-hop-by-hop-not-first")
		}
		if next == ProtoAH && l < 12 {
			in.anomaly("v6-ah-too-short")
		}
		in.Ext = append(in.Ext, e)
		if next == ProtoFragment {
			v := binary.BigEndian.Uint16(b[off+2:])
			in.Frag = true
			in.FragHdrOff = off
			in.MoreFrag = v&1 != 0
			in.FragOff = int(v>>3) * 8
			if in.FragOff != 0 {
				in.NonFirst = true
				in.Proto = e.Next
				in.L4Off = off + 8
				in.L4 = b[in.L4Off:]
				in.ExtDone = true
				return nil
			}
		}
		next, off = e.Next, off+l
	}
	in.Proto, in.L4Off = next, off
	in.L4 = b[off:]
	in.ExtDone = true
	parseL4(in)
	return nil
}

func parseL4(in *Info) {
	if in.NonFirst {
		return
	}
	l4 := in.L4
	complete := in.DeclLen == in.L4Off+len(l4) && !in.Frag
	switch {
	case in.Proto == ProtoTCP || in.Proto == ProtoUDP:
		if len(l4) >= 4 {
			in.HasPorts = true
			in.SrcPort = binary.BigEndian.Uint16(l4[0:])
			in.DstPort = binary.BigEndian.Uint16(l4[2:])
		}
		if in.Proto == ProtoTCP {
			if len(l4) < 20 {
				in.anomaly("tcp-header-truncated")
				return
			}
			t := &TCPInfo{
				Seq: binary.BigEndian.Uint32(l4[4:]), Ack: binary.BigEndian.Uint32(l4[8:]),
				DataOff: int(l4[12]>>4) * 4, Flags: l4[13], Window: binary.BigEndian.Uint16(l4[14:]),
				Sum: binary.BigEndian.Uint16(l4[16:]), Urgent: binary.BigEndian.Uint16(l4[18:]),
			}
			in.TCP = t
			if t.DataOff < 20 || t.DataOff > len(l4) {
				in.anomaly("tcp-data-offset %d", t.DataOff)
			}
			if complete && L4Checksum(in.Src, in.Dst, ProtoTCP, l4) != 0 {
				in.anomaly("tcp-checksum")
			}
			return
		}
		if len(l4) < 8 {
			in.anomaly("udp-header-truncated")
			return
		}
		if ul := int(binary.BigEndian.Uint16(l4[4:])); ul != len(l4) {
			in.anomaly("udp-length %d != %d", ul, len(l4))
		}
		sum := binary.BigEndian.Uint16(l4[6:])
		if complete && !(sum == 0 && in.Version == 4) && L4Checksum(in.Src, in.Dst, ProtoUDP, l4) != 0 {
			in.anomaly("udp-checksum")
		}
	case in.Version == 4 && in.Proto == ProtoICMP, in.Version == 6 && in.Proto == ProtoICMPv6:
		if len(l4) < 4 {
			in.anomaly("icmp-header-truncated")
			return
		}
		in.HasICMP = true
		in.ICMPType, in.ICMPCode = l4[0], l4[1]
		if len(l4) >= 6 {
			in.HasICMPRest = true
			in.ICMPID = binary.BigEndian.Uint16(l4[4:])
		}
		if len(l4) < 8 {
			in.anomaly("icmp-header-short")
		}
		if complete {
			if in.Version == 4 && Checksum(l4) != 0 {
				in.anomaly("icmp-checksum")
			}
			if in.Version == 6 && L4Checksum(in.Src, in.Dst, ProtoICMPv6, l4) != 0 {
				in.anomaly("icmpv6-checksum")
			}
		}
	}
}
