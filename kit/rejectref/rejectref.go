// Package rejectref is the reference model of nebula's firewall reject replies (property C21),
// shared by the harness files of package iputil (CreateRejectPacket) and of the root package
// (rejectInside / rejectOutside). Standard library + verifkit/pkt only; it never calls nebula code.
//
//	orig, err := pkt.Parse(packet)            // precondition: the classifier accepted the packet
//	want := rejectref.Expect(orig)            // Silent / Reply / Either, with the reason
//	err  := rejectref.Check(packet, orig, reply, capOut, maxSize)
//
// What is required of a reply (statement of C21): a well-formed IPv4/IPv6 packet of the same family
// with valid checksums (verifkit/pkt strict parse without anomalies), sent from the original
// destination to the original source, at most maxSize bytes and at most cap(out); for TCP a reset
// numbered as netfilter / RFC 793 do (ACK in: seq = ack_in, RST only; otherwise seq = 0, RST|ACK,
// ack = seq_in + SYN + FIN + payload length - the last only when the declared IP length matches
// the buffer and the data offset is sane); otherwise ICMP destination unreachable /
// administratively prohibited (v4 3/13, v6 1/1) whose body is a prefix of the original packet
// holding at least the IP header plus the next 8 bytes (as far as present). Silence is required for
// non-first fragments and for ICMP errors (v4 types 3,4,5,11,12; v6 types 1..4).
package rejectref

import (
	"bytes"
	"fmt"

	"verifkit/pkt"
)

// Verdict says whether a reply must, must not or may be produced (given enough room).
type Verdict int

const (
	Silent Verdict = iota // no reply allowed
	Reply                 // a reply is required when the output buffer is large enough
	Either                // the statement does not decide (e.g. TCP header cut short)
)

func (v Verdict) String() string { return [...]string{"silent", "reply", "either"}[v] }

// Want is the expectation for one original packet.
type Want struct {
	Verdict Verdict
	TCP     bool   // a reply, if any, must be a TCP reset (else an ICMP error)
	Reason  string // class label, e.g. "tcp", "icmp-error", "non-first-fragment"
}

// Expect derives the expectation from the reference parse of the original packet.
func Expect(o *pkt.Info) Want {
	switch {
	case o.NonFirst:
		return Want{Silent, false, "non-first-fragment"}
	case o.Proto == pkt.ProtoTCP:
		if o.TCP == nil {
			// fewer than 20 bytes of TCP header: nothing to number a reset with; the statement does
			// not say whether an ICMP error is sent instead (a reply, if any, must be that ICMP error)
			return Want{Either, false, "tcp-header-short"}
		}
		return Want{Reply, true, "tcp"}
	case o.HasICMP && (o.Version == 4 && o.ICMPIsError() || o.Version == 6 && o.ICMPType >= 1 && o.ICMPType <= 4):
		return Want{Silent, false, "icmp-error"}
	case o.HasICMP && o.Version == 6 && o.ICMPIsError():
		// unassigned / experimental ICMPv6 types with the error-class bit (0, 5..127): RFC 4443 counts
		// them as errors, the property only names the defined ones
		return Want{Either, false, "icmp6-error-class-unassigned"}
	case o.HasICMP:
		return Want{Reply, false, "icmp-info"}
	case o.Proto == pkt.ProtoUDP:
		return Want{Reply, false, "udp"}
	}
	return Want{Reply, false, "other-proto"}
}

// Check verifies a reply (nil/empty = silence) produced for packet with an output buffer of
// capacity capOut. roomy tells that capOut was large enough for any reply (>= maxSize), i.e. that
// silence cannot be excused by lack of room.
func Check(packet []byte, o *pkt.Info, reply []byte, capOut, maxSize int) error {
	w := Expect(o)
	if len(reply) == 0 {
		if w.Verdict == Reply && capOut >= maxSize {
			return fmt.Errorf("no reply although one is required (%s) and the buffer has room (%d)", w.Reason, capOut)
		}
		return nil
	}
	if w.Verdict == Silent {
		return fmt.Errorf("a %d byte reply was produced for a packet that must not be answered (%s)", len(reply), w.Reason)
	}
	if len(reply) > maxSize {
		return fmt.Errorf("reply is %d bytes, documented maximum %d", len(reply), maxSize)
	}
	if len(reply) > capOut {
		return fmt.Errorf("reply is %d bytes, output buffer capacity %d", len(reply), capOut)
	}
	r, err := pkt.Parse(reply)
	if err != nil {
		return fmt.Errorf("reply does not parse: %v", err)
	}
	if !r.WellFormed() {
		return fmt.Errorf("reply is not well formed: %v", r.Anomalies)
	}
	if r.Version != o.Version {
		return fmt.Errorf("reply is IPv%d, original IPv%d", r.Version, o.Version)
	}
	if r.Src != o.Dst || r.Dst != o.Src {
		return fmt.Errorf("reply goes %v > %v, original %v > %v", r.Src, r.Dst, o.Src, o.Dst)
	}
	if r.Frag || len(r.Ext) != 0 {
		return fmt.Errorf("reply is fragmented or carries extension headers")
	}
	if r.TTL == 0 {
		return fmt.Errorf("reply has TTL / hop limit 0")
	}
	if w.TCP {
		if r.Proto != pkt.ProtoTCP || r.TCP == nil {
			return fmt.Errorf("original is TCP but the reply has protocol %d", r.Proto)
		}
		if r.SrcPort != o.DstPort || r.DstPort != o.SrcPort {
			return fmt.Errorf("reset ports %d>%d, original %d>%d", r.SrcPort, r.DstPort, o.SrcPort, o.DstPort)
		}
		if r.TCP.DataOff != len(r.L4) {
			return fmt.Errorf("reset carries %d bytes beyond its header", len(r.L4)-r.TCP.DataOff)
		}
		if o.TCP.Flags&pkt.TCPAck != 0 {
			if r.TCP.Flags != pkt.TCPRst {
				return fmt.Errorf("original has ACK: reset flags must be RST only, got %#02x", r.TCP.Flags)
			}
			if r.TCP.Seq != o.TCP.Ack {
				return fmt.Errorf("original has ACK %d: reset seq must equal it, got %d", o.TCP.Ack, r.TCP.Seq)
			}
			return nil
		}
		if r.TCP.Flags != pkt.TCPRst|pkt.TCPAck {
			return fmt.Errorf("original has no ACK: reset flags must be RST|ACK, got %#02x", r.TCP.Flags)
		}
		if r.TCP.Seq != 0 {
			return fmt.Errorf("original has no ACK: reset seq must be 0, got %d", r.TCP.Seq)
		}
		if o.DeclLen == len(packet) && o.TCP.DataOff >= 20 && o.TCP.DataOff <= len(o.L4) {
			want := o.TCP.Seq + uint32(len(o.L4)-o.TCP.DataOff)
			if o.TCP.Flags&pkt.TCPSyn != 0 {
				want++
			}
			if o.TCP.Flags&pkt.TCPFin != 0 {
				want++
			}
			if r.TCP.Ack != want {
				return fmt.Errorf("reset ack %d, want seq %d + syn + fin + %d payload bytes = %d", r.TCP.Ack, o.TCP.Seq, len(o.L4)-o.TCP.DataOff, want)
			}
		}
		return nil
	}
	// ICMP error
	wantProto, wantType, wantCode := uint8(pkt.ProtoICMP), uint8(3), uint8(13)
	if o.Version == 6 {
		wantProto, wantType, wantCode = pkt.ProtoICMPv6, 1, 1
	}
	if r.Proto != wantProto || !r.HasICMP {
		return fmt.Errorf("reply protocol %d, want ICMP %d", r.Proto, wantProto)
	}
	if r.ICMPType != wantType || r.ICMPCode != wantCode {
		return fmt.Errorf("ICMP type/code %d/%d, want %d/%d (administratively prohibited)", r.ICMPType, r.ICMPCode, wantType, wantCode)
	}
	if len(r.L4) < 8 {
		return fmt.Errorf("ICMP error shorter than its 8 byte header")
	}
	if !bytes.Equal(r.L4[4:8], []byte{0, 0, 0, 0}) {
		return fmt.Errorf("ICMP error: unused field is %x", r.L4[4:8])
	}
	body := r.L4[8:]
	if !bytes.HasPrefix(packet, body) {
		return fmt.Errorf("ICMP error body is not a prefix of the original packet")
	}
	need := o.HdrLen + 8
	if need > len(packet) {
		need = len(packet)
	}
	if len(body) < need {
		return fmt.Errorf("ICMP error carries %d bytes of the original, want at least the %d byte IP header + 8 (%d available)", len(body), o.HdrLen, len(packet))
	}
	return nil
}
