#!/bin/bash
# Runs every READY check once (quick by default) and prints one verdict line per property.
tier=${1:-quick}; par=${2:-4}
cd "$(dirname "$0")/.." && mkdir -p .work
python3 -c "import checks_conf; print(' '.join(checks_conf.READY))" | tr ' ' '\n' | xargs -P $par -I{} bash -c './check {} --tier '$tier' > .work/runall-{}.log 2>&1; echo "{} rc=$? $(grep -E "^(OK|VIOLATION|INCONCLUSIVE)" .work/runall-{}.log | tail -1 | cut -c1-150)"'
