#!/usr/bin/env python3
"""Re-runs the property checks against every kept seeded change (regression of sensitivity).

  tools/seedsweep.py [-j 4] [--tier quick] [names...]

For each /verif/seeded/<name>/ : scratch worktree of /repo under /var/tmp, apply patch.diff, run ./check for the
ids recorded in meta.json["checks"] with VERIF_REPO pointing at it, remove the worktree. Prints one line per
(name, id) and rewrites meta.json["checks"]. Exit 1 when a change that was caught before is now missed.
"""
import json, os, re, subprocess, sys
from concurrent.futures import ThreadPoolExecutor

V = "/verif"


def one(name, tier):
    d = os.path.join(V, "seeded", name)
    meta = json.load(open(os.path.join(d, "meta.json")))
    wt = "/var/tmp/seedsweep-" + name
    subprocess.run(["git", "-C", "/repo", "worktree", "remove", "--force", wt], stdout=subprocess.DEVNULL, stderr=subprocess.DEVNULL)
    subprocess.run(["git", "-C", "/repo", "worktree", "add", "--detach", wt], stdout=subprocess.DEVNULL, stderr=subprocess.DEVNULL, check=True)
    res = []
    try:
        p = subprocess.run(["git", "apply", os.path.join(d, "patch.diff")], cwd=wt, stdout=subprocess.PIPE, stderr=subprocess.STDOUT, text=True)
        if p.returncode != 0:
            return [(name, "-", "patch does not apply: " + p.stdout[-200:], False)]
        for cid, old in meta.get("checks", {}).items():
            q = subprocess.run(["./check", cid, "--tier", tier], cwd=V, env=dict(os.environ, VERIF_REPO=wt), stdout=subprocess.PIPE, stderr=subprocess.STDOUT, text=True)
            verdict = {0: "missed", 1: "caught", 2: "inconclusive"}.get(q.returncode, str(q.returncode))
            line = [l for l in q.stdout.splitlines() if re.match(r"^(OK|VIOLATION|INCONCLUSIVE|INFRA)", l)]
            regress = old.get("verdict") == "caught" and verdict != "caught"
            meta["checks"][cid] = {"tier": tier, "rc": q.returncode, "verdict": verdict, "line": line[-1] if line else ""}
            res.append((name, cid, verdict, regress))
        json.dump(meta, open(os.path.join(d, "meta.json"), "w"), indent=1)
    finally:
        subprocess.run(["git", "-C", "/repo", "worktree", "remove", "--force", wt], stdout=subprocess.DEVNULL, stderr=subprocess.DEVNULL)
    return res


def main():
    a = sys.argv[1:]
    j, tier, names = 4, "quick", []
    i = 0
    while i < len(a):
        if a[i] == "-j": j = int(a[i + 1]); i += 2
        elif a[i] == "--tier": tier = a[i + 1]; i += 2
        else: names.append(a[i]); i += 1
    if not names:
        names = sorted(n for n in os.listdir(os.path.join(V, "seeded")) if os.path.exists(os.path.join(V, "seeded", n, "meta.json")))
    bad = 0
    with ThreadPoolExecutor(j) as ex:
        for res in ex.map(lambda n: one(n, tier), names):
            for name, cid, verdict, regress in res:
                print("SEED %-8s %-4s %s%s" % (name, cid, verdict, "   <-- REGRESSION" if regress else ""), flush=True)
                bad += 1 if regress else 0
    return 1 if bad else 0


if __name__ == "__main__":
    sys.exit(main())
