#!/bin/bash
# Re-runs the network-level mutants of /verif/mutants (sensitivity regression): tools/remut.sh
cd /verif
run() { n=$1; id=$2; tools/mut.sh $n $id -- python3 /verif/mutants/m_$n.py 2>&1 | grep "^MUT" ; }
export -f run
printf "%s\n" "c09a C09" "c09b C09" "c09c C09" "c09d C09" "c05n_a C05" "c05n_b C05" "c39a C39" "c39b C39" "c39c C39" "c31a C31" "c31c C31" "c14a C14" "c14b C14" "c14c C14" "c15a C15" "c10a C10" "c10b C10" "c10c C10" "c32a C32" "c32b C32" "c32c C32" "c32d C32" "c32e C32" "c49a C49" "c49b C49" "c49c C49" "c36n_a C36" "c36n_b C36" "c36n_c C36" | xargs -P 5 -L 1 bash -c 'run $0 $1'
