#!/bin/bash
# tools/runsome.sh <tier> <parallel> <ID>...   - like runall.sh for a chosen list
tier=$1; par=$2; shift 2
cd "$(dirname "$0")/.." && mkdir -p .work
echo "$@" | tr ' ' '\n' | xargs -P $par -I{} bash -c './check {} --tier '$tier' > .work/runsome-{}.log 2>&1; echo "{} rc=$? $(grep -E "^(OK|VIOLATION|INCONCLUSIVE)" .work/runsome-{}.log | tail -1 | cut -c1-150)"'
