#!/usr/bin/env python3
"""Confirms an independently seeded change and runs the property's checks against it.

  tools/seedeval.py <ID> [--src /var/tmp/seed/out/<ID>] [--also ID2,ID3] [--tier quick] [--tags e2e_testing]

Steps (all in a scratch worktree of /repo under /var/tmp, removed afterwards):
  1. apply patch.diff; go build ./... ; run the existing tests of the touched packages
  2. copy the demonstration test into its package; it must FAIL with the change and PASS without
  3. run ./check <ID> (and --also ids) with VERIF_REPO pointing at the patched worktree
Writes /verif/seeded/<ID>/{patch.diff, demo files, meta.json} when steps 1-2 hold.
"""
import json, os, re, shutil, subprocess, sys, time

VERIF = "/verif"
DEST = None
PKGDIR = {"nebula": ".", "cert": "cert", "handshake": "handshake", "header": "header", "iputil": "iputil", "firewall": "firewall",
          "overlay": "overlay", "batch": "overlay/batch", "tio": "overlay/tio", "virtio": "overlay/tio/virtio",
          "checksum": "overlay/checksum", "udp": "udp", "routing": "routing", "cpupick": "cpupick", "noiseutil": "noiseutil",
          "e2e": "e2e", "config": "config", "p256": "cert/p256", "main": "cmd/nebula-cert"}
ENV = dict(os.environ, GOFLAGS="-mod=mod", GOPROXY="off", GOSUMDB="off", GOTOOLCHAIN="local")


def sh(cmd, cwd, timeout=1500):
    p = subprocess.run(cmd, cwd=cwd, env=ENV, shell=True, stdout=subprocess.PIPE, stderr=subprocess.STDOUT, text=True, timeout=timeout)
    return p.returncode, p.stdout


def main():
    a = sys.argv[1:]
    pid = a[0]
    src = "/var/tmp/seed/out/" + pid
    also, tier, tags, race, name, noe2e = [], "quick", "", False, None, False
    i = 1
    meta_env = {}
    while i < len(a):
        if a[i] == "--src": src = a[i + 1]
        elif a[i] == "--also": also = a[i + 1].split(",")
        elif a[i] == "--tier": tier = a[i + 1]
        elif a[i] == "--tags": tags = a[i + 1]
        elif a[i] == "--race": race = a[i + 1] == "1"
        elif a[i] == "--name": name = a[i + 1]
        elif a[i] == "--noe2e": noe2e = True; i -= 1
        elif a[i] == "--env":
            k, v = a[i + 1].split("=", 1); ENV[k] = v; meta_env[k] = v
        i += 2
    global DEST
    wt = "/var/tmp/seedeval-" + (name or pid)
    subprocess.run(["git", "-C", "/repo", "worktree", "remove", "--force", wt], stdout=subprocess.DEVNULL, stderr=subprocess.DEVNULL)
    subprocess.run(["git", "-C", "/repo", "worktree", "add", "--detach", wt], stdout=subprocess.DEVNULL, stderr=subprocess.DEVNULL, check=True)
    DEST = name or pid
    meta = {"property": pid, "source": src, "ran": [], "when": time.strftime("%Y-%m-%d %H:%M:%S")}
    if meta_env:
        meta["demo_env"] = meta_env
    try:
        patch = os.path.join(src, "patch.diff")
        rc, out = sh("git apply --index " + patch, wt)
        if rc != 0:
            print("PATCH DOES NOT APPLY\n" + out); meta["verdict"] = "patch does not apply"; return finish(pid, src, meta, False)
        rc, out = sh("git diff --cached --name-only", wt)
        files = [f for f in out.split() if f.endswith(".go")]
        if any(f.endswith("_test.go") for f in files):
            print("patch touches test files:", files)
        pkgs = sorted({"./" + os.path.dirname(f) if os.path.dirname(f) else "." for f in files} | {"."})
        meta["files"] = files
        rc, out = sh("go1.26.8 build ./...", wt)
        meta["ran"].append({"cmd": "go build ./...", "rc": rc})
        if rc != 0:
            print("BUILD FAILS\n" + out[-2000:]); meta["verdict"] = "does not build"; return finish(pid, src, meta, False)
        tcmd = "go1.26.8 test -count=1 -vet=off " + " ".join(p for p in pkgs if "cmd/nebula-cert" not in p)
        rc, out = sh(tcmd, wt)
        meta["ran"].append({"cmd": tcmd, "rc": rc})
        print("existing tests of touched packages:", "PASS" if rc == 0 else "FAIL")
        if rc != 0:
            print(out[-3000:]); meta["verdict"] = "existing tests fail with the change"; return finish(pid, src, meta, False)
        if not noe2e and (any(os.path.dirname(f) == "" for f in files) or "./handshake" in pkgs):
            rc, out = sh("go1.26.8 test -count=1 -vet=off -tags e2e_testing ./e2e", wt, timeout=1800)
            meta["ran"].append({"cmd": "go test -tags e2e_testing ./e2e", "rc": rc})
            print("upstream e2e suite (not part of the baseline) with the change:", "PASS" if rc == 0 else "FAIL")
            meta["e2e_with_change"] = "pass" if rc == 0 else "fail"
        # demonstration
        demos = [f for f in os.listdir(src) if f.endswith("_test.go")]
        demo_ok = None
        for d in demos:
            txt = open(os.path.join(src, d)).read()
            m = re.search(r"(?m)^package\s+(\w+)", txt)
            pk = m.group(1) if m else "nebula"
            pk = pk[:-5] if pk.endswith("_test") and pk[:-5] in PKGDIR else pk
            ddir = PKGDIR.get(pk, ".")
            nm = re.search(r"(?m)^//\s*verif-demo-dir:\s*(\S+)", txt)
            if nm:
                ddir = nm.group(1)
            dt = "e2e_testing" if (re.search(r"(?m)^//go:build\s+e2e_testing", txt) or tags) else ""
            dst = os.path.join(wt, ddir, "zz_seed_" + d)
            shutil.copy(os.path.join(src, d), dst)
            tests = re.findall(r"(?m)^func (Test\w+)\(", txt)
            runre = "^(" + "|".join(tests) + ")$" if tests else "."
            cmd = "go1.26.8 test -count=1 -vet=off %s %s -run '%s' ./%s" % ("-race" if race else "", "-tags " + dt if dt else "", runre, ddir)
            rc1, out1 = sh(cmd, wt)
            sh("git apply -R --index " + patch, wt)
            rc2, out2 = sh(cmd, wt)
            sh("git apply --index " + patch, wt)
            os.remove(dst)
            meta["ran"].append({"cmd": cmd, "rc_with_change": rc1, "rc_without_change": rc2})
            print("demo %s: with change rc=%d, without rc=%d" % (d, rc1, rc2))
            ok = rc1 != 0 and rc2 == 0
            demo_ok = ok if demo_ok is None else (demo_ok and ok)
            if not ok:
                print(out1[-1500:]); print("----"); print(out2[-1500:])
        meta["demo_confirmed"] = bool(demo_ok)
        # checks
        meta["checks"] = {}
        for cid in [pid] + also:
            env = dict(os.environ, VERIF_REPO=wt)
            p = subprocess.run(["./check", cid, "--tier", tier], cwd=VERIF, env=env, stdout=subprocess.PIPE, stderr=subprocess.STDOUT, text=True)
            line = [l for l in p.stdout.splitlines() if re.match(r"^(OK|VIOLATION|INCONCLUSIVE|INFRA)", l)]
            verdict = {0: "missed", 1: "caught", 2: "inconclusive"}.get(p.returncode, str(p.returncode))
            meta["checks"][cid] = {"tier": tier, "rc": p.returncode, "verdict": verdict, "line": line[-1] if line else ""}
            print("CHECK %s (%s): %s  %s" % (cid, tier, verdict, line[-1][:160] if line else ""))
            if verdict == "caught":
                m = re.search(r"replay=(\S+)", p.stdout)
                if m and os.path.exists(m.group(1).replace(".fail", ".log").split(".Test")[0] + ".log"):
                    pass
        return finish(pid, src, meta, bool(demo_ok))
    finally:
        subprocess.run(["git", "-C", "/repo", "worktree", "remove", "--force", wt], stdout=subprocess.DEVNULL, stderr=subprocess.DEVNULL)


def finish(pid, src, meta, keep):
    if keep:
        dst = os.path.join(VERIF, "seeded", DEST)
        os.makedirs(dst, exist_ok=True)
        for f in os.listdir(src):
            if f == "patch.diff" or f.endswith("_test.go") or f == "notes.md" or f.endswith(".go"):
                shutil.copy(os.path.join(src, f), os.path.join(dst, f))
        old = {}
        mp = os.path.join(dst, "meta.json")
        if os.path.exists(mp):
            old = json.load(open(mp))
        for k in ("change", "breaks_property", "needs_to_manifest"):
            if k in old and k not in meta:
                meta[k] = old[k]
        # keep earlier check results of other tiers
        if old.get("checks"):
            for k, v in old["checks"].items():
                meta.setdefault("checks_history", []).append({k: v})
        json.dump(meta, open(mp, "w"), indent=1)
    print("KEEP" if keep else "DISCARD", pid, json.dumps(meta.get("checks", {})))
    return 0


if __name__ == "__main__":
    sys.exit(main())
