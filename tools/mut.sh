#!/bin/bash
# Sensitivity helper: tools/mut.sh <name> <ID>[,<ID>...] -- <shell command run inside the scratch worktree to mutate it>
# Creates a scratch worktree of /repo under /var/tmp, mutates it, runs the quick checks against it
# (VERIF_REPO), prints the verdicts and removes the worktree.
set -u
name=$1; ids=$2; shift 3
wt=/var/tmp/wt-$name
git -C /repo worktree remove --force $wt >/dev/null 2>&1
git -C /repo worktree add --detach $wt >/dev/null 2>&1 || { echo "worktree failed"; exit 2; }
( cd $wt && bash -c "$*" ) || { echo "mutation command failed"; git -C /repo worktree remove --force $wt; exit 2; }
( cd $wt && git diff --stat | tail -1 )
for id in ${ids//,/ }; do
  out=$(cd /verif && VERIF_REPO=$wt ./check $id --tier ${MUT_TIER:-quick} 2>&1); rc=$?
  echo "MUT $name $id rc=$rc $(echo "$out" | grep -E '^(VIOLATION|OK|INCONCLUSIVE|INFRA)' | head -2 | tr '\n' ' ')"
  [ -n "${MUT_VERBOSE:-}" ] && echo "$out" | tail -40
done
git -C /repo worktree remove --force $wt
