package main

// C04 (CLI part) - issuance through `nebula-cert ca` and `nebula-cert sign` never exceeds the CA.
// The two commands run inside a testing/synctest bubble, so their time.Now() is virtual and the
// validity boundary (NotAfter of the CA to the second) can be hit exactly. Oracle: a reference
// predicate written on the flag values (window, groups, networks, unsafe networks, version rules,
// structural rules); the written certificate must verify against a pool holding the written CA.

import (
	"bytes"
	"crypto/elliptic"
	"encoding/asn1"
	"fmt"
	"math/big"
	"net/netip"
	"os"
	"path/filepath"
	"slices"
	"sort"
	"strings"
	"testing"
	"time"

	"github.com/slackhq/nebula/cert"
	"pgregory.net/rapid"
	"verifkit/vk"
)

type c04cliNoPassword struct{}

func (c04cliNoPassword) ReadPassword() ([]byte, error) { return []byte("c04cli passphrase"), nil }

var c04cliV4Bases = []string{"10.1.2.3", "10.129.0.7", "192.168.77.1", "172.16.5.4"}
var c04cliV6Bases = []string{"fd00:1:2:3::4", "fd80::1:2", "2001:db8:aa::9"}

func c04cliDrawPrefix(rt *rapid.T, fam int, label string) netip.Prefix {
	if fam == 4 {
		a := netip.MustParseAddr(rapid.SampledFrom(c04cliV4Bases).Draw(rt, label+"-base"))
		return netip.PrefixFrom(a, rapid.SampledFrom([]int{0, 1, 8, 9, 16, 23, 24, 25, 31, 32}).Draw(rt, label+"-bits"))
	}
	a := netip.MustParseAddr(rapid.SampledFrom(c04cliV6Bases).Draw(rt, label+"-base"))
	return netip.PrefixFrom(a, rapid.SampledFrom([]int{0, 1, 8, 32, 48, 49, 64, 127, 128}).Draw(rt, label+"-bits"))
}

func c04cliAddr(b []byte) netip.Addr {
	nz := false
	for _, x := range b {
		nz = nz || x != 0
	}
	if !nz {
		b[len(b)-1] = 1
	}
	a, _ := netip.AddrFromSlice(b)
	return a
}

func c04cliInside(rt *rapid.T, p netip.Prefix, label string) netip.Prefix {
	b := p.Addr().AsSlice()
	max := len(b) * 8
	bits := rapid.SampledFrom([]int{p.Bits(), p.Bits(), min(p.Bits()+1, max), max}).Draw(rt, label+"-bits")
	r := rapid.SliceOfN(rapid.Byte(), len(b), len(b)).Draw(rt, label+"-host")
	for i := p.Bits(); i < max; i++ {
		m := byte(0x80 >> (i % 8))
		b[i/8] = b[i/8]&^m | r[i/8]&m
	}
	return netip.PrefixFrom(c04cliAddr(b), bits)
}

func c04cliOutside(rt *rapid.T, p netip.Prefix, label string) netip.Prefix {
	b := p.Addr().AsSlice()
	if p.Bits() == 0 {
		other := 6
		if len(b) == 16 {
			other = 4
		}
		return c04cliDrawPrefix(rt, other, label+"-of") // only the other family lies outside a /0
	}
	if rapid.Bool().Draw(rt, label+"-shorter") {
		return netip.PrefixFrom(p.Addr(), p.Bits()-1)
	}
	i := p.Bits() - 1
	b[i/8] ^= byte(0x80 >> (i % 8))
	return netip.PrefixFrom(c04cliAddr(b), p.Bits())
}

func c04cliContains(outer, inner netip.Prefix) bool {
	oa, ia := outer.Addr().AsSlice(), inner.Addr().AsSlice()
	if len(oa) != len(ia) || outer.Bits() > inner.Bits() {
		return false
	}
	for i := 0; i < outer.Bits(); i++ {
		m := byte(0x80 >> (i % 8))
		if oa[i/8]&m != ia[i/8]&m {
			return false
		}
	}
	return true
}

func c04cliAllContained(ca, leaf []netip.Prefix) bool {
	if len(ca) == 0 {
		return true
	}
	for _, l := range leaf {
		if !slices.ContainsFunc(ca, func(c netip.Prefix) bool { return c04cliContains(c, l) }) {
			return false
		}
	}
	return true
}

// c04cliStructural: the structural rules of the certificate formats on effective lists.
func c04cliStructural(version int, isCA bool, nets, unsafe []netip.Prefix) string {
	if !isCA && len(nets) == 0 {
		return "no network"
	}
	has4, has6 := false, false
	for i, n := range nets {
		if n.Addr().IsUnspecified() {
			return "zero address"
		}
		if n.Addr().Is4In6() {
			return "4in6"
		}
		if version == 1 && !n.Addr().Is4() {
			return "v6 in v1"
		}
		if version == 2 && slices.Contains(nets[:i], n) {
			return "duplicate network"
		}
		has4 = has4 || n.Addr().Is4()
		has6 = has6 || n.Addr().Is6()
	}
	for i, n := range unsafe {
		if version == 1 && !n.Addr().Is4() {
			return "v6 in v1"
		}
		if version == 2 && slices.Contains(unsafe[:i], n) {
			return "duplicate unsafe network"
		}
		if version == 2 && !isCA && ((n.Addr().Is4() && !has4) || (!n.Addr().Is4() && !has6)) {
			return "unsafe family without address"
		}
	}
	return ""
}

func c04cliJoin(l []netip.Prefix, rt *rapid.T, label string) string {
	ss := make([]string, len(l))
	for i, p := range l {
		ss[i] = p.String()
		if rapid.IntRange(0, 9).Draw(rt, label+"-space") == 0 {
			ss[i] = " " + ss[i] + " "
		}
	}
	return strings.Join(ss, ",")
}

func c04cliSorted(l []netip.Prefix, sorted bool) string {
	ss := make([]string, len(l))
	for i, p := range l {
		ss[i] = p.String()
	}
	if sorted {
		sort.Strings(ss)
	}
	return strings.Join(ss, ",")
}

var c04cliGroups = []string{"a", "A", "b", "ops", "dev", "web servers"}

type c04cliSig struct{ R, S *big.Int }

func c04cliLowS(sig []byte) bool {
	var v c04cliSig
	if rest, err := asn1.Unmarshal(sig, &v); err != nil || len(rest) != 0 {
		return false
	}
	return v.S.Cmp(new(big.Int).Rsh(elliptic.P256().Params().N, 1)) <= 0
}

var c04cliDirCounter int

func TestC04_CLI(t *testing.T) {
	base, err := os.MkdirTemp(".", "c04cli-")
	if err != nil {
		t.Fatal(err)
	}
	defer os.RemoveAll(base)
	os.Unsetenv("NEBULA_CA_PASSPHRASE")
	vk.Check(t, 4000, func(rt *rapid.T) {
		c04cliDirCounter++
		dir := filepath.Join(base, fmt.Sprint(c04cliDirCounter))
		if err := os.MkdirAll(dir, 0o755); err != nil {
			rt.Fatalf("harness: %v", err)
		}
		defer os.RemoveAll(dir)
		rapid.SyncTest(rt, func(rt *rapid.T) { c04cliCase(rt, dir) })
	})
}

func c04cliCase(rt *rapid.T, dir string) {
	// ---- the CA ----------------------------------------------------------------------------
	caVer := rapid.IntRange(1, 2).Draw(rt, "caver")
	curve := rapid.SampledFrom([]string{"25519", "P256"}).Draw(rt, "curve")
	caDur := time.Duration(rapid.SampledFrom([]int{1, 2, 10, 3600, 360000}).Draw(rt, "cadur")) * time.Second
	var caGroups []string
	if rapid.IntRange(0, 9).Draw(rt, "cahasgroups") < 6 {
		caGroups = rapid.SliceOfNDistinct(rapid.SampledFrom(c04cliGroups), 1, 3, rapid.ID[string]).Draw(rt, "cagroups")
	}
	fams := []int{4}
	if caVer == 2 {
		fams = []int{4, 6}
	}
	drawList := func(label string, p int) []netip.Prefix {
		var l []netip.Prefix
		if rapid.IntRange(0, 9).Draw(rt, label+"-has") < p {
			for i := rapid.IntRange(1, 2).Draw(rt, label+"-n"); i > 0; i-- {
				pf := c04cliDrawPrefix(rt, rapid.SampledFrom(fams).Draw(rt, label+"-fam"), label)
				if !slices.Contains(l, pf) || rapid.IntRange(0, 9).Draw(rt, label+"-keepdup") == 0 {
					l = append(l, pf)
				}
			}
		}
		return l
	}
	caNets, caUnsafe := drawList("canets", 6), drawList("caunsafe", 5)
	encrypt := rapid.IntRange(0, 6).Draw(rt, "encrypt") == 0
	caKey, caCrt := filepath.Join(dir, "ca.key"), filepath.Join(dir, "ca.crt")
	args := []string{"-name", "c04 ca", "-version", fmt.Sprint(caVer), "-curve", curve, "-duration", caDur.String(), "-out-key", caKey, "-out-crt", caCrt}
	if len(caGroups) > 0 {
		args = append(args, "-groups", strings.Join(caGroups, ","))
	}
	if len(caNets) > 0 {
		args = append(args, "-networks", c04cliJoin(caNets, rt, "canets"))
	}
	if len(caUnsafe) > 0 {
		args = append(args, "-unsafe-networks", c04cliJoin(caUnsafe, rt, "caunsafe"))
	}
	if encrypt {
		args = append(args, "-encrypt", "-argon-memory", "8", "-argon-iterations", "1", "-argon-parallelism", "1")
	}
	t0 := time.Now() // virtual
	var ob, eb bytes.Buffer
	caErr := ca(args, &ob, &eb, c04cliNoPassword{})
	caWhy := c04cliStructural(caVer, true, caNets, caUnsafe)
	if caErr == nil && caWhy != "" {
		rt.Fatalf("`ca %q` succeeded although the CA is structurally invalid (%s)", args, caWhy)
	}
	if caErr != nil {
		lab := "ca:refused:" + caWhy
		if caWhy == "" {
			lab = "ca:refused-although-valid"
			vk.Note("C04", fmt.Sprintf("ca refused a valid request: %v (%q)", caErr, args))
		}
		vk.Case("C04", fmt.Sprintf("cli-ca/%q", args), caWhy != "", lab)
		return
	}
	caPEM, err := os.ReadFile(caCrt)
	if err != nil {
		rt.Fatalf("ca succeeded but wrote no certificate: %v", err)
	}
	caCert, rest, err := cert.UnmarshalCertificateFromPEM(caPEM)
	if err != nil || len(bytes.TrimSpace(rest)) != 0 {
		rt.Fatalf("written CA certificate does not parse: %v", err)
	}
	wantCurve := cert.Curve_CURVE25519
	if curve == "P256" {
		wantCurve = cert.Curve_P256
	}
	if !caCert.IsCA() || int(caCert.Version()) != caVer || caCert.Curve() != wantCurve || caCert.NotBefore().Unix() != t0.Unix() ||
		caCert.NotAfter().Unix() != t0.Add(caDur).Unix() || !slices.Equal(caCert.Groups(), caGroups) ||
		c04cliSorted(caCert.Networks(), caVer == 2) != c04cliSorted(caNets, caVer == 2) ||
		c04cliSorted(caCert.UnsafeNetworks(), caVer == 2) != c04cliSorted(caUnsafe, caVer == 2) {
		rt.Fatalf("written CA certificate differs from the flags %q:\n%s", args, caCert)
	}

	// ---- the request ---------------------------------------------------------------------------
	ver := rapid.SampledFrom([]int{0, 0, 1, 2}).Draw(rt, "ver")
	ev := ver
	if ev == 0 {
		ev = caVer
	}
	delta := time.Duration(rapid.SampledFrom([]int64{0, 0, 1, int64(caDur/time.Second) - 1, int64(caDur / time.Second), int64(caDur/time.Second) + 1}).Draw(rt, "delta")) * time.Second
	if delta < 0 {
		delta = 0
	}
	remaining := caDur - delta
	var dur time.Duration // 0: default (one second before the CA expires)
	switch rapid.IntRange(0, 5).Draw(rt, "durkind") {
	case 0, 1:
	case 2:
		dur = remaining // exactly to the CA's last second
	case 3:
		dur = remaining + time.Second // one second too long
	case 4:
		dur = remaining - time.Second
	default:
		dur = time.Duration(rapid.SampledFrom([]int{1, 5, 7200, 720000}).Draw(rt, "durany")) * time.Second
	}
	if dur < 0 {
		dur = 0
	}
	var groups []string
	gpool := c04cliGroups
	if len(caGroups) > 0 && rapid.IntRange(0, 4).Draw(rt, "groupfault") != 0 {
		gpool = caGroups
	}
	groups = rapid.SliceOfNDistinct(rapid.SampledFrom(gpool), 0, min(3, len(gpool)), rapid.ID[string]).Draw(rt, "groups")
	leafFams := []int{4}
	if ev == 2 {
		leafFams = []int{4, 6}
	}
	drawLeafList := func(caList []netip.Prefix, label string, minN, maxN int) []netip.Prefix {
		var l []netip.Prefix
		for i := rapid.IntRange(minN, maxN).Draw(rt, label+"-n"); i > 0; i-- {
			fault := rapid.IntRange(0, 7).Draw(rt, label+"-fault") == 0
			var p netip.Prefix
			switch {
			case len(caList) > 0 && !fault:
				p = c04cliInside(rt, rapid.SampledFrom(caList).Draw(rt, label+"-in"), label)
			case len(caList) > 0:
				p = c04cliOutside(rt, rapid.SampledFrom(caList).Draw(rt, label+"-out"), label)
			default:
				p = c04cliDrawPrefix(rt, rapid.SampledFrom(leafFams).Draw(rt, label+"-fam"), label)
			}
			l = append(l, p)
		}
		return l
	}
	maxNets := 3
	if ev == 1 && rapid.IntRange(0, 5).Draw(rt, "v1many") != 0 {
		maxNets = 1
	}
	nets := drawLeafList(caNets, "nets", 1, maxNets)
	unsafe := drawLeafList(caUnsafe, "unsafe", 0, 2)
	if rapid.IntRange(0, 19).Draw(rt, "zeroaddr") == 0 {
		nets = append(nets, netip.MustParsePrefix("0.0.0.0/8"))
	}
	if rapid.IntRange(0, 19).Draw(rt, "4in6") == 0 {
		nets = append(nets, netip.MustParsePrefix("::ffff:10.1.2.3/120"))
	}

	// ---- reference verdict ---------------------------------------------------------------------
	var v4n, v6n, v4u, v6u []netip.Prefix
	for _, p := range nets {
		if p.Addr().Is4() {
			v4n = append(v4n, p)
		} else {
			v6n = append(v6n, p)
		}
	}
	for _, p := range unsafe {
		if p.Addr().Is4() {
			v4u = append(v4u, p)
		} else {
			v6u = append(v6u, p)
		}
	}
	// why: violations of what the statement bounds (CA constraints, structural rules). soft: usage rules
	// of the command itself (expired CA, v1 takes exactly one IPv4 network) - a refusal is expected but a
	// success would not contradict the statement, so they only feed the labels.
	var why, soft []string
	effNets, effUnsafe := append(append([]netip.Prefix{}, v4n...), v6n...), append(append([]netip.Prefix{}, v4u...), v6u...)
	if delta > caDur {
		soft = append(soft, "ca-expired")
	}
	if ev == 1 {
		if len(v4n) != 1 || len(v6n) > 0 || len(v6u) > 0 {
			soft = append(soft, "v1-shape")
		}
		effNets, effUnsafe = v4n[:min(1, len(v4n))], v4u
	}
	if st := c04cliStructural(ev, false, effNets, effUnsafe); st != "" {
		why = append(why, "structural:"+st)
	}
	effDur := dur
	if dur <= 0 {
		effDur = remaining - time.Second
	}
	if delta+effDur > caDur {
		why = append(why, "window")
	}
	if len(caGroups) > 0 {
		for _, g := range groups {
			if !slices.Contains(caGroups, g) {
				why = append(why, "groups")
				break
			}
		}
	}
	if !c04cliAllContained(caNets, effNets) {
		why = append(why, "networks")
	}
	if !c04cliAllContained(caUnsafe, effUnsafe) {
		why = append(why, "unsafe")
	}

	// ---- run sign at virtual time t0+delta ---------------------------------------------------------
	time.Sleep(delta)
	outCrt, outKey := filepath.Join(dir, "leaf.crt"), filepath.Join(dir, "leaf.key")
	sargs := []string{"-ca-key", caKey, "-ca-crt", caCrt, "-name", "c04 leaf", "-networks", c04cliJoin(nets, rt, "nets"), "-out-crt", outCrt, "-out-key", outKey}
	if ver != 0 {
		sargs = append(sargs, "-version", fmt.Sprint(ver))
	}
	if dur > 0 {
		sargs = append(sargs, "-duration", dur.String())
	}
	if len(groups) > 0 {
		sargs = append(sargs, "-groups", strings.Join(groups, ","))
	}
	if len(unsafe) > 0 {
		sargs = append(sargs, "-unsafe-networks", c04cliJoin(unsafe, rt, "unsafe"))
	}
	ob.Reset()
	eb.Reset()
	sErr := signCert(sargs, &ob, &eb, c04cliNoPassword{})
	desc := fmt.Sprintf("\n  ca   %q\n  sign %q at +%v (CA lifetime %v)", args, sargs, delta, caDur)
	if sErr == nil && len(why) > 0 {
		rt.Fatalf("sign succeeded although the request violates %v%s", why, desc)
	}
	labels := []string{fmt.Sprintf("cli:ca-v%d/leaf-v%d/%s", caVer, ev, curve)}
	if encrypt {
		labels = append(labels, "cli:encrypted-ca-key")
	}
	nt := false
	constrained := len(caGroups)+len(caNets)+len(caUnsafe) > 0
	switch {
	case sErr != nil && len(why) == 0 && len(soft) > 0:
		labels = append(labels, "cli:refused:"+soft[0])
	case sErr == nil && len(soft) > 0:
		labels = append(labels, "cli:issued-despite:"+soft[0])
		vk.Note("C04", fmt.Sprintf("sign issued a certificate despite %v (not bounded by the statement)%s", soft, desc))
	case sErr != nil && len(why) == 0:
		labels = append(labels, "cli:refused-although-within-constraints")
		vk.Note("C04", fmt.Sprintf("sign refused a request the reference predicate allows: %v%s", sErr, desc))
	case sErr != nil && len(why) == 1:
		nt = true
		labels = append(labels, "cli:single:"+why[0])
	case sErr != nil:
		labels = append(labels, "cli:multi-violation")
	default:
		labels = append(labels, "cli:issued")
		if constrained {
			nt = true
			labels = append(labels, "cli:issued:constrained-ca")
		}
		if delta+effDur == caDur {
			labels = append(labels, "cli:issued:expires-with-ca")
		}
	}
	if sErr == nil && len(soft) == 0 {
		b, err := os.ReadFile(outCrt)
		if err != nil {
			rt.Fatalf("sign succeeded but wrote no certificate: %v%s", err, desc)
		}
		c, rest, err := cert.UnmarshalCertificateFromPEM(b)
		if err != nil || len(bytes.TrimSpace(rest)) != 0 {
			rt.Fatalf("written certificate does not parse: %v%s", err, desc)
		}
		nb, na := t0.Add(delta), t0.Add(delta+effDur)
		if c.IsCA() || int(c.Version()) != ev || c.Curve() != wantCurve || c.Name() != "c04 leaf" || c.NotBefore().Unix() != nb.Unix() || c.NotAfter().Unix() != na.Unix() ||
			!(slices.Equal(c.Groups(), groups) || len(c.Groups())+len(groups) == 0) ||
			c04cliSorted(c.Networks(), ev == 2) != c04cliSorted(effNets, ev == 2) || c04cliSorted(c.UnsafeNetworks(), ev == 2) != c04cliSorted(effUnsafe, ev == 2) {
			rt.Fatalf("written certificate differs from the request (window %d..%d expected):\n%s%s", nb.Unix(), na.Unix(), c, desc)
		}
		pool := cert.NewCAPool()
		if err := pool.AddCA(caCert); err != nil && !strings.Contains(err.Error(), cert.ErrExpired.Error()) {
			rt.Fatalf("written CA is not accepted by a pool: %v%s", err, desc)
		}
		if !na.Before(nb) {
			for _, at := range []time.Time{nb, na} {
				if _, err := pool.VerifyCertificate(at, c); err != nil {
					rt.Fatalf("written certificate does not verify against its CA at %v: %v%s", at.Unix()-t0.Unix(), err, desc)
				}
			}
		} else {
			labels = append(labels, "cli:issued:empty-window")
		}
		if wantCurve == cert.Curve_P256 {
			if !c04cliLowS(c.Signature()) || !c04cliLowS(caCert.Signature()) {
				rt.Fatalf("P-256 signature not in low-S form%s", desc)
			}
		}
	}
	vk.Case("C04", "cli/"+desc, nt, labels...)
	if vk.WantSample("C04") {
		vk.Sample("C04", map[string]any{"cli": desc, "violations": why, "issued": sErr == nil})
	}
}
