package routing

// C40 - multipath routing is deterministic and weight-proportional.
//
// Checked (and nothing more):
//   (1) partition: after CalculateBucketsForGateways the upper bounds never decrease (no overlap),
//       the last one is 2^31-1 (no gap at the top; the first share starts at hash 0), and every
//       gateway's share of the 2^31 hash values differs from w_i/sum(w) * 2^31 by at most 1
//       (cumulative round-to-nearest; compared exactly with big integers);
//   (2) selection: BalancePacket returns ok=true and the one gateway whose share contains the
//       packet's flow hash (first bound >= hash, bounds as published by BucketUpperBound);
//   (3) flow stickiness: the result depends on nothing but the port pair - changing addresses,
//       protocol or the fragment flag, or asking again, gives the same gateway.
// The flow hash itself is observed through hashPacket; a hand-inverted copy of the documented
// mixer is used ONLY to construct port pairs that land exactly on bucket boundaries.

import (
	"fmt"
	"math/big"
	"math/bits"
	"net/netip"
	"strings"
	"testing"

	"github.com/slackhq/nebula/firewall"
	"pgregory.net/rapid"
	"verifkit/vk"
)

const c40PID = "C40"
const c40KeyOverflow = "weight-sum-ge-2^33"
const c40HashMax = 1<<31 - 1

// c40InOverflowClass: the recorded finding's class - the cumulative weight shifted by 31 plus
// half the total no longer fits in 64 bits (sum of weights >= 2^33-1).
func c40InOverflowClass(weights []int) bool {
	var total uint64
	for _, w := range weights {
		total += uint64(w)
	}
	hi, lo := bits.Mul64(total, 1<<31)
	_, carry := bits.Add64(lo, total/2, 0)
	return hi != 0 || carry != 0
}

func c40Addr(i int) netip.Addr {
	return netip.AddrFrom4([4]byte{10, 77, byte(i >> 8), byte(i)})
}

func c40Weights(rt *rapid.T) ([]int, string) {
	n := rapid.OneOf(rapid.IntRange(1, 4), rapid.IntRange(1, 16)).Draw(rt, "n")
	kind := rapid.SampledFrom([]string{"ones", "small", "small", "any", "any", "huge", "skewed", "skewed", "pow2"}).Draw(rt, "weightKind")
	ws := make([]int, n)
	for i := range ws {
		switch kind {
		case "ones":
			ws[i] = 1
		case "small":
			ws[i] = rapid.IntRange(1, 20).Draw(rt, "w")
		case "any":
			ws[i] = rapid.IntRange(1, c40HashMax).Draw(rt, "w")
		case "huge":
			ws[i] = c40HashMax - rapid.IntRange(0, 3).Draw(rt, "below")
		case "skewed":
			ws[i] = rapid.OneOf(rapid.IntRange(1, 3), rapid.IntRange(1, 3), rapid.IntRange(1<<20, c40HashMax), rapid.Just(c40HashMax)).Draw(rt, "w")
		case "pow2":
			ws[i] = 1 << rapid.IntRange(0, 30).Draw(rt, "shift")
		}
	}
	return ws, kind
}

func c40Build(ws []int) []Gateway {
	gs := make([]Gateway, len(ws))
	for i, w := range ws {
		gs[i] = NewGateway(c40Addr(i), w)
	}
	return gs
}

// c40CheckPartition is claim (1).
func c40CheckPartition(ws []int, gs []Gateway) error {
	total := new(big.Int)
	for _, w := range ws {
		total.Add(total, big.NewInt(int64(w)))
	}
	space := new(big.Int).Lsh(big.NewInt(1), 31)
	prev := -1
	for i := range gs {
		ub := gs[i].BucketUpperBound()
		if ub < prev {
			return fmt.Errorf("bound %d of gateway %d is below the previous bound %d (overlap)", ub, i, prev)
		}
		if ub > c40HashMax {
			return fmt.Errorf("bound %d of gateway %d exceeds the hash space", ub, i)
		}
		share := big.NewInt(int64(ub - prev))
		// |share*total - w*2^31| <= total   <=>   |share - w/total*2^31| <= 1
		lhs := new(big.Int).Mul(share, total)
		lhs.Sub(lhs, new(big.Int).Mul(big.NewInt(int64(ws[i])), space))
		if lhs.Abs(lhs).Cmp(total) > 0 {
			return fmt.Errorf("gateway %d (weight %d of %s) got %d hash values, more than 1 away from its proportional share", i, ws[i], total, ub-prev)
		}
		prev = ub
	}
	if prev != c40HashMax {
		return fmt.Errorf("last bound is %d, not 2^31-1: hashes above it belong to no gateway", prev)
	}
	return nil
}

// inverse of the documented mixer (xorshift 16, *21f0aaad, xorshift 15, *d35a2d97, xorshift 15);
// generator guidance only.
func c40Unhash(h uint32) (local, remote uint16) {
	x := h
	x ^= x >> 15
	x ^= x >> 30
	x *= c40Inv2
	x ^= x >> 15
	x ^= x >> 30
	x *= c40Inv1
	x ^= x >> 16
	return uint16(x >> 16), uint16(x)
}

func c40ModInv(a uint32) uint32 { // Newton iteration for the inverse of an odd number mod 2^32
	x := a
	for i := 0; i < 5; i++ {
		x *= 2 - a*x
	}
	return x
}

var c40Inv1, c40Inv2 = c40ModInv(0x21f0aaad), c40ModInv(0xd35a2d97)

func c40Packet(rt *rapid.T, gs []Gateway) (firewall.Packet, string) {
	kind := rapid.SampledFrom([]string{"random", "random", "edge-ports", "on-bound", "on-bound", "bound+1", "bound-1", "hash-0", "hash-max"}).Draw(rt, "pktKind")
	var lp, rp uint16
	target := -1
	switch kind {
	case "random":
		lp, rp = rapid.Uint16().Draw(rt, "lport"), rapid.Uint16().Draw(rt, "rport")
	case "edge-ports":
		e := rapid.SampledFrom([]uint16{0, 1, 53, 80, 443, 4242, 32767, 32768, 65535})
		lp, rp = e.Draw(rt, "lport"), e.Draw(rt, "rport")
	case "on-bound", "bound+1", "bound-1":
		target = gs[rapid.IntRange(0, len(gs)-1).Draw(rt, "which")].BucketUpperBound()
		if kind == "bound+1" {
			target++
		} else if kind == "bound-1" {
			target--
		}
	case "hash-0":
		target = 0
	case "hash-max":
		target = c40HashMax
	}
	if target >= 0 {
		h := uint32(target) & c40HashMax
		if rapid.Bool().Draw(rt, "topbit") {
			h |= 1 << 31
		}
		lp, rp = c40Unhash(h)
	}
	p := firewall.Packet{
		LocalAddr:  c40AnyAddr(rt, "laddr"),
		RemoteAddr: c40AnyAddr(rt, "raddr"),
		LocalPort:  lp, RemotePort: rp,
		Protocol: rapid.SampledFrom([]uint8{6, 17, 1, 58, 0, 255}).Draw(rt, "proto"),
		Fragment: rapid.Bool().Draw(rt, "frag"),
	}
	return p, kind
}

func c40AnyAddr(rt *rapid.T, name string) netip.Addr {
	if rapid.Bool().Draw(rt, name+"6") {
		var b [16]byte
		copy(b[:], rapid.SliceOfN(rapid.Byte(), 16, 16).Draw(rt, name))
		return netip.AddrFrom16(b)
	}
	var b [4]byte
	copy(b[:], rapid.SliceOfN(rapid.Byte(), 4, 4).Draw(rt, name))
	return netip.AddrFrom4(b)
}

// c40Select is claim (2): the reference choice from the published bounds.
func c40Select(gs []Gateway, hash int) (netip.Addr, bool) {
	for i := range gs {
		if hash <= gs[i].BucketUpperBound() {
			return gs[i].Addr(), true
		}
	}
	return netip.Addr{}, false
}

func c40CheckPacket(gs []Gateway, p firewall.Packet) error {
	hash := hashPacket(&p)
	if hash < 0 || hash > c40HashMax {
		return fmt.Errorf("flow hash %d of %+v is outside [0, 2^31-1]", hash, p)
	}
	want, _ := c40Select(gs, hash)
	got, ok := BalancePacket(&p, gs)
	if !ok {
		return fmt.Errorf("BalancePacket(%+v) (hash %d) fell back to random routing (ok=false) although buckets were calculated", p, hash)
	}
	if got != want {
		return fmt.Errorf("BalancePacket(%+v) (hash %d) chose %v, the share containing the hash belongs to %v", p, hash, got, want)
	}
	return nil
}

func c40Describe(ws []int, gs []Gateway) string {
	var sb strings.Builder
	for i := range gs {
		fmt.Fprintf(&sb, "{w=%d ub=%d}", ws[i], gs[i].BucketUpperBound())
	}
	return sb.String()
}

func TestC40_Buckets(t *testing.T) {
	vk.Check(t, 150000, func(rt *rapid.T) {
		ws, kind := c40Weights(rt)
		if c40InOverflowClass(ws) && vk.KnownOpen(c40PID, c40KeyOverflow) {
			vk.Excluded(c40PID, c40KeyOverflow)
			return
		}
		gs := c40Build(ws)
		CalculateBucketsForGateways(gs)
		if err := c40CheckPartition(ws, gs); err != nil {
			rt.Fatalf("weights %v: %v; buckets %s", ws, err, c40Describe(ws, gs))
		}
		// weights and addresses are untouched
		for i := range gs {
			if gs[i].Addr() != c40Addr(i) || gs[i].weight != ws[i] {
				rt.Fatalf("CalculateBucketsForGateways changed gateway %d: %+v", i, gs[i])
			}
		}
		nPk := rapid.IntRange(1, 6).Draw(rt, "nPackets")
		labels := []string{"weights:" + kind, fmt.Sprintf("n=%d", len(ws))}
		for k := 0; k < nPk; k++ {
			p, pk := c40Packet(rt, gs)
			labels = append(labels, "pkt:"+pk)
			if err := c40CheckPacket(gs, p); err != nil {
				rt.Fatalf("weights %v buckets %s: %v", ws, c40Describe(ws, gs), err)
			}
			first, _ := BalancePacket(&p, gs)
			// (3) only the port pair matters
			q := p
			q.LocalAddr, q.RemoteAddr = c40AnyAddr(rt, "laddr2"), c40AnyAddr(rt, "raddr2")
			q.Protocol = rapid.Uint8().Draw(rt, "proto2")
			q.Fragment = !p.Fragment
			again, ok := BalancePacket(&q, gs)
			if !ok || again != first {
				rt.Fatalf("weights %v: same ports (%d,%d) but different gateway: %+v -> %v, %+v -> %v (ok=%v)", ws, p.LocalPort, p.RemotePort, p, first, q, again, ok)
			}
			if third, _ := BalancePacket(&p, gs); third != first {
				rt.Fatalf("weights %v: BalancePacket(%+v) not repeatable: %v then %v", ws, p, first, third)
			}
		}
		unequal := false
		for _, w := range ws {
			if w != ws[0] {
				unequal = true
			}
		}
		nt := len(ws) >= 2 && unequal
		if nt {
			labels = append(labels, "nontrivial")
		}
		vk.Case(c40PID, fmt.Sprint(ws), nt, labels...)
		if nt && vk.WantSample(c40PID) {
			vk.Sample(c40PID, map[string]any{"weights": ws, "buckets": c40Describe(ws, gs)})
		}
	})
}

// Every remote port for a drawn local port (a 2^16 slice of the port-pair space), per gateway list.
func TestC40_PortSweep(t *testing.T) {
	vk.Check(t, 60, func(rt *rapid.T) {
		var ws []int
		for {
			ws, _ = c40Weights(rt)
			if !(c40InOverflowClass(ws) && vk.KnownOpen(c40PID, c40KeyOverflow)) {
				break
			}
			vk.Excluded(c40PID, c40KeyOverflow)
		}
		gs := c40Build(ws)
		CalculateBucketsForGateways(gs)
		if err := c40CheckPartition(ws, gs); err != nil {
			rt.Fatalf("weights %v: %v; buckets %s", ws, err, c40Describe(ws, gs))
		}
		lp := rapid.Uint16().Draw(rt, "lport")
		swap := rapid.Bool().Draw(rt, "sweepLocal")
		p := firewall.Packet{LocalAddr: c40AnyAddr(rt, "laddr"), RemoteAddr: c40AnyAddr(rt, "raddr"), Protocol: 6}
		hits := make(map[netip.Addr]int)
		for rp := 0; rp < 65536; rp++ {
			p.LocalPort, p.RemotePort = lp, uint16(rp)
			if swap {
				p.LocalPort, p.RemotePort = uint16(rp), lp
			}
			if err := c40CheckPacket(gs, p); err != nil {
				rt.Fatalf("weights %v buckets %s: %v", ws, c40Describe(ws, gs), err)
			}
			a, _ := BalancePacket(&p, gs)
			hits[a]++
		}
		vk.Case(c40PID, fmt.Sprintf("sweep/%v/%d/%v", ws, lp, swap), len(ws) >= 2, "sweep", fmt.Sprintf("sweep:gateways-hit=%d/%d", len(hits), len(ws)))
		vk.LabelN(c40PID, "sweep:packets", 65536)
	})
}

func c40ReproduceOverflow() (string, bool) {
	ws := []int{c40HashMax, c40HashMax, c40HashMax, c40HashMax, c40HashMax}
	gs := c40Build(ws)
	CalculateBucketsForGateways(gs)
	if err := c40CheckPartition(ws, gs); err != nil {
		return fmt.Sprintf("weights %v: %v; buckets %s", ws, err, c40Describe(ws, gs)), true
	}
	return "", false
}

func TestC40_Probe_WeightSumOverflow(t *testing.T) {
	defer vk.Flush()
	what, bad := c40ReproduceOverflow()
	if !bad {
		return
	}
	if vk.KnownOpen(c40PID, c40KeyOverflow) {
		vk.ReportKnown(c40PID, c40KeyOverflow)
		return
	}
	t.Fatalf("bucket calculation overflows: %s", what)
}

// generator self-test: the inverse mixer really lands on the requested hash (otherwise the
// boundary classes would silently be random packets).
func TestC40_GeneratorLandsOnBoundaries(t *testing.T) {
	defer vk.Flush()
	miss := 0
	for _, h := range []uint32{0, 1, c40HashMax, 1 << 31, 0xffffffff, 123456789, 0x80000001} {
		lp, rp := c40Unhash(h)
		if hashPacket(&firewall.Packet{LocalPort: lp, RemotePort: rp}) != int(h&c40HashMax) {
			miss++
		}
	}
	if miss > 0 {
		// not a property violation: the hash changed, the boundary generator is merely ineffective
		vk.Note(c40PID, fmt.Sprintf("boundary generator: inverse mixer missed %d of 7 targets (hash function differs from the documented one)", miss))
	}
}
