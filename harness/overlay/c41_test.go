package overlay

// C41 - route configuration parses exactly.
//
// Generated tun.routes / tun.unsafe_routes lists are rendered as YAML text (flow style, so that the
// harness controls whether a scalar is an integer, a quoted decimal string, a float, a bool, null,
// a list or a map), loaded through config.C.LoadString and handed to parseRoutes /
// parseUnsafeRoutes. The oracle is an independent per-entry verdict (mustAccept / mustRefuse /
// either) plus the expected Route values; it never looks at the code under test.
//
// Interpretation of the statement (kept as weak as the text allows):
//   - numeric field as YAML integer or as a string of ASCII digits (optionally with leading zeros or
//     a leading '-') states that value; in range => must load with exactly that value; out of range
//     => must be refused.
//   - "+5" is accepted by strconv but is not a plain decimal string: either refused or exactly 5.
//   - any other string and any other YAML type (float, bool, null, list, map, integer beyond int64)
//     is not well formed => must be refused with an error (a panic is not a refusal).
//   - ranges: metric 0..MaxInt32, weight 1..MaxInt32, mtu >= 500 (unsafe routes: 0 = unset is also
//     fine); an mtu above 65535 is left to the implementation (either refused or kept exactly).
//   - tun.routes entry: inside = address within one overlay network and prefix at least as long.
//   - tun.unsafe_routes entry: address inside an overlay network => refused; disjoint from all
//     overlay networks => accepted; a wider prefix that merely contains an overlay network
//     (e.g. 0.0.0.0/0) is left to the implementation.

import (
	"fmt"
	"log/slog"
	"io"
	"math"
	"net/netip"
	"strconv"
	"strings"
	"testing"

	"github.com/slackhq/nebula/config"
	"github.com/slackhq/nebula/routing"
	"pgregory.net/rapid"
	"verifkit/vk"
)

const (
	c41Accept = 0
	c41Either = 1
	c41Refuse = 2
)

// c41Num is one numeric field as written in the configuration.
type c41Num struct {
	Kind   string // absent int decstr decstr0 negstr plusstr hugestr badstr float bool null list map bigint
	Val    int64  // stated value for int/decstr/decstr0/negstr/plusstr
	YAML   string // YAML text of the value
	GoType string // dynamic Go type the YAML decoder must deliver (harness self check)
}

func (n c41Num) isString() bool {
	switch n.Kind {
	case "decstr", "decstr0", "negstr", "plusstr", "hugestr", "badstr":
		return true
	}
	return false
}

// stated reports whether the field states an integer value (plain integer or decimal string).
func (n c41Num) stated() bool {
	switch n.Kind {
	case "int", "decstr", "decstr0", "negstr", "plusstr":
		return true
	}
	return false
}

func (n c41Num) otherType() bool {
	switch n.Kind {
	case "float", "bool", "null", "list", "map", "bigint":
		return true
	}
	return false
}

var c41BadStrings = []string{"", " ", "0x10", "1e3", "5 ", " 5", "five", "1_000", "5.0", "٣", "--5", "5-", "0b11", "0o7", "1,000", "NaN", "true", "-"}

// c41GenNum draws a numeric field. mode 0: integers only; 1: integers and decimal strings; 2: everything.
// lo/hi is the accepted range, used only to steer values toward the boundaries.
func c41GenNum(rt *rapid.T, name string, mode int, lo, hi int64, allowAbsent bool) c41Num {
	kinds := []string{"int", "int", "int"}
	if allowAbsent {
		kinds = append(kinds, "absent", "absent")
	}
	if mode >= 1 {
		kinds = append(kinds, "decstr", "decstr", "decstr0", "negstr")
	}
	if mode >= 2 {
		kinds = append(kinds, "plusstr", "hugestr", "badstr", "float", "bool", "null", "list", "map", "bigint")
	}
	k := rapid.SampledFrom(kinds).Draw(rt, name+".kind")
	val := rapid.OneOf(
		rapid.Int64Range(lo, hi),
		rapid.Int64Range(lo, lo+2000),
		rapid.SampledFrom([]int64{lo, lo + 1, hi, hi - 1, lo - 1, hi + 1, 0, 1, 2, 100, 499, 500, 501, 1300, 9001, 65535, 65536, math.MaxInt32, math.MaxInt32 + 1, math.MaxInt64, -1, -500, math.MinInt32, math.MinInt64 + 1}),
	).Draw(rt, name+".val")
	n := c41Num{Kind: k}
	switch k {
	case "absent":
	case "int":
		n.Val, n.YAML, n.GoType = val, strconv.FormatInt(val, 10), "int"
	case "decstr":
		if val < 0 {
			val = -(val + 1)
		}
		n.Val, n.YAML, n.GoType = val, strconv.Quote(strconv.FormatInt(val, 10)), "string"
	case "decstr0":
		if val < 0 {
			val = -(val + 1)
		}
		z := rapid.IntRange(1, 3).Draw(rt, name+".zeros")
		n.Val, n.YAML, n.GoType = val, strconv.Quote(strings.Repeat("0", z)+strconv.FormatInt(val, 10)), "string"
	case "negstr":
		if val >= 0 {
			val = -val - 1
		}
		n.Val, n.YAML, n.GoType = val, strconv.Quote(strconv.FormatInt(val, 10)), "string"
	case "plusstr":
		if val < 0 {
			val = -(val + 1)
		}
		n.Val, n.YAML, n.GoType = val, strconv.Quote("+"+strconv.FormatInt(val, 10)), "string"
	case "hugestr":
		n.YAML, n.GoType = strconv.Quote(rapid.SampledFrom([]string{"9223372036854775808", "99999999999999999999", "-9223372036854775809", "340282366920938463463374607431768211456"}).Draw(rt, name+".huge")), "string"
	case "badstr":
		n.YAML, n.GoType = strconv.Quote(rapid.SampledFrom(c41BadStrings).Draw(rt, name+".bad")), "string"
	case "float":
		n.YAML, n.GoType = rapid.SampledFrom([]string{"1.5", "600.5", "1e3", "0.0", "-2.25", ".inf", "1500.0"}).Draw(rt, name+".float"), "float64"
	case "bool":
		n.YAML, n.GoType = rapid.SampledFrom([]string{"true", "false"}).Draw(rt, name+".bool"), "bool"
	case "null":
		n.YAML, n.GoType = rapid.SampledFrom([]string{"null", "~"}).Draw(rt, name+".null"), "<nil>"
	case "list":
		n.YAML, n.GoType = rapid.SampledFrom([]string{"[]", "[600]", "[\"600\"]"}).Draw(rt, name+".list"), "[]interface {}"
	case "map":
		n.YAML, n.GoType = rapid.SampledFrom([]string{"{}", "{v: 600}"}).Draw(rt, name+".map"), "map[string]interface {}"
	case "bigint":
		n.YAML, n.GoType = rapid.SampledFrom([]string{"9223372036854775808", "18446744073709551615"}).Draw(rt, name+".big"), "uint64"
	}
	return n
}

// c41Verdict is the independent acceptance rule for one numeric field.
// dflt is the value when absent (absentOK false => an absent field must be refused).
func c41Verdict(n c41Num, inRange func(int64) int, absentOK bool, dflt int) (verdict int, val int) {
	switch {
	case n.Kind == "absent":
		if absentOK {
			return c41Accept, dflt
		}
		return c41Refuse, 0
	case n.stated():
		v := inRange(n.Val)
		if v == c41Refuse {
			return c41Refuse, 0
		}
		if n.Kind == "plusstr" && v == c41Accept {
			v = c41Either
		}
		return v, int(n.Val)
	default:
		return c41Refuse, 0
	}
}

func c41MetricRange(v int64) int {
	if v < 0 || v > math.MaxInt32 {
		return c41Refuse
	}
	return c41Accept
}

func c41WeightRange(v int64) int {
	if v < 1 || v > math.MaxInt32 {
		return c41Refuse
	}
	return c41Accept
}

func c41MtuRange(zeroOK bool) func(int64) int {
	return func(v int64) int {
		if v == 0 && zeroOK {
			return c41Accept
		}
		if v < 500 {
			return c41Refuse
		}
		if v > 65535 {
			return c41Either
		}
		return c41Accept
	}
}

// ---- overlay networks and prefixes -------------------------------------------------------------

// c41PrefixBitsEqual compares the first n bits of two addresses of the same family by hand.
func c41PrefixBitsEqual(a, b netip.Addr, n int) bool {
	if a.Is4() != b.Is4() {
		return false
	}
	as, bs := a.AsSlice(), b.AsSlice()
	for i := 0; i < n; i++ {
		if (as[i/8]>>(7-uint(i%8)))&1 != (bs[i/8]>>(7-uint(i%8)))&1 {
			return false
		}
	}
	return true
}

func c41AddrIn(network netip.Prefix, a netip.Addr) bool {
	return c41PrefixBitsEqual(network.Addr(), a, network.Bits())
}

// c41Overlaps: two prefixes share an address iff they agree on the shorter prefix length.
func c41Overlaps(p, q netip.Prefix) bool {
	n := p.Bits()
	if q.Bits() < n {
		n = q.Bits()
	}
	return c41PrefixBitsEqual(p.Addr(), q.Addr(), n)
}

func c41GenAddr(rt *rapid.T, name string, v4 bool) netip.Addr {
	if v4 {
		b := rapid.SliceOfN(rapid.Byte(), 4, 4).Draw(rt, name)
		return netip.AddrFrom4([4]byte(b))
	}
	b := rapid.SliceOfN(rapid.Byte(), 16, 16).Draw(rt, name)
	b[0] = 0xfd // keep clear of 4in6 and of the zero address
	return netip.AddrFrom16([16]byte(b))
}

func c41GenNetworks(rt *rapid.T) []netip.Prefix {
	n := rapid.IntRange(1, 3).Draw(rt, "nnets")
	var out []netip.Prefix
	for i := 0; i < n; i++ {
		v4 := rapid.IntRange(0, 3).Draw(rt, "net.fam") != 0
		a := c41GenAddr(rt, "net.addr", v4)
		var bits int
		if v4 {
			bits = rapid.IntRange(8, 30).Draw(rt, "net.bits")
		} else {
			bits = rapid.IntRange(32, 120).Draw(rt, "net.bits")
		}
		// certificate networks are host address + prefix length, i.e. not masked
		out = append(out, netip.PrefixFrom(a, bits))
	}
	return out
}

// c41AddrWithin returns an address sharing the first `bits` bits with base, the rest drawn.
func c41AddrWithin(rt *rapid.T, name string, base netip.Addr, bits int) netip.Addr {
	r := c41GenAddr(rt, name, base.Is4()).AsSlice()
	bs := base.AsSlice()
	for i := 0; i < bits; i++ {
		m := byte(1) << (7 - uint(i%8))
		r[i/8] = r[i/8]&^m | bs[i/8]&m
	}
	a, _ := netip.AddrFromSlice(r)
	return a
}

// c41GenCidr draws a route prefix related to the overlay networks in a chosen way.
func c41GenCidr(rt *rapid.T, nets []netip.Prefix) (netip.Prefix, string) {
	rel := rapid.SampledFrom([]string{"inside", "inside", "equal", "wider-in", "wider-out", "disjoint", "disjoint", "otherfam", "default"}).Draw(rt, "cidr.rel")
	nw := nets[rapid.IntRange(0, len(nets)-1).Draw(rt, "cidr.net")]
	max := nw.Addr().BitLen()
	switch rel {
	case "inside":
		bits := rapid.IntRange(nw.Bits(), max).Draw(rt, "cidr.bits")
		return netip.PrefixFrom(c41AddrWithin(rt, "cidr.addr", nw.Addr(), nw.Bits()), bits), rel
	case "equal":
		return nw, rel
	case "wider-in": // shorter prefix, address still inside the overlay network
		bits := rapid.IntRange(0, nw.Bits()-1).Draw(rt, "cidr.bits")
		return netip.PrefixFrom(c41AddrWithin(rt, "cidr.addr", nw.Addr(), nw.Bits()), bits), rel
	case "wider-out": // shorter prefix containing the network, its written address outside the network
		bits := rapid.IntRange(0, nw.Bits()-1).Draw(rt, "cidr.bits")
		return netip.PrefixFrom(c41AddrWithin(rt, "cidr.addr", nw.Addr(), bits), bits).Masked(), rel
	case "default":
		if nw.Addr().Is4() {
			return netip.MustParsePrefix("0.0.0.0/0"), rel
		}
		return netip.MustParsePrefix("::/0"), rel
	case "otherfam":
		a := c41GenAddr(rt, "cidr.addr", !nw.Addr().Is4())
		return netip.PrefixFrom(a, rapid.IntRange(8, a.BitLen()).Draw(rt, "cidr.bits")), rel
	default:
		a := c41GenAddr(rt, "cidr.addr", nw.Addr().Is4())
		return netip.PrefixFrom(a, rapid.IntRange(8, a.BitLen()).Draw(rt, "cidr.bits")), rel
	}
}

// c41RouteField is the "route" key of an entry.
type c41RouteField struct {
	YAML    string
	Present bool
	Valid   bool
	Cidr    netip.Prefix
	Rel     string
}

func c41GenRouteField(rt *rapid.T, nets []netip.Prefix, mode int) c41RouteField {
	p, rel := c41GenCidr(rt, nets)
	f := c41RouteField{Present: true, Valid: true, Cidr: p, Rel: rel, YAML: strconv.Quote(p.String())}
	if mode >= 2 && rapid.IntRange(0, 9).Draw(rt, "route.bad") == 0 {
		bad := rapid.SampledFrom([]string{"absent", `"nope"`, `"1.0.0.0"`, `"1.0.0.0/33"`, `"fd00::/129"`, `""`, "5", "null", "true", `["1.0.0.0/8"]`, `"1.0.0.0/8 "`, `"1.0.0.0/-1"`, `"fe80::1%eth0/64"`}).Draw(rt, "route.badval")
		f.Valid, f.Rel = false, "badroute"
		if bad == "absent" {
			f.Present = false
		} else {
			f.YAML = bad
		}
	}
	return f
}

// ---- cases ------------------------------------------------------------------------------------

type c41Gw struct {
	AddrYAML string // "" = key absent
	Valid    bool
	Addr     netip.Addr
	Weight   c41Num
	NotMap   string // non-empty: the list element is this YAML value instead of a map
}

type c41Entry struct {
	NotMap  string // non-empty: the entry is this YAML value instead of a map
	Mtu     c41Num
	Metric  c41Num
	Route   c41RouteField
	ViaKind string // absent string badstring list emptylist badtype
	ViaYAML string
	ViaAddr netip.Addr
	Gws     []c41Gw
	Install string // YAML text, "" = absent
	InstV   int    // verdict
	InstVal bool
}

func (e c41Entry) yaml(unsafe bool) string {
	if e.NotMap != "" {
		return e.NotMap
	}
	var kv []string
	if e.Mtu.Kind != "absent" {
		kv = append(kv, "mtu: "+e.Mtu.YAML)
	}
	if e.Route.Present {
		kv = append(kv, "route: "+e.Route.YAML)
	}
	if unsafe {
		if e.Metric.Kind != "absent" {
			kv = append(kv, "metric: "+e.Metric.YAML)
		}
		switch e.ViaKind {
		case "absent":
		case "list", "emptylist":
			var gs []string
			for _, g := range e.Gws {
				if g.NotMap != "" {
					gs = append(gs, g.NotMap)
					continue
				}
				var gk []string
				if g.AddrYAML != "" {
					gk = append(gk, "gateway: "+g.AddrYAML)
				}
				if g.Weight.Kind != "absent" {
					gk = append(gk, "weight: "+g.Weight.YAML)
				}
				gs = append(gs, "{"+strings.Join(gk, ", ")+"}")
			}
			kv = append(kv, "via: ["+strings.Join(gs, ", ")+"]")
		default:
			kv = append(kv, "via: "+e.ViaYAML)
		}
		if e.Install != "" {
			kv = append(kv, "install: "+e.Install)
		}
	}
	return "{" + strings.Join(kv, ", ") + "}"
}

var c41NotMapValues = []string{`"asdf"`, "5", "null", "[]", "true", `["mtu"]`}

func c41GenEntry(rt *rapid.T, nets []netip.Prefix, mode int, unsafe bool) c41Entry {
	var e c41Entry
	if mode >= 2 && rapid.IntRange(0, 24).Draw(rt, "entry.notmap") == 0 {
		e.NotMap = rapid.SampledFrom(c41NotMapValues).Draw(rt, "entry.notmapval")
		return e
	}
	e.Mtu = c41GenNum(rt, "mtu", mode, 500, 65535, true)
	e.Route = c41GenRouteField(rt, nets, mode)
	if !unsafe {
		e.Metric.Kind = "absent"
		return e
	}
	e.Metric = c41GenNum(rt, "metric", mode, 0, math.MaxInt32, true)
	viaK := "string"
	if mode >= 2 {
		viaK = rapid.SampledFrom([]string{"string", "string", "string", "list", "list", "list", "emptylist", "badstring", "badtype", "absent"}).Draw(rt, "via.kind")
	} else {
		viaK = rapid.SampledFrom([]string{"string", "list", "list"}).Draw(rt, "via.kind")
	}
	e.ViaKind = viaK
	switch viaK {
	case "string":
		e.ViaAddr = c41GenAddr(rt, "via.addr", rapid.Bool().Draw(rt, "via.v4"))
		e.ViaYAML = strconv.Quote(e.ViaAddr.String())
	case "badstring":
		e.ViaYAML = rapid.SampledFrom([]string{`"nope"`, `""`, `"10.0.0.256"`, `"10.0.0.1/24"`, `"10.0.0.1 "`}).Draw(rt, "via.bad")
	case "badtype":
		e.ViaYAML = rapid.SampledFrom([]string{"127", "true", "null", "{gateway: \"10.0.0.1\"}", "1.5"}).Draw(rt, "via.badtype")
	case "list":
		ng := rapid.IntRange(1, 3).Draw(rt, "via.n")
		for i := 0; i < ng; i++ {
			var g c41Gw
			if mode >= 2 && rapid.IntRange(0, 19).Draw(rt, "gw.notmap") == 0 {
				g.NotMap = rapid.SampledFrom([]string{`"10.0.0.1"`, "1", "null", "[]"}).Draw(rt, "gw.notmapval")
				e.Gws = append(e.Gws, g)
				continue
			}
			g.Addr = c41GenAddr(rt, "gw.addr", rapid.Bool().Draw(rt, "gw.v4"))
			g.AddrYAML, g.Valid = strconv.Quote(g.Addr.String()), true
			if mode >= 2 && rapid.IntRange(0, 14).Draw(rt, "gw.bad") == 0 {
				g.Valid = false
				g.AddrYAML = rapid.SampledFrom([]string{"", `"nope"`, "127", "null", `"1.2.3"`, `["10.0.0.1"]`}).Draw(rt, "gw.badval")
			}
			g.Weight = c41GenNum(rt, "weight", mode, 1, math.MaxInt32, true)
			e.Gws = append(e.Gws, g)
		}
	}
	// install
	ik := rapid.SampledFrom([]string{"absent", "absent", "absent", "true", "false", "strtrue", "strfalse", "lenient", "bad"}).Draw(rt, "install.kind")
	if mode < 2 && (ik == "lenient" || ik == "bad") {
		ik = "false"
	}
	switch ik {
	case "absent":
		e.InstV, e.InstVal = c41Accept, true
	case "true":
		e.Install, e.InstV, e.InstVal = "true", c41Accept, true
	case "false":
		e.Install, e.InstV, e.InstVal = "false", c41Accept, false
	case "strtrue":
		e.Install, e.InstV, e.InstVal = `"true"`, c41Accept, true
	case "strfalse":
		e.Install, e.InstV, e.InstVal = `"false"`, c41Accept, false
	case "lenient": // accepted by strconv.ParseBool; the statement says nothing: either refused or the obvious value
		l := rapid.SampledFrom([]string{`"1"|t`, `"0"|f`, `1|t`, `0|f`, `"T"|t`, `"F"|f`, `"TRUE"|t`, `"False"|f`}).Draw(rt, "install.len")
		p := strings.Split(l, "|")
		e.Install, e.InstV, e.InstVal = p[0], c41Either, p[1] == "t"
	case "bad":
		e.Install, e.InstV = rapid.SampledFrom([]string{`"maybe"`, `""`, "null", "[true]", "2", `"yes please"`, "1.5"}).Draw(rt, "install.bad"), c41Refuse
	}
	return e
}

func c41Max(a, b int) int {
	if a > b {
		return a
	}
	return b
}

// c41ExpectRoute: verdict and expected Route of one tun.routes entry.
func c41ExpectRoute(e c41Entry, nets []netip.Prefix) (int, Route) {
	if e.NotMap != "" {
		return c41Refuse, Route{}
	}
	v, mtu := c41Verdict(e.Mtu, c41MtuRange(false), false, 0)
	if !e.Route.Valid {
		return c41Refuse, Route{}
	}
	inside := false
	for _, nw := range nets {
		if c41AddrIn(nw, e.Route.Cidr.Addr()) && e.Route.Cidr.Bits() >= nw.Bits() {
			inside = true
		}
	}
	if !inside {
		return c41Refuse, Route{}
	}
	return v, Route{MTU: mtu, Install: true, Cidr: e.Route.Cidr}
}

// c41ExpectUnsafe: verdict and expected Route of one tun.unsafe_routes entry.
func c41ExpectUnsafe(e c41Entry, nets []netip.Prefix) (int, Route) {
	if e.NotMap != "" {
		return c41Refuse, Route{}
	}
	v, mtu := c41Verdict(e.Mtu, c41MtuRange(true), true, 0)
	v2, metric := c41Verdict(e.Metric, c41MetricRange, true, 0)
	v = c41Max(v, v2)
	var gws routing.Gateways
	switch e.ViaKind {
	case "string":
		gws = routing.Gateways{routing.NewGateway(e.ViaAddr, 1)}
	case "list":
		for _, g := range e.Gws {
			if g.NotMap != "" || !g.Valid {
				return c41Refuse, Route{}
			}
			vw, w := c41Verdict(g.Weight, c41WeightRange, true, 1)
			v = c41Max(v, vw)
			gws = append(gws, routing.NewGateway(g.Addr, w))
		}
	case "emptylist": // a gateway list without gateways: nothing in the statement, left open
		v = c41Max(v, c41Either)
	default:
		return c41Refuse, Route{}
	}
	v = c41Max(v, e.InstV)
	if !e.Route.Valid {
		return c41Refuse, Route{}
	}
	overlaps := false
	for _, nw := range nets {
		if c41AddrIn(nw, e.Route.Cidr.Addr()) {
			return c41Refuse, Route{}
		}
		if c41Overlaps(nw, e.Route.Cidr) {
			overlaps = true
		}
	}
	if overlaps {
		v = c41Max(v, c41Either)
	}
	return v, Route{MTU: mtu, Metric: metric, Install: e.InstVal, Cidr: e.Route.Cidr, Via: gws}
}

// c41TypeCheck verifies that the YAML decoder delivered the Go types the generator intended
// (a failure here is a harness defect, not a finding).
func c41TypeCheck(rt *rapid.T, raw any, entries []c41Entry, unsafe bool, doc string) {
	lst, ok := raw.([]any)
	if !ok || len(lst) != len(entries) {
		rt.Fatalf("harness: decoded list has wrong shape (%T) for\n%s", raw, doc)
	}
	chk := func(m map[string]any, key string, n c41Num) {
		v, present := m[key]
		if n.Kind == "absent" {
			if present {
				rt.Fatalf("harness: %s should be absent in\n%s", key, doc)
			}
			return
		}
		if !present || fmt.Sprintf("%T", v) != n.GoType {
			rt.Fatalf("harness: %s decoded as %T, generator intended %s (%s) in\n%s", key, v, n.GoType, n.Kind, doc)
		}
		if n.Kind == "int" && int64(v.(int)) != n.Val {
			rt.Fatalf("harness: %s decoded as %v, intended %d", key, v, n.Val)
		}
	}
	for i, e := range entries {
		if e.NotMap != "" {
			continue
		}
		m, ok := lst[i].(map[string]any)
		if !ok {
			rt.Fatalf("harness: entry %d decoded as %T in\n%s", i, lst[i], doc)
		}
		chk(m, "mtu", e.Mtu)
		if !unsafe {
			continue
		}
		chk(m, "metric", e.Metric)
		if e.ViaKind == "list" {
			gl, ok := m["via"].([]any)
			if !ok || len(gl) != len(e.Gws) {
				rt.Fatalf("harness: via decoded as %T in\n%s", m["via"], doc)
			}
			for j, g := range e.Gws {
				if g.NotMap != "" {
					continue
				}
				gm, ok := gl[j].(map[string]any)
				if !ok {
					rt.Fatalf("harness: gateway %d decoded as %T in\n%s", j, gl[j], doc)
				}
				chk(gm, "weight", g.Weight)
			}
		}
	}
}

type c41Case struct {
	Mode    int
	Nets    []netip.Prefix
	Top     string // "" = a list of entries; otherwise the YAML value of the key (not a list) or "absent"
	Entries []c41Entry
	Unsafe  bool
}

func (c c41Case) doc() string {
	key := "routes"
	if c.Unsafe {
		key = "unsafe_routes"
	}
	switch c.Top {
	case "absent":
		return "tun: {dev: nebula1}\n"
	case "":
		var es []string
		for _, e := range c.Entries {
			es = append(es, "    "+e.yaml(c.Unsafe))
		}
		if len(es) == 0 {
			return "tun:\n  " + key + ": []\n"
		}
		return "tun:\n  " + key + ": [\n" + strings.Join(es, ",\n") + "\n  ]\n"
	default:
		return "tun:\n  " + key + ": " + c.Top + "\n"
	}
}

func c41GenCase(rt *rapid.T, unsafe bool) c41Case {
	c := c41Case{Unsafe: unsafe}
	c.Mode = rapid.SampledFrom([]int{0, 0, 1, 1, 1, 2, 2, 2, 2}).Draw(rt, "mode")
	c.Nets = c41GenNetworks(rt)
	if c.Mode >= 2 && rapid.IntRange(0, 29).Draw(rt, "top.odd") == 0 {
		c.Top = rapid.SampledFrom([]string{"absent", `"hi"`, "5", "{mtu: 1300}", "true", "null"}).Draw(rt, "top")
		return c
	}
	n := rapid.SampledFrom([]int{0, 1, 1, 1, 2, 2, 3, 4}).Draw(rt, "nentries")
	for i := 0; i < n; i++ {
		c.Entries = append(c.Entries, c41GenEntry(rt, c.Nets, c.Mode, unsafe))
	}
	return c
}

// known-finding classes (see findings.d/C41-route-numeric.json)
const (
	c41KeyMetricString = "metric-string-discarded"
	c41KeyWeightString = "weight-string-refused"
	c41KeyTypePanic    = "numeric-other-type-panics"
)

func (c c41Case) classes() (metricStr, weightStr, otherType bool) {
	for _, e := range c.Entries {
		if e.NotMap != "" {
			continue
		}
		if e.Mtu.otherType() {
			otherType = true
		}
		if !c.Unsafe {
			continue
		}
		if e.Metric.otherType() {
			otherType = true
		}
		// every string that strconv.ParseInt(s, 10, 32) accepts and that does not state 0: in range it is
		// replaced by 0, negative ("-1") it is replaced by 0 instead of being refused
		if e.Metric.isString() && e.Metric.stated() && e.Metric.Val != 0 && e.Metric.Val >= math.MinInt32 && e.Metric.Val <= math.MaxInt32 {
			metricStr = true
		}
		for _, g := range e.Gws {
			if g.NotMap != "" {
				continue
			}
			if g.Weight.otherType() {
				otherType = true
			}
			if (g.Weight.Kind == "decstr" || g.Weight.Kind == "decstr0" || g.Weight.Kind == "plusstr") && g.Weight.Val >= 1 && g.Weight.Val <= math.MaxInt32 {
				weightStr = true
			}
		}
	}
	return
}

func c41Logger() *slog.Logger { return slog.New(slog.NewTextHandler(io.Discard, nil)) }

// c41Run loads the document and calls the parser, turning a panic into a value.
func c41Run(doc string, nets []netip.Prefix, unsafe bool) (routes []Route, err error, panicked any, cfg *config.C) {
	cfg = config.NewC(c41Logger())
	if lerr := cfg.LoadString(doc); lerr != nil {
		return nil, nil, "harness: YAML did not load: " + lerr.Error(), cfg
	}
	defer func() {
		if r := recover(); r != nil {
			panicked = r
		}
	}()
	if unsafe {
		routes, err = parseUnsafeRoutes(cfg, nets)
	} else {
		routes, err = parseRoutes(cfg, nets)
	}
	return
}

func c41SameRoute(got, want Route) bool {
	if got.MTU != want.MTU || got.Metric != want.Metric || got.Install != want.Install {
		return false
	}
	if got.Cidr.Bits() != want.Cidr.Bits() || got.Cidr.Masked() != want.Cidr.Masked() {
		return false
	}
	if len(got.Via) != len(want.Via) {
		return false
	}
	for i := range got.Via {
		if got.Via[i] != want.Via[i] {
			return false
		}
	}
	return true
}

func c41Property(rt *rapid.T, unsafe bool) {
	c := c41GenCase(rt, unsafe)
	doc := c.doc()
	metricStr, weightStr, otherType := c.classes()

	// expected outcome
	verdict := c41Accept
	var want []Route
	switch c.Top {
	case "absent", "null":
		// nothing configured
	case "":
		for _, e := range c.Entries {
			var v int
			var r Route
			if unsafe {
				v, r = c41ExpectUnsafe(e, c.Nets)
			} else {
				v, r = c41ExpectRoute(e, c.Nets)
			}
			verdict = c41Max(verdict, v)
			want = append(want, r)
		}
	default:
		verdict = c41Refuse
	}

	labels := []string{fmt.Sprintf("mode%d", c.Mode), map[bool]string{false: "routes", true: "unsafe"}[unsafe],
		[]string{"expect-accept", "expect-either", "expect-refuse"}[verdict]}
	nontrivial := false
	for _, e := range c.Entries {
		if e.NotMap != "" {
			labels = append(labels, "entry-notmap")
			nontrivial = true
			continue
		}
		nums := []struct {
			f string
			n c41Num
			r func(int64) int
		}{{"mtu", e.Mtu, c41MtuRange(unsafe)}}
		if unsafe {
			nums = append(nums, struct {
				f string
				n c41Num
				r func(int64) int
			}{"metric", e.Metric, c41MetricRange})
			for _, g := range e.Gws {
				if g.NotMap == "" {
					nums = append(nums, struct {
						f string
						n c41Num
						r func(int64) int
					}{"weight", g.Weight, c41WeightRange})
				}
			}
			labels = append(labels, "via-"+e.ViaKind)
		}
		for _, x := range nums {
			labels = append(labels, x.f+"-"+x.n.Kind)
			if x.n.isString() || x.n.otherType() {
				nontrivial = true
			}
			if x.n.stated() {
				if x.r(x.n.Val) == c41Refuse {
					labels = append(labels, x.f+"-out-of-range")
					nontrivial = true
				} else if x.n.isString() {
					labels = append(labels, x.f+"-string-in-range")
				}
			}
		}
		labels = append(labels, "cidr-"+e.Route.Rel)
	}
	if c.Top != "" {
		labels = append(labels, "top-"+c.Top)
		nontrivial = nontrivial || (c.Top != "absent" && c.Top != "null")
	}

	// recorded known findings: exactly these input classes are skipped while listed as open
	if otherType && vk.KnownOpen("C41", c41KeyTypePanic) {
		vk.Excluded("C41", c41KeyTypePanic)
		return
	}
	if metricStr && vk.KnownOpen("C41", c41KeyMetricString) {
		vk.Excluded("C41", c41KeyMetricString)
		return
	}
	if weightStr && vk.KnownOpen("C41", c41KeyWeightString) {
		vk.Excluded("C41", c41KeyWeightString)
		return
	}

	got, err, panicked, cfg := c41Run(doc, c.Nets, unsafe)
	if s, ok := panicked.(string); ok && strings.HasPrefix(s, "harness:") {
		rt.Fatalf("%s\n%s", s, doc)
	}
	if c.Top == "" {
		key := "tun.routes"
		if unsafe {
			key = "tun.unsafe_routes"
		}
		c41TypeCheck(rt, cfg.Get(key), c.Entries, unsafe, doc)
	}
	vk.Case("C41", fmt.Sprintf("%v|%v|%s", unsafe, c.Nets, doc), nontrivial, labels...)
	if vk.WantSample("C41") && nontrivial {
		vk.Sample("C41", map[string]any{"unsafe": unsafe, "networks": fmt.Sprint(c.Nets), "yaml": doc, "expected": []string{"accept", "either", "refuse"}[verdict]})
	}

	if panicked != nil {
		rt.Fatalf("parser panicked (%v) instead of returning an error; overlay networks %v, config:\n%s", panicked, c.Nets, doc)
	}
	switch {
	case verdict == c41Refuse && err == nil:
		rt.Fatalf("malformed / out-of-range / misplaced entry was loaded: got %+v; overlay networks %v, config:\n%s", got, c.Nets, doc)
	case verdict == c41Accept && err != nil:
		rt.Fatalf("well-formed configuration refused: %v; overlay networks %v, config:\n%s", err, c.Nets, doc)
	}
	if err != nil {
		if got != nil {
			rt.Fatalf("error %v together with routes %+v", err, got)
		}
		return
	}
	if len(got) != len(want) {
		rt.Fatalf("loaded %d routes, expected %d; config:\n%s", len(got), len(want), doc)
	}
	for i := range got {
		if !c41SameRoute(got[i], want[i]) {
			rt.Fatalf("entry %d loaded as {MTU:%d Metric:%d Install:%v Cidr:%v Via:%v}, stated {MTU:%d Metric:%d Install:%v Cidr:%v Via:%v}; overlay networks %v, config:\n%s",
				i+1, got[i].MTU, got[i].Metric, got[i].Install, got[i].Cidr, got[i].Via,
				want[i].MTU, want[i].Metric, want[i].Install, want[i].Cidr, want[i].Via, c.Nets, doc)
		}
	}
	// weights as they take effect: bucket shares follow the stated weights (hash-threshold mapping)
	for i := range got {
		if len(got[i].Via) < 2 {
			continue
		}
		g := append(routing.Gateways{}, got[i].Via...)
		routing.CalculateBucketsForGateways(g)
		var total, run uint64
		for _, x := range want[i].Via {
			_, w := c41GwWeight(x)
			total += uint64(w)
		}
		for j, x := range want[i].Via {
			_, w := c41GwWeight(x)
			run += uint64(w)
			exp := int((run<<31+total/2)/total) - 1
			if g[j].BucketUpperBound() != exp {
				rt.Fatalf("gateway %d of entry %d has bucket bound %d, the stated weights give %d; config:\n%s", j+1, i+1, g[j].BucketUpperBound(), exp, doc)
			}
		}
	}
}

// c41GwWeight reads address and weight back from the gateway's printed form.
func c41GwWeight(g routing.Gateway) (string, int) {
	s := g.String() // {addr: A, weight: W}
	i := strings.LastIndex(s, "weight: ")
	w, _ := strconv.Atoi(strings.TrimSuffix(s[i+len("weight: "):], "}"))
	return s, w
}

func TestC41_Routes(t *testing.T) {
	vk.Check(t, 60000, func(rt *rapid.T) { c41Property(rt, false) })
}

func TestC41_UnsafeRoutes(t *testing.T) {
	vk.Check(t, 150000, func(rt *rapid.T) { c41Property(rt, true) })
}

// ---- probes for the recorded findings ---------------------------------------------------------

func c41Probe(t *testing.T, key string, reproduces func() (bool, string)) {
	defer vk.Flush()
	rep, what := reproduces()
	switch {
	case !rep:
		return
	case vk.KnownOpen("C41", key):
		vk.ReportKnown("C41", key)
	default:
		t.Fatalf("C41 %s: %s", key, what)
	}
}

var c41ProbeNets = []netip.Prefix{netip.MustParsePrefix("10.0.0.1/24")}

func TestC41_Probe_metric_string_discarded(t *testing.T) {
	c41Probe(t, c41KeyMetricString, func() (bool, string) {
		doc := "tun:\n  unsafe_routes: [{route: \"1.0.0.0/8\", via: \"10.0.0.2\", metric: \"100\"}]\n"
		got, err, p, _ := c41Run(doc, c41ProbeNets, true)
		if p == nil && err == nil && len(got) == 1 && got[0].Metric == 100 {
			return false, ""
		}
		return true, fmt.Sprintf("metric: \"100\" gives routes=%+v err=%v panic=%v, stated metric is 100", got, err, p)
	})
}

func TestC41_Probe_weight_string_refused(t *testing.T) {
	c41Probe(t, c41KeyWeightString, func() (bool, string) {
		doc := "tun:\n  unsafe_routes: [{route: \"1.0.0.0/8\", via: [{gateway: \"10.0.0.2\", weight: \"5\"}, {gateway: \"10.0.0.3\", weight: 1}]}]\n"
		got, err, p, _ := c41Run(doc, c41ProbeNets, true)
		if p == nil && err == nil && len(got) == 1 && len(got[0].Via) == 2 && got[0].Via[0] == routing.NewGateway(netip.MustParseAddr("10.0.0.2"), 5) {
			return false, ""
		}
		return true, fmt.Sprintf("weight: \"5\" gives routes=%+v err=%v panic=%v, stated weight is 5", got, err, p)
	})
}

func TestC41_Probe_numeric_other_type_panics(t *testing.T) {
	c41Probe(t, c41KeyTypePanic, func() (bool, string) {
		for _, d := range []struct {
			doc    string
			unsafe bool
		}{
			{"tun:\n  routes: [{route: \"10.0.0.0/29\", mtu: 1300.5}]\n", false},
			{"tun:\n  routes: [{route: \"10.0.0.0/29\", mtu: null}]\n", false},
			{"tun:\n  unsafe_routes: [{route: \"1.0.0.0/8\", via: \"10.0.0.2\", mtu: true}]\n", true},
			{"tun:\n  unsafe_routes: [{route: \"1.0.0.0/8\", via: \"10.0.0.2\", metric: 1.5}]\n", true},
			{"tun:\n  unsafe_routes: [{route: \"1.0.0.0/8\", via: [{gateway: \"10.0.0.2\", weight: 2.5}]}]\n", true},
		} {
			got, err, p, _ := c41Run(d.doc, c41ProbeNets, d.unsafe)
			if p != nil || err == nil {
				return true, fmt.Sprintf("config %q: routes=%+v err=%v panic=%v, expected an error", d.doc, got, err, p)
			}
		}
		return false, ""
	})
}
