//go:build amd64

package checksum

// C25 - the accelerated Internet checksum equals the RFC 1071 one's-complement sum for every buffer
// content, length, alignment and initial value.
//
// Oracle (independent of gvisor and of the assembly): the arithmetic definition
//
//	S = seed + sum of the 16-bit big-endian words of buf (an odd tail byte is the HIGH byte of a
//	    word whose low byte is zero)
//	result = 0 when S == 0, otherwise ((S-1) mod 0xffff) + 1
//
// (one's-complement addition with end-around carry never turns a non-zero sum into 0x0000, and a
// sum that is a non-zero multiple of 0xffff is 0xffff). S is accumulated in a uint64, which cannot
// overflow below 2^47 bytes, so it is the exact integer.

import (
	"fmt"
	"testing"
	"unsafe"

	"pgregory.net/rapid"
	"verifkit/vk"
)

const c25PID = "C25"
const c25Guard = 64 // bytes kept on both sides of the buffer inside the arena

func c25Ref(b []byte, seed uint16) uint16 {
	s := uint64(seed)
	n := len(b)
	for i := 0; i+1 < n; i += 2 {
		s += uint64(b[i])<<8 | uint64(b[i+1])
	}
	if n&1 == 1 {
		s += uint64(b[n-1]) << 8
	}
	if s == 0 {
		return 0
	}
	return uint16((s-1)%0xffff) + 1
}

type c25Impl struct {
	name string
	fn   func([]byte, uint16) uint16
}

func c25Impls() []c25Impl {
	l := []c25Impl{{"Checksum", Checksum}}
	if hasAVX2 {
		l = append(l, c25Impl{"checksumAVX2", checksumAVX2})
	}
	return l
}

func c25NoteCPU() {
	if hasAVX2 {
		vk.Note(c25PID, "CPU has AVX2: checksumAVX2 assembly exercised directly and through Checksum")
	} else {
		vk.Note(c25PID, "CPU lacks AVX2: the assembly half was NOT exercised; Checksum resolved to the gvisor fallback")
	}
}

// splitmix64: expands ONE rapid-drawn 64-bit value into bulk content (drawing 9000 bytes one by one
// through rapid would dominate the run time). Deterministic in the draw, so replay works.
type c25Rng uint64

func (r *c25Rng) next() uint64 {
	*r += 0x9e3779b97f4a7c15
	z := uint64(*r)
	z = (z ^ (z >> 30)) * 0xbf58476d1ce4e5b9
	z = (z ^ (z >> 27)) * 0x94d049bb133111eb
	return z ^ (z >> 31)
}

var c25ContentClasses = []string{"ff", "zero", "alt-ff00", "alt-00ff", "ff-hole", "zero-spike", "ramp", "random", "ffff-words-mostly", "fe-ff", "drawn"}

// c25Fill writes the content class into b. hole/val/cs are rapid draws.
func c25Fill(b []byte, class string, hole int, val byte, cs uint64) {
	rng := c25Rng(cs)
	switch class {
	case "ff":
		for i := range b {
			b[i] = 0xff
		}
	case "zero":
		for i := range b {
			b[i] = 0
		}
	case "alt-ff00":
		for i := range b {
			if i&1 == 0 {
				b[i] = 0xff
			} else {
				b[i] = 0
			}
		}
	case "alt-00ff":
		for i := range b {
			if i&1 == 1 {
				b[i] = 0xff
			} else {
				b[i] = 0
			}
		}
	case "ff-hole":
		for i := range b {
			b[i] = 0xff
		}
		if len(b) > 0 {
			b[hole%len(b)] = val
		}
	case "zero-spike":
		for i := range b {
			b[i] = 0
		}
		if len(b) > 0 {
			b[hole%len(b)] = val
		}
	case "ramp":
		for i := range b {
			b[i] = byte(i) + val
		}
	case "random":
		i := 0
		for ; i+8 <= len(b); i += 8 {
			v := rng.next()
			for k := 0; k < 8; k++ {
				b[i+k] = byte(v >> (8 * k))
			}
		}
		v := rng.next()
		for ; i < len(b); i++ {
			b[i] = byte(v)
			v >>= 8
		}
	case "ffff-words-mostly":
		// mostly 0xff with roughly one byte in 16 random: long carry chains with irregular breaks
		for i := range b {
			b[i] = 0xff
		}
		for i := 0; i < len(b); i += 16 {
			v := rng.next()
			p := i + int(v&15)
			if p < len(b) {
				b[p] = byte(v >> 8)
			}
		}
	case "fe-ff":
		for i := range b {
			if rng.next()&1 == 0 {
				b[i] = 0xfe
			} else {
				b[i] = 0xff
			}
		}
	}
}

func c25CarryHeavy(class string) bool {
	switch class {
	case "ff", "ff-hole", "ffff-words-mostly", "fe-ff", "alt-ff00", "alt-00ff":
		return true
	}
	return false
}

// c25Lengths: dense 0..300, boundaries of the 8/32/64-byte loops up to 9000, uniform up to 9000 and
// a thin class up to 70000 (a 64 KiB superpacket is the largest buffer the callers checksum).
func c25LenGen() *rapid.Generator[int] {
	return rapid.Custom(func(t *rapid.T) int {
		switch rapid.IntRange(0, 9).Draw(t, "lenClass") {
		case 0, 1, 2:
			return rapid.IntRange(0, 300).Draw(t, "len")
		case 3, 4, 5:
			unit := rapid.SampledFrom([]int{8, 16, 32, 64, 128}).Draw(t, "unit")
			k := rapid.IntRange(0, 9000/unit).Draw(t, "k")
			d := rapid.IntRange(-3, 3).Draw(t, "d")
			n := k*unit + d
			if n < 0 {
				n = 0
			}
			return n
		case 6, 7, 8:
			return rapid.IntRange(0, 9000).Draw(t, "len")
		default:
			return rapid.IntRange(9001, 70000).Draw(t, "len")
		}
	})
}

func c25SeedGen() *rapid.Generator[uint16] {
	return rapid.OneOf(rapid.Uint16(), rapid.SampledFrom([]uint16{0, 1, 0xfffe, 0xffff, 0x00ff, 0xff00, 0x8000, 0x0100}))
}

var c25Arena = make([]byte, 70000+2*c25Guard+64)

func c25LenLabel(n int) string {
	switch {
	case n == 0:
		return "len=0"
	case n < 8:
		return "len<8"
	case n < 32:
		return "len<32"
	case n < 64:
		return "len<64"
	case n <= 300:
		return "len<=300"
	case n <= 9000:
		return "len<=9000"
	}
	return "len>9000"
}

// c25CheckOne runs every implementation over arena[start:start+n] and compares with the reference,
// then checks that bytes outside the slice do not influence the value and that the buffer is not
// written to.
func c25CheckOne(fatalf func(string, ...any), arena []byte, start, n int, seed uint16, desc string) uint16 {
	buf := arena[start : start+n : start+n]
	want := c25Ref(buf, seed)
	var before uint64
	for i, c := range arena {
		before = before*1099511628211 + uint64(c) + uint64(i)
	}
	for _, im := range c25Impls() {
		got := im.fn(buf, seed)
		if got != want {
			fatalf("%s(%s seed=%#04x) = %#04x, RFC 1071 definition gives %#04x; head=%x", im.name, desc, seed, got, want, c25Head(buf))
		}
	}
	var after uint64
	for i, c := range arena {
		after = after*1099511628211 + uint64(c) + uint64(i)
	}
	if before != after {
		fatalf("checksum of (%s) modified memory", desc)
	}
	// bytes outside the slice must not matter
	lo, hi := start-c25Guard, start+n+c25Guard
	if lo < 0 {
		lo = 0
	}
	if hi > len(arena) {
		hi = len(arena)
	}
	for i := lo; i < start; i++ {
		arena[i] ^= 0xff
	}
	for i := start + n; i < hi; i++ {
		arena[i] ^= 0xff
	}
	for _, im := range c25Impls() {
		got := im.fn(buf, seed)
		if got != want {
			fatalf("%s(%s seed=%#04x) changed to %#04x (want %#04x) when bytes OUTSIDE the buffer were flipped", im.name, desc, seed, got, want)
		}
	}
	return want
}

// c25AddrMod64 is the address of b[0] modulo the 64-byte vector stride (Go heap objects do not move).
func c25AddrMod64(b []byte) int { return int(uintptr(unsafe.Pointer(unsafe.SliceData(b))) & 63) }

func c25Head(b []byte) []byte {
	if len(b) > 48 {
		return b[:48]
	}
	return b
}

func TestC25_Equivalence(t *testing.T) {
	c25NoteCPU()
	lenGen, seedGen := c25LenGen(), c25SeedGen()
	vk.Check(t, 1000000, func(rt *rapid.T) {
		n := lenGen.Draw(rt, "n")
		off := rapid.IntRange(0, 63).Draw(rt, "off")
		seed := seedGen.Draw(rt, "seed")
		class := rapid.SampledFrom(c25ContentClasses).Draw(rt, "content")
		if class == "drawn" && n > 96 {
			class = "random"
		}
		hole := rapid.IntRange(0, 1<<20).Draw(rt, "hole")
		val := rapid.Byte().Draw(rt, "val")
		cs := rapid.Uint64().Draw(rt, "contentSeed")
		guardFill := rapid.SampledFrom([]byte{0x00, 0xff, 0xa5}).Draw(rt, "guard")

		// align the arena so that "off" is the true offset modulo 64 of the first byte
		base := 0
		for ; base < 64; base++ {
			if c25AddrMod64(c25Arena[base:]) == 0 {
				break
			}
		}
		start := base + c25Guard + off
		arena := c25Arena[:start+n+c25Guard]
		for i := range arena {
			arena[i] = guardFill
		}
		body := arena[start : start+n]
		if class == "drawn" {
			d := rapid.SliceOfN(rapid.Byte(), n, n).Draw(rt, "bytes")
			copy(body, d)
		} else {
			c25Fill(body, class, hole, val, cs)
		}
		// a few drawn patches on top of any class (lets rapid shrink towards the decisive byte)
		np := rapid.IntRange(0, 3).Draw(rt, "patches")
		for i := 0; i < np && n > 0; i++ {
			p := rapid.IntRange(0, n-1).Draw(rt, "patchPos")
			body[p] = rapid.Byte().Draw(rt, "patchVal")
		}
		desc := fmt.Sprintf("len=%d off=%d content=%s hole=%d val=%#x cs=%#x patches=%d", n, off, class, hole, val, cs, np)
		res := c25CheckOne(rt.Fatalf, arena, start, n, seed, desc)

		nt := n >= 32 && (off != 0 || c25CarryHeavy(class))
		labels := []string{"content=" + class, c25LenLabel(n)}
		if off != 0 {
			labels = append(labels, "unaligned")
		}
		if off&1 == 1 {
			labels = append(labels, "odd-offset")
		}
		if n&1 == 1 {
			labels = append(labels, "odd-length")
		}
		if n >= 32 && n%32 != 0 {
			labels = append(labels, "vector+tail")
		}
		if n >= 32 && n%64 >= 32 {
			labels = append(labels, "loop32-used")
		}
		switch res {
		case 0:
			labels = append(labels, "result=0x0000")
		case 0xffff:
			labels = append(labels, "result=0xffff")
		}
		switch seed {
		case 0, 1, 0xfffe, 0xffff:
			labels = append(labels, "seed-edge")
		}
		vk.Case(c25PID, fmt.Sprintf("eq/%d/%d/%d/%s/%d/%d/%d/%d", n, off, seed, class, hole, val, cs, np), nt, labels...)
		if vk.WantSample(c25PID) {
			vk.Sample(c25PID, map[string]any{"len": n, "offset": off, "seed": seed, "content": class, "result": res, "head": fmt.Sprintf("%x", c25Head(body))})
		}
	})
}

// TestC25_DenseSweep enumerates every length 0..300 at every start offset 0..63 for the edge seeds and
// the deterministic carry patterns, plus one rapid-seeded random pattern.
func TestC25_DenseSweep(t *testing.T) {
	defer vk.Flush()
	base := 0
	for ; base < 64; base++ {
		if c25AddrMod64(c25Arena[base:]) == 0 {
			break
		}
	}
	cs := vk.SubSeed("C25_DenseSweep")
	maxLen := 300
	if vk.Thorough() {
		maxLen = 700
	}
	seeds := []uint16{0, 1, 0xfffe, 0xffff, uint16(cs), uint16(cs >> 16)}
	for _, class := range []string{"ff", "zero", "alt-ff00", "alt-00ff", "ramp", "random", "fe-ff"} {
		for n := 0; n <= maxLen; n++ {
			for off := 0; off < 64; off++ {
				start := base + c25Guard + off
				arena := c25Arena[:start+n+c25Guard]
				for i := range arena {
					arena[i] = 0x5a
				}
				c25Fill(arena[start:start+n], class, 0, 1, cs+uint64(n)*64+uint64(off))
				for _, seed := range seeds {
					desc := fmt.Sprintf("sweep len=%d off=%d content=%s cs=%#x", n, off, class, cs)
					c25CheckOne(t.Fatalf, arena, start, n, seed, desc)
					vk.Case(c25PID, fmt.Sprintf("sw/%s/%d/%d/%d/%d", class, n, off, seed, cs), n >= 32 && (off != 0 || c25CarryHeavy(class)), "sweep")
				}
			}
		}
	}
	vk.Note(c25PID, fmt.Sprintf("dense sweep: every length 0..%d x every offset 0..63 x 6 seeds x 7 content patterns", maxLen))
}

// TestC25_AllSeeds runs all 65536 initial values over a handful of drawn buffers.
func TestC25_AllSeeds(t *testing.T) {
	lenGen := c25LenGen()
	vk.Check(t, 40, func(rt *rapid.T) {
		n := lenGen.Draw(rt, "n")
		if n > 9000 {
			n %= 9001
		}
		off := rapid.IntRange(0, 63).Draw(rt, "off")
		class := rapid.SampledFrom(c25ContentClasses[:len(c25ContentClasses)-1]).Draw(rt, "content")
		cs := rapid.Uint64().Draw(rt, "contentSeed")
		buf := make([]byte, n+off)[off:]
		c25Fill(buf, class, int(cs>>8)&0xffff, byte(cs), cs)
		for s := 0; s < 65536; s++ {
			want := c25Ref(buf, uint16(s))
			for _, im := range c25Impls() {
				if got := im.fn(buf, uint16(s)); got != want {
					rt.Fatalf("%s(len=%d off=%d content=%s cs=%#x, seed=%#04x) = %#04x want %#04x", im.name, n, off, class, cs, s, got, want)
				}
			}
		}
		vk.Case(c25PID, fmt.Sprintf("allseeds/%d/%d/%s/%d", n, off, class, cs), n >= 32 && (off != 0 || c25CarryHeavy(class)), "all-65536-seeds")
	})
}

func FuzzC25(f *testing.F) {
	f.Add([]byte{}, uint16(0), uint8(0))
	f.Add([]byte{0xff}, uint16(0xffff), uint8(1))
	f.Add(make([]byte, 64), uint16(0), uint8(3))
	ff := make([]byte, 127)
	for i := range ff {
		ff[i] = 0xff
	}
	f.Add(ff, uint16(0xffff), uint8(7))
	f.Add(ff[:33], uint16(1), uint8(63))
	f.Fuzz(func(t *testing.T, data []byte, seed uint16, off uint8) {
		o := int(off & 63)
		arena := make([]byte, len(data)+o+2*c25Guard)
		start := c25Guard + o
		copy(arena[start:], data)
		c25CheckOne(t.Fatalf, arena, start, len(data), seed, fmt.Sprintf("fuzz len=%d off=%d", len(data), o))
	})
}
