package batch

// C23 - receive coalescing is transparent to the tun device.
//
// A batch of inner packets (several flows, two tunnel epochs, transmission order perturbed by a
// generated arrival permutation) is committed to a MultiCoalescer exactly the way
// handleOutsideMessagePacket does (ParsedPacket metadata = what newPacket computes; packets
// newPacket refuses never reach the batcher). A recording tio.GSOWriter captures Write / WriteGSO.
// Every WriteGSO is turned into the virtio_net_hdr write Offload.WriteGSO would issue and handed to
// the reference kernel (verifkit/gso.Segment): geometry the kernel refuses is a violation, the rest
// is expanded into the packets the stack ends up with. Oracle:
//
//   - multiset equality of (normalised) output packets and input packets. Normalised = truncated to
//     the IP-declared length; IPv4 total length / IPv6 payload length / UDP length, IPv4 header
//     checksum, TCP/UDP checksum zeroed; IPv4 ID zeroed only for atomic datagrams (DF set, not a
//     fragment). Packets whose IP header does not parse are compared verbatim.
//   - per flow (5-tuple when the ports are readable, otherwise addresses+protocol) and per epoch the
//     outputs appear in counter order, except that a pure TCP ACK may come out after later DATA of
//     its flow (documented in MultiCoalescer).

import (
	"encoding/binary"
	"errors"
	"fmt"
	"hash/fnv"
	"io"
	"log/slog"
	"sort"
	"strings"
	"testing"

	"pgregory.net/rapid"
	"verifkit/gso"
	"verifkit/vk"

	"github.com/slackhq/nebula/firewall"
	"github.com/slackhq/nebula/iputil"
	"github.com/slackhq/nebula/overlay/tio"
)

var c23PID = "C23" // TestC12_TunWriteFaults records its cases under C12

// c23KeyUDPLen names the recorded finding "UDP length field below the IP payload length".
const c23KeyUDPLen = "udp-len-below-ip-len"

// ---- recording writer -------------------------------------------------------------------------

type c23Event struct {
	gso   bool
	data  []byte // Write: the packet. WriteGSO: ip header + transport header + payloads
	ipLen int
	thLen int
	pays  []int // fragment lengths
	proto tio.GSOProto
}

type c23Writer struct {
	tso, uso bool
	events   []c23Event
	// fault injection (C12): the calls whose index is in failAt are recorded like any other delivery
	// attempt and then report an error, as a tun device that is momentarily unable to take a packet
	calls  int
	failAt map[int]bool
	failed int
}

func (w *c23Writer) fault() error {
	w.calls++
	if w.failAt[w.calls-1] {
		w.failed++
		return errors.New("verif: injected tun write fault")
	}
	return nil
}

func (w *c23Writer) Write(p []byte) (int, error) {
	w.events = append(w.events, c23Event{data: append([]byte(nil), p...)})
	if err := w.fault(); err != nil {
		return 0, err
	}
	return len(p), nil
}

func (w *c23Writer) WriteGSO(hdr, transportHdr []byte, pays [][]byte, proto tio.GSOProto) error {
	e := c23Event{gso: true, ipLen: len(hdr), thLen: len(transportHdr), proto: proto}
	e.data = append(append([]byte(nil), hdr...), transportHdr...)
	for _, p := range pays {
		e.pays = append(e.pays, len(p))
		e.data = append(e.data, p...)
	}
	w.events = append(w.events, e)
	return w.fault()
}

func (w *c23Writer) Capabilities() tio.Capabilities { return tio.Capabilities{TSO: w.tso, USO: w.uso} }

// c23PlainWriter has no offload interface at all.
type c23PlainWriter struct{ w *c23Writer }

func (p c23PlainWriter) Write(b []byte) (int, error) { return p.w.Write(b) }

// c23Expand turns one recorded event into the packets the kernel delivers, following
// Offload.WriteGSO for the virtio header (single fragment: GSO_NONE + NEEDS_CSUM; otherwise the GSO
// type of the IP version/protocol, gso_size = first fragment, csum_start = IP header length).
func c23Expand(e c23Event) ([][]byte, int, error) {
	if !e.gso {
		return [][]byte{e.data}, 1, nil // plain write: DATA_VALID, delivered as is
	}
	if len(e.pays) == 0 {
		return nil, 0, fmt.Errorf("WriteGSO without payload fragments (the write is dropped)")
	}
	if 3+len(e.pays) > 256 {
		return nil, 0, fmt.Errorf("WriteGSO with %d fragments exceeds the iovec budget", len(e.pays))
	}
	var csOff int
	switch e.proto {
	case tio.GSOProtoTCP:
		csOff = 16
	case tio.GSOProtoUDP:
		csOff = 6
	default:
		return nil, 0, fmt.Errorf("WriteGSO with unknown proto %d", e.proto)
	}
	if e.ipLen == 0 || e.thLen < csOff+2 {
		return nil, 0, fmt.Errorf("WriteGSO header too short: ip=%d transport=%d", e.ipLen, e.thLen)
	}
	for i, n := range e.pays {
		if n == 0 {
			return nil, 0, fmt.Errorf("WriteGSO fragment %d of %d is empty", i, len(e.pays))
		}
		if n > e.pays[0] || (n < e.pays[0] && i != len(e.pays)-1) {
			return nil, 0, fmt.Errorf("WriteGSO fragment %d is %dB with %dB segments (only the last may be shorter)", i, n, e.pays[0])
		}
	}
	if len(e.pays) > gso.MaxSegs {
		return nil, 0, fmt.Errorf("WriteGSO with %d segments (kernel ceiling %d)", len(e.pays), gso.MaxSegs)
	}
	if len(e.data) > 65535 {
		return nil, 0, fmt.Errorf("WriteGSO superpacket of %dB exceeds 65535", len(e.data))
	}
	s := gso.Super{NeedsCsum: true, CsumStart: e.ipLen, CsumOffset: csOff, Data: e.data}
	if len(e.pays) > 1 {
		s.GSOSize = e.pays[0]
		switch {
		case e.proto == tio.GSOProtoUDP && (e.data[0]>>4 == 4 || e.data[0]>>4 == 6):
			s.GSOType = gso.GSOUDPL4
		case e.data[0]>>4 == 6:
			s.GSOType = gso.GSOTCPv6
		case e.data[0]>>4 == 4:
			s.GSOType = gso.GSOTCPv4
		default:
			return nil, 0, fmt.Errorf("WriteGSO with IP version %d", e.data[0]>>4)
		}
	}
	// the kernel derives the transport header length itself; the two header slices must agree with it
	in, err := gso.Parse(e.data)
	if err != nil || !in.HasL4 || in.L4Off != e.ipLen || in.L4HdrLen != e.thLen {
		return nil, 0, fmt.Errorf("WriteGSO header slices (ip=%d transport=%d) do not match the headers inside (parse err=%v l4off=%d l4hdr=%d)", e.ipLen, e.thLen, err, in.L4Off, in.L4HdrLen)
	}
	out, err := gso.Segment(s)
	if err != nil {
		return nil, 0, err
	}
	if len(out) != len(e.pays) {
		return nil, 0, fmt.Errorf("kernel would cut %d segments, the coalescer meant %d", len(out), len(e.pays))
	}
	return out, len(e.pays), nil
}

// ---- caller side: what outside.go computes before Commit ------------------------------------

// c23ParsedPacket reproduces newPacket (outside.go) for the fields MultiCoalescer.Commit reads:
// Protocol, FragAny, IPHdrLen (and Fragment). ok=false: newPacket returns an error and the packet
// is dropped before the batcher.
func c23ParsedPacket(data []byte, pp *firewall.ParsedPacket) bool {
	*pp = firewall.ParsedPacket{}
	if len(data) < 1 {
		return false
	}
	switch data[0] >> 4 {
	case 4:
		if len(data) < 20 {
			return false
		}
		ihl := int(data[0]&0x0f) << 2
		if ihl < 20 {
			return false
		}
		ff := binary.BigEndian.Uint16(data[6:8])
		pp.Fragment = ff&0x1fff != 0
		pp.FragAny = ff&0x3fff != 0
		pp.IPHdrLen = ihl
		pp.Protocol = data[9]
		minLen := ihl
		if !pp.Fragment {
			if pp.Protocol == firewall.ProtoICMP {
				minLen += 6
			} else {
				minLen += 4
			}
		}
		return len(data) >= minLen
	case 6:
		if len(data) < 40 {
			return false
		}
		proto, offset, isFragment, anyFragment, err := iputil.IPv6FindUpperProtocol(data)
		if err != nil {
			return false
		}
		pp.Protocol, pp.Fragment, pp.FragAny, pp.IPHdrLen = proto, isFragment, anyFragment, offset
		if isFragment {
			return true
		}
		switch proto {
		case firewall.ProtoICMPv6:
			if len(data) < offset+4 {
				return false
			}
			if data[offset] == 128 || data[offset] == 129 {
				return len(data) >= offset+6
			}
		case firewall.ProtoTCP, firewall.ProtoUDP:
			return len(data) >= offset+4
		}
		return true
	}
	return false
}

// ---- normalisation and flows ----------------------------------------------------------------

func c23Norm(p []byte) string {
	in, err := gso.Parse(p)
	if err != nil {
		return "raw:" + string(p)
	}
	q := append([]byte(nil), p[:in.DeclaredLen]...)
	if in.V6 {
		q[4], q[5] = 0, 0
	} else {
		q[2], q[3] = 0, 0
		q[10], q[11] = 0, 0
		if in.DF && !in.FragAny {
			q[4], q[5] = 0, 0
		}
	}
	if in.HasL4 && !in.FragAny {
		l4 := q[in.L4Off:]
		if in.Proto == gso.ProtoTCP {
			l4[16], l4[17] = 0, 0
		} else {
			l4[4], l4[5], l4[6], l4[7] = 0, 0, 0, 0
		}
	}
	return string(q)
}

type c23Class struct {
	flow    string // "" = no flow known (IP header does not parse)
	pureAck bool
	data    bool
}

func c23Classify(p []byte) c23Class {
	in, err := gso.Parse(p)
	if err != nil {
		return c23Class{}
	}
	var c c23Class
	if in.HasL4 {
		c.flow = fmt.Sprintf("%v|%x|%x|%d|%d|%d", in.V6, in.Src, in.Dst, in.Proto, in.Sport, in.Dport)
		if in.Proto == gso.ProtoTCP && !in.FragAny {
			c.data = len(in.Payload) > 0
			c.pureAck = len(in.Payload) == 0 && in.Flags&gso.ACK != 0 && in.Flags&^(gso.ACK|gso.PSH|gso.ECE) == 0
		}
	} else {
		c.flow = fmt.Sprintf("%v|%x|%x|%d|-", in.V6, in.Src, in.Dst, in.Proto)
	}
	return c
}

// ---- generator ------------------------------------------------------------------------------

type c23Rng uint64

func (r *c23Rng) next() uint64 {
	*r += 0x9e3779b97f4a7c15
	z := uint64(*r)
	z = (z ^ (z >> 30)) * 0xbf58476d1ce4e5b9
	z = (z ^ (z >> 27)) * 0x94d049bb133111eb
	return z ^ (z >> 31)
}

func c23Payload(seed uint64, n int) []byte {
	b := make([]byte, n)
	r := c23Rng(seed)
	i := 0
	for ; i+8 <= n; i += 8 {
		binary.LittleEndian.PutUint64(b[i:], r.next())
	}
	v := r.next()
	for ; i < n; i++ {
		b[i] = byte(v)
		v >>= 8
	}
	return b
}

type c23Flow struct {
	v6           bool
	proto        byte // 6, 17 or another protocol
	src, dst     []byte
	sport, dport uint16
	tos, ttl     byte
	label        uint32
	df           bool
	id           uint16
	idMode       string // seq | random | const
	// tcp
	seq, ack uint32
	win, urg uint16
	rsvd     byte
	opts     []byte
	ece      bool
	size     int // MSS / datagram size
	lastPay  []byte
	lastSeq  uint32
}

var (
	c23V4Addrs = [][]byte{{10, 0, 0, 1}, {10, 0, 0, 2}, {192, 168, 255, 255}, {10, 1, 2, 3}}
	c23V6Addrs = [][]byte{
		{0xfd, 0, 0, 0, 0, 0, 0, 0, 0, 0, 0, 0, 0, 0, 0, 1},
		{0xfd, 0, 0, 0, 0, 0, 0, 0, 0, 0, 0, 0, 0, 0, 0, 2},
		{0xfd, 0xff, 0xff, 0xff, 0xff, 0xff, 0xff, 0xff, 0xff, 0xff, 0xff, 0xff, 0xff, 0xff, 0xff, 0xff},
	}
	c23Ports = []uint16{1000, 2000, 443, 53, 0xffff, 0}
)

func c23DrawFlow(rt *rapid.T, bulk bool) *c23Flow {
	f := &c23Flow{}
	f.v6 = rapid.Bool().Draw(rt, "v6")
	pool := c23V4Addrs
	if f.v6 {
		pool = c23V6Addrs
	}
	f.src = rapid.SampledFrom(pool).Draw(rt, "src")
	f.dst = rapid.SampledFrom(pool).Draw(rt, "dst")
	pc := rapid.IntRange(0, 19).Draw(rt, "protoClass")
	switch {
	case pc < 11 || (bulk && pc < 14):
		f.proto = gso.ProtoTCP
	case pc < 18 || bulk:
		f.proto = gso.ProtoUDP
	default:
		f.proto = rapid.SampledFrom([]byte{1, 58, 47, 50, 132}).Draw(rt, "otherProto")
	}
	f.sport = rapid.SampledFrom(c23Ports).Draw(rt, "sport")
	f.dport = rapid.SampledFrom(c23Ports).Draw(rt, "dport")
	f.tos = rapid.SampledFrom([]byte{0, 0, 2, 1, 3, 0xb8, 0xba}).Draw(rt, "tos")
	f.ttl = rapid.SampledFrom([]byte{64, 63, 255, 1}).Draw(rt, "ttl")
	f.label = rapid.SampledFrom([]uint32{0, 0x12345, 0xfffff}).Draw(rt, "label")
	f.df = rapid.IntRange(0, 9).Draw(rt, "df") < 6
	f.idMode = rapid.SampledFrom([]string{"seq", "seq", "random", "const"}).Draw(rt, "idMode")
	f.id = rapid.SampledFrom([]uint16{0, 1, 0x1234, 0xfffd, 0xffff, 0x8000}).Draw(rt, "id0")
	f.seq = rapid.Uint32().Draw(rt, "seq0")
	f.ack = rapid.SampledFrom([]uint32{0, 1, 0x7fffffff, 0xffffffff, 0xdeadbeef}).Draw(rt, "ack0")
	f.win = rapid.SampledFrom([]uint16{0, 512, 0xffff}).Draw(rt, "win")
	if rapid.IntRange(0, 3).Draw(rt, "hasOpts") == 0 {
		f.opts = []byte{1, 1, 8, 10, 0, 0, 0, 1, 0, 0, 0, 2}
	}
	f.ece = rapid.IntRange(0, 5).Draw(rt, "ece0") == 0
	if bulk {
		f.size = rapid.SampledFrom([]int{1200, 1400, 1448, 8948, 16000, 536}).Draw(rt, "size")
	} else {
		f.size = rapid.SampledFrom([]int{1, 2, 3, 100, 536, 1200, 1400, 1448, 8948}).Draw(rt, "size")
	}
	if rapid.Bool().Draw(rt, "seqNearWrap") {
		f.seq = uint32(0) - uint32(f.size*rapid.IntRange(0, 5).Draw(rt, "seqBackSegs")) - uint32(rapid.IntRange(0, 3).Draw(rt, "seqBackOdd"))
	}
	return f
}

func (f *c23Flow) nextID(r *c23Rng) uint16 {
	switch f.idMode {
	case "seq":
		f.id++
		return f.id - 1
	case "random":
		return uint16(r.next())
	}
	return f.id
}

func (f *c23Flow) ip(r *c23Rng) gso.IP {
	ip := gso.IP{V6: f.v6, Src: f.src, Dst: f.dst, TOS: f.tos, TTL: f.ttl, Flow: f.label, Proto: f.proto}
	if !f.v6 {
		ip.ID = f.nextID(r)
		if f.df {
			ip.Frag = 0x4000
		}
	}
	return ip
}

var c23TCPKinds = []string{
	"data", "data", "data", "data", "data", "data", "data", "data", "data", "data", "data", "data", "data", "data",
	"data-psh", "data-psh", "data-short", "data-short", "data-long", "gap", "retx", "ack", "ack", "ack", "ack-ece",
	"fin", "fin-data", "syn", "rst", "urg", "cwr-data", "ece-toggle", "ack-advance", "win-change", "rsvd", "urgptr", "opts-change",
}
var c23UDPKinds = []string{
	"dgram", "dgram", "dgram", "dgram", "dgram", "dgram", "dgram", "dgram", "dgram", "dgram", "dgram", "dgram", "dgram", "dgram",
	"short", "short", "long", "zero", "udplen-short", "udplen-long", "csum0", "badcsum",
}
var c23IPKinds = []string{"tos-change", "tos-once", "ttl-change", "label-change", "id-jump", "df-toggle",
	"ip-options", "ext-hdr", "frag-first", "frag-later", "trailing", "declared-short", "declared-long", "trunc-l4", "bad-doff"}

type c23Pkt struct {
	data  []byte // handed to the coalescer (Flush may patch it)
	orig  []byte // pristine copy
	key   SortKey
	kind  string
	flow  int
	txPos int
}

// c23Build produces the next packet of flow f. kind picks the L4 behaviour, ipKind an optional
// network-layer perturbation / malformation.
func c23Build(rt *rapid.T, f *c23Flow, r *c23Rng, bulk, mono bool) ([]byte, string) {
	kind := ""
	ipKind := ""
	perturb := 4
	if bulk {
		perturb = 40
	}
	if !mono && rapid.IntRange(0, perturb).Draw(rt, "ipPerturb") == 0 {
		ipKind = rapid.SampledFrom(c23IPKinds).Draw(rt, "ipKind")
	}
	// persistent / one-shot network-layer changes applied before building
	restoreTOS, tos0 := false, f.tos
	switch ipKind {
	case "tos-change":
		f.tos = rapid.SampledFrom([]byte{0, 1, 2, 3, 0xb8, 0x04}).Draw(rt, "newTos")
	case "tos-once":
		restoreTOS = true
		f.tos ^= rapid.SampledFrom([]byte{1, 2, 3, 0x04, 0x80}).Draw(rt, "tosXor")
	case "ttl-change":
		f.ttl--
	case "label-change":
		f.label ^= 1
	case "id-jump":
		f.id += uint16(rapid.SampledFrom([]int{1, 2, 0x100, 0xffff}).Draw(rt, "idJump"))
	case "df-toggle":
		f.df = !f.df
	}
	ip := f.ip(r)
	switch ipKind {
	case "ip-options":
		if !f.v6 {
			ip.Options = []byte{1, 1, 1, 0}
		}
	case "ext-hdr":
		if f.v6 {
			ip.Ext = []gso.Ext{{Type: rapid.SampledFrom([]byte{0, 60, 43}).Draw(rt, "extType"), Body: make([]byte, 6)}}
		}
	case "frag-first":
		if f.v6 {
			ip.Ext = []gso.Ext{{Type: 44, Body: []byte{0, 1, 0, 0, 0, 7}}} // offset 0, M=1
		} else {
			ip.Frag = ip.Frag&0x4000 | 0x2000
		}
	case "frag-later":
		if f.v6 {
			ip.Ext = []gso.Ext{{Type: 44, Body: []byte{0, 0xb8, 0, 0, 0, 7}}} // offset 23*8, last
		} else {
			ip.Frag = ip.Frag&0x4000 | uint16(rapid.SampledFrom([]int{1, 185, 0x1fff}).Draw(rt, "fragOff"))
			if rapid.Bool().Draw(rt, "fragMF") {
				ip.Frag |= 0x2000
			}
		}
	}
	if restoreTOS {
		defer func() { f.tos = tos0 }()
	}

	var pkt []byte
	switch f.proto {
	case gso.ProtoTCP:
		if mono || (bulk && rapid.IntRange(0, 19).Draw(rt, "bulkData") != 0) {
			kind = "data"
		} else {
			kind = rapid.SampledFrom(c23TCPKinds).Draw(rt, "tcpKind")
		}
		flags := byte(gso.ACK)
		if f.ece {
			flags |= gso.ECE
		}
		n := f.size
		seq := f.seq
		t := gso.TCP{Sport: f.sport, Dport: f.dport, Ack: f.ack, Window: f.win, Urg: f.urg, Rsvd: f.rsvd, Options: f.opts}
		advance := true
		switch kind {
		case "data":
		case "data-psh":
			flags |= gso.PSH
		case "data-short":
			if f.size > 1 {
				n = rapid.IntRange(1, f.size-1).Draw(rt, "shortLen")
			}
			if rapid.Bool().Draw(rt, "shortPsh") {
				flags |= gso.PSH
			}
		case "data-long":
			n = f.size + rapid.IntRange(1, 100).Draw(rt, "longBy")
		case "gap":
			f.seq += uint32(rapid.SampledFrom([]int{1, f.size, 100000}).Draw(rt, "gap"))
			seq = f.seq
		case "retx":
			if f.lastPay != nil {
				seq, advance = f.lastSeq, false
				n = len(f.lastPay)
			}
		case "ack":
			n = 0
		case "ack-ece":
			n = 0
			flags ^= gso.ECE
		case "fin":
			n = 0
			flags |= gso.FIN
		case "fin-data":
			flags |= gso.FIN | gso.PSH
		case "syn":
			n = 0
			flags = gso.SYN
			if rapid.Bool().Draw(rt, "synAck") {
				flags |= gso.ACK
			}
		case "rst":
			n = 0
			flags = gso.RST | gso.ACK
		case "urg":
			flags |= gso.URG
			t.Urg = 1
		case "cwr-data":
			flags |= gso.CWR
		case "ece-toggle":
			f.ece = !f.ece
			flags ^= gso.ECE
		case "ack-advance":
			f.ack += uint32(rapid.SampledFrom([]int{1, 1448, 1 << 31}).Draw(rt, "ackBy"))
			t.Ack = f.ack
		case "win-change":
			f.win ^= 0x0100
			t.Window = f.win
		case "rsvd":
			t.Rsvd = rapid.SampledFrom([]byte{1, 8, 0xf}).Draw(rt, "rsvdBits")
		case "urgptr":
			t.Urg = 7
		case "opts-change":
			if f.opts == nil {
				f.opts = []byte{1, 1, 8, 10, 0, 0, 0, 1, 0, 0, 0, 2}
			} else if rapid.Bool().Draw(rt, "optsDrop") {
				f.opts = nil
			} else {
				f.opts = append([]byte(nil), f.opts...)
				f.opts[7]++
			}
			t.Options = f.opts
		}
		t.Seq, t.Flags = seq, flags
		var pay []byte
		if kind == "retx" && !advance {
			pay = f.lastPay
		} else {
			pay = c23Payload(r.next(), n)
		}
		if n > 0 && advance {
			f.lastPay, f.lastSeq = pay, seq
			f.seq = seq + uint32(n)
		}
		pkt = gso.BuildTCP(ip, t, pay)
	case gso.ProtoUDP:
		if mono || (bulk && rapid.IntRange(0, 19).Draw(rt, "bulkData") != 0) {
			kind = "dgram"
		} else {
			kind = rapid.SampledFrom(c23UDPKinds).Draw(rt, "udpKind")
		}
		if kind == "udplen-short" && vk.KnownOpen(c23PID, c23KeyUDPLen) {
			// recorded finding: a datagram whose UDP length is below the IP payload length loses its
			// tail when coalesced. Excluded by construction (an ordinary datagram is built instead)
			// only while the finding is listed as open.
			vk.Excluded(c23PID, c23KeyUDPLen)
			kind = "dgram"
		}
		n := f.size
		switch kind {
		case "short":
			if f.size > 1 {
				n = rapid.IntRange(1, f.size-1).Draw(rt, "shortLen")
			}
		case "long":
			n = f.size + rapid.IntRange(1, 100).Draw(rt, "longBy")
		case "zero":
			n = 0
		}
		pkt = gso.BuildUDP(ip, f.sport, f.dport, c23Payload(r.next(), n))
		l4 := ip.HdrLen()
		switch kind {
		case "udplen-short":
			if n > 0 {
				binary.BigEndian.PutUint16(pkt[l4+4:], uint16(8+rapid.IntRange(0, n-1).Draw(rt, "udpLenPay")))
			}
		case "udplen-long":
			binary.BigEndian.PutUint16(pkt[l4+4:], uint16(8+n+rapid.IntRange(1, 50).Draw(rt, "udpLenExtra")))
		case "csum0":
			pkt[l4+6], pkt[l4+7] = 0, 0
		case "badcsum":
			pkt[l4+6] ^= 0x5a
		}
	default:
		kind = "other"
		n := rapid.SampledFrom([]int{8, 8, 16, 64, 1200}).Draw(rt, "otherLen")
		body := c23Payload(r.next(), n)
		body[0] = rapid.SampledFrom([]byte{8, 0, 128, 129, 3}).Draw(rt, "icmpType")
		pkt = gso.BuildRaw(ip, body)
	}

	// byte-level malformations
	switch ipKind {
	case "trailing":
		pkt = append(pkt, c23Payload(r.next(), rapid.IntRange(1, 40).Draw(rt, "trailingLen"))...)
	case "declared-short":
		// the IP header declares fewer bytes than are present: the rest is link padding
		cut := rapid.IntRange(1, 30).Draw(rt, "declaredShortBy")
		if f.v6 {
			if pl := int(binary.BigEndian.Uint16(pkt[4:])); pl >= cut {
				binary.BigEndian.PutUint16(pkt[4:], uint16(pl-cut))
			}
		} else if tl := int(binary.BigEndian.Uint16(pkt[2:])); tl-cut >= 20 {
			binary.BigEndian.PutUint16(pkt[2:], uint16(tl-cut))
			pkt[10], pkt[11] = 0, 0
			binary.BigEndian.PutUint16(pkt[10:], ^gso.Fold(gso.Sum(pkt[:int(pkt[0]&0x0f)*4])))
		}
	case "declared-long":
		if f.v6 {
			binary.BigEndian.PutUint16(pkt[4:], binary.BigEndian.Uint16(pkt[4:])+uint16(rapid.IntRange(1, 9).Draw(rt, "declaredLongBy")))
		} else {
			binary.BigEndian.PutUint16(pkt[2:], binary.BigEndian.Uint16(pkt[2:])+uint16(rapid.IntRange(1, 9).Draw(rt, "declaredLongBy")))
		}
	case "trunc-l4":
		l4 := ip.HdrLen()
		keep := l4 + rapid.IntRange(4, 19).Draw(rt, "truncKeep")
		if keep < len(pkt) {
			pkt = pkt[:keep]
			if f.v6 {
				binary.BigEndian.PutUint16(pkt[4:], uint16(keep-40))
			} else {
				binary.BigEndian.PutUint16(pkt[2:], uint16(keep))
			}
		}
	case "bad-doff":
		if f.proto == gso.ProtoTCP {
			l4 := ip.HdrLen()
			pkt[l4+12] = pkt[l4+12]&0x0f | rapid.SampledFrom([]byte{0x00, 0x40, 0xf0}).Draw(rt, "doff")
		}
	}
	if ipKind != "" {
		kind += "+" + ipKind
	}
	return pkt, kind
}

// ---- the property ---------------------------------------------------------------------------

type c23Item struct {
	txPos   int
	epoch   uint64
	norm    string
	cls     c23Class
	counter uint64
}

func c23Hex(p []byte) string {
	if len(p) > 72 {
		return fmt.Sprintf("%x..(%dB)", p[:72], len(p))
	}
	return fmt.Sprintf("%x", p)
}

func c23Describe(pkts []*c23Pkt) string {
	var sb strings.Builder
	for i, p := range pkts {
		if i >= 40 {
			fmt.Fprintf(&sb, "  ... %d more\n", len(pkts)-i)
			break
		}
		fmt.Fprintf(&sb, "  arrival %d: key=(%d,%d) flow=%d kind=%s %s\n", i, p.key.Epoch, p.key.Counter, p.flow, p.kind, c23Hex(p.orig))
	}
	return sb.String()
}

type c23Stats struct{ gsoWrites, gsoSegs, maxSegs, ambiguous, trailingAcks int }

// c23Oracle decides one flushed batch: in = the packets committed (pristine copies in .orig),
// events = what the writer recorded.
func c23Oracle(in []*c23Pkt, events []c23Event) (st c23Stats, _ error) {
	// expand what reached the tun
	var out [][]byte
	for ei, e := range events {
		pk, segs, err := c23Expand(e)
		if err != nil {
			return st, fmt.Errorf("write %d of %d is not acceptable to the kernel: %v\n superpacket %s pays=%v", ei, len(events), err, c23Hex(e.data), e.pays)
		}
		if e.gso && segs >= 2 {
			st.gsoWrites++
			st.gsoSegs += segs
			st.maxSegs = max(st.maxSegs, segs)
		}
		out = append(out, pk...)
	}

	// multiset equality on normalised packets
	items := make([]*c23Item, 0, len(in))
	want := map[string]int{}
	sorted := append([]*c23Pkt(nil), in...)
	sort.SliceStable(sorted, func(a, b int) bool {
		if sorted[a].key.Epoch != sorted[b].key.Epoch {
			return sorted[a].key.Epoch < sorted[b].key.Epoch
		}
		return sorted[a].key.Counter < sorted[b].key.Counter
	})
	for i, p := range sorted {
		it := &c23Item{txPos: i, epoch: p.key.Epoch, counter: p.key.Counter, norm: c23Norm(p.orig), cls: c23Classify(p.orig)}
		items = append(items, it)
		want[it.norm]++
	}
	got := map[string]int{}
	for _, o := range out {
		got[c23Norm(o)]++
	}
	for _, o := range out {
		k := c23Norm(o)
		if got[k] > want[k] {
			return st, fmt.Errorf("the tun received a packet that is not in the batch (or received it %d times instead of %d): %s", got[k], want[k], c23Hex(o))
		}
	}
	for _, p := range sorted {
		k := c23Norm(p.orig)
		if got[k] < want[k] {
			return st, fmt.Errorf("packet lost or altered (present %d times, expected %d): key=(%d,%d) kind=%s %s", got[k], want[k], p.key.Epoch, p.key.Counter, p.kind, c23Hex(p.orig))
		}
	}

	// per flow and epoch order
	queues := map[string][]*c23Item{} // flow+norm -> items in transmission order
	multiEpoch := map[string]bool{}
	for _, it := range items {
		if it.cls.flow == "" {
			continue
		}
		k := it.cls.flow + "\x00" + it.norm
		if q := queues[k]; len(q) > 0 && q[0].epoch != it.epoch {
			multiEpoch[k] = true
		}
		queues[k] = append(queues[k], it)
	}
	type fe struct {
		flow  string
		epoch uint64
	}
	maxAll := map[fe]int{}
	maxNonData := map[fe]int{}
	for _, o := range out {
		cls := c23Classify(o)
		if cls.flow == "" {
			continue
		}
		k := cls.flow + "\x00" + c23Norm(o)
		if multiEpoch[k] {
			st.ambiguous++
			continue
		}
		q := queues[k]
		if len(q) == 0 {
			return st, fmt.Errorf("harness: no input left for output %s", c23Hex(o))
		}
		it := q[0]
		queues[k] = q[1:]
		key := fe{cls.flow, it.epoch}
		ma, ok := maxAll[key]
		if !ok {
			ma = -1
		}
		mnd, ok := maxNonData[key]
		if !ok {
			mnd = -1
		}
		if it.txPos < ma {
			// something transmitted later in this flow/epoch already came out
			if !(it.cls.pureAck && it.txPos > mnd) {
				return st, fmt.Errorf("flow %s epoch %d: packet with counter %d came out after a packet transmitted later (pureAck=%v)\n %s", cls.flow, it.epoch, it.counter, it.cls.pureAck, c23Hex(o))
			}
			st.trailingAcks++
		}
		if it.txPos > ma {
			maxAll[key] = it.txPos
		}
		if !it.cls.data && it.txPos > mnd {
			maxNonData[key] = it.txPos
		}
	}

	return st, nil
}

// c23Round generates one batch, runs it through m/w and applies the oracle.
func c23Round(rt *rapid.T, m *MultiCoalescer, w *c23Writer, flows []*c23Flow, r *c23Rng, bulk, mono bool, capsLabel string) {
	w.events = w.events[:0]
	var n int
	switch {
	case bulk:
		n = rapid.IntRange(40, 170).Draw(rt, "n")
	default:
		switch rapid.IntRange(0, 9).Draw(rt, "sizeClass") {
		case 0, 1, 2:
			n = rapid.IntRange(1, 12).Draw(rt, "n")
		case 9:
			n = rapid.IntRange(61, 300).Draw(rt, "n")
		default:
			n = rapid.IntRange(13, 60).Draw(rt, "n")
		}
	}
	stay := 6
	if bulk {
		stay = 18
	}
	if mono {
		stay = 20
	}
	if c23Interleave {
		stay = 0 // another flow for every packet
	}
	// transmission order
	split := n
	if rapid.IntRange(0, 2).Draw(rt, "twoEpochs") == 0 {
		split = rapid.IntRange(0, n).Draw(rt, "epochSplit")
	}
	epochA := rapid.SampledFrom([]uint64{1, 7, 1 << 40}).Draw(rt, "epochA")
	ctr := [2]uint64{rapid.SampledFrom([]uint64{0, 1, 1 << 32, 1<<63 - 5}).Draw(rt, "ctrA"), rapid.SampledFrom([]uint64{0, 1, 5, 1 << 32}).Draw(rt, "ctrB")}
	tx := make([]*c23Pkt, 0, n)
	cur := 0
	interleaved := false
	seen := map[int]int{} // flow -> last tx index
	for i := 0; i < n; i++ {
		if i == 0 || rapid.IntRange(0, 19).Draw(rt, "stay") >= stay {
			cur = rapid.IntRange(0, len(flows)-1).Draw(rt, "flow")
		}
		if last, ok := seen[cur]; ok && last != i-1 {
			interleaved = true
		}
		seen[cur] = i
		data, kind := c23Build(rt, flows[cur], r, bulk, mono)
		e := 0
		if i >= split {
			e = 1
		}
		ctr[e] += uint64(rapid.SampledFrom([]int{1, 1, 1, 1, 2, 9}).Draw(rt, "ctrStep"))
		tx = append(tx, &c23Pkt{data: data, orig: append([]byte(nil), data...), key: SortKey{Epoch: epochA + uint64(e), Counter: ctr[e]}, kind: kind, flow: cur, txPos: i})
	}
	// arrival order
	arr := append([]*c23Pkt(nil), tx...)
	jitter := rapid.SampledFrom([]int{0, 0, 1, 2, 5, 20, 400}).Draw(rt, "jitter")
	reordered := false
	if jitter > 0 && n > 1 {
		keys := make([]int, n)
		for i := range keys {
			keys[i] = i + rapid.IntRange(0, jitter).Draw(rt, "delay")
		}
		idx := make([]int, n)
		for i := range idx {
			idx[i] = i
		}
		sort.SliceStable(idx, func(a, b int) bool { return keys[idx[a]] < keys[idx[b]] })
		for i, j := range idx {
			arr[i] = tx[j]
			if i != j {
				reordered = true
			}
		}
	}

	// commit exactly like handleOutsideMessagePacket
	var pp firewall.ParsedPacket
	var in []*c23Pkt
	rejected := 0
	for _, p := range arr {
		if !c23ParsedPacket(p.data, &pp) {
			rejected++
			continue
		}
		if err := m.Commit(p.data, p.key, &pp); err != nil {
			rt.Fatalf("Commit: %v", err)
		}
		in = append(in, p)
	}
	w.calls, w.failed, w.failAt = 0, 0, nil
	if c23Faults {
		w.failAt = map[int]bool{}
		for k, nf := 0, rapid.IntRange(1, 3).Draw(rt, "nFaults"); k < nf; k++ {
			w.failAt[rapid.IntRange(0, max(0, min(len(in)-1, 40))).Draw(rt, "failWrite")] = true
		}
	}
	if err := m.Flush(); err != nil && w.failed == 0 {
		rt.Fatalf("Flush returned %v although the writer never fails", err)
	}
	if c23Faults {
		// whatever the faulty flush left behind comes out with the next one: every packet must still have
		// been handed to the device exactly once over both (a packet whose write failed is not retried,
		// and above all a packet that WAS written is not written again)
		attempts := len(w.events)
		w.failAt = nil
		if err := m.Flush(); err != nil {
			rt.Fatalf("second Flush: %v", err)
		}
		if w.failed > 0 {
			vk.Label(c23PID, "tun-write-fault-fired")
			if len(w.events) > attempts {
				vk.Label(c23PID, "writes-after-the-faulty-flush")
			}
		}
	}

	st, err := c23Oracle(in, w.events)
	if err != nil {
		rt.Fatalf("%v\ncaps=%s batch:\n%s", err, capsLabel, c23Describe(in))
	}
	gsoWrites, gsoSegs, maxSegs, ambiguous, trailingAcks := st.gsoWrites, st.gsoSegs, st.maxSegs, st.ambiguous, st.trailingAcks

	// evidence
	nt := gsoWrites > 0 && (reordered || interleaved)
	if c23Faults {
		nt = w.failed > 0 && len(in) > 1
	}
	labels := []string{"caps=" + capsLabel}
	add := func(b bool, l string) {
		if b {
			labels = append(labels, l)
		}
	}
	add(gsoWrites > 0, "coalesced")
	add(maxSegs >= 64, "64-seg-run")
	add(reordered, "reordered")
	add(interleaved, "flows-interleaved")
	add(split > 0 && split < n, "two-epochs")
	add(bulk, "bulk")
	add(mono, "mono-run")
	add(rejected > 0, "newPacket-rejected")
	add(ambiguous > 0, "dup-across-epochs")
	add(trailingAcks > 0, "ack-trailed-data")
	add(len(in) > 60, "batch>60")
	total := 0
	for _, e := range w.events {
		if e.gso && len(e.data) > 60000 {
			add(true, "super>60000B")
			break
		}
	}
	h := fnv.New64a()
	kinds := map[string]bool{}
	for _, p := range in {
		h.Write(p.orig)
		var kb [16]byte
		binary.LittleEndian.PutUint64(kb[:], p.key.Epoch)
		binary.LittleEndian.PutUint64(kb[8:], p.key.Counter)
		h.Write(kb[:])
		total += len(p.orig)
		for _, k := range strings.Split(p.kind, "+") {
			kinds[k] = true
		}
	}
	for k := range kinds {
		vk.Label(c23PID, "kind="+k)
	}
	vk.LabelN(c23PID, "packets", int64(len(in)))
	vk.LabelN(c23PID, "gso-writes(>=2 segs)", int64(gsoWrites))
	vk.LabelN(c23PID, "gso-segments", int64(gsoSegs))
	vk.Case(c23PID, fmt.Sprintf("%x/%s", h.Sum64(), capsLabel), nt, labels...)
	if vk.WantSample(c23PID) && nt {
		vk.Sample(c23PID, map[string]any{"packets": len(in), "bytes": total, "gso_writes": gsoWrites, "gso_segments": gsoSegs, "caps": capsLabel, "first": c23Describe(in[:min(3, len(in))])})
	}
}

func c23NewCoalescer(rt *rapid.T) (*MultiCoalescer, *c23Writer, string) {
	w := &c23Writer{}
	caps := rapid.SampledFrom([]string{"tso+uso", "tso+uso", "tso+uso", "tso+uso", "tso-only", "none", "plain-writer"}).Draw(rt, "caps")
	var iw io.Writer = w
	switch caps {
	case "tso+uso":
		w.tso, w.uso = true, true
	case "tso-only":
		w.tso = true
	case "plain-writer":
		iw = c23PlainWriter{w}
	}
	return NewMultiCoalescer(iw, slog.New(slog.NewTextHandler(io.Discard, nil))), w, caps
}

var c23Faults, c23Interleave bool

// TestC12_TunWriteFaults (property C12, "acted upon at most once"): the same generated batches, but
// the device refuses 1-3 of the writes of a flush. The multiset/order oracle of C23 is applied to
// all delivery attempts of that flush and the next one together: a packet that was handed to the
// device must not be handed to it a second time because a neighbour's write failed.
func TestC12_TunWriteFaults(t *testing.T) {
	c23PID, c23Faults = "C12", true
	c23Transparent(t, 1500)
}

func TestC23_Transparent(t *testing.T) {
	c23Transparent(t, 2000)
}

func c23Transparent(t *testing.T, cases int) {
	vk.Check(t, cases, func(rt *rapid.T) {
		m, w, caps := c23NewCoalescer(rt)
		mode := rapid.IntRange(0, 15).Draw(rt, "mode")
		bulk, mono := mode <= 2, mode == 0 // bulk: 1-3 run-heavy flows; mono: uninterrupted runs
		// mix: 3-6 flows of ONE transport protocol over both address families, uniform datagrams, a
		// different flow for every packet - each flow's run is interrupted by packets of the other family
		mix := mode >= 14
		c23Interleave = mix
		nf := rapid.IntRange(1, 12).Draw(rt, "flows")
		if bulk {
			nf = rapid.IntRange(1, 3).Draw(rt, "flows")
		}
		if mix {
			nf = rapid.IntRange(3, 6).Draw(rt, "flows")
			mono = true
		}
		flows := make([]*c23Flow, nf)
		mixProto := rapid.SampledFrom([]byte{gso.ProtoUDP, gso.ProtoUDP, gso.ProtoTCP}).Draw(rt, "mixProto")
		for i := range flows {
			flows[i] = c23DrawFlow(rt, bulk)
			if mono {
				flows[i].size = rapid.SampledFrom([]int{1, 100, 536, 1000, 1023}).Draw(rt, "monoSize")
			}
			if mix {
				f := flows[i]
				f.proto = mixProto
				f.v6 = i%3 != 0 // flows 0,3: IPv4; the others IPv6
				pool := c23V4Addrs
				if f.v6 {
					pool = c23V6Addrs
				}
				f.src = pool[(i*2)%len(pool)]
				f.dst = pool[(i*2+1)%len(pool)]
			}
		}
		if mix {
			vk.Label(c23PID, "mix-both-families-interleaved")
		}
		r := c23Rng(rapid.Uint64().Draw(rt, "contentSeed"))
		rounds := rapid.IntRange(1, 3).Draw(rt, "rounds")
		for k := 0; k < rounds; k++ {
			c23Round(rt, m, w, flows, &r, bulk, mono, caps)
		}
	})
}

// TestC23_Probe_udp_len_below_ip_len runs the minimal failing input of the recorded finding: two
// datagrams of one IPv4/UDP flow, the second with a UDP length field one byte below what the IP
// header carries. Coalesced, the second datagram reaches the tun without its last byte.
func TestC23_Probe_udp_len_below_ip_len(t *testing.T) {
	defer vk.Flush()
	ip := gso.IP{Src: []byte{10, 0, 0, 1}, Dst: []byte{10, 0, 0, 2}, TTL: 64, Frag: 0x4000}
	a := gso.BuildUDP(ip, 1000, 2000, []byte{0x11, 0x22})
	b := gso.BuildUDP(ip, 1000, 2000, []byte{0x33, 0x44})
	binary.BigEndian.PutUint16(b[24:], 9) // UDP length 8+1, IP total length still 20+8+2
	w := &c23Writer{tso: true, uso: true}
	m := NewMultiCoalescer(w, slog.New(slog.NewTextHandler(io.Discard, nil)))
	var in []*c23Pkt
	var pp firewall.ParsedPacket
	for i, d := range [][]byte{a, b} {
		p := &c23Pkt{data: d, orig: append([]byte(nil), d...), key: SortKey{Epoch: 1, Counter: uint64(i + 1)}, kind: "probe", txPos: i}
		if !c23ParsedPacket(p.data, &pp) {
			t.Fatalf("harness: probe packet refused by newPacket")
		}
		if err := m.Commit(p.data, p.key, &pp); err != nil {
			t.Fatal(err)
		}
		in = append(in, p)
	}
	if err := m.Flush(); err != nil {
		t.Fatal(err)
	}
	_, err := c23Oracle(in, w.events)
	switch {
	case err == nil:
		vk.Note(c23PID, "probe "+c23KeyUDPLen+": does not reproduce")
	case vk.KnownOpen(c23PID, c23KeyUDPLen):
		vk.ReportKnown(c23PID, c23KeyUDPLen)
	default:
		t.Fatalf("UDP datagram with UDP length below the IP payload length is altered by coalescing: %v\nbatch:\n%s", err, c23Describe(in))
	}
}
