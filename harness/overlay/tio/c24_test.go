//go:build linux && !android

package tio

// C24 - superpacket segmentation yields valid original segments.
//
// A superpacket is built the way the kernel hands it to a vnet-hdr tun (full-length IP header,
// L4 checksum field = pseudo-header sum, virtio_net_hdr with gso_type/gso_size/csum_start/
// csum_offset and an untrustworthy hdr_len), pushed through the production read path
// (Offload.decodeRead = Decode + CheckValid + CorrectHdrLen) and split with SegmentSuperpacket.
// Every yielded segment is copied and compared with the segment the reference (verifkit/gso.Expand,
// written from the kernel's GSO rules and the RFC 1071 definition) derives from the clean packet:
// same count and payload split, headers preserved except lengths, IPv4 ID + i, TCP seq + offset,
// CWR first only, FIN/PSH last only, checksums verifying (0x0000/0xffff treated as the same
// one's-complement value, UDP never zero).

import (
	"bytes"
	"encoding/binary"
	"fmt"
	"testing"

	"golang.org/x/sys/unix"
	"pgregory.net/rapid"
	"verifkit/gso"
	"verifkit/vk"

	"github.com/slackhq/nebula/overlay/tio/virtio"
)

const c24PID = "C24"

type c24Rng uint64

func (r *c24Rng) next() uint64 {
	*r += 0x9e3779b97f4a7c15
	z := uint64(*r)
	z = (z ^ (z >> 30)) * 0xbf58476d1ce4e5b9
	z = (z ^ (z >> 27)) * 0x94d049bb133111eb
	return z ^ (z >> 31)
}

func c24Fill(b []byte, class string, seed uint64) {
	switch class {
	case "zero":
		clear(b)
	case "ff":
		for i := range b {
			b[i] = 0xff
		}
	default:
		r := c24Rng(seed)
		i := 0
		for ; i+8 <= len(b); i += 8 {
			binary.LittleEndian.PutUint64(b[i:], r.next())
		}
		v := r.next()
		for ; i < len(b); i++ {
			b[i] = byte(v)
			v >>= 8
		}
	}
}

func c24Addr(rt *rapid.T, n int, label string) []byte {
	switch rapid.IntRange(0, 5).Draw(rt, label+"Class") {
	case 0:
		return bytes.Repeat([]byte{0xff}, n)
	case 1:
		return make([]byte, n)
	default:
		return rapid.SliceOfN(rapid.Byte(), n, n).Draw(rt, label)
	}
}

func c24Bytes4(rt *rapid.T, maxWords int, label string) []byte {
	w := 0
	if rapid.IntRange(0, 9).Draw(rt, label+"Has") >= 5 {
		w = rapid.IntRange(1, maxWords).Draw(rt, label+"Words")
	}
	if w == 0 {
		return nil
	}
	return rapid.SliceOfN(rapid.Byte(), w*4, w*4).Draw(rt, label)
}

var c24U16Edge = rapid.OneOf(rapid.Uint16(), rapid.SampledFrom([]uint16{0, 1, 0xfffe, 0xffff, 0xffc0, 0x8000}))

type c24Case struct {
	v6, udp bool
	ip      gso.IP
	tcp     gso.TCP
	sport   uint16
	dport   uint16
	g       int
	payLen  int
	clean   []byte // complete valid packet (what the sender's stack means)
	hdrLen  int
	l4Off   int
	geo     string
	content string
	forced  int // segment index whose checksum was forced to compute to zero, -1 if none
}

func c24DrawCase(rt *rapid.T) *c24Case {
	c := &c24Case{forced: -1}
	c.v6 = rapid.Bool().Draw(rt, "v6")
	c.udp = rapid.IntRange(0, 9).Draw(rt, "l4") >= 6
	alen := 4
	if c.v6 {
		alen = 16
	}
	c.ip = gso.IP{
		V6: c.v6, Src: c24Addr(rt, alen, "src"), Dst: c24Addr(rt, alen, "dst"),
		TOS: rapid.Byte().Draw(rt, "tos"), TTL: rapid.Byte().Draw(rt, "ttl"),
		ID:   c24U16Edge.Draw(rt, "ipid"),
		Frag: rapid.SampledFrom([]uint16{0x4000, 0, 0x8000, 0xc000}).Draw(rt, "fragField"),
		Flow: rapid.Uint32Range(0, 0xfffff).Draw(rt, "flow"),
	}
	if !c.v6 {
		c.ip.Options = c24Bytes4(rt, 10, "ipopts")
	} else if rapid.IntRange(0, 9).Draw(rt, "extHas") >= 7 {
		ne := rapid.IntRange(1, 2).Draw(rt, "extN")
		for i := 0; i < ne; i++ {
			ty := rapid.SampledFrom([]byte{0, 60, 43}).Draw(rt, "extType")
			bl := rapid.SampledFrom([]int{6, 14}).Draw(rt, "extBody")
			c.ip.Ext = append(c.ip.Ext, gso.Ext{Type: ty, Body: rapid.SliceOfN(rapid.Byte(), bl, bl).Draw(rt, "extBytes")})
		}
	}
	c.l4Off = c.ip.HdrLen()
	if c.udp {
		c.sport, c.dport = c24U16Edge.Draw(rt, "sport"), c24U16Edge.Draw(rt, "dport")
		c.hdrLen = c.l4Off + 8
	} else {
		seq := rapid.Uint32().Draw(rt, "seq")
		if rapid.Bool().Draw(rt, "seqNearWrap") {
			seq = uint32(0) - uint32(rapid.IntRange(0, 70000).Draw(rt, "seqBack"))
		}
		flags := rapid.SampledFrom([]byte{gso.ACK, gso.ACK | gso.PSH, gso.ACK | gso.PSH | gso.FIN, gso.ACK | gso.FIN, gso.ACK | gso.CWR,
			gso.ACK | gso.CWR | gso.PSH, gso.ACK | gso.ECE, gso.ACK | gso.ECE | gso.CWR | gso.PSH | gso.FIN, gso.ACK | gso.URG, 0xff, 0}).Draw(rt, "flags")
		if rapid.IntRange(0, 9).Draw(rt, "flagsAny") == 0 {
			flags = rapid.Byte().Draw(rt, "flagsByte")
		}
		c.tcp = gso.TCP{
			Sport: c24U16Edge.Draw(rt, "sport"), Dport: c24U16Edge.Draw(rt, "dport"), Seq: seq, Ack: rapid.Uint32().Draw(rt, "ack"),
			Rsvd: rapid.SampledFrom([]byte{0, 0, 0, 1, 0xf}).Draw(rt, "rsvd"), Flags: flags,
			Window: c24U16Edge.Draw(rt, "win"), Urg: c24U16Edge.Draw(rt, "urg"), Options: c24Bytes4(rt, 10, "tcpopts"),
		}
		c.hdrLen = c.l4Off + 20 + len(c.tcp.Options)
	}
	maxPay := 65535 - c.hdrLen
	// geometry, by construction
	tail := func(g int) int {
		switch rapid.IntRange(0, 3).Draw(rt, "tailClass") {
		case 0:
			return g
		case 1:
			return 1
		case 2:
			if g > 1 {
				return g - 1
			}
			return 1
		}
		return rapid.IntRange(1, g).Draw(rt, "tail")
	}
	geo := rapid.SampledFrom([]string{"typical", "typical", "typical", "tiny", "tiny", "small", "single", "header-only", "many", "max-size", "g-65535"}).Draw(rt, "geo")
	c.geo = geo
	switch geo {
	case "typical":
		c.g = rapid.OneOf(rapid.IntRange(500, 1500), rapid.SampledFrom([]int{1448, 1460, 1240, 1220, 8948, 8960, 1472, 1200})).Draw(rt, "g")
		n := rapid.IntRange(2, 64).Draw(rt, "nseg")
		c.payLen = (n-1)*c.g + tail(c.g)
	case "tiny":
		c.g = rapid.IntRange(1, 60).Draw(rt, "g")
		n := rapid.IntRange(2, 200).Draw(rt, "nseg")
		c.payLen = (n-1)*c.g + tail(c.g)
	case "small":
		c.g = rapid.IntRange(61, 500).Draw(rt, "g")
		n := rapid.IntRange(2, 64).Draw(rt, "nseg")
		c.payLen = (n-1)*c.g + tail(c.g)
	case "single":
		c.payLen = rapid.IntRange(1, 2000).Draw(rt, "pay")
		c.g = rapid.OneOf(rapid.IntRange(c.payLen, 65535), rapid.Just(c.payLen)).Draw(rt, "g")
	case "header-only":
		c.payLen = 0
		c.g = rapid.OneOf(rapid.IntRange(1, 65535), rapid.SampledFrom([]int{1, 1460, 65535})).Draw(rt, "g")
	case "many":
		c.g = rapid.IntRange(1, 40).Draw(rt, "g")
		n := rapid.IntRange(200, 3000).Draw(rt, "nseg")
		c.payLen = (n-1)*c.g + tail(c.g)
	case "max-size":
		c.payLen = maxPay - rapid.IntRange(0, 2).Draw(rt, "slack")
		c.g = rapid.OneOf(rapid.IntRange(1000, 65535), rapid.SampledFrom([]int{1460, 8960, 32768})).Draw(rt, "g")
	case "g-65535":
		c.g = 65535
		c.payLen = rapid.IntRange(0, maxPay).Draw(rt, "pay")
	}
	if c.payLen > maxPay {
		// keep the segment size, drop whole segments
		n := maxPay / c.g
		if n < 1 {
			n = 1
			c.payLen = maxPay
		} else {
			c.payLen = n*c.g - rapid.IntRange(0, min(c.g-1, n*c.g-1)).Draw(rt, "trim")
		}
	}
	c.content = rapid.SampledFrom([]string{"random", "random", "random", "zero", "ff"}).Draw(rt, "content")
	payload := make([]byte, c.payLen)
	c24Fill(payload, c.content, rapid.Uint64().Draw(rt, "contentSeed"))

	// force one segment's checksum to compute to zero (UDP must then carry 0xffff)
	nseg := 1
	if c.payLen > c.g {
		nseg = (c.payLen + c.g - 1) / c.g
	}
	if rapid.IntRange(0, 9).Draw(rt, "forceZero") >= 7 && c.payLen >= 2 {
		k := rapid.IntRange(0, nseg-1).Draw(rt, "forceSeg")
		lo := k * c.g
		hi := min(lo+c.g, c.payLen)
		if nseg == 1 {
			lo, hi = 0, c.payLen
		}
		if hi-lo >= 2 {
			j := rapid.IntRange(0, (hi-lo-2)/2).Draw(rt, "forceWord") * 2
			payload[lo+j], payload[lo+j+1] = 0, 0
			// L4 header of segment k as the kernel would emit it
			var l4h []byte
			proto := byte(gso.ProtoTCP)
			if c.udp {
				proto = gso.ProtoUDP
				l4h = make([]byte, 8)
				binary.BigEndian.PutUint16(l4h[0:], c.sport)
				binary.BigEndian.PutUint16(l4h[2:], c.dport)
				binary.BigEndian.PutUint16(l4h[4:], uint16(8+hi-lo))
			} else {
				tk := c.tcp
				tk.Seq += uint32(lo)
				if k != 0 {
					tk.Flags &^= gso.CWR
				}
				if k != nseg-1 {
					tk.Flags &^= gso.FIN | gso.PSH
				}
				l4h = tk.Header()
			}
			s := gso.PseudoSum(c.v6, c.ip.Src, c.ip.Dst, proto, len(l4h)+hi-lo) + gso.Sum(l4h) + gso.Sum(payload[lo:hi])
			w := 0xffff - gso.Fold(s) // total becomes congruent to 0xffff: the checksum computes to 0
			binary.BigEndian.PutUint16(payload[lo+j:], w)
			c.forced = k
		}
	}
	if c.udp {
		c.clean = gso.BuildUDP(c.ip, c.sport, c.dport, payload)
	} else {
		c.clean = gso.BuildTCP(c.ip, c.tcp, payload)
	}
	if len(c.clean) != c.hdrLen+c.payLen {
		rt.Fatalf("harness: built %d bytes, expected %d", len(c.clean), c.hdrLen+c.payLen)
	}
	return c
}

// c24KernelForm turns the clean packet into what the tun read returns for a GSO skb: L4 checksum
// field = folded pseudo-header sum (not inverted) over the full L4 length.
func c24KernelForm(c *c24Case) []byte {
	p := append([]byte(nil), c.clean...)
	proto, off := byte(gso.ProtoTCP), 16
	if c.udp {
		proto, off = gso.ProtoUDP, 6
	}
	ps := gso.Fold(gso.PseudoSum(c.v6, c.ip.Src, c.ip.Dst, proto, len(p)-c.l4Off))
	binary.BigEndian.PutUint16(p[c.l4Off+off:], ps)
	return p
}

func (c *c24Case) gsoType() uint8 {
	switch {
	case c.udp:
		return unix.VIRTIO_NET_HDR_GSO_UDP_L4
	case c.v6:
		return unix.VIRTIO_NET_HDR_GSO_TCPV6
	}
	return unix.VIRTIO_NET_HDR_GSO_TCPV4
}

func (c *c24Case) csumOffset() uint16 {
	if c.udp {
		return 6
	}
	return 16
}

func (c *c24Case) String() string {
	return fmt.Sprintf("v6=%v udp=%v geo=%s g=%d payLen=%d hdrLen=%d l4Off=%d content=%s forced=%d tcp={seq=%#x flags=%#02x opts=%d} ipid=%#04x frag=%#04x ipopts=%d ext=%d",
		c.v6, c.udp, c.geo, c.g, c.payLen, c.hdrLen, c.l4Off, c.content, c.forced, c.tcp.Seq, c.tcp.Flags, len(c.tcp.Options), c.ip.ID, c.ip.Frag, len(c.ip.Options), len(c.ip.Ext))
}

var c24RxBuf = make([]byte, 65536+512)

// c24Read stages pkt in an Offload's rx buffer and runs the production decode path.
func c24Read(pkt []byte, hdr virtio.Hdr, rxOff int) (*Offload, error) {
	o := &Offload{rxBuf: c24RxBuf}
	for i := 0; i < rxOff; i++ {
		c24RxBuf[i] = 0xa5
	}
	tailEnd := min(len(c24RxBuf), rxOff+len(pkt)+128)
	for i := rxOff + len(pkt); i < tailEnd; i++ {
		c24RxBuf[i] = 0xa5
	}
	copy(c24RxBuf[rxOff:], pkt)
	o.rxOff = rxOff
	hdr.Encode(o.readVnetScratch[:])
	err := o.decodeRead(len(pkt))
	return o, err
}

func c24GuardsIntact(rxOff, n int) bool {
	for i := 0; i < rxOff; i++ {
		if c24RxBuf[i] != 0xa5 {
			return false
		}
	}
	for i := rxOff + n; i < min(len(c24RxBuf), rxOff+n+128); i++ {
		if c24RxBuf[i] != 0xa5 {
			return false
		}
	}
	return true
}

// c24CompareSeg compares a yielded segment with the reference segment. Checksum fields are compared
// as one's-complement numbers and additionally verified from scratch.
func c24CompareSeg(got, want []byte, c *c24Case) error {
	if len(got) != len(want) {
		return fmt.Errorf("length %d, want %d", len(got), len(want))
	}
	ckOff := c.l4Off + int(c.csumOffset())
	for i := range got {
		if (!c.v6 && (i == 10 || i == 11)) || i == ckOff || i == ckOff+1 {
			continue
		}
		if got[i] != want[i] {
			return fmt.Errorf("byte %d is %#02x, want %#02x (%s)", i, got[i], want[i], c24FieldName(i, c))
		}
	}
	if !c.v6 {
		g, w := binary.BigEndian.Uint16(got[10:]), binary.BigEndian.Uint16(want[10:])
		if !gso.SameOnes(g, w) || !gso.VerifyIPv4(got) {
			return fmt.Errorf("ipv4 header checksum %#04x does not verify (reference %#04x)", g, w)
		}
	}
	g, w := binary.BigEndian.Uint16(got[ckOff:]), binary.BigEndian.Uint16(want[ckOff:])
	if !gso.SameOnes(g, w) {
		return fmt.Errorf("L4 checksum %#04x, reference %#04x", g, w)
	}
	if c.udp && g == 0 {
		return fmt.Errorf("UDP checksum transmitted as 0x0000 (a computed zero must be sent as 0xffff)")
	}
	// from scratch, without the reference segment
	proto := byte(gso.ProtoTCP)
	if c.udp {
		proto = gso.ProtoUDP
	}
	if gso.Fold(gso.PseudoSum(c.v6, c.ip.Src, c.ip.Dst, proto, len(got)-c.l4Off)+gso.Sum(got[c.l4Off:])) != 0xffff {
		return fmt.Errorf("L4 checksum %#04x does not verify against the pseudo header", g)
	}
	return nil
}

func c24FieldName(i int, c *c24Case) string {
	switch {
	case i < c.l4Off && !c.v6:
		return [...]string{"ver/ihl", "tos", "total length", "total length", "id", "id", "frag", "frag", "ttl", "proto", "csum", "csum"}[min(i, 11)] + " (ipv4 header)"
	case i < c.l4Off:
		if i == 4 || i == 5 {
			return "ipv6 payload length"
		}
		return "ipv6 header"
	case i < c.hdrLen && c.udp:
		return [...]string{"sport", "sport", "dport", "dport", "udp length", "udp length", "csum", "csum"}[i-c.l4Off]
	case i < c.hdrLen:
		j := i - c.l4Off
		switch {
		case j >= 4 && j < 8:
			return "tcp seq"
		case j == 13:
			return "tcp flags"
		}
		return fmt.Sprintf("tcp header byte %d", j)
	}
	return "payload"
}

func TestC24_Segments(t *testing.T) {
	vk.Check(t, 25000, func(rt *rapid.T) {
		c := c24DrawCase(rt)
		in := c24KernelForm(c)

		// hdr_len from the kernel is not trustworthy (FORWARD path: whole first packet)
		hl := uint16(c.hdrLen)
		hlClass := rapid.SampledFrom([]string{"true", "true", "first-packet", "zero", "random"}).Draw(rt, "hdrLenClass")
		switch hlClass {
		case "first-packet":
			hl = uint16(min(c.hdrLen+c.g, 65535))
		case "zero":
			hl = 0
		case "random":
			hl = rapid.Uint16().Draw(rt, "hdrLenField")
		}
		gt := c.gsoType()
		ecn := !c.udp && rapid.IntRange(0, 4).Draw(rt, "ecnBit") == 0
		if ecn {
			gt |= unix.VIRTIO_NET_HDR_GSO_ECN
		}
		// fields the segmenter promises not to depend on
		dirty := rapid.SampledFrom([]string{"none", "none", "none", "none", "none", "none", "totlen", "ipcsum", "l4csum"}).Draw(rt, "dirty")
		switch dirty {
		case "totlen":
			v := rapid.SampledFrom([]uint16{0, 0xffff, 20, 1500}).Draw(rt, "dirtyLen")
			if c.v6 {
				binary.BigEndian.PutUint16(in[4:], v)
			} else {
				binary.BigEndian.PutUint16(in[2:], v)
			}
		case "ipcsum":
			if !c.v6 {
				binary.BigEndian.PutUint16(in[10:], rapid.Uint16().Draw(rt, "dirtyIPCsum"))
			}
		case "l4csum":
			binary.BigEndian.PutUint16(in[c.l4Off+int(c.csumOffset()):], rapid.Uint16().Draw(rt, "dirtyL4Csum"))
		}
		rxOff := rapid.IntRange(0, 63).Draw(rt, "rxOff")
		hdr := virtio.NewHeader(unix.VIRTIO_NET_HDR_F_NEEDS_CSUM, gt, hl, uint16(c.g), uint16(c.l4Off), c.csumOffset())

		want, err := gso.Expand(c.clean, c.g, 0)
		if err != nil {
			rt.Fatalf("harness: reference expansion failed: %v (%s)", err, c)
		}

		o, err := c24Read(in, hdr, rxOff)
		tooBig := c.hdrLen > 120 // documented limit of the segmenter (IPv4 max + TCP max)
		if err != nil {
			rt.Fatalf("decodeRead rejected a valid superpacket: %v\n%s hdr_len=%d(%s) ecn=%v dirty=%s", err, c, hl, hlClass, ecn, dirty)
		}
		if len(o.pending) != 1 {
			rt.Fatalf("decodeRead produced %d packets (%s)", len(o.pending), c)
		}
		p := o.pending[0]
		wantProto := GSOProtoTCP
		if c.udp {
			wantProto = GSOProtoUDP
		}
		if p.GSO.Size != uint16(c.g) || p.GSO.CsumStart != uint16(c.l4Off) || p.GSO.HdrLen != uint16(c.hdrLen) || p.GSO.Proto != wantProto || len(p.Bytes) != len(in) {
			rt.Fatalf("GSO metadata %+v len=%d, want size=%d csumStart=%d hdrLen=%d proto=%d len=%d (%s, hdr_len field %d)", p.GSO, len(p.Bytes), c.g, c.l4Off, c.hdrLen, wantProto, len(in), c, hl)
		}
		var got [][]byte
		err = SegmentSuperpacket(p, func(seg []byte) error {
			got = append(got, append([]byte(nil), seg...))
			return nil
		})
		labels := []string{"geo=" + c.geo, "hdrlen-field=" + hlClass, "dirty=" + dirty, "content=" + c.content}
		if tooBig {
			labels = append(labels, "hdr>120")
		}
		if err != nil {
			if tooBig {
				// the only documented refusal; nothing may have been yielded wrongly before it
				vk.Case(c24PID, "toobig/"+c.String(), false, append(labels, "refused-hdr>120")...)
				return
			}
			rt.Fatalf("SegmentSuperpacket failed on a valid superpacket after %d segments: %v\n%s", len(got), err, c)
		}
		if !c24GuardsIntact(rxOff, len(in)) {
			rt.Fatalf("segmentation wrote outside the packet's slot of the rx buffer (%s)", c)
		}
		if len(got) != len(want) {
			rt.Fatalf("%d segments yielded, reference has %d (%s)", len(got), len(want), c)
		}
		var cat []byte
		for i := range got {
			if err := c24CompareSeg(got[i], want[i], c); err != nil {
				rt.Fatalf("segment %d of %d: %v\n%s\n got  %x\n want %x", i, len(got), err, c, got[i][:min(len(got[i]), c.hdrLen+8)], want[i][:min(len(want[i]), c.hdrLen+8)])
			}
			pl := len(got[i]) - c.hdrLen
			if pl > c.g || (i != len(got)-1 && pl != c.g) {
				rt.Fatalf("segment %d payload %d bytes with gso_size %d (%s)", i, pl, c.g, c)
			}
			cat = append(cat, got[i][c.hdrLen:]...)
		}
		if !bytes.Equal(cat, c.clean[c.hdrLen:]) {
			rt.Fatalf("concatenated payloads differ from the original payload (%s)", c)
		}

		nseg := len(got)
		oddTail := nseg >= 2 && (len(got[nseg-1])-c.hdrLen != c.g || c.g&1 == 1)
		opts := len(c.ip.Options) > 0 || len(c.tcp.Options) > 0 || len(c.ip.Ext) > 0
		seqWrap := !c.udp && uint64(c.tcp.Seq)+uint64(c.payLen) > 1<<32
		idWrap := !c.v6 && int(c.ip.ID)+nseg > 0x10000
		nt := nseg >= 2 && (oddTail || opts || seqWrap || idWrap)
		if c.v6 {
			labels = append(labels, "ipv6")
		} else {
			labels = append(labels, "ipv4")
		}
		if c.udp {
			labels = append(labels, "udp")
		} else {
			labels = append(labels, "tcp")
		}
		for _, x := range []struct {
			b bool
			l string
		}{{oddTail, "odd-tail"}, {opts, "options/ext"}, {seqWrap, "seq-wrap"}, {idWrap, "ipid-wrap"}, {ecn, "ecn-bit"}, {c.forced >= 0, "csum-zero-forced"},
			{nseg >= 2, "multi-seg"}, {nseg > 64, "segs>64"}, {c.g < c.hdrLen && nseg >= 2, "gso<hdrlen"}, {len(c.ip.Ext) > 0, "ipv6-ext"},
			{!c.udp && c.tcp.Flags&gso.CWR != 0 && nseg >= 2, "cwr"}, {!c.udp && c.tcp.Flags&(gso.FIN|gso.PSH) != 0 && nseg >= 2, "fin/psh"}} {
			if x.b {
				labels = append(labels, x.l)
			}
		}
		vk.Case(c24PID, c.String()+fmt.Sprintf("/%x/%x/%d", c.ip.Src, c.ip.Dst, rxOff), nt, labels...)
		if vk.WantSample(c24PID) && nseg >= 2 {
			vk.Sample(c24PID, map[string]any{"case": c.String(), "segments": nseg, "first": fmt.Sprintf("%x", got[0][:min(len(got[0]), c.hdrLen)])})
		}
	})
}

// TestC24_NonGSOChecksum: a GSO_NONE packet with NEEDS_CSUM goes through the same read path and must
// come out as one packet with a finished, valid L4 checksum.
func TestC24_NonGSOChecksum(t *testing.T) {
	vk.Check(t, 5000, func(rt *rapid.T) {
		c := c24DrawCase(rt)
		if c.payLen > 9000 {
			c.payLen %= 9001
			pl := c.clean[c.hdrLen : c.hdrLen+c.payLen]
			if c.udp {
				c.clean = gso.BuildUDP(c.ip, c.sport, c.dport, pl)
			} else {
				c.clean = gso.BuildTCP(c.ip, c.tcp, pl)
			}
			c.forced = -1
		}
		in := c24KernelForm(c)
		hdr := virtio.NewHeader(unix.VIRTIO_NET_HDR_F_NEEDS_CSUM, unix.VIRTIO_NET_HDR_GSO_NONE, uint16(c.hdrLen), 0, uint16(c.l4Off), c.csumOffset())
		rxOff := rapid.IntRange(0, 63).Draw(rt, "rxOff")
		o, err := c24Read(in, hdr, rxOff)
		if err != nil || len(o.pending) != 1 {
			rt.Fatalf("decodeRead of a GSO_NONE/NEEDS_CSUM packet: err=%v pending=%d (%s)", err, len(o.pending), c)
		}
		if o.pending[0].GSO.IsSuperpacket() {
			rt.Fatalf("GSO_NONE packet flagged as superpacket (%s)", c)
		}
		var got [][]byte
		if err := SegmentSuperpacket(o.pending[0], func(seg []byte) error { got = append(got, append([]byte(nil), seg...)); return nil }); err != nil || len(got) != 1 {
			rt.Fatalf("SegmentSuperpacket: err=%v n=%d", err, len(got))
		}
		if err := c24CompareSeg(got[0], c.clean, c); err != nil {
			rt.Fatalf("finished packet: %v (%s)", err, c)
		}
		vk.Case(c24PID, "nongso/"+c.String(), false, "gso-none-needs-csum")
	})
}

// TestC24_Rejects: virtio header / packet combinations that cannot be segmented into valid packets
// (each documented as refused in CheckValid / CorrectHdrLen / protoFromGSOType) must be refused by
// the read path - never yielded - and nothing in the path may panic on them.
func TestC24_Rejects(t *testing.T) {
	vk.Check(t, 10000, func(rt *rapid.T) {
		c := c24DrawCase(rt)
		if c.payLen > 4000 { // keep this half cheap
			c.clean = c.clean[:c.hdrLen+c.payLen%4001]
			c.payLen = len(c.clean) - c.hdrLen
		}
		in := c24KernelForm(c)
		flags, gt, hl, g, cs, co := uint8(unix.VIRTIO_NET_HDR_F_NEEDS_CSUM), c.gsoType(), uint16(c.hdrLen), uint16(c.g), uint16(c.l4Off), c.csumOffset()
		mustReject := true
		kind := rapid.SampledFrom([]string{"ipver-mismatch", "gso-size-0", "rsc-info", "ecn-on-udp", "legacy-udp-gso", "unknown-type", "truncated", "bad-ip-version", "tcp-dataoff", "wild-header"}).Draw(rt, "kind")
		switch kind {
		case "ipver-mismatch":
			if c.udp {
				in[0] = in[0]&0x0f | rapid.SampledFrom([]byte{0x00, 0x50, 0x70, 0xf0}).Draw(rt, "ver")
			} else if c.v6 {
				gt = unix.VIRTIO_NET_HDR_GSO_TCPV4
			} else {
				gt = unix.VIRTIO_NET_HDR_GSO_TCPV6
			}
		case "gso-size-0":
			g = 0
		case "rsc-info":
			flags |= unix.VIRTIO_NET_HDR_F_RSC_INFO
		case "ecn-on-udp":
			gt = unix.VIRTIO_NET_HDR_GSO_UDP_L4 | unix.VIRTIO_NET_HDR_GSO_ECN
		case "legacy-udp-gso":
			gt = unix.VIRTIO_NET_HDR_GSO_UDP
		case "unknown-type":
			gt = rapid.SampledFrom([]uint8{2, 6, 7, 0x7f, 0x82}).Draw(rt, "gsoType")
		case "truncated":
			in = in[:rapid.IntRange(0, c.hdrLen-1).Draw(rt, "cut")]
		case "bad-ip-version":
			in[0] = in[0]&0x0f | rapid.SampledFrom([]byte{0x00, 0x10, 0x50, 0x70, 0xf0}).Draw(rt, "ver")
		case "tcp-dataoff":
			if c.udp {
				mustReject = false
			} else {
				in[c.l4Off+12] = in[c.l4Off+12]&0x0f | byte(rapid.IntRange(0, 4).Draw(rt, "doff"))<<4
			}
		case "wild-header":
			// arbitrary offsets: no verdict is demanded, only that nothing blows up
			mustReject = false
			hl, cs, co = rapid.Uint16().Draw(rt, "hl"), c24U16Edge.Draw(rt, "cs"), rapid.Uint16Range(0, 40).Draw(rt, "co")
			if rapid.Bool().Draw(rt, "smallCs") {
				cs = rapid.Uint16Range(0, 130).Draw(rt, "csSmall")
			}
			g = c24U16Edge.Draw(rt, "g")
		}
		hdr := virtio.NewHeader(flags, gt, hl, g, cs, co)
		yielded := 0
		var err error
		func() {
			defer func() {
				if r := recover(); r != nil {
					rt.Fatalf("panic on a %s input: %v\n%s virtio={flags=%#x type=%#x hdr_len=%d gso_size=%d csum_start=%d csum_offset=%d} len=%d", kind, r, c, flags, gt, hl, g, cs, co, len(in))
				}
			}()
			var o *Offload
			o, err = c24Read(in, hdr, 0)
			if err == nil && len(o.pending) == 1 {
				err = SegmentSuperpacket(o.pending[0], func(seg []byte) error { yielded++; return nil })
			}
		}()
		if mustReject && (err == nil || yielded > 0) {
			rt.Fatalf("%s input was not refused (err=%v, %d segments yielded)\n%s virtio={flags=%#x type=%#x hdr_len=%d gso_size=%d csum_start=%d csum_offset=%d} len=%d", kind, err, yielded, c, flags, gt, hl, g, cs, co, len(in))
		}
		verdict := "accepted"
		if err != nil {
			verdict = "refused"
		}
		vk.Case(c24PID, "rej/"+kind+"/"+c.String(), false, "reject="+kind, "reject-"+verdict)
	})
}
