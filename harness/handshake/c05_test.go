package handshake

// C05 (machine level) - a handshake completes only with an authenticated peer.
//
// A rapid-driven history creates initiator/responder Machines for the identities of the zoo
// (honest, malicious-but-trusted M, untrusted CA, expired, blocklisted, three key-mismatch kinds)
// and an active adversary delivers any message ever produced to any Machine - unmodified, replayed,
// cross-routed, truncated, bit-flipped, header-substituted or spliced across sessions. Adversary-held
// Machines accept every certificate, so the adversary learns every key it can legitimately derive.
//
// Invariant after every step, for every non-nil Result r returned by a Machine of an honest party P:
//  (a) r.RemoteCert is exactly what the trust check returned for this Machine, and the certificate
//      is acceptable by construction of the zoo (trusted CA, inside validity, not blocklisted);
//  (b) the certificate's public key is the static key the peer proved in the Noise exchange;
//  (c) key ownership: any other completed session sharing a key with r is held by the identity the
//      certificate names, pairs cross-wise, and (initiator side) such a session exists;
//  (d) a Machine with Failed()==true refuses everything.
// IX sends s in clear in message 1: a responder completing on a replayed/forged first message is not
// a violation as long as (c) holds.

import (
	"bytes"
	"errors"
	"fmt"
	"testing"

	"github.com/slackhq/nebula/cert"
	"github.com/slackhq/nebula/header"
	"pgregory.net/rapid"
	"verifkit/vk"
)

type c05Mach struct {
	idx       int
	m         *Machine
	owner     *hsgIdent
	initiator bool
	verdicts  []hsgVerdict
	results   int
	advIn     bool // received at least one adversarial delivery
	badIn     bool // received a message produced by a non-acceptable identity
	used      bool
	wasFailed bool
}

type c05Msg struct {
	b        []byte
	from     int // machine index
	stage    int
	answerTo int // stage 2: initiator machine index the message answers (-1 unknown)
	sent     int // times delivered
}

type c05Done struct {
	mach  *c05Mach
	e, d  [32]byte
	named *hsgIdent
}

func c05Holder(id *hsgIdent) *hsgIdent {
	if id.keyOf != nil {
		// foreignbody/fullcert present someone else's certificate body but use M's static key pair
		return id.keyOf
	}
	return id
}

type c05World struct {
	z     *hsgZoo
	ci    int
	machs []*c05Mach
	msgs  []*c05Msg
	done  []*c05Done
	hist  []string
}

func (w *c05World) newMach(id *hsgIdent, v cert.Version, ci int, initiator bool, idx uint32) (*c05Mach, error) {
	cm := &c05Mach{idx: len(w.machs), owner: id, initiator: initiator}
	ver := CertVerifier(hsgAcceptAll)
	if id.kind == hsgHonest {
		ver = w.z.hsgPoolVerifier(&cm.verdicts)
	}
	m, err := hsgNewMachine(v, w.z.hsgCreds(id, id.versions(), hsgCipher(ci)), ver, idx, initiator)
	if err != nil {
		return nil, err
	}
	cm.m = m
	w.machs = append(w.machs, cm)
	return cm, nil
}

// c05Check applies the invariant to a fresh non-nil result.
func (w *c05World) c05Check(cm *c05Mach, r *Result) string {
	e, d := r.EKey.UnsafeKey(), r.DKey.UnsafeKey()
	nd := &c05Done{mach: cm, e: e, d: d}
	if cm.owner.kind == hsgHonest {
		P := cm.owner.name
		if r.RemoteCert == nil || r.RemoteCert.Certificate == nil {
			return fmt.Sprintf("%s completed without a peer certificate", P)
		}
		fp := hsgFP(r.RemoteCert.Certificate)
		// (a) the trust check accepted exactly this certificate for this machine
		okByVerifier := false
		for _, v := range cm.verdicts {
			if v.ok && v.cc == r.RemoteCert {
				okByVerifier = true
			}
		}
		if !okByVerifier {
			return fmt.Sprintf("%s completed with certificate %s that its trust check never accepted (verdicts: %d)", P, fp, len(cm.verdicts))
		}
		if !w.z.okFP[fp] || r.RemoteCert.Fingerprint != fp {
			who := "unknown"
			if id := w.z.byFP[fp]; id != nil {
				who = id.name + "/" + id.kind.String()
			}
			return fmt.Sprintf("%s completed with a certificate (%s, %s) that the trust rule does not accept", P, fp, who)
		}
		// (b) proven static key
		if !bytes.Equal(r.RemoteCert.Certificate.PublicKey(), cm.m.hs.PeerStatic()) {
			return fmt.Sprintf("%s completed: certificate public key differs from the static key of the Noise exchange", P)
		}
		nd.named = w.z.byFP[fp]
		if !bytes.Equal(nd.named.pub, r.RemoteCert.Certificate.PublicKey()) {
			return fmt.Sprintf("%s completed: certificate of %s reported with a different public key", P, nd.named.name)
		}
	}
	if e == d {
		return "a completed session has equal sending and receiving keys"
	}
	// (c) key ownership against every completed session so far
	paired := false
	for _, o := range w.done {
		shares := e == o.e || e == o.d || d == o.e || d == o.d
		if !shares {
			continue
		}
		cross := e == o.d && d == o.e
		for _, pr := range [][2]*c05Done{{nd, o}, {o, nd}} {
			a, b := pr[0], pr[1]
			if a.named == nil { // not an honest party's session
				continue
			}
			if c05Holder(b.mach.owner) != a.named {
				return fmt.Sprintf("key ownership: %s (machine %d) completed naming %s, but its keys are shared with a session held by %s/%s (machine %d)",
					a.mach.owner.name, a.mach.idx, a.named.name, b.mach.owner.name, b.mach.owner.kind, b.mach.idx)
			}
			if !cross {
				return fmt.Sprintf("key ownership: sessions of %s and %s share a key but do not pair cross-wise", a.mach.owner.name, b.mach.owner.name)
			}
		}
		if cross {
			paired = true
		}
	}
	if nd.named != nil && cm.initiator && !paired {
		return fmt.Sprintf("key ownership: honest initiator %s completed naming %s but no session held by anybody pairs with its keys", cm.owner.name, nd.named.name)
	}
	w.done = append(w.done, nd)
	return ""
}

func c05Mutate(rt *rapid.T, w *c05World, src *c05Msg) ([]byte, string) {
	b := hsgClone(src.b)
	k := rapid.SampledFrom([]string{"none", "none", "none", "none", "none", "trunc", "flip", "flip", "header", "splice-header", "splice-E", "splice-tail", "extend"}).Draw(rt, "mutation")
	other := func() []byte { return w.msgs[rapid.IntRange(0, len(w.msgs)-1).Draw(rt, "spliceWith")].b }
	switch k {
	case "trunc":
		b = b[:rapid.IntRange(0, len(b)-1).Draw(rt, "truncLen")]
	case "flip":
		i := rapid.IntRange(0, len(b)-1).Draw(rt, "flipAt")
		b[i] ^= 1 << uint(rapid.IntRange(0, 7).Draw(rt, "flipBit"))
	case "header":
		switch rapid.IntRange(0, 2).Draw(rt, "headerField") {
		case 0:
			b[1] = rapid.Byte().Draw(rt, "subtype")
		case 1:
			copy(b[4:8], rapid.SliceOfN(rapid.Byte(), 4, 4).Draw(rt, "index"))
		default:
			b[15] = rapid.Byte().Draw(rt, "counter")
		}
	case "splice-header":
		o := other()
		b = append(hsgClone(o[:header.Len]), b[header.Len:]...)
	case "splice-E":
		o := other()
		n := min(len(b), len(o), header.Len+w.z.dhLen)
		copy(b[header.Len:n], o[header.Len:n])
	case "splice-tail":
		o := other()
		cut := rapid.IntRange(header.Len, len(b)).Draw(rt, "spliceAt")
		if cut <= len(o) {
			b = append(b[:cut], o[cut:]...)
		}
	case "extend":
		b = append(b, rapid.SliceOfN(rapid.Byte(), 1, 8).Draw(rt, "extra")...)
	}
	if bytes.Equal(b, src.b) {
		k = "none"
	}
	return b, k
}

func TestC05_MachineAdversary(t *testing.T) {
	vk.Check(t, 2500, func(rt *rapid.T) {
		curve := rapid.SampledFrom([]cert.Curve{cert.Curve_CURVE25519, cert.Curve_P256}).Draw(rt, "curve")
		z := hsgZooFor(curve)
		w := &c05World{z: z, ci: rapid.IntRange(0, 1).Draw(rt, "cipher")}
		labels := map[string]bool{}
		nontrivial := false
		identGen := rapid.Custom(func(rt *rapid.T) *hsgIdent {
			if rapid.IntRange(0, 9).Draw(rt, "identClass") < 5 {
				return rapid.SampledFrom(z.honest).Draw(rt, "honestIdent")
			}
			return rapid.SampledFrom(z.idents).Draw(rt, "ident")
		})
		fail := func(msg string) {
			rt.Fatalf("%s/c%d: %s\nhistory:\n  %s", curve, w.ci, msg, c05Join(w.hist))
		}
		create := func(initiator bool) *c05Mach {
			id := identGen.Draw(rt, "owner")
			v := rapid.SampledFrom(id.versions()).Draw(rt, "version")
			ci := w.ci
			if rapid.IntRange(0, 11).Draw(rt, "otherCipher") == 0 {
				ci = 1 - ci
			}
			idx := rapid.Uint32Range(1, 0xffffffff).Draw(rt, "index")
			cm, err := w.newMach(id, v, ci, initiator, idx)
			if err != nil {
				fail("harness: NewMachine: " + err.Error())
			}
			role := "responder"
			if initiator {
				role = "initiator"
				m1, err := cm.m.Initiate(nil)
				if err != nil {
					fail("harness: Initiate: " + err.Error())
				}
				w.msgs = append(w.msgs, &c05Msg{b: m1, from: cm.idx, stage: 1, answerTo: -1})
			}
			w.hist = append(w.hist, fmt.Sprintf("machine %d: %s %s/%s v%d cipher %d index %d", cm.idx, role, id.name, id.kind, v, ci, idx))
			labels["machine/"+role+"/"+id.kind.String()] = true
			return cm
		}
		deliver := func(msg *c05Msg, cm *c05Mach, b []byte, mut string, natural bool) {
			adversarial := mut != "none" || msg.sent > 0 || !natural
			producer := w.machs[msg.from].owner
			if adversarial {
				cm.advIn = true
			}
			if !producer.acceptable && cm.owner.kind == hsgHonest {
				cm.badIn = true
				nontrivial = true // a completion attempt with a non-accepted identity
				labels["attempt/"+producer.kind.String()] = true
			}
			msg.sent++
			wasFailed := cm.m.Failed()
			in := hsgClone(b)
			out, r, err := cm.m.ProcessPacket(nil, in)
			w.hist = append(w.hist, fmt.Sprintf("deliver msg(stage %d from machine %d, %s, %d bytes %x) -> machine %d: result=%v out=%d err=%v failed=%v",
				msg.stage, msg.from, mut, len(b), b, cm.idx, r != nil, len(out), err, cm.m.Failed()))
			cm.used = true
			if wasFailed {
				// (d)
				if !errors.Is(err, ErrMachineFailed) || r != nil || out != nil {
					fail(fmt.Sprintf("machine %d had Failed()==true but did not refuse the input", cm.idx))
				}
				labels["failed-machine-refuses"] = true
				return
			}
			if r != nil && err != nil {
				fail(fmt.Sprintf("machine %d returned a result together with error %v", cm.idx, err))
			}
			if cm.m.Failed() {
				if r != nil {
					fail(fmt.Sprintf("machine %d completed and reports Failed()", cm.idx))
				}
				// (d) immediately: nothing is accepted any more
				if _, r2, err2 := cm.m.ProcessPacket(nil, msg.b); !errors.Is(err2, ErrMachineFailed) || r2 != nil {
					fail(fmt.Sprintf("machine %d failed but did not refuse the next input", cm.idx))
				}
				if _, err2 := cm.m.Initiate(nil); !errors.Is(err2, ErrMachineFailed) {
					fail(fmt.Sprintf("machine %d failed but did not refuse Initiate", cm.idx))
				}
				labels["fatal"] = true
			}
			if out != nil {
				w.msgs = append(w.msgs, &c05Msg{b: hsgClone(out), from: cm.idx, stage: 2, answerTo: msg.from})
			}
			if r == nil {
				if cm.owner.kind == hsgHonest && !producer.acceptable && mut == "none" {
					labels["rejected/"+producer.kind.String()] = true
				}
				return
			}
			cm.results++
			if v := w.c05Check(cm, r); v != "" {
				fail(v)
			}
			if cm.owner.kind == hsgHonest {
				peer := w.done[len(w.done)-1].named
				labels["complete/honest/with-"+peer.kind.String()] = true
				if cm.advIn {
					nontrivial = true // adversarial delivery to a machine that later completed
					labels["complete/after-adversarial-delivery"] = true
				}
				if mut != "none" {
					labels["complete/on-mutated-message/"+mut] = true
				}
				if cm.results > 1 {
					labels["complete/twice"] = true
				}
			} else {
				labels["complete/adversary-held"] = true
			}
		}

		steps := rapid.IntRange(4, 40).Draw(rt, "steps")
		for s := 0; s < steps; s++ {
			act := rapid.IntRange(0, 9).Draw(rt, "action")
			switch {
			case act < 2 || len(w.msgs) == 0:
				create(true)
			case act < 3:
				create(false)
			default:
				// deliver: bias towards recent messages
				var mi int
				if rapid.Bool().Draw(rt, "recent") {
					mi = len(w.msgs) - 1 - rapid.IntRange(0, min(2, len(w.msgs)-1)).Draw(rt, "recentMsg")
				} else {
					mi = rapid.IntRange(0, len(w.msgs)-1).Draw(rt, "msg")
				}
				msg := w.msgs[mi]
				b, mut := c05Mutate(rt, w, msg)
				var cm *c05Mach
				natural := false
				if rapid.IntRange(0, 3).Draw(rt, "routing") > 0 {
					natural = true
					if msg.stage == 2 && msg.answerTo >= 0 {
						cm = w.machs[msg.answerTo]
					} else {
						for _, c := range w.machs {
							if !c.initiator && !c.used {
								cm = c
								break
							}
						}
						if cm == nil {
							cm = create(false)
						}
					}
				} else {
					cm = w.machs[rapid.IntRange(0, len(w.machs)-1).Draw(rt, "target")]
				}
				deliver(msg, cm, b, mut, natural)
			}
		}
		var ls []string
		for l := range labels {
			ls = append(ls, l)
		}
		vk.Case("C05", c05Join(c05Short(w.hist)), nontrivial, c05Sorted(ls)...)
		if vk.WantSample("C05") && nontrivial && len(w.hist) < 14 {
			vk.Sample("C05", map[string]any{"curve": curve.String(), "history": c05Short(w.hist)})
		}
	})
}

func c05Join(h []string) string {
	var b bytes.Buffer
	for i, s := range h {
		if i > 0 {
			b.WriteString("\n  ")
		}
		b.WriteString(s)
	}
	return b.String()
}

// c05Short drops the packet bytes (fresh ephemeral keys every run) for keys and samples.
func c05Short(h []string) []string {
	out := make([]string, len(h))
	for i, s := range h {
		if a := bytes.Index([]byte(s), []byte(" bytes ")); a >= 0 {
			if e := bytes.IndexByte([]byte(s[a:]), ')'); e >= 0 {
				s = s[:a+6] + s[a+e:]
			}
		}
		out[i] = s
	}
	return out
}

func c05Sorted(ls []string) []string {
	for i := 1; i < len(ls); i++ {
		for j := i; j > 0 && ls[j] < ls[j-1]; j-- {
			ls[j], ls[j-1] = ls[j-1], ls[j]
		}
	}
	return ls
}
