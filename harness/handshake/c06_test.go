package handshake

// C06 - completed handshakes agree on keys and indexes (machine level + noiseutil data-plane
// ciphers). The root-package part (newConnectionStateFromResult, counters, replay window) lives in
// harness/root/c06_root_test.go.

import (
	"bytes"
	"crypto/aes"
	"crypto/cipher"
	"encoding/binary"
	"fmt"
	"testing"

	"github.com/flynn/noise"
	"github.com/slackhq/nebula/cert"
	"github.com/slackhq/nebula/noiseutil"
	"golang.org/x/crypto/chacha20poly1305"
	"pgregory.net/rapid"
	"verifkit/vk"
)

// version configurations of one side: which certificate versions it holds and which one it starts with
type c06VerCfg struct {
	name  string
	vs    []cert.Version
	start cert.Version
}

var c06VerCfgs = []c06VerCfg{
	{"v1", []cert.Version{cert.Version1}, cert.Version1},
	{"v2", []cert.Version{cert.Version2}, cert.Version2},
	{"v1+v2/1", []cert.Version{cert.Version1, cert.Version2}, cert.Version1},
	{"v1+v2/2", []cert.Version{cert.Version1, cert.Version2}, cert.Version2},
}

var c06IdxGen = rapid.OneOf(
	rapid.Uint32Range(1, 0xffffffff),
	rapid.SampledFrom([]uint32{1, 2, 0x7f, 0x80, 0xff, 0x100, 0x3fff, 0x4000, 0xffff, 0x10000, 0x7fffffff, 0x80000000, 0xfffffffe, 0xffffffff}),
)

// c06RefAEAD is the independent data-plane reference: the Noise specification's transport cipher
// (AES-256-GCM with a big-endian counter, ChaCha20-Poly1305 with a little-endian counter, both in
// the last 8 bytes of a 96-bit nonce) keyed with the raw key the handshake produced.
func c06RefAEAD(ci int, key [32]byte) (cipher.AEAD, func(n uint64) []byte) {
	if ci == 1 {
		blk, err := aes.NewCipher(key[:])
		if err != nil {
			panic(err)
		}
		g, err := cipher.NewGCM(blk)
		if err != nil {
			panic(err)
		}
		return g, func(n uint64) []byte {
			nb := make([]byte, 12)
			binary.BigEndian.PutUint64(nb[4:], n)
			return nb
		}
	}
	c, err := chacha20poly1305.New(key[:])
	if err != nil {
		panic(err)
	}
	return c, func(n uint64) []byte {
		nb := make([]byte, 12)
		binary.LittleEndian.PutUint64(nb[4:], n)
		return nb
	}
}

var c06Completed, c06NotCompleted int

func TestC06_KeyAndIndexAgreement(t *testing.T) {
	vk.Check(t, 1500, func(rt *rapid.T) {
		curve := rapid.SampledFrom([]cert.Curve{cert.Curve_CURVE25519, cert.Curve_P256}).Draw(rt, "curve")
		z := hsgZooFor(curve)
		ci := rapid.IntRange(0, 1).Draw(rt, "cipher")
		cf := hsgCipher(ci)
		// identities: A and B hold both versions, so every version configuration exists
		swap := rapid.Bool().Draw(rt, "swap")
		ii, ri := z.idents[0], z.idents[1]
		if swap {
			ii, ri = ri, ii
		}
		icfg := rapid.SampledFrom(c06VerCfgs).Draw(rt, "initVers")
		rcfg := rapid.SampledFrom(c06VerCfgs).Draw(rt, "respVers")
		iIdx := c06IdxGen.Draw(rt, "initIndex")
		rIdx := c06IdxGen.Draw(rt, "respIndex")
		if rapid.IntRange(0, 7).Draw(rt, "sameIndex") == 0 {
			rIdx = iIdx
		}
		ver := z.hsgPoolVerifier(nil)
		im, err := hsgNewMachine(icfg.start, z.hsgCreds(ii, icfg.vs, cf), ver, iIdx, true)
		if err != nil {
			rt.Fatalf("initiator NewMachine: %v", err)
		}
		rm, err := hsgNewMachine(rcfg.start, z.hsgCreds(ri, rcfg.vs, cf), ver, rIdx, false)
		if err != nil {
			rt.Fatalf("responder NewMachine: %v", err)
		}
		// a generated prefix in the out buffers exercises the append contract without changing the session
		pre := rapid.SliceOfN(rapid.Byte(), 0, 20).Draw(rt, "outPrefix")
		m1, err := im.Initiate(hsgClone(pre))
		label := fmt.Sprintf("%s/c%d/%s>%s", curve, ci, icfg.name, rcfg.name)
		if err != nil || !bytes.HasPrefix(m1, pre) {
			rt.Fatalf("Initiate: %v", err)
		}
		m1 = m1[len(pre):]
		// The nebula header in front of the Noise message is not authenticated. An on-path party may
		// rewrite its index, counter and reserved bytes; if both sides still complete, they completed
		// over the same session and everything below must hold all the same.
		tamper := func(m []byte, tag string) bool {
			if len(m) < 16 || rapid.IntRange(0, 3).Draw(rt, tag+".tamper") != 0 {
				return false
			}
			switch rapid.IntRange(0, 2).Draw(rt, tag+".field") {
			case 0:
				binary.BigEndian.PutUint64(m[8:16], rapid.SampledFrom([]uint64{0, 1, 2, 3, 7, 8191, 8192, 1 << 40, ^uint64(0)}).Draw(rt, tag+".ctr"))
			case 1:
				binary.BigEndian.PutUint32(m[4:8], rapid.Uint32().Draw(rt, tag+".idx"))
			default:
				m[2], m[3] = rapid.Byte().Draw(rt, tag+".r0"), rapid.Byte().Draw(rt, tag+".r1")
			}
			return true
		}
		tampered := tamper(m1, "m1")
		// Packets that a pending machine rejects while staying usable (too short for a header, another
		// subtype, a cut-off copy of the genuine message) may arrive before the genuine one; a session
		// that still completes must agree on everything below, the message count included.
		rejected := 0
		junk := func(m *Machine, genuine []byte, tag string) bool {
			n := rapid.SampledFrom([]int{0, 0, 0, 1, 2, 3}).Draw(rt, tag+".nRejected")
			for i := 0; i < n; i++ {
				var pkt []byte
				switch rapid.IntRange(0, 2).Draw(rt, tag+".rejKind") {
				case 0:
					pkt = rapid.SliceOfN(rapid.Byte(), 0, 15).Draw(rt, tag+".short")
				case 1:
					pkt = hsgClone(genuine)
					pkt[1] = rapid.ByteRange(1, 255).Draw(rt, tag+".subtype")
				default:
					pkt = hsgClone(genuine[:rapid.IntRange(16, 16+z.dhLen-1).Draw(rt, tag+".cut")])
				}
				out, r, err := m.ProcessPacket(nil, pkt)
				if err == nil || r != nil || out != nil {
					rt.Fatalf("%s: a %d-byte junk packet (%x) was not rejected: out=%v result=%v err=%v", label, len(pkt), pkt, out != nil, r != nil, err)
				}
				if m.Failed() {
					return false
				}
				rejected++
			}
			return true
		}
		if !junk(rm, m1, "m1") {
			c06NotCompleted++
			vk.Case("C06", "nc/"+label, false, "not-completed/responder-failed-on-junk")
			return
		}
		m2, rr, err := rm.ProcessPacket(hsgClone(pre), m1)
		if err != nil || rr == nil {
			c06NotCompleted++
			vk.Case("C06", "nc/"+label, false, "not-completed/responder")
			return
		}
		if !bytes.HasPrefix(m2, pre) {
			rt.Fatalf("responder output lost the caller's prefix")
		}
		m2 = m2[len(pre):]
		tampered = tamper(m2, "m2") || tampered
		if tampered {
			vk.Label("C06", "header-rewritten-in-flight")
		}
		if !junk(im, m2, "m2") {
			c06NotCompleted++
			vk.Case("C06", "nc/"+label, false, "not-completed/initiator-failed-on-junk")
			return
		}
		if rejected > 0 {
			vk.Label("C06", "rejected-packets-before-genuine")
		}
		_, ir, err := im.ProcessPacket(nil, m2)
		if err != nil || ir == nil {
			c06NotCompleted++
			vk.Case("C06", "nc/"+label, false, "not-completed/initiator")
			return
		}
		c06Completed++

		// ---- keys -------------------------------------------------------------------------
		iE, iD, rE, rD := ir.EKey.UnsafeKey(), ir.DKey.UnsafeKey(), rr.EKey.UnsafeKey(), rr.DKey.UnsafeKey()
		if iE != rD {
			rt.Fatalf("%s: initiator sending key != responder receiving key", label)
		}
		if rE != iD {
			rt.Fatalf("%s: responder sending key != initiator receiving key", label)
		}
		if iE == iD || rE == rD {
			rt.Fatalf("%s: one side's sending and receiving keys are equal", label)
		}
		// ---- indexes / counts ----------------------------------------------------------------
		if ir.LocalIndex != iIdx || rr.LocalIndex != rIdx {
			rt.Fatalf("%s: local indexes (%d,%d) are not the allocated ones (%d,%d)", label, ir.LocalIndex, rr.LocalIndex, iIdx, rIdx)
		}
		if ir.LocalIndex == 0 || rr.LocalIndex == 0 {
			rt.Fatalf("%s: zero local index", label)
		}
		if ir.RemoteIndex != rr.LocalIndex || rr.RemoteIndex != ir.LocalIndex {
			rt.Fatalf("%s: indexes not mirrored: init(local=%d remote=%d) resp(local=%d remote=%d)", label, ir.LocalIndex, ir.RemoteIndex, rr.LocalIndex, rr.RemoteIndex)
		}
		if ir.MessageIndex != rr.MessageIndex {
			rt.Fatalf("%s: message counts differ: %d vs %d (%d packets were rejected by still-usable machines before the genuine ones)", label, ir.MessageIndex, rr.MessageIndex, rejected)
		}
		if !ir.Initiator || rr.Initiator {
			rt.Fatalf("%s: Initiator flags wrong", label)
		}
		// ---- data-plane probes (noiseutil wrappers, as newConnectionStateFromResult builds them) ----
		ctr := rapid.OneOf(rapid.Uint64Range(ir.MessageIndex+1, 1<<40), rapid.SampledFrom([]uint64{3, 255, 256, 1 << 32, 1<<32 + 1})).Draw(rt, "counter")
		pt := rapid.SliceOfN(rapid.Byte(), 0, 64).Draw(rt, "plaintext")
		ad := rapid.SliceOfN(rapid.Byte(), 0, 16).Draw(rt, "ad")
		type side struct {
			name   string
			e, d   noiseutil.CipherState
			ek, dk [32]byte
		}
		is := side{"init", noiseutil.NewCipherState(ir.EKey, ir.Cipher), noiseutil.NewCipherState(ir.DKey, ir.Cipher), iE, iD}
		rs := side{"resp", noiseutil.NewCipherState(rr.EKey, rr.Cipher), noiseutil.NewCipherState(rr.DKey, rr.Cipher), rE, rD}
		for _, dir := range [][2]*side{{&is, &rs}, {&rs, &is}} {
			snd, rcv := dir[0], dir[1]
			nb := make([]byte, 12)
			ctx, err := snd.e.EncryptDanger(nil, ad, pt, ctr, nb)
			if err != nil {
				rt.Fatalf("%s: %s encrypt: %v", label, snd.name, err)
			}
			got, err := rcv.d.DecryptDanger(nil, ad, ctx, ctr, nb)
			if err != nil || !bytes.Equal(got, pt) {
				rt.Fatalf("%s: %s->%s data-plane decrypt failed: %v", label, snd.name, rcv.name, err)
			}
			// cross direction and wrong keys must fail
			for _, w := range []struct {
				n string
				c noiseutil.CipherState
			}{{"sender's own receiving key", snd.d}, {"receiver's sending key", rcv.e}} {
				if _, err := w.c.DecryptDanger(nil, ad, ctx, ctr, nb); err == nil {
					rt.Fatalf("%s: %s ciphertext decrypts with the %s", label, snd.name, w.n)
				}
			}
			if _, err := rcv.d.DecryptDanger(nil, ad, ctx, ctr+1, nb); err == nil {
				rt.Fatalf("%s: ciphertext decrypts under a different counter", label)
			}
			// independent reference (Noise transport cipher over the raw key)
			ref, nonce := c06RefAEAD(ci, snd.ek)
			want := ref.Seal(nil, nonce(ctr), pt, ad)
			if !bytes.Equal(want, ctx) {
				rt.Fatalf("%s: %s data-plane ciphertext differs from the Noise transport cipher (cipher %d, counter %d)", label, snd.name, ci, ctr)
			}
			refD, nonceD := c06RefAEAD(ci, rcv.dk)
			if p2, err := refD.Open(nil, nonceD(ctr), ctx, ad); err != nil || !bytes.Equal(p2, pt) {
				rt.Fatalf("%s: reference cipher with the receiver's key cannot open the %s ciphertext", label, snd.name)
			}
			// the noise library's own transport CipherState over the receiver's raw key reads it too
			lib := noise.UnsafeNewCipherState(noise.NewCipherSuite(z.dh, cf, noise.HashSHA256), rcv.dk, ctr)
			if p3, err := lib.Decrypt(nil, ad, ctx); err != nil || !bytes.Equal(p3, pt) {
				rt.Fatalf("%s: flynn/noise CipherState over the receiver's key cannot open the %s data-plane ciphertext: %v", label, snd.name, err)
			}
		}
		neg := "same"
		if ir.MyCert.Version() != icfg.start || rr.MyCert.Version() != rcfg.start {
			neg = "negotiated"
		}
		idxc := "idx-distinct"
		if iIdx == rIdx {
			idxc = "idx-equal"
		}
		vk.Case("C06", fmt.Sprintf("%s/%d/%d/%d/%x", label, iIdx, rIdx, ctr, pt), true, "completed/"+label, neg, idxc,
			fmt.Sprintf("certs/i=v%d,r=v%d", ir.MyCert.Version(), rr.MyCert.Version()))
		if vk.WantSample("C06") {
			vk.Sample("C06", map[string]any{"curve": curve.String(), "cipher": ci, "init": icfg.name, "resp": rcfg.name,
				"initIndex": iIdx, "respIndex": rIdx, "messageIndex": ir.MessageIndex, "counter": ctr})
		}
	})
	if c06Completed == 0 {
		vk.Infra(t, "C06: no generated session completed (%d not completed) - generator starved", c06NotCompleted)
	}
}
