package handshake

// C07 - a rejected handshake message never wedges the handshake.
//
// Differential: a session whose target Machine first receives 1..5 "pre-messages" derived from the
// genuine message (truncations, flips, substituted ephemerals, cross-session messages, forged
// stage-2 messages) and then the genuine message, against a twin session with the same
// configuration that only receives the genuine message.
//   - pre-message rejected and Failed()==false  => the genuine message must complete exactly like
//     in the twin (same peer certificate, keys pairing with the real peer, mirrored indexes);
//   - Failed()==true                            => every later ProcessPacket / Initiate is refused
//     with ErrMachineFailed.
// A pre-message the Machine ACCEPTS (IX does not authenticate message 1, and the nebula header is
// outside the Noise transcript) is not a rejection; such a case ends there.

import (
	"bytes"
	"crypto/ecdh"
	"crypto/rand"
	"errors"
	"fmt"
	"testing"

	"github.com/flynn/noise"
	"github.com/slackhq/nebula/cert"
	"github.com/slackhq/nebula/header"
	"golang.org/x/crypto/curve25519"
	"pgregory.net/rapid"
	"verifkit/vk"
)

const (
	c07KeyInitShort = "initiator-short-after-e"
	c07KeyDH        = "dh-error-no-rollback"
	c07KeyRespShort = "responder-short-after-e"
)

type c07Sess struct {
	z        *hsgZoo
	ci       int
	initTgt  bool // target machine is the initiator (awaiting stage 2); else the responder
	im, rm   *Machine
	m1, m2   []byte  // genuine messages (m2 only known up front when the initiator is the target)
	rr       *Result // responder result (initiator target)
	iv, rv   cert.Version
	ii, ri   *hsgIdent
	allocErr *bool  // while true the responder's index allocator reports an error
	twinFP   string // fingerprint of the peer certificate the twin's target reported
	twinComp bool
}

func (s *c07Sess) target() *Machine {
	if s.initTgt {
		return s.im
	}
	return s.rm
}

func (s *c07Sess) genuine() []byte {
	if s.initTgt {
		return s.m2
	}
	return s.m1
}

// c07New builds a session up to the point where the target awaits the genuine message.
func c07New(z *hsgZoo, ci int, initTgt bool, ii, ri *hsgIdent, iv, rv cert.Version, iIdx, rIdx uint32) (*c07Sess, error) {
	s := &c07Sess{z: z, ci: ci, initTgt: initTgt, iv: iv, rv: rv, ii: ii, ri: ri}
	cf := hsgCipher(ci)
	var err error
	// identities that are not acceptable are adversary-held: they accept whatever they see
	iver, rver := z.hsgPoolVerifier(nil), z.hsgPoolVerifier(nil)
	if ii.adversary {
		iver = hsgAcceptAll
	}
	if ri.adversary {
		rver = hsgAcceptAll
	}
	if s.im, err = hsgNewMachine(iv, z.hsgCreds(ii, ii.versions(), cf), iver, iIdx, true); err != nil {
		return nil, err
	}
	s.allocErr = new(bool)
	ralloc := func() (uint32, error) {
		if *s.allocErr {
			return 0, errors.New("verif: injected index allocation failure")
		}
		return rIdx, nil
	}
	if s.rm, err = NewMachine(rv, z.hsgCreds(ri, ri.versions(), cf), rver, ralloc, false, header.HandshakeIXPSK0); err != nil {
		return nil, err
	}
	if s.m1, err = s.im.Initiate(nil); err != nil {
		return nil, err
	}
	if initTgt {
		if s.m2, s.rr, err = s.rm.ProcessPacket(nil, s.m1); err != nil || s.rr == nil {
			return nil, fmt.Errorf("responder did not complete: %v", err)
		}
	}
	return s, nil
}

// c07Finish delivers the genuine message to the target and checks that the session completes like
// the twin did. It returns a violation text or "".
func (s *c07Sess) c07Finish(history string) string {
	if s.initTgt {
		out, ir, err := s.im.ProcessPacket(nil, s.m2)
		if err != nil || ir == nil {
			return fmt.Sprintf("initiator reported Failed()==false after [%s] but the genuine stage-2 message no longer completes: err=%v result=%v Failed()=%v", history, err, ir != nil, s.im.Failed())
		}
		if out != nil {
			return fmt.Sprintf("initiator produced output on completion after [%s]", history)
		}
		return s.c07Pair(ir, s.rr, history)
	}
	m2, rr, err := s.rm.ProcessPacket(nil, s.m1)
	if err != nil || rr == nil {
		return fmt.Sprintf("responder reported Failed()==false after [%s] but the genuine stage-1 message no longer completes: err=%v result=%v Failed()=%v", history, err, rr != nil, s.rm.Failed())
	}
	if hsgFP(rr.RemoteCert.Certificate) != s.twinFP {
		return fmt.Sprintf("responder after [%s] reports peer certificate %s, twin reported %s", history, hsgFP(rr.RemoteCert.Certificate), s.twinFP)
	}
	_, ir, err := s.im.ProcessPacket(nil, m2)
	if err != nil || ir == nil {
		return fmt.Sprintf("responder reported Failed()==false after [%s] and answered the genuine stage-1 message, but the real initiator cannot complete with that answer (err=%v): the rejected message changed the session", history, err)
	}
	return s.c07Pair(ir, rr, history)
}

func (s *c07Sess) c07Pair(ir, rr *Result, history string) string {
	if s.initTgt && hsgFP(ir.RemoteCert.Certificate) != s.twinFP {
		return fmt.Sprintf("initiator after [%s] reports peer certificate %s, twin reported %s", history, hsgFP(ir.RemoteCert.Certificate), s.twinFP)
	}
	if ir.EKey.UnsafeKey() != rr.DKey.UnsafeKey() || ir.DKey.UnsafeKey() != rr.EKey.UnsafeKey() {
		return fmt.Sprintf("after [%s] the completed keys do not pair with the real peer", history)
	}
	if ir.RemoteIndex != rr.LocalIndex || rr.RemoteIndex != ir.LocalIndex {
		return fmt.Sprintf("after [%s] the indexes are not mirrored", history)
	}
	if ir.MessageIndex != rr.MessageIndex {
		return fmt.Sprintf("after [%s] the two ends report different message counts (%d vs %d); without the rejected messages they agree", history, ir.MessageIndex, rr.MessageIndex)
	}
	return ""
}

// c07Refuses checks the "failed => everything refused" half on machine m.
func c07Refuses(m *Machine, inputs ...[]byte) string {
	for _, in := range inputs {
		out, r, err := m.ProcessPacket(nil, in)
		if !errors.Is(err, ErrMachineFailed) || r != nil || out != nil {
			return fmt.Sprintf("failed machine did not refuse a %d-byte input: out=%v result=%v err=%v", len(in), out != nil, r != nil, err)
		}
	}
	if out, err := m.Initiate(nil); !errors.Is(err, ErrMachineFailed) || out != nil {
		return fmt.Sprintf("failed machine did not refuse Initiate: err=%v", err)
	}
	if !m.Failed() {
		return "Failed() went back to false"
	}
	return ""
}

// c07PointValid tells (with the standard library, independent of noise) whether a DH with public
// value e can succeed on the curve.
func c07PointValid(curve cert.Curve, e []byte) bool {
	if curve == cert.Curve_P256 {
		_, err := ecdh.P256().NewPublicKey(e)
		return err == nil
	}
	if len(e) != 32 {
		return false
	}
	sc := make([]byte, 32)
	sc[0], sc[31] = 8, 0x40
	_, err := curve25519.X25519(sc, e)
	return err == nil
}

type c07Pre struct {
	msg        []byte
	class      string
	badStatic  bool // forged stage-2 whose encrypted static key is an invalid/low-order point
	allocFault bool // delivered while the index allocator fails
}

// c07Known returns the recorded finding class a pre-message falls into (by its INPUT features
// only), or "".
func (s *c07Sess) c07Known(p c07Pre) string {
	n := len(p.msg) - header.Len
	dh := s.z.dhLen
	if len(p.msg) < header.Len || header.MessageSubType(p.msg[1]) != s.target().subtype || n < dh {
		return ""
	}
	e := p.msg[header.Len : header.Len+dh]
	if s.initTgt {
		if !c07PointValid(s.z.curve, e) {
			return c07KeyDH // ee / se fail after E was mixed into the transcript
		}
		if n < 2*dh+16 {
			return c07KeyInitShort
		}
		if p.badStatic {
			return c07KeyDH // es fails after S was decrypted
		}
		return ""
	}
	if n < 2*dh {
		return c07KeyRespShort
	}
	return ""
}

func c07Region(s *c07Sess, l int) string {
	n := l - header.Len
	dh := s.z.dhLen
	sLen := dh
	if s.initTgt {
		sLen = dh + 16
	}
	switch {
	case n < 0:
		return "in-header"
	case n == 0:
		return "header-only"
	case n < dh:
		return "in-E"
	case n < dh+sLen:
		return "after-E"
	default:
		return "after-S"
	}
}

func c07ForgeBadStatic(s *c07Sess, bad []byte) ([]byte, error) {
	_, priv := hsgKeypair(s.z.curve)
	ncs := noise.NewCipherSuite(s.z.dh, hsgCipher(s.ci), noise.HashSHA256)
	hs, err := noise.NewHandshakeState(noise.Config{CipherSuite: ncs, Random: rand.Reader, Pattern: noise.HandshakeIX,
		StaticKeypair: noise.DHKey{Private: priv, Public: bad}, PresharedKey: []byte{}})
	if err != nil {
		return nil, err
	}
	if _, _, _, err = hs.ReadMessage(nil, s.m1[header.Len:]); err != nil {
		return nil, err
	}
	pay := MarshalPayload(nil, Payload{Cert: s.ri.body[s.rv], CertVersion: uint32(s.rv), InitiatorIndex: 1, ResponderIndex: 7, Time: 1})
	out := hsgClone(s.m2[:header.Len])
	out, _, _, err = hs.WriteMessage(out, pay)
	return out, err
}

// c07DrawPre draws one pre-message for the session.
func c07DrawPre(rt *rapid.T, s *c07Sess, other func() *c07Sess) c07Pre {
	g := s.genuine()
	dh := s.z.dhLen
	kinds := []string{"trunc", "trunc", "trunc-edge", "trunc-edge", "flip", "flip", "badE", "badE", "randE", "other-session", "subtype", "counter", "extend", "tiny", "wrong-stage"}
	if s.initTgt {
		kinds = append(kinds, "forged-bad-static", "forged-bad-static", "bad-responder")
	} else {
		kinds = append(kinds, "alloc-fault")
	}
	k := rapid.SampledFrom(kinds).Draw(rt, "preKind")
	switch k {
	case "alloc-fault":
		// the genuine message itself, arriving while the local index allocator reports an error: the
		// message is rejected; if the machine then still calls itself usable the retransmission must work
		return c07Pre{msg: hsgClone(g), class: "alloc-fault", allocFault: true}
	case "trunc":
		l := rapid.IntRange(0, len(g)-1).Draw(rt, "truncLen")
		return c07Pre{msg: hsgClone(g[:l]), class: "trunc/" + c07Region(s, l)}
	case "trunc-edge":
		sLen := dh
		if s.initTgt {
			sLen += 16
		}
		edges := []int{header.Len - 1, header.Len, header.Len + 1, header.Len + dh - 1, header.Len + dh, header.Len + dh + 1,
			header.Len + dh + sLen - 1, header.Len + dh + sLen, header.Len + dh + sLen + 1, header.Len + dh + sLen + 15, header.Len + dh + sLen + 16, len(g) - 1}
		l := rapid.SampledFrom(edges).Draw(rt, "truncEdge")
		if l >= len(g) {
			l = len(g) - 1
		}
		return c07Pre{msg: hsgClone(g[:l]), class: "trunc/" + c07Region(s, l)}
	case "flip":
		pos := rapid.IntRange(0, len(g)-1).Draw(rt, "flipAt")
		if rapid.Bool().Draw(rt, "flipEarly") {
			pos = rapid.IntRange(0, min(len(g)-1, header.Len+2*dh+20)).Draw(rt, "flipAtEarly")
		}
		bit := rapid.IntRange(0, 7).Draw(rt, "flipBit")
		m := hsgClone(g)
		m[pos] ^= 1 << uint(bit)
		return c07Pre{msg: m, class: "flip/" + c07Region(s, pos+1)}
	case "badE":
		e := rapid.SampledFrom(s.z.lowOrds).Draw(rt, "badPoint")
		m := hsgClone(g)
		copy(m[header.Len:], e)
		if rapid.Bool().Draw(rt, "badEShort") {
			m = m[:rapid.IntRange(header.Len+dh, len(m)).Draw(rt, "badELen")]
		}
		return c07Pre{msg: m, class: "badE"}
	case "randE":
		pub, _ := hsgKeypair(s.z.curve)
		m := hsgClone(g)
		copy(m[header.Len:], pub)
		return c07Pre{msg: m, class: "randE"}
	case "other-session":
		o := other()
		if rapid.Bool().Draw(rt, "otherStage2") && o.m2 != nil {
			return c07Pre{msg: hsgClone(o.m2), class: "other-session/stage2"}
		}
		return c07Pre{msg: hsgClone(o.m1), class: "other-session/stage1"}
	case "wrong-stage":
		// the other message of the same session
		if s.initTgt {
			return c07Pre{msg: hsgClone(s.m1), class: "wrong-stage"}
		}
		o := other()
		if o.m2 != nil {
			return c07Pre{msg: hsgClone(o.m2), class: "wrong-stage"}
		}
		return c07Pre{msg: hsgClone(o.m1), class: "other-session/stage1"}
	case "subtype":
		m := hsgClone(g)
		m[1] = rapid.ByteRange(1, 255).Draw(rt, "subtype")
		return c07Pre{msg: m, class: "subtype"}
	case "counter":
		m := hsgClone(g)
		m[header.Len-1] = rapid.Byte().Draw(rt, "counterByte")
		m[4+rapid.IntRange(0, 3).Draw(rt, "indexByte")] ^= rapid.Byte().Draw(rt, "indexXor")
		return c07Pre{msg: m, class: "header-fields"}
	case "extend":
		m := append(hsgClone(g), rapid.SliceOfN(rapid.Byte(), 1, 20).Draw(rt, "extra")...)
		return c07Pre{msg: m, class: "extend"}
	case "tiny":
		return c07Pre{msg: rapid.SliceOfN(rapid.Byte(), 0, header.Len+3).Draw(rt, "tiny"), class: "tiny"}
	case "forged-bad-static":
		bad := rapid.SampledFrom(s.z.lowOrds).Draw(rt, "badStatic")
		m, err := c07ForgeBadStatic(s, bad)
		if err != nil {
			rt.Fatalf("harness: cannot forge stage-2: %v", err)
		}
		return c07Pre{msg: m, class: "forged-bad-static", badStatic: true}
	case "bad-responder":
		// a real stage-2 answer to the same stage-1 message from a responder the initiator must not accept
		var bad []*hsgIdent
		for _, id := range s.z.idents {
			if !id.acceptable {
				bad = append(bad, id)
			}
		}
		id := rapid.SampledFrom(bad).Draw(rt, "badResponder")
		v := rapid.SampledFrom(id.versions()).Draw(rt, "badResponderVersion")
		rm, err := hsgNewMachine(v, s.z.hsgCreds(id, id.versions(), hsgCipher(s.ci)), hsgAcceptAll, 99, false)
		if err != nil {
			rt.Fatalf("harness: %v", err)
		}
		m, _, err := rm.ProcessPacket(nil, s.m1)
		if err != nil {
			rt.Fatalf("harness: adversary responder: %v", err)
		}
		return c07Pre{msg: m, class: "bad-responder/" + id.kind.String()}
	}
	panic("unreachable")
}

// c07Run delivers the pre-messages and then the genuine message; returns (labels, nontrivial, violation).
func c07Run(s *c07Sess, pres []c07Pre) (labels []string, nontrivial bool, violation string) {
	tgt := s.target()
	role := "resp"
	if s.initTgt {
		role = "init"
	}
	dh := s.z.dhLen
	history := ""
	for _, p := range pres {
		if key := s.c07Known(p); key != "" && vk.KnownOpen("C07", key) {
			vk.Excluded("C07", key)
			labels = append(labels, role+"/excluded/"+key)
			continue
		}
		if history != "" {
			history += ", "
		}
		history += fmt.Sprintf("%s(len %d: %x)", p.class, len(p.msg), p.msg)
		in := hsgClone(p.msg)
		*s.allocErr = p.allocFault
		out, r, err := tgt.ProcessPacket(nil, in)
		*s.allocErr = false
		if !bytes.Equal(in, p.msg) {
			return labels, nontrivial, "ProcessPacket modified its input packet"
		}
		switch {
		case r != nil && err == nil:
			// accepted (unauthenticated stage 1, or a header-only modification): not a rejection
			labels = append(labels, role+"/"+p.class+"=accepted")
			return labels, nontrivial, ""
		case err == nil:
			return labels, nontrivial, fmt.Sprintf("[%s]: ProcessPacket returned neither a result nor an error", history)
		}
		if r != nil || out != nil {
			return labels, nontrivial, fmt.Sprintf("[%s]: ProcessPacket returned an error together with output/result", history)
		}
		deep := len(p.msg)-header.Len >= dh && len(p.msg) >= header.Len && header.MessageSubType(p.msg[1]) == tgt.subtype
		if deep {
			nontrivial = true
		}
		if tgt.Failed() {
			labels = append(labels, role+"/"+p.class+"=fatal")
			return labels, nontrivial, c07Prefix(history, c07Refuses(tgt, s.genuine(), p.msg, nil))
		}
		labels = append(labels, role+"/"+p.class+"=rejected-usable")
	}
	v := s.c07Finish(history)
	if v == "" {
		labels = append(labels, role+"/genuine-completed")
		// and a completed machine keeps refusing to fail open: nothing more to assert for C07
	}
	return labels, nontrivial, v
}

func c07Prefix(history, v string) string {
	if v == "" {
		return ""
	}
	return "[" + history + "]: " + v
}

type c07Cfg struct {
	curve   cert.Curve
	ci      int
	initTgt bool
	ii, ri  int
	iv, rv  cert.Version
}

func c07DrawCfg(rt *rapid.T) c07Cfg {
	c := c07Cfg{}
	c.curve = rapid.SampledFrom([]cert.Curve{cert.Curve_CURVE25519, cert.Curve_P256}).Draw(rt, "curve")
	c.ci = rapid.IntRange(0, 1).Draw(rt, "cipher")
	c.initTgt = rapid.Bool().Draw(rt, "targetIsInitiator")
	c.ii = rapid.IntRange(0, 1).Draw(rt, "initIdent")
	c.ri = 1 - c.ii
	c.iv = rapid.SampledFrom([]cert.Version{cert.Version1, cert.Version2}).Draw(rt, "initVersion")
	c.rv = rapid.SampledFrom([]cert.Version{cert.Version1, cert.Version2}).Draw(rt, "respVersion")
	return c
}

func (c c07Cfg) String() string {
	t := "resp"
	if c.initTgt {
		t = "init"
	}
	return fmt.Sprintf("%s/c%d/%s/v%d>v%d", c.curve, c.ci, t, c.iv, c.rv)
}

// c07Twin runs the twin (genuine message only) and returns the peer fingerprint its target reported.
func c07Twin(c c07Cfg) (string, error) {
	z := hsgZooFor(c.curve)
	s, err := c07New(z, c.ci, c.initTgt, z.idents[c.ii], z.idents[c.ri], c.iv, c.rv, 11, 22)
	if err != nil {
		return "", err
	}
	if c.initTgt {
		_, ir, err := s.im.ProcessPacket(nil, s.m2)
		if err != nil || ir == nil {
			return "", fmt.Errorf("twin initiator: %v", err)
		}
		return hsgFP(ir.RemoteCert.Certificate), nil
	}
	m2, rr, err := s.rm.ProcessPacket(nil, s.m1)
	if err != nil || rr == nil {
		return "", fmt.Errorf("twin responder: %v", err)
	}
	if _, ir, err := s.im.ProcessPacket(nil, m2); err != nil || ir == nil {
		return "", fmt.Errorf("twin initiator: %v", err)
	}
	return hsgFP(rr.RemoteCert.Certificate), nil
}

func c07Session(c c07Cfg, iIdx, rIdx uint32) (*c07Sess, error) {
	fp, err := c07Twin(c)
	if err != nil {
		return nil, err
	}
	return c07SessionFP(c, fp, iIdx, rIdx)
}

func c07SessionFP(c c07Cfg, fp string, iIdx, rIdx uint32) (*c07Sess, error) {
	z := hsgZooFor(c.curve)
	s, err := c07New(z, c.ci, c.initTgt, z.idents[c.ii], z.idents[c.ri], c.iv, c.rv, iIdx, rIdx)
	if err != nil {
		return nil, err
	}
	s.twinFP = fp
	return s, nil
}

func TestC07_PreMessagesThenGenuine(t *testing.T) {
	vk.Check(t, 2500, func(rt *rapid.T) {
		c := c07DrawCfg(rt)
		s, err := c07Session(c, c07IdxGen.Draw(rt, "initIndex"), c07IdxGen.Draw(rt, "respIndex"))
		if err != nil {
			rt.Fatalf("harness: honest twin/session does not complete (%s): %v", c, err)
		}
		var oth *c07Sess
		other := func() *c07Sess {
			if oth == nil {
				z := s.z
				// another session of other parties on the same curve/cipher, both messages available
				o, err := c07New(z, c.ci, true, z.idents[2+c.ii], z.idents[4], z.idents[2+c.ii].versions()[0], cert.Version2, 5, 6)
				if err != nil {
					rt.Fatalf("harness: other session: %v", err)
				}
				oth = o
			}
			return oth
		}
		n := rapid.IntRange(1, 5).Draw(rt, "nPre")
		if rapid.IntRange(0, 2).Draw(rt, "single") > 0 {
			n = 1
		}
		var pres []c07Pre
		for i := 0; i < n; i++ {
			pres = append(pres, c07DrawPre(rt, s, other))
		}
		labels, nt, viol := c07Run(s, pres)
		if viol != "" {
			rt.Fatalf("%s: %s", c, viol)
		}
		key := c.String()
		for _, p := range pres {
			key += fmt.Sprintf("|%s:%d", p.class, len(p.msg))
		}
		vk.Case("C07", key, nt, append(labels, "cfg/"+c.String())...)
		if vk.WantSample("C07") && nt {
			var d []string
			for _, p := range pres {
				d = append(d, fmt.Sprintf("%s len=%d", p.class, len(p.msg)))
			}
			vk.Sample("C07", map[string]any{"config": c.String(), "pre": d, "outcome": labels})
		}
	})
}

var c07IdxGen = rapid.Uint32Range(1, 0xffffffff)

// every truncation length of the genuine message as the single pre-message, for every
// (curve, cipher, target): a finite space enumerated completely.
func TestC07_TruncationSweep(t *testing.T) {
	defer vk.Flush()
	total := 0
	for _, curve := range []cert.Curve{cert.Curve_CURVE25519, cert.Curve_P256} {
		for ci := 0; ci < 2; ci++ {
			for _, initTgt := range []bool{true, false} {
				c := c07Cfg{curve: curve, ci: ci, initTgt: initTgt, ii: 0, ri: 1, iv: cert.Version2, rv: cert.Version2}
				probe, err := c07Session(c, 3, 4)
				if err != nil {
					t.Fatalf("harness: %v", err)
				}
				glen := len(probe.genuine())
				for l := 0; l < glen; l++ {
					s, err := c07SessionFP(c, probe.twinFP, 3, 4)
					if err != nil {
						t.Fatalf("harness: %v", err)
					}
					if len(s.genuine()) != glen {
						// message length is a function of the configuration only
						t.Fatalf("harness: genuine length varies (%d vs %d)", len(s.genuine()), glen)
					}
					p := c07Pre{msg: hsgClone(s.genuine()[:l]), class: "trunc/" + c07Region(s, l)}
					labels, nt, viol := c07Run(s, []c07Pre{p})
					if viol != "" {
						t.Fatalf("%s truncation to %d of %d bytes: %s", c, l, glen, viol)
					}
					for i := range labels {
						labels[i] = "sweep/" + labels[i]
					}
					vk.Case("C07", fmt.Sprintf("sweep/%s/%d", c, l), nt, labels...)
					total++
				}
			}
		}
	}
	vk.SetExhaustive("C07")
	vk.Note("C07", fmt.Sprintf("truncation-length sweep: every prefix length of the genuine message for 2 curves x 2 ciphers x {initiator,responder} (%d sessions)", total))
}

// ---- probes for the recorded findings -------------------------------------------------------------

func c07Probe(t *testing.T, key string, build func(s *c07Sess) c07Pre, initTgt bool) {
	defer vk.Flush()
	reproduced := ""
	for _, curve := range []cert.Curve{cert.Curve_CURVE25519, cert.Curve_P256} {
		c := c07Cfg{curve: curve, ci: 0, initTgt: initTgt, ii: 0, ri: 1, iv: cert.Version2, rv: cert.Version2}
		s, err := c07Session(c, 3, 4)
		if err != nil {
			t.Fatalf("harness: %v", err)
		}
		p := build(s)
		if got := s.c07Known(p); got != key {
			t.Fatalf("harness: probe input classified %q, want %q", got, key)
		}
		tgt := s.target()
		_, r, err := tgt.ProcessPacket(nil, hsgClone(p.msg))
		if r != nil || err == nil || tgt.Failed() {
			continue // accepted, or rejected fatally: the contract holds for this input
		}
		if v := s.c07Finish(fmt.Sprintf("%s(len %d)", p.class, len(p.msg))); v != "" {
			reproduced = fmt.Sprintf("%s: %s", c, v)
		}
	}
	if reproduced == "" {
		return
	}
	if vk.KnownOpen("C07", key) {
		vk.ReportKnown("C07", key)
		return
	}
	t.Fatalf("C07 %s: %s", key, reproduced)
}

func TestC07_Probe_initiator_short_after_e(t *testing.T) {
	c07Probe(t, c07KeyInitShort, func(s *c07Sess) c07Pre {
		return c07Pre{msg: hsgClone(s.m2[:header.Len+s.z.dhLen]), class: "trunc/after-E"}
	}, true)
}

func TestC07_Probe_dh_error_no_rollback(t *testing.T) {
	c07Probe(t, c07KeyDH, func(s *c07Sess) c07Pre {
		m := hsgClone(s.m2)
		copy(m[header.Len:], s.z.lowOrds[0])
		return c07Pre{msg: m, class: "badE"}
	}, true)
}

func TestC07_Probe_responder_short_after_e(t *testing.T) {
	c07Probe(t, c07KeyRespShort, func(s *c07Sess) c07Pre {
		return c07Pre{msg: hsgClone(s.m1[:header.Len+s.z.dhLen]), class: "trunc/after-E"}
	}, false)
}
