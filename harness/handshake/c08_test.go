package handshake

// C08 - handshake payload encoding is lossless and wire-compatible.
//
// References, all independent of payload.go:
//   - the official protobuf runtime (descriptorpb + protodesc + dynamicpb + proto.Marshal/Unmarshal)
//     interpreting the schema parsed out of handshake/handshake.proto (a tiny line parser, so a
//     change of the schema is noticed);
//   - a hand-written wire walker (no protowire) that classifies byte strings: "a field of the
//     decoded payload carries the wrong wire type" / "uint32 field above 2^32-1" -> must be rejected.
//
// Interpretation of "known fields": the five fields of the decoded Payload (Details 1,2,3,5,8).
// The deprecated Cookie (4), Hmac and a Details field with a non-bytes wire type are skipped by the
// schema reader and by payload.go alike; for those only "read identically" is asserted.

import (
	"bytes"
	"fmt"
	"math"
	"os"
	"path/filepath"
	"regexp"
	"strconv"
	"strings"
	"sync"
	"testing"

	"google.golang.org/protobuf/proto"
	"google.golang.org/protobuf/reflect/protodesc"
	"google.golang.org/protobuf/reflect/protoreflect"
	"google.golang.org/protobuf/types/descriptorpb"
	"google.golang.org/protobuf/types/dynamicpb"
	"pgregory.net/rapid"
	"verifkit/vk"
)

// ---- schema --------------------------------------------------------------------------------

type c08Field struct {
	Msg, Type, Name string
	Num             int
	Deprecated      bool
}

type c08SchemaT struct {
	fields   []c08Field
	reserved map[string][]int
	pkg      string
	top, det protoreflect.MessageDescriptor
	fDetails, fHmac,
	fCert, fInit, fResp, fCookie, fTime, fVer protoreflect.FieldDescriptor
	err error
}

var (
	c08SchemaOnce sync.Once
	c08Schema     c08SchemaT
)

// the field table this harness was written against; a parsed schema that differs is reported as
// inconclusive (the harness has to be re-read against the new wire format), never as a pass.
var c08Expected = []c08Field{
	{"NebulaHandshake", "NebulaHandshakeDetails", "Details", 1, false},
	{"NebulaHandshake", "bytes", "Hmac", 2, false},
	{"NebulaHandshakeDetails", "bytes", "Cert", 1, false},
	{"NebulaHandshakeDetails", "uint32", "InitiatorIndex", 2, false},
	{"NebulaHandshakeDetails", "uint32", "ResponderIndex", 3, false},
	{"NebulaHandshakeDetails", "uint64", "Cookie", 4, true},
	{"NebulaHandshakeDetails", "uint64", "Time", 5, false},
	{"NebulaHandshakeDetails", "uint32", "CertVersion", 8, false},
}

func c08ProtoPath() string {
	repo := os.Getenv("VERIF_REPO")
	if repo == "" {
		repo = "/repo"
	}
	return filepath.Join(repo, "handshake", "handshake.proto")
}

func c08LoadSchema() *c08SchemaT {
	c08SchemaOnce.Do(func() {
		s := &c08Schema
		s.reserved = map[string][]int{}
		raw, err := os.ReadFile(c08ProtoPath())
		if err != nil {
			s.err = err
			return
		}
		reMsg := regexp.MustCompile(`^message\s+(\w+)\s*\{$`)
		reField := regexp.MustCompile(`^(\w+)\s+(\w+)\s*=\s*(\d+)\s*(\[[^\]]*\])?\s*;$`)
		reRes := regexp.MustCompile(`^reserved\s+([0-9,\s]+);$`)
		rePkg := regexp.MustCompile(`^package\s+([\w.]+)\s*;$`)
		cur := ""
		for _, line := range strings.Split(string(raw), "\n") {
			if i := strings.Index(line, "//"); i >= 0 {
				line = line[:i]
			}
			line = strings.TrimSpace(line)
			switch {
			case line == "" || strings.HasPrefix(line, "syntax"):
			case rePkg.MatchString(line):
				s.pkg = rePkg.FindStringSubmatch(line)[1]
			case reMsg.MatchString(line):
				cur = reMsg.FindStringSubmatch(line)[1]
			case line == "}":
				cur = ""
			case reRes.MatchString(line) && cur != "":
				for _, x := range strings.Split(reRes.FindStringSubmatch(line)[1], ",") {
					n, _ := strconv.Atoi(strings.TrimSpace(x))
					s.reserved[cur] = append(s.reserved[cur], n)
				}
			case reField.MatchString(line) && cur != "":
				m := reField.FindStringSubmatch(line)
				n, _ := strconv.Atoi(m[3])
				s.fields = append(s.fields, c08Field{Msg: cur, Type: m[1], Name: m[2], Num: n, Deprecated: strings.Contains(m[4], "deprecated") && strings.Contains(m[4], "true")})
			default:
				s.err = fmt.Errorf("handshake.proto: line not understood: %q", line)
				return
			}
		}
		// descriptor
		fdp := &descriptorpb.FileDescriptorProto{Name: proto.String("handshake.proto"), Package: proto.String(s.pkg), Syntax: proto.String("proto3")}
		msgs := map[string]*descriptorpb.DescriptorProto{}
		var order []string
		for _, f := range s.fields {
			dp := msgs[f.Msg]
			if dp == nil {
				dp = &descriptorpb.DescriptorProto{Name: proto.String(f.Msg)}
				msgs[f.Msg] = dp
				order = append(order, f.Msg)
			}
			fp := &descriptorpb.FieldDescriptorProto{Name: proto.String(f.Name), Number: proto.Int32(int32(f.Num)),
				Label: descriptorpb.FieldDescriptorProto_LABEL_OPTIONAL.Enum()}
			switch f.Type {
			case "bytes":
				fp.Type = descriptorpb.FieldDescriptorProto_TYPE_BYTES.Enum()
			case "uint32":
				fp.Type = descriptorpb.FieldDescriptorProto_TYPE_UINT32.Enum()
			case "uint64":
				fp.Type = descriptorpb.FieldDescriptorProto_TYPE_UINT64.Enum()
			default:
				fp.Type = descriptorpb.FieldDescriptorProto_TYPE_MESSAGE.Enum()
				fp.TypeName = proto.String("." + s.pkg + "." + f.Type)
			}
			if f.Deprecated {
				fp.Options = &descriptorpb.FieldOptions{Deprecated: proto.Bool(true)}
			}
			dp.Field = append(dp.Field, fp)
		}
		for _, name := range order {
			for _, r := range s.reserved[name] {
				msgs[name].ReservedRange = append(msgs[name].ReservedRange, &descriptorpb.DescriptorProto_ReservedRange{Start: proto.Int32(int32(r)), End: proto.Int32(int32(r + 1))})
			}
			fdp.MessageType = append(fdp.MessageType, msgs[name])
		}
		fd, err := protodesc.NewFile(fdp, nil)
		if err != nil {
			s.err = fmt.Errorf("protodesc: %w", err)
			return
		}
		s.top = fd.Messages().ByName("NebulaHandshake")
		s.det = fd.Messages().ByName("NebulaHandshakeDetails")
		if s.top == nil || s.det == nil {
			s.err = fmt.Errorf("schema lacks NebulaHandshake / NebulaHandshakeDetails")
			return
		}
		s.fDetails, s.fHmac = s.top.Fields().ByName("Details"), s.top.Fields().ByName("Hmac")
		df := s.det.Fields()
		s.fCert, s.fInit, s.fResp, s.fCookie, s.fTime, s.fVer = df.ByName("Cert"), df.ByName("InitiatorIndex"), df.ByName("ResponderIndex"), df.ByName("Cookie"), df.ByName("Time"), df.ByName("CertVersion")
		if len(s.fields) != len(c08Expected) {
			s.err = fmt.Errorf("schema drift: %d fields in handshake.proto, harness written against %d", len(s.fields), len(c08Expected))
			return
		}
		for i, f := range s.fields {
			if f != c08Expected[i] {
				s.err = fmt.Errorf("schema drift: field %+v, harness written against %+v", f, c08Expected[i])
				return
			}
		}
		if fmt.Sprint(s.reserved["NebulaHandshakeDetails"]) != "[6 7]" {
			s.err = fmt.Errorf("schema drift: reserved %v", s.reserved)
		}
	})
	return &c08Schema
}

func c08MustSchema(t testing.TB) *c08SchemaT {
	s := c08LoadSchema()
	if s.err != nil {
		vk.Infra(t, "C08: cannot use handshake.proto as the reference schema: %v", s.err)
	}
	return s
}

// c08RefRead reads b with the official runtime under the schema.
func (s *c08SchemaT) c08RefRead(b []byte) (Payload, *dynamicpb.Message, error) {
	msg := dynamicpb.NewMessage(s.top)
	if err := proto.Unmarshal(b, msg); err != nil {
		return Payload{}, nil, err
	}
	var p Payload
	if msg.Has(s.fDetails) {
		d := msg.Get(s.fDetails).Message()
		p.Cert = d.Get(s.fCert).Bytes()
		p.InitiatorIndex = uint32(d.Get(s.fInit).Uint())
		p.ResponderIndex = uint32(d.Get(s.fResp).Uint())
		p.Time = d.Get(s.fTime).Uint()
		p.CertVersion = uint32(d.Get(s.fVer).Uint())
	}
	return p, msg, nil
}

func c08Eq(a, b Payload) bool {
	return bytes.Equal(a.Cert, b.Cert) && a.InitiatorIndex == b.InitiatorIndex && a.ResponderIndex == b.ResponderIndex &&
		a.Time == b.Time && a.CertVersion == b.CertVersion
}

// ---- independent wire walker ---------------------------------------------------------------

type c08Walk struct {
	malformed  bool
	mustReject string // reason, "" if none
	p          Payload
	extras     bool // unknown field, Cookie/Hmac, or a repeated occurrence of a singular field
}

func c08Varint(b []byte) (uint64, int) {
	var v uint64
	for i := 0; i < len(b) && i < 10; i++ {
		c := b[i]
		if i == 9 && c > 1 {
			return 0, -1
		}
		v |= uint64(c&0x7f) << (7 * uint(i))
		if c < 0x80 {
			return v, i + 1
		}
	}
	return 0, -1
}

func c08Tag(b []byte) (num uint64, typ int, n int) {
	v, n := c08Varint(b)
	if n < 0 {
		return 0, 0, -1
	}
	num = v >> 3
	if num == 0 || num > 1<<29-1 {
		return 0, 0, -1
	}
	return num, int(v & 7), n
}

// c08Skip returns the length of a field value of the given wire type, or -1.
func c08Skip(num uint64, typ int, b []byte, depth int) int {
	switch typ {
	case 0:
		_, n := c08Varint(b)
		return n
	case 1:
		if len(b) < 8 {
			return -1
		}
		return 8
	case 5:
		if len(b) < 4 {
			return -1
		}
		return 4
	case 2:
		l, n := c08Varint(b)
		if n < 0 || l > uint64(len(b)-n) {
			return -1
		}
		return n + int(l)
	case 3:
		if depth > 64 {
			return -1
		}
		off := 0
		for {
			n2, t2, n := c08Tag(b[off:])
			if n < 0 {
				return -1
			}
			off += n
			if t2 == 4 {
				if n2 != num {
					return -1
				}
				return off
			}
			m := c08Skip(n2, t2, b[off:], depth+1)
			if m < 0 {
				return -1
			}
			off += m
		}
	}
	return -1
}

func c08WalkBytes(b []byte) c08Walk {
	var w c08Walk
	seenTop := false
	for len(b) > 0 {
		num, typ, n := c08Tag(b)
		if n < 0 {
			w.malformed = true
			return w
		}
		b = b[n:]
		if num == 1 && typ == 2 {
			l, n := c08Varint(b)
			if n < 0 || l > uint64(len(b)-n) {
				w.malformed = true
				return w
			}
			if seenTop {
				w.extras = true
			}
			seenTop = true
			c08WalkDetails(&w, b[n:n+int(l)])
			if w.malformed || w.mustReject != "" {
				return w
			}
			b = b[n+int(l):]
			continue
		}
		w.extras = true
		m := c08Skip(num, typ, b, 0)
		if m < 0 {
			w.malformed = true
			return w
		}
		b = b[m:]
	}
	return w
}

func c08WalkDetails(w *c08Walk, b []byte) {
	seen := map[uint64]bool{}
	for len(b) > 0 {
		num, typ, n := c08Tag(b)
		if n < 0 {
			w.malformed = true
			return
		}
		b = b[n:]
		want := -1
		switch num {
		case 1:
			want = 2
		case 2, 3, 5, 8:
			want = 0
		}
		if want >= 0 {
			if typ != want {
				w.mustReject = fmt.Sprintf("wiretype/field%d/type%d", num, typ)
				return
			}
			if seen[num] {
				w.extras = true
			}
			seen[num] = true
			if want == 2 {
				l, n := c08Varint(b)
				if n < 0 || l > uint64(len(b)-n) {
					w.malformed = true
					return
				}
				w.p.Cert = append([]byte(nil), b[n:n+int(l)]...)
				b = b[n+int(l):]
				continue
			}
			v, n := c08Varint(b)
			if n < 0 {
				w.malformed = true
				return
			}
			if num != 5 && v > math.MaxUint32 {
				w.mustReject = fmt.Sprintf("range/field%d", num)
				return
			}
			switch num {
			case 2:
				w.p.InitiatorIndex = uint32(v)
			case 3:
				w.p.ResponderIndex = uint32(v)
			case 5:
				w.p.Time = v
			case 8:
				w.p.CertVersion = uint32(v)
			}
			b = b[n:]
			continue
		}
		w.extras = true
		m := c08Skip(num, typ, b, 0)
		if m < 0 {
			w.malformed = true
			return
		}
		b = b[m:]
	}
}

// ---- the oracle over one byte string ---------------------------------------------------------

type c08Verdict struct {
	class    string
	extras   bool
	accepted bool
	p        Payload
}

// c08CheckBytes decodes b with payload.go and with both references; it returns a non-empty
// violation text when the property is broken. harness is non-empty when the two references
// contradict each other (a harness problem, not a verdict about the code).
func c08CheckBytes(s *c08SchemaT, b []byte) (v c08Verdict, violation, harness string) {
	in := append([]byte(nil), b...)
	var got Payload
	var err error
	func() {
		defer func() {
			if r := recover(); r != nil {
				violation = fmt.Sprintf("UnmarshalPayload(%x) panicked: %v", b, r)
			}
		}()
		got, err = UnmarshalPayload(in)
	}()
	if violation != "" {
		return
	}
	if !bytes.Equal(in, b) {
		violation = fmt.Sprintf("UnmarshalPayload modified its input %x", b)
		return
	}
	v.accepted, v.p = err == nil, got
	w := c08WalkBytes(b)
	ref, _, rerr := s.c08RefRead(b)
	v.extras = w.extras
	switch {
	case w.mustReject != "":
		v.class = "must-reject/" + w.mustReject
		if err == nil {
			violation = fmt.Sprintf("UnmarshalPayload(%x) accepted a message that must be rejected (%s): %+v", b, w.mustReject, got)
		}
	case w.malformed:
		v.class = "malformed"
		if rerr == nil {
			harness = fmt.Sprintf("walker calls %x malformed, the protobuf runtime reads it", b)
		}
		if err == nil {
			v.class = "malformed/accepted-by-payload.go"
		}
	default:
		v.class = "well-formed"
		if rerr != nil {
			harness = fmt.Sprintf("walker calls %x well-formed, the protobuf runtime rejects it: %v", b, rerr)
			return
		}
		if !c08Eq(ref, w.p) {
			harness = fmt.Sprintf("walker and protobuf runtime read %x differently: %+v vs %+v", b, w.p, ref)
			return
		}
		if err != nil {
			violation = fmt.Sprintf("UnmarshalPayload(%x) rejected a well-formed schema message (%v); the schema reads %+v", b, err, ref)
		} else if !c08Eq(got, ref) {
			violation = fmt.Sprintf("UnmarshalPayload(%x) = %+v, the schema reads %+v", b, got, ref)
		}
	}
	return
}

// ---- generators --------------------------------------------------------------------------------

var (
	c08Edge32 = rapid.OneOf(rapid.Uint32(), rapid.SampledFrom([]uint32{0, 1, 0x7f, 0x80, 0x3fff, 0x4000, 0x1fffff, 0x200000, 0xfffffff, 0x10000000, 0x7fffffff, 0x80000000, 0xffffffff}))
	c08Edge64 = rapid.OneOf(rapid.Uint64(), rapid.SampledFrom([]uint64{0, 1, 0x7f, 0x80, 0xffffffff, 0x100000000, 0x100000001, 1<<56 - 1, 1 << 56, 1<<63 - 1, 1 << 63, ^uint64(0)}))
)

func c08CertGen() *rapid.Generator[[]byte] {
	return rapid.Custom(func(rt *rapid.T) []byte {
		var n int
		switch rapid.IntRange(0, 9).Draw(rt, "certClass") {
		case 0:
			n = 0
		case 1:
			n = rapid.SampledFrom([]int{1, 127, 128, 129, 255, 256, 4095, 4096}).Draw(rt, "certLenEdge")
		case 2:
			n = rapid.IntRange(300, 4096).Draw(rt, "certLenBig")
		default:
			n = rapid.IntRange(1, 200).Draw(rt, "certLen")
		}
		if n == 0 {
			if rapid.Bool().Draw(rt, "nilCert") {
				return nil
			}
			return []byte{}
		}
		if n > 300 {
			// long bodies: one drawn seed byte expanded (content is opaque to the codec)
			seed := rapid.Byte().Draw(rt, "certSeed")
			b := make([]byte, n)
			for i := range b {
				b[i] = seed + byte(i*7)
			}
			return b
		}
		return rapid.SliceOfN(rapid.Byte(), n, n).Draw(rt, "cert")
	})
}

func c08PayloadGen() *rapid.Generator[Payload] {
	return rapid.Custom(func(rt *rapid.T) Payload {
		return Payload{
			Cert:           c08CertGen().Draw(rt, "Cert"),
			InitiatorIndex: c08Edge32.Draw(rt, "InitiatorIndex"),
			ResponderIndex: c08Edge32.Draw(rt, "ResponderIndex"),
			Time:           c08Edge64.Draw(rt, "Time"),
			CertVersion:    c08Edge32.Draw(rt, "CertVersion"),
		}
	})
}

func c08NonZero(p Payload) int {
	n := 0
	if len(p.Cert) > 0 {
		n++
	}
	for _, x := range []bool{p.InitiatorIndex != 0, p.ResponderIndex != 0, p.Time != 0, p.CertVersion != 0} {
		if x {
			n++
		}
	}
	return n
}

func c08AppendVarint(b []byte, v uint64, pad int) []byte {
	// pad > 0 produces a non-canonical (over-long) encoding of the same value
	for v >= 0x80 {
		b = append(b, byte(v)|0x80)
		v >>= 7
	}
	if pad == 0 {
		return append(b, byte(v))
	}
	b = append(b, byte(v)|0x80)
	for i := 1; i < pad; i++ {
		b = append(b, 0x80)
	}
	return append(b, 0)
}

// c08RawField draws one wire-level field (tag + value) with a freely chosen wire type.
func c08RawField(rt *rapid.T, nums []uint64, depth int) (out []byte, desc string) {
	num := rapid.SampledFrom(nums).Draw(rt, "num")
	typ := rapid.SampledFrom([]int{0, 0, 0, 2, 2, 1, 5, 3}).Draw(rt, "wtype")
	if depth > 1 && typ == 3 {
		typ = 0
	}
	out = c08AppendVarint(out, num<<3|uint64(typ), 0)
	switch typ {
	case 0:
		v := c08Edge64.Draw(rt, "varint")
		if rapid.IntRange(0, 2).Draw(rt, "fit32") > 0 {
			v &= 0xffffffff
		}
		pad := 0
		if rapid.IntRange(0, 5).Draw(rt, "overlong") == 0 {
			pad = rapid.IntRange(1, 3).Draw(rt, "pad")
		}
		enc := c08AppendVarint(nil, v, pad)
		if len(enc) > 10 {
			enc = c08AppendVarint(nil, v, 0)
		}
		out = append(out, enc...)
	case 1:
		out = append(out, rapid.SliceOfN(rapid.Byte(), 8, 8).Draw(rt, "fixed64")...)
	case 5:
		out = append(out, rapid.SliceOfN(rapid.Byte(), 4, 4).Draw(rt, "fixed32")...)
	case 2:
		v := rapid.SliceOfN(rapid.Byte(), 0, 12).Draw(rt, "bytes")
		out = c08AppendVarint(out, uint64(len(v)), 0)
		out = append(out, v...)
	case 3:
		k := rapid.IntRange(0, 2).Draw(rt, "groupFields")
		for i := 0; i < k; i++ {
			f, _ := c08RawField(rt, []uint64{1, 2, 9, 31}, depth+1)
			out = append(out, f...)
		}
		out = c08AppendVarint(out, num<<3|4, 0)
	}
	return out, fmt.Sprintf("%d:%d", num, typ)
}

// ---- tests ---------------------------------------------------------------------------------------

func TestC08_RoundTripAndSchemaRead(t *testing.T) {
	s := c08MustSchema(t)
	vk.Check(t, 12000, func(rt *rapid.T) {
		p := c08PayloadGen().Draw(rt, "payload")
		prefix := rapid.SliceOfN(rapid.Byte(), 0, 8).Draw(rt, "outPrefix")
		certIn := append([]byte(nil), p.Cert...)
		full := MarshalPayload(append([]byte(nil), prefix...), p)
		enc := MarshalPayload(nil, p)
		if !bytes.Equal(p.Cert, certIn) {
			rt.Fatalf("MarshalPayload modified the certificate bytes of its argument")
		}
		if !bytes.HasPrefix(full, prefix) || !bytes.Equal(full[len(prefix):], enc) {
			rt.Fatalf("MarshalPayload(out=%x, %+v) = %x, but MarshalPayload(nil, p) = %x", prefix, p, full, enc)
		}
		// (1) lossless
		back, err := UnmarshalPayload(enc)
		if err != nil {
			rt.Fatalf("UnmarshalPayload(MarshalPayload(%+v)) failed: %v (encoding %x)", p, err, enc)
		}
		if !c08Eq(back, p) {
			rt.Fatalf("round trip changed the payload: in %+v out %+v (encoding %x)", p, back, enc)
		}
		// (2) the schema reads the same five fields and nothing else
		ref, msg, err := s.c08RefRead(enc)
		if err != nil {
			rt.Fatalf("the protobuf runtime rejects MarshalPayload(%+v) = %x: %v", p, enc, err)
		}
		if !c08Eq(ref, p) {
			rt.Fatalf("the schema reads MarshalPayload(%+v) = %x as %+v", p, enc, ref)
		}
		if len(msg.GetUnknown()) != 0 || (msg.Has(s.fDetails) && len(msg.Get(s.fDetails).Message().GetUnknown()) != 0) {
			rt.Fatalf("MarshalPayload(%+v) = %x contains fields unknown to the schema", p, enc)
		}
		if msg.Has(s.fHmac) || (msg.Has(s.fDetails) && msg.Get(s.fDetails).Message().Has(s.fCookie)) {
			rt.Fatalf("MarshalPayload(%+v) = %x sets Hmac or Cookie", p, enc)
		}
		// the general oracle as well (walker + differential)
		if _, viol, har := c08CheckBytes(s, enc); viol != "" {
			rt.Fatalf("%s", viol)
		} else if har != "" {
			c08Harness(rt, har)
		}
		nz := c08NonZero(p)
		vk.Case("C08", fmt.Sprintf("rt/%x", enc), nz >= 3, "roundtrip", fmt.Sprintf("roundtrip/nonzero=%d", nz))
		if vk.WantSample("C08") && nz >= 3 && len(p.Cert) < 40 {
			vk.Sample("C08", map[string]any{"kind": "roundtrip", "payload": fmt.Sprintf("%+v", p), "encoding": fmt.Sprintf("%x", enc)})
		}
	})
}

// schema writer -> payload.go reader: messages produced by the official runtime from generated
// dynamic messages, with unknown fields, the deprecated Cookie, Hmac, and repeated occurrences of
// singular fields (concatenated encodings: last one wins, embedded messages merge).
func TestC08_SchemaWriterToPayloadReader(t *testing.T) {
	s := c08MustSchema(t)
	vk.Check(t, 8000, func(rt *rapid.T) {
		parts := rapid.IntRange(1, 3).Draw(rt, "parts")
		var enc []byte
		var labels []string
		for k := 0; k < parts; k++ {
			msg := dynamicpb.NewMessage(s.top)
			if rapid.IntRange(0, 9).Draw(rt, "hasDetails") > 0 {
				d := dynamicpb.NewMessage(s.det)
				p := c08PayloadGen().Draw(rt, "fields")
				mask := rapid.IntRange(0, 63).Draw(rt, "presence")
				if mask&1 != 0 && len(p.Cert) > 0 {
					d.Set(s.fCert, protoreflect.ValueOfBytes(p.Cert))
				}
				if mask&2 != 0 {
					d.Set(s.fInit, protoreflect.ValueOfUint32(p.InitiatorIndex))
				}
				if mask&4 != 0 {
					d.Set(s.fResp, protoreflect.ValueOfUint32(p.ResponderIndex))
				}
				if mask&8 != 0 {
					d.Set(s.fTime, protoreflect.ValueOfUint64(p.Time))
				}
				if mask&16 != 0 {
					d.Set(s.fVer, protoreflect.ValueOfUint32(p.CertVersion))
				}
				if mask&32 != 0 {
					d.Set(s.fCookie, protoreflect.ValueOfUint64(c08Edge64.Draw(rt, "cookie")))
					labels = append(labels, "schema/cookie")
				}
				if rapid.IntRange(0, 2).Draw(rt, "detUnknown") == 0 {
					var unk []byte
					for i := rapid.IntRange(1, 3).Draw(rt, "nUnknown"); i > 0; i-- {
						f, _ := c08RawField(rt, []uint64{6, 7, 9, 15, 16, 2047, 2048, 1<<29 - 1}, 0)
						unk = append(unk, f...)
					}
					d.SetUnknown(unk)
					labels = append(labels, "schema/unknown-in-details")
				}
				msg.Set(s.fDetails, protoreflect.ValueOfMessage(d))
			} else {
				labels = append(labels, "schema/no-details")
			}
			if rapid.IntRange(0, 3).Draw(rt, "hmac") == 0 {
				msg.Set(s.fHmac, protoreflect.ValueOfBytes(rapid.SliceOfN(rapid.Byte(), 1, 32).Draw(rt, "hmacBytes")))
				labels = append(labels, "schema/hmac")
			}
			if rapid.IntRange(0, 3).Draw(rt, "topUnknown") == 0 {
				f, _ := c08RawField(rt, []uint64{3, 4, 5, 8, 100, 1<<29 - 1}, 0)
				msg.SetUnknown(f)
				labels = append(labels, "schema/unknown-top")
			}
			b, err := proto.MarshalOptions{Deterministic: rapid.Bool().Draw(rt, "deterministic")}.Marshal(msg)
			if err != nil {
				rt.Fatalf("harness: proto.Marshal: %v", err)
			}
			enc = append(enc, b...)
		}
		if parts > 1 {
			labels = append(labels, "schema/repeated-singular")
		}
		v, viol, har := c08CheckBytes(s, enc)
		if viol != "" {
			rt.Fatalf("%s", viol)
		}
		if har != "" {
			c08Harness(rt, har)
		}
		if v.class != "well-formed" {
			c08Harness(rt, fmt.Sprintf("message written by the protobuf runtime classified %s: %x", v.class, enc))
		}
		vk.Case("C08", fmt.Sprintf("sw/%x", enc), v.extras, append(labels, "schema-writer", fmt.Sprintf("schema-writer/extras=%v", v.extras))...)
		if vk.WantSample("C08") && v.extras && len(enc) < 80 {
			vk.Sample("C08", map[string]any{"kind": "schema-writer", "encoding": fmt.Sprintf("%x", enc), "read": fmt.Sprintf("%+v", v.p)})
		}
	})
}

// wire-level construction: fields of the schema with freely chosen wire types, values above
// 2^32-1, over-long varints, groups, truncation and length corruption.
func TestC08_WireLevel(t *testing.T) {
	s := c08MustSchema(t)
	vk.Check(t, 40000, func(rt *rapid.T) {
		var enc []byte
		mode := rapid.IntRange(0, 9).Draw(rt, "mode")
		if mode == 0 {
			enc = rapid.SliceOfN(rapid.Byte(), 0, 40).Draw(rt, "random")
		} else {
			for i := rapid.IntRange(0, 3).Draw(rt, "topFields"); i > 0; i-- {
				if rapid.IntRange(0, 3).Draw(rt, "isDetails") > 0 {
					var det []byte
					for j := rapid.IntRange(0, 5).Draw(rt, "detFields"); j > 0; j-- {
						f, _ := c08RawField(rt, []uint64{1, 2, 3, 4, 5, 8, 8, 6, 7, 9}, 0)
						det = append(det, f...)
					}
					enc = c08AppendVarint(enc, 1<<3|2, 0)
					enc = c08AppendVarint(enc, uint64(len(det)), 0)
					enc = append(enc, det...)
				} else {
					f, _ := c08RawField(rt, []uint64{1, 2, 3, 1<<29 - 1}, 0)
					enc = append(enc, f...)
				}
			}
			switch mode {
			case 1: // truncate
				if len(enc) > 0 {
					enc = enc[:rapid.IntRange(0, len(enc)-1).Draw(rt, "truncateAt")]
				}
			case 2: // corrupt one byte (often a length or a tag)
				if len(enc) > 0 {
					i := rapid.IntRange(0, len(enc)-1).Draw(rt, "corruptAt")
					enc[i] = rapid.Byte().Draw(rt, "corruptWith")
				}
			}
		}
		v, viol, har := c08CheckBytes(s, enc)
		if viol != "" {
			rt.Fatalf("%s", viol)
		}
		if har != "" {
			c08Harness(rt, har)
		}
		nt := strings.HasPrefix(v.class, "must-reject") || (v.class == "well-formed" && (v.extras || c08NonZero(v.p) >= 3))
		cl := v.class
		if strings.HasPrefix(cl, "must-reject/wiretype") {
			cl = cl[:strings.LastIndex(cl, "/")]
		}
		vk.Case("C08", fmt.Sprintf("wl/%x", enc), nt, "wire-level", "wire-level/"+cl, fmt.Sprintf("wire-level/accepted=%v", v.accepted))
		if vk.WantSample("C08") && strings.HasPrefix(v.class, "must-reject") {
			vk.Sample("C08", map[string]any{"kind": "wire-level", "class": v.class, "encoding": fmt.Sprintf("%x", enc)})
		}
	})
}

func FuzzC08(f *testing.F) {
	s := c08MustSchema(f)
	// the package's own FuzzPayload seeds
	f.Add(MarshalPayload(nil, Payload{}))
	f.Add(MarshalPayload(nil, Payload{Cert: []byte{1, 2, 3}, CertVersion: 2}))
	f.Add(MarshalPayload(nil, Payload{InitiatorIndex: 42, Time: 1}))
	f.Add(MarshalPayload(nil, Payload{Cert: []byte("seed-cert"), InitiatorIndex: 1, ResponderIndex: 2, Time: 3, CertVersion: 2}))
	f.Add([]byte{})
	f.Add([]byte{0xff})
	// hostile constants: wrong wire types, out-of-range, over-long varints, groups, repeated Details
	f.Add([]byte{0x0a, 0x02, 0x10, 0x05, 0x0a, 0x02, 0x18, 0x07})
	f.Add([]byte{0x0a, 0x06, 0x10, 0x80, 0x80, 0x80, 0x80, 0x10})
	f.Add([]byte{0x0a, 0x02, 0x12, 0x00})
	f.Add([]byte{0x0a, 0x03, 0x08, 0x80, 0x00})
	f.Add([]byte{0x0a, 0x04, 0x33, 0x08, 0x01, 0x34})
	f.Add([]byte{0x08, 0x01, 0x12, 0x01, 0xaa})
	f.Fuzz(func(t *testing.T, b []byte) {
		_, viol, har := c08CheckBytes(s, b)
		if viol != "" {
			t.Fatalf("%s", viol)
		}
		if har != "" {
			c08Harness(t, har)
		}
	})
}

// c08Harness reports a contradiction between the two references: an infrastructure problem of the
// harness (driver exit 2), never a verdict about the code under test.
func c08Harness(t interface{ Fatalf(string, ...any) }, msg string) {
	fmt.Printf("VERIF-INFRA: C08 references disagree: %s\n", msg)
	t.Fatalf("harness inconsistency: %s", msg)
}
