package handshake

// C07 native fuzz target: the fuzzer owns a mutation recipe that is applied to the genuine message of
// a fresh session (fresh ephemeral keys every execution, so the input is expressed relative to the
// genuine message: XOR patch at an offset, then a cut); same oracle as the rapid property.

import (
	"fmt"
	"testing"

	"github.com/slackhq/nebula/cert"
	"github.com/slackhq/nebula/header"
)

var c07FuzzTwin = map[string]string{}

func FuzzC07(f *testing.F) {
	f.Add(byte(0), uint16(0xffff), uint16(0), []byte{})
	f.Add(byte(1), uint16(48), uint16(0), []byte{})
	f.Add(byte(2), uint16(0xffff), uint16(16), []byte{0xff, 0xff, 0xff, 0xff})
	f.Add(byte(3), uint16(81), uint16(17), []byte{1})
	f.Add(byte(4), uint16(200), uint16(100), []byte{0x80})
	f.Add(byte(7), uint16(0xffff), uint16(1), []byte{1})
	f.Add(byte(5), uint16(16), uint16(0), []byte{})
	f.Fuzz(func(t *testing.T, sel byte, cut, off uint16, patch []byte) {
		c := c07Cfg{curve: cert.Curve_CURVE25519, ci: int(sel>>1) & 1, initTgt: sel&1 == 0, ii: 0, ri: 1, iv: cert.Version2, rv: cert.Version2}
		if sel&4 != 0 {
			c.curve = cert.Curve_P256
		}
		if sel&8 != 0 {
			c.rv = cert.Version1
		}
		fp, ok := c07FuzzTwin[c.String()]
		if !ok {
			var err error
			if fp, err = c07Twin(c); err != nil {
				t.Fatalf("harness: twin: %v", err)
			}
			c07FuzzTwin[c.String()] = fp
		}
		s, err := c07SessionFP(c, fp, 3, 4)
		if err != nil {
			t.Fatalf("harness: %v", err)
		}
		pre := hsgClone(s.genuine())
		if len(patch) > 0 {
			o := int(off) % len(pre)
			for i, x := range patch {
				if o+i >= len(pre) {
					break
				}
				pre[o+i] ^= x
			}
		}
		if cut != 0xffff {
			pre = pre[:int(cut)%(len(pre)+1)]
		}
		if string(pre) == string(s.genuine()) {
			return
		}
		class := "fuzz"
		if len(pre) >= header.Len {
			class = "fuzz/" + c07Region(s, len(pre))
		}
		if _, _, viol := c07Run(s, []c07Pre{{msg: pre, class: class}}); viol != "" {
			t.Fatalf("%s: %s", c, fmt.Sprint(viol))
		}
	})
}
