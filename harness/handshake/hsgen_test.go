package handshake

// Shared generator helpers for the handshake-package checks C05, C06, C07 (identity zoo: CAs,
// credentials v1/v2, both curves). Everything expensive (key generation, signing) is cached per
// process. All identifiers are prefixed hsg.

import (
	"crypto/sha256"
	"encoding/hex"
	"errors"
	"fmt"
	"github.com/slackhq/nebula/cert/p256"
	"google.golang.org/protobuf/proto"
	"net/netip"
	"sync"
	"time"

	"github.com/flynn/noise"
	"github.com/slackhq/nebula/cert"
	ct "github.com/slackhq/nebula/cert_test"
	"github.com/slackhq/nebula/header"
	"github.com/slackhq/nebula/noiseutil"
)

// hsgNow is the fixed evaluation time of every trust check (no wall clock in the oracles).
var hsgNow = time.Date(2030, 1, 1, 0, 0, 0, 0, time.UTC)

type hsgKind int

const (
	hsgHonest      hsgKind = iota // trusted CA, valid, private key never leaves the honest party
	hsgMalicious                  // trusted CA, valid, but the adversary holds the private key
	hsgUntrusted                  // issued by a CA that is not in the honest pool
	hsgExpired                    // trusted CA, expired at hsgNow
	hsgBlocklisted                // trusted CA, valid, fingerprint blocklisted in the honest pool
	hsgStolenCert                 // presents an honest identity's certificate (and public key) without its private key
	hsgForeignBody                // own static key, but the certificate body of an honest identity
	hsgFullCert                   // own static key, honest identity's full certificate (embedded public key) as body
)

func (k hsgKind) String() string {
	return [...]string{"honest", "malicious", "untrusted", "expired", "blocklisted", "stolencert", "foreignbody", "fullcert"}[k]
}

// hsgIdent is one key holder of the zoo.
type hsgIdent struct {
	idx        int
	name       string
	kind       hsgKind
	priv, pub  []byte // noise static keypair actually used
	certs      map[cert.Version]cert.Certificate
	body       map[cert.Version][]byte // bytes put into the handshake payload
	acceptable bool                    // the documented trust rule accepts what this identity presents
	adversary  bool                    // the adversary holds this identity's private key
	victim     *hsgIdent               // for the key-mismatch kinds: whose certificate is abused
	keyOf      *hsgIdent               // for the kinds that reuse another identity's static key pair: that identity
}

func (id *hsgIdent) versions() []cert.Version {
	var vs []cert.Version
	for _, v := range []cert.Version{cert.VersionPre1, cert.Version1, cert.Version2, 3} {
		if id.certs[v] != nil {
			vs = append(vs, v)
		}
	}
	return vs
}

type hsgZoo struct {
	curve   cert.Curve
	dh      noise.DHFunc
	ca      cert.Certificate
	caKey   []byte
	pool    *cert.CAPool // honest parties' pool: trusted CA + blocklist
	idents  []*hsgIdent
	honest  []*hsgIdent
	byFP    map[string]*hsgIdent // fingerprint of a presented certificate -> the identity the certificate NAMES (the rightful key holder)
	okFP    map[string]bool      // fingerprints the documented trust rule accepts at hsgNow
	dhLen   int
	lowOrds [][]byte // invalid / low-order public values for this curve
}

var (
	hsgZooMu sync.Mutex
	hsgZoos  = map[cert.Curve]*hsgZoo{}
)

func hsgKeypair(curve cert.Curve) (pub, priv []byte) {
	if curve == cert.Curve_P256 {
		return ct.P256Keypair()
	}
	return ct.X25519Keypair()
}

func hsgSign(ca cert.Certificate, caKey []byte, v cert.Version, curve cert.Curve, name string, pub []byte, nb, na time.Time, last byte) cert.Certificate {
	tbs := &cert.TBSCertificate{
		Version: v, Curve: curve, Name: name,
		Networks:  []netip.Prefix{netip.PrefixFrom(netip.AddrFrom4([4]byte{10, 9, 0, last}), 24)},
		NotBefore: nb, NotAfter: na, PublicKey: pub,
	}
	c, err := tbs.Sign(ca, ca.Curve(), caKey)
	if err != nil {
		panic(fmt.Sprintf("hsg: sign %s: %v", name, err))
	}
	return c
}

func hsgBody(c cert.Certificate) []byte {
	b, err := c.MarshalForHandshakes()
	if err != nil {
		panic(err)
	}
	return b
}

func hsgFP(c cert.Certificate) string {
	fp, err := c.Fingerprint()
	if err != nil {
		panic(err)
	}
	return fp
}

// hsgZooFor builds (once per process and curve) the identity zoo.
func hsgZooFor(curve cert.Curve) *hsgZoo {
	hsgZooMu.Lock()
	defer hsgZooMu.Unlock()
	if z := hsgZoos[curve]; z != nil {
		return z
	}
	z := &hsgZoo{curve: curve, byFP: map[string]*hsgIdent{}, okFP: map[string]bool{}}
	if curve == cert.Curve_P256 {
		z.dh = noiseutil.DHP256
	} else {
		z.dh = noise.DH25519
	}
	z.dhLen = z.dh.DHLen()
	caNB, caNA := time.Date(2000, 1, 1, 0, 0, 0, 0, time.UTC), time.Date(2100, 1, 1, 0, 0, 0, 0, time.UTC)
	z.ca, _, z.caKey, _ = ct.NewTestCaCert(cert.Version2, curve, caNB, caNA, nil, nil, nil)
	caU, _, caUKey, _ := ct.NewTestCaCert(cert.Version2, curve, caNB, caNA, nil, nil, nil)
	z.pool = cert.NewCAPool()
	_ = z.pool.AddCA(z.ca)

	nb, na := hsgNow.Add(-time.Hour), hsgNow.Add(time.Hour)
	add := func(name string, kind hsgKind, vs []cert.Version) *hsgIdent {
		id := &hsgIdent{idx: len(z.idents), name: name, kind: kind, certs: map[cert.Version]cert.Certificate{}, body: map[cert.Version][]byte{}}
		id.pub, id.priv = hsgKeypair(curve)
		ca, caKey := z.ca, z.caKey
		b, a := nb, na
		switch kind {
		case hsgUntrusted:
			ca, caKey = caU, caUKey
		case hsgExpired:
			b, a = hsgNow.Add(-3*time.Hour), hsgNow.Add(-2*time.Hour)
		}
		for _, v := range vs {
			c := hsgSign(ca, caKey, v, curve, name, id.pub, b, a, byte(10+id.idx))
			id.certs[v] = c
			id.body[v] = hsgBody(c)
			z.byFP[hsgFP(c)] = id
			if kind == hsgBlocklisted {
				z.pool.BlocklistFingerprint(hsgFP(c))
			}
			if kind == hsgHonest || kind == hsgMalicious {
				z.okFP[hsgFP(c)] = true
			}
		}
		id.acceptable = kind == hsgHonest || kind == hsgMalicious
		id.adversary = kind != hsgHonest
		z.idents = append(z.idents, id)
		if kind == hsgHonest {
			z.honest = append(z.honest, id)
		}
		return id
	}
	both := []cert.Version{cert.Version1, cert.Version2}
	a := add("A", hsgHonest, both)
	add("B", hsgHonest, both)
	add("C", hsgHonest, []cert.Version{cert.Version2})
	add("D", hsgHonest, []cert.Version{cert.Version1})
	m := add("M", hsgMalicious, both)
	add("U", hsgUntrusted, both)
	add("X", hsgExpired, both)
	add("K", hsgBlocklisted, both)
	if curve == cert.Curve_P256 {
		// K2: the honest pool blocklists the OTHER encoding of this certificate's ECDSA signature (r, N-s):
		// the fingerprint is computed here, from the re-encoded certificate bytes, not by the code under
		// test. Blocklisting either form blocks the certificate, so K2 presenting its own form is refused.
		k2 := add("K2", hsgMalicious, []cert.Version{cert.Version1})
		k2.kind, k2.acceptable = hsgBlocklisted, false
		c := k2.certs[cert.Version1]
		delete(z.okFP, hsgFP(c))
		raw := &cert.RawNebulaCertificate{}
		b, err := c.Marshal()
		if err != nil {
			panic(err)
		}
		if err := proto.Unmarshal(b, raw); err != nil {
			panic(err)
		}
		sw, err := p256.Swap(raw.Signature)
		if err != nil {
			panic(err)
		}
		raw.Signature = sw
		tb, err := proto.Marshal(raw)
		if err != nil {
			panic(err)
		}
		sum := sha256.Sum256(tb)
		z.pool.BlocklistFingerprint(hex.EncodeToString(sum[:]))
	}

	// key-mismatch family: the certificate presented belongs to the honest identity A
	stolen := &hsgIdent{idx: len(z.idents), name: "stolenA", kind: hsgStolenCert, certs: a.certs, body: a.body, adversary: true, victim: a}
	_, stolen.priv = hsgKeypair(curve)
	stolen.pub = a.pub // Credential takes the public half from the certificate
	z.idents = append(z.idents, stolen)
	foreign := &hsgIdent{idx: len(z.idents), name: "foreignA", kind: hsgForeignBody, certs: m.certs, body: a.body, priv: m.priv, pub: m.pub, adversary: true, victim: a, keyOf: m}
	z.idents = append(z.idents, foreign)
	full := &hsgIdent{idx: len(z.idents), name: "fullA", kind: hsgFullCert, certs: m.certs, body: map[cert.Version][]byte{}, priv: m.priv, pub: m.pub, adversary: true, victim: a, keyOf: m}
	for v, c := range a.certs {
		b, err := c.Marshal()
		if err != nil {
			panic(err)
		}
		full.body[v] = b
	}
	z.idents = append(z.idents, full)
	// the same theft with a lying version label: the adversary announces certificate version 0
	// ("pre-1") or an unknown version while sending the victim's complete or stripped certificate
	for _, lab := range []cert.Version{cert.VersionPre1, 3} {
		for _, stripped := range []bool{false, true} {
			src := a.certs[cert.Version1]
			if src == nil {
				continue
			}
			var body []byte
			var err error
			if stripped {
				body, err = src.MarshalForHandshakes()
			} else {
				body, err = src.Marshal()
			}
			if err != nil {
				panic(err)
			}
			lying := &hsgIdent{idx: len(z.idents), name: fmt.Sprintf("labelA-v%d-stripped%v", lab, stripped), kind: hsgFullCert,
				certs: map[cert.Version]cert.Certificate{lab: hsgLabelled{m.certs[cert.Version1], lab}}, body: map[cert.Version][]byte{lab: body},
				priv: m.priv, pub: m.pub, adversary: true, victim: a, keyOf: m}
			if m.certs[cert.Version1] == nil {
				continue
			}
			z.idents = append(z.idents, lying)
		}
	}

	if curve == cert.Curve_P256 {
		z.lowOrds = hsgP256Invalid()
	} else {
		z.lowOrds = hsgX25519LowOrder()
	}
	hsgZoos[curve] = z
	return z
}

// hsgLabelled presents a certificate under another version number.
type hsgLabelled struct {
	cert.Certificate
	v cert.Version
}

func (l hsgLabelled) Version() cert.Version { return l.v }

// hsgX25519LowOrder: the small-order points of Curve25519 (and non-canonical aliases); X25519
// with any of them yields the all-zero output, which x/crypto reports as an error.
func hsgX25519LowOrder() [][]byte {
	hexs := []string{
		"0000000000000000000000000000000000000000000000000000000000000000",
		"0100000000000000000000000000000000000000000000000000000000000000",
		"e0eb7a7c3b41b8ae1656e3faf19fc46ada098deb9c32b1fd866205165f49b800",
		"5f9c95bca3508c24b1d0b1559c83ef5b04445cc4581c8e86d8224eddd09f1157",
		"ecffffffffffffffffffffffffffffffffffffffffffffffffffffffffffff7f",
		"edffffffffffffffffffffffffffffffffffffffffffffffffffffffffffff7f",
		"eeffffffffffffffffffffffffffffffffffffffffffffffffffffffffffff7f",
	}
	var out [][]byte
	for _, h := range hexs {
		b, err := hex.DecodeString(h)
		if err != nil || len(b) != 32 {
			panic("hsg: bad constant")
		}
		out = append(out, b)
	}
	return out
}

// hsgP256Invalid: 65-byte values that are not valid uncompressed P-256 points.
func hsgP256Invalid() [][]byte {
	zero := make([]byte, 65)
	inf := make([]byte, 65)
	inf[0] = 4 // (0,0) is not on the curve
	offc := make([]byte, 65)
	offc[0] = 4
	offc[32], offc[64] = 1, 1 // (1,1) not on the curve
	comp := make([]byte, 65)
	comp[0] = 2 // compressed tag with 65 bytes
	ff := make([]byte, 65)
	for i := range ff {
		ff[i] = 0xff
	}
	ff[0] = 4 // coordinates >= p
	return [][]byte{zero, inf, offc, comp, ff}
}

// hsgCipher returns the cipher function by index (0 ChaChaPoly, 1 AES-GCM).
func hsgCipher(i int) noise.CipherFunc {
	if i == 1 {
		return noiseutil.CipherAESGCM
	}
	return noise.CipherChaChaPoly
}

// hsgCreds returns the credential lookup of identity id restricted to the given versions.
func (z *hsgZoo) hsgCreds(id *hsgIdent, vs []cert.Version, cipher noise.CipherFunc) GetCredentialFunc {
	ncs := noise.NewCipherSuite(z.dh, cipher, noise.HashSHA256)
	m := map[cert.Version]*Credential{}
	for _, v := range vs {
		if c := id.certs[v]; c != nil {
			// for hsgStolenCert the public half comes from the victim's certificate while the
			// private key is the adversary's own
			m[v] = NewCredential(c, id.body[v], id.priv, ncs)
		}
	}
	return func(v cert.Version) *Credential { return m[v] }
}

type hsgVerdict struct {
	fp string
	ok bool
	cc *cert.CachedCertificate
}

// hsgPoolVerifier is the production-shaped verifier (CAPool.VerifyCertificate) at the fixed time,
// logging every verdict so the oracle can tell what the trust check said.
func (z *hsgZoo) hsgPoolVerifier(log *[]hsgVerdict) CertVerifier {
	return func(c cert.Certificate) (*cert.CachedCertificate, error) {
		cc, err := z.pool.VerifyCertificate(hsgNow, c)
		if log != nil {
			*log = append(*log, hsgVerdict{fp: hsgFP(c), ok: err == nil, cc: cc})
		}
		return cc, err
	}
}

// hsgAcceptAll is the adversary's verifier: it accepts whatever it is shown.
func hsgAcceptAll(c cert.Certificate) (*cert.CachedCertificate, error) {
	if c == nil {
		return nil, errors.New("nil cert")
	}
	return &cert.CachedCertificate{Certificate: c, Fingerprint: hsgFP(c)}, nil
}

func hsgAlloc(idx uint32) IndexAllocator { return func() (uint32, error) { return idx, nil } }

func hsgNewMachine(v cert.Version, creds GetCredentialFunc, ver CertVerifier, idx uint32, initiator bool) (*Machine, error) {
	return NewMachine(v, creds, ver, hsgAlloc(idx), initiator, header.HandshakeIXPSK0)
}

func hsgClone(b []byte) []byte { return append([]byte(nil), b...) }
