package cert

// C43 - encrypted private keys open only with the right passphrase; key PEM helpers round-trip and
// refuse every other banner.
// Oracle: round trip; for a mutant, the tuple (banner, algorithm, Argon2 version/memory/parallelism/
// iterations, salt, ciphertext) parsed by the harness itself (encoding/pem + the protobuf message)
// decides: equal tuple - the original key may come back; any other tuple - an error, never a key.

import (
	"bytes"
	"crypto/rand"
	"encoding/pem"
	"fmt"
	"strings"
	"testing"

	"google.golang.org/protobuf/encoding/protowire"
	"google.golang.org/protobuf/proto"
	"pgregory.net/rapid"
	"verifkit/vk"
)

// resource guard: a mutated parameter block may ask Argon2 for terabytes; such mutants are not
// handed to the code under test (counted as skipped).
const (
	c43MaxMemoryKiB  = 1024
	c43MaxIterations = 4
)

type c43Tuple struct {
	Banner                         string
	Algorithm                      string
	Version                        int32
	Memory, Parallelism, Iterations uint32
	Salt, Ciphertext               string
}

// c43Parse is the harness' own reading of an encrypted key file. ok=false: not a PEM block holding
// the protobuf message at all.
func c43Parse(b []byte) (t c43Tuple, rest []byte, ok bool, hasParams bool) {
	blk, rest := pem.Decode(b)
	if blk == nil {
		return t, rest, false, false
	}
	t.Banner = blk.Type
	var raw RawNebulaEncryptedData
	if len(blk.Bytes) == 0 || proto.Unmarshal(blk.Bytes, &raw) != nil {
		return t, rest, false, false
	}
	t.Ciphertext = string(raw.Ciphertext)
	if raw.EncryptionMetadata == nil {
		return t, rest, true, false
	}
	t.Algorithm = raw.EncryptionMetadata.EncryptionAlgorithm
	p := raw.EncryptionMetadata.Argon2Parameters
	if p == nil {
		return t, rest, true, false
	}
	t.Version, t.Memory, t.Parallelism, t.Iterations, t.Salt = p.Version, p.Memory, p.Parallelism, p.Iterations, string(p.Salt)
	return t, rest, true, true
}

func (t c43Tuple) tooExpensive() bool {
	return t.Memory > c43MaxMemoryKiB || t.Iterations > c43MaxIterations
}

func c43DrawPassphrase(rt *rapid.T) []byte {
	switch rapid.IntRange(0, 5).Draw(rt, "passkind") {
	case 0:
		return []byte{}
	case 1:
		return []byte(rapid.StringMatching(`[a-zA-Z0-9 ]{1,20}`).Draw(rt, "pass-ascii"))
	case 2:
		return []byte(rapid.SampledFrom([]string{"pässwörd", "密码密码", "пароль", "🔑🔑", "à"}).Draw(rt, "pass-unicode"))
	case 3:
		return bytes.Repeat([]byte(rapid.SampledFrom([]string{"x", "long passphrase "}).Draw(rt, "pass-unit")), rapid.IntRange(20, 300).Draw(rt, "pass-rep"))
	default:
		return rapid.SliceOfN(rapid.Byte(), 1, 40).Draw(rt, "pass-bytes")
	}
}

// c43NearPassphrases returns passphrases at edit distance 1 (and a few classics).
func c43NearPassphrases(rt *rapid.T, p []byte) [][]byte {
	var out [][]byte
	out = append(out, append(append([]byte{}, p...), rapid.SampledFrom([]byte{0, ' ', 'a', '\n'}).Draw(rt, "appendbyte")))
	if len(p) > 0 {
		i := rapid.IntRange(0, len(p)-1).Draw(rt, "passpos")
		q := append([]byte{}, p...)
		q[i] ^= 1 << rapid.IntRange(0, 7).Draw(rt, "passbit")
		out = append(out, q)
		out = append(out, append(append([]byte{}, p[:i]...), p[i+1:]...))
		out = append(out, append([]byte{' '}, p...))
		if u := bytes.ToUpper(p); !bytes.Equal(u, p) {
			out = append(out, u)
		}
	}
	return out
}

type c43Case struct {
	curve  Curve
	key    []byte
	pass   []byte
	pemb   []byte
	tuple  c43Tuple
	params string
}

func c43DrawCase(rt *rapid.T) *c43Case {
	c := &c43Case{}
	c.curve = rapid.SampledFrom([]Curve{Curve_CURVE25519, Curve_P256}).Draw(rt, "curve")
	n := 64
	if c.curve == Curve_P256 {
		n = 32
	}
	if rapid.Bool().Draw(rt, "realkey") {
		c.key = append([]byte{}, cgSigningKey(c.curve, rapid.IntRange(0, cgNumSignKeys-1).Draw(rt, "keyidx")).priv...)
	} else {
		c.key = rapid.SliceOfN(rapid.Byte(), n, n).Draw(rt, "keybytes")
	}
	c.pass = c43DrawPassphrase(rt)
	par := uint8(rapid.IntRange(1, 4).Draw(rt, "parallelism"))
	mem := uint32(rapid.IntRange(8, 64).Draw(rt, "memory"))
	it := uint32(rapid.IntRange(1, 2).Draw(rt, "iterations"))
	kdf := NewArgon2Parameters(mem, par, it)
	if rapid.Bool().Draw(rt, "ownsalt") {
		kdf.salt = rapid.SliceOfN(rapid.Byte(), 16, 40).Draw(rt, "salt")
	}
	c.params = fmt.Sprintf("memory=%d parallelism=%d iterations=%d saltlen=%d", mem, par, it, len(kdf.salt))
	if rapid.IntRange(0, 2).Draw(rt, "paramsReused") == 0 {
		// the caller's parameter object was used before, for another key under another passphrase
		// (it then carries that encryption's salt): this encryption must still be under THIS passphrase
		other := append(c43DrawPassphrase(rt), 'x')
		if _, err := EncryptAndMarshalSigningPrivateKey(c.curve, c.key, other, kdf); err != nil {
			rt.Fatalf("encrypting a %s key failed: %v (%s)", c.curve, err, c.params)
		}
		c.params += " params-object-used-before-with-another-passphrase"
		vk.Label("C43", "kdf-params-object-reused")
	}
	b, err := EncryptAndMarshalSigningPrivateKey(c.curve, c.key, c.pass, kdf)
	if err != nil {
		rt.Fatalf("encrypting a %s key failed: %v (%s)", c.curve, err, c.params)
	}
	c.pemb = b
	t, rest, ok, hasParams := c43Parse(b)
	if !ok || !hasParams || len(rest) != 0 {
		rt.Fatalf("harness: the encrypted key file is not a single PEM block with the expected message:\n%s", b)
	}
	c.tuple = t
	return c
}

func (c *c43Case) String() string {
	return fmt.Sprintf("curve=%s key=%x passphrase=%q %s", c.curve, c.key, c.pass, c.params)
}

// ---- mutants --------------------------------------------------------------------------------------------

var c43AllBanners = []string{
	EncryptedEd25519PrivateKeyBanner, EncryptedECDSAP256PrivateKeyBanner, Ed25519PrivateKeyBanner, ECDSAP256PrivateKeyBanner,
	Ed25519PublicKeyBanner, ECDSAP256PublicKeyBanner, X25519PrivateKeyBanner, X25519PublicKeyBanner, P256PrivateKeyBanner, P256PublicKeyBanner,
	CertificateBanner, CertificateV2Banner, "NEBULA ED25519 ENCRYPTED PRIVATE KEY ", "PRIVATE KEY",
}

func c43Reassemble(banner string, raw *RawNebulaEncryptedData, extra []byte) []byte {
	b, err := proto.Marshal(raw)
	if err != nil {
		panic("harness: " + err.Error())
	}
	return pem.EncodeToMemory(&pem.Block{Type: banner, Bytes: append(b, extra...)})
}

func c43DrawMutant(rt *rapid.T, c *c43Case) ([]byte, string) {
	blk, _ := pem.Decode(c.pemb)
	var raw RawNebulaEncryptedData
	if err := proto.Unmarshal(blk.Bytes, &raw); err != nil {
		panic("harness: " + err.Error())
	}
	p := raw.EncryptionMetadata.Argon2Parameters
	flip := func(b []byte, lo, hi int, label string) []byte {
		b = append([]byte{}, b...)
		i := rapid.IntRange(lo*8, hi*8-1).Draw(rt, label)
		b[i/8] ^= 1 << (i % 8)
		return b
	}
	kind := rapid.SampledFrom([]string{"ct-nonce-bit", "ct-body-bit", "ct-tag-bit", "ct-truncate", "ct-extend", "salt-bit", "salt-short", "salt-empty",
		"memory", "iterations", "parallelism", "version", "algorithm", "unknown-field", "banner", "pem-whitespace", "pem-header", "pem-b64char",
		"pem-truncate", "no-params", "no-metadata"}).Draw(rt, "mutant")
	ct := raw.Ciphertext
	switch kind {
	case "ct-nonce-bit":
		raw.Ciphertext = flip(ct, 0, 12, "bit")
	case "ct-body-bit":
		raw.Ciphertext = flip(ct, 12, len(ct)-16, "bit")
	case "ct-tag-bit":
		raw.Ciphertext = flip(ct, len(ct)-16, len(ct), "bit")
	case "ct-truncate":
		raw.Ciphertext = ct[:rapid.SampledFrom([]int{0, 1, 11, 12, 13, 28, len(ct) - 1}).Draw(rt, "ctlen")]
	case "ct-extend":
		raw.Ciphertext = append(append([]byte{}, ct...), rapid.SliceOfN(rapid.Byte(), 1, 4).Draw(rt, "ctext")...)
	case "salt-bit":
		p.Salt = flip(p.Salt, 0, len(p.Salt), "bit")
	case "salt-short":
		p.Salt = p.Salt[:15]
	case "salt-empty":
		p.Salt = nil
	case "memory":
		p.Memory = rapid.SampledFrom([]uint32{0, 1, 7, p.Memory + 1, p.Memory - 1, p.Memory * 2, 512}).Draw(rt, "newmemory")
	case "iterations":
		p.Iterations = rapid.SampledFrom([]uint32{0, p.Iterations + 1, 3 - p.Iterations, 4}).Draw(rt, "newiterations")
	case "parallelism":
		p.Parallelism = rapid.SampledFrom([]uint32{0, p.Parallelism + 1, p.Parallelism - 1, 255, 256, 257, 1 << 20}).Draw(rt, "newparallelism")
	case "version":
		p.Version = rapid.SampledFrom([]int32{0, 0x10, 0x12, 0x14, -1, 0x7fffffff}).Draw(rt, "newversion")
	case "algorithm":
		raw.EncryptionMetadata.EncryptionAlgorithm = rapid.SampledFrom([]string{"", "AES-256-gcm", "AES-128-GCM", "AES-256-GCM ", "CHACHA20-POLY1305"}).Draw(rt, "newalgorithm")
	case "no-params":
		raw.EncryptionMetadata.Argon2Parameters = nil
	case "no-metadata":
		raw.EncryptionMetadata = nil
	case "unknown-field":
		var extra []byte
		extra = protowire.AppendTag(extra, 15, protowire.BytesType)
		extra = protowire.AppendBytes(extra, []byte("x"))
		return c43Reassemble(blk.Type, &raw, extra), kind
	case "banner":
		var others []string
		for _, b := range c43AllBanners {
			if b != blk.Type {
				others = append(others, b)
			}
		}
		nb := rapid.SampledFrom(others).Draw(rt, "newbanner")
		return c43Reassemble(nb, &raw, nil), kind + ":" + nb
	case "pem-whitespace":
		s := string(c.pemb)
		lines := strings.Split(s, "\n")
		i := rapid.IntRange(1, len(lines)-3).Draw(rt, "wsline")
		j := rapid.IntRange(0, len(lines[i])).Draw(rt, "wscol")
		lines[i] = lines[i][:j] + rapid.SampledFrom([]string{" ", "\t", "\n", "\r\n"}).Draw(rt, "ws") + lines[i][j:]
		return []byte(strings.Join(lines, "\n")), kind
	case "pem-header":
		s := string(c.pemb)
		i := strings.Index(s, "\n")
		return []byte(s[:i+1] + "Comment: tampered\n\n" + s[i+1:]), kind
	case "pem-b64char":
		s := []byte(c.pemb)
		lines := bytes.Split(s, []byte("\n"))
		i := rapid.IntRange(1, len(lines)-3).Draw(rt, "b64line")
		j := rapid.IntRange(0, len(lines[i])-1).Draw(rt, "b64col")
		const alphabet = "ABCDEFGHIJKLMNOPQRSTUVWXYZabcdefghijklmnopqrstuvwxyz0123456789+/"
		nc := alphabet[rapid.IntRange(0, 63).Draw(rt, "b64char")]
		if lines[i][j] == nc {
			nc = alphabet[(strings.IndexByte(alphabet, nc)+1)%64]
		}
		lines[i] = append([]byte{}, lines[i]...)
		lines[i][j] = nc
		return bytes.Join(lines, []byte("\n")), kind
	case "pem-truncate":
		return c.pemb[:rapid.IntRange(0, len(c.pemb)-2).Draw(rt, "pemlen")], kind
	}
	return c43Reassemble(blk.Type, &raw, nil), kind
}

func c43CurveOfBanner(b string) (Curve, bool) {
	switch b {
	case EncryptedEd25519PrivateKeyBanner:
		return Curve_CURVE25519, true
	case EncryptedECDSAP256PrivateKeyBanner:
		return Curve_P256, true
	}
	return 0, false
}

// c43JudgeMutant runs the decrypter on a mutant and applies the oracle. Returns a class label.
func c43JudgeMutant(fail func(string, ...any), c *c43Case, pass []byte, mutant []byte, how string) string {
	t, _, ok, hasParams := c43Parse(mutant)
	if ok && hasParams && t.tooExpensive() {
		return "skipped:expensive-params"
	}
	curve, key, _, err := DecryptAndUnmarshalSigningPrivateKey(pass, mutant)
	same := ok && hasParams && t == c.tuple && bytes.Equal(pass, c.pass)
	if err != nil {
		if same {
			return "same-tuple:refused"
		}
		return "altered:refused"
	}
	if !same {
		fail("an altered encrypted key (%s) or passphrase was opened: curve=%s key=%x\n  original: %s\n  original tuple %+q\n  mutant tuple   %+q\n  passphrase used %q\n  mutant file:\n%s",
			how, curve, key, c, c.tuple, t, pass, mutant)
	}
	if curve != c.curve || !bytes.Equal(key, c.key) {
		fail("decryption of an equivalent file (%s) returned curve=%s key=%x\n  original: %s", how, curve, key, c)
	}
	return "same-tuple:opened"
}

func TestC43_EncryptedKeys(t *testing.T) {
	vk.Check(t, 8000, func(rt *rapid.T) {
		c := c43DrawCase(rt)
		fail := func(f string, a ...any) { rt.Fatalf(f, a...) }
		// right passphrase, with and without trailing data
		trailer := rapid.SampledFrom([]string{"", "\n", "trailing text", "-----BEGIN X-----\nAA==\n-----END X-----\n"}).Draw(rt, "trailer")
		curve, key, rest, err := DecryptAndUnmarshalSigningPrivateKey(c.pass, append(append([]byte{}, c.pemb...), trailer...))
		if err != nil {
			rt.Fatalf("decryption with the right passphrase failed: %v\n  %s", err, c)
		}
		if curve != c.curve || !bytes.Equal(key, c.key) {
			rt.Fatalf("decryption returned curve=%s key=%x\n  %s", curve, key, c)
		}
		if string(rest) != trailer {
			rt.Fatalf("remaining bytes %q, expected %q", rest, trailer)
		}
		// UnmarshalSigningPrivateKeyFromPEM must say "encrypted", never return key material
		if k, _, cv, err := UnmarshalSigningPrivateKeyFromPEM(c.pemb); err == nil || k != nil || cv != c.curve {
			rt.Fatalf("UnmarshalSigningPrivateKeyFromPEM on an encrypted key: key=%x curve=%s err=%v", k, cv, err)
		}
		vk.Case("C43", "ok/"+c.String(), false, "roundtrip", "roundtrip/"+c.curve.String())
		// wrong passphrases
		for _, wp := range c43NearPassphrases(rt, c.pass) {
			lab := c43JudgeMutant(fail, c, wp, c.pemb, "wrong passphrase")
			vk.Case("C43", fmt.Sprintf("wp/%x/%s", wp, c), true, "wrong-passphrase:"+strings.TrimPrefix(lab, "altered:"))
		}
		// altered files
		for k := 0; k < 6; k++ {
			m, how := c43DrawMutant(rt, c)
			lab := c43JudgeMutant(fail, c, c.pass, m, how)
			base := strings.SplitN(how, ":", 2)[0]
			vk.Case("C43", fmt.Sprintf("mut/%s/%x", how, m), strings.HasPrefix(lab, "altered"), "mutant:"+base+":"+lab)
		}
		if vk.WantSample("C43") {
			vk.Sample("C43", map[string]any{"case": c.String(), "file": string(c.pemb)})
		}
	})
}

// ---- plain key PEM helpers ---------------------------------------------------------------------------------

type c43Codec struct {
	name      string
	banner    map[Curve]string
	length    map[Curve]int
	marshal   func(Curve, []byte) []byte
	unmarshal func([]byte) ([]byte, []byte, Curve, error)
}

var c43Codecs = []c43Codec{
	{"PublicKey", map[Curve]string{Curve_CURVE25519: X25519PublicKeyBanner, Curve_P256: P256PublicKeyBanner},
		map[Curve]int{Curve_CURVE25519: 32, Curve_P256: 65}, MarshalPublicKeyToPEM, UnmarshalPublicKeyFromPEM},
	{"SigningPublicKey", map[Curve]string{Curve_CURVE25519: Ed25519PublicKeyBanner, Curve_P256: ECDSAP256PublicKeyBanner},
		map[Curve]int{Curve_CURVE25519: 32, Curve_P256: 65}, MarshalSigningPublicKeyToPEM, UnmarshalSigningPublicKeyFromPEM},
	{"PrivateKey", map[Curve]string{Curve_CURVE25519: X25519PrivateKeyBanner, Curve_P256: P256PrivateKeyBanner},
		map[Curve]int{Curve_CURVE25519: 32, Curve_P256: 32}, MarshalPrivateKeyToPEM, UnmarshalPrivateKeyFromPEM},
	{"SigningPrivateKey", map[Curve]string{Curve_CURVE25519: Ed25519PrivateKeyBanner, Curve_P256: ECDSAP256PrivateKeyBanner},
		map[Curve]int{Curve_CURVE25519: 64, Curve_P256: 32}, MarshalSigningPrivateKeyToPEM, UnmarshalSigningPrivateKeyFromPEM},
}

func TestC43_KeyPEMHelpers(t *testing.T) {
	vk.Check(t, 30000, func(rt *rapid.T) {
		ci := rapid.IntRange(0, len(c43Codecs)-1).Draw(rt, "codec")
		cd := c43Codecs[ci]
		curve := rapid.SampledFrom([]Curve{Curve_CURVE25519, Curve_P256}).Draw(rt, "curve")
		n := cd.length[curve]
		key := rapid.SliceOfN(rapid.Byte(), n, n).Draw(rt, "key")
		p := cd.marshal(curve, key)
		blk, prest := pem.Decode(p)
		if blk == nil || len(prest) != 0 || blk.Type != cd.banner[curve] || !bytes.Equal(blk.Bytes, key) {
			rt.Fatalf("Marshal%sToPEM(%s) is not one PEM block with banner %q holding the key:\n%s", cd.name, curve, cd.banner[curve], p)
		}
		trailer := rapid.SampledFrom([]string{"", "\n", "rest"}).Draw(rt, "trailer")
		got, rest, gc, err := cd.unmarshal(append(append([]byte{}, p...), trailer...))
		if err != nil || !bytes.Equal(got, key) || gc != curve || string(rest) != trailer {
			rt.Fatalf("Unmarshal%sFromPEM(Marshal(%s, %x)) = key %x curve %s rest %q err %v", cd.name, curve, key, got, gc, rest, err)
		}
		vk.Case("C43", fmt.Sprintf("pem/%s/%s/%x", cd.name, curve, key), false, "pem-roundtrip:"+cd.name+"/"+curve.String())
		// the same bytes under every other banner: every unmarshaler that does not own the banner refuses
		ob := rapid.SampledFrom(c43AllBanners).Draw(rt, "otherbanner")
		body := key
		if rapid.IntRange(0, 3).Draw(rt, "otherlen") == 0 {
			body = rapid.SliceOfN(rapid.Byte(), 0, 70).Draw(rt, "otherbody")
		}
		q := pem.EncodeToMemory(&pem.Block{Type: ob, Bytes: body})
		for _, u := range c43Codecs {
			owns := u.banner[Curve_CURVE25519] == ob || u.banner[Curve_P256] == ob
			k, _, _, err := u.unmarshal(q)
			if !owns && err == nil {
				rt.Fatalf("Unmarshal%sFromPEM accepted banner %q: key=%x err=%v", u.name, ob, k, err)
			}
			if !owns {
				vk.Case("C43", fmt.Sprintf("banner/%s/%s/%x", u.name, ob, body), true, "wrong-banner-refused:"+u.name)
			}
		}
		if _, encrypted := c43CurveOfBanner(ob); !encrypted {
			if cv, k, _, err := DecryptAndUnmarshalSigningPrivateKey([]byte("p"), q); err == nil {
				rt.Fatalf("DecryptAndUnmarshalSigningPrivateKey accepted banner %q: curve=%s key=%x", ob, cv, k)
			}
			vk.Case("C43", fmt.Sprintf("banner/decrypt/%s/%x", ob, body), true, "wrong-banner-refused:Decrypt")
		}
	})
}

// ---- native fuzz target (thorough tier) -----------------------------------------------------------------------

// c43CountingReader is a deterministic stand-in for crypto/rand.Reader while the fuzz bases are
// built: the coordinator and every worker process must arrive at the same encrypted files (the
// AES-GCM nonce is the only random input left once the salt is given).
type c43CountingReader struct{ n byte }

func (r *c43CountingReader) Read(p []byte) (int, error) {
	for i := range p {
		r.n++
		p[i] = r.n
	}
	return len(p), nil
}

func FuzzC43Decrypt(f *testing.F) {
	var bases []*c43Case
	savedReader := rand.Reader
	rand.Reader = &c43CountingReader{}
	for i, curve := range []Curve{Curve_CURVE25519, Curve_P256} {
		c := &c43Case{curve: curve, key: append([]byte{}, cgSigningKey(curve, 0).priv...), pass: []byte(fmt.Sprintf("fuzz passphrase %d", i))}
		kdf := NewArgon2Parameters(8, 1, 1)
		kdf.salt = bytes.Repeat([]byte{byte(0x40 + i)}, 32)
		b, err := EncryptAndMarshalSigningPrivateKey(curve, c.key, c.pass, kdf)
		if err != nil {
			f.Fatal(err)
		}
		c.pemb = b
		t, _, ok, hp := c43Parse(b)
		if !ok || !hp {
			f.Fatal("harness: base does not parse")
		}
		c.tuple = t
		c.params = "memory=8 parallelism=1 iterations=1"
		bases = append(bases, c)
		f.Add(uint8(i), c.pass, b)
		f.Add(uint8(i), []byte("other"), b)
		blk, _ := pem.Decode(b)
		f.Add(uint8(i), c.pass, pem.EncodeToMemory(&pem.Block{Type: c43AllBanners[1-i], Bytes: blk.Bytes}))
	}
	rand.Reader = savedReader
	for _, c := range bases {
		if _, k, _, err := DecryptAndUnmarshalSigningPrivateKey(c.pass, c.pemb); err != nil || !bytes.Equal(k, c.key) {
			f.Fatalf("harness: base does not open: %v", err)
		}
	}
	f.Add(uint8(0), []byte{}, []byte("-----BEGIN NEBULA ED25519 ENCRYPTED PRIVATE KEY-----\n-----END NEBULA ED25519 ENCRYPTED PRIVATE KEY-----\n"))
	f.Fuzz(func(t *testing.T, which uint8, pass []byte, data []byte) {
		c := bases[int(which)%len(bases)]
		// the input may be (an equivalent of) ANY base file with that base's passphrase: judge against it
		if t, _, ok, hp := c43Parse(data); ok && hp {
			for _, b := range bases {
				if t == b.tuple && bytes.Equal(pass, b.pass) {
					c = b
				}
			}
		}
		c43JudgeMutant(func(f string, a ...any) { t.Fatalf(f, a...) }, c, pass, data, "fuzz input")
	})
}
