package cert

// C03 - every issued certificate decodes back to itself; decoders never panic and accept only
// structurally valid certificates.
// Oracle: round trip through the three encodings compared with the harness' own model of the
// request (cgSpec), plus the structural rules written out again in certgen (cgRefStructural).

import (
	"encoding/pem"
	"fmt"
	"math"
	"net/netip"
	"strings"
	"sync"
	"testing"
	"time"

	"golang.org/x/crypto/cryptobyte"
	cbasn1 "golang.org/x/crypto/cryptobyte/asn1"
	"google.golang.org/protobuf/proto"
	"pgregory.net/rapid"
	"verifkit/vk"
)

const (
	c03MinSec = int64(-62135596800) // 0001-01-01
	c03MaxSec = int64(253402300799) // 9999-12-31
)

// ---- wide signers (no constraints, widest window), one per version x curve ----------------------

var (
	c03SignerMu sync.Mutex
	c03Signers  = map[[2]int]*cgCA{}
)

func c03Signer(v Version, curve Curve) *cgCA {
	c03SignerMu.Lock()
	defer c03SignerMu.Unlock()
	id := [2]int{int(v), int(curve)}
	if s := c03Signers[id]; s != nil {
		return s
	}
	key := cgSigningKey(curve, 0)
	s := cgSpec{Version: v, Curve: curve, Name: "c03 wide signer", IsCA: true, NB: c03MinSec, NA: c03MaxSec, Pub: key.pub}
	c, err := s.tbs().Sign(nil, curve, key.priv)
	if err != nil {
		panic("harness: wide signer: " + err.Error())
	}
	fp, _ := c.Fingerprint()
	ca := &cgCA{spec: s, key: key, cert: c, fp: fp}
	c03Signers[id] = ca
	return ca
}

// ---- generator over the whole input space of Sign ------------------------------------------------

func c03DrawBytesOfLen(rt *rapid.T, n int, label string) string {
	switch rapid.IntRange(0, 2).Draw(rt, label+"-alphabet") {
	case 0:
		return string(rapid.SliceOfN(rapid.Byte(), n, n).Draw(rt, label+"-raw"))
	case 1:
		return strings.Repeat("n", n)
	default:
		r := rapid.SliceOfN(rapid.SampledFrom([]rune{'a', 'Z', '0', '.', '-', ' ', 'é', '水'}), n, n).Draw(rt, label+"-runes")
		s := string(r)
		for len(s) > n { // keep the BYTE length at n
			r = r[:len(r)-1]
			s = string(r)
		}
		return s + strings.Repeat("x", n-len(s))
	}
}

func c03DrawName(rt *rapid.T) string {
	n := rapid.SampledFrom([]int{0, 1, 2, 5, 20, 64, 252, 253, 254, 255, 300, -1}).Draw(rt, "namelen")
	if n < 0 {
		n = rapid.IntRange(0, 400).Draw(rt, "namelen-any")
	}
	return c03DrawBytesOfLen(rt, n, "name")
}

func c03DrawGroups(rt *rapid.T) []string {
	n := rapid.SampledFrom([]int{0, 0, 1, 2, 3, 6}).Draw(rt, "ngroups")
	var g []string
	for i := 0; i < n; i++ {
		switch rapid.IntRange(0, 9).Draw(rt, "groupkind") {
		case 0:
			g = append(g, "")
		case 1:
			if len(g) > 0 {
				g = append(g, g[rapid.IntRange(0, len(g)-1).Draw(rt, "groupdup")])
			} else {
				g = append(g, "dup")
			}
		case 2:
			g = append(g, c03DrawBytesOfLen(rt, rapid.SampledFrom([]int{1, 127, 128, 200}).Draw(rt, "grouplen"), "group"))
		default:
			g = append(g, rapid.SampledFrom(cgGroupAlphabet).Draw(rt, "group"))
		}
	}
	return g
}

// c03DrawPrefixAny draws any prefix; the hostile kinds (zero address, 4in6, IPv6 for a v1 request)
// only when asked for.
func c03DrawPrefixAny(rt *rapid.T, allow6 bool, hostile bool, label string) netip.Prefix {
	fam := 4
	if allow6 && rapid.Bool().Draw(rt, label+"-fam6") {
		fam = 6
	}
	if hostile {
		switch rapid.IntRange(0, 2).Draw(rt, label+"-hostile") {
		case 0:
			if fam == 4 {
				return netip.PrefixFrom(netip.IPv4Unspecified(), rapid.IntRange(0, 32).Draw(rt, label+"-zbits"))
			}
			return netip.PrefixFrom(netip.IPv6Unspecified(), rapid.IntRange(0, 128).Draw(rt, label+"-zbits"))
		case 1:
			return netip.PrefixFrom(netip.MustParseAddr("::ffff:10.9.8.7"), rapid.IntRange(96, 128).Draw(rt, label+"-mbits"))
		default:
			fam = 6 // IPv6 also for a v1 request: has to be refused by Sign
		}
	}
	if rapid.IntRange(0, 3).Draw(rt, label+"-lattice") == 0 {
		return cgDrawPrefix(rt, fam, label+"-lat")
	}
	n := 4
	if fam == 6 {
		n = 16
	}
	b := rapid.SliceOfN(rapid.Byte(), n, n).Draw(rt, label+"-addr")
	cgNonZero(b)
	bits := rapid.OneOf(rapid.IntRange(0, n*8), rapid.SampledFrom([]int{0, 1, n*8 - 1, n * 8})).Draw(rt, label+"-bits")
	return netip.PrefixFrom(cgAddrFromBytes(b), bits)
}

func c03DrawPrefixes(rt *rapid.T, allow6 bool, min int, label string) []netip.Prefix {
	n := rapid.SampledFrom([]int{0, 1, 1, 1, 2, 3, 8, 40}).Draw(rt, label+"-n")
	if n < min {
		n = min
	}
	var l []netip.Prefix
	for i := 0; i < n; i++ {
		l = append(l, c03DrawPrefixAny(rt, allow6, false, label))
	}
	if n > 0 && rapid.IntRange(0, 11).Draw(rt, label+"-hostile-elem") == 0 {
		l[rapid.IntRange(0, n-1).Draw(rt, label+"-hostile-at")] = c03DrawPrefixAny(rt, allow6, true, label+"-h")
	}
	if n > 1 && rapid.IntRange(0, 11).Draw(rt, label+"-dup") == 0 {
		l[rapid.IntRange(1, n-1).Draw(rt, label+"-dupat")] = l[0]
	}
	return l
}

type c03Request struct {
	spec       cgSpec
	nbNs, naNs int64
}

func c03DrawSec(rt *rapid.T, label string) int64 {
	switch rapid.IntRange(0, 9).Draw(rt, label+"-kind") {
	case 0:
		return rapid.SampledFrom([]int64{0, -1, 1, c03MinSec, c03MaxSec, math.MaxInt32, math.MaxInt32 + 1, math.MinInt32 - 1}).Draw(rt, label+"-edge")
	case 1:
		return rapid.Int64Range(c03MinSec, c03MaxSec).Draw(rt, label+"-any")
	default:
		return cgT0 + int64(rapid.IntRange(-100000, 100000).Draw(rt, label+"-near"))
	}
}

func c03DrawRequest(rt *rapid.T) *c03Request {
	r := &c03Request{}
	s := &r.spec
	s.Version = rapid.SampledFrom([]Version{Version1, Version2}).Draw(rt, "ver")
	s.Curve = rapid.SampledFrom([]Curve{Curve_CURVE25519, Curve_P256}).Draw(rt, "curve")
	s.IsCA = rapid.IntRange(0, 3).Draw(rt, "isca") == 0
	s.Name = c03DrawName(rt)
	s.Groups = c03DrawGroups(rt)
	allow6 := s.Version == Version2
	min := 1
	if s.IsCA || rapid.IntRange(0, 19).Draw(rt, "nonet") == 0 {
		min = 0
	}
	s.Networks = c03DrawPrefixes(rt, allow6, min, "net")
	s.Unsafe = c03DrawPrefixes(rt, allow6, 0, "unsafe")
	if allow6 && rapid.IntRange(0, 7).Draw(rt, "unsafe4in6") == 0 {
		// a 4in6 UNSAFE network is accepted by the v2 signer (only assigned networks are refused)
		s.Unsafe = append(s.Unsafe, netip.PrefixFrom(netip.MustParseAddr("::ffff:192.168.7.7"), rapid.IntRange(96, 128).Draw(rt, "unsafe4in6bits")))
	}
	if s.Version == Version2 && !s.IsCA && rapid.IntRange(0, 9).Draw(rt, "keepunsafefamily") != 0 {
		// mostly keep only unsafe networks whose family has an assigned address (v2 host rule)
		has4, has6 := false, false
		for _, p := range s.Networks {
			has4 = has4 || p.Addr().Is4()
			has6 = has6 || p.Addr().Is6()
		}
		var keep []netip.Prefix
		for _, p := range s.Unsafe {
			if (p.Addr().Is4() && has4) || (!p.Addr().Is4() && has6) {
				keep = append(keep, p)
			}
		}
		s.Unsafe = keep
	}
	s.NB = c03DrawSec(rt, "nb")
	s.NA = c03DrawSec(rt, "na")
	if rapid.Bool().Draw(rt, "subsecond") {
		r.nbNs = int64(rapid.IntRange(0, 999999999).Draw(rt, "nbns"))
		r.naNs = int64(rapid.IntRange(0, 999999999).Draw(rt, "nans"))
	}
	switch rapid.IntRange(0, 9).Draw(rt, "pubkind") {
	case 0:
		s.Pub = rapid.SliceOfN(rapid.Byte(), 1, 80).Draw(rt, "pubany")
	case 1:
		if rapid.IntRange(0, 4).Draw(rt, "pubempty") == 0 {
			s.Pub = nil
			break
		}
		fallthrough
	default:
		if s.IsCA {
			s.Pub = cgSigningKey(s.Curve, rapid.IntRange(0, cgNumSignKeys-1).Draw(rt, "pubidx")).pub
		} else {
			s.Pub = cgLeafPub(s.Curve, rapid.IntRange(0, 3).Draw(rt, "pubidx"))
		}
	}
	return r
}

func (r *c03Request) tbs() *TBSCertificate {
	t := r.spec.tbs()
	t.NotBefore = time.Unix(r.spec.NB, r.nbNs)
	t.NotAfter = time.Unix(r.spec.NA, r.naNs)
	return t
}

// c03KnownClasses names the recorded known-finding classes a request falls into.
func c03KnownClasses(s *cgSpec) []string {
	if s.Version != Version2 {
		return nil
	}
	var k []string
	if len(s.Name) == 0 {
		k = append(k, "v2-empty-name")
	}
	if len(s.Name) > 253 {
		k = append(k, "v2-long-name")
	}
	for _, g := range s.Groups {
		if g == "" {
			k = append(k, "v2-empty-group")
			break
		}
	}
	return k
}

func c03WantIdentity(s *cgSpec) cgIdentity {
	sorted := s.Version == Version2
	g := make([]string, len(s.Groups))
	for i, x := range s.Groups {
		g[i] = fmt.Sprintf("%q", x)
	}
	return cgIdentity{Version: s.Version, Name: s.Name, Networks: cgPrefixList(s.Networks, sorted), Unsafe: cgPrefixList(s.Unsafe, sorted),
		Groups: strings.Join(g, ","), IsCA: s.IsCA, NB: s.NB, NA: s.NA, Issuer: s.Issuer, Curve: s.Curve, Pub: fmt.Sprintf("%x", s.Pub)}
}

var c03FormNames = []string{"object", "standard", "PEM", "handshake+Recombine"}

// c03RoundTrip checks the three encodings of an issued certificate against the request. It returns a
// description of the first disagreement ("" when everything round-trips).
func c03RoundTrip(c Certificate, s *cgSpec) string {
	want := c03WantIdentity(s)
	if got := cgIdent(c); got != want {
		return fmt.Sprintf("issued certificate differs from the request:\n got  %+v\n want %+v", got, want)
	}
	fp, err := c.Fingerprint()
	if err != nil {
		return fmt.Sprintf("Fingerprint of the issued certificate: %v", err)
	}
	for form := 1; form <= 3; form++ {
		d, err := cgReencode(c, form)
		if err != nil {
			return fmt.Sprintf("%s encoding does not decode: %v", c03FormNames[form], err)
		}
		if got := cgIdent(d); got != want {
			return fmt.Sprintf("%s encoding decodes to different fields:\n got  %+v\n want %+v", c03FormNames[form], got, want)
		}
		if !cgSameBytes(d.Signature(), c.Signature()) {
			return fmt.Sprintf("%s encoding decodes to another signature", c03FormNames[form])
		}
		dfp, err := d.Fingerprint()
		if err != nil || dfp != fp {
			return fmt.Sprintf("%s encoding decodes to fingerprint %s (%v), issued %s", c03FormNames[form], dfp, err, fp)
		}
	}
	// the PEM form holds exactly one block
	p, _ := c.MarshalPEM()
	if _, rest, err := UnmarshalCertificateFromPEM(p); err != nil || len(rest) != 0 {
		return fmt.Sprintf("PEM form leaves %d bytes / error %v", len(rest), err)
	}
	return ""
}

func c03Issue(rt *rapid.T, r *c03Request) (Certificate, error, string) {
	s := &r.spec
	tbs := r.tbs()
	var signer Certificate
	var key *cgSignKey
	mode := "signed"
	if s.IsCA {
		key = cgSigningKey(s.Curve, rapid.IntRange(0, cgNumSignKeys-1).Draw(rt, "selfkey"))
		mode = "self-signed"
		s.Issuer = ""
	} else {
		ca := c03Signer(rapid.SampledFrom([]Version{Version1, Version2}).Draw(rt, "signerver"), s.Curve)
		signer, key = ca.cert, ca.key
		s.Issuer = ca.fp
	}
	if rapid.IntRange(0, 3).Draw(rt, "signwith") == 0 {
		form := rapid.IntRange(0, 1).Draw(rt, "lambdaS")
		c, err := tbs.SignWith(signer, key.curve, func(b []byte) ([]byte, error) { return key.signRaw(b, form), nil })
		return c, err, mode + "/SignWith"
	}
	c, err := tbs.Sign(signer, key.curve, key.priv)
	return c, err, mode + "/Sign"
}

func TestC03_SignRoundTrip(t *testing.T) {
	vk.Check(t, 40000, func(rt *rapid.T) {
		r := c03DrawRequest(rt)
		s := &r.spec
		c, err, mode := c03Issue(rt, r)
		cls := fmt.Sprintf("v%d/%s", s.Version, s.Curve)
		if err != nil {
			lab := "refused:other"
			switch {
			case cgRefStructural(s) != "":
				lab = "refused:structural"
			case strings.Contains(err.Error(), "UTF-8"):
				lab = "refused:v1-invalid-utf8"
			case strings.Contains(err.Error(), "signing certificate"):
				lab = "refused:outside-signer-window"
			}
			vk.Case("C03", "refused/"+s.String(), false, lab, cls)
			return
		}
		if known := c03KnownClasses(s); len(known) > 0 {
			allOpen := true
			for _, k := range known {
				allOpen = allOpen && vk.KnownOpen("C03", k)
			}
			if allOpen {
				for _, k := range known {
					vk.Excluded("C03", k)
				}
				return
			}
		}
		if msg := c03RoundTrip(c, s); msg != "" {
			rt.Fatalf("%s\n  request (%s): %s (name %d bytes, %d networks, %d unsafe networks)", msg, mode, s, len(s.Name), len(s.Networks), len(s.Unsafe))
		}
		plain := len(s.Name) >= 1 && len(s.Name) <= 253 && len(s.Networks) <= 1 && len(s.Unsafe) == 0
		for _, g := range s.Groups {
			plain = plain && g != ""
		}
		labels := []string{"roundtrip", cls, mode}
		if len(s.Name) == 0 || len(s.Name) > 253 {
			labels = append(labels, fmt.Sprintf("name-outside-1..253/v%d", s.Version))
		}
		if len(s.Name) == 253 {
			labels = append(labels, "name-253")
		}
		if len(s.Networks) >= 8 || len(s.Unsafe) >= 8 {
			labels = append(labels, "many-networks")
		}
		if len(s.Unsafe) > 0 {
			labels = append(labels, "unsafe-networks")
		}
		if r.nbNs != 0 || r.naNs != 0 {
			labels = append(labels, "sub-second-times")
		}
		for _, g := range s.Groups {
			if g == "" {
				labels = append(labels, fmt.Sprintf("empty-group/v%d", s.Version))
				break
			}
		}
		vk.Case("C03", "rt/"+mode+s.String()+fmt.Sprint(len(s.Name), r.nbNs, r.naNs), !plain, labels...)
		if vk.WantSample("C03") {
			vk.Sample("C03", map[string]any{"request": s.String(), "mode": mode})
		}
	})
}

// ---- probes for the recorded findings ----------------------------------------------------------------

func c03Probe(t *testing.T, key string, mutate func(s *cgSpec)) {
	defer vk.Flush()
	ca := c03Signer(Version2, Curve_CURVE25519)
	s := cgSpec{Version: Version2, Curve: Curve_CURVE25519, Name: "probe", Networks: []netip.Prefix{netip.MustParsePrefix("10.1.2.3/24")},
		Groups: []string{"ops"}, NB: cgT0, NA: cgT0 + 3600, Pub: cgLeafPub(Curve_CURVE25519, 0), Issuer: ca.fp}
	mutate(&s)
	c, err := s.tbs().Sign(ca.cert, ca.spec.Curve, ca.key.priv)
	if err != nil {
		return // the signer refuses the request now: signer and decoder agree
	}
	msg := c03RoundTrip(c, &s)
	if msg == "" {
		return // does not reproduce
	}
	if vk.KnownOpen("C03", key) {
		vk.ReportKnown("C03", key)
		return
	}
	t.Fatalf("C03 %s: Sign issued a certificate that does not decode back: %s\n  request: %s", key, msg, &s)
}

func TestC03_Probe_v2_empty_name(t *testing.T) {
	c03Probe(t, "v2-empty-name", func(s *cgSpec) { s.Name = "" })
}

func TestC03_Probe_v2_long_name(t *testing.T) {
	c03Probe(t, "v2-long-name", func(s *cgSpec) { s.Name = strings.Repeat("n", 254) })
}

func TestC03_Probe_v2_empty_group(t *testing.T) {
	c03Probe(t, "v2-empty-group", func(s *cgSpec) { s.Groups = []string{"ops", ""} })
}

// ---- decoders on arbitrary and hostile bytes -----------------------------------------------------------

func c03SpecOf(c Certificate) *cgSpec {
	return &cgSpec{Version: c.Version(), Curve: c.Curve(), Name: c.Name(), Networks: c.Networks(), Unsafe: c.UnsafeNetworks(),
		Groups: c.Groups(), IsCA: c.IsCA(), NB: c.NotBefore().Unix(), NA: c.NotAfter().Unix(), Pub: c.PublicKey(), Issuer: c.Issuer()}
}

// c03CheckAccepted: a certificate a decoder accepted has to obey the structural rules signing
// enforces. emptySigClass reports the separately recorded v1 class.
func c03CheckAccepted(c Certificate) (violation string, emptySig bool) {
	if c == nil {
		return "decoder returned neither a certificate nor an error", false
	}
	if st := cgRefStructural(c03SpecOf(c)); st != "" {
		return "accepted certificate breaks a structural rule: " + st, false
	}
	if len(c.Signature()) == 0 {
		return "accepted certificate has an empty signature", true
	}
	return "", false
}

// c03Decode feeds data to one decoder entry point. pub is used for the handshake forms.
func c03Decode(sel int, data []byte) (Certificate, error, string) {
	switch sel % 8 {
	case 0:
		c, _, err := UnmarshalCertificateFromPEM(data)
		return c, err, "UnmarshalCertificateFromPEM(raw)"
	case 1:
		c, _, err := UnmarshalCertificateFromPEM(pem.EncodeToMemory(&pem.Block{Type: CertificateBanner, Bytes: data}))
		return c, err, "UnmarshalCertificateFromPEM(v1 banner)"
	case 2:
		c, _, err := UnmarshalCertificateFromPEM(pem.EncodeToMemory(&pem.Block{Type: CertificateV2Banner, Bytes: data}))
		return c, err, "UnmarshalCertificateFromPEM(v2 banner)"
	case 3:
		c, err := Recombine(Version1, data, cgLeafPub(Curve_CURVE25519, 0), Curve_CURVE25519)
		return c, err, "Recombine(v1, x25519)"
	case 4:
		c, err := Recombine(Version2, data, cgLeafPub(Curve_CURVE25519, 0), Curve_CURVE25519)
		return c, err, "Recombine(v2, x25519)"
	case 5:
		c, err := Recombine(Version2, data, cgLeafPub(Curve_P256, 0), Curve_P256)
		return c, err, "Recombine(v2, p256)"
	case 6:
		c, err := Recombine(VersionPre1, data, cgLeafPub(Curve_P256, 0), Curve_P256)
		return c, err, "Recombine(v0, p256)"
	default:
		c, err := Recombine(Version(3), data, cgLeafPub(Curve_CURVE25519, 0), Curve_CURVE25519)
		return c, err, "Recombine(v3)"
	}
}

// c03Dev decides whether the next element of a hand-built encoding deviates from what a valid
// certificate holds (about one in ten), so that most encodings carry only one or two deviations.
func c03Dev(rt *rapid.T, label string) bool {
	return rapid.IntRange(0, 9).Draw(rt, "dev-"+label) == 0
}

// c03HostileV1 builds a v1 wire encoding straight from the protobuf message, bypassing validation.
// withPub says whether the public key travels inside (PEM form) or outside (handshake form).
func c03HostileV1(rt *rapid.T, withPub bool) []byte {
	d := &RawNebulaCertificateDetails{Name: "hostile", NotBefore: cgT0, NotAfter: cgT0 + 100}
	if c03Dev(rt, "name") {
		d.Name = ""
	}
	u32 := rapid.OneOf(rapid.Uint32(), rapid.SampledFrom([]uint32{0, 1, 0xffffff00, 0xffffffff, 0x0a010203, 0xff00ff00, 0x80000000}))
	pairs := func(label string, min int) []uint32 {
		var out []uint32
		n := rapid.IntRange(min, 3).Draw(rt, label+"-n")
		for i := 0; i < n; i++ {
			addr := rapid.Uint32Range(1, 0xffffffff).Draw(rt, label+"-addr")
			mask := uint32(0xffffffff) << uint(rapid.IntRange(0, 32).Draw(rt, label+"-zeros"))
			if c03Dev(rt, label+"-zero") {
				addr = 0
			}
			if c03Dev(rt, label+"-mask") {
				mask = u32.Draw(rt, label+"-anymask")
			}
			out = append(out, addr, mask)
		}
		if c03Dev(rt, label+"-odd") {
			out = append(out, u32.Draw(rt, label+"-oddval"))
		}
		return out
	}
	d.IsCA = rapid.IntRange(0, 3).Draw(rt, "h1ca") == 0
	min := 1
	if d.IsCA || c03Dev(rt, "nonet") {
		min = 0
	}
	d.Ips = pairs("h1ips", min)
	d.Subnets = pairs("h1subnets", 0)
	d.Groups = rapid.SliceOfN(rapid.SampledFrom([]string{"", "a", "ops"}), 0, 3).Draw(rt, "h1groups")
	if c03Dev(rt, "times") {
		d.NotBefore = rapid.Int64().Draw(rt, "h1nb")
		d.NotAfter = rapid.Int64().Draw(rt, "h1na")
	}
	if withPub != c03Dev(rt, "pub") {
		d.PublicKey = rapid.SliceOfN(rapid.Byte(), 1, 33).Draw(rt, "h1pub")
	}
	d.Issuer = rapid.SliceOfN(rapid.Byte(), 0, 33).Draw(rt, "h1issuer")
	d.Curve = Curve(rapid.SampledFrom([]int{0, 0, 1, 1, 2}).Draw(rt, "h1curve"))
	rc := &RawNebulaCertificate{Details: d, Signature: rapid.SliceOfN(rapid.Byte(), 1, 65).Draw(rt, "h1sig")}
	if c03Dev(rt, "sig") {
		rc.Signature = nil
	}
	if rapid.IntRange(0, 29).Draw(rt, "h1nodetails") == 0 {
		rc.Details = nil
	}
	b, err := proto.Marshal(rc)
	if err != nil {
		rt.Fatalf("harness: proto.Marshal: %v", err)
	}
	return b
}

// c03HostileV2 builds a v2 wire encoding with cryptobyte, bypassing validation: mostly what a valid
// certificate holds, with single elements missing, empty, duplicated, malformed or oversized.
func c03HostileV2(rt *rapid.T, withPub bool) []byte {
	var b cryptobyte.Builder
	isCA := rapid.IntRange(0, 3).Draw(rt, "h2ca") == 0
	octets := func(label string, min int) [][]byte {
		n := rapid.IntRange(min, 3).Draw(rt, label+"-n")
		var out [][]byte
		for i := 0; i < n; i++ {
			switch {
			case c03Dev(rt, label+"-raw"):
				out = append(out, rapid.SliceOfN(rapid.Byte(), 0, 20).Draw(rt, label+"-rawbytes"))
			case len(out) > 0 && c03Dev(rt, label+"-dup"):
				out = append(out, out[0])
			default:
				p := c03DrawPrefixAny(rt, true, c03Dev(rt, label+"-hostile"), label)
				mb, _ := p.MarshalBinary()
				out = append(out, mb)
			}
		}
		return out
	}
	b.AddASN1(cbasn1.SEQUENCE, func(b *cryptobyte.Builder) {
		if rapid.IntRange(0, 29).Draw(rt, "h2nodetails") != 0 {
			b.AddASN1(TagCertDetails, func(b *cryptobyte.Builder) {
				if !c03Dev(rt, "noname") {
					nl := rapid.IntRange(1, 253).Draw(rt, "h2namelen")
					if c03Dev(rt, "namelen") {
						nl = rapid.SampledFrom([]int{0, 254, 300}).Draw(rt, "h2badnamelen")
					}
					b.AddASN1(TagDetailsName, func(b *cryptobyte.Builder) {
						b.AddBytes([]byte(c03DrawBytesOfLen(rt, nl, "h2name")))
					})
				}
				min := 1
				if isCA || c03Dev(rt, "nonet") {
					min = 0
				}
				nets := octets("h2nets", min)
				if len(nets) > 0 || c03Dev(rt, "emptynets") {
					b.AddASN1(TagDetailsNetworks, func(b *cryptobyte.Builder) {
						for _, n := range nets {
							b.AddASN1OctetString(n)
						}
					})
				}
				if rapid.Bool().Draw(rt, "h2hasunsafe") {
					// unsafe networks of a family that is (mostly) assigned: reuse the network octets
					un := octets("h2unsafe", 0)
					if len(nets) > 0 && !c03Dev(rt, "unsafefam") {
						un = append([][]byte{nets[0]}, nets[1:]...)
					}
					if len(un) > 0 {
						b.AddASN1(TagDetailsUnsafeNetworks, func(b *cryptobyte.Builder) {
							for _, n := range un {
								b.AddASN1OctetString(n)
							}
						})
					}
				}
				if g := rapid.SliceOfN(rapid.SampledFrom([]string{"a", "ops", "dev", "a", ""}), 0, 3).Draw(rt, "h2groups"); len(g) > 0 {
					b.AddASN1(TagDetailsGroups, func(b *cryptobyte.Builder) {
						for _, x := range g {
							b.AddASN1(cbasn1.UTF8String, func(b *cryptobyte.Builder) { b.AddBytes([]byte(x)) })
						}
					})
				}
				if isCA {
					b.AddASN1(TagDetailsIsCA, func(b *cryptobyte.Builder) {
						if c03Dev(rt, "cabytes") {
							b.AddBytes(rapid.SliceOfN(rapid.Byte(), 0, 2).Draw(rt, "h2cabytes"))
						} else {
							b.AddUint8(0xff)
						}
					})
				}
				if !c03Dev(rt, "notimes") {
					b.AddASN1Int64WithTag(rapid.Int64().Draw(rt, "h2nb"), TagDetailsNotBefore)
					b.AddASN1Int64WithTag(rapid.Int64().Draw(rt, "h2na"), TagDetailsNotAfter)
				}
				if rapid.Bool().Draw(rt, "h2issuer") {
					b.AddASN1(TagDetailsIssuer, func(b *cryptobyte.Builder) {
						b.AddBytes(rapid.SliceOfN(rapid.Byte(), 0, 33).Draw(rt, "h2issuerbytes"))
					})
				}
				if c03Dev(rt, "trailing") {
					b.AddBytes(rapid.SliceOfN(rapid.Byte(), 1, 4).Draw(rt, "h2trailing"))
				}
			})
		}
		if rapid.Bool().Draw(rt, "h2curve") {
			b.AddASN1(TagCertCurve, func(b *cryptobyte.Builder) {
				if c03Dev(rt, "curvebytes") {
					b.AddBytes(rapid.SliceOfN(rapid.Byte(), 0, 2).Draw(rt, "h2curvebytes"))
				} else {
					b.AddUint8(uint8(rapid.IntRange(0, 1).Draw(rt, "h2curveval")))
				}
			})
		}
		if withPub != c03Dev(rt, "pub") {
			b.AddASN1(TagCertPublicKey, func(b *cryptobyte.Builder) {
				b.AddBytes(rapid.SliceOfN(rapid.Byte(), 0, 33).Draw(rt, "h2pubbytes"))
			})
		}
		if !c03Dev(rt, "nosig") {
			b.AddASN1(TagCertSignature, func(b *cryptobyte.Builder) {
				b.AddBytes(rapid.SliceOfN(rapid.Byte(), 0, 65).Draw(rt, "h2sig"))
			})
		}
	})
	out, err := b.Bytes()
	if err != nil {
		rt.Fatalf("harness: cryptobyte: %v", err)
	}
	return out
}

func c03MutateBytes(rt *rapid.T, b []byte) []byte {
	b = append([]byte{}, b...)
	n := rapid.IntRange(1, 3).Draw(rt, "nmut")
	for i := 0; i < n && len(b) > 0; i++ {
		switch rapid.IntRange(0, 4).Draw(rt, "mut") {
		case 0:
			p := rapid.IntRange(0, len(b)*8-1).Draw(rt, "bit")
			b[p/8] ^= 1 << (p % 8)
		case 1:
			b = b[:rapid.IntRange(0, len(b)-1).Draw(rt, "trunc")]
		case 2:
			p := rapid.IntRange(0, len(b)).Draw(rt, "inspos")
			ins := rapid.SliceOfN(rapid.Byte(), 1, 4).Draw(rt, "ins")
			b = append(b[:p:p], append(ins, b[p:]...)...)
		case 3:
			p := rapid.IntRange(0, len(b)-1).Draw(rt, "delpos")
			b = append(b[:p:p], b[p+1:]...)
		default:
			p := rapid.IntRange(0, len(b)-1).Draw(rt, "setpos")
			b[p] = rapid.SampledFrom([]byte{0, 1, 0x7f, 0x80, 0xff, 0x30, 0xa0}).Draw(rt, "setval")
		}
	}
	return b
}

const c03EmptySigKey = "v1-decoder-accepts-empty-signature"

func TestC03_DecodeArbitrary(t *testing.T) {
	vk.Check(t, 100000, func(rt *rapid.T) {
		var data []byte
		kind := rapid.SampledFrom([]string{"random", "hostile-v1", "hostile-v1", "hostile-v2", "hostile-v2", "mutant", "mutant"}).Draw(rt, "kind")
		sel := rapid.IntRange(0, 7).Draw(rt, "decoder")
		switch kind {
		case "random":
			data = rapid.SliceOfN(rapid.Byte(), 0, 120).Draw(rt, "data")
		case "hostile-v1":
			sel = rapid.SampledFrom([]int{1, 1, 3, 6}).Draw(rt, "decoder1")
			data = c03HostileV1(rt, sel == 1)
		case "hostile-v2":
			sel = rapid.SampledFrom([]int{2, 2, 4, 5}).Draw(rt, "decoder2")
			data = c03HostileV2(rt, sel == 2)
		default:
			r := c03DrawRequest(rt)
			cgMakeStructural(&r.spec)
			if len(r.spec.Pub) == 0 {
				r.spec.Pub = []byte{1}
			}
			if len(c03KnownClasses(&r.spec)) > 0 {
				r.spec.Name, r.spec.Groups = "mutant", nil
			}
			if r.spec.Version == Version1 { // protobuf strings have to be valid UTF-8 to be marshalled at all
				r.spec.Name = strings.ToValidUTF8(r.spec.Name, "?")
				for i := range r.spec.Groups {
					r.spec.Groups[i] = strings.ToValidUTF8(r.spec.Groups[i], "?")
				}
			}
			c, _, _ := cgRawSign(&r.spec, cgSigningKey(r.spec.Curve, 0), 0)
			if rapid.Bool().Draw(rt, "hsform") {
				data, _ = c.MarshalForHandshakes()
				sel = 3
				if r.spec.Version == Version2 {
					sel = 4
				}
			} else {
				data, _ = c.Marshal()
				sel = int(r.spec.Version)
			}
			data = c03MutateBytes(rt, data)
		}
		c, err, entry := c03Decode(sel, data)
		if err != nil {
			vk.Case("C03", fmt.Sprintf("dec/%d/%x", sel, data), false, "decode:"+kind+":rejected")
			return
		}
		msg, emptySig := c03CheckAccepted(c)
		if emptySig && vk.KnownOpen("C03", c03EmptySigKey) {
			vk.Excluded("C03", c03EmptySigKey)
			return
		}
		if msg != "" {
			rt.Fatalf("%s: %s\n  input %x\n  decoded %s", entry, msg, data, c03SpecOf(c))
		}
		vk.Case("C03", fmt.Sprintf("dec/%d/%x", sel, data), true, "decode:"+kind+":accepted", fmt.Sprintf("decode:accepted/v%d", c.Version()))
	})
}

func TestC03_Probe_v1_decoder_accepts_empty_signature(t *testing.T) {
	defer vk.Flush()
	b, err := proto.Marshal(&RawNebulaCertificate{Details: &RawNebulaCertificateDetails{
		Name: "probe", Ips: []uint32{0x0a010203, 0xffffff00}, NotBefore: cgT0, NotAfter: cgT0 + 1, PublicKey: cgLeafPub(Curve_CURVE25519, 0)}})
	if err != nil {
		t.Fatal(err)
	}
	c, _, err := UnmarshalCertificateFromPEM(pem.EncodeToMemory(&pem.Block{Type: CertificateBanner, Bytes: b}))
	if err != nil {
		return // rejected: does not reproduce
	}
	if len(c.Signature()) != 0 {
		return
	}
	if vk.KnownOpen("C03", c03EmptySigKey) {
		vk.ReportKnown("C03", c03EmptySigKey)
		return
	}
	t.Fatalf("C03 %s: the v1 decoder accepted a certificate without a signature (signing refuses an empty signature, the v2 decoder rejects it)\n  input %x", c03EmptySigKey, b)
}

// ---- native fuzz target (thorough tier) ----------------------------------------------------------------

func FuzzC03Decode(f *testing.F) {
	for _, v := range []Version{Version1, Version2} {
		for _, cu := range []Curve{Curve_CURVE25519, Curve_P256} {
			ca := c03Signer(v, cu)
			s := cgSpec{Version: v, Curve: cu, Name: "seed", Networks: []netip.Prefix{netip.MustParsePrefix("10.1.2.3/24")},
				Unsafe: []netip.Prefix{netip.MustParsePrefix("192.168.0.0/16")}, Groups: []string{"ops", "dev"}, NB: cgT0, NA: cgT0 + 3600,
				Pub: cgLeafPub(cu, 0), Issuer: ca.fp}
			if v == Version2 {
				s.Networks = append(s.Networks, netip.MustParsePrefix("fd00::1/64"))
			}
			c, _, _ := cgRawSign(&s, ca.key, 0)
			m, _ := c.Marshal()
			h, _ := c.MarshalForHandshakes()
			p, _ := c.MarshalPEM()
			cm, _ := ca.cert.Marshal()
			f.Add(m, uint8(v))
			f.Add(cm, uint8(v))
			f.Add(p, uint8(0))
			if v == Version1 {
				f.Add(h, uint8(3))
				f.Add(h, uint8(6))
			} else if cu == Curve_CURVE25519 {
				f.Add(h, uint8(4))
			} else {
				f.Add(h, uint8(5))
			}
		}
	}
	f.Add([]byte{}, uint8(0))
	f.Add([]byte{0x30, 0x00}, uint8(2))
	f.Add([]byte{0x30, 0x80}, uint8(4))
	f.Add([]byte{0x0a, 0x00}, uint8(1))
	f.Add([]byte("-----BEGIN NEBULA CERTIFICATE V2-----\n-----END NEBULA CERTIFICATE V2-----\n"), uint8(0))
	f.Fuzz(func(t *testing.T, data []byte, sel uint8) {
		c, err, entry := c03Decode(int(sel), data)
		if err != nil {
			return
		}
		msg, emptySig := c03CheckAccepted(c)
		if emptySig && vk.KnownOpen("C03", c03EmptySigKey) {
			return
		}
		if msg != "" {
			t.Fatalf("%s: %s\n  input %x\n  decoded %s", entry, msg, data, c03SpecOf(c))
		}
	})
}
