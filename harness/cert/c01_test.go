package cert

// C01 - certificate acceptance equals the documented trust rule.
// Oracle: an independent predicate written from the property text, evaluated on the harness' own
// model of every certificate (cgSpec) - never on what the code under test reports.

import (
	"crypto/sha256"
	"encoding/hex"
	"fmt"
	"sort"
	"strings"
	"testing"
	"time"

	"pgregory.net/rapid"
	"verifkit/vk"
)

type c01Leaf struct {
	spec     cgSpec
	cert     Certificate // as presented to the verifier
	fp       string
	twinFp   string // fingerprint of the other low/high-S form ("" when the curve has none)
	signed   []byte // bytes the signature has to cover
	sig      []byte
	how      string
	issuerCA int
}

type c01Universe struct {
	cas  []*cgCA
	leaf *c01Leaf
}

func c01UnknownFp(tag string) string {
	h := sha256.Sum256([]byte("c01-unknown-" + tag))
	return hex.EncodeToString(h[:])
}

func c01DrawUniverse(rt *rapid.T, wantGood bool) *c01Universe {
	u := &c01Universe{}
	n := rapid.IntRange(1, 4).Draw(rt, "ncas")
	for i := 0; i < n; i++ {
		u.cas = append(u.cas, cgDrawCA(rt, fmt.Sprintf("ca%d", i)))
	}
	ici := rapid.IntRange(0, n-1).Draw(rt, "issuer")
	ca := u.cas[ici]

	var f cgFaults
	sigFault, issuerFault := false, 0
	nf := 0
	if !wantGood {
		nf = rapid.SampledFrom([]int{0, 0, 0, 1, 1, 1, 1, 1, 2, 3}).Draw(rt, "nfaults")
	}
	for i := 0; i < nf; i++ {
		switch rapid.IntRange(0, 6).Draw(rt, "fault") {
		case 0:
			f.Window = true
		case 1:
			f.Groups = true
		case 2:
			f.Networks = true
		case 3:
			f.Unsafe = true
		case 4:
			f.Curve = true
		case 5:
			sigFault = true
		case 6:
			issuerFault = rapid.IntRange(1, 3).Draw(rt, "issuerfault")
		}
	}
	spec := cgDrawLeafSpec(rt, ca, f, "leaf")
	l := &c01Leaf{issuerCA: ici}
	switch issuerFault {
	case 1:
		spec.Issuer = c01UnknownFp("issuer")
		l.issuerCA = -1
	case 2:
		spec.Issuer = ""
		l.issuerCA = -1
	case 3: // names another CA of the universe (if any) while being signed by ca's key
		o := rapid.IntRange(0, n-1).Draw(rt, "otherissuer")
		spec.Issuer = u.cas[o].fp
		l.issuerCA = o
	}
	key := ca.key
	if sigFault {
		key = cgSigningKey(ca.spec.Curve, (ca.key.idx+1+rapid.IntRange(0, cgNumSignKeys-2).Draw(rt, "wrongkey"))%cgNumSignKeys)
	}
	l.spec = spec

	var c Certificate
	if issuerFault == 0 && rapid.Bool().Draw(rt, "viasign") {
		// the real signing API (refuses out-of-constraint specifications; then the harness signer is used)
		sc, err := spec.tbs().Sign(ca.cert, ca.spec.Curve, key.priv)
		if err == nil {
			c = sc
			l.how = "sign"
		}
	}
	if c == nil {
		form := 0
		if rapid.IntRange(0, 3).Draw(rt, "highS") == 0 {
			form = 1
		}
		c, _, _ = cgRawSign(&spec, key, form)
		l.how = "raw"
		if form == 1 && key.curve == Curve_P256 {
			l.how = "raw-highS"
		}
	}
	// present through one of the encodings
	enc := rapid.IntRange(0, 3).Draw(rt, "encoding")
	if pc, err := cgReencode(c, enc); err == nil {
		c = pc
		l.how += fmt.Sprintf("/enc%d", enc)
	} else {
		l.how += "/nodecode"
	}
	if rapid.IntRange(0, 9).Draw(rt, "flipsig") == 0 {
		// corrupt the signature after the fact
		s := append([]byte{}, c.Signature()...)
		i := rapid.IntRange(0, len(s)*8-1).Draw(rt, "flipbit")
		s[i/8] ^= 1 << (i % 8)
		c = cgWithSignature(c, s)
		l.how += "/sigflip"
	}
	l.cert = c
	l.signed = cgSignedBytes(c)
	l.sig = c.Signature()
	fp, err := c.Fingerprint()
	if err != nil {
		rt.Fatalf("harness: leaf fingerprint: %v", err)
	}
	l.fp = fp
	if spec.Curve == Curve_P256 {
		if ts, ok := cgSwapS(l.sig); ok {
			tfp, err := cgWithSignature(c, ts).Fingerprint()
			if err != nil {
				rt.Fatalf("harness: twin fingerprint: %v", err)
			}
			l.twinFp = tfp
		}
	}
	u.leaf = l
	return u
}

type c01Env struct {
	mask []bool
	bl   []string
	t    int64
}

// c01Predicate is the documented trust rule. It returns the list of false conjuncts.
func c01Predicate(u *c01Universe, e *c01Env) []string {
	l := u.leaf
	var bad []string
	for _, b := range e.bl {
		if b == l.fp || (l.twinFp != "" && b == l.twinFp) {
			bad = append(bad, "blocklist")
			break
		}
	}
	var ca *cgCA
	if l.spec.Issuer != "" {
		for i, c := range u.cas {
			if e.mask[i] && c.fp == l.spec.Issuer {
				ca = c
			}
		}
	}
	if ca == nil {
		return append(bad, "issuer")
	}
	if ca.spec.Curve != l.spec.Curve {
		bad = append(bad, "curve")
	}
	if e.t < ca.spec.NB || e.t > ca.spec.NA {
		bad = append(bad, "ca-time")
	}
	if e.t < l.spec.NB || e.t > l.spec.NA {
		bad = append(bad, "leaf-time")
	}
	if !cgVerifyRaw(ca.spec.Curve, ca.spec.Pub, l.signed, l.sig) {
		bad = append(bad, "signature")
	}
	return append(bad, cgRefConstraints(&ca.spec, &l.spec)...)
}

func c01DrawEnv(rt *rapid.T, u *c01Universe, clean bool) *c01Env {
	l := u.leaf
	e := &c01Env{mask: make([]bool, len(u.cas))}
	for i := range u.cas {
		p := 8
		if clean {
			p = 10
		}
		e.mask[i] = rapid.IntRange(0, 9).Draw(rt, "inpool") < p
	}
	if !clean && rapid.IntRange(0, 2).Draw(rt, "hasbl") == 0 {
		cands := []string{l.fp, c01UnknownFp("bl")}
		if l.twinFp != "" {
			cands = append(cands, l.twinFp, l.twinFp)
		}
		if l.issuerCA >= 0 {
			cands = append(cands, u.cas[l.issuerCA].fp)
		}
		e.bl = rapid.SliceOfNDistinct(rapid.SampledFrom(cands), 1, 2, rapid.ID[string]).Draw(rt, "bl")
	} else if rapid.IntRange(0, 3).Draw(rt, "unrelatedbl") == 0 {
		e.bl = []string{c01UnknownFp("bl")}
	}
	// time
	lo, hi := l.spec.NB, l.spec.NA
	if l.issuerCA >= 0 {
		ca := u.cas[l.issuerCA]
		if ca.spec.NB > lo {
			lo = ca.spec.NB
		}
		if ca.spec.NA < hi {
			hi = ca.spec.NA
		}
	}
	if (clean || rapid.IntRange(0, 9).Draw(rt, "tvalid") < 6) && lo <= hi {
		e.t = rapid.SampledFrom([]int64{lo, hi, lo + (hi-lo)/2, lo + (hi-lo)/3}).Draw(rt, "tin")
	} else {
		c := []int64{l.spec.NB - 1, l.spec.NB, l.spec.NB + 1, l.spec.NA - 1, l.spec.NA, l.spec.NA + 1}
		if l.issuerCA >= 0 {
			s := u.cas[l.issuerCA].spec
			c = append(c, s.NB-1, s.NB, s.NB+1, s.NA-1, s.NA, s.NA+1)
		}
		c = append(c, cgT0+int64(rapid.IntRange(-3000, 8000).Draw(rt, "trandom")))
		e.t = rapid.SampledFrom(c).Draw(rt, "tedge")
	}
	return e
}

func c01BuildPool(rt *rapid.T, u *c01Universe, e *c01Env) *CAPool {
	p := cgPool(rt, u.cas, e.mask)
	for _, b := range e.bl {
		p.BlocklistFingerprint(b)
	}
	return p
}

func c01Describe(u *c01Universe, e *c01Env) string {
	var sb strings.Builder
	for i, c := range u.cas {
		fmt.Fprintf(&sb, "\n  CA%d inpool=%v fp=%.12s %s", i, e.mask[i], c.fp, &c.spec)
	}
	l := u.leaf
	fmt.Fprintf(&sb, "\n  leaf (%s) fp=%.12s twin=%.12s %s\n  blocklist=%.12q t=%d", l.how, l.fp, l.twinFp, &l.spec, e.bl, e.t-cgT0)
	return sb.String()
}

func c01Key(u *c01Universe, e *c01Env) string {
	var sb strings.Builder
	for i, c := range u.cas {
		fmt.Fprintf(&sb, "%v%s|", e.mask[i], &c.spec)
	}
	bl := append([]string{}, e.bl...)
	sort.Strings(bl)
	fmt.Fprintf(&sb, "%s|%s|%v|%d", &u.leaf.spec, u.leaf.how, bl, e.t)
	return sb.String()
}

func c01Record(u *c01Universe, e *c01Env, bad []string) {
	l := u.leaf
	cls := fmt.Sprintf("v%d/%s", l.spec.Version, l.spec.Curve)
	nt := false
	var labels []string
	switch {
	case len(bad) == 0:
		labels = append(labels, "accept")
		boundary := e.t == l.spec.NB || e.t == l.spec.NA
		if l.issuerCA >= 0 {
			s := u.cas[l.issuerCA].spec
			boundary = boundary || e.t == s.NB || e.t == s.NA
			if len(s.Groups)+len(s.Networks)+len(s.Unsafe) > 0 {
				labels = append(labels, "accept:constrained-ca")
			}
		}
		if boundary {
			nt = true
			labels = append(labels, "accept:boundary-second/"+cls)
		}
	case len(bad) == 1:
		nt = true
		labels = append(labels, "single:"+bad[0]+"/"+cls)
	default:
		labels = append(labels, "multi-fault")
	}
	labels = append(labels, "how:"+l.how)
	if l.spec.IsCA {
		labels = append(labels, "leaf-ca-flagged")
	}
	vk.Case("C01", c01Key(u, e), nt, labels...)
	if vk.WantSample("C01") {
		vk.Sample("C01", map[string]any{"universe": c01Describe(u, e), "false_conjuncts": bad})
	}
}

func TestC01_TrustRule(t *testing.T) {
	vk.Check(t, 15000, func(rt *rapid.T) {
		u := c01DrawUniverse(rt, false)
		for k := 0; k < 4; k++ {
			e := c01DrawEnv(rt, u, k < 2 && rapid.Bool().Draw(rt, "clean"))
			pool := c01BuildPool(rt, u, e)
			bad := c01Predicate(u, e)
			cc, err := pool.VerifyCertificate(time.Unix(e.t, 0), u.leaf.cert)
			if (err == nil) != (len(bad) == 0) {
				rt.Fatalf("VerifyCertificate verdict %v, trust rule says false conjuncts=%v%s", err, bad, c01Describe(u, e))
			}
			if err == nil && cc == nil {
				rt.Fatalf("VerifyCertificate returned neither an error nor a result%s", c01Describe(u, e))
			}
			c01Record(u, e, bad)
			// A trust pool is long-lived and is asked again and again: the answer at another instant must
			// follow the rule for THAT instant, whatever the same pool answered before.
			l := u.leaf
			e2 := *e
			e2.t = rapid.SampledFrom([]int64{l.spec.NB - 1, l.spec.NB, l.spec.NA, l.spec.NA + 1, l.spec.NB + (l.spec.NA-l.spec.NB)/2, e.t}).Draw(rt, "tagain")
			bad2 := c01Predicate(u, &e2)
			if _, err2 := pool.VerifyCertificate(time.Unix(e2.t, 0), l.cert); (err2 == nil) != (len(bad2) == 0) {
				rt.Fatalf("second question to the same pool (first at t=%d answered %v): VerifyCertificate verdict %v at t=%d, trust rule says false conjuncts=%v%s", e.t-cgT0, err, err2, e2.t-cgT0, bad2, c01Describe(u, &e2))
			}
			if (len(bad) == 0) != (len(bad2) == 0) {
				vk.Label("C01", "same-pool-asked-again-with-the-other-verdict")
			}
		}
	})
}

// Re-checking a previously accepted certificate gives the same verdict as a full check, after any
// sequence of blocklist edits, pool rebuilds and time changes.
func TestC01_CachedRecheck(t *testing.T) {
	vk.Check(t, 7000, func(rt *rapid.T) {
		u := c01DrawUniverse(rt, true)
		e := c01DrawEnv(rt, u, true)
		e.mask[u.leaf.issuerCA] = true
		e.bl = nil
		pool := c01BuildPool(rt, u, e)
		bad := c01Predicate(u, e)
		cached, err := pool.VerifyCertificate(time.Unix(e.t, 0), u.leaf.cert)
		if (err == nil) != (len(bad) == 0) {
			rt.Fatalf("VerifyCertificate verdict %v, trust rule says false conjuncts=%v%s", err, bad, c01Describe(u, e))
		}
		if err != nil {
			// the leaf window can be empty against a one-second CA; nothing was accepted, nothing to re-check
			vk.Case("C01", "cached-none/"+c01Key(u, e), false, "cached:not-accepted")
			return
		}
		steps := rapid.IntRange(1, 6).Draw(rt, "steps")
		var trace []string
		changed := false
		for s := 0; s < steps; s++ {
			switch rapid.IntRange(0, 4).Draw(rt, "edit") {
			case 0, 1: // blocklist one more fingerprint
				cands := []string{u.leaf.fp, c01UnknownFp("bl"), u.cas[u.leaf.issuerCA].fp}
				if u.leaf.twinFp != "" {
					cands = append(cands, u.leaf.twinFp, u.leaf.twinFp)
				}
				b := rapid.SampledFrom(cands).Draw(rt, "blfp")
				e.bl = append(e.bl, b)
				pool.BlocklistFingerprint(b)
				trace = append(trace, fmt.Sprintf("block %.12s", b))
			case 2:
				e.bl = nil
				pool.ResetCertBlocklist()
				trace = append(trace, "reset blocklist")
			case 3: // pool rebuilt from another CA set, blocklist re-applied
				for i := range e.mask {
					e.mask[i] = rapid.IntRange(0, 9).Draw(rt, "inpool2") < 7
				}
				pool = c01BuildPool(rt, u, e)
				trace = append(trace, fmt.Sprintf("rebuild pool %v", e.mask))
			default:
				e2 := c01DrawEnv(rt, u, false)
				e.t = e2.t
				trace = append(trace, fmt.Sprintf("time %d", e.t-cgT0))
			}
			bad := c01Predicate(u, e)
			_, full := pool.VerifyCertificate(time.Unix(e.t, 0), u.leaf.cert)
			re := pool.VerifyCachedCertificate(time.Unix(e.t, 0), cached)
			if (full == nil) != (re == nil) {
				rt.Fatalf("cached re-check says %v, full check says %v after %v%s", re, full, trace, c01Describe(u, e))
			}
			if (full == nil) != (len(bad) == 0) {
				rt.Fatalf("VerifyCertificate verdict %v, trust rule says false conjuncts=%v after %v%s", full, bad, trace, c01Describe(u, e))
			}
			lab := "cached:still-accepted"
			if len(bad) > 0 {
				changed = true
				lab = "cached:now-rejected:" + bad[0]
			}
			vk.Label("C01", lab)
		}
		vk.Case("C01", "cached/"+strings.Join(trace, ";")+c01Key(u, e), changed, "cached-sequence")
	})
}
