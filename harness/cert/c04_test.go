package cert

// C04 - issuance never exceeds the signing CA (library part).
// Oracle: the reference constraint predicate of certgen (window / groups / networks / unsafe
// networks / curve / CA flag) plus the structural rules, all evaluated on the harness' own model of
// the request; every issued certificate is then verified against a pool holding its signer and its
// P-256 signature is checked for low-S with math/big.

import (
	"fmt"
	"net/netip"
	"slices"
	"strings"
	"testing"
	"time"

	"github.com/slackhq/nebula/cert/p256"
	"pgregory.net/rapid"
	"verifkit/vk"
)

var c04StructFaults = []string{"no-network", "zero-address", "v6-in-v1", "4in6", "duplicate-network", "duplicate-unsafe",
	"unsafe-family", "empty-pubkey", "invalid-prefix"}

// c04ApplyStructFault makes the specification structurally unacceptable in the named way; returns
// false when that is impossible for this specification.
func c04ApplyStructFault(s *cgSpec, kind string, rt *rapid.T) bool {
	switch kind {
	case "no-network":
		if s.IsCA {
			return false
		}
		s.Networks = nil
	case "zero-address":
		z := netip.MustParsePrefix("0.0.0.0/8")
		if s.Version == Version2 && rapid.Bool().Draw(rt, "zero6") {
			z = netip.MustParsePrefix("::/64")
		}
		s.Networks = append(s.Networks, z)
	case "v6-in-v1":
		if s.Version != Version1 {
			return false
		}
		p := cgDrawPrefix(rt, 6, "v6inv1")
		if rapid.Bool().Draw(rt, "v6unsafe") {
			s.Unsafe = append(s.Unsafe, p)
		} else {
			s.Networks = append(s.Networks, p)
		}
	case "4in6":
		s.Networks = append(s.Networks, netip.MustParsePrefix("::ffff:10.1.2.3/120"))
	case "duplicate-network":
		if s.Version != Version2 || len(s.Networks) == 0 {
			return false
		}
		s.Networks = append(s.Networks, s.Networks[rapid.IntRange(0, len(s.Networks)-1).Draw(rt, "dup")])
	case "duplicate-unsafe":
		if s.Version != Version2 || len(s.Unsafe) == 0 {
			return false
		}
		s.Unsafe = append(s.Unsafe, s.Unsafe[rapid.IntRange(0, len(s.Unsafe)-1).Draw(rt, "dupu")])
	case "unsafe-family":
		if s.Version != Version2 || s.IsCA {
			return false
		}
		has6 := false
		for _, p := range s.Networks {
			has6 = has6 || p.Addr().Is6()
		}
		if has6 {
			return false
		}
		s.Unsafe = append(s.Unsafe, cgDrawPrefix(rt, 6, "unsafefam"))
	case "empty-pubkey":
		s.Pub = nil
	case "invalid-prefix":
		if rapid.Bool().Draw(rt, "invunsafe") {
			s.Unsafe = append(s.Unsafe, netip.Prefix{})
		} else {
			s.Networks = append(s.Networks, netip.Prefix{})
		}
	}
	return true
}

func c04Describe(ca *cgCA, s *cgSpec, mode string) string {
	if ca == nil {
		return fmt.Sprintf("\n  self-sign (%s) %s", mode, s)
	}
	return fmt.Sprintf("\n  signer fp=%.12s %s\n  request (%s) %s", ca.fp, &ca.spec, mode, s)
}

func TestC04_IssuanceWithinCA(t *testing.T) {
	vk.Check(t, 40000, func(rt *rapid.T) {
		ca := cgDrawCA(rt, "ca")
		selfSign := rapid.IntRange(0, 7).Draw(rt, "selfsign") == 0
		var f cgFaults
		structFault := ""
		nf := rapid.SampledFrom([]int{0, 0, 0, 1, 1, 1, 1, 2}).Draw(rt, "nfaults")
		caFlag := false
		for i := 0; i < nf; i++ {
			switch rapid.IntRange(0, 6).Draw(rt, "fault") {
			case 0:
				f.Window = true
			case 1:
				f.Groups = true
			case 2:
				f.Networks = true
			case 3:
				f.Unsafe = true
			case 4:
				f.Curve = true
			case 5:
				caFlag = true
			case 6:
				structFault = rapid.SampledFrom(c04StructFaults).Draw(rt, "structfault")
			}
		}
		s := cgDrawLeafSpec(rt, ca, f, "req")
		s.Issuer = ""
		s.IsCA = caFlag
		if selfSign {
			s.IsCA = rapid.IntRange(0, 3).Draw(rt, "selfca") != 0
		}
		if s.IsCA {
			// a CA request carries a signing key
			s.Pub = cgSigningKey(s.Curve, rapid.IntRange(0, cgNumSignKeys-1).Draw(rt, "capub")).pub
		}
		if structFault != "" && !c04ApplyStructFault(&s, structFault, rt) {
			structFault = ""
		}

		// reference verdict
		var why []string
		if st := cgRefStructural(&s); st != "" {
			why = append(why, "structural")
		}
		var signer Certificate
		key := ca.key
		if selfSign {
			// self-signing: the key is the request's own signing key
			key = cgSigningKey(s.Curve, rapid.IntRange(0, cgNumSignKeys-1).Draw(rt, "selfkey"))
			if s.IsCA && len(s.Pub) > 0 {
				s.Pub = key.pub
			}
			if !s.IsCA {
				why = append(why, "self-signed-not-ca")
			}
		} else {
			signer = ca.cert
			if s.IsCA {
				why = append(why, "ca-flag")
			}
			if s.Curve != ca.spec.Curve {
				why = append(why, "curve")
			}
			why = append(why, cgRefConstraints(&ca.spec, &s)...)
		}

		// issue: Sign with the signer's own key, or SignWith and a lambda producing high- or low-S
		mode := "Sign"
		var c Certificate
		var err error
		tbs := s.tbs()
		if rapid.IntRange(0, 2).Draw(rt, "signwith") == 0 {
			form := rapid.IntRange(0, 1).Draw(rt, "lambdaS")
			mode = fmt.Sprintf("SignWith/form%d", form)
			c, err = tbs.SignWith(signer, key.curve, func(b []byte) ([]byte, error) { return key.signRaw(b, form), nil })
		} else {
			c, err = tbs.Sign(signer, key.curve, key.priv)
		}

		desc := c04Describe(map[bool]*cgCA{true: nil, false: ca}[selfSign], &s, mode)
		if err == nil && len(why) > 0 {
			rt.Fatalf("signing succeeded although the request violates %v%s", why, desc)
		}

		constrained := !selfSign && len(ca.spec.Groups)+len(ca.spec.Networks)+len(ca.spec.Unsafe) > 0
		labels := []string{mode[:4], fmt.Sprintf("v%d/%s", s.Version, s.Curve)}
		nt := false
		switch {
		case len(why) == 0 && err != nil:
			// the statement only bounds success ("only when"); an unexpected refusal is recorded, not failed
			labels = append(labels, "refused-although-within-constraints")
			vk.Note("C04", "refusal of a request the reference predicate allows: "+err.Error()+desc)
		case len(why) == 0:
			labels = append(labels, "issued")
			if selfSign {
				labels = append(labels, "issued:self-signed-ca")
			}
			if constrained {
				nt = true
				labels = append(labels, "issued:constrained-ca")
			}
		case len(why) == 1:
			nt = true
			lab := "single:" + why[0]
			if why[0] == "structural" {
				lab += ":" + cgRefStructural(&s)
			}
			labels = append(labels, lab)
		default:
			labels = append(labels, "multi-violation")
		}

		if err == nil {
			// the issued certificate verifies against a pool holding its signer
			pool := NewCAPool()
			if selfSign {
				if aerr := pool.AddCA(c); aerr != nil && !strings.Contains(aerr.Error(), ErrExpired.Error()) {
					rt.Fatalf("self-signed certificate is not accepted as a CA: %v%s", aerr, desc)
				}
				if !cgVerifyRaw(s.Curve, key.pub, cgSignedBytes(c), c.Signature()) {
					rt.Fatalf("self-signed certificate's signature does not verify under its own key%s", desc)
				}
			} else {
				pool = cgPool(rt, []*cgCA{ca}, []bool{true})
				if c.Issuer() != ca.fp {
					rt.Fatalf("issued certificate names issuer %q, signer is %q%s", c.Issuer(), ca.fp, desc)
				}
				if !cgVerifyRaw(ca.spec.Curve, ca.spec.Pub, cgSignedBytes(c), c.Signature()) {
					rt.Fatalf("issued certificate's signature does not verify under the signer's key%s", desc)
				}
				if s.NB <= s.NA {
					for _, at := range []int64{s.NB, s.NA, s.NB + (s.NA-s.NB)/2} {
						if _, verr := pool.VerifyCertificate(time.Unix(at, 0), c); verr != nil {
							rt.Fatalf("issued certificate does not verify against its signer at t=%d: %v%s", at-cgT0, verr, desc)
						}
					}
				} else {
					labels = append(labels, "issued:empty-window")
				}
				// the issued certificate carries what was requested (accessor level), so that the
				// constraint verdict above was about the right content
				got := cgIdent(c)
				want := cgIdentity{Version: s.Version, Name: s.Name, Networks: cgPrefixList(s.Networks, s.Version == Version2),
					Unsafe: cgPrefixList(s.Unsafe, s.Version == Version2), IsCA: s.IsCA, NB: s.NB, NA: s.NA, Issuer: ca.fp, Curve: s.Curve,
					Pub: fmt.Sprintf("%x", s.Pub)}
				want.Groups = got.Groups
				if !slices.Equal(c.Groups(), s.Groups) && !(len(c.Groups()) == 0 && len(s.Groups) == 0) {
					rt.Fatalf("issued certificate has groups %q, requested %q%s", c.Groups(), s.Groups, desc)
				}
				if got != want {
					rt.Fatalf("issued certificate differs from the request:\n got  %+v\n want %+v%s", got, want, desc)
				}
			}
			if s.Curve == Curve_P256 {
				low, ok := cgIsLowS(c.Signature())
				if !ok || !low {
					rt.Fatalf("P-256 signature %x is not in low-S form%s", c.Signature(), desc)
				}
				if n, nerr := p256.IsNormalized(c.Signature()); nerr != nil || !n {
					rt.Fatalf("p256.IsNormalized(%x) = %v, %v%s", c.Signature(), n, nerr, desc)
				}
				labels = append(labels, "issued:p256-lowS-checked")
			}
		}
		// The same TBSCertificate value signed again by another CA (rotation: identical host details
		// issued under the old and the new CA): the second issuance is judged against ITS signer only.
		if rapid.IntRange(0, 3).Draw(rt, "reissue") == 0 {
			var ca2 *cgCA
			if rapid.IntRange(0, 3).Draw(rt, "successor") != 0 {
				// the successor of the first CA: same constraints, another key
				s2 := ca.spec
				s2.Name = "ca2"
				k2 := cgSigningKey(s2.Curve, rapid.IntRange(0, cgNumSignKeys-1).Draw(rt, "ca2-key"))
				s2.Pub = k2.pub
				cc, cerr := s2.tbs().Sign(nil, s2.Curve, k2.priv)
				if cerr != nil {
					rt.Fatalf("harness: self-signing the successor CA failed: %v", cerr)
				}
				fp2, cerr := cc.Fingerprint()
				if cerr != nil {
					rt.Fatalf("harness: %v", cerr)
				}
				ca2 = &cgCA{spec: s2, key: k2, cert: cc, fp: fp2}
			} else {
				ca2 = cgDrawCA(rt, "ca2")
			}
			var why2 []string
			if st := cgRefStructural(&s); st != "" {
				why2 = append(why2, "structural")
			}
			if s.IsCA {
				why2 = append(why2, "ca-flag")
			}
			if s.Curve != ca2.spec.Curve {
				why2 = append(why2, "curve")
			}
			why2 = append(why2, cgRefConstraints(&ca2.spec, &s)...)
			c2, err2 := tbs.Sign(ca2.cert, ca2.key.curve, ca2.key.priv)
			desc2 := " [second issuance of the same TBS value]" + c04Describe(ca2, &s, "Sign")
			if err2 == nil && len(why2) > 0 {
				rt.Fatalf("signing succeeded although the request violates %v%s", why2, desc2)
			}
			if err2 == nil {
				if c2.Issuer() != ca2.fp {
					rt.Fatalf("issued certificate names issuer %q, signer is %q (first signer was %q)%s", c2.Issuer(), ca2.fp, ca.fp, desc2)
				}
				if !cgVerifyRaw(ca2.spec.Curve, ca2.spec.Pub, cgSignedBytes(c2), c2.Signature()) {
					rt.Fatalf("issued certificate's signature does not verify under the signer's key%s", desc2)
				}
				if s.NB <= s.NA {
					pool2 := cgPool(rt, []*cgCA{ca2}, []bool{true})
					if _, verr := pool2.VerifyCertificate(time.Unix(s.NB+(s.NA-s.NB)/2, 0), c2); verr != nil {
						rt.Fatalf("issued certificate does not verify against its signer: %v%s", verr, desc2)
					}
				}
				if ca2.fp != ca.fp && err == nil {
					labels = append(labels, "reissued-under-another-ca")
				} else {
					labels = append(labels, "reissued")
				}
			} else {
				labels = append(labels, "reissue-refused")
			}
		}
		vk.Case("C04", fmt.Sprintf("%v|%s|%s|%s", selfSign, &ca.spec, &s, mode), nt, labels...)
		if vk.WantSample("C04") {
			vk.Sample("C04", map[string]any{"case": desc, "violations": why, "issued": err == nil})
		}
	})
}
