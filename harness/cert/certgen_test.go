package cert

// Shared generator for the certificate properties C01, C02, C03, C04 (and key material for C43).
// Everything here is prefixed cg. Keys are deterministic (derived from fixed labels) and cached per
// process: key generation is the cost driver, key bytes never steer control flow.

import (
	"bytes"
	"crypto"
	"crypto/ecdh"
	"crypto/ecdsa"
	"crypto/ed25519"
	"crypto/elliptic"
	"crypto/rand"
	"crypto/sha256"
	"encoding/asn1"
	"encoding/hex"
	"fmt"
	"math/big"
	"net/netip"
	"slices"
	"sort"
	"strings"
	"sync"
	"time"

	"pgregory.net/rapid"
)

const cgT0 = int64(1_700_000_000)

// ---- keys ------------------------------------------------------------------------------------

type cgSignKey struct {
	curve Curve
	idx   int
	pub   []byte // PublicKey of a CA certificate holding this key
	priv  []byte // what TBSCertificate.Sign takes
	ed    ed25519.PrivateKey
	ec    *ecdsa.PrivateKey
}

var (
	cgMu       sync.Mutex
	cgSignKeys = map[[2]int]*cgSignKey{}
	cgLeafPubs = map[[2]int][]byte{}
)

const cgNumSignKeys = 5

func cgSigningKey(curve Curve, i int) *cgSignKey {
	cgMu.Lock()
	defer cgMu.Unlock()
	id := [2]int{int(curve), i}
	if k := cgSignKeys[id]; k != nil {
		return k
	}
	k := &cgSignKey{curve: curve, idx: i}
	for bump := 0; ; bump++ {
		seed := sha256.Sum256([]byte(fmt.Sprintf("verif-cg-signkey-%d-%d-%d", curve, i, bump)))
		if curve == Curve_CURVE25519 {
			k.ed = ed25519.NewKeyFromSeed(seed[:])
			k.pub = []byte(k.ed.Public().(ed25519.PublicKey))
			k.priv = []byte(k.ed)
			break
		}
		ec, err := ecdsa.ParseRawPrivateKey(elliptic.P256(), seed[:])
		if err != nil {
			continue
		}
		k.ec = ec
		pub, err := ec.PublicKey.Bytes()
		if err != nil {
			panic(err)
		}
		k.pub = pub
		k.priv = seed[:]
		break
	}
	cgSignKeys[id] = k
	return k
}

// cgLeafPub returns a key-agreement public key of the given curve (X25519: 32 bytes, P-256: 65
// bytes uncompressed).
func cgLeafPub(curve Curve, i int) []byte {
	cgMu.Lock()
	defer cgMu.Unlock()
	id := [2]int{int(curve), i}
	if p := cgLeafPubs[id]; p != nil {
		return p
	}
	var p []byte
	for bump := 0; ; bump++ {
		seed := sha256.Sum256([]byte(fmt.Sprintf("verif-cg-leafkey-%d-%d-%d", curve, i, bump)))
		if curve == Curve_CURVE25519 {
			k, err := ecdh.X25519().NewPrivateKey(seed[:])
			if err != nil {
				continue
			}
			p = k.PublicKey().Bytes()
			break
		}
		k, err := ecdh.P256().NewPrivateKey(seed[:])
		if err != nil {
			continue
		}
		p = k.PublicKey().Bytes()
		break
	}
	cgLeafPubs[id] = p
	return p
}

type cgECSig struct{ R, S *big.Int }

func cgSplitSig(sig []byte) (r, s *big.Int, ok bool) {
	var v cgECSig
	rest, err := asn1.Unmarshal(sig, &v)
	if err != nil || len(rest) != 0 || v.R == nil || v.S == nil || v.R.Sign() <= 0 || v.S.Sign() <= 0 {
		return nil, nil, false
	}
	return v.R, v.S, true
}

func cgJoinSig(r, s *big.Int) []byte {
	b, err := asn1.Marshal(cgECSig{r, s})
	if err != nil {
		panic(err)
	}
	return b
}

var cgP256N = elliptic.P256().Params().N

// cgIsLowS: S <= floor(N/2), computed with math/big only.
func cgIsLowS(sig []byte) (low bool, ok bool) {
	_, s, ok := cgSplitSig(sig)
	if !ok {
		return false, false
	}
	half := new(big.Int).Rsh(cgP256N, 1)
	return s.Cmp(half) <= 0, true
}

// cgSwapS returns the other (r, N-s) form of an ECDSA signature.
func cgSwapS(sig []byte) ([]byte, bool) {
	r, s, ok := cgSplitSig(sig)
	if !ok || s.Cmp(cgP256N) >= 0 {
		return nil, false
	}
	return cgJoinSig(r, new(big.Int).Sub(cgP256N, s)), true
}

// signRaw signs msg the way the certificate format defines it (Ed25519 over the bytes, ECDSA over
// their SHA-256). form: 0 low-S, 1 high-S (ignored for Ed25519).
func (k *cgSignKey) signRaw(msg []byte, form int) []byte {
	if k.curve == Curve_CURVE25519 {
		return ed25519.Sign(k.ed, msg)
	}
	h := sha256.Sum256(msg)
	sig, err := ecdsa.SignASN1(rand.Reader, k.ec, h[:])
	if err != nil {
		panic(err)
	}
	low, ok := cgIsLowS(sig)
	if !ok {
		panic("harness: unparsable ecdsa signature")
	}
	if low != (form == 0) {
		sig, _ = cgSwapS(sig)
	}
	return sig
}

// signDeterministic signs like signRaw but without randomness (Ed25519 is deterministic anyway,
// ECDSA per RFC 6979 when the random source is nil). Native fuzz targets need it: the coordinator
// and every worker process rebuild their base certificates and must arrive at the same bytes.
func (k *cgSignKey) signDeterministic(msg []byte) ([]byte, error) {
	if k.curve == Curve_CURVE25519 {
		return ed25519.Sign(k.ed, msg), nil
	}
	h := sha256.Sum256(msg)
	return k.ec.Sign(nil, h[:], crypto.SHA256)
}

// cgVerifyRaw verifies with the standard library only, using the algorithm of the key's curve.
func cgVerifyRaw(curve Curve, pub, msg, sig []byte) bool {
	switch curve {
	case Curve_CURVE25519:
		if len(pub) != ed25519.PublicKeySize {
			return false
		}
		return ed25519.Verify(ed25519.PublicKey(pub), msg, sig)
	case Curve_P256:
		pk, err := ecdsa.ParseUncompressedPublicKey(elliptic.P256(), pub)
		if err != nil {
			return false
		}
		h := sha256.Sum256(msg)
		return ecdsa.VerifyASN1(pk, h[:], sig)
	}
	return false
}

// ---- certificate model ---------------------------------------------------------------------------

type cgSpec struct {
	Version  Version
	Curve    Curve
	Name     string
	Networks []netip.Prefix
	Unsafe   []netip.Prefix
	Groups   []string
	IsCA     bool
	NB, NA   int64
	Pub      []byte
	Issuer   string
}

func (s *cgSpec) String() string {
	return fmt.Sprintf("{v%d %s name=%q nets=%v unsafe=%v groups=%q ca=%v nb=%d na=%d pub=%x.. issuer=%.12s}",
		s.Version, s.Curve, s.Name, s.Networks, s.Unsafe, s.Groups, s.IsCA, s.NB-cgT0, s.NA-cgT0, s.Pub[:min(4, len(s.Pub))], s.Issuer)
}

func (s *cgSpec) tbs() *TBSCertificate {
	return &TBSCertificate{
		Version: s.Version, Curve: s.Curve, Name: s.Name,
		Networks: slices.Clone(s.Networks), UnsafeNetworks: slices.Clone(s.Unsafe), Groups: slices.Clone(s.Groups),
		IsCA: s.IsCA, NotBefore: time.Unix(s.NB, 0), NotAfter: time.Unix(s.NA, 0), PublicKey: slices.Clone(s.Pub),
	}
}

func cgComparePrefix(a, b netip.Prefix) int {
	if c := a.Addr().Compare(b.Addr()); c != 0 {
		return c
	}
	return a.Bits() - b.Bits()
}

// cgRawSign is the harness signer: it builds the certificate structure without any validation or
// constraint check, takes the to-be-signed bytes and signs them directly with key. It returns the
// certificate, the bytes that were signed and the signature.
func cgRawSign(s *cgSpec, key *cgSignKey, form int) (Certificate, []byte, []byte) {
	var c beingSignedCertificate
	switch s.Version {
	case Version1:
		c = &certificateV1{details: detailsV1{
			name: s.Name, networks: slices.Clone(s.Networks), unsafeNetworks: slices.Clone(s.Unsafe), groups: slices.Clone(s.Groups),
			notBefore: time.Unix(s.NB, 0), notAfter: time.Unix(s.NA, 0), publicKey: slices.Clone(s.Pub), isCA: s.IsCA,
			issuer: s.Issuer, curve: s.Curve,
		}}
	case Version2:
		n, u := slices.Clone(s.Networks), slices.Clone(s.Unsafe)
		slices.SortFunc(n, cgComparePrefix)
		slices.SortFunc(u, cgComparePrefix)
		c = &certificateV2{details: detailsV2{
			name: s.Name, networks: n, unsafeNetworks: u, groups: slices.Clone(s.Groups),
			notBefore: time.Unix(s.NB, 0), notAfter: time.Unix(s.NA, 0), isCA: s.IsCA, issuer: s.Issuer,
		}, curve: s.Curve, publicKey: slices.Clone(s.Pub)}
	default:
		panic("harness: version")
	}
	tbs, err := c.marshalForSigning()
	if err != nil {
		panic(fmt.Sprintf("harness: marshalForSigning(%s): %v", s, err))
	}
	sig := key.signRaw(tbs, form)
	if err := c.setSignature(sig); err != nil {
		panic(err)
	}
	return c.(Certificate), tbs, sig
}

// cgSignedBytes returns the bytes a signature of c has to cover (for the independent verifier).
func cgSignedBytes(c Certificate) []byte {
	switch v := c.Copy().(type) {
	case *certificateV1:
		b, _ := v.marshalForSigning()
		return b
	case *certificateV2:
		b := append([]byte{}, v.rawDetails...)
		b = append(b, byte(v.curve))
		return append(b, v.publicKey...)
	}
	return nil
}

// cgWithSignature returns a copy of c carrying another signature.
func cgWithSignature(c Certificate, sig []byte) Certificate {
	nc := c.Copy()
	switch v := nc.(type) {
	case *certificateV1:
		v.signature = slices.Clone(sig)
	case *certificateV2:
		v.signature = slices.Clone(sig)
	}
	return nc
}

// ---- reference predicates ---------------------------------------------------------------------------

// cgRefContains: inner lies inside outer - same family, outer not longer than inner, and the first
// outer.Bits() bits agree. Written on the address bytes.
func cgRefContains(outer, inner netip.Prefix) bool {
	if !outer.IsValid() || !inner.IsValid() {
		return false
	}
	oa, ia := outer.Addr().AsSlice(), inner.Addr().AsSlice()
	if len(oa) != len(ia) || outer.Bits() > inner.Bits() {
		return false
	}
	for i := 0; i < outer.Bits(); i++ {
		m := byte(0x80 >> (i % 8))
		if oa[i/8]&m != ia[i/8]&m {
			return false
		}
	}
	return true
}

func cgRefAllContained(ca, leaf []netip.Prefix) bool {
	if len(ca) == 0 {
		return true
	}
	for _, l := range leaf {
		ok := false
		for _, c := range ca {
			if cgRefContains(c, l) {
				ok = true
				break
			}
		}
		if !ok {
			return false
		}
	}
	return true
}

func cgRefGroupsSubset(ca, leaf []string) bool {
	if len(ca) == 0 {
		return true
	}
	for _, g := range leaf {
		found := false
		for _, c := range ca {
			if c == g {
				found = true
			}
		}
		if !found {
			return false
		}
	}
	return true
}

// cgRefConstraints: window, groups, networks, unsafe networks of sub inside those of ca. Returns the
// names of the violated constraints.
func cgRefConstraints(ca, sub *cgSpec) []string {
	var bad []string
	if sub.NB < ca.NB || sub.NA > ca.NA {
		bad = append(bad, "window")
	}
	if !cgRefGroupsSubset(ca.Groups, sub.Groups) {
		bad = append(bad, "groups")
	}
	if !cgRefAllContained(ca.Networks, sub.Networks) {
		bad = append(bad, "networks")
	}
	if !cgRefAllContained(ca.Unsafe, sub.Unsafe) {
		bad = append(bad, "unsafe")
	}
	return bad
}

// cgRefStructural: the structural rules signing enforces (cert_v1.go / cert_v2.go validate, written
// out again): returns "" when the specification is structurally acceptable.
func cgRefStructural(s *cgSpec) string {
	if len(s.Pub) == 0 {
		return "empty public key"
	}
	if !s.IsCA && len(s.Networks) == 0 {
		return "host certificate without network"
	}
	has4, has6 := false, false
	for _, n := range s.Networks {
		if !n.IsValid() {
			return "invalid network"
		}
		a := n.Addr()
		if a.IsUnspecified() {
			return "zero address network"
		}
		if s.Version == Version1 && !a.Is4() {
			return "v1 with IPv6 network"
		}
		if a.Is4In6() {
			return "4in6 network"
		}
		has4 = has4 || a.Is4()
		has6 = has6 || a.Is6()
	}
	for _, n := range s.Unsafe {
		if !n.IsValid() {
			return "invalid unsafe network"
		}
		a := n.Addr()
		if s.Version == Version1 && !a.Is4() {
			return "v1 with IPv6 unsafe network"
		}
		if s.Version == Version2 && !s.IsCA {
			if a.Is4() && !has4 {
				return "v4 unsafe network without v4 address"
			}
			if !a.Is4() && !has6 {
				return "v6 unsafe network without v6 address"
			}
		}
	}
	if s.Version == Version2 {
		for _, l := range [][]netip.Prefix{s.Networks, s.Unsafe} {
			for i := range l {
				for j := i + 1; j < len(l); j++ {
					if l[i] == l[j] {
						return "duplicate prefix"
					}
				}
			}
		}
	}
	return ""
}

// ---- identity tuple ---------------------------------------------------------------------------------

type cgIdentity struct {
	Version  Version
	Name     string
	Networks string
	Unsafe   string
	Groups   string
	IsCA     bool
	NB, NA   int64
	Issuer   string
	Curve    Curve
	Pub      string
}

func cgPrefixList(l []netip.Prefix, sorted bool) string {
	ss := make([]string, len(l))
	for i, p := range l {
		ss[i] = fmt.Sprintf("%s/%d", p.Addr(), p.Bits())
	}
	if sorted {
		sort.Strings(ss)
	}
	return strings.Join(ss, ",")
}

// cgIdent extracts the identity tuple with the package accessors. v2 network lists are compared as
// sorted sets (v2 sorts on validate), v1 lists in order.
func cgIdent(c Certificate) cgIdentity {
	sorted := c.Version() == Version2
	g := make([]string, len(c.Groups()))
	for i, s := range c.Groups() {
		g[i] = fmt.Sprintf("%q", s)
	}
	return cgIdentity{
		Version: c.Version(), Name: c.Name(), Networks: cgPrefixList(c.Networks(), sorted), Unsafe: cgPrefixList(c.UnsafeNetworks(), sorted),
		Groups: strings.Join(g, ","), IsCA: c.IsCA(), NB: c.NotBefore().Unix(), NA: c.NotAfter().Unix(),
		Issuer: c.Issuer(), Curve: c.Curve(), Pub: hex.EncodeToString(c.PublicKey()),
	}
}

// ---- generators -------------------------------------------------------------------------------------

var cgGroupAlphabet = []string{"a", "A", "b", "ops", "dev", "a b", "grp-with-a-longer-name", "ü"}

var cgV4Bases = []string{"10.1.2.3", "10.129.0.7", "192.168.77.1", "172.16.5.4", "100.64.0.9", "10.1.2.200"}
var cgV6Bases = []string{"fd00:1:2:3::4", "fd80::1:2", "2001:db8:aa::9", "fe80::7", "fd00:1:2:ff00::1"}
var cgV4Bits = []int{0, 1, 7, 8, 9, 12, 16, 17, 23, 24, 25, 30, 31, 32}
var cgV6Bits = []int{0, 1, 7, 8, 16, 32, 47, 48, 49, 56, 64, 65, 127, 128}

// cgDrawPrefix draws a prefix of family fam (4 or 6) from a small lattice; host bits may be set.
func cgDrawPrefix(rt *rapid.T, fam int, label string) netip.Prefix {
	if fam == 4 {
		a := netip.MustParseAddr(rapid.SampledFrom(cgV4Bases).Draw(rt, label+"-base"))
		return netip.PrefixFrom(a, rapid.SampledFrom(cgV4Bits).Draw(rt, label+"-bits"))
	}
	a := netip.MustParseAddr(rapid.SampledFrom(cgV6Bases).Draw(rt, label+"-base"))
	return netip.PrefixFrom(a, rapid.SampledFrom(cgV6Bits).Draw(rt, label+"-bits"))
}

func cgAddrFromBytes(b []byte) netip.Addr {
	a, _ := netip.AddrFromSlice(b)
	return a
}

func cgNonZero(b []byte) {
	for _, x := range b {
		if x != 0 {
			return
		}
	}
	b[len(b)-1] = 1
}

// cgInside constructs a prefix contained in p: keeps the first p.Bits() bits, random bits after,
// length in [p.Bits(), max].
func cgInside(rt *rapid.T, p netip.Prefix, label string) netip.Prefix {
	b := p.Addr().AsSlice()
	max := len(b) * 8
	bits := p.Bits()
	switch rapid.IntRange(0, 3).Draw(rt, label+"-how") {
	case 0: // equal length
	case 1:
		if bits < max {
			bits++
		}
	case 2:
		bits = max
	default:
		bits = rapid.IntRange(bits, max).Draw(rt, label+"-bits")
	}
	if rapid.Bool().Draw(rt, label+"-keepaddr") {
		return netip.PrefixFrom(p.Addr(), bits)
	}
	r := rapid.SliceOfN(rapid.Byte(), len(b), len(b)).Draw(rt, label+"-host")
	for i := p.Bits(); i < max; i++ {
		m := byte(0x80 >> (i % 8))
		b[i/8] = b[i/8]&^m | r[i/8]&m
	}
	cgNonZero(b)
	return netip.PrefixFrom(cgAddrFromBytes(b), bits)
}

// cgOutside constructs a prefix that is NOT contained in p (it may still be inside another
// prefix of the CA; the oracle decides): same address with a shorter length, the sibling block, or
// the other family.
func cgOutside(rt *rapid.T, p netip.Prefix, allow6 bool, label string) netip.Prefix {
	b := p.Addr().AsSlice()
	max := len(b) * 8
	how := rapid.IntRange(0, 2).Draw(rt, label+"-how")
	if p.Bits() == 0 {
		how = 2
	}
	if how == 2 && len(b) == 4 && !allow6 {
		if p.Bits() == 0 {
			// nothing of this family is outside a /0 and no other family is available
			return cgDrawPrefix(rt, 4, label+"-rnd")
		}
		how = 1
	}
	switch how {
	case 0: // same address, one bit shorter
		return netip.PrefixFrom(p.Addr(), p.Bits()-1)
	case 1: // sibling: flip the last network bit
		i := p.Bits() - 1
		b[i/8] ^= byte(0x80 >> (i % 8))
		cgNonZero(b)
		bits := p.Bits()
		if rapid.Bool().Draw(rt, label+"-longer") {
			bits = rapid.IntRange(p.Bits(), max).Draw(rt, label+"-bits")
		}
		return netip.PrefixFrom(cgAddrFromBytes(b), bits)
	default: // other family
		if len(b) == 4 {
			return cgDrawPrefix(rt, 6, label+"-of")
		}
		return cgDrawPrefix(rt, 4, label+"-of")
	}
}

type cgCA struct {
	spec cgSpec
	key  *cgSignKey
	cert Certificate
	fp   string
}

// cgDrawCA draws a CA (version, curve, window, optional group/network/unsafe constraints) and
// issues it through the real self-signing API.
func cgDrawCA(rt *rapid.T, label string) *cgCA {
	ver := rapid.SampledFrom([]Version{Version1, Version2}).Draw(rt, label+"-ver")
	curve := rapid.SampledFrom([]Curve{Curve_CURVE25519, Curve_P256}).Draw(rt, label+"-curve")
	key := cgSigningKey(curve, rapid.IntRange(0, cgNumSignKeys-1).Draw(rt, label+"-key"))
	nb := cgT0 + int64(rapid.IntRange(-2000, 2000).Draw(rt, label+"-nb"))
	na := nb + int64(rapid.SampledFrom([]int{0, 1, 2, 10, 600, 5000}).Draw(rt, label+"-len"))
	s := cgSpec{Version: ver, Curve: curve, Name: label, IsCA: true, NB: nb, NA: na, Pub: key.pub}
	if rapid.IntRange(0, 9).Draw(rt, label+"-hasgroups") < 6 {
		s.Groups = rapid.SliceOfNDistinct(rapid.SampledFrom(cgGroupAlphabet), 1, 4, rapid.ID[string]).Draw(rt, label+"-groups")
	}
	fams := []int{4}
	if ver == Version2 {
		fams = []int{4, 6}
	}
	if rapid.IntRange(0, 9).Draw(rt, label+"-hasnets") < 6 {
		n := rapid.IntRange(1, 3).Draw(rt, label+"-nnets")
		for i := 0; i < n; i++ {
			s.Networks = append(s.Networks, cgDrawPrefix(rt, rapid.SampledFrom(fams).Draw(rt, label+"-nfam"), label+"-net"))
		}
	}
	if rapid.IntRange(0, 9).Draw(rt, label+"-hasunsafe") < 5 {
		n := rapid.IntRange(1, 3).Draw(rt, label+"-nunsafe")
		for i := 0; i < n; i++ {
			s.Unsafe = append(s.Unsafe, cgDrawPrefix(rt, rapid.SampledFrom(fams).Draw(rt, label+"-ufam"), label+"-unet"))
		}
	}
	if ver == Version2 {
		s.Networks = cgDedup(s.Networks)
		s.Unsafe = cgDedup(s.Unsafe)
	}
	c, err := s.tbs().Sign(nil, curve, key.priv)
	if err != nil {
		rt.Fatalf("harness: self-signing a structurally valid CA %s failed: %v", &s, err)
	}
	fp, err := c.Fingerprint()
	if err != nil {
		rt.Fatalf("harness: CA fingerprint: %v", err)
	}
	return &cgCA{spec: s, key: key, cert: c, fp: fp}
}

func cgDedup(l []netip.Prefix) []netip.Prefix {
	var out []netip.Prefix
	for _, p := range l {
		if !slices.Contains(out, p) {
			out = append(out, p)
		}
	}
	return out
}

// cgFaults selects which constraints a drawn leaf specification should try to violate.
type cgFaults struct {
	Window, Groups, Networks, Unsafe, Curve bool
}

// cgDrawLeafSpec draws a host (or CA-flagged) specification around the constraint lattice of ca:
// inside every constraint unless the corresponding fault is requested. The result is structurally
// valid (v1: IPv4 only; at least one network; unsafe families backed by a network of that family).
func cgDrawLeafSpec(rt *rapid.T, ca *cgCA, f cgFaults, label string) cgSpec {
	ver := rapid.SampledFrom([]Version{Version1, Version2}).Draw(rt, label+"-ver")
	if len(ca.spec.Networks) > 0 && !slices.ContainsFunc(ca.spec.Networks, func(p netip.Prefix) bool { return p.Addr().Is4() }) {
		ver = Version2 // a v1 certificate cannot lie inside an IPv6-only CA
	}
	curve := ca.spec.Curve
	if f.Curve {
		curve = Curve_CURVE25519 + Curve_P256 - curve
	}
	s := cgSpec{Version: ver, Curve: curve, Name: label, Issuer: ca.fp}
	s.Pub = cgLeafPub(curve, rapid.IntRange(0, 3).Draw(rt, label+"-pub"))
	s.IsCA = rapid.IntRange(0, 19).Draw(rt, label+"-caflag") == 0
	allow6 := ver == Version2

	// window
	span := ca.spec.NA - ca.spec.NB
	switch rapid.IntRange(0, 2).Draw(rt, label+"-win") {
	case 0:
		s.NB, s.NA = ca.spec.NB, ca.spec.NA
	case 1:
		s.NB = ca.spec.NB + int64(rapid.IntRange(0, int(span)).Draw(rt, label+"-nbo"))
		s.NA = s.NB + int64(rapid.IntRange(0, int(ca.spec.NA-s.NB)).Draw(rt, label+"-nao"))
	default:
		s.NB, s.NA = ca.spec.NB, ca.spec.NB+span/2
	}
	if f.Window {
		d := int64(rapid.SampledFrom([]int{1, 1, 1, 2, 3600}).Draw(rt, label+"-wd"))
		if rapid.Bool().Draw(rt, label+"-wside") {
			s.NB = ca.spec.NB - d
		} else {
			s.NA = ca.spec.NA + d
		}
	}

	// groups
	pool := cgGroupAlphabet
	if len(ca.spec.Groups) > 0 {
		pool = ca.spec.Groups
	}
	s.Groups = rapid.SliceOfNDistinct(rapid.SampledFrom(pool), 0, min(3, len(pool)), rapid.ID[string]).Draw(rt, label+"-groups")
	if f.Groups {
		var outside []string
		for _, g := range cgGroupAlphabet {
			if !slices.Contains(ca.spec.Groups, g) {
				outside = append(outside, g)
			}
		}
		g := rapid.SampledFrom(outside).Draw(rt, label+"-badgroup")
		at := rapid.IntRange(0, len(s.Groups)).Draw(rt, label+"-badgroupat")
		s.Groups = slices.Insert(s.Groups, at, g)
	}

	// networks
	drawNets := func(caNets []netip.Prefix, fault bool, min int, tag string) []netip.Prefix {
		var usable []netip.Prefix
		for _, p := range caNets {
			if p.Addr().Is4() || allow6 {
				usable = append(usable, p)
			}
		}
		n := rapid.IntRange(min, 3).Draw(rt, label+tag+"-n")
		if len(caNets) > 0 && len(usable) == 0 {
			n = 0 // nothing of a usable family lies inside this CA
		}
		var out []netip.Prefix
		for i := 0; i < n; i++ {
			var p netip.Prefix
			if len(usable) > 0 {
				p = cgInside(rt, rapid.SampledFrom(usable).Draw(rt, label+tag+"-in"), label+tag+"-ins")
			} else {
				fam := 4
				if allow6 && rapid.Bool().Draw(rt, label+tag+"-fam") {
					fam = 6
				}
				p = cgDrawPrefix(rt, fam, label+tag+"-free")
			}
			out = append(out, p)
		}
		if fault {
			var p netip.Prefix
			if len(caNets) > 0 {
				p = cgOutside(rt, rapid.SampledFrom(caNets).Draw(rt, label+tag+"-outof"), allow6, label+tag+"-out")
			} else {
				p = cgDrawPrefix(rt, 4, label+tag+"-outfree")
			}
			at := rapid.IntRange(0, len(out)).Draw(rt, label+tag+"-outat")
			out = slices.Insert(out, at, p)
		}
		return out
	}
	s.Networks = drawNets(ca.spec.Networks, f.Networks, 1, "-net")
	s.Unsafe = drawNets(ca.spec.Unsafe, f.Unsafe, 0, "-unsafe")
	cgMakeStructural(&s)
	return s
}

// cgMakeStructural repairs a host specification so that it satisfies the structural rules (it
// drops what a structurally valid certificate cannot contain; constraint faults that survive are
// the interesting ones).
func cgMakeStructural(s *cgSpec) {
	fix := func(l []netip.Prefix, isNet bool) []netip.Prefix {
		var out []netip.Prefix
		for _, p := range l {
			if !p.IsValid() || (s.Version == Version1 && !p.Addr().Is4()) {
				continue
			}
			if isNet && (p.Addr().IsUnspecified() || p.Addr().Is4In6()) {
				continue
			}
			if s.Version == Version2 && slices.Contains(out, p) {
				continue
			}
			out = append(out, p)
		}
		return out
	}
	s.Networks = fix(s.Networks, true)
	if len(s.Networks) == 0 {
		s.Networks = []netip.Prefix{netip.MustParsePrefix("10.1.2.9/24")}
	}
	s.Unsafe = fix(s.Unsafe, false)
	if s.Version == Version2 && !s.IsCA {
		has4, has6 := false, false
		for _, p := range s.Networks {
			has4 = has4 || p.Addr().Is4()
			has6 = has6 || p.Addr().Is6()
		}
		var out []netip.Prefix
		for _, p := range s.Unsafe {
			if (p.Addr().Is4() && has4) || (!p.Addr().Is4() && has6) {
				out = append(out, p)
			}
		}
		s.Unsafe = out
	}
}

// cgDecodeForms re-reads a certificate through one of its encodings: 0 object as is, 1 Marshal +
// PEM-less decode, 2 PEM, 3 handshake form recombined with the public key.
func cgReencode(c Certificate, form int) (Certificate, error) {
	switch form {
	case 1:
		b, err := c.Marshal()
		if err != nil {
			return nil, err
		}
		if c.Version() == Version1 {
			return unmarshalCertificateV1(b, nil)
		}
		return unmarshalCertificateV2(b, nil, Curve_CURVE25519)
	case 2:
		b, err := c.MarshalPEM()
		if err != nil {
			return nil, err
		}
		nc, _, err := UnmarshalCertificateFromPEM(b)
		return nc, err
	case 3:
		b, err := c.MarshalForHandshakes()
		if err != nil {
			return nil, err
		}
		return Recombine(c.Version(), b, c.PublicKey(), c.Curve())
	}
	return c, nil
}

func cgPool(rt *rapid.T, cas []*cgCA, mask []bool) *CAPool {
	p := NewCAPool()
	for i, ca := range cas {
		if !mask[i] {
			continue
		}
		// AddCA reports ErrExpired relative to the wall clock but keeps the CA; every evaluation in
		// the harness passes its own time.
		if err := p.AddCA(ca.cert); err != nil && !strings.Contains(err.Error(), ErrExpired.Error()) {
			rt.Fatalf("harness: AddCA(%s): %v", &ca.spec, err)
		}
	}
	return p
}

func cgSameBytes(a, b []byte) bool { return bytes.Equal(a, b) }
