package cert

// C02 - tampered certificates are rejected.
// Oracle: the identity tuple of whatever the mutant decodes to (package accessors) compared with
// the original's; a changed tuple must never verify against the original trust pool; an accepted
// mutant with other signature bytes must be the P-256 low/high-S twin (computed with math/big);
// blocklisting either fingerprint rejects both.

import (
	"bytes"
	"encoding/pem"
	"fmt"
	"net/netip"
	"slices"
	"testing"
	"time"

	"golang.org/x/crypto/cryptobyte"
	cbasn1 "golang.org/x/crypto/cryptobyte/asn1"
	"google.golang.org/protobuf/encoding/protowire"
	"google.golang.org/protobuf/proto"
	"pgregory.net/rapid"
	"verifkit/vk"
)

type c02Original struct {
	ca    *cgCA
	spec  cgSpec
	cert  Certificate
	ident cgIdentity
	fp    string
	sig   []byte
	t     int64
}

func c02DrawOriginal(rt *rapid.T) *c02Original {
	ca := cgDrawCA(rt, "ca")
	spec := cgDrawLeafSpec(rt, ca, cgFaults{}, "leaf")
	spec.IsCA = false
	cgMakeStructural(&spec)
	if spec.Version == Version2 {
		// v2 keeps its lists sorted; keep the model in wire order so that re-assembling it
		// reproduces the original bytes
		slices.SortFunc(spec.Networks, cgComparePrefix)
		slices.SortFunc(spec.Unsafe, cgComparePrefix)
	}
	var c Certificate
	if ca.spec.Curve == Curve_P256 && rapid.IntRange(0, 3).Draw(rt, "origHighS") == 0 {
		// a certificate issued before low-S clamping: validly signed, high-S
		c, _, _ = cgRawSign(&spec, ca.key, 1)
	} else {
		var err error
		c, err = spec.tbs().Sign(ca.cert, ca.spec.Curve, ca.key.priv)
		if err != nil {
			rt.Fatalf("harness: Sign refused a request inside every constraint: %v\n  CA %s\n  request %s", err, &ca.spec, &spec)
		}
	}
	// work on the decoded form, the way a peer or a file reader sees it
	d, err := cgReencode(c, 1)
	if err != nil {
		rt.Fatalf("harness: a valid certificate does not decode: %v (%s)", err, &spec)
	}
	fp, _ := d.Fingerprint()
	o := &c02Original{ca: ca, spec: spec, cert: d, ident: cgIdent(d), fp: fp, sig: d.Signature(), t: spec.NB + (spec.NA-spec.NB)/2}
	for _, hs := range []bool{false, true} {
		want, _ := d.Marshal()
		if hs {
			want, _ = d.MarshalForHandshakes()
		}
		if got := c02Assemble(&spec, o.sig, hs); !bytes.Equal(got, want) {
			rt.Fatalf("harness: re-assembling the untampered model gives other bytes (handshake=%v)\n got  %x\n want %x\n  %s", hs, got, want, &spec)
		}
	}
	pool := cgPool(rt, []*cgCA{ca}, []bool{true})
	if _, err := pool.VerifyCertificate(time.Unix(o.t, 0), d); err != nil {
		rt.Fatalf("harness: the untampered certificate does not verify: %v\n  CA %s\n  leaf %s", err, &ca.spec, &spec)
	}
	return o
}

// ---- mutations ---------------------------------------------------------------------------------------

type c02Mutant struct {
	how   string
	form  string // "standard", "pem", "handshake"
	data  []byte
	pub   []byte // handshake form: the public key handed to Recombine
	curve Curve  // handshake form: the curve handed to Recombine
}

func c02OtherPrefix(rt *rapid.T, p netip.Prefix, v1 bool) netip.Prefix {
	switch rapid.IntRange(0, 2).Draw(rt, "prefixmut") {
	case 0: // one host/network bit of the address
		b := p.Addr().AsSlice()
		i := rapid.IntRange(0, len(b)*8-1).Draw(rt, "addrbit")
		b[i/8] ^= 0x80 >> (i % 8)
		cgNonZero(b)
		return netip.PrefixFrom(cgAddrFromBytes(b), p.Bits())
	case 1: // prefix length
		nb := p.Bits() + rapid.SampledFrom([]int{-1, 1}).Draw(rt, "bitsdelta")
		if nb < 0 || nb > p.Addr().BitLen() {
			nb = p.Bits() / 2
		}
		return netip.PrefixFrom(p.Addr(), nb)
	default:
		if v1 {
			return cgDrawPrefix(rt, 4, "prefixnew")
		}
		return cgDrawPrefix(rt, rapid.SampledFrom([]int{4, 6}).Draw(rt, "prefixfam"), "prefixnew")
	}
}

// c02TamperSpec changes exactly one identity field of the specification to another valid value.
func c02TamperSpec(rt *rapid.T, s *cgSpec, o *c02Original) string {
	v1 := s.Version == Version1
	fields := []string{"name", "network", "addnetwork", "group", "addgroup", "isca", "notbefore", "notafter", "issuer", "curve", "pubkey"}
	if len(s.Networks) > 1 {
		fields = append(fields, "swapnetworks", "dropnetwork")
	}
	if len(s.Unsafe) > 0 {
		fields = append(fields, "unsafe", "dropunsafe")
	} else {
		fields = append(fields, "addunsafe")
	}
	f := rapid.SampledFrom(fields).Draw(rt, "field")
	switch f {
	case "name":
		s.Name = rapid.SampledFrom([]string{"Leaf", "leaf2", "lea", "x"}).Draw(rt, "newname")
	case "network":
		i := rapid.IntRange(0, len(s.Networks)-1).Draw(rt, "neti")
		s.Networks[i] = c02OtherPrefix(rt, s.Networks[i], v1)
	case "addnetwork":
		s.Networks = append(s.Networks, c02OtherPrefix(rt, s.Networks[0], v1))
	case "swapnetworks":
		s.Networks[0], s.Networks[len(s.Networks)-1] = s.Networks[len(s.Networks)-1], s.Networks[0]
	case "dropnetwork":
		s.Networks = s.Networks[1:]
	case "unsafe":
		i := rapid.IntRange(0, len(s.Unsafe)-1).Draw(rt, "uneti")
		s.Unsafe[i] = c02OtherPrefix(rt, s.Unsafe[i], v1)
	case "dropunsafe":
		s.Unsafe = s.Unsafe[1:]
	case "addunsafe":
		s.Unsafe = append(s.Unsafe, netip.PrefixFrom(s.Networks[0].Addr(), s.Networks[0].Bits()/2))
	case "group":
		if len(s.Groups) == 0 {
			s.Groups = []string{"admin"}
		} else {
			i := rapid.IntRange(0, len(s.Groups)-1).Draw(rt, "groupi")
			s.Groups[i] = s.Groups[i] + "x"
		}
	case "addgroup":
		s.Groups = append(s.Groups, rapid.SampledFrom([]string{"admin", "ops", "root"}).Draw(rt, "newgroup"))
	case "isca":
		s.IsCA = !s.IsCA
	case "notbefore":
		s.NB += int64(rapid.SampledFrom([]int{-1, 1, -3600}).Draw(rt, "nbdelta"))
	case "notafter":
		s.NA += int64(rapid.SampledFrom([]int{1, -1, 3600, 1 << 20}).Draw(rt, "nadelta"))
	case "issuer":
		b := []byte(s.Issuer)
		i := rapid.IntRange(0, len(b)-1).Draw(rt, "issuerpos")
		if b[i] == 'a' {
			b[i] = 'b'
		} else {
			b[i] = 'a'
		}
		s.Issuer = string(b)
	case "curve":
		s.Curve = Curve_CURVE25519 + Curve_P256 - s.Curve
	case "pubkey":
		s.Pub = append([]byte{}, s.Pub...)
		i := rapid.IntRange(0, len(s.Pub)*8-1).Draw(rt, "pubbit")
		s.Pub[i/8] ^= 1 << (i % 8)
	}
	return f
}

// c02Assemble encodes a specification with a GIVEN signature (no signing): the forged certificate.
func c02Assemble(s *cgSpec, sig []byte, handshake bool) []byte {
	var c Certificate
	switch s.Version {
	case Version1:
		c = &certificateV1{details: detailsV1{name: s.Name, networks: s.Networks, unsafeNetworks: s.Unsafe, groups: s.Groups,
			notBefore: time.Unix(s.NB, 0), notAfter: time.Unix(s.NA, 0), publicKey: s.Pub, isCA: s.IsCA, issuer: s.Issuer, curve: s.Curve}, signature: sig}
	default:
		v := &certificateV2{details: detailsV2{name: s.Name, networks: s.Networks, unsafeNetworks: s.Unsafe, groups: s.Groups,
			notBefore: time.Unix(s.NB, 0), notAfter: time.Unix(s.NA, 0), isCA: s.IsCA, issuer: s.Issuer}, curve: s.Curve, publicKey: s.Pub, signature: sig}
		rd, err := v.details.Marshal()
		if err != nil {
			panic("harness: details.Marshal: " + err.Error())
		}
		v.rawDetails = rd
		c = v
	}
	var b []byte
	var err error
	if handshake {
		b, err = c.MarshalForHandshakes()
	} else {
		b, err = c.Marshal()
	}
	if err != nil {
		panic("harness: marshal: " + err.Error())
	}
	return b
}

func c02CloneSpec(s *cgSpec) cgSpec {
	n := *s
	n.Networks = append([]netip.Prefix{}, s.Networks...)
	n.Unsafe = append([]netip.Prefix{}, s.Unsafe...)
	n.Groups = append([]string{}, s.Groups...)
	n.Pub = append([]byte{}, s.Pub...)
	return n
}

func c02ByteMutate(rt *rapid.T, b []byte) ([]byte, string) {
	b = append([]byte{}, b...)
	kind := rapid.SampledFrom([]string{"bitflip", "bitflip", "multiflip", "insert", "delete", "truncate", "extend", "setbyte"}).Draw(rt, "bytemut")
	switch kind {
	case "bitflip":
		p := rapid.IntRange(0, len(b)*8-1).Draw(rt, "bit")
		b[p/8] ^= 1 << (p % 8)
	case "multiflip":
		for i := rapid.IntRange(2, 4).Draw(rt, "nflips"); i > 0; i-- {
			p := rapid.IntRange(0, len(b)*8-1).Draw(rt, "bit")
			b[p/8] ^= 1 << (p % 8)
		}
	case "insert":
		p := rapid.IntRange(0, len(b)).Draw(rt, "inspos")
		ins := rapid.SliceOfN(rapid.Byte(), 1, 3).Draw(rt, "ins")
		b = append(b[:p:p], append(ins, b[p:]...)...)
	case "delete":
		p := rapid.IntRange(0, len(b)-1).Draw(rt, "delpos")
		b = append(b[:p:p], b[p+1:]...)
	case "truncate":
		b = b[:rapid.IntRange(1, len(b)-1).Draw(rt, "trunc")]
	case "extend":
		b = append(b, rapid.SliceOfN(rapid.Byte(), 1, 8).Draw(rt, "ext")...)
	default:
		p := rapid.IntRange(0, len(b)-1).Draw(rt, "setpos")
		b[p] = rapid.SampledFrom([]byte{0, 1, 0x7f, 0x80, 0x81, 0xff}).Draw(rt, "setval")
	}
	return b, kind
}

// c02WireV1 applies protobuf-level mutations that keep the message parseable: unknown field,
// non-canonical varint, duplicated field, unpacked repeated field.
func c02WireV1(rt *rapid.T, o *c02Original, handshake bool) ([]byte, string) {
	var rc RawNebulaCertificate
	var orig []byte
	if handshake {
		orig, _ = o.cert.MarshalForHandshakes()
	} else {
		orig, _ = o.cert.Marshal()
	}
	if err := proto.Unmarshal(orig, &rc); err != nil {
		panic("harness: " + err.Error())
	}
	det, _ := proto.Marshal(rc.Details)
	how := rapid.SampledFrom([]string{"unknown-field-details", "unknown-field-outer", "noncanonical-varint", "duplicate-scalar", "second-details", "unpacked-ips"}).Draw(rt, "wire")
	switch how {
	case "unknown-field-details":
		det = protowire.AppendTag(det, 77, protowire.BytesType)
		det = protowire.AppendBytes(det, []byte("extra"))
	case "noncanonical-varint":
		// NotAfter (field 6) again, the same value with a padded varint: last one wins, value unchanged
		det = protowire.AppendTag(det, 6, protowire.VarintType)
		v := protowire.AppendVarint(nil, uint64(rc.Details.NotAfter))
		v[len(v)-1] |= 0x80
		det = append(det, append(v, 0x00)...)
	case "duplicate-scalar":
		// IsCA / NotAfter appended once more with ANOTHER value (last one wins in protobuf)
		if rapid.Bool().Draw(rt, "dupwhich") {
			det = protowire.AppendTag(det, 8, protowire.VarintType)
			det = protowire.AppendVarint(det, 1)
		} else {
			det = protowire.AppendTag(det, 6, protowire.VarintType)
			det = protowire.AppendVarint(det, uint64(rc.Details.NotAfter+86400))
		}
	case "unpacked-ips":
		// one more address/mask pair in unpacked encoding
		det = protowire.AppendTag(det, 2, protowire.VarintType)
		det = protowire.AppendVarint(det, 0x0a0a0a0a)
		det = protowire.AppendTag(det, 2, protowire.VarintType)
		det = protowire.AppendVarint(det, 0xffffff00)
	}
	var out []byte
	out = protowire.AppendTag(out, 1, protowire.BytesType)
	out = protowire.AppendBytes(out, det)
	if how == "second-details" {
		// a second Details message is MERGED into the first by protobuf: adds a group
		d2, _ := proto.Marshal(&RawNebulaCertificateDetails{Groups: []string{"admin"}})
		out = protowire.AppendTag(out, 1, protowire.BytesType)
		out = protowire.AppendBytes(out, d2)
	}
	out = protowire.AppendTag(out, 2, protowire.BytesType)
	out = protowire.AppendBytes(out, rc.Signature)
	if how == "unknown-field-outer" {
		out = protowire.AppendTag(out, 9, protowire.VarintType)
		out = protowire.AppendVarint(out, 5)
	}
	return out, "wire-v1:" + how
}

// c02WireV2 applies ASN.1-level mutations: explicit default curve, trailing element, long-form
// length, duplicated TLV inside the details, public key present in the handshake form.
func c02WireV2(rt *rapid.T, o *c02Original, handshake bool) ([]byte, string) {
	v := o.cert.(*certificateV2)
	how := rapid.SampledFrom([]string{"explicit-curve", "trailing-outer", "longform-length", "dup-tlv-in-details", "trailing-in-details", "other-curve-tag"}).Draw(rt, "wire")
	rd := append([]byte{}, v.rawDetails...)
	switch how {
	case "dup-tlv-in-details", "trailing-in-details":
		// re-wrap the details with one more element at the end (length re-encoded)
		var in cryptobyte.String = rd
		var body cryptobyte.String
		if !in.ReadASN1(&body, TagCertDetails) {
			panic("harness: details")
		}
		var b cryptobyte.Builder
		b.AddASN1(TagCertDetails, func(b *cryptobyte.Builder) {
			b.AddBytes(body)
			if how == "dup-tlv-in-details" {
				b.AddASN1(TagDetailsGroups, func(b *cryptobyte.Builder) {
					b.AddASN1(cbasn1.UTF8String, func(b *cryptobyte.Builder) { b.AddBytes([]byte("admin")) })
				})
			} else {
				b.AddASN1(cbasn1.Tag(0x8f), func(b *cryptobyte.Builder) { b.AddBytes([]byte{1}) })
			}
		})
		rd, _ = b.Bytes()
	}
	var b cryptobyte.Builder
	b.AddASN1(cbasn1.SEQUENCE, func(b *cryptobyte.Builder) {
		b.AddBytes(rd)
		if !handshake {
			switch {
			case how == "explicit-curve" || v.curve != Curve_CURVE25519:
				b.AddASN1(TagCertCurve, func(b *cryptobyte.Builder) { b.AddUint8(uint8(v.curve)) })
			case how == "other-curve-tag":
				b.AddASN1(TagCertCurve, func(b *cryptobyte.Builder) { b.AddUint8(uint8(Curve_P256)) })
			}
			b.AddASN1(TagCertPublicKey, func(b *cryptobyte.Builder) { b.AddBytes(v.publicKey) })
		} else if how == "other-curve-tag" {
			b.AddASN1(TagCertCurve, func(b *cryptobyte.Builder) { b.AddUint8(uint8(Curve_CURVE25519 + Curve_P256 - v.curve)) })
		}
		b.AddASN1(TagCertSignature, func(b *cryptobyte.Builder) { b.AddBytes(v.signature) })
		if how == "trailing-outer" {
			b.AddASN1(cbasn1.Tag(0x8e), func(b *cryptobyte.Builder) { b.AddBytes([]byte("zz")) })
		}
	})
	out, err := b.Bytes()
	if err != nil {
		panic("harness: " + err.Error())
	}
	if how == "longform-length" && len(out) > 2 && out[1] < 0x80 {
		// outer length in (non-minimal) long form
		out = append([]byte{out[0], 0x81, out[1]}, out[2:]...)
	}
	return out, "wire-v2:" + how
}

func c02DrawMutant(rt *rapid.T, o *c02Original) *c02Mutant {
	m := &c02Mutant{pub: o.cert.PublicKey(), curve: o.cert.Curve()}
	m.form = rapid.SampledFrom([]string{"standard", "standard", "pem", "handshake", "handshake"}).Draw(rt, "form")
	hs := m.form == "handshake"
	kind := rapid.SampledFrom([]string{"semantic", "semantic", "semantic", "bytes", "bytes", "wire", "twin", "recombine-args"}).Draw(rt, "mutkind")
	if kind == "recombine-args" && !hs {
		kind = "semantic"
	}
	if kind == "twin" && o.spec.Curve != Curve_P256 {
		kind = "bytes"
	}
	spec := c02CloneSpec(&o.spec)
	switch kind {
	case "semantic":
		f := c02TamperSpec(rt, &spec, o)
		if hs && f == "pubkey" {
			m.pub = spec.Pub
		}
		if hs && f == "curve" && spec.Version == Version2 {
			m.curve = spec.Curve
		}
		m.data = c02Assemble(&spec, o.sig, hs)
		m.how = "semantic:" + f
	case "twin":
		ts, ok := cgSwapS(o.sig)
		if !ok {
			rt.Fatalf("harness: cannot swap %x", o.sig)
		}
		m.data = c02Assemble(&spec, ts, hs)
		m.how = "twin"
		if rapid.IntRange(0, 3).Draw(rt, "twinplus") == 0 {
			// the twin signature over tampered content
			f := c02TamperSpec(rt, &spec, o)
			m.data = c02Assemble(&spec, ts, hs)
			m.how = "twin+semantic:" + f
		}
	case "wire":
		if o.spec.Version == Version1 {
			m.data, m.how = c02WireV1(rt, o, hs)
		} else {
			m.data, m.how = c02WireV2(rt, o, hs)
		}
	case "recombine-args":
		m.data = c02Assemble(&spec, o.sig, true)
		if rapid.Bool().Draw(rt, "argwhich") {
			m.pub = append([]byte{}, m.pub...)
			i := rapid.IntRange(0, len(m.pub)*8-1).Draw(rt, "argpubbit")
			m.pub[i/8] ^= 1 << (i % 8)
			m.how = "recombine:other-pubkey"
		} else {
			m.curve = Curve_CURVE25519 + Curve_P256 - m.curve
			m.how = "recombine:other-curve"
		}
	default:
		var k string
		m.data, k = c02ByteMutate(rt, c02Assemble(&spec, o.sig, hs))
		m.how = "bytes:" + k
	}
	if m.form == "pem" {
		banner := CertificateBanner
		if o.spec.Version == Version2 {
			banner = CertificateV2Banner
		}
		if rapid.IntRange(0, 9).Draw(rt, "otherbanner") == 0 {
			if banner == CertificateBanner {
				banner = CertificateV2Banner
			} else {
				banner = CertificateBanner
			}
			m.how += "+other-banner"
		}
		m.data = pem.EncodeToMemory(&pem.Block{Type: banner, Bytes: m.data})
	}
	return m
}

func (m *c02Mutant) decode(v Version) (Certificate, error) {
	switch m.form {
	case "pem":
		c, _, err := UnmarshalCertificateFromPEM(m.data)
		return c, err
	case "handshake":
		return Recombine(v, m.data, m.pub, m.curve)
	}
	if v == Version1 {
		return unmarshalCertificateV1(m.data, nil)
	}
	return unmarshalCertificateV2(m.data, nil, Curve_CURVE25519)
}

// c02Judge applies the oracle to one decoded mutant. It returns the class label.
func c02Judge(fail func(string, ...any), o *c02Original, mc Certificate, pool func() *CAPool, desc string) string {
	mi := cgIdent(mc)
	sameIdent := mi == o.ident
	// evaluation times: the middle of the original window, and the middle of the mutant's window
	// (so that a forged validity cannot hide behind "expired")
	times := []int64{o.t}
	if mi.NB <= mi.NA {
		mt := mi.NB/2 + mi.NA/2
		if mt < o.ca.spec.NB {
			mt = o.ca.spec.NB
		}
		if mt > o.ca.spec.NA {
			mt = o.ca.spec.NA
		}
		if mt != o.t {
			times = append(times, mt)
		}
	}
	accepted := false
	for _, at := range times {
		_, err := pool().VerifyCertificate(time.Unix(at, 0), mc)
		if err == nil {
			accepted = true
			if !sameIdent {
				fail("a certificate with a changed identity verifies at t=%d\n  original identity %+v\n  mutant identity   %+v\n%s", at-cgT0, o.ident, mi, desc)
			}
		}
		// A trust pool is long-lived: the verdict must not depend on what the pool verified before.
		// The same question to a pool that has just accepted the genuine certificate (a peer that
		// handshook honestly, then an impostor presenting altered bytes) gets the same answer.
		warm := pool()
		if _, werr := warm.VerifyCertificate(time.Unix(o.t, 0), o.cert); werr != nil {
			fail("harness: the original does not verify against its own pool: %v\n%s", werr, desc)
		}
		_, err2 := warm.VerifyCertificate(time.Unix(at, 0), mc)
		if (err == nil) != (err2 == nil) {
			fail("verdict at t=%d depends on the pool's history: fresh pool says %v, a pool that verified the original first says %v\n  original identity %+v\n  mutant identity   %+v\n%s", at-cgT0, err, err2, o.ident, mi, desc)
		}
	}
	if !sameIdent {
		return "identity-changed:rejected"
	}
	if !accepted {
		return "identity-same:rejected"
	}
	label := "identity-same:accepted/sig-same"
	if !bytes.Equal(mc.Signature(), o.sig) {
		ts, ok := cgSwapS(o.sig)
		if o.spec.Curve != Curve_P256 || !ok || !bytes.Equal(ts, mc.Signature()) {
			fail("accepted with signature %x which is neither the original %x nor its low/high-S twin\n%s", mc.Signature(), o.sig, desc)
		}
		label = "identity-same:accepted/twin"
	}
	// blocklisting either fingerprint rejects both
	mfp, err := mc.Fingerprint()
	if err != nil {
		fail("fingerprint of an accepted certificate: %v\n%s", err, desc)
	}
	for _, blocked := range []string{o.fp, mfp} {
		p := pool()
		p.BlocklistFingerprint(blocked)
		for i, c := range []Certificate{o.cert, mc} {
			if _, err := p.VerifyCertificate(time.Unix(o.t, 0), c); err == nil {
				fail("with fingerprint %.12s blocklisted (original %.12s, mutant %.12s) the %s still verifies\n%s", blocked, o.fp, mfp, []string{"original", "mutant"}[i], desc)
			}
		}
	}
	return label
}

func TestC02_TamperedRejected(t *testing.T) {
	vk.Check(t, 9000, func(rt *rapid.T) {
		o := c02DrawOriginal(rt)
		pool := func() *CAPool { return cgPool(rt, []*cgCA{o.ca}, []bool{true}) }
		for k := 0; k < 8; k++ {
			m := c02DrawMutant(rt, o)
			desc := fmt.Sprintf("  CA %s\n  original %s\n  mutation %s on the %s form\n  mutant bytes %x", &o.ca.spec, &o.spec, m.how, m.form, m.data)
			mc, err := m.decode(o.spec.Version)
			cls := fmt.Sprintf("v%d/%s", o.spec.Version, o.spec.Curve)
			if err != nil {
				vk.Case("C02", fmt.Sprintf("%s/%x", m.form, m.data), false, "undecodable", "mut:"+m.how+":undecodable")
				continue
			}
			label := c02Judge(func(f string, a ...any) { rt.Fatalf(f, a...) }, o, mc, pool, desc)
			var origBytes []byte
			switch m.form {
			case "pem":
				origBytes, _ = o.cert.MarshalPEM()
			case "handshake":
				origBytes, _ = o.cert.MarshalForHandshakes()
			default:
				origBytes, _ = o.cert.Marshal()
			}
			changed := !bytes.Equal(m.data, origBytes) || !bytes.Equal(m.pub, o.cert.PublicKey()) || m.curve != o.cert.Curve()
			vk.Case("C02", fmt.Sprintf("%s/%x/%x/%d", m.form, m.data, m.pub, m.curve), changed, label, label+"/"+cls, "mut:"+m.how+":decoded", "form:"+m.form)
			if vk.WantSample("C02") {
				vk.Sample("C02", map[string]any{"case": desc, "class": label})
			}
		}
	})
}

// ---- native fuzz target (thorough tier): byte-level mutants of four valid encodings -------------------

type c02FuzzBase struct {
	o *c02Original
}

func c02FuzzBases(tb testing.TB) []*c02FuzzBase {
	var out []*c02FuzzBase
	for _, v := range []Version{Version1, Version2} {
		for _, cu := range []Curve{Curve_CURVE25519, Curve_P256} {
			key := cgSigningKey(cu, 1)
			cas := cgSpec{Version: v, Curve: cu, Name: "fuzz ca", IsCA: true, NB: cgT0 - 1000, NA: cgT0 + 100000, Pub: key.pub,
				Groups: []string{"ops", "dev"}, Networks: []netip.Prefix{netip.MustParsePrefix("10.0.0.0/8")}}
			// deterministic signatures: every fuzz process has to rebuild exactly the same certificates
			cac, err := cas.tbs().SignWith(nil, cu, key.signDeterministic)
			if err != nil {
				tb.Fatalf("harness: %v", err)
			}
			cafp, _ := cac.Fingerprint()
			ca := &cgCA{spec: cas, key: key, cert: cac, fp: cafp}
			s := cgSpec{Version: v, Curve: cu, Name: "fuzz leaf", Networks: []netip.Prefix{netip.MustParsePrefix("10.1.2.3/24")},
				Unsafe: []netip.Prefix{netip.MustParsePrefix("192.168.0.0/16")}, Groups: []string{"ops"}, NB: cgT0, NA: cgT0 + 3600,
				Pub: cgLeafPub(cu, 0), Issuer: cafp}
			c, err := s.tbs().SignWith(cac, cu, key.signDeterministic)
			if err != nil {
				tb.Fatalf("harness: %v", err)
			}
			d, err := cgReencode(c, 1)
			if err != nil {
				tb.Fatalf("harness: %v", err)
			}
			fp, _ := d.Fingerprint()
			o := &c02Original{ca: ca, spec: s, cert: d, ident: cgIdent(d), fp: fp, sig: d.Signature(), t: cgT0 + 1800}
			out = append(out, &c02FuzzBase{o: o})
		}
	}
	return out
}

func FuzzC02Tamper(f *testing.F) {
	bases := c02FuzzBases(f)
	for i, b := range bases {
		m, _ := b.o.cert.Marshal()
		h, _ := b.o.cert.MarshalForHandshakes()
		f.Add(uint8(i), false, m)
		f.Add(uint8(i), true, h)
		if ts, ok := cgSwapS(b.o.sig); ok {
			f.Add(uint8(i), false, c02Assemble(&b.o.spec, ts, false))
		}
	}
	f.Fuzz(func(t *testing.T, which uint8, handshake bool, data []byte) {
		b := bases[int(which)%len(bases)]
		o := b.o
		var mc Certificate
		var err error
		if handshake {
			mc, err = Recombine(o.spec.Version, data, o.spec.Pub, o.spec.Curve)
		} else if o.spec.Version == Version1 {
			mc, err = unmarshalCertificateV1(data, nil)
		} else {
			mc, err = unmarshalCertificateV2(data, nil, Curve_CURVE25519)
		}
		if err != nil {
			return
		}
		pool := func() *CAPool {
			p := NewCAPool()
			p.AddCA(o.ca.cert)
			return p
		}
		if _, err := pool().VerifyCertificate(time.Unix(o.t, 0), o.cert); err != nil {
			t.Fatalf("harness: the base certificate does not verify: %v", err)
		}
		c02Judge(func(f string, a ...any) { t.Fatalf(f, a...) }, o, mc, pool, fmt.Sprintf("  base %d handshake=%v input %x", int(which)%len(bases), handshake, data))
	})
}
