//go:build linux

package cpupick

// C46 - CPU pinning choices are valid and stable; cpulist parsing.
//
// Three generated domains:
//   - arrange / pickCandidates over generated candidate sets, perf subsets, NUMA/SMT topologies and keys;
//   - the whole Default pipeline minus sched_getaffinity (perfCPUsFrom -> pickCandidates ->
//     readTopologyFrom -> arrange) over fake sysfs trees written from a generated machine model,
//     judged against the model, not against what the readers returned;
//   - parseCPUList over strings printed the way the kernel prints a cpumask ("%*pbl") and over a
//     mutation grammar.
//
// Oracle = the statement, nothing more: output within the allowed set, no duplicates, exactly the
// candidates of one NUMA node that holds >= routines candidates (all candidates when no node does),
// CPU 0's physical core as a suffix with CPU 0 the very last, same inputs => same list. (The SMT
// "one thread per core first" order is documented in the package but is not part of the statement
// and is not asserted.)
//
// cpulist: what the kernel prints (N and N-M tokens, comma separated) must parse to exactly the set;
// what neither the kernel's printer emits nor the kernel's own parser (lib/bitmap.c
// bitmap_parselist) accepts - signs, letters, reversed or chained ranges, ... - must be refused;
// input only the kernel's *parser* tolerates (blanks, repeated commas, "all", N:used/group) is left to
// the implementation.

import (
	"fmt"
	"os"
	"path/filepath"
	"sort"
	"strconv"
	"strings"
	"testing"

	"pgregory.net/rapid"
	"verifkit/vk"
)

const c46KeyPlus = "cpulist-plus-sign-accepted"

// ---- statement oracle for a pin list ------------------------------------------------------------

// c46CheckPinList checks out against the statement. node/coreKey describe the topology as the
// oracle sees it; zeroSet is the set of candidates on CPU 0's physical core (incl. 0 when a candidate).
func c46CheckPinList(allowed, cands, out []int, routines int, node func(int) int, zeroSet map[int]bool) error {
	allowedSet := map[int]bool{}
	for _, c := range allowed {
		allowedSet[c] = true
	}
	seen := map[int]bool{}
	for _, c := range out {
		if !allowedSet[c] {
			return fmt.Errorf("CPU %d is not in the allowed set", c)
		}
		if seen[c] {
			return fmt.Errorf("CPU %d listed twice", c)
		}
		seen[c] = true
	}
	byNode := map[int][]int{}
	for _, c := range cands {
		byNode[node(c)] = append(byNode[node(c)], c)
	}
	anyEligible := false
	matched := false
	for _, members := range byNode {
		if len(members) < routines {
			continue
		}
		anyEligible = true
		if len(members) == len(out) {
			all := true
			for _, c := range members {
				if !seen[c] {
					all = false
				}
			}
			if all {
				matched = true
			}
		}
	}
	if anyEligible && !matched {
		return fmt.Errorf("list is not exactly the candidates of one NUMA node holding >= %d candidates (by node: %v)", routines, byNode)
	}
	if !anyEligible {
		if len(out) != len(cands) {
			return fmt.Errorf("no node holds %d candidates, yet the list has %d of %d candidates", routines, len(out), len(cands))
		}
		for _, c := range cands {
			if !seen[c] {
				return fmt.Errorf("no node holds %d candidates, yet candidate %d is missing", routines, c)
			}
		}
	}
	inTail := false
	for i, c := range out {
		if zeroSet[c] {
			inTail = true
		} else if inTail {
			return fmt.Errorf("CPU %d (position %d) follows a member of CPU 0's physical core %v", c, i, zeroSet)
		}
	}
	if seen[0] && out[len(out)-1] != 0 {
		return fmt.Errorf("CPU 0 is in the list but not at the very end")
	}
	return nil
}

// ---- arrange over generated topologies -----------------------------------------------------------

type c46Machine struct {
	CPUs   []int       // all CPU ids of the machine
	Node   map[int]int // NUMA node per CPU
	Core   map[int]int // physical core id per CPU (unique across packages)
	SMT    int
	NNodes int
}

func c46GenMachine(rt *rapid.T) c46Machine {
	m := c46Machine{Node: map[int]int{}, Core: map[int]int{}}
	m.NNodes = rapid.SampledFrom([]int{1, 1, 2, 2, 3, 4}).Draw(rt, "nodes")
	m.SMT = rapid.SampledFrom([]int{1, 1, 2, 2, 4}).Draw(rt, "smt")
	layout := rapid.SampledFrom([]string{"adjacent", "split"}).Draw(rt, "layout") // sibling numbering style
	sparse := rapid.IntRange(0, 3).Draw(rt, "sparse") == 0
	var coresPerNode []int
	for n := 0; n < m.NNodes; n++ {
		k := rapid.IntRange(1, 5).Draw(rt, "cores") // uneven node sizes
		coresPerNode = append(coresPerNode, k)
	}
	// logical index -> (core, node)
	type slot struct{ core, node int }
	var slots []slot
	if layout == "adjacent" {
		core := 0
		for n, k := range coresPerNode {
			for i := 0; i < k; i++ {
				for s := 0; s < m.SMT; s++ {
					slots = append(slots, slot{core, n})
				}
				core++
			}
		}
	} else {
		for s := 0; s < m.SMT; s++ {
			core := 0
			for n, k := range coresPerNode {
				for i := 0; i < k; i++ {
					slots = append(slots, slot{core, n})
					core++
				}
			}
		}
	}
	id := 0
	for i, sl := range slots {
		if sparse && i > 0 {
			id += rapid.IntRange(1, 3).Draw(rt, "gap")
		} else if i > 0 {
			id++
		}
		m.CPUs = append(m.CPUs, id)
		m.Node[id] = sl.node
		m.Core[id] = sl.core + 100 // arbitrary, only equality matters
	}
	return m
}

func c46Subset(rt *rapid.T, tag string, from []int, nonEmpty bool) []int {
	mode := rapid.SampledFrom([]string{"all", "random", "random", "nozero", "tail"}).Draw(rt, tag+".mode")
	var out []int
	switch mode {
	case "all":
		out = append(out, from...)
	case "nozero":
		for _, c := range from {
			if c != 0 {
				out = append(out, c)
			}
		}
	case "tail":
		k := rapid.IntRange(0, len(from)-1).Draw(rt, tag+".from")
		out = append(out, from[k:]...)
	default:
		mask := rapid.Uint64().Draw(rt, tag+".mask")
		for i, c := range from {
			if mask>>(uint(i)%64)&1 == 1 {
				out = append(out, c)
			}
		}
	}
	if nonEmpty && len(out) == 0 {
		out = append(out, from[rapid.IntRange(0, len(from)-1).Draw(rt, tag+".one")])
	}
	return out
}

func c46Key(rt *rapid.T) uint64 {
	return rapid.OneOf(
		rapid.Uint64(),
		rapid.Uint64Range(4240, 4250),
		rapid.SampledFrom([]uint64{0, 1, 4242, 5242, 6242, 65535, 1 << 32, 1<<64 - 1}),
	).Draw(rt, "key")
}

func TestC46_Arrange(t *testing.T) {
	vk.Check(t, 200000, func(rt *rapid.T) {
		m := c46GenMachine(rt)
		allowed := c46Subset(rt, "allowed", m.CPUs, true)
		perf := c46Subset(rt, "perf", allowed, false)
		routines := rapid.IntRange(1, len(allowed)+3).Draw(rt, "routines")
		key := c46Key(rt)

		cands := pickCandidates(append([]int{}, allowed...), append([]int{}, perf...), routines)
		// enough-for-everyone guard, restated
		wantC := allowed
		if len(perf) >= routines {
			wantC = perf
		}
		if fmt.Sprint(cands) != fmt.Sprint(wantC) {
			rt.Fatalf("pickCandidates(allowed=%v, perf=%v, routines=%d) = %v, want %v", allowed, perf, routines, cands, wantC)
		}
		if len(cands) == 0 {
			rt.Fatalf("no candidates from a non-empty allowed set %v (perf %v routines %d)", allowed, perf, routines)
		}

		flat := rapid.IntRange(0, 9).Draw(rt, "flat") == 0
		var topo topology
		node := func(c int) int { return m.Node[c] }
		zeroSet := map[int]bool{}
		if flat {
			topo = flatTopology(cands)
			node = func(int) int { return 0 }
			for _, c := range cands {
				if c == 0 {
					zeroSet[0] = true
				}
			}
		} else {
			topo = topology{nodeOf: map[int]int{}, coreOf: map[int]int{}, zeroCore: -1}
			for _, c := range cands {
				topo.nodeOf[c] = m.Node[c]
				topo.coreOf[c] = m.Core[c]
			}
			// CPU 0's core is known when the machine has a CPU 0 (the probe reads cpu0's files even when 0
			// is not a candidate); occasionally unknown (unreadable sysfs).
			zeroKnown := m.CPUs[0] == 0 && rapid.IntRange(0, 7).Draw(rt, "zeroKnown") != 0
			if zeroKnown {
				topo.zeroCore = m.Core[0]
			}
			for _, c := range cands {
				if c == 0 || (zeroKnown && m.Core[c] == m.Core[0]) {
					zeroSet[c] = true
				}
			}
		}
		h := splitmix64(key)
		in := append([]int{}, cands...)
		out := arrange(in, topo, routines, h)
		desc := fmt.Sprintf("allowed=%v perf=%v cands=%v routines=%d key=%d nodes=%v cores=%v zeroCore=%d flat=%v", allowed, perf, cands, routines, key, topo.nodeOf, topo.coreOf, topo.zeroCore, flat)
		if err := c46CheckPinList(allowed, cands, out, routines, node, zeroSet); err != nil {
			rt.Fatalf("pin list %v: %v; %s", out, err, desc)
		}
		if fmt.Sprint(in) != fmt.Sprint(cands) {
			rt.Fatalf("arrange modified its candidate slice: %v -> %v", cands, in)
		}
		// same key and topology => same list (fresh copies of every input)
		topo2 := topology{nodeOf: map[int]int{}, coreOf: map[int]int{}, zeroCore: topo.zeroCore}
		for i := len(cands) - 1; i >= 0; i-- { // different insertion order
			topo2.nodeOf[cands[i]] = topo.nodeOf[cands[i]]
			topo2.coreOf[cands[i]] = topo.coreOf[cands[i]]
		}
		out2 := arrange(append([]int{}, cands...), topo2, routines, splitmix64(key))
		if fmt.Sprint(out) != fmt.Sprint(out2) {
			rt.Fatalf("same key and topology gave %v then %v; %s", out, out2, desc)
		}

		nodesUsed := map[int]bool{}
		smtPairs := false
		coreSeen := map[int]bool{}
		for _, c := range cands {
			nodesUsed[node(c)] = true
			if !flat {
				if coreSeen[m.Core[c]] {
					smtPairs = true
				}
				coreSeen[m.Core[c]] = true
			}
		}
		nontrivial := len(nodesUsed) >= 2 || smtPairs
		labels := []string{"arrange", fmt.Sprintf("nodes-%d", len(nodesUsed))}
		if smtPairs {
			labels = append(labels, "smt-siblings")
		}
		if len(out) < len(cands) {
			labels = append(labels, "confined-to-node")
		} else if len(nodesUsed) >= 2 {
			labels = append(labels, "spans-nodes")
		}
		if len(zeroSet) > 1 {
			labels = append(labels, "zero-core-with-siblings")
		} else if zeroSet[0] {
			labels = append(labels, "zero-candidate")
		} else if len(zeroSet) == 1 {
			labels = append(labels, "zero-sibling-without-zero")
		}
		if len(perf) >= routines && len(perf) < len(allowed) {
			labels = append(labels, "perf-filter-applied")
		} else if len(perf) < routines {
			labels = append(labels, "perf-filter-discarded")
		}
		if flat {
			labels = append(labels, "flat-topology")
		}
		if routines > len(cands) {
			labels = append(labels, "routines>cands")
		}
		vk.Case("C46", "arr|"+desc, nontrivial, labels...)
		if vk.WantSample("C46") && nontrivial {
			vk.Sample("C46", map[string]any{"kind": "arrange", "input": desc, "out": fmt.Sprint(out)})
		}
	})
}

// ---- the pipeline over a fake sysfs ---------------------------------------------------------------

func c46Write(rt *rapid.T, path, content string) {
	if err := os.MkdirAll(filepath.Dir(path), 0o755); err != nil {
		rt.Fatalf("harness: %v", err)
	}
	if err := os.WriteFile(path, []byte(content), 0o644); err != nil {
		rt.Fatalf("harness: %v", err)
	}
}

// c46KernelList prints a set the way the kernel prints a cpumask list.
func c46KernelList(set []int) string {
	s := append([]int{}, set...)
	sort.Ints(s)
	var parts []string
	for i := 0; i < len(s); {
		j := i
		for j+1 < len(s) && s[j+1] == s[j]+1 {
			j++
		}
		if j > i {
			parts = append(parts, strconv.Itoa(s[i])+"-"+strconv.Itoa(s[j]))
		} else {
			parts = append(parts, strconv.Itoa(s[i]))
		}
		i = j + 1
	}
	return strings.Join(parts, ",")
}

func TestC46_PipelineFakeSysfs(t *testing.T) {
	// fake sysfs trees are small and short-lived: prefer tmpfs (the disk is slow under load), fall back
	// to the working directory of the run; never /tmp
	base, err := os.MkdirTemp("/dev/shm", "verif-c46-")
	if err != nil {
		if base, err = os.MkdirTemp(".", "c46-sysfs-"); err != nil {
			vk.Infra(t, "cannot create a scratch directory: %v", err)
		}
	}
	defer os.RemoveAll(base)
	n := 0
	vk.Check(t, 6000, func(rt *rapid.T) {
		n++
		root := filepath.Join(base, fmt.Sprintf("case%d", n))
		defer os.RemoveAll(root)
		cpuDir, nodeDir, maskPath := filepath.Join(root, "cpu"), filepath.Join(root, "node"), filepath.Join(root, "cpu_core", "cpus")

		m := c46GenMachine(rt)
		allowed := c46Subset(rt, "allowed", m.CPUs, true)
		routines := rapid.IntRange(1, len(allowed)+2).Draw(rt, "routines")
		key := c46Key(rt)

		// topology files; some CPUs unreadable
		readable := map[int]bool{}
		localCore, perPkg := map[int]int{}, map[int]int{}
		for _, c := range m.CPUs {
			if rapid.IntRange(0, 11).Draw(rt, "topo.missing") == 0 {
				continue
			}
			readable[c] = true
			// package = node here; core_id is the core's index inside its package, so it repeats across packages
			if _, ok := localCore[m.Core[c]]; !ok {
				localCore[m.Core[c]] = perPkg[m.Node[c]]
				perPkg[m.Node[c]]++
			}
			c46Write(rt, filepath.Join(cpuDir, fmt.Sprintf("cpu%d", c), "topology", "physical_package_id"), fmt.Sprintf("%d\n", m.Node[c]))
			c46Write(rt, filepath.Join(cpuDir, fmt.Sprintf("cpu%d", c), "topology", "core_id"), fmt.Sprintf("%d\n", localCore[m.Core[c]]))
		}
		// NUMA node directories (absent on non-NUMA kernels), plus decoy entries sharing the prefix
		numa := rapid.IntRange(0, 5).Draw(rt, "numa.present") != 0
		unclaimed := map[int]bool{}
		if numa {
			per := map[int][]int{}
			for _, c := range m.CPUs {
				if rapid.IntRange(0, 15).Draw(rt, "numa.unclaimed") == 0 {
					unclaimed[c] = true
					continue
				}
				per[m.Node[c]] = append(per[m.Node[c]], c)
			}
			for nd, list := range per {
				c46Write(rt, filepath.Join(nodeDir, fmt.Sprintf("node%d", nd), "cpulist"), c46KernelList(list)+"\n")
			}
			c46Write(rt, filepath.Join(nodeDir, "has_cpu"), "0\n")
			c46Write(rt, filepath.Join(nodeDir, "possible"), "0-3\n")
			c46Write(rt, filepath.Join(nodeDir, "nodefoo", "cpulist"), c46KernelList(m.CPUs)+"\n")
		}
		// performance signals
		sig := rapid.SampledFrom([]string{"none", "none", "capacity", "intel", "freq", "capacity-partial", "freq-equal"}).Draw(rt, "perf.signal")
		switch sig {
		case "capacity", "capacity-partial":
			for i, c := range m.CPUs {
				if sig == "capacity-partial" && i == len(m.CPUs)-1 {
					continue
				}
				c46Write(rt, filepath.Join(cpuDir, fmt.Sprintf("cpu%d", c), "cpu_capacity"), fmt.Sprintf("%d\n", rapid.SampledFrom([]int{1024, 1024, 768, 380, 250}).Draw(rt, "cap")))
			}
		case "intel":
			c46Write(rt, maskPath, c46KernelList(c46Subset(rt, "pcores", m.CPUs, false))+"\n")
		case "freq", "freq-equal":
			for _, c := range m.CPUs {
				f := 3000000
				if sig == "freq" {
					f = rapid.SampledFrom([]int{5000000, 4900000, 4400000, 3700000, 2000000}).Draw(rt, "freq")
				}
				c46Write(rt, filepath.Join(cpuDir, fmt.Sprintf("cpu%d", c), "cpufreq", "cpuinfo_max_freq"), fmt.Sprintf("%d\n", f))
			}
		}

		run := func() ([]int, []int, []int, string) {
			perf, signal := perfCPUsFrom(cpuDir, maskPath, append([]int{}, allowed...))
			cands := pickCandidates(append([]int{}, allowed...), perf, routines)
			topo := readTopologyFrom(nodeDir, cpuDir, cands)
			return perf, cands, arrange(cands, topo, routines, splitmix64(key)), signal
		}
		perf, cands, out, signal := run()
		desc := fmt.Sprintf("machine cpus=%v node=%v core=%v readable=%v numa=%v unclaimed=%v signal=%s allowed=%v routines=%d key=%d -> perf=%v(%s) cands=%v",
			m.CPUs, m.Node, m.Core, readable, numa, unclaimed, sig, allowed, routines, key, perf, signal, cands)

		// the perf filter may only narrow the allowed set
		allowedSet := map[int]bool{}
		for _, c := range allowed {
			allowedSet[c] = true
		}
		seenP := map[int]bool{}
		for _, c := range perf {
			if !allowedSet[c] || seenP[c] {
				rt.Fatalf("perf filter returned %v for allowed %v; %s", perf, allowed, desc)
			}
			seenP[c] = true
		}
		if len(cands) == 0 {
			rt.Fatalf("no candidates; %s", desc)
		}
		// the model as visible through sysfs
		node := func(c int) int {
			if !numa || unclaimed[c] {
				return 0
			}
			return m.Node[c]
		}
		zeroSet := map[int]bool{}
		for _, c := range cands {
			if c == 0 {
				zeroSet[0] = true
			} else if m.CPUs[0] == 0 && readable[0] && readable[c] && m.Core[c] == m.Core[0] && m.Node[c] == m.Node[0] {
				zeroSet[c] = true
			}
		}
		if err := c46CheckPinList(allowed, cands, out, routines, node, zeroSet); err != nil {
			rt.Fatalf("pin list %v: %v; %s", out, err, desc)
		}
		_, _, out2, _ := run()
		if fmt.Sprint(out) != fmt.Sprint(out2) {
			rt.Fatalf("same key and topology gave %v then %v; %s", out, out2, desc)
		}
		nodesUsed := map[int]bool{}
		for _, c := range cands {
			nodesUsed[node(c)] = true
		}
		labels := []string{"pipeline", "signal-" + sig, "used-" + signal, fmt.Sprintf("nodes-%d", len(nodesUsed))}
		if len(zeroSet) > 1 {
			labels = append(labels, "zero-core-with-siblings")
		}
		if len(perf) < len(allowed) {
			labels = append(labels, "perf-narrowed")
		}
		vk.Case("C46", "pipe|"+desc, len(nodesUsed) >= 2 || m.SMT > 1, labels...)
	})
}

// ---- cpulist parsing ------------------------------------------------------------------------------

const (
	c46MustAccept = iota
	c46Either
	c46MustReject
)

func c46IsDigits(s string) bool {
	if s == "" {
		return false
	}
	for i := 0; i < len(s); i++ {
		if s[i] < '0' || s[i] > '9' {
			return false
		}
	}
	return true
}

// c46Classify is the independent reading of the cpulist syntax. expansion is meaningful unless
// the verdict is c46MustReject or loose is set.
func c46Classify(s string) (verdict int, expansion []int, loose bool) {
	if s == "" {
		return c46MustAccept, nil, false
	}
	verdict = c46MustAccept
	for _, tok := range strings.Split(s, ",") {
		trimmed := strings.Trim(tok, " \t\n\r\v\f")
		if trimmed != tok || trimmed == "" {
			verdict = c46Either // only the kernel's parser tolerates blanks and empty regions
			if trimmed == "" {
				continue
			}
		}
		// kernel-parser-only extensions
		if trimmed == "all" || trimmed == "N" || strings.ContainsAny(trimmed, ":/") {
			g := strings.NewReplacer(":", "", "/", "", "-", "", "N", "").Replace(trimmed)
			if trimmed == "all" || g == "" || c46IsDigits(g) {
				return c46Either, nil, true
			}
			return c46MustReject, nil, false
		}
		lo, hi, isRange := strings.Cut(trimmed, "-")
		if lo == "N" || (isRange && hi == "N") {
			if (lo == "N" || c46IsDigits(lo)) && (!isRange || hi == "N" || c46IsDigits(hi)) {
				return c46Either, nil, true // "N" = last CPU, kernel parser only
			}
			return c46MustReject, nil, false
		}
		if !c46IsDigits(lo) || (isRange && !c46IsDigits(hi)) {
			return c46MustReject, nil, false
		}
		a, errA := strconv.ParseUint(lo, 10, 64)
		b := a
		var errB error
		if isRange {
			b, errB = strconv.ParseUint(hi, 10, 64)
		}
		if errA != nil || errB != nil || a > 1<<20 || b > 1<<20 {
			// well-formed decimal numbers beyond any CPU id: a range question, not a syntax question
			return c46Either, nil, true
		}
		if b < a {
			return c46MustReject, nil, false
		}
		if b-a > 8192 {
			// wider than any cpumask the kernel supports (NR_CPUS <= 8192): left to the implementation
			return c46Either, nil, true
		}
		for v := a; v <= b; v++ {
			expansion = append(expansion, int(v))
		}
	}
	return verdict, expansion, false
}

func c46GenSet(rt *rapid.T) []int {
	n := rapid.IntRange(0, 12).Draw(rt, "set.runs")
	var set []int
	next := rapid.SampledFrom([]int{0, 0, 1, 4, 64}).Draw(rt, "set.start")
	for i := 0; i < n; i++ {
		l := rapid.SampledFrom([]int{1, 1, 2, 3, 8, 64}).Draw(rt, "set.len")
		for k := 0; k < l; k++ {
			set = append(set, next+k)
		}
		next += l + rapid.SampledFrom([]int{1, 1, 2, 5, 100}).Draw(rt, "set.gap")
	}
	return set
}

var c46Inserts = []string{"+", "-", " ", ",", "x", ":", "/", "0", "9", "\t", "\n", "0x", "_", "٣", ".", "all", "N"}

func c46Mutate(rt *rapid.T, s string) string {
	k := rapid.IntRange(1, 2).Draw(rt, "mut.n")
	for i := 0; i < k; i++ {
		switch rapid.SampledFrom([]string{"insert", "insert", "delete", "fixed", "token"}).Draw(rt, "mut.op") {
		case "insert":
			p := rapid.IntRange(0, len(s)).Draw(rt, "mut.pos")
			s = s[:p] + rapid.SampledFrom(c46Inserts).Draw(rt, "mut.ins") + s[p:]
		case "delete":
			if len(s) > 0 {
				p := rapid.IntRange(0, len(s)-1).Draw(rt, "mut.pos")
				s = s[:p] + s[p+1:]
			}
		case "fixed":
			s = rapid.SampledFrom([]string{"+3", "3-+5", "+0-1", "1, 2", " 1", "1 ", "1,,2", ",", "5-3", "1-2-3", "-1", "1-", "-", "0-7:2/4", "all", "0x1", "1e1", "99999999999999999999", "0-9000", "0-8192", "0-8193", "007", "1,1", "2,1", "٣", "3 -5", "3- 5"}).Draw(rt, "mut.fixed")
		case "token":
			extra := rapid.SampledFrom([]string{"+3", "+1-+2", "4-2", "a", "7-", "-7", "1-2-3", " 9", "10 "}).Draw(rt, "mut.tok")
			if s == "" {
				s = extra
			} else if rapid.Bool().Draw(rt, "mut.front") {
				s = extra + "," + s
			} else {
				s = s + "," + extra
			}
		}
	}
	return s
}

func TestC46_CPUList(t *testing.T) {
	vk.Check(t, 200000, func(rt *rapid.T) {
		set := c46GenSet(rt)
		printed := c46KernelList(set)
		s := printed
		mutated := rapid.Bool().Draw(rt, "mutate")
		if mutated {
			s = c46Mutate(rt, printed)
		}
		verdict, want, loose := c46Classify(s)
		if !mutated {
			// self check of the reference: the kernel's print form is strictly valid and expands to the set
			if verdict != c46MustAccept || fmt.Sprint(want) != fmt.Sprint(set) {
				rt.Fatalf("harness: classify(%q) = %d %v for set %v", s, verdict, want, set)
			}
		}
		hasPlus := strings.Contains(s, "+")
		if hasPlus && verdict == c46MustReject && vk.KnownOpen("C46", c46KeyPlus) {
			vk.Excluded("C46", c46KeyPlus)
			return
		}
		got, err := parseCPUList(s)
		labels := []string{"cpulist", []string{"expect-accept", "expect-either", "expect-reject"}[verdict]}
		if mutated {
			labels = append(labels, "mutated")
		} else {
			labels = append(labels, "kernel-printed")
		}
		if hasPlus {
			labels = append(labels, "has-plus")
		}
		if err == nil {
			labels = append(labels, "accepted")
		} else {
			labels = append(labels, "rejected")
		}
		vk.Case("C46", "list|"+s, strings.Contains(s, "-"), labels...)
		switch {
		case verdict == c46MustAccept && err != nil:
			rt.Fatalf("parseCPUList(%q) refused a list in the kernel's format: %v", s, err)
		case verdict == c46MustReject && err == nil:
			rt.Fatalf("parseCPUList(%q) = %v, but this is not cpulist syntax (neither printed nor parsed by the kernel)", s, got)
		}
		if err == nil && !loose && fmt.Sprint(got) != fmt.Sprint(want) && !(len(got) == 0 && len(want) == 0) {
			rt.Fatalf("parseCPUList(%q) = %v, the list denotes %v", s, got, want)
		}
	})
}

func TestC46_Probe_cpulist_plus_sign_accepted(t *testing.T) {
	defer vk.Flush()
	var bad []string
	for _, s := range []string{"+3", "0-+2", "+1-+2,5"} {
		if got, err := parseCPUList(s); err == nil {
			bad = append(bad, fmt.Sprintf("%q -> %v", s, got))
		}
	}
	switch {
	case len(bad) == 0:
	case vk.KnownOpen("C46", c46KeyPlus):
		vk.ReportKnown("C46", c46KeyPlus)
	default:
		t.Fatalf("C46 %s: parseCPUList accepts explicitly signed numbers, which are not cpulist syntax: %s", c46KeyPlus, strings.Join(bad, "; "))
	}
}
