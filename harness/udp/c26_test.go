//go:build linux && !android && !e2e_testing

package udp

// C26 - batched underlay sends survive kernel faults without duplication
// (batchWriter.WriteBatch / planRun / writeEntryCmsg in udp_linux_writebatch.go).
//
// The writer is built without a socket the way the package's own tests do; sendFn is a model
// kernel that decodes the msghdr/iovec/sockaddr/cmsg memory it is handed (never the writer's own
// bookkeeping), applies sendmmsg + UDP_SEGMENT semantics to it and answers with a rapid-drawn
// outcome (all, short count, zero-progress errno, zero-progress without error).

import (
	"encoding/binary"
	"fmt"
	"io"
	"log/slog"
	"net"
	"net/netip"
	"os"
	"strings"
	"testing"
	"unsafe"

	"golang.org/x/sys/unix"
	"pgregory.net/rapid"
	"verifkit/vk"
)

const (
	c26MaxGSOBytes = 65000 // documented byte limit of one offloaded run
	c26MaxBatch    = 400
)

var c26Arena = make([]byte, 70000+c26MaxBatch+64)

// ---- batch generator -----------------------------------------------------------------------

type c26Batch struct {
	sizes []int
	addrs []netip.AddrPort
	desc  []string // one token per group, for messages
}

func (b *c26Batch) add(dst netip.AddrPort, name string, sizes ...int) {
	for _, s := range sizes {
		if len(b.sizes) >= c26MaxBatch {
			return
		}
		b.sizes = append(b.sizes, s)
		b.addrs = append(b.addrs, dst)
	}
	// compress the description
	var sb strings.Builder
	sb.WriteString(name + ":")
	for i := 0; i < len(sizes); {
		j := i
		for j < len(sizes) && sizes[j] == sizes[i] {
			j++
		}
		if i > 0 {
			sb.WriteByte(',')
		}
		if j-i > 1 {
			fmt.Fprintf(&sb, "%dx%d", sizes[i], j-i)
		} else {
			fmt.Fprintf(&sb, "%d", sizes[i])
		}
		i = j
	}
	b.desc = append(b.desc, sb.String())
}

type c26Dest struct {
	name string
	ap   netip.AddrPort
}

var c26Dests = []c26Dest{
	{"A", netip.MustParseAddrPort("10.0.0.1:4242")},
	{"B", netip.MustParseAddrPort("10.0.0.2:4242")},
	{"Ap", netip.MustParseAddrPort("10.0.0.1:4243")},          // same host, other port
	{"Am", netip.MustParseAddrPort("[::ffff:10.0.0.1]:4242")}, // v4-mapped spelling of A
	{"X6", netip.MustParseAddrPort("[2001:db8::1]:4242")},     // not addressable by a v4 socket
	{"C", netip.MustParseAddrPort("192.0.2.77:1")},
	{"Y6", netip.MustParseAddrPort("[fe80::1]:9")},
}

var c26SizePool = []int{1200, 1400, 1, 2, 100, 1472, 8973, 9001, 9033, 32500, 32501, 21667, 65000, 64999, 600, 3}

func c26DrawSize(rt *rapid.T) int {
	if rapid.IntRange(0, 2).Draw(rt, "sizeRandom") == 0 {
		return rapid.IntRange(1, 9033).Draw(rt, "size")
	}
	return rapid.SampledFrom(c26SizePool).Draw(rt, "size")
}

func c26Repeat(s, n int) []int {
	r := make([]int, n)
	for i := range r {
		r[i] = s
	}
	return r
}

func c26DrawBatch(rt *rapid.T) *c26Batch {
	b := &c26Batch{}
	groups := []int{3, 1, 2, 5, 8, 0, 12, 20}[rapid.IntRange(0, 7).Draw(rt, "groups")]
	for g := 0; g < groups && len(b.sizes) < c26MaxBatch; g++ {
		d := rapid.SampledFrom(c26Dests).Draw(rt, "dst")
		switch []int{0, 1, 2, 3, 4, 5, 6, 7, 8, 9, 10, 11}[rapid.IntRange(0, 11).Draw(rt, "pattern")] {
		case 0: // equal run
			b.add(d.ap, d.name, c26Repeat(c26DrawSize(rt), rapid.IntRange(1, 12).Draw(rt, "n"))...)
		case 1: // equal run with a shorter tail
			s := c26DrawSize(rt)
			n := rapid.IntRange(1, 12).Draw(rt, "n")
			b.add(d.ap, d.name, append(c26Repeat(s, n), rapid.IntRange(0, s).Draw(rt, "tail"))...)
		case 2: // long run of small datagrams: crosses the segment limit
			s := rapid.IntRange(1, 40).Draw(rt, "small")
			n := rapid.SampledFrom([]int{62, 63, 64, 65, 126, 127, 128, 129, 130, 200, 260}).Draw(rt, "n")
			sz := c26Repeat(s, n)
			if rapid.Bool().Draw(rt, "tail") && s > 1 {
				sz = append(sz, rapid.IntRange(1, s-1).Draw(rt, "tailSize"))
			}
			b.add(d.ap, d.name, sz...)
		case 3: // run of big datagrams: crosses the byte limit
			s := rapid.SampledFrom([]int{1400, 8973, 9001, 9033, 21667, 32500, 32501, 1300, 1024, 5000}).Draw(rt, "big")
			n := c26MaxGSOBytes/s + rapid.IntRange(-2, 3).Draw(rt, "dn")
			sz := c26Repeat(s, max(n, 1))
			if rapid.Bool().Draw(rt, "tail") {
				// a tail that exactly fills / overflows the byte budget
				room := c26MaxGSOBytes - (c26MaxGSOBytes/s)*s
				sz = append(c26Repeat(s, c26MaxGSOBytes/s), max(0, min(s, room+rapid.IntRange(-1, 1).Draw(rt, "over"))))
			}
			b.add(d.ap, d.name, sz...)
		case 4: // shrinking sizes
			s := c26DrawSize(rt)
			var sz []int
			for n := rapid.IntRange(2, 8).Draw(rt, "n"); n > 0 && s >= 0; n-- {
				sz = append(sz, s)
				s -= rapid.IntRange(0, 3).Draw(rt, "step")
			}
			b.add(d.ap, d.name, sz...)
		case 5: // growing sizes
			s := rapid.IntRange(0, 1400).Draw(rt, "start")
			var sz []int
			for n := rapid.IntRange(2, 8).Draw(rt, "n"); n > 0; n-- {
				sz = append(sz, s)
				s += rapid.IntRange(0, 2).Draw(rt, "step")
			}
			b.add(d.ap, d.name, sz...)
		case 6: // empty datagrams
			b.add(d.ap, d.name, c26Repeat(0, rapid.IntRange(1, 4).Draw(rt, "n"))...)
		case 7: // an empty datagram inside an equal run
			s := c26DrawSize(rt)
			sz := append(c26Repeat(s, rapid.IntRange(1, 4).Draw(rt, "before")), 0)
			sz = append(sz, c26Repeat(s, rapid.IntRange(0, 4).Draw(rt, "after"))...)
			b.add(d.ap, d.name, sz...)
		case 8: // larger than one offloaded run may be
			b.add(d.ap, d.name, c26Repeat(rapid.IntRange(c26MaxGSOBytes+1, 70000).Draw(rt, "huge"), rapid.IntRange(1, 3).Draw(rt, "n"))...)
		case 9: // alternation between two destinations with equal sizes
			d2 := rapid.SampledFrom(c26Dests).Draw(rt, "dst2")
			s := c26DrawSize(rt)
			for n := rapid.IntRange(2, 10).Draw(rt, "n"); n > 0; n-- {
				b.add(d.ap, d.name, s)
				b.add(d2.ap, d2.name, s)
			}
		case 10: // arbitrary sizes
			n := rapid.IntRange(1, 10).Draw(rt, "n")
			b.add(d.ap, d.name, rapid.SliceOfN(rapid.IntRange(0, 1500), n, n).Draw(rt, "sizes")...)
		case 11: // many equal datagrams: several chunks when the scratch is small
			b.add(d.ap, d.name, c26Repeat(c26DrawSize(rt)%1500+1, rapid.IntRange(20, 150).Draw(rt, "n"))...)
		}
	}
	return b
}

// ---- model kernel --------------------------------------------------------------------------

type c26Key struct {
	ip   [16]byte
	port uint16
	v4   bool
}

func (k c26Key) String() string {
	if k.v4 {
		return fmt.Sprintf("%v:%d", netip.AddrFrom4([4]byte(k.ip[:4])), k.port)
	}
	return fmt.Sprintf("[%v]:%d", netip.AddrFrom16(k.ip), k.port)
}

// c26CanonDest: what sockaddr a socket of the given family uses for ap; ok=false if it cannot.
func c26CanonDest(ap netip.AddrPort, v4sock bool) (k c26Key, ok bool) {
	a := ap.Addr()
	k.port = ap.Port()
	if v4sock {
		if a.Is4In6() {
			a = a.Unmap()
		}
		if !a.Is4() {
			return k, false
		}
		b := a.As4()
		copy(k.ip[:], b[:])
		k.v4 = true
		return k, true
	}
	k.ip = a.As16()
	return k, true
}

type c26Entry struct {
	slot       int
	dst        c26Key
	idx        []int // batch indices of the datagrams the kernel would put on the wire
	unroutable []int // those of idx whose own destination the socket cannot address
	multi      bool
}

type c26Failure struct{ msg string }

type c26Kernel struct {
	rt      *rapid.T
	w       *batchWriter
	v4      bool
	maxSeg  int
	gsoOK   bool // statistics only: no EIO on an offloaded entry seen yet
	pErr    int
	pPart   int
	pNoProg int

	// per batch
	bufs       [][]byte
	addrs      []netip.AddrPort
	ptr        map[uintptr]int
	accepted   []bool
	rejected   []bool
	lastByDest map[c26Key]int
	count      int
	calls      int
	noProgress bool
	trace      []string

	// statistics of the batch
	nPartial, nErr, nEIOGSO, nMultiOffered, nSegLimit, nByteTight int
}

func (k *c26Kernel) failf(format string, args ...any) {
	panic(c26Failure{fmt.Sprintf(format, args...)})
}

func (k *c26Kernel) begin(bufs [][]byte, addrs []netip.AddrPort) {
	n := len(bufs)
	k.bufs, k.addrs = bufs, addrs
	k.ptr = make(map[uintptr]int, n)
	for j, b := range bufs {
		if len(b) > 0 {
			k.ptr[uintptr(unsafe.Pointer(&b[0]))] = j
		}
	}
	k.accepted = make([]bool, n)
	k.rejected = make([]bool, n)
	k.lastByDest = map[c26Key]int{}
	k.count, k.calls, k.noProgress = 0, 0, false
	k.trace = k.trace[:0]
	k.nPartial, k.nErr, k.nEIOGSO, k.nMultiOffered, k.nSegLimit, k.nByteTight = 0, 0, 0, 0, 0, 0
}

// decodeEntry reads slot e of the sendmmsg array from raw memory.
func (k *c26Kernel) decodeEntry(e int, prev int) c26Entry {
	w := k.w
	hdr := &w.msgs[e].Hdr
	ent := c26Entry{slot: e}

	// destination
	if hdr.Name == nil {
		k.failf("entry %d has no destination sockaddr", e)
	}
	if hdr.Namelen != unix.SizeofSockaddrInet4 && hdr.Namelen != unix.SizeofSockaddrInet6 {
		k.failf("entry %d has sockaddr length %d", e, hdr.Namelen)
	}
	sa := unsafe.Slice(hdr.Name, int(hdr.Namelen))
	fam := binary.NativeEndian.Uint16(sa[0:2])
	ent.dst.port = binary.BigEndian.Uint16(sa[2:4])
	switch {
	case fam == unix.AF_INET && hdr.Namelen == unix.SizeofSockaddrInet4 && k.v4:
		copy(ent.dst.ip[:4], sa[4:8])
		ent.dst.v4 = true
	case fam == unix.AF_INET6 && hdr.Namelen == unix.SizeofSockaddrInet6 && !k.v4:
		copy(ent.dst.ip[:], sa[8:24])
	default:
		k.failf("entry %d: sockaddr family %d / length %d does not fit the socket (v4=%v)", e, fam, hdr.Namelen, k.v4)
	}

	// iovecs (must lie inside the writer's iovec array: anything else is wild memory)
	niov := int(hdr.Iovlen)
	if hdr.Iov == nil || niov < 1 || niov > len(w.iovs) {
		k.failf("entry %d has %d iovecs", e, niov)
	}
	first := (uintptr(unsafe.Pointer(hdr.Iov)) - uintptr(unsafe.Pointer(&w.iovs[0]))) / unsafe.Sizeof(iovec{})
	if uintptr(unsafe.Pointer(hdr.Iov)) < uintptr(unsafe.Pointer(&w.iovs[0])) || int(first)+niov > len(w.iovs) {
		k.failf("entry %d: iovec pointer/length reaches outside the iovec scratch", e)
	}
	iovs := unsafe.Slice(hdr.Iov, niov)

	// ancillary data: nothing, or exactly one UDP_SEGMENT cmsg carrying a uint16
	gso := -1
	if hdr.Control != nil && hdr.Controllen != 0 {
		cl := int(hdr.Controllen)
		cb := uintptr(unsafe.Pointer(hdr.Control))
		if len(w.cmsg) == 0 || cb < uintptr(unsafe.Pointer(&w.cmsg[0])) || cb+uintptr(cl) > uintptr(unsafe.Pointer(&w.cmsg[0]))+uintptr(len(w.cmsg)) {
			k.failf("entry %d: control pointer/length reaches outside the cmsg scratch", e)
		}
		ctrl := unsafe.Slice(hdr.Control, cl)
		word := int(unsafe.Sizeof(uintptr(0)))
		hl := word + 8
		if cl < hl+2 {
			k.failf("entry %d: control length %d too short for a UDP_SEGMENT cmsg", e, cl)
		}
		var clen uint64
		if word == 8 {
			clen = binary.NativeEndian.Uint64(ctrl)
		} else {
			clen = uint64(binary.NativeEndian.Uint32(ctrl))
		}
		level := int32(binary.NativeEndian.Uint32(ctrl[word:]))
		typ := int32(binary.NativeEndian.Uint32(ctrl[word+4:]))
		if clen != uint64(hl+2) || level != 17 /*SOL_UDP*/ || typ != 103 /*UDP_SEGMENT*/ {
			k.failf("entry %d: control data is not one UDP_SEGMENT cmsg (len=%d level=%d type=%d)", e, clen, level, typ)
		}
		if cl >= (int(clen)+word-1)&^(word-1)+hl {
			k.failf("entry %d: control length %d holds more than the one UDP_SEGMENT cmsg", e, cl)
		}
		gso = int(binary.NativeEndian.Uint16(ctrl[hl:]))
		if gso == 0 {
			k.failf("entry %d: UDP_SEGMENT size 0", e)
		}
	}

	// resolve iovecs to batch datagrams
	total := 0
	js := make([]int, niov)
	for i, iov := range iovs {
		l := int(iov.Len)
		total += l
		if l == 0 {
			js[i] = k.resolveEmpty(ent.dst, prev, e)
		} else {
			j, ok := k.ptr[uintptr(unsafe.Pointer(iov.Base))]
			if !ok {
				k.failf("entry %d iovec %d does not start at a datagram of the batch", e, i)
			}
			if l != len(k.bufs[j]) {
				k.failf("entry %d iovec %d has length %d, datagram %d has %d bytes", e, i, l, j, len(k.bufs[j]))
			}
			js[i] = j
		}
		prev = js[i]
	}

	// what the kernel puts on the wire
	switch {
	case gso < 0 || total <= gso:
		if niov != 1 {
			k.failf("entry %d (datagrams %v) has %d iovecs and no effective UDP_SEGMENT (gso=%d): the kernel sends them as ONE concatenated datagram", e, js, niov, gso)
		}
	default:
		for i, iov := range iovs {
			l := int(iov.Len)
			if i < niov-1 && l != gso {
				k.failf("entry %d (datagrams %v): UDP_SEGMENT=%d but datagram %d has %d bytes: segment boundaries do not match the datagrams (first datagram has %d bytes)", e, js, gso, js[i], l, int(iovs[0].Len))
			}
			if i == niov-1 && (l < 1 || l > gso) {
				k.failf("entry %d (datagrams %v): UDP_SEGMENT=%d but the last datagram %d has %d bytes", e, js, gso, js[i], l)
			}
		}
	}
	ent.idx = js
	ent.multi = niov >= 2
	if ent.multi {
		if gso != int(iovs[0].Len) {
			k.failf("entry %d (datagrams %v): UDP_SEGMENT=%d differs from the first datagram's size %d", e, js, gso, int(iovs[0].Len))
		}
		if niov > k.maxSeg {
			k.failf("entry %d carries %d segments, limit is %d", e, niov, k.maxSeg)
		}
		if total > c26MaxGSOBytes {
			k.failf("entry %d carries %d bytes, limit is %d", e, total, c26MaxGSOBytes)
		}
		k.nMultiOffered++
		if niov == k.maxSeg {
			k.nSegLimit++
		}
		if total+gso > c26MaxGSOBytes {
			k.nByteTight++
		}
	}
	// one destination, and it is the datagrams' own
	for _, j := range js {
		want, ok := c26CanonDest(k.addrs[j], k.v4)
		if !ok {
			// only a violation if the kernel accepts it (see accept)
			ent.unroutable = append(ent.unroutable, j)
			continue
		}
		if want != ent.dst {
			k.failf("entry %d is addressed to %v but carries datagram %d destined to %v", e, ent.dst, j, k.addrs[j])
		}
	}
	return ent
}

// resolveEmpty maps an empty datagram (no memory to identify it by) to the first empty datagram of
// the batch for this destination after prev that is still to be sent.
func (k *c26Kernel) resolveEmpty(dst c26Key, prev int, e int) int {
	any := false
	for pass := 0; pass < 2; pass++ {
		for j := prev + 1; j < len(k.bufs); j++ {
			if len(k.bufs[j]) != 0 {
				continue
			}
			if c, ok := c26CanonDest(k.addrs[j], k.v4); !ok || c != dst {
				continue
			}
			any = true
			if k.accepted[j] || (pass == 0 && k.rejected[j]) {
				continue
			}
			return j
		}
	}
	if any {
		k.failf("entry %d offers an empty datagram to %v, but every such datagram (after #%d) was already accepted by the kernel: duplicate", e, dst, prev)
	}
	k.failf("entry %d offers an empty datagram to %v, the batch has none there (after #%d)", e, dst, prev)
	return -1
}

func (k *c26Kernel) accept(ents []c26Entry) {
	for _, ent := range ents {
		for _, j := range ent.unroutable {
			k.failf("datagram %d to %v, which the socket cannot address, was handed to the kernel successfully (entry %d to %v)", j, k.addrs[j], ent.slot, ent.dst)
		}
		for _, j := range ent.idx {
			if k.accepted[j] {
				k.failf("datagram %d was handed to the kernel successfully twice (second time in entry %d)", j, ent.slot)
			}
			k.accepted[j] = true
			k.count++
			if last, ok := k.lastByDest[ent.dst]; ok && last > j {
				k.failf("datagram %d to %v accepted after datagram %d to the same destination: reordered", j, ent.dst, last)
			}
			k.lastByDest[ent.dst] = j
		}
	}
}

var c26Errnos = []unix.Errno{unix.EIO, unix.ENOBUFS, unix.EPERM, unix.EINVAL, unix.EMSGSIZE, unix.ENETUNREACH, unix.EAGAIN, unix.ECONNREFUSED, unix.EHOSTUNREACH, unix.ENOMEM}

func (k *c26Kernel) send(start, n int) (int, error) {
	k.calls++
	if k.noProgress {
		k.failf("sendFn called again after a call that returned (0, nil)")
	}
	if k.calls > 4*len(k.bufs)+64 {
		k.failf("sendFn called %d times for %d datagrams", k.calls, len(k.bufs))
	}
	if start < 0 || n < 1 || start+n > len(k.w.msgs) {
		k.failf("sendFn(start=%d, n=%d) outside the %d-slot array", start, n, len(k.w.msgs))
	}
	ents := make([]c26Entry, n)
	prev := -1
	for i := range ents {
		ents[i] = k.decodeEntry(start+i, prev)
		prev = ents[i].idx[len(ents[i].idx)-1]
	}
	roll := rapid.IntRange(0, 99).Draw(k.rt, "outcome")
	switch {
	case roll < k.pNoProg:
		k.noProgress = true
		k.trace = append(k.trace, fmt.Sprintf("send(%d,%d)->0,nil", start, n))
		return 0, nil
	case roll < k.pNoProg+k.pErr:
		errno := rapid.SampledFrom(c26Errnos).Draw(k.rt, "errno")
		if ents[0].multi && rapid.Bool().Draw(k.rt, "eioOnGSO") {
			errno = unix.EIO
		}
		var err error = errno
		switch rapid.IntRange(0, 2).Draw(k.rt, "wrap") {
		case 0:
			err = &net.OpError{Op: "sendmmsg", Err: errno}
		case 1:
			err = os.NewSyscallError("sendmmsg", errno)
		}
		ret := []int{-1, 0}[rapid.IntRange(0, 1).Draw(k.rt, "ret")]
		k.nErr++
		if ents[0].multi && errno == unix.EIO {
			// offload rejected by the route; what the writer does next is its own business
			// (statistics only)
			k.gsoOK = false
			k.nEIOGSO++
		} else {
			for _, j := range ents[0].idx {
				k.rejected[j] = true
			}
		}
		k.trace = append(k.trace, fmt.Sprintf("send(%d,%d)[first=%v]->%d,%v", start, n, ents[0].idx, ret, errno))
		return ret, err
	case roll < k.pNoProg+k.pErr+k.pPart && n >= 2:
		c := rapid.IntRange(1, n-1).Draw(k.rt, "short")
		k.accept(ents[:c])
		k.nPartial++
		k.trace = append(k.trace, fmt.Sprintf("send(%d,%d)->%d", start, n, c))
		return c, nil
	}
	k.accept(ents)
	k.trace = append(k.trace, fmt.Sprintf("send(%d,%d)->all", start, n))
	return n, nil
}

// ---- property ------------------------------------------------------------------------------

func c26NewWriter(v4, gso bool, maxSeg, scratch int, debugLog bool) *batchWriter {
	lvl := slog.LevelError
	if debugLog {
		lvl = slog.LevelDebug
	}
	w := &batchWriter{fd: -1, isV4: v4, l: slog.New(slog.NewTextHandler(io.Discard, &slog.HandlerOptions{Level: lvl}))}
	w.gsoSupported = gso
	w.maxGSOSegments = maxSeg
	w.prepareWriteMessages(scratch, true)
	return w
}

func TestC26_WriteBatchModelKernel(t *testing.T) {
	vk.Check(t, 7000, func(rt *rapid.T) {
		v4 := rapid.IntRange(0, 2).Draw(rt, "v4sock") != 2
		gso := rapid.IntRange(0, 4).Draw(rt, "gso") != 4
		maxSeg := rapid.SampledFrom([]int{63, 127}).Draw(rt, "maxSeg")
		scratch := rapid.SampledFrom([]int{MaxWriteBatch, 64, 8, 3, 2, 1, 16, 127, 5}).Draw(rt, "scratch")
		debugLog := rapid.Bool().Draw(rt, "debugLog")
		prof := rapid.SampledFrom([][3]int{{30, 25, 0}, {15, 15, 0}, {50, 20, 0}, {10, 40, 0}, {25, 20, 3}, {0, 30, 0}, {30, 0, 0}, {0, 0, 0}, {80, 10, 0}}).Draw(rt, "faultProfile")

		w := c26NewWriter(v4, gso, maxSeg, scratch, debugLog)
		k := &c26Kernel{rt: rt, w: w, v4: v4, maxSeg: maxSeg, gsoOK: gso, pErr: prof[0], pPart: prof[1], pNoProg: prof[2]}
		w.sendFn = k.send

		nb := []int{1, 2, 3}[rapid.IntRange(0, 2).Draw(rt, "batches")]
		for bi := 0; bi < nb; bi++ {
			b := c26DrawBatch(rt)
			bufs := make([][]byte, len(b.sizes))
			for j, s := range b.sizes {
				bufs[j] = c26Arena[j : j+s : j+s]
			}
			setup := fmt.Sprintf("v4sock=%v gso=%v(now %v) maxSeg=%d scratch=%d batch#%d [%s]", v4, gso, k.gsoOK, maxSeg, scratch, bi, strings.Join(b.desc, " "))
			k.begin(bufs, b.addrs)
			gsoBefore := k.gsoOK

			var written int
			var werr error
			func() {
				defer func() {
					if r := recover(); r != nil {
						if f, ok := r.(c26Failure); ok {
							rt.Fatalf("%s\n  %s\n  kernel trace: %s", f.msg, setup, strings.Join(k.trace, "; "))
						}
						if strings.HasPrefix(fmt.Sprintf("%T", r), "rapid.") {
							panic(r) // rapid's own control flow (draws happen inside sendFn)
						}
						rt.Fatalf("WriteBatch panicked: %v\n  %s\n  kernel trace: %s", r, setup, strings.Join(k.trace, "; "))
					}
				}()
				written, werr = w.WriteBatch(bufs, b.addrs)
			}()
			ctx := fmt.Sprintf("\n  %s\n  kernel trace: %s", setup, strings.Join(k.trace, "; "))

			if written != k.count {
				rt.Fatalf("WriteBatch returned %d, the kernel accepted %d datagrams%s", written, k.count, ctx)
			}
			if k.noProgress && werr == nil {
				rt.Fatalf("sendmmsg returned (0, nil) but WriteBatch reported no error%s", ctx)
			}
			unroutable := 0
			for j := range bufs {
				if _, ok := c26CanonDest(b.addrs[j], v4); !ok {
					unroutable++
					if k.accepted[j] {
						rt.Fatalf("datagram %d to %v counts as accepted although the socket cannot address it%s", j, b.addrs[j], ctx)
					}
				}
			}

			hasZero, hasHuge := false, false
			for _, s := range b.sizes {
				hasZero = hasZero || s == 0
				hasHuge = hasHuge || s > c26MaxGSOBytes
			}
			nt := k.nPartial >= 1 && k.nErr >= 1 && k.nMultiOffered >= 1
			labels := []string{"batch"}
			add := func(c bool, l string) {
				if c {
					labels = append(labels, l)
				}
			}
			add(len(bufs) == 0, "empty-batch")
			add(len(bufs) > scratch, "batch>scratch")
			add(k.nMultiOffered > 0, "gso-run-offered")
			add(k.nPartial > 0, "partial-count")
			add(k.nErr > 0, "zero-progress-error")
			add(k.nEIOGSO > 0, "eio-on-gso-run")
			add(k.noProgress, "zero-progress-nil")
			add(unroutable > 0, "unroutable-present")
			add(hasZero, "empty-datagram-present")
			add(hasHuge, "over-65000-datagram-present")
			add(k.nSegLimit > 0, "run-at-segment-limit")
			add(k.nByteTight > 0, "run-at-byte-limit")
			add(!gsoBefore && gso, "batch-after-gso-disabled")
			add(!gso, "gso-off-socket")
			add(!v4, "v6-socket")
			add(k.count == len(bufs) && len(bufs) > 0, "all-accepted")
			add(k.nErr == 0 && k.nPartial == 0 && !k.noProgress, "fault-free")
			key := fmt.Sprintf("%v/%v/%d/%d/%s/%s", v4, gsoBefore, maxSeg, scratch, strings.Join(b.desc, " "), strings.Join(k.trace, ";"))
			vk.Case("C26", key, nt, labels...)
			if nt && vk.WantSample("C26") {
				vk.Sample("C26", map[string]any{"setup": setup, "kernel": strings.Join(k.trace, "; "), "written": written, "err": fmt.Sprint(werr)})
			}
			if k.noProgress {
				break // the call failed; the socket would be torn down by the caller's error path
			}
		}
	})
}
