//go:build linux && !android && !e2e_testing

package udp

// C27, end to end on loopback - the receive loop (StdConn.ListenOut) hands every slot's ancillary data
// to parseRecvCmsg/deliverSegments; whether the pieces "together are exactly the received bytes"
// also depends on how the loop manages the slots between datagrams (a stale coalescing size left
// over in a slot from an earlier superdatagram must not split a later plain datagram).
//
// Two production sockets on 127.0.0.1 with offloads on: a generated sequence of sends - bursts
// through WriteBatch (equal sizes are sent as one UDP_SEGMENT superdatagram and reach a UDP_GRO
// receiver coalesced), single WriteTo datagrams of any size, zero-length datagrams - is received by
// ListenOut with a generated batch size (number of receive slots).
//
// Oracle: the sequence of pieces delivered to the reader is exactly the sequence of datagrams sent
// (same boundaries, same bytes, same order; loopback neither reorders nor - at these volumes - drops).
// A wait that runs out with bytes missing is inconclusive (counted; the run reports INFRA when it
// happens repeatedly), never a violation; pieces that DID arrive and differ are violations.

import (
	"bytes"
	"fmt"
	"io"
	"log/slog"
	"net/netip"
	"slices"
	"testing"
	"time"

	"pgregory.net/rapid"
	"verifkit/vk"
)

var c27LoopTimeouts int

func TestC27_LoopbackReceive(t *testing.T) {
	l := slog.New(slog.NewTextHandler(io.Discard, nil))
	probe, err := NewListener(l, Settings{Listen: netip.MustParseAddrPort("127.0.0.1:0"), Batch: 2, Offloads: true})
	if err != nil {
		vk.Infra(t, "C27: cannot open a loopback UDP socket: %v", err)
		return
	}
	ps := probe.(*StdConn)
	supported := ps.groSupported && ps.bw.gsoSupported
	ps.Close()
	if !supported {
		vk.Note("C27", "kernel without UDP_GRO/UDP_SEGMENT: the loopback part ran without coalescing")
	}
	vk.Check(t, 300, func(rt *rapid.T) {
		batch := rapid.SampledFrom([]int{2, 2, 3, 8, 64}).Draw(rt, "rxBatch")
		rxc, err := NewListener(l, Settings{Listen: netip.MustParseAddrPort("127.0.0.1:0"), Batch: batch, Offloads: true})
		if err != nil {
			rt.Fatalf("harness: rx listener: %v", err)
		}
		rx := rxc.(*StdConn)
		txc, err := NewListener(l, Settings{Listen: netip.MustParseAddrPort("127.0.0.1:0"), Batch: 16, Offloads: true})
		if err != nil {
			rx.Close()
			rt.Fatalf("harness: tx listener: %v", err)
		}
		tx := txc.(*StdConn)
		dst, _ := rx.LocalAddr()
		src, _ := tx.LocalAddr()
		rxCh := make(chan []byte, 4096)
		done := make(chan struct{})
		go func() {
			defer close(done)
			_ = rx.ListenOut(func(from netip.AddrPort, p []byte) {
				if from == src {
					rxCh <- slices.Clone(p)
				}
			}, func() {})
		}()
		defer func() {
			tx.Close()
			rx.Close()
			select {
			case <-done:
			case <-time.After(5 * time.Second):
			}
		}()

		var steps []string
		coalesced, plainAfter, sawBig := 0, 0, false
		tag := byte(0)
		mk := func(n int) []byte {
			tag++
			b := make([]byte, n)
			for i := range b {
				b[i] = tag + byte(i*7)
			}
			return b
		}
		nops := rapid.IntRange(1, 10).Draw(rt, "nops")
		for op := 0; op < nops; op++ {
			var sent [][]byte
			switch rapid.SampledFrom([]string{"burst", "burst", "single", "single", "mixed"}).Draw(rt, "op") {
			case "burst":
				// equal sizes (the last may be shorter): one UDP_SEGMENT send
				k := rapid.IntRange(2, 12).Draw(rt, "burstN")
				sz := rapid.SampledFrom([]int{1, 17, 100, 600, 1200, 1400}).Draw(rt, "burstSize")
				for i := 0; i < k; i++ {
					n := sz
					if i == k-1 && rapid.Bool().Draw(rt, "shortTail") {
						n = rapid.IntRange(1, sz).Draw(rt, "tail")
					}
					sent = append(sent, mk(n))
				}
				addrs := make([]netip.AddrPort, len(sent))
				for i := range addrs {
					addrs[i] = dst
				}
				if n, err := tx.WriteBatch(sent, addrs); err != nil || n != len(sent) {
					rt.Fatalf("harness: WriteBatch n=%d err=%v", n, err)
				}
				coalesced++
				steps = append(steps, fmt.Sprintf("burst %dx%d(last %d)", k, sz, len(sent[len(sent)-1])))
			case "single":
				n := rapid.SampledFrom([]int{0, 1, 16, 599, 600, 601, 1000, 1300, 1472, 4000, 9000, 40000}).Draw(rt, "singleLen")
				if rapid.Bool().Draw(rt, "singleRandom") {
					n = rapid.IntRange(0, 9000).Draw(rt, "singleLenR")
				}
				b := mk(n)
				sent = append(sent, b)
				if err := tx.WriteTo(b, dst); err != nil {
					rt.Fatalf("harness: WriteTo(%d): %v", n, err)
				}
				if coalesced > 0 {
					plainAfter++
				}
				if n > 1472 {
					sawBig = true
				}
				steps = append(steps, fmt.Sprintf("single %d", n))
			case "mixed":
				// different sizes in one WriteBatch: the planner must send them as separate datagrams
				k := rapid.IntRange(2, 6).Draw(rt, "mixedN")
				for i := 0; i < k; i++ {
					sent = append(sent, mk(rapid.IntRange(1, 1400).Draw(rt, "mixedLen")))
				}
				addrs := make([]netip.AddrPort, len(sent))
				for i := range addrs {
					addrs[i] = dst
				}
				if n, err := tx.WriteBatch(sent, addrs); err != nil || n != len(sent) {
					rt.Fatalf("harness: WriteBatch n=%d err=%v", n, err)
				}
				steps = append(steps, fmt.Sprintf("mixed %d", k))
			}
			// receive what this operation sent
			want := 0
			for _, b := range sent {
				want += len(b)
			}
			var got [][]byte
			gotBytes := 0
			deadline := time.After(10 * time.Second)
			timedOut := false
			for (gotBytes < want || len(got) < len(sent)) && !timedOut {
				select {
				case p := <-rxCh:
					got = append(got, p)
					gotBytes += len(p)
				case <-deadline:
					timedOut = true
				}
				if len(got) > len(sent)+64 {
					break
				}
			}
			// anything more that is already there?
			extra := time.After(2 * time.Millisecond)
		drain:
			for {
				select {
				case p := <-rxCh:
					got = append(got, p)
				case <-extra:
					break drain
				}
			}
			// every piece that arrived must be the next datagram sent
			for i := 0; i < len(got) && i < len(sent); i++ {
				if !bytes.Equal(got[i], sent[i]) {
					rt.Fatalf("rx batch=%d, after [%v]: datagram %d of the last operation was sent with %d bytes and delivered as a piece of %d bytes (pieces so far: %v)",
						batch, steps, i, len(sent[i]), len(got[i]), c27Lens(got))
				}
			}
			if len(got) > len(sent) {
				rt.Fatalf("rx batch=%d, after [%v]: %d datagrams sent, %d pieces delivered (%v)", batch, steps, len(sent), len(got), c27Lens(got))
			}
			if timedOut || len(got) < len(sent) {
				c27LoopTimeouts++
				vk.Label("C27", "loopback-wait-ran-out")
				return
			}
		}
		labels := []string{fmt.Sprintf("loop/rxBatch=%d", batch)}
		if coalesced > 0 {
			labels = append(labels, "loop/gso-burst")
		}
		if plainAfter > 0 {
			labels = append(labels, "loop/plain-datagram-after-a-coalesced-one")
		}
		if sawBig {
			labels = append(labels, "loop/fragmented-datagram")
		}
		vk.Case("C27", fmt.Sprintf("loop|%d|%v", batch, steps), coalesced > 0 && plainAfter > 0, labels...)
	})
	if c27LoopTimeouts >= 3 {
		vk.Infra(t, "C27: %d loopback waits ran out - machine too busy or loopback dropping datagrams", c27LoopTimeouts)
	}
}

func c27Lens(ps [][]byte) []int {
	var r []int
	for _, p := range ps {
		r = append(r, len(p))
	}
	return r
}
