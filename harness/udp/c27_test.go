//go:build linux && !android && !e2e_testing

package udp

// C27 - received offload superdatagrams split back exactly; parsing the ancillary data never reads
// outside it (deliverSegments / parseRecvCmsg in udp_linux.go).

import (
	"encoding/binary"
	"fmt"
	"math"
	"net/netip"
	"runtime/debug"
	"strconv"
	"testing"
	"unsafe"

	"golang.org/x/sys/unix"
	"pgregory.net/rapid"
	"verifkit/vk"
)

// ---- deliverSegments -----------------------------------------------------------------------

const c27MaxPayload = 70000

var c27PayloadArena = func() []byte {
	b := make([]byte, c27MaxPayload+1024)
	for i := range b {
		b[i] = byte(i*131 + i>>8)
	}
	return b
}()

type c27Piece struct {
	off, n, c int
}

// c27RunDeliver calls deliverSegments and returns the pieces as (offset into payload, len, cap);
// offset is -1 when the piece does not alias the payload.
func c27RunDeliver(payload []byte, seg int, from netip.AddrPort) (pieces []c27Piece, err string) {
	base := uintptr(unsafe.Pointer(unsafe.SliceData(payload)))
	limit := len(payload) + 2
	defer func() {
		if r := recover(); r != nil {
			err = fmt.Sprintf("panic: %v", r)
		}
	}()
	deliverSegments(func(a netip.AddrPort, b []byte) {
		if a != from {
			panic(fmt.Sprintf("callback got source %v, want %v", a, from))
		}
		if len(pieces) > limit {
			panic("more callbacks than payload bytes (no progress)")
		}
		off := -1
		p := uintptr(unsafe.Pointer(unsafe.SliceData(b)))
		if p >= base && p <= base+uintptr(len(payload)) {
			off = int(p - base)
		}
		pieces = append(pieces, c27Piece{off, len(b), cap(b)})
	}, from, payload, seg)
	return pieces, ""
}

func c27CheckDeliver(n, seg int, pieces []c27Piece) string {
	if seg <= 0 || seg >= n {
		// missing or nonsensical size: the datagram is delivered whole
		if len(pieces) != 1 {
			return fmt.Sprintf("want one whole delivery, got %d callbacks", len(pieces))
		}
		p := pieces[0]
		if p.n != n || p.c != p.n || (n > 0 && p.off != 0) {
			return fmt.Sprintf("whole delivery is off=%d len=%d cap=%d, want off=0 len=cap=%d", p.off, p.n, p.c, n)
		}
		return ""
	}
	want := (n + seg - 1) / seg
	if len(pieces) != want {
		return fmt.Sprintf("got %d pieces, want %d", len(pieces), want)
	}
	pos := 0
	for i, p := range pieces {
		wl := seg
		if i == want-1 {
			wl = n - pos
		}
		if p.off != pos || p.n != wl || p.c != p.n {
			return fmt.Sprintf("piece %d is off=%d len=%d cap=%d, want off=%d len=cap=%d", i, p.off, p.n, p.c, pos, wl)
		}
		pos += p.n
	}
	if pos != n {
		return fmt.Sprintf("pieces cover %d of %d bytes", pos, n)
	}
	return ""
}

func c27DrawLen(rt *rapid.T) int {
	switch rapid.IntRange(0, 9).Draw(rt, "lenClass") {
	case 0, 1, 2, 3:
		return rapid.IntRange(0, 64).Draw(rt, "len")
	case 4, 5, 6:
		return rapid.IntRange(0, 3000).Draw(rt, "len")
	case 7, 8:
		return rapid.IntRange(0, c27MaxPayload).Draw(rt, "len")
	}
	return rapid.SampledFrom([]int{0, 1, 2, 3, 1199, 1200, 1472, 2400, 9001, 65000, 65535, 65536, c27MaxPayload}).Draw(rt, "len")
}

func c27DrawSeg(rt *rapid.T, np *int) (int, string) {
	n := *np
	// rapid favours small indices: the splitting classes come first
	switch []int{11, 12, 10, 9, 8, 4, 3, 5, 6, 2, 0, 1, 7}[rapid.IntRange(0, 12).Draw(rt, "segClass")] {
	case 0:
		return rapid.SampledFrom([]int{-1, -2, -n, -n - 1, math.MinInt32, math.MinInt64, -65536}).Draw(rt, "seg"), "seg-negative"
	case 1:
		return rapid.IntRange(math.MinInt32, -1).Draw(rt, "seg"), "seg-negative"
	case 2:
		return 0, "seg-zero"
	case 3:
		return 1, "seg-one"
	case 4:
		return n - 1, "seg-len-1"
	case 5:
		return n, "seg-len"
	case 6:
		return n + 1, "seg-len+1"
	case 7:
		return rapid.SampledFrom([]int{math.MaxInt32, math.MaxInt64, math.MaxInt64 - 1, 65535, 65536, math.MaxInt64 - n, math.MaxInt64 - n + 1}).Draw(rt, "seg"), "seg-huge"
	case 8:
		// exact divisor: all pieces equal
		k := rapid.IntRange(1, 70).Draw(rt, "pieces")
		if n >= k && rapid.Bool().Draw(rt, "exact") {
			*np = n / k * k // trim the payload to a whole number of pieces
			return n / k, "seg-divisor"
		}
		return (n + k - 1) / k, "seg-nearly-divisor"
	case 9:
		return n/2 + rapid.IntRange(-1, 1).Draw(rt, "d"), "seg-half"
	case 10:
		return rapid.IntRange(1, 64).Draw(rt, "seg"), "seg-small"
	}
	if n < 1 {
		return rapid.IntRange(0, 3).Draw(rt, "seg"), "seg-random"
	}
	return rapid.IntRange(1, n+2).Draw(rt, "seg"), "seg-random"
}

func TestC27_DeliverSegments(t *testing.T) {
	froms := []netip.AddrPort{
		netip.MustParseAddrPort("192.0.2.1:4242"), netip.MustParseAddrPort("[2001:db8::7]:1"), {},
	}
	vk.Check(t, 60000, func(rt *rapid.T) {
		n := c27DrawLen(rt)
		seg, cls := c27DrawSeg(rt, &n)
		if n > 20000 && seg > 0 && seg < 8 {
			seg += 8 // keep the number of callbacks per case bounded (still thousands of pieces)
		}
		spare := rapid.IntRange(0, 512).Draw(rt, "spareCap")
		off := rapid.IntRange(0, 256).Draw(rt, "arenaOff")
		from := rapid.SampledFrom(froms).Draw(rt, "from")
		payload := c27PayloadArena[off : off+n : off+n+spare]

		pieces, perr := c27RunDeliver(payload, seg, from)
		if perr != "" {
			rt.Fatalf("deliverSegments(len=%d, segSize=%d): %s", n, seg, perr)
		}
		if msg := c27CheckDeliver(n, seg, pieces); msg != "" {
			rt.Fatalf("deliverSegments(len=%d cap=%d, segSize=%d): %s", n, n+spare, seg, msg)
		}
		split := seg > 0 && seg < n
		nt := split && n%seg != 0
		shape := "whole"
		if split {
			shape = "split-even"
			if nt {
				shape = "split-short-tail"
			}
		}
		vk.Case("C27", fmt.Sprintf("d/%d/%d", n, seg), nt, "deliver", cls, shape)
		if nt && vk.WantSample("C27") {
			vk.Sample("C27", map[string]any{"kind": "deliver", "len": n, "segSize": seg, "pieces": len(pieces)})
		}
	})
}

// ---- parseRecvCmsg -------------------------------------------------------------------------

// cmsghdr layout, stated independently of the package: { size_t len; int level; int type; } with
// data following the header and every cmsg aligned to sizeof(size_t).
var (
	c27Word   = strconv.IntSize / 8
	c27HdrLen = c27Word + 8
)

func c27Align(n int) int { return (n + c27Word - 1) &^ (c27Word - 1) }

const (
	c27SolUDP = 17  // SOL_UDP
	c27UDPGRO = 104 // UDP_GRO
)

func c27PutHdr(b []byte, l uint64, level, typ int32) {
	var h [16]byte
	if c27Word == 8 {
		binary.NativeEndian.PutUint64(h[:], l)
	} else {
		binary.NativeEndian.PutUint32(h[:], uint32(l))
	}
	binary.NativeEndian.PutUint32(h[c27Word:], uint32(level))
	binary.NativeEndian.PutUint32(h[c27Word+4:], uint32(typ))
	copy(b, h[:c27HdrLen]) // may be truncated by the destination
}

func c27Cmsg(level, typ int32, data []byte, pad bool) []byte {
	n := c27HdrLen + len(data)
	sz := n
	if pad {
		sz = c27Align(n)
	}
	b := make([]byte, sz)
	c27PutHdr(b, uint64(n), level, typ)
	copy(b[c27HdrLen:], data)
	return b
}

func c27GRO(v int32) []byte {
	var d [4]byte
	binary.NativeEndian.PutUint32(d[:], uint32(v))
	return c27Cmsg(c27SolUDP, c27UDPGRO, d[:], true)
}

func c27ReadLen(b []byte) uint64 {
	if c27Word == 8 {
		return binary.NativeEndian.Uint64(b)
	}
	return uint64(binary.NativeEndian.Uint32(b))
}

type c27Ref struct {
	headers     int     // cmsg headers visited
	gro         []int32 // values of the UDP_GRO cmsgs that carry a full 4-byte payload
	unspecified bool    // a UDP_GRO cmsg whose own length does not cover the 4-byte payload was visited
	corrupt     bool    // the walk ended at a header whose length is < header size or > remaining bytes
	leftover    int     // bytes after the last complete cmsg
}

// c27RefWalk is the CMSG_FIRSTHDR/CMSG_NXTHDR walk over ctrl as the kernel documents it.
func c27RefWalk(ctrl []byte) c27Ref {
	var r c27Ref
	off := 0
	for len(ctrl)-off >= c27HdrLen {
		l := c27ReadLen(ctrl[off:])
		if l < uint64(c27HdrLen) || l > uint64(len(ctrl)-off) {
			r.corrupt = true
			break
		}
		r.headers++
		level := int32(binary.NativeEndian.Uint32(ctrl[off+c27Word:]))
		typ := int32(binary.NativeEndian.Uint32(ctrl[off+c27Word+4:]))
		if level == c27SolUDP && typ == c27UDPGRO {
			if l >= uint64(c27HdrLen+4) {
				r.gro = append(r.gro, int32(binary.NativeEndian.Uint32(ctrl[off+c27HdrLen:])))
			} else {
				r.unspecified = true
			}
		}
		off += c27Align(int(l))
	}
	if off < len(ctrl) {
		r.leftover = len(ctrl) - off
	}
	return r
}

// c27Parse runs parseRecvCmsg on buf[at:at+cl] (buf is the whole arena), converting panics and
// memory faults into an error string.
func c27Parse(ctrl *byte, cl int) (gso int, err string) {
	old := debug.SetPanicOnFault(true)
	defer debug.SetPanicOnFault(old)
	defer func() {
		if r := recover(); r != nil {
			err = fmt.Sprintf("panic: %v", r)
		}
	}()
	var hdr msghdr
	hdr.Control = ctrl
	setMsgControllen(&hdr, cl)
	return parseRecvCmsg(&hdr), ""
}

// c27Guard: a mapping whose last page is inaccessible, so that a read past the end of a buffer
// placed flush against it faults.
type c27Guard struct {
	mem  []byte
	page int
}

var c27GuardMem *c27Guard

func c27GetGuard(t testing.TB) *c27Guard {
	if c27GuardMem != nil {
		return c27GuardMem
	}
	page := unix.Getpagesize()
	mem, err := unix.Mmap(-1, 0, 3*page, unix.PROT_READ|unix.PROT_WRITE, unix.MAP_ANON|unix.MAP_PRIVATE)
	if err != nil {
		vk.Infra(t, "C27: mmap for the guard page failed: %v", err)
	}
	if err := unix.Mprotect(mem[2*page:], unix.PROT_NONE); err != nil {
		vk.Infra(t, "C27: mprotect for the guard page failed: %v", err)
	}
	if err := unix.Mprotect(mem[:page], unix.PROT_NONE); err != nil {
		vk.Infra(t, "C27: mprotect for the guard page failed: %v", err)
	}
	c27GuardMem = &c27Guard{mem: mem, page: page}
	return c27GuardMem
}

const (
	c27Pre  = 64  // bytes before the control buffer inside the arena
	c27Post = 160 // bytes after it
)

// c27FillOutside writes the bytes around arena[c27Pre : c27Pre+cl] according to variant; inside is
// left alone. Variants >= 2 lay out valid-looking UDP_GRO cmsgs so that a walk that runs past the
// end of the control data (at any word phase) finds one.
func c27FillOutside(arena []byte, cl int, variant int, bait int32, rnd []byte, back int) {
	pre := arena[:c27Pre]
	post := arena[c27Pre+cl:]
	for i := range pre {
		pre[i] = 0
	}
	for i := range post {
		post[i] = 0
	}
	g := c27GRO(bait)
	switch variant {
	case 0: // zeros
	case 1:
		for i := range pre {
			pre[i] = 0xff
		}
		for i := range post {
			post[i] = 0xff
		}
	case 2, 3, 4, 5, 6, 7, 8, 9, 10:
		// GRO cmsgs back to back starting at the first word boundary (relative to the start of
		// the control data) at or after its end, shifted by (variant-2) bytes
		start := c27Align(cl) - cl + (variant - 2)
		for p := start; p+len(g) <= len(post); p += len(g) {
			copy(post[p:], g)
		}
		// the same immediately before the buffer
		for p := len(pre) - len(g); p >= 0; p -= len(g) {
			copy(pre[p:], g)
		}
	case 11:
		// "completion": the control data ends with `back` bytes that do not hold a whole header;
		// the bytes after the end continue them as a UDP_GRO cmsg
		if back > 0 && back < len(g) {
			copy(post, g[back:])
			for p := len(g) - back; p+len(g) <= len(post); p += len(g) {
				copy(post[p:], g)
			}
		} else {
			for p := 0; p+len(g) <= len(post); p += len(g) {
				copy(post[p:], g)
			}
		}
	case 12:
		copy(post, rnd)
		copy(pre, rnd)
	}
}

const c27Variants = 13

type c27Ctrl struct {
	buf   []byte // the whole buffer the kernel was given
	cl    int    // controllen the kernel reported (<= len(buf))
	class string
}

var c27Levels = []int32{c27SolUDP, 0 /*SOL_IP*/, 1 /*SOL_SOCKET*/, 41 /*SOL_IPV6*/, 17 << 8, -1}
var c27Types = []int32{c27UDPGRO, 1 /*IP_TOS*/, 8 /*IP_PKTINFO*/, 29 /*SO_TIMESTAMP*/, 103 /*UDP_SEGMENT*/, 0, -1}

func c27DrawCmsg(rt *rapid.T, forceGRO bool) []byte {
	level := rapid.SampledFrom(c27Levels).Draw(rt, "level")
	typ := rapid.SampledFrom(c27Types).Draw(rt, "type")
	if forceGRO || rapid.IntRange(0, 2).Draw(rt, "gro") == 0 {
		level, typ = c27SolUDP, c27UDPGRO
	}
	dl := 4
	if rapid.IntRange(0, 3).Draw(rt, "oddData") == 0 {
		dl = rapid.IntRange(0, 24).Draw(rt, "dataLen")
	}
	data := make([]byte, dl)
	if dl >= 4 {
		v := rapid.OneOf(
			rapid.SampledFrom([]int32{0, 1, 1200, 1472, 65535, -1, math.MinInt32, math.MaxInt32, 0x10000}),
			rapid.Int32()).Draw(rt, "value")
		binary.NativeEndian.PutUint32(data, uint32(v))
		for i := 4; i < dl; i++ {
			data[i] = 0xA5
		}
	} else {
		for i := range data {
			data[i] = 0x7f
		}
	}
	return c27Cmsg(level, typ, data, true)
}

func c27DrawCtrl(rt *rapid.T) c27Ctrl {
	cls := []int{4, 5, 8, 6, 9, 7, 3, 2, 4, 0, 1}[rapid.IntRange(0, 10).Draw(rt, "ctrlClass")]
	switch cls {
	case 0: // arbitrary bytes
		n := rapid.IntRange(0, 96).Draw(rt, "n")
		b := rapid.SliceOfN(rapid.Byte(), n, n).Draw(rt, "bytes")
		return c27Ctrl{b, n, "arbitrary"}
	case 1: // arbitrary bytes that carry the GRO level/type at the first header position
		n := rapid.IntRange(c27HdrLen, 96).Draw(rt, "n")
		b := rapid.SliceOfN(rapid.Byte(), n, n).Draw(rt, "bytes")
		l := rapid.OneOf(rapid.Uint64Range(0, uint64(n+8)), rapid.Uint64()).Draw(rt, "len0")
		c27PutHdr(b, l, c27SolUDP, c27UDPGRO)
		return c27Ctrl{b, n, "arbitrary-gro-head"}
	}
	// a chain of well-formed cmsgs ...
	k := []int{1, 2, 3, 0, 4}[rapid.IntRange(0, 4).Draw(rt, "chain")]
	if cls == 2 {
		k = 1
	}
	var b []byte
	for i := 0; i < k; i++ {
		b = append(b, c27DrawCmsg(rt, cls == 2)...)
	}
	switch cls {
	case 2:
		return c27Ctrl{b, len(b), "single-gro"}
	case 3:
		// last cmsg without its trailing padding
		if k > 0 {
			lastOff, off := 0, 0
			for off < len(b) {
				lastOff = off
				off += c27Align(int(c27ReadLen(b[off:])))
			}
			padBytes := len(b) - (lastOff + int(c27ReadLen(b[lastOff:])))
			trim := rapid.IntRange(0, c27Word-1).Draw(rt, "trim")
			b = b[:len(b)-min(trim, padBytes)]
		}
		return c27Ctrl{b, len(b), "chain"}
	case 4:
		return c27Ctrl{b, len(b), "chain"}
	case 5:
		// ... followed by a header with a corrupt length
		rest := rapid.IntRange(0, 40).Draw(rt, "tailBytes")
		tail := rapid.SliceOfN(rapid.Byte(), c27HdrLen+rest, c27HdrLen+rest).Draw(rt, "tail")
		remaining := uint64(len(tail))
		l := rapid.SampledFrom([]uint64{0, 1, uint64(c27HdrLen - 1), remaining + 1, remaining + 7, remaining + 8, 1 << 20,
			math.MaxInt64 - 8, math.MaxInt64 - 7, math.MaxInt64, 1 << 63, 1<<63 + 20, math.MaxUint64, math.MaxUint64 - 6,
			math.MaxUint32, 1 << 32, 1<<32 + 16}).Draw(rt, "badLen")
		gro := rapid.Bool().Draw(rt, "tailGRO")
		if gro {
			c27PutHdr(tail, l, c27SolUDP, c27UDPGRO)
		} else {
			c27PutHdr(tail, l, 0, 1)
		}
		b = append(b, tail...)
		return c27Ctrl{b, len(b), "corrupt-len"}
	case 6:
		// ... followed by a GRO cmsg cut short (header or data truncated) at the end of the data
		g := c27GRO(rapid.Int32Range(1, 65535).Draw(rt, "cutValue"))
		cut := rapid.IntRange(1, len(g)-1).Draw(rt, "cut")
		b = append(b, g[:cut]...)
		return c27Ctrl{b, len(b), "truncated-tail"}
	case 7:
		// ... followed by a header whose length is valid but not word aligned / covers odd data
		rest := rapid.IntRange(0, 24).Draw(rt, "tailBytes")
		tail := make([]byte, c27HdrLen+rest)
		l := uint64(rapid.IntRange(c27HdrLen, len(tail)).Draw(rt, "oddLen"))
		if rapid.Bool().Draw(rt, "tailGRO") {
			c27PutHdr(tail, l, c27SolUDP, c27UDPGRO)
		} else {
			c27PutHdr(tail, l, 1, 29)
		}
		copy(tail[c27HdrLen:], rapid.SliceOfN(rapid.Byte(), rest, rest).Draw(rt, "tailData"))
		b = append(b, tail...)
		return c27Ctrl{b, len(b), "odd-len"}
	}
	// 8, 9: the buffer holds more than the kernel reported: stale cmsgs (typically a UDP_GRO one
	// from the previous datagram in the same slot) follow the reported control length
	stale := c27GRO(rapid.Int32Range(1, 65535).Draw(rt, "staleValue"))
	full := append(append([]byte{}, b...), stale...)
	if rapid.Bool().Draw(rt, "staleTwice") {
		full = append(full, c27DrawCmsg(rt, true)...)
	}
	cl := len(b)
	if cls == 9 {
		cl = rapid.IntRange(0, len(full)).Draw(rt, "controllen")
	}
	return c27Ctrl{full, cl, "controllen-short"}
}

// c27CheckCtrl is the oracle shared by the rapid property and the fuzz target.
func c27CheckCtrl(t testing.TB, fail func(string, ...any), c c27Ctrl, bait int32, rnd []byte) (c27Ref, int) {
	ref := c27RefWalk(c.buf[:c.cl])
	arena := make([]byte, c27Pre+len(c.buf)+c27Post)
	copy(arena[c27Pre:], c.buf)
	results := make([]int, 0, c27Variants+2)
	for v := 0; v < c27Variants; v++ {
		c27FillOutside(arena, c.cl, v, bait, rnd, ref.leftover)
		if v == 0 && len(c.buf) > c.cl {
			// variant 0 keeps the stale bytes the kernel left behind after the reported length
			copy(arena[c27Pre+c.cl:], c.buf[c.cl:])
		}
		got, perr := c27Parse(&arena[c27Pre], c.cl)
		if perr != "" {
			fail("parseRecvCmsg(controllen=%d, control=%x, surroundings variant %d): %s", c.cl, c.buf[:c.cl], v, perr)
		}
		results = append(results, got)
	}
	// flush against an inaccessible page: any read past the control data faults
	g := c27GetGuard(t)
	if c.cl <= g.page {
		at := 2*g.page - c.cl
		copy(g.mem[at:], c.buf[:c.cl])
		var p *byte
		if c.cl > 0 {
			p = &g.mem[at]
		} else {
			p = &g.mem[2*g.page-1]
		}
		got, perr := c27Parse(p, c.cl)
		if perr != "" {
			fail("parseRecvCmsg(controllen=%d, control=%x) with the control data ending at an inaccessible page: %s", c.cl, c.buf[:c.cl], perr)
		}
		results = append(results, got)
		// and starting right after one
		if c.cl > 0 {
			copy(g.mem[g.page:], c.buf[:c.cl])
			for i := g.page + c.cl; i < g.page+c.cl+64; i++ {
				g.mem[i] = 0
			}
			got, perr = c27Parse(&g.mem[g.page], c.cl)
			if perr != "" {
				fail("parseRecvCmsg(controllen=%d, control=%x) with the control data starting after an inaccessible page: %s", c.cl, c.buf[:c.cl], perr)
			}
			results = append(results, got)
		}
	}
	for v, got := range results {
		if got != results[0] {
			fail("parseRecvCmsg(controllen=%d, control=%x) depends on bytes outside the control data: %d with zeroed/stale surroundings, %d with surroundings variant %d (bait value %d)",
				c.cl, c.buf[:c.cl], results[0], got, v, bait)
		}
	}
	got := results[0]
	// reference value, only where the ancillary data determines it
	if !ref.unspecified {
		switch {
		case len(ref.gro) == 0:
			if got != 0 {
				fail("parseRecvCmsg(controllen=%d, control=%x) = %d, but the cmsg walk finds no UDP_GRO value", c.cl, c.buf[:c.cl], got)
			}
		default:
			ok := false
			for _, v := range ref.gro {
				if got == int(v) {
					ok = true
				}
			}
			if !ok {
				fail("parseRecvCmsg(controllen=%d, control=%x) = %d, the cmsg walk finds UDP_GRO value(s) %v", c.cl, c.buf[:c.cl], got, ref.gro)
			}
		}
	}
	return ref, got
}

func TestC27_ParseRecvCmsg(t *testing.T) {
	c27GetGuard(t)
	vk.Check(t, 60000, func(rt *rapid.T) {
		c := c27DrawCtrl(rt)
		bait := rapid.Int32Range(1, 65000).Draw(rt, "bait")
		rnd := rapid.SliceOfN(rapid.Byte(), c27Post, c27Post).Draw(rt, "rnd")
		ref, got := c27CheckCtrl(t, rt.Fatalf, c, bait, rnd)

		nt := ref.headers >= 2 || ref.corrupt
		labels := []string{"cmsg", "ctrl-" + c.class}
		if ref.corrupt {
			labels = append(labels, "walk-ends-corrupt-len")
		}
		if ref.unspecified {
			labels = append(labels, "gro-data-truncated(value-unspecified)")
		}
		if ref.leftover > 0 && !ref.corrupt {
			labels = append(labels, "walk-ends-partial-header")
		}
		if c.cl < len(c.buf) {
			labels = append(labels, "controllen<buffer")
		}
		switch {
		case len(ref.gro) >= 2:
			labels = append(labels, "gro-multi")
		case len(ref.gro) == 1:
			labels = append(labels, "gro-one")
		default:
			labels = append(labels, "gro-none")
		}
		labels = append(labels, fmt.Sprintf("headers-%d", min(ref.headers, 4)))
		vk.Case("C27", fmt.Sprintf("c/%d/%x", c.cl, c.buf), nt, labels...)
		if nt && vk.WantSample("C27") {
			vk.Sample("C27", map[string]any{"kind": "cmsg", "class": c.class, "controllen": c.cl, "buffer": fmt.Sprintf("%x", c.buf), "result": got})
		}

		// composition: the parsed size drives the split of a payload
		n := rapid.IntRange(0, 4000).Draw(rt, "payloadLen")
		payload := c27PayloadArena[:n:n]
		pieces, perr := c27RunDeliver(payload, got, netip.AddrPort{})
		if perr != "" {
			rt.Fatalf("deliverSegments(len=%d, segSize=%d from cmsg): %s", n, got, perr)
		}
		if msg := c27CheckDeliver(n, got, pieces); msg != "" {
			rt.Fatalf("deliverSegments(len=%d, segSize=%d from cmsg %x): %s", n, got, c.buf[:c.cl], msg)
		}
	})
}

// FuzzC27: byte 0..1 choose the reported control length, the rest is the buffer; the tail of the
// input also provides a payload length and segment size for deliverSegments.
func FuzzC27(f *testing.F) {
	f.Add([]byte{0, 0})
	f.Add(append([]byte{24, 0}, c27GRO(1200)...))
	f.Add(append([]byte{24, 0}, append(c27GRO(1200), c27GRO(900)...)...))
	f.Add(append([]byte{0, 0}, c27GRO(1200)...))
	f.Add(append([]byte{20, 0}, c27GRO(-1)...))
	f.Add(append([]byte{40, 0}, append(c27Cmsg(0, 1, []byte{1}, true), c27GRO(1400)[:16]...)...))
	bad := c27GRO(7)
	c27PutHdr(bad, math.MaxInt64-8, c27SolUDP, c27UDPGRO)
	f.Add(append([]byte{48, 0}, append(c27GRO(5), bad...)...))
	f.Fuzz(func(t *testing.T, in []byte) {
		if len(in) < 2 || len(in) > 600 {
			return
		}
		buf := in[2:]
		cl := int(binary.LittleEndian.Uint16(in)) % (len(buf) + 1)
		fail := func(format string, args ...any) { t.Fatalf(format, args...) }
		rnd := make([]byte, c27Post)
		for i := range rnd {
			rnd[i] = byte(i*37) ^ in[i%len(in)]
		}
		_, got := c27CheckCtrl(t, fail, c27Ctrl{buf: buf, cl: cl, class: "fuzz"}, 4242, rnd)
		n := 0
		seg := got
		if len(buf) >= 4 {
			n = int(binary.LittleEndian.Uint16(buf[len(buf)-2:])) % 5000
			if buf[len(buf)-3]&1 == 1 {
				seg = int(int16(binary.LittleEndian.Uint16(buf[len(buf)-4:])))
			}
		}
		payload := c27PayloadArena[:n:n]
		pieces, perr := c27RunDeliver(payload, seg, netip.AddrPort{})
		if perr != "" {
			t.Fatalf("deliverSegments(len=%d, segSize=%d): %s", n, seg, perr)
		}
		if msg := c27CheckDeliver(n, seg, pieces); msg != "" {
			t.Fatalf("deliverSegments(len=%d, segSize=%d): %s", n, seg, msg)
		}
	})
}
