package iputil

// C21 - reject replies are well formed and never answer errors or fragments (iputil part).
//
// CreateRejectPacket is driven with packets from the shared generator verifkit/pktgen. The caller
// precondition (rejectInside / rejectOutside only ever pass packets that newPacket accepted) is
// modelled here from the independent reference parse, because package iputil cannot import the
// root package: header and extension chain resolved inside the buffer, at most 8 extension headers
// (the classifier's documented walk limit), and the minimum upper-layer bytes newPacket insists on.
// The root-package part of C21 runs the same oracle behind the real newPacket.
//
// Oracle: verifkit/rejectref (reference model built on verifkit/pkt: strict parse + independent
// RFC 1071 checksums), gopacket as a second opinion (decode the reply, let gopacket recompute all
// lengths and checksums, compare the bytes), and a metamorphic relation over the output buffer
// capacity (cap >= len(reply) gives the identical reply, cap < len(reply) gives silence).

import (
	"bytes"
	"encoding/hex"
	"fmt"
	"net/netip"
	"testing"

	"github.com/google/gopacket"
	"github.com/google/gopacket/layers"
	"pgregory.net/rapid"
	"verifkit/pkt"
	"verifkit/pktgen"
	"verifkit/rejectref"
	"verifkit/vk"
)

const c21PID = "C21"

// c21Classifiable models "newPacket accepts b" from the reference parse alone.
func c21Classifiable(ref *pkt.Info, rerr error) bool {
	if rerr != nil {
		return false
	}
	if ref.NonFirst {
		return len(ref.Ext) <= 8
	}
	if ref.Version == 4 {
		if ref.Proto == pkt.ProtoICMP {
			return len(ref.L4) >= 6
		}
		return len(ref.L4) >= 4
	}
	if len(ref.Ext) > 8 {
		return false
	}
	switch ref.Proto {
	case pkt.ProtoTCP, pkt.ProtoUDP:
		return len(ref.L4) >= 4
	case pkt.ProtoICMPv6:
		if len(ref.L4) >= 4 && (ref.L4[0] == 128 || ref.L4[0] == 129) {
			return len(ref.L4) >= 6
		}
		return len(ref.L4) >= 4
	}
	return true
}

// c21Gopacket: decode the reply with gopacket, have gopacket rebuild it with its own length and
// checksum computation, and require identical bytes.
func c21Gopacket(reply []byte) error {
	first := layers.LayerTypeIPv4
	if reply[0]>>4 == 6 {
		first = layers.LayerTypeIPv6
	}
	p := gopacket.NewPacket(reply, first, gopacket.DecodeOptions{})
	nl := p.NetworkLayer()
	if nl == nil {
		return fmt.Errorf("gopacket finds no network layer: %v", p.ErrorLayer())
	}
	buf := gopacket.NewSerializeBuffer()
	opts := gopacket.SerializeOptions{FixLengths: true, ComputeChecksums: true}
	var ls []gopacket.SerializableLayer
	switch ip := nl.(type) {
	case *layers.IPv4:
		ls = append(ls, ip)
	case *layers.IPv6:
		ls = append(ls, ip)
	}
	if t, ok := p.Layer(layers.LayerTypeTCP).(*layers.TCP); ok && t != nil {
		if err := t.SetNetworkLayerForChecksum(nl); err != nil {
			return err
		}
		ls = append(ls, t, gopacket.Payload(t.LayerPayload()))
	} else if c, ok := p.Layer(layers.LayerTypeICMPv4).(*layers.ICMPv4); ok && c != nil {
		ls = append(ls, c, gopacket.Payload(c.LayerPayload()))
	} else if c, ok := p.Layer(layers.LayerTypeICMPv6).(*layers.ICMPv6); ok && c != nil {
		if err := c.SetNetworkLayerForChecksum(nl); err != nil {
			return err
		}
		ls = append(ls, c, gopacket.Payload(c.LayerPayload()))
	} else {
		return fmt.Errorf("gopacket finds neither TCP nor ICMP in the reply")
	}
	if err := gopacket.SerializeLayers(buf, opts, ls...); err != nil {
		return fmt.Errorf("gopacket cannot re-serialize the reply: %v", err)
	}
	if !bytes.Equal(buf.Bytes(), reply) {
		return fmt.Errorf("gopacket rebuilds the reply (lengths, checksums) as %x", buf.Bytes())
	}
	return nil
}

func c21Out(rt *rapid.T, capacity int) []byte {
	out := bytes.Repeat([]byte{rapid.Byte().Draw(rt, "outfill") | 1}, capacity)
	l := 0
	if capacity > 0 && rapid.Bool().Draw(rt, "outlen") {
		l = rapid.IntRange(0, capacity).Draw(rt, "outlenv")
	}
	return out[:l]
}

// c21Case runs one packet through CreateRejectPacket and the oracle.
func c21Case(rt *rapid.T, b []byte) {
	ref, rerr := pkt.Parse(b)
	orig := append([]byte(nil), b...)
	big := MaxRejectPacketSize + 64
	reply := CreateRejectPacket(b, c21Out(rt, big))
	if !bytes.Equal(orig, b) {
		rt.Fatalf("C21: CreateRejectPacket modified its input\npacket=%x", orig)
	}
	// for every input, classifiable or not: size bounds (and no panic)
	if len(reply) > MaxRejectPacketSize {
		rt.Fatalf("C21 violated: reply of %d bytes exceeds MaxRejectPacketSize\npacket=%x", len(reply), b)
	}
	if !c21Classifiable(ref, rerr) {
		vk.Case(c21PID, "u"+string(b), false, "unclassifiable-size-and-no-panic-only")
		return
	}
	want := rejectref.Expect(ref)
	if err := rejectref.Check(b, ref, reply, big, MaxRejectPacketSize); err != nil {
		rt.Fatalf("C21 violated: %v\nexpectation=%s/%s\npacket=%s\nreply=%s", err, want.Verdict, want.Reason, hex.EncodeToString(b), hex.EncodeToString(reply))
	}
	labels := []string{"v" + fmt.Sprint(ref.Version), "want-" + want.Verdict.String(), "class-" + want.Reason}
	if len(reply) > 0 {
		if err := c21Gopacket(reply); err != nil {
			rt.Fatalf("C21 violated (gopacket second opinion): %v\npacket=%s\nreply=%s", err, hex.EncodeToString(b), hex.EncodeToString(reply))
		}
		if want.TCP {
			labels = append(labels, "reply-tcp-rst")
			if ref.TCP.Flags&pkt.TCPAck != 0 {
				labels = append(labels, "rst-from-ack")
			} else if ref.DeclLen == len(b) && ref.TCP.DataOff >= 20 && ref.TCP.DataOff <= len(ref.L4) {
				labels = append(labels, "rst-ack-number-checked")
			}
		} else {
			labels = append(labels, "reply-icmp")
			if ref.Version == 6 && len(b) > 1000 {
				labels = append(labels, "reply-icmp6-truncated-to-1000")
			}
		}
	} else {
		labels = append(labels, "silent")
	}
	// capacity metamorphic relation
	var c int
	if len(reply) > 0 && rapid.IntRange(0, 3).Draw(rt, "capnear") != 0 {
		c = len(reply) + rapid.IntRange(-3, 3).Draw(rt, "capdelta")
		if c < 0 {
			c = 0
		}
	} else {
		c = rapid.IntRange(0, big).Draw(rt, "cap")
	}
	r2 := CreateRejectPacket(b, c21Out(rt, c))
	switch {
	case len(r2) > c:
		rt.Fatalf("C21 violated: reply of %d bytes from an output buffer of capacity %d\npacket=%x", len(r2), c, b)
	case len(reply) == 0 && len(r2) != 0:
		rt.Fatalf("C21 violated: silent with capacity %d but replies with capacity %d\npacket=%x", big, c, b)
	case len(reply) > 0 && c >= len(reply) && !bytes.Equal(r2, reply):
		rt.Fatalf("C21 violated: capacity %d holds the %d byte reply, but got %x instead of %x\npacket=%x", c, len(reply), r2, reply, b)
	case len(reply) > 0 && c < len(reply) && len(r2) != 0:
		rt.Fatalf("C21 violated: capacity %d is too small for the %d byte reply, but got %x\npacket=%x", c, len(reply), r2, b)
	}
	if len(reply) > 0 {
		switch {
		case c == len(reply):
			labels = append(labels, "cap-exact")
		case c < len(reply):
			labels = append(labels, "cap-too-small")
		}
	}
	odd := len(ref.L4)%2 == 1
	if odd {
		labels = append(labels, "odd-upper-layer-length")
	}
	if ref.HdrLen > 20 && ref.Version == 4 {
		labels = append(labels, "v4-options")
	}
	if len(ref.Ext) > 0 {
		labels = append(labels, "v6-ext")
	}
	if ref.Frag && !ref.NonFirst {
		labels = append(labels, "first-or-atomic-fragment")
	}
	nt := (ref.Version == 4 && ref.HdrLen > 20) || len(ref.Ext) > 0 || odd || ref.Frag || want.Reason == "icmp-error"
	vk.Case(c21PID, "c"+string(b), nt, labels...)
	if nt && len(reply) > 0 && vk.WantSample(c21PID) {
		vk.Sample(c21PID, map[string]any{"packet": hex.EncodeToString(b), "reply": hex.EncodeToString(reply), "class": want.Reason})
	}
}

func TestC21_Reject(t *testing.T) {
	vk.Check(t, 30000, func(rt *rapid.T) {
		c := pktgen.Draw(rt, pktgen.Mild)
		c21Case(rt, c.Bytes)
	})
}

// TCP in depth: every flag byte, data offsets 5..15, payloads up to 2000 bytes, sequence numbers
// near the wrap, under IPv4 (with options) and IPv6 (with extension headers).
func TestC21_TCP(t *testing.T) {
	vk.Check(t, 12000, func(rt *rapid.T) {
		o := pktgen.Mild
		o.TruncPct, o.MutatePct, o.LenPct, o.IHLPct, o.ExtLenPct, o.ShortL4Pct, o.MaxExt = 0, 0, 3, 0, 0, 2, 8
		c := pktgen.Draw(rt, o)
		p := c.P
		p.Proto = pkt.ProtoTCP
		p.FragOff = 0
		tcp := pktgen.TCP(rt, o)
		tcp.Flags = rapid.Byte().Draw(rt, "flags") // a second, independent draw: all 256 values
		p.L4 = tcp
		c21Case(rt, p.Bytes())
	})
}

// ICMP in depth: every type under both families; errors must stay unanswered.
func TestC21_ICMP(t *testing.T) {
	vk.Check(t, 8000, func(rt *rapid.T) {
		o := pktgen.Mild
		o.TruncPct, o.MutatePct, o.LenPct, o.IHLPct, o.ExtLenPct, o.ShortL4Pct, o.MaxExt = 0, 0, 3, 0, 0, 0, 8
		c := pktgen.Draw(rt, o)
		p := c.P
		p.FragOff = 0
		if p.V6 {
			p.Proto = pkt.ProtoICMPv6
		} else {
			p.Proto = pkt.ProtoICMP
		}
		ic := pktgen.ICMP(rt, p.V6, o)
		if rapid.Bool().Draw(rt, "anytype") {
			ic.Type = rapid.Byte().Draw(rt, "type")
		}
		p.L4 = ic
		c21Case(rt, p.Bytes())
	})
}

// FuzzC21: arbitrary bytes; the semantic oracle applies whenever the bytes are classifiable.
func FuzzC21(f *testing.F) {
	for _, b := range c21FuzzSeeds() {
		f.Add(b, uint16(MaxRejectPacketSize))
		f.Add(b, uint16(len(b)))
	}
	f.Add([]byte{}, uint16(0))
	f.Fuzz(func(t *testing.T, b []byte, capacity uint16) {
		big := MaxRejectPacketSize + 64
		c := int(capacity) % (big + 1)
		reply := CreateRejectPacket(b, make([]byte, 0, big))
		r2 := CreateRejectPacket(b, make([]byte, 0, c))
		if len(reply) > MaxRejectPacketSize || len(r2) > c {
			t.Fatalf("C21 violated: reply sizes %d / %d (capacity %d)\npacket=%x", len(reply), len(r2), c, b)
		}
		ref, rerr := pkt.Parse(b)
		if !c21Classifiable(ref, rerr) {
			return
		}
		if err := rejectref.Check(b, ref, reply, big, MaxRejectPacketSize); err != nil {
			t.Fatalf("C21 violated: %v\npacket=%x\nreply=%x", err, b, reply)
		}
		if len(reply) > 0 {
			if err := c21Gopacket(reply); err != nil {
				t.Fatalf("C21 violated (gopacket second opinion): %v\npacket=%x\nreply=%x", err, b, reply)
			}
		}
		if (len(reply) > 0 && c >= len(reply)) != (len(r2) > 0) || (len(r2) > 0 && !bytes.Equal(r2, reply)) {
			t.Fatalf("C21 violated: capacity %d, full reply %x, got %x\npacket=%x", c, reply, r2, b)
		}
	})
}

func c21FuzzSeeds() [][]byte {
	s6, d6 := netip.MustParseAddr("fd00::1"), netip.MustParseAddr("fd00::2")
	s4, d4 := netip.MustParseAddr("10.0.0.1"), netip.MustParseAddr("10.0.0.2")
	syn := pkt.TCP{SrcPort: 1000, DstPort: 443, Seq: 0xfffffff0, Flags: pkt.TCPSyn, Payload: []byte("hello")}
	ack := pkt.TCP{SrcPort: 1000, DstPort: 443, Seq: 5, Ack: 0xfffffffe, Flags: pkt.TCPAck | pkt.TCPPsh, Options: []byte{1, 1, 1, 1}, Payload: []byte("x")}
	ps := []*pkt.Packet{
		{Src: s4, Dst: d4, TTL: 64, Proto: pkt.ProtoTCP, L4: syn},
		{Src: s4, Dst: d4, TTL: 64, Proto: pkt.ProtoTCP, Options: []byte{1, 1, 1, 1}, L4: ack},
		{Src: s4, Dst: d4, TTL: 64, Proto: pkt.ProtoUDP, L4: pkt.UDP{SrcPort: 53, DstPort: 53, Payload: []byte("abc")}},
		{Src: s4, Dst: d4, TTL: 64, Proto: pkt.ProtoICMP, L4: pkt.ICMP{Type: 8, ID: 7, Seq: 1}},
		{Src: s4, Dst: d4, TTL: 64, Proto: pkt.ProtoICMP, L4: pkt.ICMP{Type: 3, Code: 1, Payload: make([]byte, 28)}},
		{Src: s4, Dst: d4, TTL: 64, Proto: pkt.ProtoUDP, FragOff: 185, L4: pkt.Raw("12345678")},
		{V6: true, Src: s6, Dst: d6, TTL: 64, Proto: pkt.ProtoTCP, L4: syn},
		{V6: true, Src: s6, Dst: d6, TTL: 64, Ext: []pkt.Ext{{Type: 0}, {Type: 60}}, Proto: pkt.ProtoTCP, L4: ack},
		{V6: true, Src: s6, Dst: d6, TTL: 64, Proto: pkt.ProtoICMPv6, L4: pkt.ICMP{Type: 128, ID: 9}},
		{V6: true, Src: s6, Dst: d6, TTL: 64, Proto: pkt.ProtoICMPv6, L4: pkt.ICMP{Type: 1, Code: 4, Payload: make([]byte, 48)}},
		{V6: true, Src: s6, Dst: d6, TTL: 64, Ext: []pkt.Ext{{Type: 44, FragOff: 5, ID: 3}}, Proto: pkt.ProtoTCP, L4: pkt.Raw("abcdefgh")},
		{V6: true, Src: s6, Dst: d6, TTL: 64, Ext: []pkt.Ext{{Type: 44, MF: true, ID: 3}}, Proto: pkt.ProtoUDP, L4: pkt.UDP{SrcPort: 1, DstPort: 2, Payload: make([]byte, 1200)}},
	}
	var out [][]byte
	for _, p := range ps {
		out = append(out, p.Bytes())
	}
	return out
}
