package header

import (
	"bytes"
	"encoding/binary"
	"fmt"
	"testing"

	"pgregory.net/rapid"
	"verifkit/vk"
)

// documented type/subtype table (header.go constants + comment): the reference is a literal table.
var c47ValidTable = map[[2]uint8]bool{
	{0, 0}: true,               // handshake ix_psk0
	{1, 0}: true, {1, 1}: true, // message none / relay
	{2, 0}: true,               // recv_error
	{3, 0}: true,               // lighthouse
	{4, 0}: true, {4, 1}: true, // test request / reply
	{5, 0}: true, // close tunnel
	{6, 0}: true, // control
}

func TestC47_RoundTrip(t *testing.T) {
	edge32 := rapid.OneOf(rapid.Uint32(), rapid.SampledFrom([]uint32{0, 1, 0xff, 0x100, 0xffff, 0x10000, 0x7fffffff, 0x80000000, 0xffffffff}))
	edge64 := rapid.OneOf(rapid.Uint64(), rapid.SampledFrom([]uint64{0, 1, 0xff, 0xffffffff, 0x100000000, 1<<63 - 1, 1 << 63, ^uint64(0)}))
	vk.Check(t, 100000, func(rt *rapid.T) {
		v := rapid.Uint8().Draw(rt, "version")
		ty := rapid.Uint8().Draw(rt, "type")
		st := rapid.Uint8().Draw(rt, "subtype")
		ri := edge32.Draw(rt, "index")
		mc := edge64.Draw(rt, "counter")
		extra := rapid.IntRange(0, 48).Draw(rt, "extra")
		fill := rapid.Byte().Draw(rt, "fill")
		useMethod := rapid.Bool().Draw(rt, "method")

		buf := bytes.Repeat([]byte{fill}, Len+extra)
		var enc []byte
		if useMethod {
			h := &H{Version: v, Type: MessageType(ty), Subtype: MessageSubType(st), Reserved: 0xbeef, RemoteIndex: ri, MessageCounter: mc}
			var err error
			enc, err = h.Encode(buf)
			if err != nil {
				rt.Fatalf("Encode error: %v", err)
			}
		} else {
			enc = Encode(buf, v, MessageType(ty), MessageSubType(st), ri, mc)
		}
		if len(enc) != Len {
			rt.Fatalf("encoded length %d", len(enc))
		}
		// documented layout, written out independently
		want := make([]byte, 16)
		want[0] = (v&0x0f)<<4 | ty&0x0f
		want[1] = st
		binary.BigEndian.PutUint32(want[4:], ri)
		binary.BigEndian.PutUint64(want[8:], mc)
		if !bytes.Equal(enc, want) {
			rt.Fatalf("encoding %x differs from documented layout %x", enc, want)
		}
		// bytes beyond the header are untouched
		for i := Len; i < len(buf); i++ {
			if buf[i] != fill {
				rt.Fatalf("Encode wrote byte %d beyond the header", i)
			}
		}
		var h H
		h.Reserved = 0x1234
		if err := h.Parse(buf); err != nil {
			rt.Fatalf("Parse of an encoded header failed: %v", err)
		}
		if h.Version != v&0x0f || uint8(h.Type) != ty&0x0f || uint8(h.Subtype) != st || h.RemoteIndex != ri || h.MessageCounter != mc || h.Reserved != 0 {
			rt.Fatalf("round trip mismatch: in (v=%d t=%d st=%d ri=%d mc=%d) out %+v", v, ty, st, ri, mc, h)
		}
		nt := v < 16 && ty < 16
		vk.Case("C47", fmt.Sprintf("rt/%d/%d/%d/%d/%d", v, ty, st, ri, mc), nt, "roundtrip")
		if vk.WantSample("C47") {
			vk.Sample("C47", map[string]any{"kind": "roundtrip", "version": v, "type": ty, "subtype": st, "index": ri, "counter": mc, "encoded": fmt.Sprintf("%x", enc)})
		}
	})
}

func TestC47_ParseBounds(t *testing.T) {
	vk.Check(t, 100000, func(rt *rapid.T) {
		n := rapid.IntRange(0, 64).Draw(rt, "len")
		b := rapid.SliceOfN(rapid.Byte(), n, n).Draw(rt, "bytes")
		// the input is a window into a larger receive buffer (as in the udp read path): spare
		// capacity behind the slice holds stale, header-looking bytes that must never be read
		if rapid.Bool().Draw(rt, "window") {
			arena := make([]byte, n+32)
			copy(arena, b)
			for i := n; i < len(arena); i++ {
				arena[i] = byte(0x11 + i)
			}
			b = arena[:n]
		}
		var h H
		err := h.Parse(b)
		if n < Len {
			if err == nil {
				rt.Fatalf("Parse accepted %d bytes", n)
			}
			if h != (H{}) {
				rt.Fatalf("Parse of short input modified the header: %+v", h)
			}
			vk.Case("C47", fmt.Sprintf("short/%x", b), true, "short")
			return
		}
		if err != nil {
			rt.Fatalf("Parse rejected %d bytes: %v", n, err)
		}
		// independent decode
		if h.Version != b[0]>>4 || uint8(h.Type) != b[0]&0x0f || uint8(h.Subtype) != b[1] ||
			h.Reserved != uint16(b[2])<<8|uint16(b[3]) || h.RemoteIndex != binary.BigEndian.Uint32(b[4:8]) ||
			h.MessageCounter != binary.BigEndian.Uint64(b[8:16]) {
			rt.Fatalf("Parse(%x) = %+v", b, h)
		}
		// metamorphic: bytes >= 16 never influence the result, and exactly 16 bytes are enough
		var h2, h3 H
		b2 := append([]byte{}, b...)
		for i := Len; i < len(b2); i++ {
			b2[i] ^= 0xff
		}
		if err := h2.Parse(b2); err != nil || h2 != h {
			rt.Fatalf("trailing bytes changed the parse: %+v vs %+v (%v)", h, h2, err)
		}
		if err := h3.Parse(b[:Len:Len]); err != nil || h3 != h {
			rt.Fatalf("exact-length parse differs: %+v vs %+v (%v)", h, h3, err)
		}
		// validity table
		want := c47ValidTable[[2]uint8{uint8(h.Type), uint8(h.Subtype)}]
		if h.IsValidSubType() != want || IsValidSubType(h.Type, h.Subtype) != want {
			rt.Fatalf("IsValidSubType(%d,%d)=%v, documented table says %v", h.Type, h.Subtype, h.IsValidSubType(), want)
		}
		vk.Case("C47", fmt.Sprintf("parse/%x", b[:Len]), true, "parse")
	})
}

// the type/subtype validity table is small enough to enumerate completely.
func TestC47_ValidityTableExhaustive(t *testing.T) {
	defer vk.Flush()
	for ty := 0; ty < 256; ty++ {
		for st := 0; st < 256; st++ {
			want := c47ValidTable[[2]uint8{uint8(ty), uint8(st)}]
			got := IsValidSubType(MessageType(ty), MessageSubType(st))
			if got != want {
				t.Fatalf("IsValidSubType(%d,%d)=%v, documented table says %v", ty, st, got, want)
			}
			vk.Case("C47", fmt.Sprintf("tbl/%d/%d", ty, st), want, "table")
		}
	}
	vk.Note("C47", "type x subtype validity table enumerated exhaustively (65536 pairs)")
}

func FuzzC47(f *testing.F) {
	f.Add([]byte{})
	f.Add(make([]byte, 15))
	f.Add(make([]byte, 16))
	f.Add([]byte{0x11, 1, 0, 0, 0, 0, 0, 9, 0, 0, 0, 0, 0, 0, 0, 5, 0xaa})
	f.Fuzz(func(t *testing.T, b []byte) {
		var h H
		err := h.Parse(b)
		if (len(b) < Len) != (err != nil) {
			t.Fatalf("len %d err %v", len(b), err)
		}
		if err != nil {
			return
		}
		out := Encode(make([]byte, Len), h.Version, h.Type, h.Subtype, h.RemoteIndex, h.MessageCounter)
		exp := append([]byte{}, b[:Len]...)
		exp[2], exp[3] = 0, 0
		if !bytes.Equal(out, exp) {
			t.Fatalf("re-encode %x != %x", out, exp)
		}
	})
}
