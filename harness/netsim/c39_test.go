//go:build e2e_testing

package nebula

import (
	"bytes"
	"fmt"
	"log/slog"
	"net/netip"
	"strings"
	"testing"
	"time"

	"github.com/slackhq/nebula/header"
	"pgregory.net/rapid"
	"verifkit/vk"
)

// C39 - relays forward only for the pair they were set up for; C15 - relays never see or alter
// end-to-end traffic (DESIGN.md section 4). Both run on the same worlds: a relay (am_relay on or
// off), three hosts whose direct paths are mostly blocked, honest relay set-up through real
// tunnels, plus
//   - hostile control messages sent through real tunnels by harness-controlled peers (arbitrary
//     NebulaControl: any type, any from/to addresses incl. the relay's, a third party's, zero; any
//     index incl. live and stale relay indexes; v1 and v2 forms),
//   - relay-typed data from a host naming any relay index known at the relay,
//   - (C15) the relay replaced at the wire by the adversary holding the relay's tunnel keys: it
//     forwards rewritten inner packets, inner packets of another pair, or the genuine inner packet
//     under any relay index it holds for the receiver, re-sealed with the relay's key.
//
// Oracles. C39: every relay-typed datagram the relay emits while processing an inbound relay-typed
// datagram from host X goes to a host Y other than X and the relay, only if am_relay is on, and
// only if Y itself holds (or held) relay state for one of X's certified addresses on a tunnel with
// the relay; the forwarded inner bytes equal the received inner bytes; relay entries keep their
// type, local index and peer address, PeerRequested only ever appears on creation; relay indexes in
// the relay table always point at live tunnels that still list them. C15: no plaintext of any tun
// payload appears in any datagram on the wire; whatever the (malicious) relay sends, everything
// delivered to a tun is a byte-identical copy of a packet injected at the peer whose address it
// carries, delivered at most once.
type c39State struct {
	agreed      map[int]map[netip.Addr]bool // host Y -> addresses it accepted relayed traffic from (terminal relay entries), cumulative
	relayIdx    int
	amRelay     bool
	forwarded   int
	hostileCtl  int
	hostileData int
	evilRelay   int
	inbound     *nsPacket
	histBefore  int
	entries     map[string]string // relay entry identity -> "type/peer/state" at the previous observation
	// answered[i]: host i is harness-controlled and has itself sent CreateRelayResponse messages over
	// its own tunnel; whatever the relay then forwards to it was negotiated by it
	answered map[int]bool
	// everIdx[i]: every relay index host i has ever allocated (observed before each delivery and after
	// each step); a relay learns a target's index only from that target's answer
	everIdx map[int]map[uint32]bool
	// forged[i]: relay indexes the harness announced in host i's name (control messages it sent over
	// i's own tunnel): the relay legitimately believes they are i's
	forged map[int]map[uint32]bool
}

func (c *c39State) announce(i int, idx ...uint32) {
	if c.forged == nil {
		c.forged = map[int]map[uint32]bool{}
	}
	if c.forged[i] == nil {
		c.forged[i] = map[uint32]bool{}
	}
	for _, x := range idx {
		c.forged[i][x] = true
	}
}

func (c *c39State) observeAgreed(w *nsWorld) {
	c.relayIdx = w.relayIdx
	if c.agreed == nil {
		c.agreed = map[int]map[netip.Addr]bool{}
	}
	for i := range w.nodes {
		if !w.live(i) || i == c.relayIdx {
			continue
		}
		if c.agreed[i] == nil {
			c.agreed[i] = map[netip.Addr]bool{}
		}
		if c.everIdx == nil {
			c.everIdx = map[int]map[uint32]bool{}
		}
		if c.everIdx[i] == nil {
			c.everIdx[i] = map[uint32]bool{}
		}
		for _, t := range w.nodes[i].allTunnels() {
			t.relayState.RLock()
			for a, r := range t.relayState.relayForByAddr {
				if r.Type == TerminalType {
					c.agreed[i][a] = true
				}
				c.everIdx[i][r.LocalIndex] = true
			}
			t.relayState.RUnlock()
		}
	}
}

func (c *c39State) nodeByIdx(w *nsWorld, simIdx int) int {
	for i, n := range w.nodes {
		if n != nil && n.idx == simIdx {
			return i
		}
	}
	return -1
}

func (c *c39State) preDeliver(rt *rapid.T, w *nsWorld, h *nsHist, p *nsPacket, from netip.AddrPort, x *nsNode) {
	c.inbound = nil
	c.observeAgreed(w)
	if c.relayIdx < 0 || w.nodes[c.relayIdx] != x {
		return
	}
	hd, ok := nsHeaderOf(p.Data)
	if !ok || hd.Type != header.Message || hd.Subtype != header.MessageRelay || p.Src < 0 {
		return
	}
	c.inbound = p
	w.s.settle()
	w.s.mu.Lock()
	c.histBefore = len(w.s.history)
	w.s.mu.Unlock()
}

func (c *c39State) postDeliver(rt *rapid.T, w *nsWorld, h *nsHist, p *nsPacket, from netip.AddrPort, x *nsNode) {
	in := c.inbound
	c.inbound = nil
	if in == nil {
		return
	}
	c.observeAgreed(w)
	r := w.nodes[c.relayIdx]
	w.s.mu.Lock()
	emitted := append([]*nsPacket{}, w.s.history[c.histBefore:]...)
	w.s.mu.Unlock()
	xi := c.nodeByIdx(w, in.Src)
	for _, q := range emitted {
		if q.Src != r.idx {
			continue
		}
		qh, ok := nsHeaderOf(q.Data)
		if !ok || qh.Type != header.Message || qh.Subtype != header.MessageRelay {
			continue
		}
		// the relay forwarded something in reaction to a relay-typed datagram from host xi
		if !c.amRelay {
			// A node that is no relay may still be the END of a relayed tunnel (another host - here only a
			// harness-controlled one - relays for it) and then answers relay-typed datagrams with relay-typed
			// datagrams of its own (a handshake reply, an echo). Forwarding re-encrypts the inner bytes
			// unchanged, so that is what identifies it.
			if len(in.Data) == len(q.Data) && len(in.Data) >= header.Len+16 && bytes.Equal(in.Data[header.Len:len(in.Data)-16], q.Data[header.Len:len(q.Data)-16]) {
				rt.Fatalf("node %s is not configured as a relay (am_relay off) but forwarded %v in reaction to %v", r.name, q, in)
			}
			vk.Label(w.pidLabel(), "non-relay-answers-through-a-relay")
			continue
		}
		c.forwarded++
		yn := w.s.nodeByUDP(q.To)
		yi := -1
		if yn != nil {
			yi = c.nodeByIdx(w, yn.idx)
		}
		if yi < 0 {
			// forwarded to an address nobody listens on (a stopped/roamed peer): nothing to attribute
			continue
		}
		if yi == xi {
			// A host can negotiate a relay "to itself" by playing both halves of the set-up over its own
			// tunnel; the relay then reflects its traffic back to it. Both negotiating peers are the
			// sender, so this is not a third peer; recorded, not judged.
			vk.Label(w.pidLabel(), "reflected-to-sender")
			continue
		}
		if yi == c.relayIdx {
			rt.Fatalf("relay %s forwarded %v to itself", r.name, q)
		}
		// A relay pair carries traffic in both directions (X asked for Y and Y answered, or Y asked for X
		// and X answered): the answering side is an honest node whose terminal relay state is visible,
		// or a harness-controlled host that forged CreateRelayResponse messages over its own tunnel
		// (then it has agreed to whatever the relay derived from them).
		ok = c.answered[yi] || c.answered[xi]
		for _, a := range w.specs[xi].nets {
			if c.agreed[yi][a.Addr()] {
				ok = true
			}
		}
		for _, a := range w.specs[yi].nets {
			if c.agreed[xi][a.Addr()] {
				ok = true
			}
		}
		if !ok {
			rt.Fatalf("relay %s forwarded traffic received from %s to %s, which never held relay state for %s (third peer): in %v out %v\nagreed[%s]=%v",
				r.name, w.specs[xi].name, w.specs[yi].name, w.specs[xi].name, in, q, w.specs[yi].name, c.agreed[yi])
		}
		// "only once the onward leg is established": the index the relay forwards under is one the target
		// allocated and told the relay (or one the harness announced in the target's name over the target's
		// own tunnel). The relay cannot know any other; an index the target never had (0 in particular)
		// means the relay brought the leg up without the target's answer.
		if w.specs[yi].kind == nsHonest && !c.everIdx[yi][qh.RemoteIndex] && !c.forged[yi][qh.RemoteIndex] {
			rt.Fatalf("relay %s forwarded traffic of %s to %s under relay index %d, which %s never allocated: the onward leg was brought up without %s's answer (in %v out %v)",
				r.name, w.specs[xi].name, w.specs[yi].name, qh.RemoteIndex, w.specs[yi].name, w.specs[yi].name, in, q)
		}
		// C15: the relay forwards the inner bytes untouched
		if len(in.Data) >= header.Len+16 && len(q.Data) >= header.Len+16 {
			if !bytes.Equal(in.Data[header.Len:len(in.Data)-16], q.Data[header.Len:len(q.Data)-16]) {
				rt.Fatalf("relay %s altered the inner packet while forwarding: in %x out %x", r.name, in.Data, q.Data)
			}
		}
	}
}

func (c *c39State) afterStep(rt *rapid.T, w *nsWorld, h *nsHist) {
	c.observeAgreed(w)
	// C15 confidentiality: nothing on the wire carries tun plaintext
	s := w.s
	s.mu.Lock()
	for _, p := range s.history {
		if bytes.Contains(p.Data, []byte("VERIFTAG-")) {
			s.mu.Unlock()
			rt.Fatalf("tun payload plaintext visible on the wire in %v", p)
		}
	}
	s.mu.Unlock()
	// relay table hygiene on every live node
	for i, n := range w.nodes {
		if !w.live(i) {
			continue
		}
		hm := n.ctrl.f.hostMap
		hm.RLock()
		cur := map[string]string{}
		for idx, t := range hm.Relays {
			if idx == 0 {
				hm.RUnlock()
				rt.Fatalf("node %s holds relay index 0", n.name)
			}
			if hm.Indexes[t.localIndexId] != t {
				hm.RUnlock()
				rt.Fatalf("node %s: relay index %d points at tunnel %d (%v) which is no longer in the hostmap", n.name, idx, t.localIndexId, t.vpnAddrs)
			}
			t.relayState.RLock()
			rel, ok := t.relayState.relayForByIdx[idx]
			t.relayState.RUnlock()
			if !ok {
				hm.RUnlock()
				rt.Fatalf("node %s: relay index %d points at tunnel %d which does not list it", n.name, idx, t.localIndexId)
			}
			if rel.LocalIndex != idx {
				hm.RUnlock()
				rt.Fatalf("node %s: relay entry under index %d carries local index %d", n.name, idx, rel.LocalIndex)
			}
			key := fmt.Sprintf("%d/%d/%d", i, t.localIndexId, idx)
			val := fmt.Sprintf("%d|%v|%d", rel.Type, rel.PeerAddr, rel.State)
			cur[key] = val
			if prev, ok := c.entries[key]; ok && prev != val {
				var pt, ps int
				var pp string
				fmt.Sscanf(strings.ReplaceAll(prev, "|", " "), "%d %s %d", &pt, &pp, &ps)
				if pt != rel.Type || pp != rel.PeerAddr.String() {
					hm.RUnlock()
					rt.Fatalf("node %s: relay entry %s changed identity: %s -> %s", n.name, key, prev, val)
				}
				if rel.State == PeerRequested {
					hm.RUnlock()
					rt.Fatalf("node %s: relay entry %s moved from state %d back to PeerRequested", n.name, key, ps)
				}
			}
		}
		hm.RUnlock()
		for k, v := range cur {
			if c.entries == nil {
				c.entries = map[string]string{}
			}
			c.entries[k] = v
		}
	}
}

// hostile control message from a harness-controlled peer, through its real tunnel to the relay
func (c *c39State) hostileControl(rt *rapid.T, w *nsWorld, h *nsHist) {
	var cands []int
	for i, sp := range w.specs {
		if w.live(i) && sp.role == nsHost {
			cands = append(cands, i)
		}
	}
	if len(cands) == 0 {
		return
	}
	mi := cands[rapid.IntRange(0, len(cands)-1).Draw(rt, "hc.sender")]
	m := w.nodes[mi]
	target := w.nodes[c.relayIdx]
	// mostly at the relay, sometimes at another host it has a tunnel with
	var hi *HostInfo
	ra := w.specs[c.relayIdx].nets[0].Addr()
	if rapid.IntRange(0, 4).Draw(rt, "hc.toHost") == 0 {
		o := rapid.IntRange(0, len(w.specs)-1).Draw(rt, "hc.other")
		ra = w.specs[o].nets[0].Addr()
		target = w.nodes[o]
	}
	hi = m.ctrl.f.hostMap.QueryVpnAddr(ra)
	if hi == nil || hi.ConnectionState == nil || target == nil {
		return
	}
	addrChoices := []netip.Addr{}
	for _, sp := range w.specs {
		addrChoices = append(addrChoices, sp.nets[0].Addr())
	}
	addrChoices = append(addrChoices, netip.MustParseAddr("10.128.0.250"), netip.MustParseAddr("fd00:128::99"))
	pick := func(label string) *Addr {
		k := rapid.IntRange(-1, len(addrChoices)-1).Draw(rt, label)
		if k < 0 {
			return nil
		}
		return netAddrToProtoAddr(addrChoices[k])
	}
	// indexes: random, zero, or any relay index known anywhere
	var known []uint32
	for i := range w.nodes {
		if !w.live(i) {
			continue
		}
		hm := w.nodes[i].ctrl.f.hostMap
		hm.RLock()
		for idx, t := range hm.Relays {
			known = append(known, idx)
			t.relayState.RLock()
			if r := t.relayState.relayForByIdx[idx]; r != nil && r.RemoteIndex != 0 {
				known = append(known, r.RemoteIndex)
			}
			t.relayState.RUnlock()
		}
		hm.RUnlock()
	}
	sortU32(known)
	pickIdx := func(label string) uint32 {
		switch k := rapid.IntRange(0, 3).Draw(rt, label+".kind"); {
		case k == 0 || len(known) == 0 && k >= 2:
			return 0
		case k == 1:
			return rapid.Uint32().Draw(rt, label+".rnd")
		default:
			return known[rapid.IntRange(0, len(known)-1).Draw(rt, label+".known")]
		}
	}
	msg := NebulaControl{
		Type:                NebulaControl_MessageType(rapid.SampledFrom([]int32{0, 1, 2, 3, 7}).Draw(rt, "hc.type")),
		InitiatorRelayIndex: pickIdx("hc.init"),
		ResponderRelayIndex: pickIdx("hc.resp"),
	}
	if rapid.IntRange(0, 2).Draw(rt, "hc.v1form") == 0 {
		msg.OldRelayFromAddr = rapid.SampledFrom([]uint32{0, 0x0a80000a, 0x0a80000b, 0x0a80000c, 0x0a80000d, 0xffffffff}).Draw(rt, "hc.oldfrom")
		msg.OldRelayToAddr = rapid.SampledFrom([]uint32{0, 0x0a80000a, 0x0a80000b, 0x0a80000c, 0x0a80000d, 0x7f000001}).Draw(rt, "hc.oldto")
	} else {
		msg.RelayFromAddr = pick("hc.from")
		msg.RelayToAddr = pick("hc.to")
	}
	b, err := msg.Marshal()
	if err != nil {
		return
	}
	if rapid.IntRange(0, 9).Draw(rt, "hc.garbage") == 0 {
		b = rapid.SliceOfN(rapid.Byte(), 0, 40).Draw(rt, "hc.bytes")
	}
	m.ctrl.f.SendMessageToHostInfo(header.Control, 0, hi, b, make([]byte, 12), make([]byte, mtu))
	w.s.settle()
	c.announce(mi, msg.InitiatorRelayIndex, msg.ResponderRelayIndex)
	if msg.Type == NebulaControl_CreateRelayResponse {
		if c.answered == nil {
			c.answered = map[int]bool{}
		}
		c.answered[mi] = true
	}
	c.hostileCtl++
	h.note("hostile control from %s to %s: type=%d from=%v/%d to=%v/%d init=%d resp=%d", m.name, target.name, msg.Type, msg.RelayFromAddr, msg.OldRelayFromAddr, msg.RelayToAddr, msg.OldRelayToAddr, msg.InitiatorRelayIndex, msg.ResponderRelayIndex)
}

// halfOpen drives the relay into the state the third-peer check is about: host X asks for a relay
// to Y, the relay's onward request to Y is lost, and X then sends relay-typed data under the index
// of its half-open entry while Y may well have established relays with other hosts.
func (c *c39State) halfOpen(rt *rapid.T, w *nsWorld, h *nsHist) {
	var hosts []int
	for i, sp := range w.specs {
		if w.live(i) && sp.role == nsHost {
			hosts = append(hosts, i)
		}
	}
	if len(hosts) < 2 || !w.live(c.relayIdx) {
		return
	}
	xi := hosts[rapid.IntRange(0, len(hosts)-1).Draw(rt, "ho.x")]
	yi := hosts[rapid.IntRange(0, len(hosts)-1).Draw(rt, "ho.y")]
	if xi == yi {
		return
	}
	x, r := w.nodes[xi], w.nodes[c.relayIdx]
	hi := x.ctrl.f.hostMap.QueryVpnAddr(w.specs[c.relayIdx].nets[0].Addr())
	if hi == nil || hi.ConnectionState == nil {
		return
	}
	h.flush(10)
	req := NebulaControl{Type: NebulaControl_CreateRelayRequest, InitiatorRelayIndex: 0x51515151,
		RelayFromAddr: netAddrToProtoAddr(w.specs[xi].nets[0].Addr()), RelayToAddr: netAddrToProtoAddr(w.specs[yi].nets[0].Addr())}
	b, _ := req.Marshal()
	x.ctrl.f.SendMessageToHostInfo(header.Control, 0, hi, b, make([]byte, 12), make([]byte, mtu))
	w.s.settle()
	c.announce(xi, req.InitiatorRelayIndex)
	// deliver x -> relay, lose whatever the relay sends onward
	for _, p := range w.s.takeInflight() {
		if p.Src == x.idx && p.To == r.udpAddr {
			h.deliverPkt(p)
		}
	}
	w.s.settle()
	w.s.takeInflight()
	// x's half-open entry at the relay
	var idx uint32
	for _, t := range r.allTunnels() {
		if len(t.vpnAddrs) > 0 && t.vpnAddrs[0] == w.specs[xi].nets[0].Addr() {
			t.relayState.RLock()
			if rel := t.relayState.relayForByAddr[w.specs[yi].nets[0].Addr()]; rel != nil {
				idx = rel.LocalIndex
			}
			t.relayState.RUnlock()
		}
	}
	if idx == 0 {
		return
	}
	// Optionally a THIRD host answers in y's place: over its own tunnel with the relay it sends a
	// CreateRelayResponse that names the index the relay allocated on y's tunnel. y has agreed to
	// nothing, so the relay must still not forward x's traffic to y.
	if len(hosts) >= 3 && rapid.Bool().Draw(rt, "ho.forgedAnswer") {
		var jY uint32
		for _, t := range r.allTunnels() {
			if len(t.vpnAddrs) > 0 && t.vpnAddrs[0] == w.specs[yi].nets[0].Addr() {
				t.relayState.RLock()
				if rel := t.relayState.relayForByAddr[w.specs[xi].nets[0].Addr()]; rel != nil {
					jY = rel.LocalIndex
				}
				t.relayState.RUnlock()
			}
		}
		var zs []int
		for _, k := range hosts {
			if k != xi && k != yi {
				zs = append(zs, k)
			}
		}
		zi := zs[rapid.IntRange(0, len(zs)-1).Draw(rt, "ho.z")]
		z := w.nodes[zi]
		hz := z.ctrl.f.hostMap.QueryVpnAddr(w.specs[c.relayIdx].nets[0].Addr())
		if jY != 0 && hz != nil && hz.ConnectionState != nil {
			resp := NebulaControl{Type: NebulaControl_CreateRelayResponse, InitiatorRelayIndex: jY, ResponderRelayIndex: rapid.Uint32Range(1, 1<<31).Draw(rt, "ho.respIdx"),
				RelayFromAddr: netAddrToProtoAddr(w.specs[xi].nets[0].Addr()), RelayToAddr: netAddrToProtoAddr(w.specs[yi].nets[0].Addr())}
			rb, _ := resp.Marshal()
			z.ctrl.f.SendMessageToHostInfo(header.Control, 0, hz, rb, make([]byte, 12), make([]byte, mtu))
			w.s.settle()
			for _, p := range w.s.takeInflight() {
				if p.Src == z.idx && p.To == r.udpAddr {
					h.deliverPkt(p)
				}
			}
			w.s.settle()
			w.s.takeInflight()
			if c.answered == nil {
				c.answered = map[int]bool{}
			}
			c.answered[zi] = true
			c.announce(zi, resp.InitiatorRelayIndex, resp.ResponderRelayIndex)
			h.note("%s answers the relay's request to %s in its place (CreateRelayResponse naming relay index %d)", z.name, w.specs[yi].name, jY)
			vk.Label(w.pidLabel(), "third-host-answers-a-relay-request")
		}
	}
	// Or a third host asks the relay for the same pair in x's name (CreateRelayRequest with x's address
	// as source, over its own tunnel) and the network then lets the relay and y talk. Whatever y
	// agrees to, it is a relay with the host that asked - x's half-open entry must not come alive.
	if len(hosts) >= 3 && rapid.IntRange(0, 2).Draw(rt, "ho.impersonate") == 0 {
		var zs []int
		for _, k := range hosts {
			if k != xi && k != yi {
				zs = append(zs, k)
			}
		}
		zi := zs[rapid.IntRange(0, len(zs)-1).Draw(rt, "ho.imp.z")]
		z := w.nodes[zi]
		if hz := z.ctrl.f.hostMap.QueryVpnAddr(w.specs[c.relayIdx].nets[0].Addr()); hz != nil && hz.ConnectionState != nil {
			req2 := NebulaControl{Type: NebulaControl_CreateRelayRequest, InitiatorRelayIndex: rapid.Uint32().Draw(rt, "ho.imp.idx"),
				RelayFromAddr: netAddrToProtoAddr(w.specs[xi].nets[0].Addr()), RelayToAddr: netAddrToProtoAddr(w.specs[yi].nets[0].Addr())}
			b2, _ := req2.Marshal()
			z.ctrl.f.SendMessageToHostInfo(header.Control, 0, hz, b2, make([]byte, 12), make([]byte, mtu))
			w.s.settle()
			c.announce(zi, req2.InitiatorRelayIndex)
			h.note("%s asks the relay for a relay %s->%s in %s's name", z.name, x.name, w.specs[yi].name, x.name)
			h.flush(6) // relay -> y request, y -> relay response, relay -> requester response
			vk.Label(w.pidLabel(), "relay-request-in-another-hosts-name")
		}
	}
	x.ctrl.f.SendVia(hi, &Relay{RemoteIndex: idx}, []byte("half-open-probe-0123456789abcdef"), make([]byte, 12), make([]byte, mtu), false, 0)
	w.s.settle()
	c.hostileData++
	h.note("half-open relay %s->%s at the relay, then relay-typed data under index %d", x.name, w.specs[yi].name, idx)
	h.flush(10)
}

// relay-typed data from a host naming any relay index known at the relay
func (c *c39State) hostileRelayData(rt *rapid.T, w *nsWorld, h *nsHist) {
	var cands []int
	for i, sp := range w.specs {
		if w.live(i) && sp.role == nsHost {
			cands = append(cands, i)
		}
	}
	if len(cands) == 0 || !w.live(c.relayIdx) {
		return
	}
	mi := cands[rapid.IntRange(0, len(cands)-1).Draw(rt, "hd.sender")]
	m := w.nodes[mi]
	hi := m.ctrl.f.hostMap.QueryVpnAddr(w.specs[c.relayIdx].nets[0].Addr())
	if hi == nil || hi.ConnectionState == nil {
		return
	}
	r := w.nodes[c.relayIdx]
	var idxs []uint32
	hm := r.ctrl.f.hostMap
	hm.RLock()
	for idx := range hm.Relays {
		idxs = append(idxs, idx)
	}
	for idx := range hm.Indexes {
		idxs = append(idxs, idx)
	}
	hm.RUnlock()
	if len(idxs) == 0 {
		return
	}
	sortU32(idxs)
	idx := idxs[rapid.IntRange(0, len(idxs)-1).Draw(rt, "hd.idx")]
	// inner: garbage or a copy of some data packet seen on the wire
	inner := rapid.SliceOfN(rapid.Byte(), 16, 80).Draw(rt, "hd.inner")
	w.s.mu.Lock()
	var datas []*nsPacket
	for _, p := range w.s.history {
		if hd, ok := nsHeaderOf(p.Data); ok && hd.Type == header.Message && hd.Subtype == header.MessageNone {
			datas = append(datas, p)
		}
	}
	w.s.mu.Unlock()
	if len(datas) > 0 && rapid.Bool().Draw(rt, "hd.useData") {
		inner = datas[rapid.IntRange(0, len(datas)-1).Draw(rt, "hd.data")].Data
	}
	m.ctrl.f.SendVia(hi, &Relay{RemoteIndex: idx}, inner, make([]byte, 12), make([]byte, mtu), false, 0)
	w.s.settle()
	c.hostileData++
	h.note("hostile relay-typed data from %s naming relay-side index %d (%d inner bytes)", m.name, idx, len(inner))
}

// the relay replaced by the adversary holding its tunnel keys: re-seal arbitrary inner bytes
// towards a host under any relay index the relay holds for that host
func (c *c39State) evilRelayOp(rt *rapid.T, w *nsWorld, h *nsHist) {
	if !w.live(c.relayIdx) {
		return
	}
	r := w.nodes[c.relayIdx]
	type ent struct {
		t   *HostInfo
		rel *Relay
	}
	var ents []ent
	for _, t := range r.allTunnels() {
		t.relayState.RLock()
		var ks []uint32
		for k := range t.relayState.relayForByIdx {
			ks = append(ks, k)
		}
		sortU32(ks)
		for _, k := range ks {
			ents = append(ents, ent{t, t.relayState.relayForByIdx[k]})
		}
		t.relayState.RUnlock()
	}
	if len(ents) == 0 {
		return
	}
	e := ents[rapid.IntRange(0, len(ents)-1).Draw(rt, "er.entry")]
	// inner bytes: taken from any relay-typed datagram seen (genuine inner packet of some pair),
	// optionally with a flipped bit, or a plain data packet
	w.s.mu.Lock()
	var pool [][]byte
	for _, p := range w.s.history {
		hd, ok := nsHeaderOf(p.Data)
		if !ok {
			continue
		}
		if hd.Type == header.Message && hd.Subtype == header.MessageRelay && len(p.Data) > header.Len+16 {
			pool = append(pool, p.Data[header.Len:len(p.Data)-16])
		} else if hd.Type == header.Message || hd.Type == header.CloseTunnel || hd.Type == header.Control {
			pool = append(pool, p.Data)
		}
	}
	w.s.mu.Unlock()
	if len(pool) == 0 {
		return
	}
	inner := append([]byte{}, pool[rapid.IntRange(0, len(pool)-1).Draw(rt, "er.inner")]...)
	kind := "verbatim"
	if rapid.IntRange(0, 2).Draw(rt, "er.flip") == 0 && len(inner) > 0 {
		off := rapid.IntRange(0, len(inner)-1).Draw(rt, "er.off")
		inner[off] ^= 1 << rapid.IntRange(0, 7).Draw(rt, "er.bit")
		kind = fmt.Sprintf("bit flipped at %d", off)
	}
	idx := e.rel.RemoteIndex
	// An unauthenticated recv_error wrapped in a relay message: only the RELAY's key covers it, so it
	// speaks for the relay's underlay address at most - it must not close a tunnel the target holds
	// directly with somebody else.
	var victim *HostInfo
	var target *nsNode
	if rapid.IntRange(0, 3).Draw(rt, "er.recverr") == 0 && len(e.t.vpnAddrs) > 0 {
		for i, sp := range w.specs {
			if w.live(i) && len(sp.nets) > 0 && sp.nets[0].Addr() == e.t.vpnAddrs[0] {
				target = w.nodes[i]
			}
		}
		if target != nil {
			var direct []*HostInfo
			for _, t := range target.allTunnels() {
				// a tunnel with somebody ELSE than the relay (judged by the authenticated overlay address: the
				// relay's own tunnel may have roamed to another port of the relay's host and back), reached
				// at an underlay address that is not the relay's
				toRelay := false
				for _, a := range t.vpnAddrs {
					for _, ra := range w.specs[c.relayIdx].nets {
						if a == ra.Addr() {
							toRelay = true
						}
					}
				}
				if rm := t.GetRemote(); rm.IsValid() && rm.Addr() != r.udpAddr.Addr() && !toRelay {
					direct = append(direct, t)
				}
			}
			if len(direct) > 0 {
				victim = direct[rapid.IntRange(0, len(direct)-1).Draw(rt, "er.victim")]
				inner = make([]byte, header.Len)
				nsSetHeader(inner, header.RecvError, 0, victim.remoteIndexId, 0)
				kind = fmt.Sprintf("recv_error naming the target's direct tunnel %d to %v", victim.localIndexId, victim.vpnAddrs)
			}
		}
	}
	if victim == nil && rapid.IntRange(0, 3).Draw(rt, "er.otheridx") == 0 {
		o := ents[rapid.IntRange(0, len(ents)-1).Draw(rt, "er.other")]
		idx = o.rel.RemoteIndex
	}
	r.ctrl.f.SendVia(e.t, &Relay{RemoteIndex: idx}, inner, make([]byte, 12), make([]byte, mtu), false, 0)
	w.s.settle()
	c.evilRelay++
	if victim != nil {
		h.note("relay-key holder sends a %s to %s under relay index %d", kind, target.name, idx)
		// deliver just that datagram; everything else stays in flight
		var mine, rest []*nsPacket
		for _, p := range w.s.takeInflight() {
			if hd, ok := nsHeaderOf(p.Data); ok && p.Src == r.idx && p.To == target.udpAddr && hd.Type == header.Message && hd.Subtype == header.MessageRelay && len(p.Data) == header.Len+header.Len+16 {
				mine = append(mine, p)
			} else {
				rest = append(rest, p)
			}
		}
		w.s.mu.Lock()
		w.s.inflight = append(rest, w.s.inflight...)
		w.s.mu.Unlock()
		for _, p := range mine {
			h.deliverPkt(p)
		}
		w.s.settle()
		hm := target.ctrl.f.hostMap
		hm.RLock()
		still := hm.Indexes[victim.localIndexId] == victim
		hm.RUnlock()
		if !still {
			rt.Fatalf("node %s dropped its direct tunnel %d to %v (remote %v) because of an unauthenticated recv_error that arrived wrapped in a relay message from %s", target.name, victim.localIndexId, victim.vpnAddrs, victim.GetRemote(), r.name)
		}
		vk.Label(w.pidLabel(), "relayed-recv-error-for-a-direct-tunnel")
		return
	}
	h.note("relay-key holder sends %d inner bytes (%s) to %v under relay index %d", len(inner), kind, e.t.vpnAddrs, idx)
}

func c39Run(rt *rapid.T, pid string) {
	nsBubble(rt, func(rt *rapid.T, s *nsSim) {
		st := &c39State{}
		st.amRelay = rapid.IntRange(0, 4).Draw(rt, "amRelay") != 0
		ops := []string{"tun", "tun", "tun", "tun", "tun", "deliver", "flush", "flush", "flush", "drop", "dup", "replay", "mutate", "advance", "advance", "close", "rehandshake",
			"hostileControl", "hostileControl", "hostileControl", "hostileRelayData", "hostileRelayData", "halfOpen"}
		if pid == "C15" {
			ops = append(ops, "evilRelay", "evilRelay", "evilRelay", "evilRelay")
		}
		var h *nsHist
		opts := nsHistOpts{
			pid: pid,
			world: nsWorldOpts{minHosts: 3, maxHosts: 3, lighthouse: 0, relay: 1, partition: 0.8, v6: true, staticAll: true, extra: func(sp *nsNodeSpec, cfg nsM) {
				if sp.role == nsRelay {
					rel, _ := cfg["relay"].(nsM)
					rel["am_relay"] = st.amRelay
				}
			}},
			minSteps: 20, maxSteps: 80,
			ops:         ops,
			afterStep:   st.afterStep,
			preDeliver:  st.preDeliver,
			postDeliver: st.postDeliver,
			customOp: func(rt *rapid.T, hh *nsHist, op string) bool {
				h = hh
				st.relayIdx = hh.w.relayIdx
				if s.observe == nil {
					// relay indexes that a host allocates and releases while time passes and nothing is
					// delivered (retried relayed handshakes, tunnels timing out) are allocations too
					w := hh.w
					s.observe = func() { st.observeAgreed(w) }
				}
				switch op {
				case "hostileControl":
					st.hostileControl(rt, hh.w, hh)
				case "hostileRelayData":
					st.hostileRelayData(rt, hh.w, hh)
				case "halfOpen":
					st.halfOpen(rt, hh.w, hh)
				case "evilRelay":
					st.evilRelayOp(rt, hh.w, hh)
				default:
					return false
				}
				return true
			},
		}
		hh := nsRunHistory(rt, s, opts)
		h = hh
		relayed := 0
		for _, rec := range h.w.injected {
			if rec.delivered > 0 && s.isBlocked(h.w.nodes[rec.src].idx, h.w.nodes[rec.dst].idx) {
				relayed++
			}
		}
		labels := []string{fmt.Sprintf("am_relay:%v", st.amRelay)}
		if st.forwarded > 0 {
			labels = append(labels, "relay-forwarded")
		}
		if relayed > 0 {
			labels = append(labels, "relayed-tun-delivery")
		}
		if st.hostileCtl > 0 {
			labels = append(labels, "hostile-control")
		}
		if st.hostileData > 0 {
			labels = append(labels, "hostile-relay-data")
		}
		if st.evilRelay > 0 {
			labels = append(labels, "relay-key-holder-rewrite")
		}
		nontrivial := st.forwarded > 0 && st.hostileCtl > 0
		if pid == "C15" {
			nontrivial = relayed > 0 && st.evilRelay > 0
		}
		vk.Case(pid, strings.Join(h.steps, ";"), nontrivial, labels...)
		vk.LabelN(pid, "forwarded-datagrams", int64(st.forwarded))
		if vk.WantSample(pid) && nontrivial {
			stp := h.steps
			if len(stp) > 30 {
				stp = stp[:30]
			}
			vk.Sample(pid, map[string]any{"am_relay": st.amRelay, "steps": stp})
		}
	})
}

func TestC39_RelayPairs(t *testing.T) {
	nsSetT(t)
	vk.Check(t, 500, func(rt *rapid.T) { c39Run(rt, "C39") })
}

func TestC15_RelayOpaque(t *testing.T) {
	nsSetT(t)
	vk.Check(t, 500, func(rt *rapid.T) { c39Run(rt, "C15") })
}

// TestC39_Probe_requested_leg_disestablished is the plain regression test of the recorded finding
// "requested-leg-disestablished": relay R asked h1 for a relay with h0 and got no answer (Requested,
// remote index unknown); the tunnel of the other leg (h0) goes away. The entry on h1's tunnel must
// not become Disestablished, from where a later CreateRelayResponse of h0 would complete it.
func TestC39_Probe_requested_leg_disestablished(t *testing.T) {
	l := slog.New(slog.DiscardHandler)
	hm := newHostMap(l)
	a0, a1 := netip.MustParseAddr("10.128.0.11"), netip.MustParseAddr("10.128.0.12")
	mk := func(a netip.Addr, idx uint32) *HostInfo {
		return &HostInfo{vpnAddrs: []netip.Addr{a}, localIndexId: idx, remoteIndexId: idx + 1000,
			relayState: RelayState{relayForByAddr: map[netip.Addr]*Relay{}, relayForByIdx: map[uint32]*Relay{}}}
	}
	h0, h1 := mk(a0, 1), mk(a1, 2)
	f := &Interface{hostMap: hm, l: l}
	hm.Lock()
	hm.unlockedAddHostInfo(h0, f)
	hm.unlockedAddHostInfo(h1, f)
	hm.Unlock()
	if _, err := AddRelay(l, h1, hm, a0, nil, ForwardingType, Requested); err != nil {
		t.Fatal(err)
	}
	ri := uint32(0x51515151)
	if _, err := AddRelay(l, h0, hm, a1, &ri, ForwardingType, PeerRequested); err != nil {
		t.Fatal(err)
	}
	hm.DeleteHostInfo(h0)
	r, ok := h1.relayState.QueryRelayForByIp(a0)
	if !ok {
		t.Fatalf("the entry on the other leg vanished")
	}
	if r.State != Requested {
		t.Fatalf("C39: a relay leg that was requested and never answered (remote index %d) moved to state %d when the other leg's tunnel went away; a later response on the other leg would establish it without the peer's answer", r.RemoteIndex, r.State)
	}
}

// TestC15_RelayedHandshakeAttribution: a handshake that arrives through a relay belongs to the peer
// whose key authenticates it; the relay's underlay address says nothing about that peer. Hosts that
// can only reach each other through the relay carry per-peer allow rules (lighthouse.
// remote_allow_ranges) that deny the RELAY's underlay address for the other hosts' overlay
// addresses - rules about where those peers may be reached directly. Under a fair network (everything
// deliverable is delivered, the direct paths stay cut) the relayed tunnel still comes up and the
// queued packet arrives, exactly as it does without the rules.
func TestC15_RelayedHandshakeAttribution(t *testing.T) {
	nsSetT(t)
	vk.Check(t, 150, func(rt *rapid.T) {
		withRules := rapid.IntRange(0, 3).Draw(rt, "withRules") != 0
		var labels []string
		delivered := false
		nsBubble(rt, func(rt *rapid.T, s *nsSim) {
			relayUDP := nsUnderlay(0).Addr()
			w := nsGenWorld(rt, s, nsWorldOpts{minHosts: 2, maxHosts: 3, relay: 1, partition: 1, staticAll: true, extra: func(sp *nsNodeSpec, cfg nsM) {
				if sp.role != nsHost || !withRules {
					return
				}
				ranges := nsM{}
				for k := 1; k < 5; k++ {
					if nsOverlayAddr(k) != sp.nets[0] {
						ranges[netip.PrefixFrom(nsOverlayAddr(k).Addr(), 32).String()] = nsM{netip.PrefixFrom(relayUDP, 32).String(): false}
					}
				}
				lh, _ := cfg["lighthouse"].(nsM)
				if lh == nil {
					lh = nsM{}
					cfg["lighthouse"] = lh
				}
				lh["remote_allow_ranges"] = ranges
			}})
			w.pid = "C15"
			h := &nsHist{rt: rt, w: w, delivered: map[int]map[int]bool{}, stats: map[string]int{}}
			w.startAll(rt)
			hosts := w.honestHosts()
			if len(hosts) < 2 || w.relayIdx != 0 {
				rt.Fatalf("harness: unexpected world %s", w.describe())
			}
			xi := hosts[rapid.IntRange(0, len(hosts)-1).Draw(rt, "x")]
			yi := hosts[rapid.IntRange(0, len(hosts)-1).Draw(rt, "y")]
			if xi == yi {
				return
			}
			yAddr := w.commonAddr(xi, yi)
			if yAddr.Is6() {
				return
			}
			rec := w.sendTagged(xi, yi, yAddr, 60)
			h.runFor(8*time.Second, 100*time.Millisecond)
			got := false
			for _, p := range s.tunOutSince(w.nodes[yi], 0) {
				if rec != nil && bytes.Contains(p, []byte(rec.tag)) {
					got = true
				}
			}
			hx := w.nodes[xi].ctrl.f.hostMap.QueryVpnAddr(yAddr)
			if hx == nil || !got {
				rt.Fatalf("hosts %s and %s can only reach each other through the relay; with allow rules that deny the relay's underlay address %v for the peer's overlay address (rules=%v) the relayed tunnel did not come up / the packet did not arrive (tunnel=%v delivered=%v) although the network delivered everything\n%s\n%s",
					w.specs[xi].name, w.specs[yi].name, relayUDP, withRules, hx != nil, got, w.describe(), strings.Join(h.steps, "\n"))
			}
			delivered = true
			if withRules {
				labels = append(labels, "relayed-handshake-under-per-peer-rules-naming-the-relay")
			} else {
				labels = append(labels, "relayed-handshake-without-rules")
			}
		})
		vk.Case("C15", fmt.Sprintf("attr|%v|%v", withRules, labels), delivered && withRules, labels...)
	})
}
