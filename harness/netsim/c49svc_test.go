//go:build e2e_testing

package nebula

import (
	"crypto/ed25519"
	"crypto/rand"
	"encoding/pem"
	"fmt"
	"net"
	"net/http"
	"net/netip"
	"os"
	"runtime"
	"strconv"
	"strings"
	"testing"
	"time"

	"github.com/miekg/dns"
	"github.com/slackhq/nebula/cert"
	"go.yaml.in/yaml/v3"
	"golang.org/x/crypto/ssh"
	"pgregory.net/rapid"
	"verifkit/vk"
)

// C49, service listeners - stopping a node closes ITS SOCKETS, also the ones of the optional
// services (DNS responder of a lighthouse, prometheus stats listener, debug sshd), and also after
// config reloads restarted, moved, disabled or enabled them.
//
// These listeners are real loopback sockets, which a synctest bubble cannot contain (a goroutine
// blocked in network I/O is not durably blocked), so this part runs in real time: a lighthouse is
// built with nebula.Main, a generated sequence of service reloads and client interactions (a DNS
// query, a scrape, a TCP client that connects to the sshd and never speaks) is applied, and Stop is
// injected before Start, right after Start or after the sequence.
//
// Oracle after Stop: Stop and Wait return; within a generous real-time bound this process holds no
// socket bound to any port a service ever listened on (read from /proc, so a port taken by another
// process cannot be mistaken for a leak) and no goroutine with frames of nebula, its sshd, the DNS
// library's server or net/http's server is left. A bound that is hit is a failure here because a
// leaked listener stays for ever; the bound (20 s) is three orders of magnitude above the observed
// shutdown time.

type c49Held struct {
	proto string
	port  int
}

// c49HeldSockets lists (proto, local port) of every udp/tcp socket THIS process holds.
func c49HeldSockets() map[c49Held]bool {
	inodes := map[string]bool{}
	ents, _ := os.ReadDir("/proc/self/fd")
	for _, e := range ents {
		l, err := os.Readlink("/proc/self/fd/" + e.Name())
		if err == nil && strings.HasPrefix(l, "socket:[") {
			inodes[strings.TrimSuffix(strings.TrimPrefix(l, "socket:["), "]")] = true
		}
	}
	out := map[c49Held]bool{}
	for _, f := range []string{"udp", "udp6", "tcp", "tcp6"} {
		b, err := os.ReadFile("/proc/self/net/" + f)
		if err != nil {
			continue
		}
		for i, line := range strings.Split(string(b), "\n") {
			fs := strings.Fields(line)
			if i == 0 || len(fs) < 10 || !inodes[fs[9]] {
				continue
			}
			if strings.HasPrefix(f, "tcp") && fs[3] != "0A" {
				continue // only listening tcp sockets; accepted/outgoing connections are judged by goroutines
			}
			j := strings.LastIndex(fs[1], ":")
			p, err := strconv.ParseInt(fs[1][j+1:], 16, 32)
			if err == nil {
				out[c49Held{f[:3], int(p)}] = true
			}
		}
	}
	return out
}

func c49ServiceGoroutines() []string {
	buf := make([]byte, 8<<20)
	n := runtime.Stack(buf, true)
	var leaked []string
	for _, g := range strings.Split(string(buf[:n]), "\n\n") {
		if strings.Contains(g, "zz_verif_") || strings.Contains(g, "testing.tRunner") || strings.Contains(g, "testing.(*T).Run") || strings.Contains(g, "pgregory.net/rapid") {
			continue
		}
		if strings.Contains(g, "github.com/slackhq/nebula") || strings.Contains(g, "github.com/miekg/dns.(*Server)") || strings.Contains(g, "net/http.(*Server)") || strings.Contains(g, "net/http.(*conn).serve") {
			leaked = append(leaked, g)
		}
	}
	return leaked
}

func c49FreePort(proto string) int {
	for i := 0; i < 50; i++ {
		if proto == "udp" {
			c, err := net.ListenUDP("udp4", &net.UDPAddr{IP: net.IPv4(127, 0, 0, 1)})
			if err != nil {
				continue
			}
			p := c.LocalAddr().(*net.UDPAddr).Port
			c.Close()
			return p
		}
		l, err := net.Listen("tcp4", "127.0.0.1:0")
		if err != nil {
			continue
		}
		p := l.Addr().(*net.TCPAddr).Port
		l.Close()
		if p != 22 {
			return p
		}
	}
	return 0
}

var c49HostKeyPEM, c49AuthKey = func() (string, string) {
	pub, priv, err := ed25519.GenerateKey(rand.Reader)
	if err != nil {
		panic(err)
	}
	blk, err := ssh.MarshalPrivateKey(priv, "")
	if err != nil {
		panic(err)
	}
	sp, err := ssh.NewPublicKey(pub)
	if err != nil {
		panic(err)
	}
	return string(pem.EncodeToMemory(blk)), strings.TrimSpace(string(ssh.MarshalAuthorizedKey(sp)))
}()

type c49Svc struct {
	dnsOn, statsOn, sshOn       bool
	dnsPort, statsPort, sshPort int
}

func (s c49Svc) overrides() nsM {
	m := nsM{
		"lighthouse": nsM{"am_lighthouse": true, "serve_dns": s.dnsOn, "dns": nsM{"host": "127.0.0.1", "port": s.dnsPort}},
		"sshd": nsM{"enabled": s.sshOn, "listen": fmt.Sprintf("127.0.0.1:%d", s.sshPort), "host_key": c49HostKeyPEM,
			"authorized_users": []nsM{{"user": "verif", "keys": []string{c49AuthKey}}}},
	}
	if s.statsOn {
		m["stats"] = nsM{"type": "prometheus", "listen": fmt.Sprintf("127.0.0.1:%d", s.statsPort), "path": "/metrics", "interval": "1s"}
	} else {
		m["stats"] = nsM{"type": "none"}
	}
	return m
}

func (s c49Svc) String() string {
	f := func(on bool, p int) string {
		if on {
			return strconv.Itoa(p)
		}
		return "off"
	}
	return fmt.Sprintf("dns=%s stats=%s sshd=%s", f(s.dnsOn, s.dnsPort), f(s.statsOn, s.statsPort), f(s.sshOn, s.sshPort))
}

func c49WaitHeld(h c49Held, d time.Duration) bool {
	end := time.Now().Add(d)
	for {
		if c49HeldSockets()[h] {
			return true
		}
		if time.Now().After(end) {
			return false
		}
		time.Sleep(5 * time.Millisecond)
	}
}

func TestC49_Services(t *testing.T) {
	nsSetT(nil)
	vk.Check(t, 40, func(rt *rapid.T) {
		now := time.Now()
		ca := nsNewCA(cert.Version2, now.Add(-time.Hour), now.Add(24*time.Hour))
		id := nsNewIdent(ca, "lh", []cert.Version{cert.Version2}, []netip.Prefix{nsOverlayAddr(0)}, nil, nil, now.Add(-time.Minute), now.Add(time.Hour))
		svc := c49Svc{dnsOn: rapid.Bool().Draw(rt, "dns"), statsOn: rapid.Bool().Draw(rt, "stats"), sshOn: rapid.Bool().Draw(rt, "sshd"),
			dnsPort: c49FreePort("udp"), statsPort: c49FreePort("tcp"), sshPort: c49FreePort("tcp")}
		used := map[c49Held]bool{}
		mark := func() {
			used[c49Held{"udp", svc.dnsPort}] = true
			used[c49Held{"tcp", svc.statsPort}] = true
			used[c49Held{"tcp", svc.sshPort}] = true
		}
		mark()
		var steps []string
		note := func(f string, a ...any) { steps = append(steps, fmt.Sprintf(f, a...)) }
		note("initial %s", svc)

		sim := &nsSim{stopPump: make(chan struct{})}
		close(sim.stopPump) // no simulator pumps: a lone lighthouse sends nothing
		n, err := sim.addNode([]*nsCA{ca}, id, nsUnderlay(0), svc.overrides())
		if err != nil {
			rt.Fatalf("harness: addNode: %v", err)
		}
		var clients []net.Conn
		defer func() {
			for _, c := range clients {
				c.Close()
			}
		}()
		labels := []string{}
		restarted := false
		phase := rapid.SampledFrom([]string{"before-start", "right-after-start", "after-ops", "after-ops", "after-ops", "after-ops"}).Draw(rt, "stopPhase")
		bound := func(what string, on bool, h c49Held) {
			if on && !c49WaitHeld(h, 5*time.Second) {
				// another process took the port between probing and binding, or the machine is very slow:
				// nothing to learn from this listener
				labels = append(labels, what+"-did-not-bind")
				note("%s did not bind %v within 5 s", what, h)
			}
		}
		if phase != "before-start" {
			if err := n.ctrl.Start(); err != nil {
				rt.Fatalf("harness: Start: %v", err)
			}
			note("start")
		}
		if phase == "after-ops" {
			bound("dns", svc.dnsOn, c49Held{"udp", svc.dnsPort})
			bound("stats", svc.statsOn, c49Held{"tcp", svc.statsPort})
			bound("sshd", svc.sshOn, c49Held{"tcp", svc.sshPort})
			nops := rapid.IntRange(0, 6).Draw(rt, "nops")
			for k := 0; k < nops; k++ {
				op := rapid.SampledFrom([]string{"dnsPort", "dnsToggle", "statsPort", "statsToggle", "sshPort", "sshToggle", "sameReload", "dnsQuery", "scrape", "sshIdleClient"}).Draw(rt, "op")
				reload := true
				before := svc
				switch op {
				case "dnsPort":
					svc.dnsPort = c49FreePort("udp")
				case "dnsToggle":
					svc.dnsOn = !svc.dnsOn
				case "statsPort":
					svc.statsPort = c49FreePort("tcp")
				case "statsToggle":
					svc.statsOn = !svc.statsOn
				case "sshPort":
					svc.sshPort = c49FreePort("tcp")
				case "sshToggle":
					svc.sshOn = !svc.sshOn
				case "sameReload":
				case "dnsQuery":
					reload = false
					if svc.dnsOn {
						m := new(dns.Msg)
						m.SetQuestion("lh.", dns.TypeA)
						cl := &dns.Client{Timeout: time.Second}
						_, _, qerr := cl.Exchange(m, fmt.Sprintf("127.0.0.1:%d", svc.dnsPort))
						note("dns query: err=%v", qerr)
					}
				case "scrape":
					reload = false
					if svc.statsOn {
						hc := &http.Client{Timeout: time.Second, Transport: &http.Transport{DisableKeepAlives: rapid.Bool().Draw(rt, "noKeepAlive")}}
						resp, gerr := hc.Get(fmt.Sprintf("http://127.0.0.1:%d/metrics", svc.statsPort))
						if gerr == nil {
							resp.Body.Close()
						}
						note("scrape: err=%v", gerr)
					}
				case "sshIdleClient":
					reload = false
					if svc.sshOn {
						c, derr := net.DialTimeout("tcp", fmt.Sprintf("127.0.0.1:%d", svc.sshPort), time.Second)
						if derr == nil {
							clients = append(clients, c) // connects and never speaks
							labels = append(labels, "idle-ssh-client")
						}
						note("ssh idle client: err=%v", derr)
					}
				}
				if reload {
					mark()
					mc := nsBaseConfig([]*nsCA{ca}, id, nsUnderlay(0), svc.overrides())
					cb, _ := yaml.Marshal(mc)
					note("reload (%s): %s", op, svc)
					if err := n.cfg.ReloadConfigString(string(cb)); err != nil {
						rt.Fatalf("harness: reload: %v", err)
					}
					if svc != before || op == "sameReload" {
						restarted = restarted || (svc.dnsOn && before.dnsOn && svc.dnsPort != before.dnsPort) || (svc.dnsOn != before.dnsOn) ||
							(svc.statsOn != before.statsOn) || (svc.statsOn && svc.statsPort != before.statsPort) || svc.sshOn
					}
					if rapid.Bool().Draw(rt, "waitBound") {
						bound("dns", svc.dnsOn, c49Held{"udp", svc.dnsPort})
						bound("stats", svc.statsOn, c49Held{"tcp", svc.statsPort})
						bound("sshd", svc.sshOn, c49Held{"tcp", svc.sshPort})
					} else {
						time.Sleep(time.Duration(rapid.IntRange(0, 30).Draw(rt, "pauseMs")) * time.Millisecond)
					}
				}
				labels = append(labels, "op/"+op)
			}
		}

		// ---- stop ----
		note("stop (%s)", phase)
		done := make(chan struct{})
		go func() { n.ctrl.Stop(); n.ctrl.Wait(); close(done) }()
		select {
		case <-done:
		case <-time.After(30 * time.Second):
			rt.Fatalf("Stop/Wait did not return within 30 s\n%s", strings.Join(steps, "\n"))
		}
		end := time.Now().Add(20 * time.Second)
		for {
			held := c49HeldSockets()
			var still []string
			for h := range used {
				if held[h] {
					still = append(still, fmt.Sprintf("%s/%d", h.proto, h.port))
				}
			}
			gs := c49ServiceGoroutines()
			if len(still) == 0 && len(gs) == 0 {
				break
			}
			if time.Now().After(end) {
				if len(still) > 0 {
					rt.Fatalf("20 s after Stop the process still holds listening sockets %v of the stopped node\n%s", still, strings.Join(steps, "\n"))
				}
				rt.Fatalf("20 s after Stop %d goroutine(s) of the stopped node are still running\n%s\n----\n%s", len(gs), strings.Join(steps, "\n"), strings.Join(gs, "\n\n"))
			}
			time.Sleep(10 * time.Millisecond)
		}
		nontrivial := phase == "after-ops" && restarted
		labels = append(labels, "svc/stop-"+phase)
		if restarted {
			labels = append(labels, "svc/listener-restarted-by-reload")
		}
		vk.Case("C49", "svc|"+strings.Join(steps, "|"), nontrivial, labels...)
		if vk.WantSample("C49") && nontrivial {
			vk.Sample("C49", map[string]any{"part": "services", "steps": steps})
		}
	})
}
