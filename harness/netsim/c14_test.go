//go:build e2e_testing

package nebula

import (
	"fmt"
	"strings"
	"testing"

	"github.com/slackhq/nebula/header"
	"pgregory.net/rapid"
	"verifkit/vk"
)

// C14 - unauthenticated packets have no effect (see DESIGN.md section 4).
// Histories over honest worlds (optionally with lighthouse and relay) in which the adversary
// delivers mutants, replays and duplicates of genuine traffic; every such delivery that carries
// nothing new from the tunnel's peer must leave the receiver's state digest and tun output unchanged.
func TestC14_History(t *testing.T) {
	nsSetT(t)
	vk.Check(t, 800, func(rt *rapid.T) {
		nsBubble(rt, func(rt *rapid.T, s *nsSim) {
			h := nsRunHistory(rt, s, nsHistOpts{
				pid:      "C14",
				world:    nsWorldOpts{minHosts: 2, maxHosts: 3, lighthouse: 0.5, relay: 0.5, partition: 0.6, v6: true},
				minSteps: 15, maxSteps: 60,
				ops: []string{"tun", "tun", "tun", "deliver", "deliver", "flush", "flush", "flush", "drop", "dup", "replay", "replay",
					"mutate", "mutate", "mutate", "mutate", "advance", "close"},
			})
			key := strings.Join(h.steps, ";")
			vk.Case("C14", key, h.mutHit > 0, fmt.Sprintf("mutants-hitting-existing-index:%d", min(h.mutHit, 5)))
			vk.LabelN("C14", "mutants", int64(h.mutants))
			vk.LabelN("C14", "relay-packets-on-wire", int64(h.countWire(func(hd header.H) bool { return hd.Type == header.Message && hd.Subtype == header.MessageRelay })))
			vk.LabelN("C14", "partitioned-pairs", int64(len(h.w.partitioned)))
			vk.LabelN("C14", "mutants-hit", int64(h.mutHit))
			if vk.WantSample("C14") {
				st := h.steps
				if len(st) > 40 {
					st = st[:40]
				}
				vk.Sample("C14", map[string]any{"nodes": len(h.w.nodes), "steps": st})
			}
		})
	})
}
