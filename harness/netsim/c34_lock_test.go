//go:build e2e_testing

package nebula

import (
	"bytes"
	"fmt"
	"runtime"
	"strconv"
	"sync"
)

// verifRWMutex stands in for the embedded sync.RWMutex of HostMap, RelayState, HandshakeManager,
// LightHouse and RemoteList in the C34 build (textual substitution through the build overlay, see
// conf.d/C34.py "rewrite"). It behaves like sync.RWMutex and additionally records lock-discipline
// violations that are latent deadlocks whatever the schedule:
//
//   - recursive read locking: a goroutine that holds the read lock takes it again. sync.RWMutex
//     gives waiting writers preference, so the second RLock blocks for ever as soon as a writer has
//     queued between the two ("this prohibits recursive read locking" in the package documentation);
//   - upgrading: a goroutine that holds the read lock asks for the write lock (immediate deadlock).
//
// The race detector sees neither, and hitting the few-hundred-nanosecond window with a real writer is
// hopeless; with the bookkeeping the hazard is reported the first time the code path runs.
type verifRWMutex struct {
	mu      sync.RWMutex
	hmu     sync.Mutex
	readers map[uint64]int
	foreign bool // an RUnlock by a goroutine that holds nothing was seen: bookkeeping not reliable for this mutex
}

var (
	verifLockMu      sync.Mutex
	verifLockReports = map[string]string{}
)

func verifGoID() uint64 {
	var buf [64]byte
	b := buf[:runtime.Stack(buf[:], false)]
	b = bytes.TrimPrefix(b, []byte("goroutine "))
	if i := bytes.IndexByte(b, ' '); i > 0 {
		n, _ := strconv.ParseUint(string(b[:i]), 10, 64)
		return n
	}
	return 0
}

func verifLockReport(kind string) {
	pcs := make([]uintptr, 24)
	n := runtime.Callers(3, pcs)
	frames := runtime.CallersFrames(pcs[:n])
	var sig, full string
	for {
		f, more := frames.Next()
		full += fmt.Sprintf("    %s\n        %s:%d\n", f.Function, f.File, f.Line)
		if sig == "" && f.Function != "" {
			sig = kind + " at " + f.Function
		}
		if !more {
			break
		}
	}
	verifLockMu.Lock()
	if _, ok := verifLockReports[sig]; !ok {
		verifLockReports[sig] = full
	}
	verifLockMu.Unlock()
}

func (m *verifRWMutex) RLock() {
	g := verifGoID()
	m.hmu.Lock()
	if m.readers == nil {
		m.readers = map[uint64]int{}
	}
	again := m.readers[g] > 0 && !m.foreign
	m.readers[g]++
	m.hmu.Unlock()
	if again {
		verifLockReport("recursive read lock")
	}
	m.mu.RLock()
}

func (m *verifRWMutex) TryRLock() bool {
	if !m.mu.TryRLock() {
		return false
	}
	g := verifGoID()
	m.hmu.Lock()
	if m.readers == nil {
		m.readers = map[uint64]int{}
	}
	m.readers[g]++
	m.hmu.Unlock()
	return true
}

func (m *verifRWMutex) RUnlock() {
	g := verifGoID()
	m.hmu.Lock()
	if m.readers[g] > 0 {
		m.readers[g]--
		if m.readers[g] == 0 {
			delete(m.readers, g)
		}
	} else {
		m.foreign = true
		m.readers = map[uint64]int{}
	}
	m.hmu.Unlock()
	m.mu.RUnlock()
}

func (m *verifRWMutex) Lock() {
	g := verifGoID()
	m.hmu.Lock()
	up := m.readers[g] > 0 && !m.foreign
	m.hmu.Unlock()
	if up {
		verifLockReport("write lock requested while holding the read lock")
	}
	m.mu.Lock()
}

func (m *verifRWMutex) TryLock() bool { return m.mu.TryLock() }
func (m *verifRWMutex) Unlock()       { m.mu.Unlock() }
func (m *verifRWMutex) RLocker() sync.Locker {
	return (*verifRLocker)(m)
}

type verifRLocker verifRWMutex

func (r *verifRLocker) Lock()   { (*verifRWMutex)(r).RLock() }
func (r *verifRLocker) Unlock() { (*verifRWMutex)(r).RUnlock() }
