//go:build e2e_testing

package nebula

import (
	"bytes"
	"fmt"
	"reflect"
	"runtime"
	"strconv"
	"sync"
)

// verifRWMutexOf[T] stands in for the embedded sync.RWMutex of T in {HostMap, RelayState,
// HandshakeManager, LightHouse, RemoteList} in the C34 build (textual substitution through the build
// overlay, see conf.d/C34.py "rewrite"). It behaves like sync.RWMutex and additionally records
// lock-discipline violations that are latent deadlocks whatever the schedule:
//
//   - recursive read locking: a goroutine that holds the read lock takes it again. sync.RWMutex
//     gives waiting writers preference, so the second RLock blocks for ever as soon as a writer has
//     queued between the two ("this prohibits recursive read locking" in the package documentation);
//   - upgrading: a goroutine that holds the read lock asks for the write lock (immediate deadlock);
//   - lock-order inversion between classes: one goroutine takes a lock of class B while holding one
//     of class A, another path takes A while holding B. Read modes do not make that safe: every one
//     of these locks has writers, and a writer queued on either lock turns the two read-holders into
//     a cycle (the hang that exposed the HostMap/RemoteList inversion needed three goroutines).
//
// The race detector sees none of these, and hitting the windows with real goroutines is a matter
// of luck; with the bookkeeping a hazard is reported the first time both code paths have run.
type verifRWMutexOf[T any] struct {
	mu      sync.RWMutex
	hmu     sync.Mutex
	readers map[uint64]int
	foreign bool // an RUnlock by a goroutine that holds nothing was seen: bookkeeping not reliable for this mutex
}

type verifHeldLock struct {
	class string
	inst  any
}

var (
	verifLockMu      sync.Mutex
	verifLockReports = map[string]string{}
	verifHeld        = map[uint64][]verifHeldLock{}
	verifEdges       = map[[2]string]string{} // (held class, acquired class) -> first stack seen
)

func verifGoID() uint64 {
	var buf [64]byte
	b := buf[:runtime.Stack(buf[:], false)]
	b = bytes.TrimPrefix(b, []byte("goroutine "))
	if i := bytes.IndexByte(b, ' '); i > 0 {
		n, _ := strconv.ParseUint(string(b[:i]), 10, 64)
		return n
	}
	return 0
}

func verifStack(skip int) (first, full string) {
	pcs := make([]uintptr, 24)
	n := runtime.Callers(skip, pcs)
	frames := runtime.CallersFrames(pcs[:n])
	for {
		f, more := frames.Next()
		full += fmt.Sprintf("    %s\n        %s:%d\n", f.Function, f.File, f.Line)
		if first == "" && f.Function != "" {
			first = f.Function
		}
		if !more {
			break
		}
	}
	return
}

func verifLockReport(kind string) {
	first, full := verifStack(4)
	verifLockMu.Lock()
	sig := kind + " at " + first
	if _, ok := verifLockReports[sig]; !ok {
		verifLockReports[sig] = full
	}
	verifLockMu.Unlock()
}

// verifAcquire records that goroutine g is about to block on a lock of the given class while holding
// others, and reports an inversion when the opposite order was seen before.
func verifAcquire(g uint64, class string, inst any) {
	verifLockMu.Lock()
	defer verifLockMu.Unlock()
	for _, h := range verifHeld[g] {
		if h.class == class {
			continue // two instances of one class (two remote lists, two relay states): no fixed order is claimed
		}
		key := [2]string{h.class, class}
		if _, ok := verifEdges[key]; !ok {
			_, full := verifStack(4)
			verifEdges[key] = full
		}
		if other, ok := verifEdges[[2]string{class, h.class}]; ok {
			a, b := h.class, class
			if a > b {
				a, b = b, a
			}
			sig := "lock order inversion between " + a + " and " + b
			if _, seen := verifLockReports[sig]; !seen {
				_, full := verifStack(4)
				verifLockReports[sig] = fmt.Sprintf("  %s taken while holding %s:\n%s  %s taken while holding %s:\n%s", class, h.class, full, h.class, class, other)
			}
		}
	}
	verifHeld[g] = append(verifHeld[g], verifHeldLock{class, inst})
}

func verifRelease(g uint64, inst any) {
	verifLockMu.Lock()
	defer verifLockMu.Unlock()
	hs := verifHeld[g]
	for i := len(hs) - 1; i >= 0; i-- {
		if hs[i].inst == inst {
			hs = append(hs[:i], hs[i+1:]...)
			break
		}
	}
	if len(hs) == 0 {
		delete(verifHeld, g)
	} else {
		verifHeld[g] = hs
	}
}

func (m *verifRWMutexOf[T]) class() string { return reflect.TypeFor[T]().Name() }

func (m *verifRWMutexOf[T]) RLock() {
	g := verifGoID()
	m.hmu.Lock()
	if m.readers == nil {
		m.readers = map[uint64]int{}
	}
	again := m.readers[g] > 0 && !m.foreign
	m.readers[g]++
	m.hmu.Unlock()
	if again {
		verifLockReport("recursive read lock")
	}
	verifAcquire(g, m.class(), m)
	m.mu.RLock()
}

func (m *verifRWMutexOf[T]) TryRLock() bool {
	if !m.mu.TryRLock() {
		return false
	}
	g := verifGoID()
	m.hmu.Lock()
	if m.readers == nil {
		m.readers = map[uint64]int{}
	}
	m.readers[g]++
	m.hmu.Unlock()
	verifLockMu.Lock()
	verifHeld[g] = append(verifHeld[g], verifHeldLock{m.class(), m})
	verifLockMu.Unlock()
	return true
}

func (m *verifRWMutexOf[T]) RUnlock() {
	g := verifGoID()
	m.hmu.Lock()
	if m.readers[g] > 0 {
		m.readers[g]--
		if m.readers[g] == 0 {
			delete(m.readers, g)
		}
	} else {
		m.foreign = true
		m.readers = map[uint64]int{}
	}
	m.hmu.Unlock()
	verifRelease(g, m)
	m.mu.RUnlock()
}

func (m *verifRWMutexOf[T]) Lock() {
	g := verifGoID()
	m.hmu.Lock()
	up := m.readers[g] > 0 && !m.foreign
	m.hmu.Unlock()
	if up {
		verifLockReport("write lock requested while holding the read lock")
	}
	verifAcquire(g, m.class(), m)
	m.mu.Lock()
}

func (m *verifRWMutexOf[T]) TryLock() bool {
	if !m.mu.TryLock() {
		return false
	}
	g := verifGoID()
	verifLockMu.Lock()
	verifHeld[g] = append(verifHeld[g], verifHeldLock{m.class(), m})
	verifLockMu.Unlock()
	return true
}

func (m *verifRWMutexOf[T]) Unlock() {
	verifRelease(verifGoID(), m)
	m.mu.Unlock()
}

func (m *verifRWMutexOf[T]) RLocker() sync.Locker { return (*verifRLocker[T])(m) }

type verifRLocker[T any] verifRWMutexOf[T]

func (r *verifRLocker[T]) Lock()   { (*verifRWMutexOf[T])(r).RLock() }
func (r *verifRLocker[T]) Unlock() { (*verifRWMutexOf[T])(r).RUnlock() }
