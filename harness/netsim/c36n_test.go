//go:build e2e_testing

package nebula

import (
	"fmt"
	"net/netip"
	"strings"
	"testing"
	"time"

	"github.com/slackhq/nebula/header"
	"pgregory.net/rapid"
	"verifkit/vk"
)

// C36 (wire level) - unusable underlay addresses are never used (DESIGN.md section 4).
// A lighthouse and 3-4 hosts that learn about each other only through the lighthouse; every host
// carries a generated lighthouse.remote_allow_list that denies the underlay addresses of some
// other hosts (as /32 entries or as a covering prefix with more specific allows). Histories with
// traffic, delivery in and out of order, drops, time, closes and re-handshakes.
// Oracle: an independent longest-prefix evaluation of each node's generated allow list; no
// handshake, data or punch datagram ever leaves a node towards an address its list denies, nor
// towards an address inside its own overlay networks (shared invariant).
type c36nRule struct {
	pfx   netip.Prefix
	allow bool
}

func c36nAllowed(rules []c36nRule, a netip.Addr) bool {
	best, bestLen, found := true, -1, false
	uniform, first := true, true
	var val bool
	var fam []c36nRule
	for _, r := range rules {
		if r.pfx.Addr().Is4() == a.Is4() {
			fam = append(fam, r)
		}
	}
	rules = fam // a family without entries allows everything
	for _, r := range rules {
		if first {
			val, first = r.allow, false
		} else if r.allow != val {
			uniform = false
		}
		if r.pfx.Contains(a) && r.pfx.Bits() > bestLen {
			best, bestLen, found = r.allow, r.pfx.Bits(), true
		}
	}
	if found {
		return best
	}
	if len(rules) == 0 {
		return true
	}
	// no explicit default: the opposite of the (uniform) configured value
	_ = uniform
	return !val
}

func TestC36_WireLevel(t *testing.T) {
	nsSetT(t)
	vk.Check(t, 500, func(rt *rapid.T) {
		nsBubble(rt, func(rt *rapid.T, s *nsSim) {
			lists := map[string][]c36nRule{}
			denied := 0
			triedWarm := false
			h := nsRunHistory(rt, s, nsHistOpts{
				pid: "C36",
				world: nsWorldOpts{minHosts: 3, maxHosts: 4, lighthouse: 1, relay: 0.5, v6: false, extra: func(sp *nsNodeSpec, cfg nsM) {
					if sp.role != nsHost {
						return
					}
					// this spec's own index is encoded in its underlay address (10.0.0.(10+i))
					var rules []c36nRule
					mode := rapid.IntRange(0, 3).Draw(rt, sp.name+".alMode")
					al := nsM{}
					switch mode {
					case 0: // no list
					case 1: // deny single hosts, everything else allowed by inference
						for k := 1; k < 6; k++ {
							if rapid.IntRange(0, 2).Draw(rt, fmt.Sprintf("%s.deny%d", sp.name, k)) == 0 {
								p := netip.PrefixFrom(nsUnderlay(k).Addr(), 32)
								if p.Addr() == sp.udp.Addr() {
									continue
								}
								rules = append(rules, c36nRule{p, false})
								al[p.String()] = false
							}
						}
					case 2: // explicit default allow, deny the upper half of the underlay /24
						rules = append(rules, c36nRule{netip.MustParsePrefix("0.0.0.0/0"), true}, c36nRule{netip.MustParsePrefix("10.0.0.12/30"), false})
						al["0.0.0.0/0"], al["10.0.0.12/30"] = true, false
					case 3: // deny the underlay /24 but allow the lighthouse and one host
						rules = append(rules, c36nRule{netip.MustParsePrefix("0.0.0.0/0"), true}, c36nRule{netip.MustParsePrefix("10.0.0.0/24"), false},
							c36nRule{netip.PrefixFrom(nsUnderlay(0).Addr(), 32), true}, c36nRule{netip.PrefixFrom(nsUnderlay(2).Addr(), 32), true})
						al["0.0.0.0/0"], al["10.0.0.0/24"] = true, false
						al[nsUnderlay(0).Addr().String()+"/32"], al[nsUnderlay(2).Addr().String()+"/32"] = true, true
					}
					if len(al) > 0 {
						lh, _ := cfg["lighthouse"].(nsM)
						if lh == nil {
							lh = nsM{}
							cfg["lighthouse"] = lh
						}
						lh["remote_allow_list"] = al
						lists[sp.name] = rules
					}
					cfg["punchy"] = nsM{"punch": true, "respond": true, "delay": "100ms", "respond_delay": "200ms"}
				}},
				minSteps: 15, maxSteps: 60,
				ops: []string{"tun", "tun", "tun", "tun", "deliver", "flush", "flush", "flush", "drop", "dup", "advance", "advance", "close", "rehandshake", "roamDenied", "roamDenied", "directAfterRelay", "directAfterRelay", "replay", "replay"},
				customOp: func(rt *rapid.T, hh *nsHist, op string) bool {
					if hh.w.udpExtra == nil {
						hh.w.udpExtra = func(src *nsNode, p *nsPacket) string {
							rules, ok := lists[src.name]
							if !ok {
								return ""
							}
							hd, hok := nsHeaderOf(p.Data)
							kind := ""
							switch {
							case !hok:
								kind = "punch"
							case hd.Type == header.Handshake:
								kind = "handshake"
							case hd.Type == header.Message:
								kind = "data"
							default:
								return ""
							}
							if !c36nAllowed(rules, p.To.Addr()) {
								return fmt.Sprintf("%s datagram to %v, which this node's remote_allow_list %v denies", kind, p.To, rules)
							}
							return ""
						}
					}
					if op == "directAfterRelay" {
						// Node x denies peer p's underlay address, so their tunnel came up through the relay and x
						// holds no underlay address for p at all. Now p (which is free to use whatever path it
						// found) sends authentic data straight from its own, denied, address. x must not adopt
						// that address; afterwards x is made to send to p.
						w, s := hh.w, hh.w.s
						type pair struct{ xi, pi int }
						var cands []pair
						for xi, x := range w.nodes {
							rules, has := lists[w.specs[xi].name]
							if !has || !w.live(xi) {
								continue
							}
							for pi, pn := range w.nodes {
								if pi == xi || !w.live(pi) || w.specs[pi].role != nsHost || c36nAllowed(rules, pn.udpAddr.Addr()) {
									continue
								}
								if pr, ok := lists[w.specs[pi].name]; ok && !c36nAllowed(pr, x.udpAddr.Addr()) {
									continue // p itself must not send there: the harness would be forcing p's violation
								}
								hx := x.ctrl.f.hostMap.QueryVpnAddr(w.specs[pi].nets[0].Addr())
								hp := pn.ctrl.f.hostMap.QueryVpnAddr(w.specs[xi].nets[0].Addr())
								if hx != nil && hp != nil && !hx.GetRemote().IsValid() && hx.remoteIndexId == hp.localIndexId {
									cands = append(cands, pair{xi, pi})
								}
							}
						}
						if len(cands) == 0 && !triedWarm {
							// none yet: have some node talk to a peer whose address it denies, which can only work
							// through the relay, and look again
							triedWarm = true
							for xi := range w.nodes {
								rules, has := lists[w.specs[xi].name]
								if !has || !w.live(xi) || w.relayIdx < 0 {
									continue
								}
								for pi, pn := range w.nodes {
									if pi != xi && w.live(pi) && w.specs[pi].role == nsHost && !c36nAllowed(rules, pn.udpAddr.Addr()) {
										w.sendTagged(xi, pi, w.specs[pi].nets[0].Addr(), 40)
									}
								}
							}
							hh.runFor(4*time.Second, 100*time.Millisecond)
							hh.note("warm-up: traffic towards denied peers, 4 s")
							return true
						}
						if len(cands) == 0 {
							return true
						}
						c := cands[rapid.IntRange(0, len(cands)-1).Draw(rt, "dar.pair")]
						x, pn := w.nodes[c.xi], w.nodes[c.pi]
						hp := pn.ctrl.f.hostMap.QueryVpnAddr(w.specs[c.xi].nets[0].Addr())
						hp.SetRemote(x.udpAddr)
						hh.note("%s sends straight to %s (which denies %v) over their relayed tunnel", pn.name, x.name, pn.udpAddr)
						w.sendTagged(c.pi, c.xi, w.specs[c.xi].nets[0].Addr(), 40)
						s.settle()
						var rest []*nsPacket
						for _, q := range s.takeInflight() {
							if hd, ok := nsHeaderOf(q.Data); ok && q.Src == pn.idx && q.To == x.udpAddr && hd.Type == header.Message && hd.Subtype == header.MessageNone {
								hh.deliverPkt(q)
								vk.Label("C36", "direct-data-from-denied-address-on-a-relayed-tunnel")
							} else {
								rest = append(rest, q)
							}
						}
						s.mu.Lock()
						s.inflight = append(rest, s.inflight...)
						s.mu.Unlock()
						w.sendTagged(c.xi, c.pi, w.specs[c.pi].nets[0].Addr(), 40)
						s.settle()
						return true
					}
					if op != "roamDenied" {
						return false
					}
					// a genuine, not yet delivered data packet reaches its receiver from an underlay address the
					// receiver's list denies (the peer roamed there, or someone forwards its packets): the receiver
					// must not adopt that address; afterwards it is made to send to that peer
					w, s := hh.w, hh.w.s
					fl := s.peekInflight()
					var cands []*nsPacket
					for _, p := range fl {
						if hd, ok := nsHeaderOf(p.Data); ok && hd.Type == header.Message && p.Src >= 0 {
							if y := s.nodeByUDP(p.To); y != nil {
								if _, has := lists[y.name]; has {
									cands = append(cands, p)
								}
							}
						}
					}
					if len(cands) == 0 {
						return true
					}
					p := cands[rapid.IntRange(0, len(cands)-1).Draw(rt, "roam.pkt")]
					y := s.nodeByUDP(p.To)
					var deniedAddrs []netip.Addr
					for k := 0; k < 8; k++ {
						if a := nsUnderlay(k).Addr(); !c36nAllowed(lists[y.name], a) && a != y.udpAddr.Addr() {
							deniedAddrs = append(deniedAddrs, a)
						}
					}
					if len(deniedAddrs) == 0 {
						return true
					}
					from := netip.AddrPortFrom(deniedAddrs[rapid.IntRange(0, len(deniedAddrs)-1).Draw(rt, "roam.addr")], 4242)
					s.removeInflight(p.ID)
					hh.note("deliver %v from denied address %v", p, from)
					nsDeliverUnauth(rt, hh, p, from, p.To, "roam-from-denied")
					// make the receiver talk to that peer
					for i, n := range w.nodes {
						if n != nil && n.idx == p.Src {
							yi := -1
							for j, m := range w.nodes {
								if m == y {
									yi = j
								}
							}
							if yi >= 0 {
								w.sendTagged(yi, i, w.specs[i].nets[0].Addr(), 40)
							}
						}
					}
					return true
				},
			})
			// how many (node, peer underlay) pairs were denied in this world
			for i, sp := range h.w.specs {
				if rules, ok := lists[sp.name]; ok {
					for j, other := range h.w.specs {
						if i != j && !c36nAllowed(rules, other.udp.Addr()) {
							denied++
						}
					}
				}
			}
			used := 0
			s.mu.Lock()
			for _, p := range s.history {
				if hd, ok := nsHeaderOf(p.Data); ok && hd.Type == header.Message {
					used++
				}
			}
			s.mu.Unlock()
			labels := []string{}
			if denied > 0 {
				labels = append(labels, "world-with-denied-peer-address")
			}
			if used > 0 {
				labels = append(labels, "data-on-the-wire")
			}
			vk.Case("C36", "wire;"+strings.Join(h.steps, ";"), denied > 0 && used > 0, labels...)
		})
	})
}
