//go:build e2e_testing

package nebula

// World generation (node zoo, discovery set-up) and the invariant library shared by the E-netsim
// checks: hostmap binding (C09/C05), key ownership (C05), tun delivery accounting (C12/C14/C15),
// underlay destination predicate (C36) and the state digest used by C14.

import (
	"bytes"
	"encoding/binary"
	"encoding/json"
	"fmt"
	"net/netip"
	"slices"
	"sort"
	"strings"
	"time"

	"github.com/gaissmai/bart"
	"github.com/slackhq/nebula/cert"
	"github.com/slackhq/nebula/header"
	"pgregory.net/rapid"
)

type nsRole int

const (
	nsHost nsRole = iota
	nsLighthouse
	nsRelay
)

type nsKind int

const (
	nsHonest      nsKind = iota
	nsUntrusted          // certified by a CA the others do not trust
	nsExpired            // certificate valid only in the past
	nsAddrThief          // trusted certificate for its own address, but placed at another node's underlay address in static maps
	nsSelfClaim          // trusted certificate that lists the address of another honest node
	nsBlocklisted        // fingerprint blocklisted by everyone else
)

func (k nsKind) String() string {
	return [...]string{"honest", "untrustedCA", "expired", "wrongResponder", "selfClaim", "blocklisted"}[k]
}

type nsNodeSpec struct {
	name     string
	role     nsRole
	kind     nsKind
	nets     []netip.Prefix
	versions []cert.Version
	udp      netip.AddrPort
	notAfter time.Time
	unsafe   []netip.Prefix
	claims   int          // nsSelfClaim: index of the node whose address is claimed
	claimed  netip.Prefix // nsSelfClaim: which of that node's networks
	poses    int          // nsAddrThief: index of the node it is mistaken for
}

type nsWorldOpts struct {
	minHosts, maxHosts int
	lighthouse         float64 // probability of a lighthouse
	relay              float64 // probability of a relay
	evil               bool    // allow non-honest kinds
	v6                 bool    // allow second (IPv6) overlay network on v2 identities
	staticAll          bool    // every host statically knows every other host
	partition          float64 // with a relay: probability that the direct path between two hosts is blocked
	multinet           bool    // v2-only identities may carry a first network nobody else shares, before the common one
	cipher             string
	extra              func(spec *nsNodeSpec, cfg nsM)
}

type nsWorld struct {
	pid         string
	s           *nsSim
	specs       []*nsNodeSpec
	nodes       []*nsNode
	cas         []*nsCA // [0] trusted, [1] untrusted
	byFP        map[string]int
	lhIdx       int
	relayIdx    int
	injected    map[string]*nsInjected // payload tag -> record
	nextTag     int
	tunSeen     []int // per node: how many tun outputs were already accounted
	udpSeen     int   // how many history packets were already checked for C36
	known       map[*HostInfo]bool
	blockFP     []string
	partitioned [][2]int
	// dynBlock[x][y]: node x reloaded its configuration with identity y's fingerprints blocklisted
	dynBlock map[int]map[int]bool
	// udpExtra is an additional predicate over every datagram a node puts on the wire ("" = fine)
	udpExtra func(src *nsNode, p *nsPacket) string
}

type nsInjected struct {
	tag       string
	dstAddr   netip.Addr
	src, dst  int
	pkt       []byte
	delivered int
	sent      int
}

func nsOverlayAddr(i int) netip.Prefix {
	return netip.PrefixFrom(netip.AddrFrom4([4]byte{10, 128, 0, byte(10 + i)}), 24)
}
func nsOverlayAddr6(i int) netip.Prefix {
	a := netip.MustParseAddr("fd00:128::").As16()
	a[15] = byte(10 + i)
	return netip.PrefixFrom(netip.AddrFrom16(a), 64)
}
func nsUnderlay(i int) netip.AddrPort {
	return netip.AddrPortFrom(netip.AddrFrom4([4]byte{10, 0, 0, byte(10 + i)}), 4242)
}

// nsGenWorld draws a topology and builds (but does not start) the nodes.
func nsGenWorld(rt *rapid.T, s *nsSim, o nsWorldOpts) *nsWorld {
	w := &nsWorld{s: s, byFP: map[string]int{}, lhIdx: -1, relayIdx: -1, injected: map[string]*nsInjected{}, known: map[*HostInfo]bool{}}
	s.debugLogs = rapid.IntRange(0, 3).Draw(rt, "debugLogging") == 0
	now := time.Now()
	caVer := cert.Version2
	if rapid.IntRange(0, 3).Draw(rt, "caV1") == 0 {
		caVer = cert.Version1
	}
	w.cas = []*nsCA{
		nsNewCA(caVer, now.Add(-24*time.Hour), now.Add(1000*time.Hour)),
		nsNewCA(cert.Version2, now.Add(-24*time.Hour), now.Add(1000*time.Hour)),
	}
	verChoices := [][]cert.Version{{cert.Version1}, {cert.Version2}, {cert.Version1, cert.Version2}, {cert.Version2, cert.Version1}}
	add := func(name string, role nsRole, kind nsKind) *nsNodeSpec {
		i := len(w.specs)
		sp := &nsNodeSpec{name: name, role: role, kind: kind, udp: nsUnderlay(i), claims: -1, poses: -1}
		sp.versions = verChoices[rapid.IntRange(0, len(verChoices)-1).Draw(rt, name+".versions")]
		sp.nets = []netip.Prefix{nsOverlayAddr(i)}
		if o.v6 && slices.Contains(sp.versions, cert.Version2) && rapid.IntRange(0, 2).Draw(rt, name+".v6") == 0 {
			// (a dual-certificate identity then has a v1 certificate for the IPv4 network only and a v2
			// certificate for both: its own addresses are the union)
			sp.nets = append(sp.nets, nsOverlayAddr6(i))
		}
		if o.multinet && sp.versions[0] == cert.Version2 && len(sp.versions) == 1 && rapid.IntRange(0, 2).Draw(rt, name+".multinet") == 0 {
			// the node's primary network is one the others are not part of; the shared network comes second
			private := netip.PrefixFrom(netip.AddrFrom4([4]byte{10, byte(100 + i), 0, byte(200 - i)}), 24)
			sp.nets = append([]netip.Prefix{private}, sp.nets...)
		}
		w.specs = append(w.specs, sp)
		return sp
	}
	if o.lighthouse >= 1 || (o.lighthouse > 0 && rapid.Float64Range(0, 1).Draw(rt, "hasLH") < o.lighthouse) {
		w.lhIdx = len(w.specs)
		add("lh", nsLighthouse, nsHonest)
	}
	if o.relay >= 1 || (o.relay > 0 && rapid.Float64Range(0, 1).Draw(rt, "hasRelay") < o.relay) {
		w.relayIdx = len(w.specs)
		add("relay", nsRelay, nsHonest)
	}
	nh := rapid.IntRange(o.minHosts, o.maxHosts).Draw(rt, "hosts")
	firstHost := len(w.specs)
	for h := 0; h < nh; h++ {
		kind := nsHonest
		if o.evil && h >= 1 && rapid.IntRange(0, 9).Draw(rt, fmt.Sprintf("h%d.evil", h)) < 6 {
			kind = rapid.SampledFrom([]nsKind{nsAddrThief, nsAddrThief, nsSelfClaim, nsSelfClaim, nsUntrusted, nsExpired, nsBlocklisted}).Draw(rt, fmt.Sprintf("h%d.kind", h))
		}
		sp := add(fmt.Sprintf("h%d", h), nsHost, kind)
		switch kind {
		case nsSelfClaim:
			// claims the address of an earlier host
			sp.claims = firstHost + rapid.IntRange(0, h-1).Draw(rt, "claims")
			vn := w.specs[sp.claims].nets
			victim := vn[rapid.IntRange(0, len(vn)-1).Draw(rt, "claimsNet")]
			sp.claimed = victim
			if rapid.Bool().Draw(rt, "claimOnly") {
				sp.nets = []netip.Prefix{victim}
			} else {
				sp.nets = []netip.Prefix{sp.nets[0], victim}
			}
			sp.versions = []cert.Version{cert.Version2}
		case nsAddrThief:
			sp.poses = firstHost + rapid.IntRange(0, h-1).Draw(rt, "poses")
		}
	}

	// identities
	idents := make([]*nsIdent, len(w.specs))
	for i, sp := range w.specs {
		ca := w.cas[0]
		before, after := now.Add(-time.Hour), now.Add(500*time.Hour)
		switch sp.kind {
		case nsUntrusted:
			ca = w.cas[1]
		case nsExpired:
			// valid when the node starts, expires a few (virtual) seconds into the history
			before, after = now.Add(-10*time.Hour), now.Add(time.Duration(rapid.SampledFrom([]int{2, 8, 25}).Draw(rt, sp.name+".expiresIn"))*time.Second)
		}
		sp.notAfter = time.Unix(after.Unix(), 0)
		var unsafeNets []netip.Prefix
		if sp.kind == nsAddrThief && rapid.Bool().Draw(rt, sp.name+".unsafeCoversVictim") {
			// the wrong responder is also certified for an unsafe network that covers the address it is
			// mistaken for (routing for an address is not being that address)
			v := w.specs[sp.poses].nets[0]
			if rapid.Bool().Draw(rt, sp.name+".unsafeHostRoute") {
				unsafeNets = []netip.Prefix{netip.PrefixFrom(v.Addr(), v.Addr().BitLen())}
			} else {
				unsafeNets = []netip.Prefix{v.Masked()}
			}
			// an unsafe network needs an assigned address of its family in the same certificate
			sameFamily := false
			for _, n := range sp.nets {
				sameFamily = sameFamily || n.Addr().Is4() == v.Addr().Is4()
			}
			if !sameFamily || (v.Addr().Is6() && !slices.Contains(sp.versions, cert.Version2)) {
				unsafeNets = nil
			}
			sp.unsafe = unsafeNets
		}
		idents[i] = nsNewIdent(ca, sp.name, sp.versions, sp.nets, unsafeNets, []string{"g" + sp.name}, before, after)
		for _, c := range idents[i].certs {
			fp, _ := c.Fingerprint()
			w.byFP[fp] = i
			if sp.kind == nsBlocklisted {
				w.blockFP = append(w.blockFP, fp)
			}
		}
	}

	// configuration
	for i, sp := range w.specs {
		cfg := nsM{}
		shm := nsM{}
		if w.lhIdx >= 0 && i != w.lhIdx {
			lh := w.specs[w.lhIdx]
			shm[lh.nets[0].Addr().String()] = []string{lh.udp.String()}
			cfg["lighthouse"] = nsM{"hosts": []string{lh.nets[0].Addr().String()}, "interval": 5}
		}
		if sp.role == nsLighthouse {
			cfg["lighthouse"] = nsM{"am_lighthouse": true}
		}
		rel := nsM{"use_relays": true}
		if sp.role == nsRelay || (sp.role == nsLighthouse && w.relayIdx < 0) {
			rel["am_relay"] = true
		}
		if w.relayIdx >= 0 && i != w.relayIdx && sp.role == nsHost {
			rel["relays"] = []string{w.specs[w.relayIdx].nets[0].Addr().String()}
			shm[w.specs[w.relayIdx].nets[0].Addr().String()] = []string{w.specs[w.relayIdx].udp.String()}
		}
		cfg["relay"] = rel
		for j, other := range w.specs {
			if j == i || other.role != nsHost && sp.role != nsHost {
				continue
			}
			known := o.staticAll || w.lhIdx < 0 || rapid.IntRange(0, 2).Draw(rt, fmt.Sprintf("static.%d.%d", i, j)) == 0
			if !known {
				continue
			}
			target := other.udp
			// a wrong responder sits where this node expects `poses`
			for _, thief := range w.specs {
				if thief.kind == nsAddrThief && thief.poses == j && thief != sp {
					target = thief.udp
				}
			}
			for _, n := range other.nets {
				if other.kind == nsSelfClaim && other.claims == i && n == other.claimed {
					// the victim does not map its own address
					continue
				}
				if _, dup := shm[n.Addr().String()]; !dup {
					shm[n.Addr().String()] = []string{target.String()}
				}
			}
		}
		if len(shm) > 0 {
			cfg["static_host_map"] = shm
		}
		if len(w.blockFP) > 0 && sp.kind != nsBlocklisted {
			cfg["pki"] = nsM{"blocklist": append([]string{}, w.blockFP...)}
		}
		if len(sp.versions) == 2 && sp.versions[0] == cert.Version2 {
			// a node holding both certificate versions initiates with v1 unless configured otherwise:
			// listing v2 first stands for pki.initiating_version: 2
			pk, _ := cfg["pki"].(nsM)
			if pk == nil {
				pk = nsM{}
				cfg["pki"] = pk
			}
			pk["initiating_version"] = 2
		}
		if o.cipher != "" {
			cfg["cipher"] = o.cipher
		}
		if o.extra != nil {
			o.extra(sp, cfg)
		}
		pool := w.cas[:1]
		if sp.kind == nsUntrusted {
			// this node trusts only its own CA, which nobody else trusts
			pool = w.cas[1:]
		}
		n, err := s.addNode(pool, idents[i], sp.udp, cfg)
		if err != nil {
			if sp.kind == nsExpired {
				// a node may refuse to start with an expired certificate: keep the slot, never started
				w.nodes = append(w.nodes, nil)
				continue
			}
			rt.Fatalf("building node %s (%v): %v", sp.name, sp.kind, err)
		}
		if sp.kind == nsSelfClaim {
			// The claimant is adversary-controlled: unlike an honest node it does not refuse to talk to
			// the node whose address its certificate lists (it pretends not to own that address), so
			// the victim's own initiator-side refusal is what is exercised.
			tbl := new(bart.Lite)
			for _, p := range sp.nets {
				if p != sp.claimed {
					tbl.Insert(netip.PrefixFrom(p.Addr(), p.Addr().BitLen()))
				}
			}
			n.ctrl.f.myVpnAddrsTable = tbl
		}
		w.nodes = append(w.nodes, n)
	}
	w.tunSeen = make([]int, len(w.nodes))
	// partitions: block direct paths between host pairs and tell both ends about the relay (what a
	// lighthouse answer would carry), so that relayed tunnels actually occur
	if w.relayIdx >= 0 && o.partition > 0 {
		hosts := []int{}
		for i, sp := range w.specs {
			if sp.role == nsHost && w.nodes[i] != nil {
				hosts = append(hosts, i)
			}
		}
		ra := w.specs[w.relayIdx].nets[0].Addr()
		for ai := 0; ai < len(hosts); ai++ {
			for bi := ai + 1; bi < len(hosts); bi++ {
				if rapid.Float64Range(0, 1).Draw(rt, fmt.Sprintf("block.%d.%d", ai, bi)) < o.partition {
					a, b := hosts[ai], hosts[bi]
					s.block(w.nodes[a].idx, w.nodes[b].idx)
					w.partitioned = append(w.partitioned, [2]int{a, b})
					for _, n := range w.specs[b].nets {
						w.nodes[a].ctrl.InjectRelays(n.Addr(), []netip.Addr{ra})
					}
					for _, n := range w.specs[a].nets {
						w.nodes[b].ctrl.InjectRelays(n.Addr(), []netip.Addr{ra})
					}
				}
			}
		}
	}
	return w
}

// addGhost adds an honest identity of the world's CA that no node runs: the harness plays it with
// handshake Machines of its own (production credentials from newCertState), which lets it choose
// what a real node never lets anybody choose, e.g. its tunnel index. Returns the spec index.
func (w *nsWorld) addGhost(rt *rapid.T) (int, *CertState) {
	gi := len(w.specs)
	now := time.Now()
	sp := &nsNodeSpec{name: "ghost", role: nsHost, kind: nsHonest, udp: nsUnderlay(gi), claims: -1, poses: -1,
		versions: []cert.Version{cert.Version2}, nets: []netip.Prefix{nsOverlayAddr(gi)}}
	id := nsNewIdent(w.cas[0], sp.name, sp.versions, sp.nets, nil, []string{"gghost"}, now.Add(-time.Hour), now.Add(500*time.Hour))
	for _, c := range id.certs {
		fp, _ := c.Fingerprint()
		w.byFP[fp] = gi
	}
	raw, _, curve, err := cert.UnmarshalPrivateKeyFromPEM([]byte(id.keyPEM))
	if err != nil {
		rt.Fatalf("harness: ghost key: %v", err)
	}
	cs, err := newCertState(cert.Version2, nil, id.certs[0], false, curve, raw, "aes")
	if err != nil {
		rt.Fatalf("harness: ghost cert state: %v", err)
	}
	w.specs = append(w.specs, sp)
	w.nodes = append(w.nodes, nil)
	w.tunSeen = append(w.tunSeen, 0)
	return gi, cs
}

func (w *nsWorld) startAll(rt *rapid.T) {
	for _, n := range w.nodes {
		if n == nil {
			continue
		}
		if err := w.s.startNode(n); err != nil {
			rt.Fatalf("start %s: %v", n.name, err)
		}
	}
	w.s.settle()
}

func (w *nsWorld) live(i int) bool {
	return i >= 0 && i < len(w.nodes) && w.nodes[i] != nil && w.nodes[i].started && !w.nodes[i].stopped
}

func (w *nsWorld) honestHosts() []int {
	var r []int
	for i, sp := range w.specs {
		if sp.role == nsHost && sp.kind == nsHonest && w.nodes[i] != nil {
			r = append(r, i)
		}
	}
	return r
}

// sendTagged injects a uniquely tagged UDP packet at node src's tun towards an address of dst.
func (w *nsWorld) sendTagged(src, dst int, dstAddr netip.Addr, size int) *nsInjected {
	w.nextTag++
	tag := fmt.Sprintf("VERIFTAG-%06d-%d-%d|", w.nextTag, src, dst)
	payload := []byte(tag)
	for len(payload) < size {
		payload = append(payload, byte('a'+len(payload)%23))
	}
	var srcAddr netip.Addr
	for _, a := range w.nodes[src].id.addrs() {
		if a.Is4() == dstAddr.Is4() {
			srcAddr = a
		}
	}
	for _, n := range w.nodes[src].id.nets {
		if n.Masked().Contains(dstAddr) {
			srcAddr = n.Addr()
		}
	}
	if !srcAddr.IsValid() {
		return nil
	}
	pkt := nsUDP(srcAddr, dstAddr, uint16(10000+w.nextTag%5000), 7777, payload)
	rec := &nsInjected{tag: tag, src: src, dst: dst, dstAddr: dstAddr, pkt: pkt, sent: 1}
	w.injected[tag] = rec
	w.s.injectTun(w.nodes[src], pkt)
	return rec
}

func nsTagOf(pkt []byte) string {
	i := bytes.Index(pkt, []byte("VERIFTAG-"))
	if i < 0 {
		return ""
	}
	j := bytes.IndexByte(pkt[i:], '|')
	if j < 0 {
		return ""
	}
	return string(pkt[i : i+j+1])
}

// checkTun accounts for everything the nodes wrote to their tun devices since the last call:
// every delivery must be a byte-identical copy of a packet injected at the peer for this node,
// and no injection is delivered more often than it was injected.
func (w *nsWorld) checkTun(rt *rapid.T) (delivered int) {
	for i, n := range w.nodes {
		if n == nil {
			continue
		}
		outs := w.s.tunOutSince(n, w.tunSeen[i])
		w.tunSeen[i] += len(outs)
		for _, b := range outs {
			tag := nsTagOf(b)
			if tag == "" {
				// nebula itself may answer with ICMP/TCP rejects only when configured; nothing else is expected
				rt.Fatalf("node %s delivered an unknown packet to its tun: %x", n.name, b)
			}
			rec := w.injected[tag]
			if rec == nil {
				rt.Fatalf("node %s delivered a packet with unknown tag %q", n.name, tag)
			}
			certified := false
			for _, a := range n.id.addrs() {
				if a == rec.dstAddr {
					certified = true
				}
			}
			if !certified {
				rt.Fatalf("node %s delivered packet %q that was addressed to %v (node %d), an address it is not certified for", n.name, tag, rec.dstAddr, rec.dst)
			}
			if !bytes.Equal(rec.pkt, b) {
				rt.Fatalf("node %s delivered an altered packet %q:\n got %x\nwant %x", n.name, tag, b, rec.pkt)
			}
			rec.delivered++
			if rec.delivered > rec.sent {
				rt.Fatalf("node %s delivered packet %q %d times (injected %d times)", n.name, tag, rec.delivered, rec.sent)
			}
			delivered++
		}
	}
	return
}

// trusted reports whether identity i is acceptable to honest nodes right now.
func (w *nsWorld) trusted(i int) bool {
	switch w.specs[i].kind {
	case nsUntrusted, nsBlocklisted:
		return false
	case nsExpired:
		// one second of slack: the check runs at the end of a step, and the fair phase advances
		// virtual time in 100 ms steps between deliveries
		return !time.Now().After(w.specs[i].notAfter.Add(time.Second))
	}
	return true
}

// checkHostmaps verifies the C09/C05 binding invariants on every live node. It returns the number
// of tunnels inspected and how many of them appeared since the previous call.
func (w *nsWorld) checkHostmaps(rt *rapid.T) (tunnels, fresh int) {
	for xi, x := range w.nodes {
		if !w.live(xi) {
			continue
		}
		hm := x.ctrl.f.hostMap
		hm.RLock()
		own := map[netip.Addr]bool{}
		for _, a := range w.ownAddrs(xi) {
			own[a] = true
		}
		seenHI := map[*HostInfo]bool{}
		for a, head := range hm.Hosts {
			list := []*HostInfo{head}
			if l, ok := hm.moreHosts[a]; ok {
				list = l
				if len(l) == 0 || l[0] != head {
					hm.RUnlock()
					rt.Fatalf("node %s: primary for %v does not head its tunnel list", x.name, a)
				}
			}
			if own[a] {
				hm.RUnlock()
				rt.Fatalf("node %s holds a tunnel to its own address %v", x.name, a)
			}
			if len(list) > 5 {
				hm.RUnlock()
				rt.Fatalf("node %s holds %d tunnels for %v", x.name, len(list), a)
			}
			for _, h := range list {
				seenHI[h] = true
				if msg := w.checkTunnelBinding(xi, a, h); msg != "" {
					hm.RUnlock()
					rt.Fatalf("node %s, address %v: %s", x.name, a, msg)
				}
				if hm.Indexes[h.localIndexId] != h {
					hm.RUnlock()
					rt.Fatalf("node %s: tunnel for %v (index %d) is not in the index table", x.name, a, h.localIndexId)
				}
			}
		}
		for idx, h := range hm.Indexes {
			if idx == 0 {
				hm.RUnlock()
				rt.Fatalf("node %s holds local index 0", x.name)
			}
			if !seenHI[h] {
				hm.RUnlock()
				rt.Fatalf("node %s: index %d points to a tunnel that no overlay address maps to (%v)", x.name, idx, h.vpnAddrs)
			}
			tunnels++
			// attribution of the underlay address: a tunnel's current remote is where its authenticated
			// peer (or an off-path forwarder of its genuine packets) sent from - never the underlay
			// address of a different node of the world, such as the relay that carried its handshake
			if r := h.GetRemote(); r.IsValid() && h.ConnectionState != nil && h.ConnectionState.peerCert != nil {
				if pi, ok := w.byFP[h.ConnectionState.peerCert.Fingerprint]; ok {
					for j, sp := range w.specs {
						if j != pi && sp.udp == r && w.specs[pi].udp != r {
							hm.RUnlock()
							rt.Fatalf("node %s: the tunnel authenticated as %s (index %d) has the underlay address %v of node %s as its remote", x.name, w.specs[pi].name, idx, r, sp.name)
						}
					}
				}
			}
			if !w.known[h] {
				w.known[h] = true
				fresh++
				// (C05a) acceptance at completion time
				pi, ok := w.byFP[h.ConnectionState.peerCert.Fingerprint]
				if !ok {
					hm.RUnlock()
					rt.Fatalf("node %s completed a handshake with an unknown certificate %s", x.name, h.ConnectionState.peerCert.Fingerprint)
				}
				if !w.accepts(xi, pi) {
					hm.RUnlock()
					rt.Fatalf("node %s (%v) completed a handshake with %s whose certificate is %v and must not be accepted by it", x.name, w.specs[xi].kind, w.specs[pi].name, w.specs[pi].kind)
				}
			}
		}
		hm.RUnlock()
	}
	return
}

// accepts is the ground-truth trust rule of the generated world: would node xi's configuration accept
// identity pi right now? (which CA it trusts, whether it carries the blocklist, validity window)
func (w *nsWorld) accepts(xi, pi int) bool {
	x, p := w.specs[xi], w.specs[pi]
	if w.dynBlock[xi][pi] {
		return false
	}
	if x.kind == nsUntrusted {
		return p.kind == nsUntrusted // trusts only CA#1
	}
	if p.kind == nsUntrusted {
		return false
	}
	if p.kind == nsBlocklisted && x.kind != nsBlocklisted {
		return false // everyone but the blocklisted nodes themselves carries the blocklist
	}
	if p.kind == nsExpired {
		return !time.Now().After(p.notAfter.Add(time.Second))
	}
	return true
}

// ownAddrs lists the addresses node i treats as its own. For the adversarial own-address claimant
// that excludes the claimed address (it deliberately talks to the victim).
func (w *nsWorld) ownAddrs(i int) []netip.Addr {
	var r []netip.Addr
	for _, p := range w.specs[i].nets {
		if w.specs[i].kind == nsSelfClaim && p == w.specs[i].claimed {
			continue
		}
		r = append(r, p.Addr())
	}
	return r
}

func (w *nsWorld) checkTunnelBinding(xi int, a netip.Addr, h *HostInfo) string {
	if h.ConnectionState == nil {
		return "tunnel without a completed handshake (no connection state)"
	}
	pc := h.ConnectionState.peerCert
	if pc == nil || pc.Certificate == nil {
		return "tunnel without a peer certificate"
	}
	nets := pc.Certificate.Networks()
	lists := false
	if len(nets) != len(h.vpnAddrs) {
		return fmt.Sprintf("recorded peer addresses %v differ from the certificate's %v", h.vpnAddrs, nets)
	}
	for i, n := range nets {
		if h.vpnAddrs[i] != n.Addr() {
			return fmt.Sprintf("recorded peer addresses %v differ from the certificate's %v", h.vpnAddrs, nets)
		}
		if n.Addr() == a {
			lists = true
		}
		for _, o := range w.ownAddrs(xi) {
			if o == n.Addr() {
				return fmt.Sprintf("tunnel whose certificate lists this node's own address %v", o)
			}
		}
	}
	if !lists {
		return fmt.Sprintf("tunnel used for %v but its certificate lists only %v", a, nets)
	}
	return ""
}

// checkPending verifies that the two halves of every pending handshake's state go together: an
// index entry always has its address entry and the other way round (once an index is allocated).
func (w *nsWorld) checkPending(rt *rapid.T) {
	for i, x := range w.nodes {
		if !w.live(i) {
			continue
		}
		hs := x.ctrl.f.handshakeManager
		hs.RLock()
		for idx, hh := range hs.indexes {
			if idx == 0 {
				hs.RUnlock()
				rt.Fatalf("node %s: pending handshake under index 0", x.name)
			}
			owned := false
			for _, cur := range hs.vpnIps {
				if cur == hh {
					owned = true
				}
			}
			if !owned {
				hs.RUnlock()
				rt.Fatalf("node %s: pending index %d (handshake for %v) has no address entry any more: it can never be retried, completed or abandoned", x.name, idx, hh.hostinfo.vpnAddrs)
			}
		}
		for a, hh := range hs.vpnIps {
			if id := hh.hostinfo.localIndexId; id != 0 && hs.indexes[id] != hh {
				hs.RUnlock()
				rt.Fatalf("node %s: pending handshake for %v lost its index entry %d", x.name, a, id)
			}
		}
		hs.RUnlock()
	}
}

// keyProbe reports whether ciphertext produced by enc's sending key opens with dec's receiving key.
func nsKeysPair(enc, dec *HostInfo) bool {
	if enc.ConnectionState == nil || dec.ConnectionState == nil {
		return false
	}
	const n = uint64(1) << 50
	ad := []byte("verif-key-probe!")
	nb := make([]byte, 12)
	ct, err := enc.ConnectionState.eKey.EncryptDanger(nil, ad, []byte("probe"), n, nb)
	if err != nil {
		return false
	}
	pt, err := dec.ConnectionState.dKey.DecryptDanger(nil, ad, ct, n, make([]byte, 12))
	return err == nil && string(pt) == "probe"
}

func (n *nsNode) allTunnels() []*HostInfo {
	hm := n.ctrl.f.hostMap
	hm.RLock()
	defer hm.RUnlock()
	var r []*HostInfo
	for _, h := range hm.Indexes {
		r = append(r, h)
	}
	sort.Slice(r, func(i, j int) bool { return r[i].localIndexId < r[j].localIndexId })
	return r
}

// checkKeyOwnership (C05c): a tunnel that node X attributes to identity Y never shares keys with a
// tunnel held by any node other than Y.
func (w *nsWorld) checkKeyOwnership(rt *rapid.T) (pairs int) {
	type tun struct {
		node int
		h    *HostInfo
	}
	var all []tun
	for i := range w.nodes {
		if !w.live(i) {
			continue
		}
		for _, h := range w.nodes[i].allTunnels() {
			all = append(all, tun{i, h})
		}
	}
	for _, a := range all {
		owner, ok := w.byFP[a.h.ConnectionState.peerCert.Fingerprint]
		if !ok {
			continue
		}
		for _, b := range all {
			if a.h == b.h {
				continue
			}
			if nsKeysPair(a.h, b.h) || nsKeysPair(b.h, a.h) {
				pairs++
				if b.node != owner {
					rt.Fatalf("node %s attributes tunnel %d to %s, but its keys pair with tunnel %d held by node %s",
						w.nodes[a.node].name, a.h.localIndexId, w.specs[owner].name, b.h.localIndexId, w.nodes[b.node].name)
				}
			}
		}
	}
	return
}

// checkUDPDestinations (C36, wire level): nothing is ever sent to an underlay address inside the
// sender's own overlay networks.
func (w *nsWorld) checkUDPDestinations(rt *rapid.T, extra func(src *nsNode, p *nsPacket) string) int {
	w.s.mu.Lock()
	hist := w.s.history[w.udpSeen:]
	w.udpSeen = len(w.s.history)
	w.s.mu.Unlock()
	for _, p := range hist {
		if p.Src < 0 || p.Src >= len(w.s.nodes) {
			continue
		}
		src := w.s.nodes[p.Src]
		for _, n := range src.id.nets {
			if n.Masked().Contains(p.To.Addr()) {
				rt.Fatalf("node %s sent %v to an underlay address inside its own overlay network %v", src.name, p, n)
			}
		}
		if extra == nil {
			extra = w.udpExtra
		}
		if extra != nil {
			if msg := extra(src, p); msg != "" {
				rt.Fatalf("node %s sent %v: %s", src.name, p, msg)
			}
		}
	}
	return len(hist)
}

// digest is a canonical description of all node state that an unauthenticated packet must not
// change (C14).
func (n *nsNode) digest() string {
	var b strings.Builder
	f := n.ctrl.f
	hm := f.hostMap
	hm.RLock()
	idxs := make([]uint32, 0, len(hm.Indexes))
	for i := range hm.Indexes {
		idxs = append(idxs, i)
	}
	sort.Slice(idxs, func(i, j int) bool { return idxs[i] < idxs[j] })
	for _, i := range idxs {
		h := hm.Indexes[i]
		fmt.Fprintf(&b, "T %d/%d %v remote=%v roam=%v/%v in=%v out=%v pd=%v", h.localIndexId, h.remoteIndexId, h.vpnAddrs, h.GetRemote(),
			h.lastRoam.UnixNano(), h.lastRoamRemote, h.in.Load(), h.out.Load(), h.pendingDeletion.Load())
		if cs := h.ConnectionState; cs != nil {
			cs.decryptLock.Lock()
			var acc uint64
			for k, word := range cs.window.bits {
				acc = acc*1099511628211 + word + uint64(k)
			}
			fmt.Fprintf(&b, " ctr=%d win=%d/%x", cs.messageCounter.Load(), cs.window.current, acc)
			cs.decryptLock.Unlock()
		}
		h.relayState.RLock()
		fmt.Fprintf(&b, " relays=%v", h.relayState.relays)
		var ri []uint32
		for k := range h.relayState.relayForByIdx {
			ri = append(ri, k)
		}
		sort.Slice(ri, func(i, j int) bool { return ri[i] < ri[j] })
		for _, k := range ri {
			r := h.relayState.relayForByIdx[k]
			fmt.Fprintf(&b, " R[%d:%d t%d s%d %v]", r.LocalIndex, r.RemoteIndex, r.Type, r.State, r.PeerAddr)
		}
		h.relayState.RUnlock()
		b.WriteString("\n")
	}
	var addrs []netip.Addr
	for a := range hm.Hosts {
		addrs = append(addrs, a)
	}
	sort.Slice(addrs, func(i, j int) bool { return addrs[i].Less(addrs[j]) })
	for _, a := range addrs {
		fmt.Fprintf(&b, "H %v -> %d", a, hm.Hosts[a].localIndexId)
		for _, h := range hm.moreHosts[a] {
			fmt.Fprintf(&b, ",%d", h.localIndexId)
		}
		b.WriteString("\n")
	}
	var rel []uint32
	for k := range hm.Relays {
		rel = append(rel, k)
	}
	sort.Slice(rel, func(i, j int) bool { return rel[i] < rel[j] })
	fmt.Fprintf(&b, "RelayIdx %v\n", rel)
	hm.RUnlock()

	hs := f.handshakeManager
	hs.RLock()
	var pend []string
	for a, hh := range hs.vpnIps {
		pend = append(pend, fmt.Sprintf("%v:%d:c%d", a, hh.hostinfo.localIndexId, hh.counter))
	}
	sort.Strings(pend)
	hs.RUnlock()
	fmt.Fprintf(&b, "Pending %v\n", pend)

	lh := f.lightHouse
	lh.RLock()
	var keys []netip.Addr
	for a := range lh.addrMap {
		keys = append(keys, a)
	}
	sort.Slice(keys, func(i, j int) bool { return keys[i].Less(keys[j]) })
	for _, a := range keys {
		rl := lh.addrMap[a]
		cj, _ := json.Marshal(rl.CopyCache())
		fmt.Fprintf(&b, "LH %v cache=%s blocked=%v\n", a, cj, rl.CopyBlockedRemotes())
	}
	lh.RUnlock()
	return b.String()
}

func nsDiff(a, b string) string {
	al, bl := strings.Split(a, "\n"), strings.Split(b, "\n")
	var out []string
	am := map[string]bool{}
	for _, l := range al {
		am[l] = true
	}
	bm := map[string]bool{}
	for _, l := range bl {
		bm[l] = true
	}
	for _, l := range al {
		if !bm[l] {
			out = append(out, "- "+l)
		}
	}
	for _, l := range bl {
		if !am[l] {
			out = append(out, "+ "+l)
		}
	}
	return strings.Join(out, "\n")
}

// nsHeaderOf parses the nebula header of a datagram.
func nsHeaderOf(b []byte) (h header.H, ok bool) {
	return h, h.Parse(b) == nil
}

func nsSetHeader(b []byte, typ header.MessageType, sub header.MessageSubType, idx uint32, ctr uint64) {
	b[0] = header.Version<<4 | byte(typ&0x0f)
	b[1] = byte(sub)
	binary.BigEndian.PutUint32(b[4:8], idx)
	binary.BigEndian.PutUint64(b[8:16], ctr)
}

// commonAddr returns an address of node dst that lies inside one of node src's overlay networks
// (what src can actually route to); falls back to dst's first address.
func (w *nsWorld) commonAddr(src, dst int) netip.Addr {
	for _, d := range w.specs[dst].nets {
		for _, sn := range w.specs[src].nets {
			if sn.Masked().Contains(d.Addr()) {
				return d.Addr()
			}
		}
	}
	return w.specs[dst].nets[0].Addr()
}

func (w *nsWorld) describe() string {
	var parts []string
	for i, sp := range w.specs {
		st := "up"
		if w.nodes[i] == nil {
			st = "not-built"
		}
		parts = append(parts, fmt.Sprintf("%s{%v nets=%v v=%v udp=%v claims=%d poses=%d %s}", sp.name, sp.kind, sp.nets, sp.versions, sp.udp, sp.claims, sp.poses, st))
	}
	return strings.Join(parts, " ") + fmt.Sprintf(" partitions=%v blocklist=%d fps", w.partitioned, len(w.blockFP))
}
