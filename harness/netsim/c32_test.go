//go:build e2e_testing

package nebula

import (
	"bytes"
	"errors"
	"fmt"
	"github.com/slackhq/nebula/udp"
	"net/netip"
	"strings"
	"testing"
	"time"

	"github.com/slackhq/nebula/header"
	"pgregory.net/rapid"
	"verifkit/vk"
)

// C32 - pending handshakes retry, give up, and release queued packets correctly (DESIGN.md section 4).
//
// Node a statically knows b and starts a handshake because packets are written to its tun; the
// network drops a's first handshake messages until attempt k (k beyond the retry budget = the peer
// is never reachable). try_interval, retries, the number of queued packets (0..150, several
// protocols and ports) and a's outbound firewall rules are generated.
//
// Oracle: the first messages seen on the wire: exactly `retries` of them when never answered, the
// gap before the j-th retransmission within [j*interval, j*interval + 2 ticks] (timer wheel
// tolerance, C33), afterwards no pending state; on completion at attempt k the tun output of b is
// exactly the first min(n,100) queued packets that a's outbound rules allow (independent flat
// evaluation of the generated rules), each once, in order; no data packet leaves a before
// completion or after giving up.
type c32Rule struct {
	proto    string // any, tcp, udp
	lo, hi   int    // 0,0 = any
	fragment bool
}

func (r c32Rule) cfg() nsM {
	port := "any"
	if r.lo != 0 || r.hi != 0 {
		if r.lo == r.hi {
			port = fmt.Sprint(r.lo)
		} else {
			port = fmt.Sprintf("%d-%d", r.lo, r.hi)
		}
	}
	return nsM{"proto": r.proto, "port": port, "host": "any"}
}

func (r c32Rule) allows(proto string, dport int) bool {
	if r.proto != "any" && r.proto != proto {
		return false
	}
	if r.lo == 0 && r.hi == 0 {
		return true
	}
	return dport >= r.lo && dport <= r.hi
}

// nsTCP4 builds a minimal IPv4/TCP segment.
func nsTCP4(src, dst netip.Addr, sport, dport uint16, payload []byte) []byte {
	b := make([]byte, 40+len(payload))
	b[0] = 0x45
	tl := len(b)
	b[2], b[3] = byte(tl>>8), byte(tl)
	b[8] = 64
	b[9] = 6
	s4, d4 := src.As4(), dst.As4()
	copy(b[12:16], s4[:])
	copy(b[16:20], d4[:])
	b[20], b[21] = byte(sport>>8), byte(sport)
	b[22], b[23] = byte(dport>>8), byte(dport)
	b[32] = 5 << 4
	b[33] = 0x18
	copy(b[40:], payload)
	return b
}

func TestC32_PendingHandshake(t *testing.T) {
	nsSetT(t)
	vk.Check(t, 1000, func(rt *rapid.T) {
		interval := time.Duration(rapid.SampledFrom([]int{10, 25, 100, 250, 1000, 2000}).Draw(rt, "intervalMs")) * time.Millisecond
		retries := rapid.IntRange(1, 12).Draw(rt, "retries")
		answerAt := rapid.IntRange(1, retries+2).Draw(rt, "answerAt") // > retries: never answered
		nq := rapid.SampledFrom([]int{0, 1, 3, 17, 60, 99, 100, 101, 130, 150}).Draw(rt, "queued")
		nrules := rapid.IntRange(0, 3).Draw(rt, "nrules")
		var rules []c32Rule
		for i := 0; i < nrules; i++ {
			r := c32Rule{proto: rapid.SampledFrom([]string{"any", "tcp", "udp"}).Draw(rt, "proto")}
			switch rapid.IntRange(0, 2).Draw(rt, "portKind") {
			case 1:
				r.lo = rapid.SampledFrom([]int{53, 80, 443, 8080}).Draw(rt, "port")
				r.hi = r.lo
			case 2:
				r.lo = rapid.SampledFrom([]int{1, 80, 400}).Draw(rt, "lo")
				r.hi = r.lo + rapid.SampledFrom([]int{0, 1, 50, 8000}).Draw(rt, "span")
			}
			rules = append(rules, r)
		}
		if nrules == 0 {
			rules = []c32Rule{{proto: "any"}}
		}
		var label []string
		nsBubble(rt, func(rt *rapid.T, s *nsSim) {
			var out []nsM
			for _, r := range rules {
				out = append(out, r.cfg())
			}
			w := nsGenWorld(rt, s, nsWorldOpts{minHosts: 2, maxHosts: 2, staticAll: true, extra: func(sp *nsNodeSpec, cfg nsM) {
				if sp.name == "h0" {
					cfg["handshakes"] = nsM{"try_interval": interval.String(), "retries": retries}
					cfg["firewall"] = nsM{"outbound": out}
				}
			}})
			w.pid = "C32"
			h := &nsHist{rt: rt, w: w, delivered: map[int]map[int]bool{}, stats: map[string]int{}}
			w.startAll(rt)
			a, b := w.nodes[0], w.nodes[1]
			addrA, addrB := w.specs[0].nets[0].Addr(), w.specs[1].nets[0].Addr()

			// queue packets while the handshake is pending
			type q struct {
				pkt     []byte
				allowed bool
			}
			var queue []q
			for i := 0; i < nq; i++ {
				proto := rapid.SampledFrom([]string{"tcp", "udp"}).Draw(rt, "qproto")
				dport := rapid.SampledFrom([]int{53, 80, 81, 443, 450, 8080, 9000}).Draw(rt, "qport")
				payload := []byte(fmt.Sprintf("VERIFTAG-%06d-0-1|q%d", 100000+i, i))
				var pkt []byte
				if proto == "tcp" {
					pkt = nsTCP4(addrA, addrB, uint16(20000+i), uint16(dport), payload)
				} else {
					pkt = nsUDP4(addrA, addrB, uint16(20000+i), uint16(dport), payload)
				}
				ok := false
				for _, r := range rules {
					if r.allows(proto, dport) {
						ok = true
					}
				}
				queue = append(queue, q{pkt, ok})
				s.injectTun(a, pkt)
			}
			if nq == 0 {
				a.ctrl.CreateTunnel(addrB)
				s.settle()
			}

			var sendTimes []time.Duration
			completed := false
			attempt := 0
			// generous horizon: every wait at its upper tolerance, plus the final one that abandons
			deadline := time.Second
			for j := 1; j <= retries+1; j++ {
				deadline += time.Duration(j+2) * interval
			}
			step := interval / 4
			if step < time.Millisecond {
				step = time.Millisecond
			}
			dataBeforeCompletion := 0
			for el := time.Duration(0); el < deadline; el += step {
				s.settle()
				for _, p := range s.takeInflight() {
					hd, ok := nsHeaderOf(p.Data)
					if !ok {
						continue
					}
					if p.Src == a.idx && hd.Type == header.Handshake && hd.MessageCounter == 1 {
						attempt++
						sendTimes = append(sendTimes, p.At)
						if attempt >= answerAt && !completed {
							h.deliverPkt(p)
						}
						continue
					}
					if p.Src == a.idx && hd.Type == header.Message && !completed && a.pendingCount() > 0 && len(a.allTunnels()) == 0 {
						dataBeforeCompletion++
					}
					h.deliverPkt(p)
					if len(a.allTunnels()) > 0 {
						completed = true
					}
				}
				if len(a.allTunnels()) > 0 {
					completed = true
				}
				if completed {
					// only the first handshake session is judged; later re-handshakes (certificate version
					// upgrades, liveness) are other properties' business
					break
				}
				time.Sleep(step)
			}
			h.flush(30)
			if dataBeforeCompletion > 0 {
				rt.Fatalf("%d data packets left node a before its handshake completed", dataBeforeCompletion)
			}

			desc := fmt.Sprintf("interval=%v retries=%d answerAt=%d queued=%d rules=%v sendTimes=%v", interval, retries, answerAt, nq, rules, sendTimes)
			tick := interval
			// retransmission schedule
			limit := len(sendTimes)
			for j := 1; j < limit; j++ {
				gap := sendTimes[j] - sendTimes[j-1]
				lo, hi := time.Duration(j)*interval, time.Duration(j)*interval+2*tick
				if gap < lo || gap > hi {
					rt.Fatalf("gap before retransmission %d is %v, expected within [%v, %v] (linear back-off, two ticks tolerance)\n%s", j, gap, lo, hi, desc)
				}
			}
			if answerAt > retries {
				if len(sendTimes) != retries {
					rt.Fatalf("never answered: %d first handshake messages were sent, configured retries %d\n%s", len(sendTimes), retries, desc)
				}
				if a.pendingCount() != 0 {
					rt.Fatalf("the handshake was abandoned but pending state remains\n%s", desc)
				}
				hs := a.ctrl.f.handshakeManager
				hs.RLock()
				ni := len(hs.indexes)
				hs.RUnlock()
				if ni != 0 {
					rt.Fatalf("the handshake was abandoned but %d pending index(es) remain\n%s", ni, desc)
				}
				if got := s.tunOutLen(b); got != 0 {
					rt.Fatalf("peer never reachable but %d packets reached its tun\n%s", got, desc)
				}
				label = append(label, "gave-up")
			} else {
				if !completed {
					rt.Fatalf("the peer answered attempt %d of %d but the handshake never completed\n%s", answerAt, retries, desc)
				}
				if len(sendTimes) != answerAt {
					rt.Fatalf("%d first handshake messages were sent although attempt %d was answered\n%s", len(sendTimes), answerAt, desc)
				}
				var want [][]byte
				for i, qq := range queue {
					if i < 100 && qq.allowed {
						want = append(want, qq.pkt)
					}
				}
				got := s.tunOutSince(b, 0)
				if len(got) != len(want) {
					rt.Fatalf("peer tun received %d packets, expected %d (first min(n,100) queued packets the outbound rules allow)\n%s", len(got), len(want), desc)
				}
				for i := range want {
					if !bytes.Equal(got[i], want[i]) {
						rt.Fatalf("queued packet %d arrived out of order or altered: got tag %q want %q\n%s", i, nsTagOf(got[i]), nsTagOf(want[i]), desc)
					}
				}
				label = append(label, fmt.Sprintf("completed-at-attempt:%d", min(answerAt, 6)))
				if len(want) < min(nq, 100) {
					label = append(label, "queue-partly-filtered")
				}
				// second phase: a re-handshake is pending (the network lets none of its messages through)
				// while the established tunnel dies underneath it: the peer forgot the tunnel and answers
				// data with recv_error. The pending handshake must still run its course and be abandoned
				// with all of its state removed.
				if rapid.Bool().Draw(rt, "secondPhase") {
					b.ctrl.CloseTunnel(addrA, true)
					a.ctrl.ReHandshake(addrB)
					s.settle()
					s.injectTun(a, nsUDP4(addrA, addrB, 30000, 443, []byte("VERIFTAG-900000-0-1|after-peer-forgot")))
					attempts2 := 0
					for el := time.Duration(0); el < deadline+2*time.Second; el += step {
						s.settle()
						for _, p := range s.takeInflight() {
							hd, ok := nsHeaderOf(p.Data)
							if ok && p.Src == a.idx && hd.Type == header.Handshake && hd.MessageCounter == 1 {
								attempts2++
								continue // lost
							}
							if ok && p.Src == b.idx && hd.Type == header.Handshake {
								continue // b's own attempts are not the subject here
							}
							h.deliverPkt(p)
						}
						w.checkPending(rt)
						time.Sleep(step)
					}
					hs := a.ctrl.f.handshakeManager
					hs.RLock()
					np, ni := len(hs.vpnIps), len(hs.indexes)
					hs.RUnlock()
					if np != 0 || ni != 0 {
						rt.Fatalf("a re-handshake that was never answered left pending state behind after its retry budget (%d address entries, %d index entries, %d attempts seen)\n%s", np, ni, attempts2, desc)
					}
					label = append(label, "rehandshake-abandoned-after-recv-error")
				}
			}
			if nq > 100 {
				label = append(label, "queue-overflow")
			}
		})
		nontrivial := nq > 100 || (answerAt <= retries && answerAt >= 3) || contains(label, "queue-partly-filtered") || answerAt > retries
		vk.Case("C32", fmt.Sprintf("%v/%d/%d/%d/%v", interval, retries, answerAt, nq, rules), nontrivial, label...)
		if vk.WantSample("C32") {
			vk.Sample("C32", map[string]any{"try_interval": interval.String(), "retries": retries, "answer_at_attempt": answerAt, "queued": nq, "outbound_rules": fmt.Sprint(rules)})
		}
	})
}

// Lighthouse triggers. Node a statically knows b at an address the network never lets it reach, and
// asks the lighthouse as well. b has advertised one more address to the lighthouse, so the answer
// brings a remote a has not tried yet - and the network delivers that answer late, at a generated
// instant of the retry schedule, the gap after the last attempt included. A lighthouse answer may
// add a transmission round or burn one (both count as attempts upstream), so the exact schedule is
// not asserted here; what must hold for every delivery instant: the handshake is never transmitted
// in more rounds than handshakes.retries, and once the schedule has run out nothing is pending.
// c32FaultConn fails every handshake-manager write while *fail is set (the interface is down, the send
// buffer is full): a local, transient fault. The pending handshake must still run its schedule out.
type c32FaultConn struct {
	udp.Conn
	fail   *bool
	failed *int
}

func (c c32FaultConn) WriteTo(b []byte, addr netip.AddrPort) error {
	if *c.fail {
		*c.failed++
		return errors.New("verif: injected socket write fault")
	}
	return c.Conn.WriteTo(b, addr)
}

func TestC32_LighthouseTrigger(t *testing.T) {
	nsSetT(t)
	vk.Check(t, 400, func(rt *rapid.T) {
		interval := time.Duration(rapid.SampledFrom([]int{25, 100, 250, 1000}).Draw(rt, "intervalMs")) * time.Millisecond
		retries := rapid.IntRange(1, 8).Draw(rt, "retries")
		var labels []string
		rounds, lateReplies := 0, 0
		nsBubble(rt, func(rt *rapid.T, s *nsSim) {
			w := nsGenWorld(rt, s, nsWorldOpts{minHosts: 2, maxHosts: 2, lighthouse: 1, staticAll: true, extra: func(sp *nsNodeSpec, cfg nsM) {
				if sp.name == "h0" {
					cfg["handshakes"] = nsM{"try_interval": interval.String(), "retries": retries}
				}
			}})
			w.pid = "C32"
			h := &nsHist{rt: rt, w: w, delivered: map[int]map[int]bool{}, stats: map[string]int{}}
			var lh, a, b *nsNode
			var ai, bi int
			for i, sp := range w.specs {
				switch sp.name {
				case "lh":
					lh = w.nodes[i]
				case "h0":
					a, ai = w.nodes[i], i
				case "h1":
					b, bi = w.nodes[i], i
				}
			}
			if lh == nil || a == nil || b == nil {
				rt.Fatalf("harness: world without lh/h0/h1: %s", w.describe())
			}
			// b advertises its real address and one nobody listens on
			real, ghost := w.specs[bi].udp.Addr(), netip.AddrFrom4([4]byte{10, 0, 0, 199})
			b.ctrl.SetLocalAddrsFn(func(*LocalAllowList) []netip.Addr { return []netip.Addr{real, ghost} })
			w.startAll(rt)
			addrA, addrB := w.commonAddr(bi, ai), w.commonAddr(ai, bi)
			// a window of the retry schedule during which every write of a's handshake manager fails
			failing, failedWrites := false, 0
			hsm := a.ctrl.f.handshakeManager
			hsm.outside = c32FaultConn{Conn: hsm.outside, fail: &failing, failed: &failedWrites}
			faultFrom, faultLen := time.Duration(-1), time.Duration(0)
			if rapid.IntRange(0, 2).Draw(rt, "socketFault") == 0 {
				faultFrom = time.Duration(rapid.IntRange(0, retries*(retries+1)/2).Draw(rt, "faultFromTicks")) * interval
				faultLen = time.Duration(rapid.IntRange(1, 3).Draw(rt, "faultLenTicks")) * interval
			}
			// both hosts reach the lighthouse and b's report arrives there
			h.runFor(12*time.Second, 250*time.Millisecond)
			if len(lh.allTunnels()) < 2 {
				labels = append(labels, "lighthouse-not-reached")
				return
			}
			pre := len(a.allTunnels())
			s.injectTun(a, nsUDP(addrA, addrB, 20000, 443, []byte("VERIFTAG-100000-0-1|lh-trigger")))
			// total schedule: attempts at 0, i, i+2i, ... and the final expiry retries*interval after the last
			total := time.Duration(0)
			for j := 1; j <= retries; j++ {
				total += time.Duration(j) * interval
			}
			releaseAt := time.Duration(rapid.Float64Range(0, 1.05).Draw(rt, "releaseAt") * float64(total))
			if rapid.IntRange(0, 2).Draw(rt, "lastGap") == 0 {
				// inside the gap after the last attempt
				lastStart := total - time.Duration(retries)*interval
				releaseAt = lastStart + time.Duration(rapid.Float64Range(0.05, 0.95).Draw(rt, "lastGapAt")*float64(time.Duration(retries)*interval))
			}
			var held []*nsPacket
			released := false
			seenAt := map[time.Duration]bool{}
			step := interval / 4
			for el := time.Duration(0); el < total+time.Duration(retries+4)*interval+time.Second; el += step {
				failing = faultFrom >= 0 && el >= faultFrom && el < faultFrom+faultLen
				s.settle()
				if !released && el >= releaseAt {
					released = true
					for _, p := range held {
						h.deliverPkt(p)
					}
					lateReplies = len(held)
					held = nil
					s.settle()
				}
				for _, p := range s.takeInflight() {
					hd, ok := nsHeaderOf(p.Data)
					if !ok {
						continue
					}
					toB := p.To.Addr() == real || p.To.Addr() == ghost
					if p.Src == a.idx && toB {
						if hd.Type == header.Handshake && hd.MessageCounter == 1 {
							seenAt[p.At] = true
						}
						continue // the network never lets a reach b
					}
					if p.Src == b.idx && p.To == w.specs[ai].udp {
						continue // nor b reach a
					}
					if p.Src == lh.idx && p.To == w.specs[ai].udp && !released && hd.Type == header.LightHouse {
						held = append(held, p)
						continue
					}
					h.deliverPkt(p)
				}
				time.Sleep(step)
			}
			rounds = len(seenAt)
			desc := fmt.Sprintf("interval=%v retries=%d lighthouse answers (%d) released %v after the first attempt; rounds at %v\n%s", interval, retries, lateReplies, releaseAt, seenAt, w.describe())
			if len(a.allTunnels()) > pre {
				rt.Fatalf("harness: a reached b although the path is cut\n%s", desc)
			}
			if rounds > retries {
				rt.Fatalf("the first handshake message was transmitted in %d rounds, handshakes.retries is %d\n%s", rounds, retries, desc)
			}
			hs := a.ctrl.f.handshakeManager
			hs.RLock()
			_, stillPending := hs.vpnIps[addrB]
			hs.RUnlock()
			if stillPending {
				rt.Fatalf("the handshake to %v is still pending after its whole retry schedule\n%s", addrB, desc)
			}
			w.checkPending(rt)
			if failedWrites > 0 {
				labels = append(labels, "socket-write-fault-during-the-schedule")
			}
			if lateReplies > 0 {
				labels = append(labels, "lighthouse-answer-delivered-late")
				if releaseAt > total-time.Duration(retries)*interval {
					labels = append(labels, "lighthouse-answer-after-last-attempt")
				}
			}
			labels = append(labels, fmt.Sprintf("rounds-vs-retries:%d", rounds-retries))
		})
		vk.Case("C32", fmt.Sprintf("lh/%v/%d/%d/%d/%v", interval, retries, rounds, lateReplies, labels), (lateReplies > 0 && rounds > 0) || contains(labels, "socket-write-fault-during-the-schedule"), labels...)
	})
}

func contains(l []string, s string) bool {
	for _, x := range l {
		if x == s {
			return true
		}
	}
	return false
}

var _ = strings.Join
