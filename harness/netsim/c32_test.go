//go:build e2e_testing

package nebula

import (
	"bytes"
	"fmt"
	"net/netip"
	"strings"
	"testing"
	"time"

	"github.com/slackhq/nebula/header"
	"pgregory.net/rapid"
	"verifkit/vk"
)

// C32 - pending handshakes retry, give up, and release queued packets correctly (DESIGN.md section 4).
//
// Node a statically knows b and starts a handshake because packets are written to its tun; the
// network drops a's first handshake messages until attempt k (k beyond the retry budget = the peer
// is never reachable). try_interval, retries, the number of queued packets (0..150, several
// protocols and ports) and a's outbound firewall rules are generated.
//
// Oracle: the first messages seen on the wire: exactly `retries` of them when never answered, the
// gap before the j-th retransmission within [j*interval, j*interval + 2 ticks] (timer wheel
// tolerance, C33), afterwards no pending state; on completion at attempt k the tun output of b is
// exactly the first min(n,100) queued packets that a's outbound rules allow (independent flat
// evaluation of the generated rules), each once, in order; no data packet leaves a before
// completion or after giving up.
type c32Rule struct {
	proto    string // any, tcp, udp
	lo, hi   int    // 0,0 = any
	fragment bool
}

func (r c32Rule) cfg() nsM {
	port := "any"
	if r.lo != 0 || r.hi != 0 {
		if r.lo == r.hi {
			port = fmt.Sprint(r.lo)
		} else {
			port = fmt.Sprintf("%d-%d", r.lo, r.hi)
		}
	}
	return nsM{"proto": r.proto, "port": port, "host": "any"}
}

func (r c32Rule) allows(proto string, dport int) bool {
	if r.proto != "any" && r.proto != proto {
		return false
	}
	if r.lo == 0 && r.hi == 0 {
		return true
	}
	return dport >= r.lo && dport <= r.hi
}

// nsTCP4 builds a minimal IPv4/TCP segment.
func nsTCP4(src, dst netip.Addr, sport, dport uint16, payload []byte) []byte {
	b := make([]byte, 40+len(payload))
	b[0] = 0x45
	tl := len(b)
	b[2], b[3] = byte(tl>>8), byte(tl)
	b[8] = 64
	b[9] = 6
	s4, d4 := src.As4(), dst.As4()
	copy(b[12:16], s4[:])
	copy(b[16:20], d4[:])
	b[20], b[21] = byte(sport>>8), byte(sport)
	b[22], b[23] = byte(dport>>8), byte(dport)
	b[32] = 5 << 4
	b[33] = 0x18
	copy(b[40:], payload)
	return b
}

func TestC32_PendingHandshake(t *testing.T) {
	nsSetT(t)
	vk.Check(t, 1000, func(rt *rapid.T) {
		interval := time.Duration(rapid.SampledFrom([]int{10, 25, 100, 250, 1000, 2000}).Draw(rt, "intervalMs")) * time.Millisecond
		retries := rapid.IntRange(1, 12).Draw(rt, "retries")
		answerAt := rapid.IntRange(1, retries+2).Draw(rt, "answerAt") // > retries: never answered
		nq := rapid.SampledFrom([]int{0, 1, 3, 17, 60, 99, 100, 101, 130, 150}).Draw(rt, "queued")
		nrules := rapid.IntRange(0, 3).Draw(rt, "nrules")
		var rules []c32Rule
		for i := 0; i < nrules; i++ {
			r := c32Rule{proto: rapid.SampledFrom([]string{"any", "tcp", "udp"}).Draw(rt, "proto")}
			switch rapid.IntRange(0, 2).Draw(rt, "portKind") {
			case 1:
				r.lo = rapid.SampledFrom([]int{53, 80, 443, 8080}).Draw(rt, "port")
				r.hi = r.lo
			case 2:
				r.lo = rapid.SampledFrom([]int{1, 80, 400}).Draw(rt, "lo")
				r.hi = r.lo + rapid.SampledFrom([]int{0, 1, 50, 8000}).Draw(rt, "span")
			}
			rules = append(rules, r)
		}
		if nrules == 0 {
			rules = []c32Rule{{proto: "any"}}
		}
		var label []string
		nsBubble(rt, func(rt *rapid.T, s *nsSim) {
			var out []nsM
			for _, r := range rules {
				out = append(out, r.cfg())
			}
			w := nsGenWorld(rt, s, nsWorldOpts{minHosts: 2, maxHosts: 2, staticAll: true, extra: func(sp *nsNodeSpec, cfg nsM) {
				if sp.name == "h0" {
					cfg["handshakes"] = nsM{"try_interval": interval.String(), "retries": retries}
					cfg["firewall"] = nsM{"outbound": out}
				}
			}})
			w.pid = "C32"
			h := &nsHist{rt: rt, w: w, delivered: map[int]map[int]bool{}, stats: map[string]int{}}
			w.startAll(rt)
			a, b := w.nodes[0], w.nodes[1]
			addrA, addrB := w.specs[0].nets[0].Addr(), w.specs[1].nets[0].Addr()

			// queue packets while the handshake is pending
			type q struct {
				pkt     []byte
				allowed bool
			}
			var queue []q
			for i := 0; i < nq; i++ {
				proto := rapid.SampledFrom([]string{"tcp", "udp"}).Draw(rt, "qproto")
				dport := rapid.SampledFrom([]int{53, 80, 81, 443, 450, 8080, 9000}).Draw(rt, "qport")
				payload := []byte(fmt.Sprintf("VERIFTAG-%06d-0-1|q%d", 100000+i, i))
				var pkt []byte
				if proto == "tcp" {
					pkt = nsTCP4(addrA, addrB, uint16(20000+i), uint16(dport), payload)
				} else {
					pkt = nsUDP4(addrA, addrB, uint16(20000+i), uint16(dport), payload)
				}
				ok := false
				for _, r := range rules {
					if r.allows(proto, dport) {
						ok = true
					}
				}
				queue = append(queue, q{pkt, ok})
				s.injectTun(a, pkt)
			}
			if nq == 0 {
				a.ctrl.CreateTunnel(addrB)
				s.settle()
			}

			var sendTimes []time.Duration
			completed := false
			attempt := 0
			// generous horizon: every wait at its upper tolerance, plus the final one that abandons
			deadline := time.Second
			for j := 1; j <= retries+1; j++ {
				deadline += time.Duration(j+2) * interval
			}
			step := interval / 4
			if step < time.Millisecond {
				step = time.Millisecond
			}
			dataBeforeCompletion := 0
			for el := time.Duration(0); el < deadline; el += step {
				s.settle()
				for _, p := range s.takeInflight() {
					hd, ok := nsHeaderOf(p.Data)
					if !ok {
						continue
					}
					if p.Src == a.idx && hd.Type == header.Handshake && hd.MessageCounter == 1 {
						attempt++
						sendTimes = append(sendTimes, p.At)
						if attempt >= answerAt && !completed {
							h.deliverPkt(p)
						}
						continue
					}
					if p.Src == a.idx && hd.Type == header.Message && !completed && a.pendingCount() > 0 && len(a.allTunnels()) == 0 {
						dataBeforeCompletion++
					}
					h.deliverPkt(p)
					if len(a.allTunnels()) > 0 {
						completed = true
					}
				}
				if len(a.allTunnels()) > 0 {
					completed = true
				}
				if completed {
					// only the first handshake session is judged; later re-handshakes (certificate version
					// upgrades, liveness) are other properties' business
					break
				}
				time.Sleep(step)
			}
			h.flush(30)
			if dataBeforeCompletion > 0 {
				rt.Fatalf("%d data packets left node a before its handshake completed", dataBeforeCompletion)
			}

			desc := fmt.Sprintf("interval=%v retries=%d answerAt=%d queued=%d rules=%v sendTimes=%v", interval, retries, answerAt, nq, rules, sendTimes)
			tick := interval
			// retransmission schedule
			limit := len(sendTimes)
			for j := 1; j < limit; j++ {
				gap := sendTimes[j] - sendTimes[j-1]
				lo, hi := time.Duration(j)*interval, time.Duration(j)*interval+2*tick
				if gap < lo || gap > hi {
					rt.Fatalf("gap before retransmission %d is %v, expected within [%v, %v] (linear back-off, two ticks tolerance)\n%s", j, gap, lo, hi, desc)
				}
			}
			if answerAt > retries {
				if len(sendTimes) != retries {
					rt.Fatalf("never answered: %d first handshake messages were sent, configured retries %d\n%s", len(sendTimes), retries, desc)
				}
				if a.pendingCount() != 0 {
					rt.Fatalf("the handshake was abandoned but pending state remains\n%s", desc)
				}
				hs := a.ctrl.f.handshakeManager
				hs.RLock()
				ni := len(hs.indexes)
				hs.RUnlock()
				if ni != 0 {
					rt.Fatalf("the handshake was abandoned but %d pending index(es) remain\n%s", ni, desc)
				}
				if got := s.tunOutLen(b); got != 0 {
					rt.Fatalf("peer never reachable but %d packets reached its tun\n%s", got, desc)
				}
				label = append(label, "gave-up")
			} else {
				if !completed {
					rt.Fatalf("the peer answered attempt %d of %d but the handshake never completed\n%s", answerAt, retries, desc)
				}
				if len(sendTimes) != answerAt {
					rt.Fatalf("%d first handshake messages were sent although attempt %d was answered\n%s", len(sendTimes), answerAt, desc)
				}
				var want [][]byte
				for i, qq := range queue {
					if i < 100 && qq.allowed {
						want = append(want, qq.pkt)
					}
				}
				got := s.tunOutSince(b, 0)
				if len(got) != len(want) {
					rt.Fatalf("peer tun received %d packets, expected %d (first min(n,100) queued packets the outbound rules allow)\n%s", len(got), len(want), desc)
				}
				for i := range want {
					if !bytes.Equal(got[i], want[i]) {
						rt.Fatalf("queued packet %d arrived out of order or altered: got tag %q want %q\n%s", i, nsTagOf(got[i]), nsTagOf(want[i]), desc)
					}
				}
				label = append(label, fmt.Sprintf("completed-at-attempt:%d", min(answerAt, 6)))
				if len(want) < min(nq, 100) {
					label = append(label, "queue-partly-filtered")
				}
				// second phase: a re-handshake is pending (the network lets none of its messages through)
				// while the established tunnel dies underneath it: the peer forgot the tunnel and answers
				// data with recv_error. The pending handshake must still run its course and be abandoned
				// with all of its state removed.
				if rapid.Bool().Draw(rt, "secondPhase") {
					b.ctrl.CloseTunnel(addrA, true)
					a.ctrl.ReHandshake(addrB)
					s.settle()
					s.injectTun(a, nsUDP4(addrA, addrB, 30000, 443, []byte("VERIFTAG-900000-0-1|after-peer-forgot")))
					attempts2 := 0
					for el := time.Duration(0); el < deadline+2*time.Second; el += step {
						s.settle()
						for _, p := range s.takeInflight() {
							hd, ok := nsHeaderOf(p.Data)
							if ok && p.Src == a.idx && hd.Type == header.Handshake && hd.MessageCounter == 1 {
								attempts2++
								continue // lost
							}
							if ok && p.Src == b.idx && hd.Type == header.Handshake {
								continue // b's own attempts are not the subject here
							}
							h.deliverPkt(p)
						}
						w.checkPending(rt)
						time.Sleep(step)
					}
					hs := a.ctrl.f.handshakeManager
					hs.RLock()
					np, ni := len(hs.vpnIps), len(hs.indexes)
					hs.RUnlock()
					if np != 0 || ni != 0 {
						rt.Fatalf("a re-handshake that was never answered left pending state behind after its retry budget (%d address entries, %d index entries, %d attempts seen)\n%s", np, ni, attempts2, desc)
					}
					label = append(label, "rehandshake-abandoned-after-recv-error")
				}
			}
			if nq > 100 {
				label = append(label, "queue-overflow")
			}
		})
		nontrivial := nq > 100 || (answerAt <= retries && answerAt >= 3) || contains(label, "queue-partly-filtered") || answerAt > retries
		vk.Case("C32", fmt.Sprintf("%v/%d/%d/%d/%v", interval, retries, answerAt, nq, rules), nontrivial, label...)
		if vk.WantSample("C32") {
			vk.Sample("C32", map[string]any{"try_interval": interval.String(), "retries": retries, "answer_at_attempt": answerAt, "queued": nq, "outbound_rules": fmt.Sprint(rules)})
		}
	})
}

func contains(l []string, s string) bool {
	for _, x := range l {
		if x == s {
			return true
		}
	}
	return false
}

var _ = strings.Join
