//go:build e2e_testing

package nebula

import (
	"fmt"
	"net/netip"
	"os"
	"path/filepath"
	"regexp"
	"runtime"
	"sort"
	"strings"
	"sync"
	"sync/atomic"
	"testing"
	"time"

	"github.com/slackhq/nebula/cert"
	"github.com/slackhq/nebula/overlay"
	"github.com/slackhq/nebula/udp"
	"go.yaml.in/yaml/v3"
	"pgregory.net/rapid"
	"verifkit/vk"
)

// C34 - the packet engine is free of data races and deadlocks (DESIGN.md section 4, engine E-race).
//
// Real nodes (lighthouse, relay, hosts; some direct paths blocked so relays are used) run OUTSIDE
// any synctest bubble, in real time and real parallelism, in a binary built with -race. A router
// goroutine per node moves datagrams between the channel-backed sockets. Several worker goroutines
// execute rapid-generated operation lists concurrently against the nodes: tun traffic in both
// directions, handshake storms, CloseTunnel / CloseAllTunnels, config reloads (firewall, lighthouse,
// punchy, timers), control-API reads, underlay rebind, lighthouse queries, with generated yields.
//
// Oracle: any race-detector report (the process halts on the first, the log carries the workload)
// is a violation; a watchdog dumps all goroutines when a workload that normally takes well under a
// second has not finished after 60 s and classifies the dump: two or more goroutines with nebula
// frames blocked in sync.(*Mutex/RWMutex).Lock and no nebula goroutine runnable is a deadlock
// violation, anything else is inconclusive (exit 2), never a pass.
type c34Net struct {
	mu    sync.RWMutex
	nodes map[netip.AddrPort]*c34Node
	stop  chan struct{}
	wg    sync.WaitGroup
	block map[[2]netip.AddrPort]bool
	// dropAll turns the routers into sinks before the nodes are stopped: the upstream test tun
	// panics ("send on closed channel") when a packet is delivered to it while it is being closed,
	// which is a flaw of that test double, not of the engine
	dropAll atomic.Bool
}

type c34Node struct {
	name   string
	ctrl   *Control
	cfg    *configHolder
	udp    netip.AddrPort
	addr   netip.Addr
	rawCfg string
}

type configHolder struct {
	mu sync.Mutex
	c  interface {
		ReloadConfigString(string) error
	}
}

func (n *c34Net) route(from *c34Node) {
	defer n.wg.Done()
	tx := from.ctrl.f.outside.(*udp.TesterConn).TxPackets
	for {
		select {
		case <-n.stop:
			return
		case p := <-tx:
			n.mu.RLock()
			to := n.nodes[p.To]
			blocked := n.block[[2]netip.AddrPort{p.From, p.To}] || n.block[[2]netip.AddrPort{p.To, p.From}]
			n.mu.RUnlock()
			if to != nil && !blocked && !n.dropAll.Load() {
				// like a real network: never block the sender, drop when the receiver's queue is full
				// (a blocking hand-off would let the bounded channels of the test devices form a cycle)
				cp := p.Copy()
				select {
				case to.ctrl.f.outside.(*udp.TesterConn).RxPackets <- cp:
				default:
					cp.Release()
				}
			}
			p.Release()
		}
	}
}

func (n *c34Net) drainTun(node *c34Node) {
	defer n.wg.Done()
	tx := node.ctrl.f.inside.(*overlay.TestTun).TxPackets
	for {
		select {
		case <-n.stop:
			return
		case b, ok := <-tx:
			if !ok {
				return
			}
			overlay.ReleaseTunBuf(b)
		}
	}
}

type c34Op struct {
	Kind  string
	Node  int
	Peer  int
	N     int
	Yield int
}

func c34Classify(dump string) (deadlock bool, summary string) {
	blocked, runnable, minutes := 0, 0, 0
	for _, g := range strings.Split(dump, "\n\n") {
		if !strings.Contains(g, "github.com/slackhq/nebula") {
			continue
		}
		first := g
		if i := strings.IndexByte(g, '\n'); i > 0 {
			first = g[:i]
		}
		// the goroutine's wait reason (goroutines of the harness that are inside a nebula call count:
		// a control-API caller is as much part of a lock cycle as a packet goroutine)
		onLock := strings.Contains(first, "[sync.Mutex.Lock") || strings.Contains(first, "[sync.RWMutex.Lock") || strings.Contains(first, "[sync.RWMutex.RLock")
		switch {
		case onLock:
			blocked++
			if strings.Contains(first, " minutes]") {
				minutes++
			}
		case strings.Contains(g, "zz_verif_c34_test.go") && !strings.Contains(g, "slackhq/nebula.(*"):
			// router / drain goroutines of the harness
		case strings.Contains(first, "[running]") || strings.Contains(first, "[runnable]"):
			runnable++
		}
	}
	// a goroutine that has been waiting for a mutex for minutes is stuck whatever else is runnable
	return (blocked >= 2 && runnable == 0) || minutes >= 1, fmt.Sprintf("nebula goroutines blocked on locks: %d (%d for minutes), runnable: %d", blocked, minutes, runnable)
}

var c34GoroutineID = regexp.MustCompile(`^goroutine (\d+) \[`)

// c34LockWaiters returns, by goroutine id, the nebula goroutines currently waiting for a mutex.
func c34LockWaiters(dump string) map[string]string {
	out := map[string]string{}
	for _, g := range strings.Split(dump, "\n\n") {
		if !strings.Contains(g, "github.com/slackhq/nebula") {
			continue
		}
		first := g
		if i := strings.IndexByte(g, '\n'); i > 0 {
			first = g[:i]
		}
		if strings.Contains(first, "[sync.Mutex.Lock") || strings.Contains(first, "[sync.RWMutex.Lock") || strings.Contains(first, "[sync.RWMutex.RLock") {
			if m := c34GoroutineID.FindStringSubmatch(g); m != nil {
				out[m[1]] = g
			}
		}
	}
	return out
}

// c34RaceSignatures reads the race detector's log files (GORACE log_path=race.log in the working
// directory) and returns one signature per distinct report: the innermost nebula function of each of
// the two conflicting accesses, as an unordered pair.
func c34RaceSignatures() map[string]string {
	sigs := map[string]string{}
	files, _ := filepath.Glob("race.log*")
	for _, f := range files {
		b, err := os.ReadFile(f)
		if err != nil {
			continue
		}
		for _, rep := range strings.Split(string(b), "==================") {
			if !strings.Contains(rep, "WARNING: DATA RACE") {
				continue
			}
			var fns []string
			// the report lists the two accesses first, each as a stack; take the first nebula frame of each
			blocks := strings.Split(rep, "\n\n")
			for _, blk := range blocks {
				lines := strings.Split(strings.TrimSpace(blk), "\n")
				if len(lines) == 0 {
					continue
				}
				head := lines[0]
				if !(strings.Contains(head, "Write at") || strings.Contains(head, "Read at") || strings.Contains(head, "Previous write at") || strings.Contains(head, "Previous read at") ||
					strings.Contains(head, "atomic write at") || strings.Contains(head, "atomic read at")) && !strings.Contains(head, "WARNING: DATA RACE") {
					continue
				}
				for _, l := range lines {
					l = strings.TrimSpace(l)
					if strings.HasPrefix(l, "github.com/slackhq/nebula") && !strings.Contains(l, "zz_verif") && !strings.Contains(l, "TestC34") {
						fn := strings.TrimPrefix(l, "github.com/slackhq/nebula")
						fn = strings.TrimPrefix(fn, ".")
						fn = strings.TrimPrefix(fn, "/")
						if i := strings.Index(fn, "()"); i >= 0 {
							fn = fn[:i]
						}
						fns = append(fns, fn)
						break
					}
				}
				if len(fns) == 2 {
					break
				}
			}
			for len(fns) < 2 {
				fns = append(fns, "?")
			}
			sort.Strings(fns)
			key := fns[0] + " <-> " + fns[1]
			if _, ok := sigs[key]; !ok {
				sigs[key] = rep
			}
		}
	}
	return sigs
}

// c34Family maps a race signature to the recorded root cause it belongs to ("" = none).
func c34Family(sig, report string) string {
	parts := strings.Split(sig, " <-> ")
	tester := func(f string) bool {
		return strings.HasPrefix(f, "overlay.(*TestTun)") || strings.HasPrefix(f, "udp.(*TesterConn)")
	}
	if len(parts) == 2 && tester(parts[0]) && tester(parts[1]) {
		return "tester-device"
	}
	// only the stacks of the two conflicting accesses count, not where the goroutines were created
	if i := strings.Index(report, "Goroutine "); i > 0 {
		report = report[:i]
	}
	switch {
	case strings.Contains(report, "nebula.(*Interface).reloadFirewall()") || strings.Contains(report, "nebula.NewFirewall()"):
		// Interface.firewall is a plain pointer swapped by reloadFirewall while packet paths read it
		return "firewall-pointer-swapped-on-reload"
	case strings.Contains(report, "nebula.copyHostInfo()"):
		// the control API lists pending handshakes and copies HostInfo fields the handshake manager is still writing
		return "control-api-reads-pending-hostinfo"
	}
	return ""
}

func TestC34_RaceWorkload(t *testing.T) {
	nsSetT(nil)
	defer func() {
		// judge the race reports collected over the whole campaign
		sigs := c34RaceSignatures()
		var unknown []string
		var keys []string
		for k := range sigs {
			keys = append(keys, k)
		}
		sort.Strings(keys)
		for _, k := range keys {
			if fam := c34Family(k, sigs[k]); fam == "tester-device" {
				// the channel-backed tun/udp devices of the upstream e2e_testing build are test doubles,
				// not part of the packet engine
				vk.Label("C34", "ignored:race-inside-tester-device")
				continue
			} else if fam != "" && vk.KnownOpen("C34", fam) {
				vk.ReportKnown("C34", fam)
				vk.Excluded("C34", fam)
				vk.Label("C34", "known:"+k)
				continue
			}
			unknown = append(unknown, k)
		}
		// lock-discipline reports (c34_lock_test.go)
		verifLockMu.Lock()
		var lockSigs []string
		for k := range verifLockReports {
			lockSigs = append(lockSigs, k)
		}
		verifLockMu.Unlock()
		sort.Strings(lockSigs)
		for _, k := range lockSigs {
			fmt.Printf("C34-LOCK %s\n%s\n", k, verifLockReports[k])
		}
		if len(lockSigs) > 0 {
			vk.Flush()
			t.Fatalf("deadlock hazard - lock discipline violated (recursive read lock, read-to-write upgrade or two lock classes taken in opposite orders: blocks for ever once a writer queues in between): %s", strings.Join(lockSigs, "; "))
		}
		vk.Flush()
		if len(unknown) > 0 {
			for _, k := range unknown {
				fmt.Printf("C34-RACE %s\n%s\n", k, sigs[k])
			}
			t.Fatalf("WARNING: DATA RACE - %d unrecorded data race(s): %s", len(unknown), strings.Join(unknown, "; "))
		}
	}()
	vk.Check(t, 80, func(rt *rapid.T) {
		now := time.Now()
		ca := nsNewCA(cert.Version2, now.Add(-time.Hour), now.Add(24*time.Hour))
		nHosts := rapid.IntRange(2, 3).Draw(rt, "hosts")
		type spec struct {
			name string
			role nsRole
		}
		specs := []spec{{"lh", nsLighthouse}, {"relay", nsRelay}}
		for i := 0; i < nHosts; i++ {
			specs = append(specs, spec{fmt.Sprintf("h%d", i), nsHost})
		}
		net := &c34Net{nodes: map[netip.AddrPort]*c34Node{}, stop: make(chan struct{}), block: map[[2]netip.AddrPort]bool{}}
		var nodes []*c34Node
		lhAddr, lhUDP := nsOverlayAddr(0).Addr(), nsUnderlay(0)
		relayAddr, relayUDP := nsOverlayAddr(1).Addr(), nsUnderlay(1)
		for i, sp := range specs {
			id := nsNewIdent(ca, sp.name, []cert.Version{cert.Version2}, []netip.Prefix{nsOverlayAddr(i)}, nil, nil, now.Add(-time.Minute), now.Add(time.Hour))
			cfg := nsM{"relay": nsM{"use_relays": true}}
			shm := nsM{}
			switch sp.role {
			case nsLighthouse:
				cfg["lighthouse"] = nsM{"am_lighthouse": true}
			case nsRelay:
				cfg["relay"] = nsM{"am_relay": true, "use_relays": false}
				shm[lhAddr.String()] = []string{lhUDP.String()}
				cfg["lighthouse"] = nsM{"hosts": []string{lhAddr.String()}, "interval": 1}
			default:
				shm[lhAddr.String()] = []string{lhUDP.String()}
				shm[relayAddr.String()] = []string{relayUDP.String()}
				cfg["lighthouse"] = nsM{"hosts": []string{lhAddr.String()}, "interval": 1}
				cfg["relay"] = nsM{"use_relays": true, "relays": []string{relayAddr.String()}}
			}
			if len(shm) > 0 {
				cfg["static_host_map"] = shm
			}
			cfg["timers"] = nsM{"pending_deletion_interval": 1, "connection_alive_interval": 1}
			cfg["handshakes"] = nsM{"try_interval": "20ms"}
			mc := nsBaseConfig([]*nsCA{ca}, id, nsUnderlay(i), cfg)
			cb, _ := yaml.Marshal(mc)
			sim := &nsSim{stopPump: make(chan struct{})}
			close(sim.stopPump) // no simulator pumps here: this check runs its own router
			n, err := sim.addNode([]*nsCA{ca}, id, nsUnderlay(i), cfg)
			if err != nil {
				rt.Fatalf("addNode: %v", err)
			}
			cn := &c34Node{name: sp.name, ctrl: n.ctrl, udp: nsUnderlay(i), addr: nsOverlayAddr(i).Addr(), rawCfg: string(cb)}
			cn.cfg = &configHolder{c: n.cfg}
			nodes = append(nodes, cn)
			net.nodes[cn.udp] = cn
		}
		// block some direct host-host paths so that relays carry traffic
		for i := 2; i < len(nodes); i++ {
			for j := i + 1; j < len(nodes); j++ {
				if rapid.Bool().Draw(rt, fmt.Sprintf("block%d%d", i, j)) {
					net.block[[2]netip.AddrPort{nodes[i].udp, nodes[j].udp}] = true
				}
			}
		}
		for _, n := range nodes {
			if err := n.ctrl.Start(); err != nil {
				rt.Fatalf("start: %v", err)
			}
			net.wg.Add(2)
			go net.route(n)
			go net.drainTun(n)
		}

		// workload
		kinds := []string{"tun", "tun", "tun", "tunBurst", "rehandshake", "close", "closeAll", "reloadFirewall", "reloadLighthouse", "reloadPunchy", "reloadStaticMap",
			"listHosts", "listIndexes", "getHostInfo", "queryLH", "rebind", "setRemote", "printTunnel", "certByAddr", "crossRehandshake", "crossRehandshake"}
		nWorkers := rapid.IntRange(2, 6).Draw(rt, "workers")
		work := make([][]c34Op, nWorkers)
		distinct := map[string]bool{}
		// in a quarter of the cases every worker pauses once for about two seconds somewhere in
		// its list, so that the periodic work (connection manager traffic checks and primary swaps,
		// lighthouse updates; 1 s here) runs while tunnels, duplicate tunnels and traffic exist
		long := rapid.IntRange(0, 3).Draw(rt, "long") == 0
		for wi := range work {
			nops := rapid.IntRange(5, 40).Draw(rt, "nops")
			lingerAt := -1
			if long {
				lingerAt = rapid.IntRange(0, nops-1).Draw(rt, "lingerAt")
			}
			for k := 0; k < nops; k++ {
				if k == lingerAt {
					work[wi] = append(work[wi], c34Op{Kind: "linger"})
				}
				op := c34Op{Kind: rapid.SampledFrom(kinds).Draw(rt, "kind"), Node: rapid.IntRange(0, len(nodes)-1).Draw(rt, "node"),
					Peer: rapid.IntRange(0, len(nodes)-1).Draw(rt, "peer"), N: rapid.IntRange(1, 20).Draw(rt, "n"), Yield: rapid.IntRange(0, 3).Draw(rt, "yield")}
				work[wi] = append(work[wi], op)
				distinct[fmt.Sprintf("%s@%d", op.Kind, op.Node)] = true
			}
		}
		desc := fmt.Sprintf("nodes=%d workers=%d blocked=%d ops=%v", len(nodes), nWorkers, len(net.block), work)
		fmt.Printf("C34-WORKLOAD %s\n", desc)
		os.Stdout.Sync()

		done := make(chan struct{})
		var wg sync.WaitGroup
		for wi := range work {
			wg.Add(1)
			go func(ops []c34Op) {
				defer wg.Done()
				for k, op := range ops {
					n, p := nodes[op.Node], nodes[op.Peer]
					switch op.Kind {
					case "tun", "tunBurst":
						if n == p {
							continue
						}
						cnt := 1
						if op.Kind == "tunBurst" {
							cnt = op.N
						}
						for i := 0; i < cnt; i++ {
							n.ctrl.InjectTunPacket(nsUDP4(n.addr, p.addr, uint16(1000+k), uint16(2000+i), []byte("c34 workload payload")))
						}
					case "rehandshake":
						if n != p {
							n.ctrl.ReHandshake(p.addr)
						}
					case "close":
						n.ctrl.CloseTunnel(p.addr, op.N%2 == 0)
					case "closeAll":
						n.ctrl.CloseAllTunnels(op.N%2 == 0)
					case "reloadFirewall", "reloadLighthouse", "reloadPunchy", "reloadStaticMap":
						mc := nsM{}
						if yaml.Unmarshal([]byte(n.rawCfg), &mc) != nil {
							continue
						}
						switch op.Kind {
						case "reloadFirewall":
							fw, _ := mc["firewall"].(nsM)
							fw["inbound"] = []nsM{{"proto": "any", "port": fmt.Sprint(1000 + op.N), "host": "any"}, {"proto": "any", "port": "any", "host": "any"}}
							fw["conntrack"] = nsM{"udp_timeout": fmt.Sprintf("%dm", op.N)}
						case "reloadLighthouse":
							lh, _ := mc["lighthouse"].(nsM)
							if lh != nil {
								lh["interval"] = 1 + op.N%3
								lh["remote_allow_list"] = nsM{"0.0.0.0/0": true}
							}
						case "reloadStaticMap":
							// drop or (re)add static hosts: exercises the lighthouse's static-map reload path
							shm, _ := mc["static_host_map"].(nsM)
							if shm == nil {
								shm = nsM{}
							}
							if op.N%2 == 0 {
								for k := range shm {
									delete(shm, k)
									break
								}
							}
							shm[fmt.Sprintf("10.128.0.%d", 100+op.N)] = []string{fmt.Sprintf("10.0.0.%d:4242", 100+op.N)}
							mc["static_host_map"] = shm
						case "reloadPunchy":
							mc["punchy"] = nsM{"punch": op.N%2 == 0, "respond": op.N%3 == 0, "delay": "10ms"}
						}
						b, _ := yaml.Marshal(mc)
						n.cfg.mu.Lock()
						_ = n.cfg.c.ReloadConfigString(string(b))
						n.cfg.mu.Unlock()
					case "listHosts":
						_ = n.ctrl.ListHostmapHosts(op.N%2 == 0)
					case "listIndexes":
						_ = n.ctrl.ListHostmapIndexes(op.N%2 == 0)
					case "getHostInfo":
						_ = n.ctrl.GetHostInfoByVpnAddr(p.addr, op.N%2 == 0)
					case "queryLH":
						_ = n.ctrl.QueryLighthouse(p.addr)
					case "rebind":
						n.ctrl.RebindUDPServer()
					case "setRemote":
						_ = n.ctrl.SetRemoteForTunnel(p.addr, p.udp)
					case "linger":
						time.Sleep(2200 * time.Millisecond) // check interval 1 s + timer wheel granularity 0.5 s + slack
					case "crossRehandshake":
						// both ends start a new handshake with each other at the same moment and keep talking: each
						// may end up with its own tunnel as primary while the peer sends on the other one - the
						// situation the connection manager's primary swap exists for
						if n != p {
							var cw sync.WaitGroup
							cw.Add(1)
							go func() { defer cw.Done(); p.ctrl.ReHandshake(n.addr) }()
							n.ctrl.ReHandshake(p.addr)
							cw.Wait()
							for i := 0; i < 3; i++ {
								n.ctrl.InjectTunPacket(nsUDP4(n.addr, p.addr, uint16(3000+k), uint16(4000+i), []byte("c34 cross traffic")))
								p.ctrl.InjectTunPacket(nsUDP4(p.addr, n.addr, uint16(3000+k), uint16(4000+i), []byte("c34 cross traffic")))
								time.Sleep(2 * time.Millisecond)
							}
						}
					case "printTunnel":
						_ = n.ctrl.PrintTunnel(p.addr)
					case "certByAddr":
						_ = n.ctrl.GetCertByVpnIp(p.addr)
					}
					switch op.Yield {
					case 1:
						runtime.Gosched()
					case 2:
						time.Sleep(200 * time.Microsecond)
					case 3:
						time.Sleep(3 * time.Millisecond)
					}
				}
			}(work[wi])
		}
		go func() { wg.Wait(); close(done) }()
		finished := false
		select {
		case <-done:
			finished = true
		case <-time.After(150 * time.Second): // a lingering workload on a saturated machine was seen to need > 60 s
		}
		if finished {
			// let timers (connection manager 1 s, lighthouse 1 s) interleave with late traffic, then stop everything
			time.Sleep(time.Duration(rapid.IntRange(0, 300).Draw(rt, "tailMs")) * time.Millisecond)
			net.dropAll.Store(true)
			// let datagrams already queued at the nodes be processed: wait until every receive queue
			// has been empty for two polls 100 ms apart (bounded; a busy machine needs longer than an idle one)
			for i, quiet := 0, 0; i < 100 && quiet < 2; i++ {
				time.Sleep(100 * time.Millisecond)
				empty := true
				for _, n := range nodes {
					if len(n.ctrl.f.outside.(*udp.TesterConn).RxPackets) > 0 {
						empty = false
					}
				}
				if empty {
					quiet++
				} else {
					quiet = 0
				}
			}
			stopped := make(chan struct{})
			go func() {
				var sw sync.WaitGroup
				for _, n := range nodes {
					sw.Add(1)
					go func(n *c34Node) { defer sw.Done(); n.ctrl.Stop(); n.ctrl.Wait() }(n)
				}
				sw.Wait()
				close(stopped)
			}()
			select {
			case <-stopped:
			case <-time.After(60 * time.Second):
				finished = false
			}
		}
		if !finished {
			buf := make([]byte, 16<<20)
			dump := string(buf[:runtime.Stack(buf, true)])
			dl, sum := c34Classify(dump)
			if !dl {
				// On a busy machine some unrelated nebula goroutine (a ticker loop) is usually runnable at the
				// instant of the dump. No critical section of the engine lasts seconds: goroutines that wait for
				// a mutex now and are still the same goroutines waiting 20 s later are stuck for good.
				w1 := c34LockWaiters(dump)
				time.Sleep(20 * time.Second)
				dump2 := string(buf[:runtime.Stack(buf, true)])
				stuck := 0
				for id := range c34LockWaiters(dump2) {
					if _, ok := w1[id]; ok {
						stuck++
					}
				}
				if stuck >= 2 {
					dl, sum = true, fmt.Sprintf("%d nebula goroutines waited for a mutex at 60 s and still at 80 s", stuck)
					dump = dump2
				}
			}
			fmt.Printf("C34-WATCHDOG %s\n%s\n", sum, dump)
			if dl {
				rt.Fatalf("deadlock: workload (or the stop of the nodes) did not finish within its watchdog time; %s\n%s", sum, desc)
			}
			fmt.Printf("VERIF-INFRA: C34 workload did not finish within its watchdog time but no lock cycle was identified (%s)\n", sum)
			os.Exit(3)
		}
		close(net.stop)
		// a lock-discipline report fails the case it occurred in (the workload is its reproduction)
		verifLockMu.Lock()
		var hazards []string
		for k := range verifLockReports {
			hazards = append(hazards, k)
		}
		verifLockMu.Unlock()
		if len(hazards) > 0 {
			sort.Strings(hazards)
			rt.Fatalf("deadlock hazard - lock discipline violated (recursive read lock, read-to-write upgrade or two lock classes taken in opposite orders: blocks for ever once a writer queues in between): %s\n%s\n%s", strings.Join(hazards, "; "), verifLockReports[hazards[0]], desc)
		}
		net.wg.Wait()
		perNode := map[int]map[string]bool{}
		for _, ops := range work {
			for _, op := range ops {
				if perNode[op.Node] == nil {
					perNode[op.Node] = map[string]bool{}
				}
				perNode[op.Node][op.Kind] = true
			}
		}
		rich := false
		for _, ks := range perNode {
			if len(ks) >= 3 {
				rich = true
			}
		}
		_ = distinct
		vk.Case("C34", desc, rich && nWorkers >= 2, fmt.Sprintf("workers:%d", nWorkers), fmt.Sprintf("nodes:%d", len(nodes)))
		if vk.WantSample("C34") {
			vk.Sample("C34", map[string]any{"nodes": len(nodes), "workers": nWorkers, "blocked_pairs": len(net.block), "first_worker_ops": fmt.Sprint(work[0])})
		}
	})
}
