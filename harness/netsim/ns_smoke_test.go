//go:build e2e_testing

package nebula

import (
	"net/netip"
	"testing"
	"time"

	"github.com/slackhq/nebula/cert"
	"pgregory.net/rapid"
	"verifkit/vk"
)

func TestNS_Smoke(t *testing.T) {
	vk.Check(t, 20, func(rt *rapid.T) {
		nsBubble(rt, func(rt *rapid.T, s *nsSim) {
			now := time.Now()
			ca := nsNewCA(cert.Version2, now.Add(-time.Hour), now.Add(24*time.Hour))
			ida := nsNewIdent(ca, "a", []cert.Version{cert.Version2}, []netip.Prefix{netip.MustParsePrefix("10.128.0.1/24")}, nil, nil, now.Add(-time.Minute), now.Add(time.Hour))
			idb := nsNewIdent(ca, "b", []cert.Version{cert.Version2}, []netip.Prefix{netip.MustParsePrefix("10.128.0.2/24")}, nil, nil, now.Add(-time.Minute), now.Add(time.Hour))
			ua := netip.MustParseAddrPort("10.0.0.1:4242")
			ub := netip.MustParseAddrPort("10.0.0.2:4242")
			a, err := s.addNode([]*nsCA{ca}, ida, ua, nsM{"static_host_map": nsM{"10.128.0.2": []string{ub.String()}}})
			if err != nil {
				rt.Fatalf("addNode a: %v", err)
			}
			b, err := s.addNode([]*nsCA{ca}, idb, ub, nil)
			if err != nil {
				rt.Fatalf("addNode b: %v", err)
			}
			if err := s.startNode(a); err != nil {
				rt.Fatal(err)
			}
			if err := s.startNode(b); err != nil {
				rt.Fatal(err)
			}
			s.settle()
			s.injectTun(a, nsUDP4(ida.addrs()[0], idb.addrs()[0], 1000, 2000, []byte("hello")))
			s.run(2*time.Second, 50*time.Millisecond)
			out := s.tunOutSince(b, 0)
			if len(out) != 1 {
				rt.Fatalf("b tun got %d packets; history %v", len(out), s.history)
			}
			if !s.stopNode(a) || !s.stopNode(b) {
				rt.Fatalf("stop did not return")
			}
		})
	})
}
