//go:build e2e_testing

package nebula

// In-bubble multi-node network simulator (engine E-netsim, DESIGN.md section 3).
//
// Real nebula nodes (nebula.Main + Control.Start, built with the upstream e2e_testing tag so the UDP
// socket and the tun device are Go channels) run inside one testing/synctest bubble. The test
// goroutine is the network: pump goroutines move every transmitted datagram into the simulator's
// in-flight list, and the (rapid-generated) adversary decides what is delivered, dropped,
// duplicated, mutated or replayed. synctest.Wait() is an exact quiescence barrier and virtual
// time only advances when the harness sleeps.

import (
	"bytes"
	"fmt"
	"io"
	"log/slog"
	"net/netip"
	"os"
	"sort"
	"strings"
	"sync"
	"testing"
	"testing/cryptotest"
	"testing/synctest"
	"time"

	"github.com/slackhq/nebula/cert"
	"github.com/slackhq/nebula/cert_test"
	"github.com/slackhq/nebula/config"
	"github.com/slackhq/nebula/header"
	"github.com/slackhq/nebula/overlay"
	"github.com/slackhq/nebula/udp"
	"go.yaml.in/yaml/v3"
	"pgregory.net/rapid"
)

type nsM = map[string]any

// nsCA is a certificate authority of the simulated PKI.
type nsCA struct {
	crt cert.Certificate
	key []byte
	pem []byte
}

func nsNewCA(v cert.Version, before, after time.Time) *nsCA {
	c, _, k, p := cert_test.NewTestCaCert(v, cert.Curve_CURVE25519, before, after, nil, nil, nil)
	return &nsCA{crt: c, key: k, pem: p}
}

// nsIdent is a node identity: one or two certificates (v1, v2) over one key pair.
type nsIdent struct {
	name    string
	certs   []cert.Certificate
	certPEM string
	keyPEM  string
	nets    []netip.Prefix
	unsafe  []netip.Prefix
	groups  []string
}

// nsNewIdent signs an identity. versions lists the certificate versions to issue (v1 only carries
// the IPv4 networks, and only the first of them, as upstream requires).
func nsNewIdent(ca *nsCA, name string, versions []cert.Version, nets, unsafeNets []netip.Prefix, groups []string, before, after time.Time) *nsIdent {
	id := &nsIdent{name: name, nets: nets, unsafe: unsafeNets, groups: groups}
	var first cert.Certificate
	for i, v := range versions {
		n, u := nets, unsafeNets
		if v == cert.Version1 {
			n, u = nil, nil
			for _, p := range nets {
				if p.Addr().Is4() {
					n = append(n, p)
					break
				}
			}
			for _, p := range unsafeNets {
				if p.Addr().Is4() {
					u = append(u, p)
				}
			}
		}
		if i == 0 {
			c, _, key, pem := cert_test.NewTestCert(v, cert.Curve_CURVE25519, ca.crt, ca.key, name, before, after, n, u, groups)
			first = c
			id.keyPEM = string(key)
			id.certPEM = string(pem)
			id.certs = append(id.certs, c)
		} else {
			tbs := &cert.TBSCertificate{Version: v, Curve: first.Curve(), Name: name, Networks: n, UnsafeNetworks: u, Groups: groups,
				NotBefore: time.Unix(before.Unix(), 0), NotAfter: time.Unix(after.Unix(), 0), PublicKey: first.PublicKey()}
			c, err := tbs.Sign(ca.crt, ca.crt.Curve(), ca.key)
			if err != nil {
				panic(err)
			}
			pem, _ := c.MarshalPEM()
			id.certPEM += string(pem)
			id.certs = append(id.certs, c)
		}
	}
	return id
}

func (id *nsIdent) addrs() []netip.Addr {
	var a []netip.Addr
	for _, n := range id.nets {
		a = append(a, n.Addr())
	}
	return a
}

// nsPacket is one datagram seen on the simulated underlay.
type nsPacket struct {
	ID   int
	From netip.AddrPort
	To   netip.AddrPort
	Data []byte
	Src  int // transmitting node, -1 when forged by the adversary
	At   time.Duration
}

func (p *nsPacket) hdr() (header.H, bool) {
	var h header.H
	if err := h.Parse(p.Data); err != nil {
		return h, false
	}
	return h, true
}

func (p *nsPacket) String() string {
	h, ok := p.hdr()
	if !ok {
		return fmt.Sprintf("#%d %v->%v len=%d (no header)", p.ID, p.From, p.To, len(p.Data))
	}
	return fmt.Sprintf("#%d %v->%v len=%d %s/%s idx=%d ctr=%d", p.ID, p.From, p.To, len(p.Data), header.TypeName(h.Type), header.SubTypeName(h.Type, h.Subtype), h.RemoteIndex, h.MessageCounter)
}

type nsNode struct {
	idx     int
	name    string
	id      *nsIdent
	ctrl    *Control
	cfg     *config.C
	udpAddr netip.AddrPort
	started bool
	stopped bool
	tunOut  [][]byte // everything the node wrote to its tun device
	logBuf  *bytes.Buffer
	rawCfg  string
	// stopPump ends this node's UDP pump alone (the closed-socket probe of C49 needs the transmit
	// channel to fill up)
	stopPump chan struct{}
}

type nsSim struct {
	mu       sync.Mutex
	nodes    []*nsNode
	inflight []*nsPacket
	history  []*nsPacket
	nextID   int
	start    time.Time
	stopPump chan struct{}
	pumps    sync.WaitGroup
	trace    []string
	// blocked holds unordered node pairs whose direct underlay path silently drops everything
	// (a NAT/firewall between them), which is what makes relays necessary.
	blocked map[[2]int]bool
	dropped int
	// observe, when set, is called after every slice of a virtual-time advance
	observe func()
	// debugLogs: nodes built from now on log at debug level (into the void)
	debugLogs bool
}

func (s *nsSim) block(a, b int) {
	if s.blocked == nil {
		s.blocked = map[[2]int]bool{}
	}
	if a > b {
		a, b = b, a
	}
	s.blocked[[2]int{a, b}] = true
}

func (s *nsSim) isBlocked(a, b int) bool {
	if a > b {
		a, b = b, a
	}
	return s.blocked[[2]int{a, b}]
}

func nsNewSim() *nsSim {
	return &nsSim{start: time.Now(), stopPump: make(chan struct{})}
}

func (s *nsSim) logf(format string, a ...any) {
	s.mu.Lock()
	if len(s.trace) < 4000 {
		s.trace = append(s.trace, fmt.Sprintf("[%v] ", time.Since(s.start))+fmt.Sprintf(format, a...))
	}
	s.mu.Unlock()
}

func (s *nsSim) traceString() string {
	s.mu.Lock()
	defer s.mu.Unlock()
	return strings.Join(s.trace, "\n")
}

// nsBaseConfig mirrors what the upstream e2e helpers use, with thread pinning off.
func nsBaseConfig(ca []*nsCA, id *nsIdent, udpAddr netip.AddrPort, overrides nsM) nsM {
	caStr := ""
	for _, c := range ca {
		caStr += string(c.pem)
	}
	mc := nsM{
		"pki": nsM{"ca": caStr, "cert": id.certPEM, "key": id.keyPEM},
		"firewall": nsM{
			"outbound": []nsM{{"proto": "any", "port": "any", "host": "any"}},
			"inbound":  []nsM{{"proto": "any", "port": "any", "host": "any"}},
		},
		"listen":  nsM{"host": udpAddr.Addr().String(), "port": int(udpAddr.Port())},
		"logging": nsM{"level": "info"},
		"timers":  nsM{"pending_deletion_interval": 2, "connection_alive_interval": 2},
		"tun":     nsM{"pin_threads": false},
	}
	nsMerge(mc, overrides)
	return mc
}

func nsMerge(dst, src nsM) {
	for k, v := range src {
		if sv, ok := v.(nsM); ok {
			if dv, ok := dst[k].(nsM); ok {
				nsMerge(dv, sv)
				continue
			}
		}
		dst[k] = v
	}
}

func nsLogger(buf *bytes.Buffer, debug bool) *slog.Logger {
	if os.Getenv("VERIF_NS_LOGS") == "" {
		if debug {
			// logging.level: debug is a configuration like any other: code inside "if debug enabled" blocks runs
			return slog.New(slog.NewTextHandler(io.Discard, &slog.HandlerOptions{Level: slog.LevelDebug}))
		}
		return slog.New(slog.DiscardHandler)
	}
	return slog.New(slog.NewTextHandler(buf, &slog.HandlerOptions{Level: slog.LevelDebug}))
}

// addNode builds a node with nebula.Main (not started yet).
func (s *nsSim) addNode(ca []*nsCA, id *nsIdent, udpAddr netip.AddrPort, overrides nsM) (*nsNode, error) {
	n := &nsNode{idx: len(s.nodes), name: id.name, id: id, udpAddr: udpAddr, logBuf: &bytes.Buffer{}}
	mc := nsBaseConfig(ca, id, udpAddr, overrides)
	cb, err := yaml.Marshal(mc)
	if err != nil {
		return nil, err
	}
	l := nsLogger(n.logBuf, s.debugLogs)
	c := config.NewC(l)
	if err := c.LoadString(string(cb)); err != nil {
		return nil, err
	}
	ctrl, err := Main(c, false, "verif-netsim", l, nil)
	if err != nil {
		return nil, err
	}
	n.ctrl, n.cfg = ctrl, c
	n.rawCfg = string(cb)
	// advertise only the simulated underlay address to lighthouses, not whatever interfaces the
	// machine running the check happens to have
	adv := udpAddr.Addr()
	ctrl.SetLocalAddrsFn(func(*LocalAllowList) []netip.Addr { return []netip.Addr{adv} })
	s.nodes = append(s.nodes, n)
	s.startPumps(n)
	return n, nil
}

func (s *nsSim) startPumps(n *nsNode) {
	txUDP := n.ctrl.f.outside.(*udp.TesterConn).TxPackets
	txTun := n.ctrl.f.inside.(*overlay.TestTun).TxPackets
	n.stopPump = make(chan struct{})
	s.pumps.Add(2)
	go func() {
		defer s.pumps.Done()
		for {
			select {
			case <-s.stopPump:
				return
			case <-n.stopPump:
				return
			case p := <-txUDP:
				s.mu.Lock()
				pk := &nsPacket{ID: s.nextID, From: p.From, To: p.To, Data: append([]byte{}, p.Data...), Src: n.idx, At: time.Since(s.start)}
				s.nextID++
				s.inflight = append(s.inflight, pk)
				s.history = append(s.history, pk)
				s.mu.Unlock()
				p.Release()
			}
		}
	}()
	go func() {
		defer s.pumps.Done()
		for {
			select {
			case <-s.stopPump:
				return
			case b, ok := <-txTun:
				if !ok {
					return
				}
				s.mu.Lock()
				n.tunOut = append(n.tunOut, append([]byte{}, b...))
				s.mu.Unlock()
				overlay.ReleaseTunBuf(b)
			}
		}
	}()
}

func (s *nsSim) startNode(n *nsNode) error {
	err := n.ctrl.Start()
	if err == nil {
		n.started = true
	}
	return err
}

// stopNode stops a node and waits (in virtual time) for Stop and Wait to return. It reports
// whether both returned.
func (s *nsSim) stopNode(n *nsNode) bool {
	if n.stopped {
		return true
	}
	done := make(chan struct{})
	go func() {
		n.ctrl.Stop()
		if n.started {
			n.ctrl.Wait()
		}
		close(done)
	}()
	synctest.Wait()
	for i := 0; i < 50; i++ {
		select {
		case <-done:
			n.stopped = true
			return true
		default:
		}
		time.Sleep(100 * time.Millisecond)
		synctest.Wait()
	}
	select {
	case <-done:
		n.stopped = true
		return true
	default:
		return false
	}
}

// shutdown stops everything so the bubble can end. Safe to call more than once.
func (s *nsSim) shutdown() {
	for _, n := range s.nodes {
		if !n.stopped {
			n.stopped = true
			go func() {
				n.ctrl.Stop()
			}()
		}
	}
	synctest.Wait()
	select {
	case <-s.stopPump:
	default:
		close(s.stopPump)
	}
	synctest.Wait()
}

func (s *nsSim) nodeByUDP(a netip.AddrPort) *nsNode {
	for _, n := range s.nodes {
		if n.udpAddr == a && !n.stopped {
			return n
		}
	}
	return nil
}

// settle waits until every goroutine in the bubble is durably blocked.
func (s *nsSim) settle() { synctest.Wait() }

// takeInflight returns and clears the in-flight list.
func (s *nsSim) takeInflight() []*nsPacket {
	s.mu.Lock()
	defer s.mu.Unlock()
	r := s.inflight
	s.inflight = nil
	return r
}

func (s *nsSim) peekInflight() []*nsPacket {
	s.mu.Lock()
	defer s.mu.Unlock()
	return append([]*nsPacket{}, s.inflight...)
}

func (s *nsSim) removeInflight(id int) *nsPacket {
	s.mu.Lock()
	defer s.mu.Unlock()
	for i, p := range s.inflight {
		if p.ID == id {
			s.inflight = append(s.inflight[:i:i], s.inflight[i+1:]...)
			return p
		}
	}
	return nil
}

// deliver hands a datagram to the node listening on p.To (if any) and waits for quiescence.
func (s *nsSim) deliver(p *nsPacket) bool {
	n := s.nodeByUDP(p.To)
	if n == nil || !n.started {
		return false
	}
	if p.Src >= 0 {
		if src := s.nodeByUDP(p.From); src != nil && s.isBlocked(src.idx, n.idx) {
			s.dropped++
			return false
		}
	}
	up := &udp.Packet{To: p.To, From: p.From, Data: append([]byte{}, p.Data...)}
	conn := n.ctrl.f.outside.(*udp.TesterConn)
	if len(up.Data) < header.Len && s.debugLogs {
		// upstream's tester socket parses the header for its debug line and panics on datagrams shorter
		// than a header (a flaw of that test double); such datagrams go straight into its receive queue,
		// which is all Send does otherwise
		if !n.stopped {
			select {
			case conn.RxPackets <- up:
			default: // queue full: dropped, as a real socket buffer would
			}
		}
	} else {
		conn.Send(up)
	}
	synctest.Wait()
	return true
}

// flush delivers everything in flight, in order, repeatedly, until the network is quiet or the
// round limit is hit. Returns the number of datagrams delivered.
func (s *nsSim) flush(maxRounds int) int {
	total := 0
	for r := 0; r < maxRounds; r++ {
		synctest.Wait()
		ps := s.takeInflight()
		if len(ps) == 0 {
			return total
		}
		for _, p := range ps {
			if s.deliver(p) {
				total++
			}
		}
	}
	return total
}

// advance moves virtual time forward by d in steps, delivering nothing.
func (s *nsSim) advance(d time.Duration) {
	// in slices, so that an observer (a check that accumulates facts about node state, such as every
	// relay index a node ever allocated) also sees state that appears and disappears while nothing is
	// delivered: retried handshakes, tunnels that time out
	const slice = 200 * time.Millisecond
	for d > 0 {
		st := min(d, slice)
		time.Sleep(st)
		synctest.Wait()
		d -= st
		if s.observe != nil {
			s.observe()
		}
	}
}

// run delivers everything in order while advancing virtual time in small steps for d.
func (s *nsSim) run(d, step time.Duration) {
	for el := time.Duration(0); el < d; el += step {
		s.flush(50)
		time.Sleep(step)
	}
	s.flush(50)
}

func (s *nsSim) injectTun(n *nsNode, pkt []byte) {
	if n.stopped || !n.started {
		return
	}
	n.ctrl.f.inside.(*overlay.TestTun).Send(pkt)
	synctest.Wait()
}

func (s *nsSim) tunOutSince(n *nsNode, from int) [][]byte {
	s.mu.Lock()
	defer s.mu.Unlock()
	if from > len(n.tunOut) {
		from = len(n.tunOut)
	}
	return append([][]byte{}, n.tunOut[from:]...)
}

func (s *nsSim) tunOutLen(n *nsNode) int {
	s.mu.Lock()
	defer s.mu.Unlock()
	return len(n.tunOut)
}

// nsUDP4 builds a minimal IPv4/UDP packet (checksums are not needed by nebula's parser).
func nsUDP4(src, dst netip.Addr, sport, dport uint16, payload []byte) []byte {
	b := make([]byte, 28+len(payload))
	b[0] = 0x45
	tl := len(b)
	b[2], b[3] = byte(tl>>8), byte(tl)
	b[8] = 64
	b[9] = 17
	s4, d4 := src.As4(), dst.As4()
	copy(b[12:16], s4[:])
	copy(b[16:20], d4[:])
	var sum uint32
	for i := 0; i < 20; i += 2 {
		sum += uint32(b[i])<<8 | uint32(b[i+1])
	}
	for sum>>16 != 0 {
		sum = sum&0xffff + sum>>16
	}
	cs := ^uint16(sum)
	b[10], b[11] = byte(cs>>8), byte(cs)
	b[20], b[21] = byte(sport>>8), byte(sport)
	b[22], b[23] = byte(dport>>8), byte(dport)
	ul := 8 + len(payload)
	b[24], b[25] = byte(ul>>8), byte(ul)
	copy(b[28:], payload)
	return b
}

// nsUDP6 builds a minimal IPv6/UDP packet.
func nsUDP6(src, dst netip.Addr, sport, dport uint16, payload []byte) []byte {
	b := make([]byte, 48+len(payload))
	b[0] = 0x60
	pl := 8 + len(payload)
	b[4], b[5] = byte(pl>>8), byte(pl)
	b[6] = 17
	b[7] = 64
	s16, d16 := src.As16(), dst.As16()
	copy(b[8:24], s16[:])
	copy(b[24:40], d16[:])
	b[40], b[41] = byte(sport>>8), byte(sport)
	b[42], b[43] = byte(dport>>8), byte(dport)
	b[44], b[45] = byte(pl>>8), byte(pl)
	copy(b[48:], payload)
	return b
}

func nsUDP(src, dst netip.Addr, sport, dport uint16, payload []byte) []byte {
	if dst.Is4() {
		return nsUDP4(src, dst, sport, dport, payload)
	}
	return nsUDP6(src, dst, sport, dport, payload)
}

// nsHostSnapshot is a comparable view of one tunnel.
type nsHostSnapshot struct {
	Local, Remote uint32
	VpnAddrs      string
	RemoteAddr    netip.AddrPort
	Initiator     bool
	HasCS         bool
	CertFP        string
}

// snapshotMain lists the main hostmap of a node: per overlay address the tunnel list (primary first).
func (n *nsNode) snapshotMain() (byAddr map[netip.Addr][]nsHostSnapshot, byIndex map[uint32]nsHostSnapshot) {
	hm := n.ctrl.f.hostMap
	hm.RLock()
	defer hm.RUnlock()
	byAddr = map[netip.Addr][]nsHostSnapshot{}
	byIndex = map[uint32]nsHostSnapshot{}
	snap := func(h *HostInfo) nsHostSnapshot {
		hs := nsHostSnapshot{Local: h.localIndexId, Remote: h.remoteIndexId, VpnAddrs: fmt.Sprint(h.vpnAddrs), RemoteAddr: h.GetRemote()}
		if h.ConnectionState != nil {
			hs.HasCS = true
			hs.Initiator = h.ConnectionState.initiator
			if h.ConnectionState.peerCert != nil {
				hs.CertFP = h.ConnectionState.peerCert.Fingerprint
			}
		}
		return hs
	}
	for a, h := range hm.Hosts {
		if list, ok := hm.moreHosts[a]; ok {
			for _, c := range list {
				byAddr[a] = append(byAddr[a], snap(c))
			}
		} else {
			byAddr[a] = append(byAddr[a], snap(h))
		}
	}
	for i, h := range hm.Indexes {
		byIndex[i] = snap(h)
	}
	return
}

func (n *nsNode) pendingCount() int {
	hm := n.ctrl.f.handshakeManager
	hm.RLock()
	defer hm.RUnlock()
	return len(hm.vpnIps)
}

func nsSortedAddrs(m map[netip.Addr][]nsHostSnapshot) []netip.Addr {
	var r []netip.Addr
	for a := range m {
		r = append(r, a)
	}
	sort.Slice(r, func(i, j int) bool { return r[i].Less(r[j]) })
	return r
}

// nsBubble runs prop inside a synctest bubble tied to the rapid case; the simulator is always
// shut down so that the bubble can end, and a failure carries the simulator trace.
func nsBubble(rt *rapid.T, prop func(rt *rapid.T, s *nsSim)) {
	// deterministic cryptographic randomness (keys, ephemeral keys, tunnel indexes) per case, so a
	// case is as close to a pure function of its rapid draws as the Go runtime allows (map iteration
	// order and goroutine wake-up order inside one virtual instant remain outside our control).
	if nsT != nil {
		cryptotest.SetGlobalRandom(nsT, rapid.Uint64().Draw(rt, "cryptoSeed"))
	}
	rapid.SyncTest(rt, func(rt *rapid.T) {
		s := nsNewSim()
		defer s.shutdown()
		prop(rt, s)
	})
}

var _ = io.EOF

// nsT is the *testing.T of the running test (set by nsSetT); needed for cryptotest.SetGlobalRandom.
var nsT *testing.T

func nsSetT(t *testing.T) { nsT = t }
