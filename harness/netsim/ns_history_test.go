//go:build e2e_testing

package nebula

// Generic adversarial history driver for the E-netsim checks. A rapid-drawn sequence of network
// and node operations is applied to a generated world; after every step the invariant library of
// ns_world_test.go runs. Individual properties select the world options, the operation alphabet
// and extra per-step oracles.

import (
	"bytes"
	"fmt"
	"net/netip"
	"os"
	"strings"
	"time"

	"github.com/slackhq/nebula/header"
	"go.yaml.in/yaml/v3"
	"pgregory.net/rapid"
	"verifkit/vk"
)

type nsHistOpts struct {
	pid      string
	world    nsWorldOpts
	minSteps int
	maxSteps int
	ops      []string // operation alphabet (weights by repetition)
	// afterStep runs after the shared invariants.
	afterStep func(rt *rapid.T, w *nsWorld, h *nsHist)
	// preDeliver / postDeliver bracket every datagram delivery to a live node.
	preDeliver  func(rt *rapid.T, w *nsWorld, h *nsHist, p *nsPacket, from netip.AddrPort, x *nsNode)
	postDeliver func(rt *rapid.T, w *nsWorld, h *nsHist, p *nsPacket, from netip.AddrPort, x *nsNode)
	// customOp handles property-specific operations; it returns false for operations it does not know.
	customOp func(rt *rapid.T, h *nsHist, op string) bool
}

type nsHist struct {
	o         *nsHistOpts
	rt        *rapid.T
	w         *nsWorld
	steps     []string
	delivered map[int]map[int]bool // packet id -> node idx -> delivered
	stats     map[string]int
	mutants   int
	mutHit    int // mutants that passed header parsing / subtype validation and named an existing index
}

func (h *nsHist) note(format string, a ...any) {
	s := fmt.Sprintf(format, a...)
	h.steps = append(h.steps, s)
	h.w.s.logf("%s", s)
}

func (h *nsHist) markDelivered(p *nsPacket, node int) {
	if h.delivered[p.ID] == nil {
		h.delivered[p.ID] = map[int]bool{}
	}
	h.delivered[p.ID][node] = true
}

func (h *nsHist) deliverPkt(p *nsPacket) {
	// a second copy of something the receiver already consumed must be inert (checked inside)
	nsDeliverUnauth(h.rt, h, p, p.From, p.To, "redelivery")
}

func (h *nsHist) flush(rounds int) {
	for r := 0; r < rounds; r++ {
		h.w.s.settle()
		ps := h.w.s.takeInflight()
		if len(ps) == 0 {
			return
		}
		for _, p := range ps {
			h.deliverPkt(p)
		}
	}
}

func (h *nsHist) runFor(d, step time.Duration) {
	for el := time.Duration(0); el < d; el += step {
		h.flush(40)
		// check before virtual time moves on, so that "valid when the handshake completed" is judged
		// at the instant of completion
		nsSharedInvariants(h.rt, h)
		if h.o != nil && h.o.afterStep != nil {
			h.o.afterStep(h.rt, h.w, h)
		}
		time.Sleep(step)
		h.w.s.settle()
	}
	h.flush(40)
}

var nsDefaultOps = []string{
	"tun", "tun", "tun", "deliver", "deliver", "deliver", "flush", "flush", "drop", "dup", "replay", "replay",
	"mutate", "mutate", "mutate", "advance", "advance", "close", "rehandshake",
}

// nsRunHistory draws and executes a history; returns the history record for evidence.
func nsRunHistory(rt *rapid.T, s *nsSim, o nsHistOpts) *nsHist {
	w := nsGenWorld(rt, s, o.world)
	w.pid = o.pid
	h := &nsHist{o: &o, rt: rt, w: w, delivered: map[int]map[int]bool{}, stats: map[string]int{}}
	w.startAll(rt)
	defer func() {
		if r := recover(); r != nil {
			// attach world and history so the failure is readable, then re-panic for rapid
			fmt.Printf("---- netsim world: %s\n---- netsim history (%d steps) ----\n%s\n", w.describe(), len(h.steps), strings.Join(h.steps, "\n"))
			if os.Getenv("VERIF_NS_LOGS") != "" {
				for _, n := range w.nodes {
					if n != nil {
						fmt.Printf("---- log of %s ----\n%s\n", n.name, n.logBuf.String())
					}
				}
			}
			panic(r)
		}
	}()
	ops := o.ops
	if len(ops) == 0 {
		ops = nsDefaultOps
	}
	nsteps := rapid.IntRange(o.minSteps, o.maxSteps).Draw(rt, "nsteps")
	for step := 0; step < nsteps; step++ {
		op := rapid.SampledFrom(ops).Draw(rt, "op")
		h.stats[op]++
		if o.customOp == nil || !o.customOp(rt, h, op) {
			nsApplyOp(rt, h, op)
		}
		nsSharedInvariants(rt, h)
		if o.afterStep != nil {
			o.afterStep(rt, w, h)
		}
	}
	// fair ending: deliver everything and let timers run for a while
	h.runFor(3*time.Second, 100*time.Millisecond)
	nsSharedInvariants(rt, h)
	if o.afterStep != nil {
		o.afterStep(rt, w, h)
	}
	return h
}

func nsSharedInvariants(rt *rapid.T, h *nsHist) {
	w := h.w
	w.checkTun(rt)
	_, fresh := w.checkHostmaps(rt)
	if fresh > 0 {
		w.checkKeyOwnership(rt)
	}
	w.checkUDPDestinations(rt, nil)
	w.checkPending(rt)
}

func nsPickLive(rt *rapid.T, w *nsWorld, label string) int {
	var live []int
	for i := range w.nodes {
		if w.live(i) {
			live = append(live, i)
		}
	}
	if len(live) == 0 {
		return -1
	}
	return live[rapid.IntRange(0, len(live)-1).Draw(rt, label)]
}

func nsApplyOp(rt *rapid.T, h *nsHist, op string) {
	w, s := h.w, h.w.s
	switch op {
	case "tun":
		src := nsPickLive(rt, w, "tun.src")
		dst := rapid.IntRange(0, len(w.specs)-1).Draw(rt, "tun.dst")
		if src < 0 || src == dst {
			return
		}
		addrs := w.specs[dst].nets
		da := addrs[rapid.IntRange(0, len(addrs)-1).Draw(rt, "tun.addr")].Addr()
		size := rapid.SampledFrom([]int{40, 200, 1200}).Draw(rt, "tun.size")
		if rec := w.sendTagged(src, dst, da, size); rec != nil {
			h.note("tun %s -> %s (%v) %s", w.specs[src].name, w.specs[dst].name, da, rec.tag)
		}
	case "deliver":
		fl := s.peekInflight()
		if len(fl) == 0 {
			return
		}
		p := fl[rapid.IntRange(0, len(fl)-1).Draw(rt, "deliver.idx")]
		s.removeInflight(p.ID)
		h.note("deliver %v", p)
		h.deliverPkt(p)
	case "flush":
		h.note("flush")
		h.flush(30)
	case "drop":
		fl := s.peekInflight()
		if len(fl) == 0 {
			return
		}
		p := fl[rapid.IntRange(0, len(fl)-1).Draw(rt, "drop.idx")]
		s.removeInflight(p.ID)
		h.note("drop %v", p)
	case "dup":
		fl := s.peekInflight()
		if len(fl) == 0 {
			return
		}
		p := fl[rapid.IntRange(0, len(fl)-1).Draw(rt, "dup.idx")]
		h.note("dup-deliver %v", p)
		nsDeliverUnauth(rt, h, p, p.From, p.To, "dup")
	case "replay":
		s.mu.Lock()
		hist := append([]*nsPacket{}, s.history...)
		s.mu.Unlock()
		if len(hist) == 0 {
			return
		}
		p := nsPickByClass(rt, hist, "replay")
		from := p.From
		switch rapid.IntRange(0, 6).Draw(rt, "replay.foreign") {
		case 0:
			from = netip.AddrPortFrom(netip.AddrFrom4([4]byte{192, 0, 2, byte(1 + rapid.IntRange(0, 3).Draw(rt, "replay.src"))}), 5555)
		case 1:
			from = netip.AddrPortFrom(p.From.Addr(), p.From.Port()+uint16(rapid.SampledFrom([]int{1, 2, 1000}).Draw(rt, "replay.port")))
		case 2:
			// an underlay source inside the receiver's own overlay network (the datagram came in through
			// one of its own tunnels, or somebody spoofs such an address)
			if a, ok := nsInsideOverlayOf(w, p.To); ok {
				from = a
			}
		}
		h.note("replay %v from %v", p, from)
		nsDeliverUnauth(rt, h, p, from, p.To, "replay")
	case "mutate":
		nsMutateOp(rt, h)
	case "advance":
		d := rapid.SampledFrom([]time.Duration{time.Millisecond, 50 * time.Millisecond, 100 * time.Millisecond, 500 * time.Millisecond, 2 * time.Second, 7 * time.Second, 30 * time.Second}).Draw(rt, "advance.d")
		h.note("advance %v", d)
		s.advance(d)
	case "close":
		x := nsPickLive(rt, w, "close.node")
		y := rapid.IntRange(0, len(w.specs)-1).Draw(rt, "close.peer")
		if x < 0 || x == y {
			return
		}
		local := rapid.Bool().Draw(rt, "close.local")
		ok := w.nodes[x].ctrl.CloseTunnel(w.specs[y].nets[0].Addr(), local)
		s.settle()
		h.note("close %s->%s localOnly=%v had=%v", w.specs[x].name, w.specs[y].name, local, ok)
	case "rehandshake":
		x := nsPickLive(rt, w, "rehs.node")
		y := rapid.IntRange(0, len(w.specs)-1).Draw(rt, "rehs.peer")
		if x < 0 || x == y {
			return
		}
		w.nodes[x].ctrl.ReHandshake(w.specs[y].nets[0].Addr())
		s.settle()
		h.note("rehandshake %s->%s", w.specs[x].name, w.specs[y].name)
	case "blocklistReload":
		// node x reloads its configuration with identity y blocklisted (pki.blocklist is reloadable);
		// from this instant x must not complete a handshake with y, including one already under way
		x := nsPickLive(rt, w, "bl.node")
		y := rapid.IntRange(0, len(w.specs)-1).Draw(rt, "bl.peer")
		if x < 0 || x == y || w.nodes[y] == nil || w.dynBlock[x][y] {
			return
		}
		n := w.nodes[x]
		mc := nsM{}
		if err := yaml.Unmarshal([]byte(n.rawCfg), &mc); err != nil {
			rt.Fatalf("yaml: %v", err)
		}
		pk, _ := mc["pki"].(nsM)
		var bl []string
		if old, ok := pk["blocklist"].([]any); ok {
			for _, o := range old {
				bl = append(bl, fmt.Sprint(o))
			}
		}
		for _, c := range w.nodes[y].id.certs {
			fp, _ := c.Fingerprint()
			bl = append(bl, fp)
		}
		pk["blocklist"] = bl
		b, _ := yaml.Marshal(mc)
		n.rawCfg = string(b)
		if err := n.cfg.ReloadConfigString(string(b)); err != nil {
			rt.Fatalf("reload: %v", err)
		}
		s.settle()
		if w.dynBlock == nil {
			w.dynBlock = map[int]map[int]bool{}
		}
		if w.dynBlock[x] == nil {
			w.dynBlock[x] = map[int]bool{}
		}
		w.dynBlock[x][y] = true
		h.note("%s reloads with %s blocklisted", w.specs[x].name, w.specs[y].name)
	case "stop":
		x := nsPickLive(rt, w, "stop.node")
		if x < 0 {
			return
		}
		h.note("stop %s", w.specs[x].name)
		if !s.stopNode(w.nodes[x]) {
			rt.Fatalf("Stop/Wait of node %s did not return", w.specs[x].name)
		}
	}
}

// nsDeliverUnauth delivers a packet that is a copy / replay / mutant of genuine traffic and, when
// the receiving node has already consumed the original (or the bytes are not genuine at all),
// requires that the delivery changes nothing (C12 / C14).
func nsDeliverUnauth(rt *rapid.T, h *nsHist, p *nsPacket, from, to netip.AddrPort, kind string) {
	s := h.w.s
	x := s.nodeByUDP(to)
	if x == nil || !x.started {
		return
	}
	hd, okh := nsHeaderOf(p.Data)
	genuine := p.Src >= 0
	alreadyConsumed := genuine && h.delivered[p.ID][x.idx]
	mustBeInert := (!genuine || alreadyConsumed)
	// handshake packets are judged by C05/C10; recv_error is the documented unauthenticated path
	if okh && hd.Type == header.Handshake {
		mustBeInert = false
	}
	if okh && hd.Type == header.RecvError {
		// model of the documented path: a recv_error closes exactly the tunnel whose remote index it
		// names, and only when it comes from that tunnel's current underlay address
		mustBeInert = true
		hm := x.ctrl.f.hostMap
		hm.RLock()
		if t := hm.RemoteIndexes[hd.RemoteIndex]; t != nil && hd.Version == header.Version && hd.Subtype == 0 {
			if r := t.GetRemote(); !r.IsValid() || r == from {
				mustBeInert = false
			}
		}
		hm.RUnlock()
	}
	if !okh {
		// too short to be anything; must be inert as well
		mustBeInert = true
	}
	var pre string
	var inFlags map[*HostInfo]bool
	if mustBeInert {
		inFlags = map[*HostInfo]bool{}
		for _, t := range x.allTunnels() {
			inFlags[t] = t.in.Load()
			t.in.Store(false)
		}
		pre = x.digest()
	}
	preTun := s.tunOutLen(x)
	cp := &nsPacket{ID: p.ID, From: from, To: to, Data: p.Data, Src: p.Src}
	if h.o != nil && h.o.preDeliver != nil {
		h.o.preDeliver(rt, h.w, h, cp, from, x)
	}
	reached := s.deliver(cp)
	if reached && h.o != nil && h.o.postDeliver != nil {
		// (a datagram lost to a blocked path never reached the node: nothing to judge)
		h.o.postDeliver(rt, h.w, h, cp, from, x)
	}
	if genuine && !alreadyConsumed && okh && nsConsumed(x, hd) {
		h.markDelivered(p, x.idx)
	}
	if mustBeInert {
		post := x.digest()
		for t, v := range inFlags {
			if v {
				t.in.Store(true)
			}
		}
		if post != pre {
			rt.Fatalf("%s of %v (from %v) changed the state of node %s although it carries nothing new from the tunnel's peer:\n%s", kind, p, from, x.name, nsDiff(pre, post))
		}
		if s.tunOutLen(x) != preTun {
			rt.Fatalf("%s of %v (from %v) was delivered to the tun device of node %s", kind, p, from, x.name)
		}
		vk.Label(h.w.pidLabel(), kind+":inert-checked")
	}
}

func (w *nsWorld) pidLabel() string {
	if w.pid == "" {
		return "NS"
	}
	return w.pid
}

func nsMutateOp(rt *rapid.T, h *nsHist) {
	w, s := h.w, h.w.s
	s.mu.Lock()
	hist := append([]*nsPacket{}, s.history...)
	s.mu.Unlock()
	if len(hist) == 0 {
		return
	}
	// prefer encrypted traffic (data, lighthouse, test, control, relay, close): handshake packets are
	// not subject to the no-effect oracle
	var enc []*nsPacket
	for _, q := range hist {
		if qh, ok := nsHeaderOf(q.Data); ok && qh.Type != header.Handshake && qh.Type != header.RecvError {
			enc = append(enc, q)
		}
	}
	pool := hist
	if len(enc) > 0 && rapid.IntRange(0, 9).Draw(rt, "mut.enc") < 8 {
		pool = enc
	}
	p := nsPickByClass(rt, pool, "mut")
	if len(p.Data) < header.Len {
		return
	}
	data := append([]byte{}, p.Data...)
	kind := rapid.SampledFrom([]string{"flip", "flip", "truncate", "append", "counter", "index", "type", "splice", "zero-tag", "recverr"}).Draw(rt, "mut.kind")
	desc := kind
	hd, _ := nsHeaderOf(data)
	to := p.To
	switch kind {
	case "flip":
		off := rapid.IntRange(0, len(data)-1).Draw(rt, "mut.off")
		if rapid.Bool().Draw(rt, "mut.inHeader") {
			off = rapid.IntRange(0, header.Len-1).Draw(rt, "mut.hoff")
		}
		bit := rapid.IntRange(0, 7).Draw(rt, "mut.bit")
		data[off] ^= 1 << bit
		desc = fmt.Sprintf("flip byte %d bit %d", off, bit)
	case "truncate":
		k := rapid.IntRange(0, len(data)-1).Draw(rt, "mut.len")
		data = data[:k]
		desc = fmt.Sprintf("truncate to %d", k)
	case "append":
		n := rapid.IntRange(1, 20).Draw(rt, "mut.n")
		data = append(data, bytes.Repeat([]byte{0xa5}, n)...)
		desc = fmt.Sprintf("append %d bytes", n)
	case "counter":
		delta := rapid.SampledFrom([]int64{1, -1, 2, 64, 8192, 1 << 40}).Draw(rt, "mut.delta")
		nsSetHeader(data, hd.Type, hd.Subtype, hd.RemoteIndex, hd.MessageCounter+uint64(delta))
		desc = fmt.Sprintf("counter %+d", delta)
	case "index":
		// any index known on any node (tunnel or relay index), so the mutant hits existing state
		var idxs []uint32
		for i := range w.nodes {
			if !w.live(i) {
				continue
			}
			hm := w.nodes[i].ctrl.f.hostMap
			hm.RLock()
			for k := range hm.Indexes {
				idxs = append(idxs, k)
			}
			for k := range hm.Relays {
				idxs = append(idxs, k)
			}
			hm.RUnlock()
		}
		if len(idxs) == 0 {
			return
		}
		sortU32(idxs)
		ni := idxs[rapid.IntRange(0, len(idxs)-1).Draw(rt, "mut.newidx")]
		if ni == hd.RemoteIndex {
			return
		}
		nsSetHeader(data, hd.Type, hd.Subtype, ni, hd.MessageCounter)
		// send it to whoever owns that index
		for i := range w.nodes {
			if !w.live(i) {
				continue
			}
			hm := w.nodes[i].ctrl.f.hostMap
			hm.RLock()
			_, a := hm.Indexes[ni]
			_, b := hm.Relays[ni]
			hm.RUnlock()
			if a || b {
				to = w.nodes[i].udpAddr
			}
		}
		desc = fmt.Sprintf("index -> %d", ni)
	case "type":
		combos := [][2]uint8{{1, 0}, {1, 1}, {3, 0}, {4, 0}, {4, 1}, {5, 0}, {6, 0}, {2, 0}}
		c := combos[rapid.IntRange(0, len(combos)-1).Draw(rt, "mut.combo")]
		if header.MessageType(c[0]) == hd.Type && header.MessageSubType(c[1]) == hd.Subtype {
			return
		}
		nsSetHeader(data, header.MessageType(c[0]), header.MessageSubType(c[1]), hd.RemoteIndex, hd.MessageCounter)
		desc = fmt.Sprintf("type -> %d/%d", c[0], c[1])
	case "splice":
		q := hist[rapid.IntRange(0, len(hist)-1).Draw(rt, "mut.other")]
		if len(q.Data) < header.Len || q.ID == p.ID {
			return
		}
		data = append(append([]byte{}, p.Data[:header.Len]...), q.Data[header.Len:]...)
		desc = fmt.Sprintf("header of #%d on body of #%d", p.ID, q.ID)
	case "recverr":
		// forged recv_error naming the remote index of a tunnel the receiver holds
		x := s.nodeByUDP(p.To)
		if x == nil {
			return
		}
		ts := x.allTunnels()
		if len(ts) == 0 {
			return
		}
		t := ts[rapid.IntRange(0, len(ts)-1).Draw(rt, "mut.tunnel")]
		data = make([]byte, header.Len)
		nsSetHeader(data, header.RecvError, 0, t.remoteIndexId, 0)
		desc = fmt.Sprintf("forged recv_error for remote index %d", t.remoteIndexId)
	case "zero-tag":
		if len(data) < header.Len+16 {
			return
		}
		for i := len(data) - 16; i < len(data); i++ {
			data[i] = 0
		}
	}
	// a mutant that happens to equal a genuine packet is a replay, not a forgery
	for _, q := range hist {
		if bytes.Equal(q.Data, data) {
			return
		}
	}
	from := p.From
	switch rapid.IntRange(0, 5).Draw(rt, "mut.foreign") {
	case 0, 1:
		from = netip.AddrPortFrom(netip.AddrFrom4([4]byte{198, 51, 100, byte(1 + rapid.IntRange(0, 3).Draw(rt, "mut.src"))}), 6666)
	case 2:
		// the genuine sender's host, another UDP port (somebody else behind the same NAT, another process)
		from = netip.AddrPortFrom(p.From.Addr(), p.From.Port()+uint16(rapid.SampledFrom([]int{1, 2, 1000}).Draw(rt, "mut.port")))
	}
	h.mutants++
	if mh, ok := nsHeaderOf(data); ok && mh.Version == header.Version && mh.IsValidSubType() {
		if x := s.nodeByUDP(to); x != nil {
			hm := x.ctrl.f.hostMap
			hm.RLock()
			_, a := hm.Indexes[mh.RemoteIndex]
			_, b := hm.Relays[mh.RemoteIndex]
			hm.RUnlock()
			if a || b {
				h.mutHit++
			}
		}
	}
	m := &nsPacket{ID: -1, From: from, To: to, Data: data, Src: -1}
	h.note("mutant of #%d (%s): %v", p.ID, desc, m)
	nsDeliverUnauth(rt, h, m, from, to, "mutant")
}

func sortU32(a []uint32) {
	for i := 1; i < len(a); i++ {
		for j := i; j > 0 && a[j] < a[j-1]; j-- {
			a[j], a[j-1] = a[j-1], a[j]
		}
	}
}

// countWire counts genuine packets seen on the wire whose header satisfies pred.
func (h *nsHist) countWire(pred func(header.H) bool) int {
	h.w.s.mu.Lock()
	defer h.w.s.mu.Unlock()
	n := 0
	for _, p := range h.w.s.history {
		if hd, ok := nsHeaderOf(p.Data); ok && pred(hd) {
			n++
		}
	}
	return n
}

// nsPickByClass picks a packet by first choosing a (type, subtype) class uniformly and then a
// packet of that class, so rare kinds (relay, control, lighthouse, close) are exercised as often
// as the abundant ones.
func nsPickByClass(rt *rapid.T, pkts []*nsPacket, label string) *nsPacket {
	classes := map[int][]*nsPacket{}
	var keys []int
	for _, q := range pkts {
		k := -1
		if qh, ok := nsHeaderOf(q.Data); ok {
			k = int(qh.Type)<<8 | int(qh.Subtype)
		}
		if _, ok := classes[k]; !ok {
			keys = append(keys, k)
		}
		classes[k] = append(classes[k], q)
	}
	for i := 1; i < len(keys); i++ {
		for j := i; j > 0 && keys[j] < keys[j-1]; j-- {
			keys[j], keys[j-1] = keys[j-1], keys[j]
		}
	}
	c := classes[keys[rapid.IntRange(0, len(keys)-1).Draw(rt, label+".class")]]
	return c[rapid.IntRange(0, len(c)-1).Draw(rt, label+".idx")]
}

// nsConsumed reports whether node x has accepted counter hd.MessageCounter on the tunnel (or relay
// tunnel) that hd.RemoteIndex names: its replay window no longer admits the counter. Only then is a
// further copy of the packet required to be inert.
func nsConsumed(x *nsNode, hd header.H) bool {
	hm := x.ctrl.f.hostMap
	hm.RLock()
	var t *HostInfo
	if hd.Type == header.Message && hd.Subtype == header.MessageRelay {
		t = hm.Relays[hd.RemoteIndex]
	} else {
		t = hm.Indexes[hd.RemoteIndex]
	}
	hm.RUnlock()
	if t == nil || t.ConnectionState == nil {
		return false
	}
	cs := t.ConnectionState
	cs.decryptLock.Lock()
	defer cs.decryptLock.Unlock()
	return !cs.window.Check(x.ctrl.l, hd.MessageCounter)
}

// nsInsideOverlayOf returns an underlay address that lies inside the first IPv4 overlay network of the
// node listening on to (an address no peer of the world uses).
func nsInsideOverlayOf(w *nsWorld, to netip.AddrPort) (netip.AddrPort, bool) {
	for i, sp := range w.specs {
		if sp.udp != to || !w.live(i) {
			continue
		}
		for _, n := range sp.nets {
			if n.Addr().Is4() {
				b := n.Masked().Addr().As4()
				b[3] = 250
				return netip.AddrPortFrom(netip.AddrFrom4(b), 4242), true
			}
		}
	}
	return netip.AddrPort{}, false
}
