//go:build e2e_testing

package nebula

import (
	"fmt"
	"net/netip"
	"runtime"
	"strings"
	"testing"
	"testing/synctest"
	"time"

	"github.com/slackhq/nebula/overlay"
	"github.com/slackhq/nebula/udp"
	"go.yaml.in/yaml/v3"
	"pgregory.net/rapid"
	"verifkit/vk"
)

// C49 - stopping a node at any point releases everything (DESIGN.md section 4).
//
// Generated worlds (hosts, optional lighthouse and relay, partitions so that relayed tunnels and
// queued lighthouse work exist) run a generated history; Control.Stop is injected at generated
// points on one, several or all nodes: before Start, right after Start, while handshakes are
// pending, with live and relayed tunnels, right after a config reload, and twice in a row.
//
// Oracle: Stop and Wait return within bounded virtual time without the harness delivering anything;
// afterwards the node's UDP socket and tun device are closed; and once every node is stopped no
// goroutine with nebula frames is left (the synctest bubble could not even end otherwise).
func c49NebulaGoroutines() []string {
	buf := make([]byte, 4<<20)
	n := runtime.Stack(buf, true)
	var leaked []string
	for _, g := range strings.Split(string(buf[:n]), "\n\n") {
		if !strings.Contains(g, "github.com/slackhq/nebula") {
			continue
		}
		if strings.Contains(g, "zz_verif_") || strings.Contains(g, "testing.tRunner") || strings.Contains(g, "testing.(*T).Run") || strings.Contains(g, "pgregory.net/rapid") {
			continue
		}
		leaked = append(leaked, g)
	}
	return leaked
}

func c49CheckClosed(rt *rapid.T, n *nsNode) {
	// The tester socket picks at random between "closed" and "room in the transmit channel", so stop
	// this node's pump and write more datagrams than the channel holds: once it is full only the
	// closed signal can complete a write; an open socket blocks instead.
	close(n.stopPump)
	synctest.Wait()
	// every socket the node opened (one per configured routine, whether or not a routine ended up using it)
	for wi, wr := range n.ctrl.f.writers {
		conn, ok := wr.(*udp.TesterConn)
		if !ok {
			continue
		}
		res := make(chan error, 1)
		go func() {
			var err error
			for i := 0; i < cap(conn.TxPackets)+2 && err == nil; i++ {
				err = conn.WriteTo([]byte{1}, netip.MustParseAddrPort("192.0.2.1:1"))
			}
			res <- err
		}()
		synctest.Wait()
		select {
		case err := <-res:
			if err == nil {
				rt.Fatalf("node %s: UDP socket %d of %d still accepts writes after Stop", n.name, wi, len(n.ctrl.f.writers))
			}
		default:
			for len(conn.TxPackets) > 0 {
				<-conn.TxPackets
			}
			rt.Fatalf("node %s: UDP socket %d of %d is still open after Stop (a write blocks instead of failing)", n.name, wi, len(n.ctrl.f.writers))
		}
	}
	if _, err := n.ctrl.f.inside.(*overlay.TestTun).Write([]byte{0x45}); err == nil {
		rt.Fatalf("node %s: the tun device still accepts writes after Stop", n.name)
	}
	if st := n.ctrl.State(); st != StateStopped {
		rt.Fatalf("node %s: state after Stop is %v", n.name, st)
	}
	select {
	case <-n.ctrl.Context().Done():
	default:
		rt.Fatalf("node %s: service context still live after Stop", n.name)
	}
	if err := n.ctrl.Start(); err == nil {
		rt.Fatalf("node %s: Start succeeded after Stop", n.name)
	}
}

func TestC49_StopAnywhere(t *testing.T) {
	nsSetT(t)
	vk.Check(t, 800, func(rt *rapid.T) {
		var phaseLabels []string
		nontrivial := false
		var steps []string
		nsBubble(rt, func(rt *rapid.T, s *nsSim) {
			// a small lighthouse query buffer (configurable upstream, default 64) lets a handful of tunnels
			// reach the "queue full" states that otherwise need dozens of peers
			qbuf := rapid.SampledFrom([]int{64, 64, 1, 2}).Draw(rt, "queryBuffer")
			w := nsGenWorld(rt, s, nsWorldOpts{minHosts: 2, maxHosts: 4, lighthouse: 0.6, relay: 0.5, partition: 0.5, v6: true, extra: func(sp *nsNodeSpec, cfg nsM) {
				cfg["handshakes"] = nsM{"query_buffer": qbuf}
				// more than one routine: the node opens that many sockets (the in-memory backend then runs
				// one reader all the same)
				if r := rapid.SampledFrom([]int{1, 1, 1, 2, 3}).Draw(rt, sp.name+".routines"); r > 1 {
					cfg["routines"] = r
				}
			}})
			w.pid = "C49"
			h := &nsHist{rt: rt, w: w, delivered: map[int]map[int]bool{}, stats: map[string]int{}}

			stop := func(i int, why string) {
				n := w.nodes[i]
				if n == nil || n.stopped {
					return
				}
				pend, tun, relayed := n.pendingCount(), 0, 0
				if n.started {
					ts := n.allTunnels()
					tun = len(ts)
					for _, t := range ts {
						t.relayState.RLock()
						relayed += len(t.relayState.relayForByIdx)
						t.relayState.RUnlock()
					}
				}
				h.note("stop %s (%s; started=%v pending=%d tunnels=%d relays=%d)", n.name, why, n.started, pend, tun, relayed)
				if !s.stopNode(n) {
					rt.Fatalf("Stop/Wait of node %s did not return within 5 s of virtual time (%s)\n%s", n.name, why, strings.Join(h.steps, "\n"))
				}
				c49CheckClosed(rt, n)
				if rapid.IntRange(0, 3).Draw(rt, "stopTwice") == 0 {
					n.ctrl.Stop() // must be a harmless no-op
					synctest.Wait()
					phaseLabels = append(phaseLabels, "stop-twice")
				}
				switch {
				case !n.started:
					phaseLabels = append(phaseLabels, "stop-before-start")
				case pend > 0:
					phaseLabels = append(phaseLabels, "stop-while-handshaking")
					nontrivial = true
				case relayed > 0:
					phaseLabels = append(phaseLabels, "stop-with-relayed-tunnels")
					nontrivial = true
				case tun > 0:
					phaseLabels = append(phaseLabels, "stop-with-live-tunnels")
					nontrivial = true
				default:
					phaseLabels = append(phaseLabels, "stop-idle")
				}
				phaseLabels = append(phaseLabels, "stop-"+why)
			}

			// some nodes may be stopped before they were ever started
			for i, n := range w.nodes {
				if n == nil {
					continue
				}
				if rapid.IntRange(0, 7).Draw(rt, fmt.Sprintf("prestop%d", i)) == 0 {
					stop(i, "never-started")
					continue
				}
				if err := s.startNode(n); err != nil {
					rt.Fatalf("start: %v", err)
				}
				if rapid.IntRange(0, 9).Draw(rt, fmt.Sprintf("stopAtStart%d", i)) == 0 {
					stop(i, "right-after-start")
				}
			}
			s.settle()

			nsteps := rapid.IntRange(3, 45).Draw(rt, "nsteps")
			ops := []string{"tun", "tun", "tun", "tun", "deliver", "deliver", "flush", "flush", "drop", "advance", "advance", "close", "rehandshake", "reload", "stop", "stop", "punchStorm", "rebind"}
			for step := 0; step < nsteps; step++ {
				op := rapid.SampledFrom(ops).Draw(rt, "op")
				switch op {
				case "reload":
					x := nsPickLive(rt, w, "reload.node")
					if x < 0 {
						continue
					}
					n := w.nodes[x]
					// change a firewall rule and a lighthouse interval: both have reload callbacks
					mc := nsM{}
					if err := yaml.Unmarshal([]byte(n.rawCfg), &mc); err != nil {
						rt.Fatalf("yaml: %v", err)
					}
					fw, _ := mc["firewall"].(nsM)
					if fw == nil {
						fw = nsM{}
					}
					fw["inbound"] = []nsM{{"proto": "any", "port": fmt.Sprint(1000 + step), "host": "any"}, {"proto": "any", "port": "any", "host": "any"}}
					mc["firewall"] = fw
					b, _ := yaml.Marshal(mc)
					if err := n.cfg.ReloadConfigString(string(b)); err != nil {
						rt.Fatalf("reload: %v", err)
					}
					h.note("reload %s", n.name)
					if rapid.IntRange(0, 2).Draw(rt, "stopAfterReload") == 0 {
						stop(x, "right-after-reload")
					}
					s.settle()
				case "rebind":
					// the underlay socket was rebound (roaming laptop): every tunnel re-queries the lighthouse on
					// its next send - including, possibly, the close messages of a Stop that follows
					x := nsPickLive(rt, w, "rebind.node")
					if x < 0 {
						continue
					}
					w.nodes[x].ctrl.RebindUDPServer()
					s.settle()
					h.note("rebind %s (%d tunnels)", w.nodes[x].name, len(w.nodes[x].allTunnels()))
					phaseLabels = append(phaseLabels, "rebind")
					if rapid.IntRange(0, 1).Draw(rt, "stopAfterRebind") == 0 {
						stop(x, "right-after-rebind")
					}
				case "punchStorm":
					// queued lighthouse work: what a burst of punch notifications leaves behind - many delayed
					// punch jobs waiting on their timers (1 s by default) when the node is stopped
					x := nsPickLive(rt, w, "storm.node")
					if x < 0 {
						continue
					}
					n := rapid.SampledFrom([]int{1, 10, 63, 64, 65, 100, 200}).Draw(rt, "storm.n")
					py := w.nodes[x].ctrl.f.lightHouse.punchy
					for k := 0; k < n; k++ {
						y := k % len(w.specs)
						py.Schedule(netip.AddrPortFrom(w.specs[y].udp.Addr(), uint16(20000+k)), w.specs[y].nets[0].Addr())
					}
					s.settle()
					h.note("punch storm at %s: %d delayed punch jobs queued", w.nodes[x].name, n)
					phaseLabels = append(phaseLabels, "punch-jobs-queued")
					if rapid.IntRange(0, 1).Draw(rt, "stopAfterStorm") == 0 {
						stop(x, "with-queued-punch-jobs")
					}
				case "stop":
					if rapid.IntRange(0, 4).Draw(rt, "stopAll") == 0 {
						for i := range w.nodes {
							if w.live(i) {
								stop(i, "all-at-once")
							}
						}
					} else if x := nsPickLive(rt, w, "stop.node"); x >= 0 {
						stop(x, "mid-history")
					}
				default:
					nsApplyOp(rt, h, op)
				}
				nsSharedInvariants(rt, h)
			}
			for i := range w.nodes {
				if w.nodes[i] != nil && !w.nodes[i].stopped {
					stop(i, "end-of-history")
				}
			}
			// every node is stopped: close the harness pumps and look for survivors
			s.shutdown()
			time.Sleep(10 * time.Second) // let any timer-driven straggler run
			synctest.Wait()
			if left := c49NebulaGoroutines(); len(left) > 0 {
				rt.Fatalf("%d goroutine(s) with nebula frames survived after every node was stopped:\n%s\n---- history ----\n%s", len(left), strings.Join(left, "\n\n"), strings.Join(h.steps, "\n"))
			}
			steps = h.steps
		})
		vk.Case("C49", strings.Join(steps, ";"), nontrivial, phaseLabels...)
		if vk.WantSample("C49") && nontrivial {
			st := steps
			if len(st) > 30 {
				st = st[:30]
			}
			vk.Sample("C49", map[string]any{"steps": st})
		}
	})
}
