//go:build e2e_testing

package nebula

import (
	"bytes"
	"fmt"
	"net/netip"
	"strings"
	"testing"
	"time"

	"github.com/slackhq/nebula/cert"
	"github.com/slackhq/nebula/handshake"
	"github.com/slackhq/nebula/header"
	"pgregory.net/rapid"
	"verifkit/vk"
)

// C10 - replayed handshakes do not create or replace tunnels (DESIGN.md section 4).
//
// Two or three honest nodes build up to seven tunnels per pair (re-handshakes from either side,
// rotation past the five-tunnel cap, teardown of some) with zero and non-zero virtual-time gaps;
// at arbitrary points any first handshake message ever seen on the wire is delivered again, from
// its original or a foreign underlay source.
//
// Oracle for a re-delivered first message m sent by peer P to responder X:
//  1. X still holds the tunnel created by m (byte-equal first message recorded): the set of tunnels
//     X holds for P and its primary are unchanged, and every handshake packet X emits in reaction is
//     byte-identical to the reply X originally put on the wire for that tunnel.
//  2. X no longer holds it: if X's primary for P was accepted as responder and the time the peer
//     reported for it is not older than m's, the tunnel set and primary are unchanged.
type c10View struct {
	primary uint32
	set     string
}

func c10ViewOf(x *nsNode, peerAddrs []netip.Addr) c10View {
	hm := x.ctrl.f.hostMap
	hm.RLock()
	defer hm.RUnlock()
	v := c10View{}
	seen := map[uint32]bool{}
	var ids []uint32
	for _, a := range peerAddrs {
		if h := hm.Hosts[a]; h != nil {
			if v.primary == 0 {
				v.primary = h.localIndexId
			}
			list := []*HostInfo{h}
			if l, ok := hm.moreHosts[a]; ok {
				list = l
			}
			for _, t := range list {
				if !seen[t.localIndexId] {
					seen[t.localIndexId] = true
					ids = append(ids, t.localIndexId)
				}
			}
		}
	}
	sortU32(ids)
	v.set = fmt.Sprint(ids)
	return v
}

func TestC10_ReplayedHandshakes(t *testing.T) {
	nsSetT(t)
	vk.Check(t, 1000, func(rt *rapid.T) {
		nsBubble(rt, func(rt *rapid.T, s *nsSim) {
			w := nsGenWorld(rt, s, nsWorldOpts{minHosts: 2, maxHosts: 3, staticAll: true, v6: true})
			w.pid = "C10"
			h := &nsHist{rt: rt, w: w, delivered: map[int]map[int]bool{}, stats: map[string]int{}}
			w.startAll(rt)
			ghostIdx, ghostCS := w.addGhost(rt)
			clashes := 0
			firstSeen := map[string]time.Time{} // stage-1 bytes -> virtual creation time
			noteStage1 := func() {
				s.mu.Lock()
				defer s.mu.Unlock()
				for _, p := range s.history {
					if hd, ok := nsHeaderOf(p.Data); ok && hd.Type == header.Handshake && hd.MessageCounter == 1 && p.Src >= 0 {
						if _, ok := firstSeen[string(p.Data)]; !ok {
							firstSeen[string(p.Data)] = s.start.Add(p.At)
						}
					}
				}
			}
			replaysHeld, replaysGone, replaysAfterLater := 0, 0, 0
			maxTunnels := 0
			nsteps := rapid.IntRange(10, 70).Draw(rt, "nsteps")
			for step := 0; step < nsteps; step++ {
				op := rapid.SampledFrom([]string{"tun", "tun", "flush", "flush", "flush", "deliver", "drop", "advance", "rehandshake", "rehandshake", "rehandshake", "close", "replay1", "replay1", "replay1", "replay1", "indexClash"}).Draw(rt, "op")
				switch op {
				case "indexClash":
					// Tunnel indexes are chosen by each initiator on its own: another (honest, accepted) peer
					// may well come up with the very index an earlier peer used towards the same responder.
					// The harness plays such a peer and completes a handshake as initiator under the
					// initiator index of a tunnel the responder still holds.
					s.mu.Lock()
					var cands []*nsPacket
					for _, p := range s.history {
						if hd, ok := nsHeaderOf(p.Data); ok && hd.Type == header.Handshake && hd.MessageCounter == 1 && p.Src >= 0 {
							cands = append(cands, p)
						}
					}
					s.mu.Unlock()
					if len(cands) == 0 {
						continue
					}
					p := cands[rapid.IntRange(0, len(cands)-1).Draw(rt, "clash.idx")]
					x := s.nodeByUDP(p.To)
					if x == nil || !x.started {
						continue
					}
					var held *HostInfo
					for _, t := range x.allTunnels() {
						if bytes.Equal(t.HandshakePacket[handshakePacketStage0], p.Data[header.Len:]) {
							held = t
						}
					}
					if held == nil {
						continue
					}
					idx := held.remoteIndexId
					gm, err := handshake.NewMachine(cert.Version2, ghostCS.GetCredential,
						func(c cert.Certificate) (*cert.CachedCertificate, error) {
							fp, _ := c.Fingerprint()
							return &cert.CachedCertificate{Certificate: c, Fingerprint: fp}, nil
						},
						func() (uint32, error) { return idx, nil }, true, header.HandshakeIXPSK0)
					if err != nil {
						rt.Fatalf("harness: ghost machine: %v", err)
					}
					m1, err := gm.Initiate(nil)
					if err != nil {
						rt.Fatalf("harness: ghost initiate: %v", err)
					}
					h.note("ghost peer handshakes with %s under initiator index %d (the index of %v)", x.name, idx, p)
					s.deliver(&nsPacket{ID: -1, From: w.specs[ghostIdx].udp, To: p.To, Data: m1, Src: -1})
					s.settle()
					clashes++
					vk.Label("C10", "another-peer-reuses-an-initiator-index")
				case "advance":
					d := rapid.SampledFrom([]time.Duration{0, time.Nanosecond, time.Millisecond, 100 * time.Millisecond, time.Second, 3 * time.Second}).Draw(rt, "d")
					if d > 0 {
						s.advance(d)
					}
					h.note("advance %v", d)
				case "replay1":
					noteStage1()
					s.mu.Lock()
					var cands []*nsPacket
					for _, p := range s.history {
						if hd, ok := nsHeaderOf(p.Data); ok && hd.Type == header.Handshake && hd.MessageCounter == 1 && p.Src >= 0 {
							cands = append(cands, p)
						}
					}
					s.mu.Unlock()
					if len(cands) == 0 {
						continue
					}
					p := cands[rapid.IntRange(0, len(cands)-1).Draw(rt, "replay.idx")]
					x := s.nodeByUDP(p.To)
					if x == nil || !x.started {
						continue
					}
					var peer *nsNode
					for _, n := range s.nodes {
						if n.idx == p.Src {
							peer = n
						}
					}
					from := p.From
					if rapid.IntRange(0, 2).Draw(rt, "foreign") == 0 {
						from = netip.AddrPortFrom(netip.AddrFrom4([4]byte{203, 0, 113, 7}), 4242)
					}
					// what does the responder hold?
					var held *HostInfo
					laterHandshake := false
					for _, t := range x.allTunnels() {
						if bytes.Equal(t.HandshakePacket[handshakePacketStage0], p.Data[header.Len:]) {
							held = t
						}
					}
					pre := c10ViewOf(x, peer.id.addrs())
					var prim *HostInfo
					x.ctrl.f.hostMap.RLock()
					prim = x.ctrl.f.hostMap.Hosts[peer.id.addrs()[0]]
					x.ctrl.f.hostMap.RUnlock()
					if held != nil && prim != nil && prim != held {
						laterHandshake = true
					}
					s.settle()
					s.mu.Lock()
					histBefore := len(s.history)
					s.mu.Unlock()
					cp := &nsPacket{ID: p.ID, From: from, To: p.To, Data: p.Data, Src: p.Src}
					h.note("replay stage-1 %v from %v (held=%v)", p, from, held != nil)
					s.deliver(cp)
					post := c10ViewOf(x, peer.id.addrs())
					s.mu.Lock()
					emitted := append([]*nsPacket{}, s.history[histBefore:]...)
					s.mu.Unlock()
					if held != nil {
						replaysHeld++
						if laterHandshake {
							replaysAfterLater++
						}
						if pre != post {
							rt.Fatalf("re-delivering the first handshake message of a tunnel node %s still holds changed its tunnels for %s: before %+v after %+v\n%s", x.name, peer.name, pre, post, strings.Join(h.steps, "\n"))
						}
						// the original reply as seen on the wire
						var orig []byte
						s.mu.Lock()
						for _, q := range s.history[:histBefore] {
							if qh, ok := nsHeaderOf(q.Data); ok && q.Src == x.idx && qh.Type == header.Handshake && qh.MessageCounter == 2 && qh.RemoteIndex == held.remoteIndexId && q.To != w.specs[ghostIdx].udp {
								// the most recent one belongs to the tunnel still held: an older reply with the same
								// initiator index comes from a tunnel that was torn down and re-created from the same
								// first message, and later copies are byte-identical resends (checked below)
								orig = q.Data
							}
						}
						s.mu.Unlock()
						for _, q := range emitted {
							if q.Src != x.idx {
								continue
							}
							if qh, ok := nsHeaderOf(q.Data); ok && qh.Type == header.Handshake {
								if orig == nil || !bytes.Equal(q.Data, orig) {
									rt.Fatalf("node %s answered a replayed first handshake message with a handshake packet that is not its original reply:\n got %x\nwant %x\n%s", x.name, q.Data, orig, strings.Join(h.steps, "\n"))
								}
							}
						}
					} else {
						replaysGone++
						mt, ok := firstSeen[string(p.Data)]
						if ok && prim != nil && prim.ConnectionState != nil && !prim.ConnectionState.initiator && prim.lastHandshakeTime >= uint64(mt.UnixNano()) {
							replaysAfterLater++
							if pre != post {
								rt.Fatalf("a first handshake message created at %v replaced/added tunnels on node %s although its primary (accepted as responder) reports peer time %v: before %+v after %+v\n%s",
									mt.UnixNano(), x.name, prim.lastHandshakeTime, pre, post, strings.Join(h.steps, "\n"))
							}
						}
					}
				default:
					nsApplyOp(rt, h, op)
				}
				noteStage1()
				nsSharedInvariants(rt, h)
				for i := range w.nodes {
					if w.live(i) {
						if n := len(w.nodes[i].allTunnels()); n > maxTunnels {
							maxTunnels = n
						}
					}
				}
			}
			labels := []string{fmt.Sprintf("max-tunnels:%d", min(maxTunnels, 8))}
			if replaysHeld > 0 {
				labels = append(labels, "replay-of-held-tunnel")
			}
			if replaysGone > 0 {
				labels = append(labels, "replay-of-gone-tunnel")
			}
			if replaysAfterLater > 0 {
				labels = append(labels, "replay-after-later-handshake")
			}
			vk.Case("C10", strings.Join(h.steps, ";"), replaysAfterLater > 0, labels...)
			if vk.WantSample("C10") && replaysAfterLater > 0 {
				st := h.steps
				if len(st) > 30 {
					st = st[:30]
				}
				vk.Sample("C10", map[string]any{"steps": st, "replays_held": replaysHeld, "replays_gone": replaysGone})
			}
		})
	})
}
