//go:build e2e_testing

package nebula

import (
	"bytes"
	"fmt"
	"net/netip"
	"strings"
	"testing"
	"time"

	"github.com/slackhq/nebula/header"
	"pgregory.net/rapid"
	"verifkit/vk"
)

// C31 - concurrent handshakes converge to one working tunnel (DESIGN.md section 4).
//
// Two nodes start handshakes with each other in the same virtual instant (or one re-handshakes
// over a live tunnel); an adversary phase reorders, duplicates and (boundedly) loses packets and
// interleaves small time advances; a fair phase then carries steady bidirectional traffic over a
// lossless in-order network, followed by a quiet phase.
//
// Oracles: (a) once some handshake has completed on both ends, probes injected at either tun reach
// the other tun within a bounded number of lossless retries; (b) at most one of the two nodes ever
// swaps its primary to an already existing tunnel while the previous primary is still held;
// (c) after the fair and quiet phases each node holds exactly one tunnel for the peer and the index
// pairs mirror each other. (c) is only judged when the final state is a fixed point.
type c31Track struct {
	primary map[int]uint32          // node -> current primary local index for the peer (0 = none)
	known   map[int]map[uint32]bool // node -> tunnels seen in an earlier snapshot
	swaps   map[int]int
}

func c31Snapshot(n *nsNode, peer netip.Addr) (primary uint32, all []uint32) {
	hm := n.ctrl.f.hostMap
	hm.RLock()
	defer hm.RUnlock()
	if h := hm.Hosts[peer]; h != nil {
		primary = h.localIndexId
		if l, ok := hm.moreHosts[peer]; ok {
			for _, t := range l {
				all = append(all, t.localIndexId)
			}
		} else {
			all = []uint32{h.localIndexId}
		}
	}
	return
}

func (c *c31Track) observe(nodes []*nsNode, peers []netip.Addr) {
	for i, n := range nodes {
		p, all := c31Snapshot(n, peers[i])
		old := c.primary[i]
		if p != old && p != 0 && old != 0 && c.known[i][p] {
			// changed to a tunnel that already existed; a swap only if the old primary is still held
			still := false
			for _, x := range all {
				if x == old {
					still = true
				}
			}
			if still {
				c.swaps[i]++
			}
		}
		c.primary[i] = p
		for _, x := range all {
			c.known[i][x] = true
		}
	}
}

func c31Mirrored(a, b *nsNode) bool {
	for _, ta := range a.allTunnels() {
		for _, tb := range b.allTunnels() {
			if ta.localIndexId == tb.remoteIndexId && ta.remoteIndexId == tb.localIndexId {
				return true
			}
		}
	}
	return false
}

// c31KeyIdle: both nodes start a handshake with nothing to send and nothing is ever sent afterwards;
// each keeps the tunnel it initiated (see known_findings.json).
const c31KeyIdle = "idle-simultaneous-initiations-keep-own-tunnels"

func TestC31_Converge(t *testing.T) {
	nsSetT(t)
	vk.Check(t, 600, func(rt *rapid.T) {
		nsBubble(rt, func(rt *rapid.T, s *nsSim) {
			w := nsGenWorld(rt, s, nsWorldOpts{minHosts: 2, maxHosts: 2, staticAll: true, v6: true, multinet: true})
			w.pid = "C31"
			h := &nsHist{rt: rt, w: w, delivered: map[int]map[int]bool{}, stats: map[string]int{}}
			w.startAll(rt)
			a, b := w.nodes[0], w.nodes[1]
			addrA, addrB := w.commonAddr(1, 0), w.commonAddr(0, 1)
			nodes := []*nsNode{a, b}
			peers := []netip.Addr{addrB, addrA}
			tr := &c31Track{primary: map[int]uint32{}, known: map[int]map[uint32]bool{0: {}, 1: {}}, swaps: map[int]int{}}
			check := func() {
				nsSharedInvariants(rt, h)
				tr.observe(nodes, peers)
				if tr.swaps[0] > 0 && tr.swaps[1] > 0 {
					rt.Fatalf("both nodes swapped their primary tunnel to an older one (a: %d times, b: %d times)\n%s", tr.swaps[0], tr.swaps[1], strings.Join(h.steps, "\n"))
				}
			}

			mode := rapid.SampledFrom([]string{"simultaneous", "simultaneous", "staggered", "rehandshake-over-live", "simultaneous-idle"}).Draw(rt, "mode")
			switch mode {
			case "simultaneous-idle":
				// both ends bring the tunnel up with nothing to send (Control.CreateTunnel) and nothing is sent
				// afterwards: the network is quiet from the moment the handshakes are done
				a.ctrl.CreateTunnel(addrB)
				b.ctrl.CreateTunnel(addrA)
				s.settle()
				h.note("both nodes create the tunnel at the same instant, no payload")
			case "simultaneous":
				w.sendTagged(0, 1, addrB, 40)
				w.sendTagged(1, 0, addrA, 40)
				h.note("both nodes start handshakes in the same instant")
			case "staggered":
				w.sendTagged(0, 1, addrB, 40)
				if rapid.Bool().Draw(rt, "deliverFirst") {
					fl := s.takeInflight()
					for _, p := range fl {
						h.deliverPkt(p)
					}
				}
				w.sendTagged(1, 0, addrA, 40)
				h.note("a starts, then b starts")
			case "rehandshake-over-live":
				w.sendTagged(0, 1, addrB, 40)
				h.runFor(500*time.Millisecond, 100*time.Millisecond)
				a.ctrl.ReHandshake(addrB)
				if rapid.Bool().Draw(rt, "bothRe") {
					b.ctrl.ReHandshake(addrA)
				}
				s.settle()
				h.note("live tunnel, then re-handshake")
			}
			check()

			// adversary phase
			nsteps := rapid.IntRange(0, 30).Draw(rt, "advSteps")
			drops := 0
			bothInitiated := false
			for i := 0; i < nsteps; i++ {
				op := rapid.SampledFrom([]string{"deliver", "deliver", "deliver", "dup", "drop", "advance", "advance", "tun", "rehandshake", "flush", "lateDup", "lateDup"}).Draw(rt, "op")
				switch op {
				case "drop":
					if drops >= 4 {
						continue
					}
					drops++
					nsApplyOp(rt, h, "drop")
				case "advance":
					// mostly sub-interval steps; sometimes long enough for connection-manager checks (2 s) to
					// run between deliveries
					d := rapid.SampledFrom([]time.Duration{time.Millisecond, 50 * time.Millisecond, 100 * time.Millisecond, 300 * time.Millisecond, time.Second, 2100 * time.Millisecond}).Draw(rt, "adv")
					h.note("advance %v", d)
					s.advance(d)
				case "lateDup":
					// a delayed duplicate of anything sent earlier (the network may duplicate and delay)
					s.mu.Lock()
					hist := append([]*nsPacket{}, s.history...)
					s.mu.Unlock()
					if len(hist) == 0 {
						continue
					}
					p := nsPickByClass(rt, hist, "lateDup")
					if hd, ok := nsHeaderOf(p.Data); ok && hd.Type == header.Handshake && hd.MessageCounter == 1 {
						// A first handshake message whose tunnel the receiver no longer holds is a replay of a
						// dead session. IX cannot tell it from a fresh one when the receiver's current tunnel
						// is one it initiated itself; C10 states exactly how far that protection goes. Here only
						// duplicates of first messages whose tunnel is still held are in scope.
						held := false
						if x := s.nodeByUDP(p.To); x != nil {
							for _, t := range x.allTunnels() {
								if bytes.Equal(t.HandshakePacket[handshakePacketStage0], p.Data[header.Len:]) {
									held = true
								}
							}
						}
						if !held {
							vk.Label("C31", "late-duplicate-of-dead-session-skipped")
							continue
						}
					}
					h.note("late duplicate of %v", p)
					nsDeliverUnauth(rt, h, p, p.From, p.To, "late-duplicate")
				case "tun":
					if rapid.Bool().Draw(rt, "dir") {
						w.sendTagged(0, 1, addrB, 60)
					} else {
						w.sendTagged(1, 0, addrA, 60)
					}
				case "rehandshake":
					if rapid.Bool().Draw(rt, "who") {
						a.ctrl.ReHandshake(addrB)
					} else {
						b.ctrl.ReHandshake(addrA)
					}
					s.settle()
					h.note("rehandshake")
				default:
					nsApplyOp(rt, h, op)
				}
				check()
			}
			for _, n := range nodes {
				for _, t := range n.allTunnels() {
					if t.ConnectionState.initiator {
						if n == a {
							bothInitiated = bothInitiated || len(b.allTunnels()) > 0
						}
					}
				}
			}
			initA, initB := false, false
			for _, t := range a.allTunnels() {
				initA = initA || t.ConnectionState.initiator
				initB = initB || !t.ConnectionState.initiator
			}
			for _, t := range b.allTunnels() {
				initB = initB || t.ConnectionState.initiator
				initA = initA || !t.ConnectionState.initiator
			}
			bothProduced := initA && initB

			idle := mode == "simultaneous-idle"
			// (a) traffic flows both ways once a handshake has completed on both ends
			probed := false
			if c31Mirrored(a, b) && !idle {
				probed = true
				gotAB, gotBA := false, false
				for try := 0; try < 20 && !(gotAB && gotBA); try++ {
					ra := w.sendTagged(0, 1, addrB, 48)
					rb := w.sendTagged(1, 0, addrA, 48)
					h.runFor(200*time.Millisecond, 50*time.Millisecond)
					check()
					gotAB = gotAB || ra.delivered > 0
					gotBA = gotBA || rb.delivered > 0
				}
				if !gotAB || !gotBA {
					rt.Fatalf("a handshake completed on both ends but probes did not get through over a lossless network within 4s (a->b %v, b->a %v)\n%s", gotAB, gotBA, strings.Join(h.steps, "\n"))
				}
			}

			// fair phase: steady bidirectional traffic, lossless and in order
			for i := 0; i < 40 && !idle; i++ {
				w.sendTagged(0, 1, addrB, 48)
				w.sendTagged(1, 0, addrA, 48)
				h.runFor(500*time.Millisecond, 100*time.Millisecond)
				check()
			}
			// quiet phase
			quiet := 16
			if idle {
				quiet = 40
			}
			for i := 0; i < quiet; i++ {
				h.runFor(time.Second, 250*time.Millisecond)
				check()
			}
			// (c) single mirrored tunnel, if the state is a fixed point (nothing pending)
			ta, tb := a.allTunnels(), b.allTunnels()
			if a.pendingCount() == 0 && b.pendingCount() == 0 {
				if (len(ta) != 1 || len(tb) != 1) && idle && vk.KnownOpen("C31", c31KeyIdle) {
					// same recorded class: without sustained traffic the two ends settle independently (own
					// tunnel kept, or a tunnel whose probes were lost dropped on one side only)
					vk.ReportKnown("C31", c31KeyIdle)
					vk.Excluded("C31", c31KeyIdle)
				} else if len(ta) != 1 || len(tb) != 1 {
					rt.Fatalf("after the fair and quiet phases a holds %d tunnels and b holds %d (expected one each)\n%s", len(ta), len(tb), strings.Join(h.steps, "\n"))
				}
				if len(ta) != 1 || len(tb) != 1 {
					// (excluded above)
				} else if (ta[0].localIndexId != tb[0].remoteIndexId || ta[0].remoteIndexId != tb[0].localIndexId) && idle && vk.KnownOpen("C31", c31KeyIdle) {
					// recorded finding: the class is defined by the input (tunnels created without payload and no
					// sustained traffic afterwards); every other assertion of this check still applied to the history
					vk.ReportKnown("C31", c31KeyIdle)
					vk.Excluded("C31", c31KeyIdle)
				} else if ta[0].localIndexId != tb[0].remoteIndexId || ta[0].remoteIndexId != tb[0].localIndexId {
					rt.Fatalf("final tunnels do not mirror: a %d/%d, b %d/%d\n%s", ta[0].localIndexId, ta[0].remoteIndexId, tb[0].localIndexId, tb[0].remoteIndexId, strings.Join(h.steps, "\n"))
				}
			} else {
				vk.Label("C31", "final-state-not-fixed-point")
			}
			labels := []string{"mode:" + mode}
			if bothProduced {
				labels = append(labels, "both-initiations-produced-tunnels")
			}
			if probed {
				labels = append(labels, "probe-phase-run")
			}
			if tr.swaps[0]+tr.swaps[1] > 0 {
				labels = append(labels, "swap-observed")
			}
			vk.Case("C31", mode+";"+strings.Join(h.steps, ";"), bothProduced, labels...)
			if vk.WantSample("C31") && bothProduced {
				st := h.steps
				if len(st) > 25 {
					st = st[:25]
				}
				vk.Sample("C31", map[string]any{"mode": mode, "steps": st, "swaps": fmt.Sprint(tr.swaps)})
			}
		})
	})
}
