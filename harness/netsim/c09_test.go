//go:build e2e_testing

package nebula

import (
	"bytes"
	"fmt"
	"net/netip"
	"strings"
	"testing"

	"github.com/slackhq/nebula/header"
	"pgregory.net/rapid"
	"verifkit/vk"
)

// C09 - tunnels are bound to the certified overlay address (DESIGN.md section 4).
// Worlds with wrong responders (a trusted host sitting at the underlay address another peer is
// expected at), own-address claimants, multi-address peers and untrusted/expired/blocklisted
// identities; adversarial reorder/duplicate/drop. The binding invariants of checkHostmaps run after
// every step; in addition a wrong responder's underlay address must not be tried again for that
// peer while it is marked bad.
type c09State struct {
	prevBlocked map[string]map[netip.AddrPort]bool // node/peer -> blocked remotes at the end of the previous step
	seen        int
	// intended[node][pending local index] = the overlay address that handshake was started for
	intended map[int]map[uint32]netip.Addr
	// bad[node/peer] = underlay addresses a wrong host answered from, until a handshake with peer completes
	bad        map[string]map[netip.AddrPort]bool
	wrongHosts int
	pendingHit *c09Pending
}

type c09Pending struct {
	answerer int
	node     int
	peer     netip.Addr
	index    uint32
	from     netip.AddrPort
	wrong    bool
}

func (c *c09State) recordPending(w *nsWorld) {
	if c.intended == nil {
		c.intended = map[int]map[uint32]netip.Addr{}
	}
	for i, x := range w.nodes {
		if !w.live(i) {
			continue
		}
		if c.intended[i] == nil {
			c.intended[i] = map[uint32]netip.Addr{}
		}
		hs := x.ctrl.f.handshakeManager
		hs.RLock()
		for a, hh := range hs.vpnIps {
			if hh.hostinfo != nil && hh.hostinfo.localIndexId != 0 {
				c.intended[i][hh.hostinfo.localIndexId] = a
			}
		}
		hs.RUnlock()
	}
}

// preDeliver: a stage-2 handshake message about to reach initiator x. Work out (from the world's
// ground truth, not from the node) whether the answering identity is certified for the address the
// pending handshake was started for.
func (c *c09State) preDeliver(rt *rapid.T, w *nsWorld, h *nsHist, p *nsPacket, from netip.AddrPort, x *nsNode) {
	c.pendingHit = nil
	c.recordPending(w)
	hd, ok := nsHeaderOf(p.Data)
	if !ok || hd.Type != header.Handshake || hd.MessageCounter != 2 || p.Src < 0 {
		return
	}
	xi := -1
	for i, n := range w.nodes {
		if n == x {
			xi = i
		}
	}
	peer, ok := c.intended[xi][hd.RemoteIndex]
	if !ok {
		return
	}
	// still pending?
	hs := x.ctrl.f.handshakeManager
	hs.RLock()
	hh, pend := hs.indexes[hd.RemoteIndex]
	hs.RUnlock()
	if !pend || hh == nil {
		return
	}
	answerer := -1
	for i, n := range w.nodes {
		if n != nil && n.idx == p.Src {
			answerer = i
		}
	}
	if answerer < 0 {
		return
	}
	lists := false
	for _, n := range w.specs[answerer].nets {
		if n.Addr() == peer {
			lists = true
		}
	}
	c.pendingHit = &c09Pending{answerer: answerer, node: xi, peer: peer, index: hd.RemoteIndex, from: from, wrong: !lists}
}

// forgive clears the bad addresses for every peer a node now holds a tunnel with (a completed
// handshake with that peer forgives them - documented behaviour). It runs after every single
// delivery, because a tunnel can complete and be torn down again within one history step.
func (c *c09State) forgive(w *nsWorld) {
	if len(c.bad) == 0 {
		return
	}
	for i, x := range w.nodes {
		if !w.live(i) {
			continue
		}
		hm := x.ctrl.f.hostMap
		hm.RLock()
		for a := range hm.Hosts {
			delete(c.bad, fmt.Sprintf("%s/%v", x.name, a))
		}
		hm.RUnlock()
	}
}

func (c *c09State) postDeliver(rt *rapid.T, w *nsWorld, h *nsHist, p *nsPacket, from netip.AddrPort, x *nsNode) {
	c.forgive(w)
	ph := c.pendingHit
	c.pendingHit = nil
	if ph == nil || !ph.wrong {
		return
	}
	// a host not certified for ph.peer answered the handshake started for ph.peer: the initiator must
	// not have installed a tunnel from it
	hm := x.ctrl.f.hostMap
	hm.RLock()
	t := hm.Indexes[ph.index]
	hm.RUnlock()
	if t != nil {
		rt.Fatalf("node %s started a handshake for %v, a host certified only for %v answered from %v, and the initiator installed the tunnel (index %d)", x.name, ph.peer, t.vpnAddrs, ph.from, ph.index)
	}
	if !w.accepts(ph.node, ph.answerer) {
		// the initiator cannot tell who answered when it does not even accept the certificate (untrusted,
		// expired, blocklisted): the handshake just fails, nothing is learnt about the address
		return
	}
	c.wrongHosts++
	if c.bad == nil {
		c.bad = map[string]map[netip.AddrPort]bool{}
	}
	key := fmt.Sprintf("%s/%v", x.name, ph.peer)
	if c.bad[key] == nil {
		c.bad[key] = map[netip.AddrPort]bool{}
	}
	c.bad[key][ph.from] = true
}

func c09PendingFor(x *nsNode, stage0 []byte) (netip.Addr, []netip.AddrPort, bool) {
	hs := x.ctrl.f.handshakeManager
	hs.RLock()
	defer hs.RUnlock()
	for a, hh := range hs.vpnIps {
		if hh.hostinfo != nil && bytes.Equal(hh.hostinfo.HandshakePacket[handshakePacketStage0], stage0) && hh.hostinfo.remotes != nil {
			return a, hh.hostinfo.remotes.CopyBlockedRemotes(), true
		}
	}
	return netip.Addr{}, nil, false
}

func (c *c09State) afterStep(rt *rapid.T, w *nsWorld, h *nsHist) {
	s := w.s
	s.mu.Lock()
	hist := append([]*nsPacket{}, s.history[c.seen:]...)
	c.seen = len(s.history)
	s.mu.Unlock()
	for _, p := range hist {
		hd, ok := nsHeaderOf(p.Data)
		if !ok || hd.Type != header.Handshake || hd.MessageCounter != 1 || p.Src < 0 {
			continue
		}
		x := s.nodes[p.Src]
		if x.stopped {
			continue
		}
		peer, blocked, ok := c09PendingFor(x, p.Data)
		if !ok {
			continue
		}
		key := fmt.Sprintf("%s/%v", x.name, peer)
		if c.bad[key][p.To] {
			rt.Fatalf("node %s sent a handshake for %v to %v after a wrong host answered from that address (no handshake with %v completed since)", x.name, peer, p.To, peer)
		}
		for _, b := range blocked {
			if b == p.To && c.prevBlocked[key][b] {
				rt.Fatalf("node %s sent a handshake for %v to %v although that address was marked bad after a wrong host answered from it", x.name, peer, p.To)
			}
		}
	}
	// a completed handshake with the peer forgives the bad addresses (documented behaviour)
	for i, x := range w.nodes {
		if !w.live(i) {
			continue
		}
		hm := x.ctrl.f.hostMap
		hm.RLock()
		for a := range hm.Hosts {
			delete(c.bad, fmt.Sprintf("%s/%v", x.name, a))
		}
		hm.RUnlock()
	}
	c.recordPending(w)
	// snapshot the blocked sets
	c.prevBlocked = map[string]map[netip.AddrPort]bool{}
	for i, x := range w.nodes {
		if !w.live(i) {
			continue
		}
		hs := x.ctrl.f.handshakeManager
		hs.RLock()
		for a, hh := range hs.vpnIps {
			if hh.hostinfo == nil || hh.hostinfo.remotes == nil {
				continue
			}
			m := map[netip.AddrPort]bool{}
			for _, b := range hh.hostinfo.remotes.CopyBlockedRemotes() {
				m[b] = true
			}
			c.prevBlocked[fmt.Sprintf("%s/%v", x.name, a)] = m
		}
		hs.RUnlock()
	}
}

func c09Run(rt *rapid.T, pid string, ops []string) {
	nsBubble(rt, func(rt *rapid.T, s *nsSim) {
		st := &c09State{}
		h := nsRunHistory(rt, s, nsHistOpts{
			pid:      pid,
			world:    nsWorldOpts{minHosts: 2, maxHosts: 4, lighthouse: 0.3, relay: 0.2, partition: 0.3, evil: true, v6: true},
			minSteps: 15, maxSteps: 60,
			ops:       ops,
			afterStep: st.afterStep, preDeliver: st.preDeliver, postDeliver: st.postDeliver,
		})
		w := h.w
		// classify
		answered := map[nsKind]int{}
		attempted := map[nsKind]int{}
		s.mu.Lock()
		for _, p := range s.history {
			if p.Src < 0 || p.Src >= len(s.nodes) {
				continue
			}
			hd, ok := nsHeaderOf(p.Data)
			if !ok || hd.Type != header.Handshake {
				continue
			}
			var kind nsKind
			for i, n := range w.nodes {
				if n != nil && n.idx == p.Src {
					kind = w.specs[i].kind
				}
			}
			if hd.MessageCounter == 2 {
				answered[kind]++
			} else {
				attempted[kind]++
			}
		}
		s.mu.Unlock()
		multi := 0
		for i := range w.nodes {
			if !w.live(i) {
				continue
			}
			for _, t := range w.nodes[i].allTunnels() {
				if len(t.vpnAddrs) > 1 {
					multi++
				}
			}
		}
		var labels []string
		nontrivial := multi > 0
		for k := nsUntrusted; k <= nsBlocklisted; k++ {
			if answered[k] > 0 {
				labels = append(labels, "answered:"+k.String())
				nontrivial = true
			}
			if attempted[k] > 0 {
				labels = append(labels, "initiated:"+k.String())
				if pid == "C05" {
					nontrivial = true
				}
			}
		}
		if multi > 0 {
			labels = append(labels, "multi-address-tunnel")
		}
		if st.wrongHosts > 0 {
			labels = append(labels, "wrong-host-answer-processed")
		}
		if pid == "C05" && h.mutants > 0 {
			labels = append(labels, "adversarial-deliveries")
		}
		vk.Case(pid, strings.Join(h.steps, ";"), nontrivial, labels...)
		if vk.WantSample(pid) && nontrivial {
			st := h.steps
			if len(st) > 30 {
				st = st[:30]
			}
			kinds := []string{}
			for _, sp := range w.specs {
				kinds = append(kinds, sp.name+":"+sp.kind.String())
			}
			vk.Sample(pid, map[string]any{"nodes": kinds, "steps": st})
		}
	})
}

func TestC09_History(t *testing.T) {
	nsSetT(t)
	vk.Check(t, 800, func(rt *rapid.T) {
		c09Run(rt, "C09", []string{"tun", "tun", "tun", "tun", "deliver", "deliver", "flush", "flush", "flush", "drop", "dup", "replay", "advance", "advance", "close", "rehandshake"})
	})
}

// C05 (manager level): the same worlds with an active adversary (mutants, replays, splices of
// handshake and data packets). The shared invariants require every tunnel that appears in any
// honest node's hostmap to carry a certificate the trust rule accepts and keys that pair only with
// tunnels of the certified identity.
func TestC05_NetHistory(t *testing.T) {
	nsSetT(t)
	vk.Check(t, 600, func(rt *rapid.T) {
		c09Run(rt, "C05", []string{"tun", "tun", "tun", "deliver", "deliver", "deliver", "flush", "flush", "drop", "dup", "replay", "replay", "mutate", "mutate", "mutate", "advance", "close", "rehandshake", "blocklistReload", "blocklistReload"})
	})
}
