package nebula

// C06 (root part) - newConnectionStateFromResult over completed handshake pairs: data-plane
// ciphers pair up across the two sides, counters and replay window are seeded from MessageIndex.
// The machine-level part is harness/handshake/c06_test.go.

import (
	"bytes"
	"fmt"
	"net/netip"
	"sync"
	"testing"
	"time"

	"github.com/flynn/noise"
	"github.com/slackhq/nebula/cert"
	ct "github.com/slackhq/nebula/cert_test"
	"github.com/slackhq/nebula/handshake"
	"github.com/slackhq/nebula/header"
	"github.com/slackhq/nebula/noiseutil"
	"github.com/slackhq/nebula/test"
	"pgregory.net/rapid"
	"verifkit/vk"
)

type c06Peer struct {
	priv  []byte
	certs map[cert.Version]cert.Certificate
	body  map[cert.Version][]byte
}

type c06World struct {
	pool  *cert.CAPool
	peers [2]*c06Peer
	dh    noise.DHFunc
}

var (
	c06Mu     sync.Mutex
	c06Worlds = map[cert.Curve]*c06World{}
	c06Now    = time.Date(2030, 1, 1, 0, 0, 0, 0, time.UTC)
)

func c06WorldFor(curve cert.Curve) *c06World {
	c06Mu.Lock()
	defer c06Mu.Unlock()
	if w := c06Worlds[curve]; w != nil {
		return w
	}
	w := &c06World{pool: cert.NewCAPool(), dh: noise.DH25519}
	if curve == cert.Curve_P256 {
		w.dh = noiseutil.DHP256
	}
	ca, _, caKey, _ := ct.NewTestCaCert(cert.Version2, curve, time.Date(2000, 1, 1, 0, 0, 0, 0, time.UTC), time.Date(2100, 1, 1, 0, 0, 0, 0, time.UTC), nil, nil, nil)
	_ = w.pool.AddCA(ca)
	for i := range w.peers {
		var pub, priv []byte
		if curve == cert.Curve_P256 {
			pub, priv = ct.P256Keypair()
		} else {
			pub, priv = ct.X25519Keypair()
		}
		p := &c06Peer{priv: priv, certs: map[cert.Version]cert.Certificate{}, body: map[cert.Version][]byte{}}
		for _, v := range []cert.Version{cert.Version1, cert.Version2} {
			tbs := &cert.TBSCertificate{Version: v, Curve: curve, Name: fmt.Sprintf("p%d", i),
				Networks:  []netip.Prefix{netip.PrefixFrom(netip.AddrFrom4([4]byte{10, 6, 0, byte(i + 1)}), 24)},
				NotBefore: c06Now.Add(-time.Hour), NotAfter: c06Now.Add(time.Hour), PublicKey: pub}
			c, err := tbs.Sign(ca, curve, caKey)
			if err != nil {
				panic(err)
			}
			b, err := c.MarshalForHandshakes()
			if err != nil {
				panic(err)
			}
			p.certs[v], p.body[v] = c, b
		}
		w.peers[i] = p
	}
	c06Worlds[curve] = w
	return w
}

func (w *c06World) creds(p *c06Peer, vs []cert.Version, cf noise.CipherFunc) handshake.GetCredentialFunc {
	ncs := noise.NewCipherSuite(w.dh, cf, noise.HashSHA256)
	m := map[cert.Version]*handshake.Credential{}
	for _, v := range vs {
		m[v] = handshake.NewCredential(p.certs[v], p.body[v], p.priv, ncs)
	}
	return func(v cert.Version) *handshake.Credential { return m[v] }
}

func TestC06_ConnectionStateFromResult(t *testing.T) {
	l := test.NewLogger()
	completed := 0
	idxGen := rapid.OneOf(rapid.Uint32Range(1, 0xffffffff), rapid.SampledFrom([]uint32{1, 2, 0xffffffff}))
	vsets := [][]cert.Version{{cert.Version1}, {cert.Version2}, {cert.Version1, cert.Version2}, {cert.Version2, cert.Version1}}
	vk.Check(t, 400, func(rt *rapid.T) {
		curve := rapid.SampledFrom([]cert.Curve{cert.Curve_CURVE25519, cert.Curve_P256}).Draw(rt, "curve")
		w := c06WorldFor(curve)
		ci := rapid.IntRange(0, 1).Draw(rt, "cipher")
		cf := noise.CipherChaChaPoly
		if ci == 1 {
			cf = noiseutil.CipherAESGCM
		}
		ivs := rapid.SampledFrom(vsets).Draw(rt, "initVers") // first element = starting version
		rvs := rapid.SampledFrom(vsets).Draw(rt, "respVers")
		iIdx, rIdx := idxGen.Draw(rt, "initIndex"), idxGen.Draw(rt, "respIndex")
		ver := func(c cert.Certificate) (*cert.CachedCertificate, error) { return w.pool.VerifyCertificate(c06Now, c) }
		im, err := handshake.NewMachine(ivs[0], w.creds(w.peers[0], ivs, cf), ver, func() (uint32, error) { return iIdx, nil }, true, header.HandshakeIXPSK0)
		if err != nil {
			rt.Fatalf("NewMachine: %v", err)
		}
		rm, err := handshake.NewMachine(rvs[0], w.creds(w.peers[1], rvs, cf), ver, func() (uint32, error) { return rIdx, nil }, false, header.HandshakeIXPSK0)
		if err != nil {
			rt.Fatalf("NewMachine: %v", err)
		}
		label := fmt.Sprintf("cs/%s/c%d/%v>%v", curve, ci, ivs, rvs)
		m1, err := im.Initiate(nil)
		if err != nil {
			rt.Fatalf("Initiate: %v", err)
		}
		m2, rr, err := rm.ProcessPacket(nil, m1)
		if err != nil || rr == nil {
			vk.Case("C06", "nc/"+label, false, "root/not-completed")
			return
		}
		_, ir, err := im.ProcessPacket(nil, m2)
		if err != nil || ir == nil {
			vk.Case("C06", "nc/"+label, false, "root/not-completed")
			return
		}
		completed++
		ics, err := newConnectionStateFromResult(ir)
		if err != nil {
			rt.Fatalf("%s: newConnectionStateFromResult(initiator): %v", label, err)
		}
		rcs, err := newConnectionStateFromResult(rr)
		if err != nil {
			rt.Fatalf("%s: newConnectionStateFromResult(responder): %v", label, err)
		}
		if ir.MessageIndex != rr.MessageIndex {
			rt.Fatalf("%s: message counts differ %d vs %d", label, ir.MessageIndex, rr.MessageIndex)
		}
		mi := ir.MessageIndex
		if ics.messageCounter.Load() != mi || rcs.messageCounter.Load() != mi {
			rt.Fatalf("%s: send counters (%d,%d) not seeded with the message count %d", label, ics.messageCounter.Load(), rcs.messageCounter.Load(), mi)
		}
		if !ics.initiator || rcs.initiator {
			rt.Fatalf("%s: initiator flags wrong", label)
		}
		// seeded windows: every counter the handshake used is refused, the next one is accepted
		for _, cs := range []*ConnectionState{ics, rcs} {
			for c := uint64(0); c <= mi; c++ {
				if cs.window.Check(l, c) {
					rt.Fatalf("%s: replay window accepts counter %d <= message count %d", label, c, mi)
				}
			}
			if !cs.window.Check(l, mi+1) {
				rt.Fatalf("%s: replay window refuses counter %d (message count %d)", label, mi+1, mi)
			}
		}
		// data plane each way through the ConnectionStates, using the counters the senders hand out
		pt := rapid.SliceOfN(rapid.Byte(), 1, 48).Draw(rt, "plaintext")
		for _, dir := range [][2]*ConnectionState{{ics, rcs}, {rcs, ics}} {
			snd, rcv := dir[0], dir[1]
			c, ok := snd.NextMessageCounter()
			if !ok || c != mi+1 {
				rt.Fatalf("%s: first data counter %d, want %d", label, c, mi+1)
			}
			nb := make([]byte, 12)
			pkt := header.Encode(make([]byte, header.Len), header.Version, header.Message, 0, 77, c)
			pkt, err := snd.eKey.EncryptDanger(pkt, pkt, pt, c, nb)
			if err != nil {
				rt.Fatalf("%s: encrypt: %v", label, err)
			}
			// wrong directions first (they must not disturb anything)
			if _, err := snd.dKey.DecryptDanger(nil, pkt[:header.Len], pkt[header.Len:], c, nb); err == nil {
				rt.Fatalf("%s: a side's own receiving key opens what it sent", label)
			}
			if _, err := rcv.eKey.DecryptDanger(nil, pkt[:header.Len], pkt[header.Len:], c, nb); err == nil {
				rt.Fatalf("%s: the receiver's sending key opens the ciphertext", label)
			}
			// the handshake Result's own receiving key of the peer (flynn/noise transport CipherState
			// over the raw key) opens it: the ConnectionState sends with Result.EKey, not merely with
			// some key the two wrappers agree on
			peerD := rr.DKey.UnsafeKey()
			if snd == rcs {
				peerD = ir.DKey.UnsafeKey()
			}
			lib := noise.UnsafeNewCipherState(noise.NewCipherSuite(w.dh, cf, noise.HashSHA256), peerD, c)
			if p2, err := lib.Decrypt(nil, pkt[:header.Len], pkt[header.Len:]); err != nil || !bytes.Equal(p2, pt) {
				rt.Fatalf("%s: the peer Result's receiving key does not open the ConnectionState's ciphertext: %v", label, err)
			}
			got, err := rcv.Decrypt(l, c, c06Clone(pkt), nb)
			if err != nil || !bytes.Equal(got, pt) {
				rt.Fatalf("%s: receiver cannot decrypt counter %d: %v", label, c, err)
			}
		}
		vk.Case("C06", fmt.Sprintf("%s/%d/%d/%x", label, iIdx, rIdx, pt), true, "root/completed/"+fmt.Sprintf("%s/c%d", curve, ci))
	})
	if completed == 0 {
		vk.Infra(t, "C06 root: no generated session completed")
	}
}

func c06Clone(b []byte) []byte { return append([]byte(nil), b...) }
