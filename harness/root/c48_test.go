package nebula

// C48 - calculated remotes splice mask and overlay bits exactly.
//
// Reference: bit by bit on the address bytes - result bit i is the mask address' bit i for
// i < maskLen and the overlay address' bit i otherwise; the port is the configured one. Range
// membership is decided by comparing the first `bits` bits of the byte strings (same family only).
// Driven (a) directly through newCalculatedRemote + ApplyV4/ApplyV6 and (b) end to end through the
// YAML config loader (NewCalculatedRemotesFromConfig, int and string ports) and
// LightHouse.addCalculatedRemotes, reading what was stored for the peer.
//
// Asserted for (b), no more than the statement: nothing is produced for an overlay address outside
// every configured range of its family; every produced remote is the exact splice of one entry of a
// range that contains the address; if exactly one configured range contains the address all of its
// entries are produced (with nested ranges: all entries of at least one containing range - which
// one wins is not stated). Calculated addresses that fall inside the node's own overlay network are
// dropped by the lighthouse's general remote filter (C36); the model applies the same rule.
// Configs with a mask of the other family or a port outside 0..65535 must be refused.

import (
	"fmt"
	"log/slog"
	"net/netip"
	"slices"
	"sort"
	"strings"
	"testing"

	"github.com/gaissmai/bart"
	"github.com/slackhq/nebula/config"
	"pgregory.net/rapid"
	"verifkit/vk"
)

const c48PID = "C48"

func c48Bit(b []byte, i int) byte { return (b[i/8] >> (7 - i%8)) & 1 }

func c48SetBit(b []byte, i int, v byte) {
	if v != 0 {
		b[i/8] |= 1 << (7 - i%8)
	} else {
		b[i/8] &^= 1 << (7 - i%8)
	}
}

// c48Splice is the reference.
func c48Splice(maskAddr []byte, maskLen int, overlay []byte) []byte {
	out := make([]byte, len(overlay))
	for i := 0; i < len(overlay)*8; i++ {
		if i < maskLen {
			c48SetBit(out, i, c48Bit(maskAddr, i))
		} else {
			c48SetBit(out, i, c48Bit(overlay, i))
		}
	}
	return out
}

func c48Contains(rangeAddr []byte, bits int, a []byte) bool {
	if len(rangeAddr) != len(a) {
		return false
	}
	for i := 0; i < bits; i++ {
		if c48Bit(rangeAddr, i) != c48Bit(a, i) {
			return false
		}
	}
	return true
}

func c48Addr(b []byte) netip.Addr {
	a, ok := netip.AddrFromSlice(b)
	if !ok {
		panic("bad address length")
	}
	return a
}

func c48FromV4(p *V4AddrPort) ([]byte, uint32) {
	return []byte{byte(p.Addr >> 24), byte(p.Addr >> 16), byte(p.Addr >> 8), byte(p.Addr)}, p.Port
}

func c48FromV6(p *V6AddrPort) ([]byte, uint32) {
	b := make([]byte, 16)
	for i := 0; i < 8; i++ {
		b[i] = byte(p.Hi >> (56 - 8*i))
		b[8+i] = byte(p.Lo >> (56 - 8*i))
	}
	return b, p.Port
}

type c48Entry struct {
	maskAddr []byte
	maskLen  int
	port     int
	portStr  bool // rendered as a YAML string
}

type c48Range struct {
	addr    []byte // as written (host bits may be set)
	bits    int
	entries []c48Entry
}

func c48Bytes(rt *rapid.T, n int, name string) []byte {
	kind := rapid.IntRange(0, 5).Draw(rt, name+"Kind")
	b := make([]byte, n)
	switch kind {
	case 0:
		for i := range b {
			b[i] = 0xff
		}
	case 1: // zero
	case 2:
		for i := range b {
			b[i] = 0xaa
		}
	default:
		copy(b, rapid.SliceOfN(rapid.Byte(), n, n).Draw(rt, name))
	}
	if n == 16 && b[0] == 0 && kind >= 3 {
		b[0] = 0xfd // keep plain v6 (not v4-mapped / unspecified-looking) in the common case
	}
	return b
}

func c48Len(rt *rapid.T, n int, name string) int {
	return rapid.OneOf(rapid.IntRange(0, n*8), rapid.IntRange(0, n*8), rapid.SampledFrom(c48Ints{0, 1, 7, 8, 9, n*8 - 1, n * 8, n*8 - 8, n * 4, n*4 + 1, 63, 64, 65}.clip(n*8))).Draw(rt, name)
}

type c48Ints []int

func (s c48Ints) clip(max int) []int {
	var o []int
	for _, v := range s {
		if v >= 0 && v <= max {
			o = append(o, v)
		}
	}
	return o
}

func c48Port(rt *rapid.T) int {
	return rapid.OneOf(rapid.IntRange(0, 65535), rapid.SampledFrom([]int{0, 1, 80, 4242, 65535, 32768})).Draw(rt, "port")
}

func c48GenEntry(rt *rapid.T, n int) c48Entry {
	return c48Entry{maskAddr: c48Bytes(rt, n, "maskAddr"), maskLen: c48Len(rt, n, "maskLen"), port: c48Port(rt), portStr: rapid.Bool().Draw(rt, "portAsString")}
}

func c48Yaml(ranges []c48Range) string {
	var sb strings.Builder
	sb.WriteString("lighthouse:\n  calculated_remotes:\n")
	for _, r := range ranges {
		fmt.Fprintf(&sb, "    '%s/%d':", c48Addr(r.addr), r.bits)
		if len(r.entries) == 0 {
			sb.WriteString(" []\n")
			continue
		}
		sb.WriteString("\n")
		for _, e := range r.entries {
			fmt.Fprintf(&sb, "      - mask: '%s/%d'\n", c48Addr(e.maskAddr), e.maskLen)
			if e.portStr {
				fmt.Fprintf(&sb, "        port: \"%d\"\n", e.port)
			} else {
				fmt.Fprintf(&sb, "        port: %d\n", e.port)
			}
		}
	}
	return sb.String()
}

var c48Log = slog.New(slog.DiscardHandler)

var c48MyNets = []netip.Prefix{netip.MustParsePrefix("203.0.113.9/29"), netip.MustParsePrefix("fd77:77::1/120")}

func c48LightHouse(tbl *bart.Table[[]*calculatedRemote]) *LightHouse {
	lh := &LightHouse{
		addrMap:            map[netip.Addr]*RemoteList{},
		myVpnNetworks:      c48MyNets,
		myVpnNetworksTable: new(bart.Lite),
		l:                  c48Log,
	}
	for _, p := range c48MyNets {
		lh.myVpnNetworksTable.Insert(p.Masked())
	}
	lh.remoteAllowList.Store(&RemoteAllowList{})
	lh.calculatedRemotes.Store(tbl)
	return lh
}

func c48InMyNets(a []byte) bool {
	for _, p := range c48MyNets {
		if c48Contains(p.Addr().AsSlice(), p.Bits(), a) {
			return true
		}
	}
	return false
}

type c48Remote struct {
	addr string // hex
	port uint32
}

func c48Key(a []byte, port uint32) c48Remote { return c48Remote{fmt.Sprintf("%x", a), port} }

func c48SortRemotes(r []c48Remote) {
	sort.Slice(r, func(i, j int) bool {
		if r[i].addr != r[j].addr {
			return r[i].addr < r[j].addr
		}
		return r[i].port < r[j].port
	})
}

// multiset a ⊆ multiset b
func c48SubMultiset(a, b []c48Remote) bool {
	cnt := map[c48Remote]int{}
	for _, x := range b {
		cnt[x]++
	}
	for _, x := range a {
		cnt[x]--
		if cnt[x] < 0 {
			return false
		}
	}
	return true
}

func TestC48_Apply(t *testing.T) {
	vk.Check(t, 120000, func(rt *rapid.T) {
		n := rapid.SampledFrom([]int{4, 4, 16}).Draw(rt, "family")
		e := c48GenEntry(rt, n)
		overlay := c48Bytes(rt, n, "overlay")
		rangeBits := c48Len(rt, n, "rangeBits")
		cidr := netip.PrefixFrom(c48Addr(c48Bytes(rt, n, "rangeAddr")), rangeBits)
		maskP := netip.PrefixFrom(c48Addr(e.maskAddr), e.maskLen)
		cr, err := newCalculatedRemote(cidr, maskP, e.port)
		if err != nil {
			rt.Fatalf("newCalculatedRemote(%v, %v, %d) refused: %v", cidr, maskP, e.port, err)
		}
		want := c48Splice(e.maskAddr, e.maskLen, overlay)
		var got []byte
		var gotPort uint32
		if n == 4 {
			got, gotPort = c48FromV4(cr.ApplyV4(c48Addr(overlay)))
		} else {
			got, gotPort = c48FromV6(cr.ApplyV6(c48Addr(overlay)))
		}
		if !slices.Equal(got, want) || gotPort != uint32(e.port) {
			rt.Fatalf("mask %v port %d applied to %v gives %v port %d, want %v port %d", maskP, e.port, c48Addr(overlay), c48Addr(got), gotPort, c48Addr(want), e.port)
		}
		// applying twice / to another address does not disturb the entry (it is shared by all peers)
		other := c48Bytes(rt, n, "overlay2")
		if n == 4 {
			cr.ApplyV4(c48Addr(other))
			got, gotPort = c48FromV4(cr.ApplyV4(c48Addr(overlay)))
		} else {
			cr.ApplyV6(c48Addr(other))
			got, gotPort = c48FromV6(cr.ApplyV6(c48Addr(overlay)))
		}
		if !slices.Equal(got, want) || gotPort != uint32(e.port) {
			rt.Fatalf("mask %v: second application to %v gives %v port %d, want %v", maskP, c48Addr(overlay), c48Addr(got), gotPort, c48Addr(want))
		}
		// refusals: other family, port out of range
		otherFam := 20 - n
		badMask := netip.PrefixFrom(c48Addr(c48Bytes(rt, otherFam, "otherFamMask")), rapid.IntRange(0, otherFam*8).Draw(rt, "otherFamLen"))
		if _, err := newCalculatedRemote(cidr, badMask, e.port); err == nil {
			rt.Fatalf("newCalculatedRemote(%v, %v) accepted a mask of the other address family", cidr, badMask)
		}
		badPort := rapid.OneOf(rapid.IntRange(65536, 1<<20), rapid.IntRange(-1<<20, -1), rapid.SampledFrom([]int{65536, -1, 1 << 31, 1<<32 + 80})).Draw(rt, "badPort")
		if _, err := newCalculatedRemote(cidr, maskP, badPort); err == nil {
			rt.Fatalf("newCalculatedRemote accepted port %d", badPort)
		}
		nt := e.maskLen%8 != 0
		vk.Case(c48PID, fmt.Sprintf("apply/%x/%d/%x/%d", e.maskAddr, e.maskLen, overlay, e.port), nt,
			fmt.Sprintf("apply:v%d", map[int]int{4: 4, 16: 6}[n]), fmt.Sprintf("masklen%%8=%d", e.maskLen%8), c48LenClass(e.maskLen, n))
	})
}

func c48LenClass(l, n int) string {
	switch {
	case l == 0:
		return "masklen:0"
	case l == n*8:
		return "masklen:full"
	case n == 16 && l == 64:
		return "masklen:64"
	case n == 16 && l > 64:
		return "masklen:>64"
	default:
		return "masklen:mid"
	}
}

func TestC48_ConfigAndLighthouse(t *testing.T) {
	vk.Check(t, 40000, func(rt *rapid.T) {
		n := rapid.SampledFrom([]int{4, 4, 16}).Draw(rt, "family")
		var ranges []c48Range
		nr := rapid.IntRange(1, 3).Draw(rt, "nRanges")
		for i := 0; i < nr; i++ {
			fam := n
			if i > 0 && rapid.IntRange(0, 4).Draw(rt, "otherFamilyRange") == 0 {
				fam = 20 - n
			}
			var r c48Range
			if i > 0 && len(ranges[i-1].addr) == fam && rapid.Bool().Draw(rt, "nested") {
				// nested in (or equal-length sibling of) the previous range
				prev := ranges[i-1]
				r.bits = rapid.IntRange(prev.bits, fam*8).Draw(rt, "nestedBits")
				r.addr = slices.Clone(prev.addr)
				rnd := c48Bytes(rt, fam, "nestedHost")
				for b := prev.bits; b < fam*8; b++ {
					c48SetBit(r.addr, b, c48Bit(rnd, b))
				}
			} else {
				r.bits = c48Len(rt, fam, "rangeBits")
				r.addr = c48Bytes(rt, fam, "rangeAddr")
			}
			ne := rapid.SampledFrom([]int{0, 1, 1, 1, 2, 2, 3, 4, 8}).Draw(rt, "nEntries")
			for j := 0; j < ne; j++ {
				r.entries = append(r.entries, c48GenEntry(rt, fam))
			}
			ranges = append(ranges, r)
		}
		// drop ranges whose textual key repeats (YAML would reject / overwrite duplicate keys)
		seenKey := map[string]bool{}
		var uniq []c48Range
		for _, r := range ranges {
			k := fmt.Sprintf("%s/%d", c48Addr(r.addr), r.bits)
			if !seenKey[k] {
				seenKey[k] = true
				uniq = append(uniq, r)
			}
		}
		ranges = uniq

		// optionally break the config
		broken := rapid.SampledFrom([]string{"", "", "", "", "", "family", "port-high", "port-negative"}).Draw(rt, "break")
		if broken != "" {
			var candidates []int
			for i, r := range ranges {
				if len(r.entries) > 0 {
					candidates = append(candidates, i)
				}
			}
			if len(candidates) == 0 {
				broken = ""
			} else {
				r := &ranges[rapid.SampledFrom(candidates).Draw(rt, "breakRange")]
				e := &r.entries[rapid.IntRange(0, len(r.entries)-1).Draw(rt, "breakEntry")]
				switch broken {
				case "family":
					of := 20 - len(r.addr)
					e.maskAddr = c48Bytes(rt, of, "badMaskAddr")
					e.maskLen = rapid.IntRange(0, of*8).Draw(rt, "badMaskLen")
				case "port-high":
					e.port = rapid.OneOf(rapid.Just(65536), rapid.IntRange(65536, 1<<30)).Draw(rt, "badPort")
				case "port-negative":
					e.port = -rapid.OneOf(rapid.Just(1), rapid.IntRange(1, 1<<30)).Draw(rt, "badPort")
				}
			}
		}
		yaml := c48Yaml(ranges)
		c := config.NewC(c48Log)
		if err := c.LoadString(yaml); err != nil {
			rt.Fatalf("harness produced YAML the loader cannot read: %v\n%s", err, yaml)
		}
		tbl, err := NewCalculatedRemotesFromConfig(c, "lighthouse.calculated_remotes")
		if broken != "" {
			if err == nil {
				rt.Fatalf("config with %s accepted:\n%s", broken, yaml)
			}
			vk.Case(c48PID, "bad/"+yaml, true, "config:refused-"+broken)
			return
		}
		if err != nil || tbl == nil {
			rt.Fatalf("valid config refused: %v\n%s", err, yaml)
		}

		// overlay addresses to ask about
		lh := c48LightHouse(tbl)
		nq := rapid.IntRange(1, 4).Draw(rt, "nQueries")
		anyNT := false
		var labels []string
		var asked []string
		for q := 0; q < nq; q++ {
			kind := rapid.SampledFrom([]string{"inside", "inside", "inside", "just-outside", "random", "other-family"}).Draw(rt, "addrKind")
			r := ranges[rapid.IntRange(0, len(ranges)-1).Draw(rt, "whichRange")]
			fam := len(r.addr)
			var a []byte
			switch kind {
			case "inside", "just-outside":
				a = slices.Clone(r.addr)
				rnd := c48Bytes(rt, fam, "host")
				for b := r.bits; b < fam*8; b++ {
					c48SetBit(a, b, c48Bit(rnd, b))
				}
				if kind == "just-outside" && r.bits > 0 {
					fb := rapid.OneOf(rapid.Just(r.bits-1), rapid.IntRange(0, r.bits-1)).Draw(rt, "flipBit")
					c48SetBit(a, fb, 1-c48Bit(a, fb))
				}
			case "random":
				a = c48Bytes(rt, fam, "randomAddr")
			case "other-family":
				a = c48Bytes(rt, 20-fam, "otherFamAddr")
			}
			addr := c48Addr(a)
			if addr.Is4In6() || !addr.IsValid() {
				continue // overlay addresses are never v4-mapped
			}
			var containing []c48Range
			for _, x := range ranges {
				if c48Contains(x.addr, x.bits, a) {
					containing = append(containing, x)
				}
			}
			expectFor := func(x c48Range) []c48Remote {
				var o []c48Remote
				for _, e := range x.entries {
					s := c48Splice(e.maskAddr, e.maskLen, a)
					if c48InMyNets(s) {
						continue
					}
					if len(s) == 16 && c48Addr(s).Is4In6() && c48InMyNets(c48Addr(s).Unmap().AsSlice()) {
						continue
					}
					o = append(o, c48Key(s, uint32(e.port)))
					if e.maskLen%8 != 0 {
						anyNT = true
					}
				}
				return o
			}
			asked = append(asked, addr.String())
			delete(lh.addrMap, addr)
			ret := lh.addCalculatedRemotes(addr)
			var got []c48Remote
			if rl := lh.addrMap[addr]; rl != nil {
				for owner, ca := range rl.cache {
					if owner != c48MyNets[0].Addr() {
						rt.Fatalf("calculated remotes stored under owner %v", owner)
					}
					if ca.v4 != nil {
						for _, p := range ca.v4.reported {
							b, port := c48FromV4(p)
							got = append(got, c48Key(b, port))
						}
					}
					if ca.v6 != nil {
						for _, p := range ca.v6.reported {
							b, port := c48FromV6(p)
							got = append(got, c48Key(b, port))
						}
					}
				}
			}
			c48SortRemotes(got)
			ctx := func() string {
				return fmt.Sprintf("overlay %v (%s), returned %v, stored %v\n%s", addr, kind, ret, got, yaml)
			}
			switch len(containing) {
			case 0:
				if ret || len(got) > 0 {
					rt.Fatalf("remotes produced for an address outside every configured range: %s", ctx())
				}
				labels = append(labels, "query:outside-"+kind)
			case 1:
				want := expectFor(containing[0])
				c48SortRemotes(want)
				if !slices.Equal(got, want) {
					rt.Fatalf("want %v: %s", want, ctx())
				}
				labels = append(labels, "query:one-range", fmt.Sprintf("query:entries=%d", len(containing[0].entries)))
			default:
				var union []c48Remote
				okOne := false
				for _, x := range containing {
					w := expectFor(x)
					union = append(union, w...)
					if c48SubMultiset(w, got) {
						okOne = true
					}
				}
				if !c48SubMultiset(got, union) {
					rt.Fatalf("a stored remote is not the splice of any entry of a containing range (all candidates %v): %s", union, ctx())
				}
				if !okOne {
					rt.Fatalf("no containing range has all its entries produced (candidates %v): %s", union, ctx())
				}
				labels = append(labels, "query:nested-ranges")
			}
		}
		labels = append(labels, fmt.Sprintf("config:v%d", map[int]int{4: 4, 16: 6}[n]), fmt.Sprintf("config:ranges=%d", len(ranges)))
		if anyNT {
			labels = append(labels, "nontrivial")
		}
		vk.Case(c48PID, "cfg/"+yaml+strings.Join(asked, ","), anyNT, labels...)
		if anyNT && vk.WantSample(c48PID) {
			vk.Sample(c48PID, map[string]any{"yaml": yaml})
		}
	})
}
