package nebula

// C20 - packet classification matches what the host will process.
//
// newPacket (outside.go) + iputil.IPv6FindUpperProtocol are compared with the independent strict
// reference parser verifkit/pkt.Parse (itself cross-checked against gopacket on the subset gopacket
// can decode). The statement is an implication on ACCEPTED packets only: "either rejects it or
// reports what an independent parser finds"; nothing is asserted about which packets are rejected
// beyond "a chain that cannot be fully resolved inside the buffer is rejected".
//
// Interpretation notes (kept next to the oracle on purpose):
//   - The buffer is the authority, not the declared IPv4 total length / IPv6 payload length: the
//     inside path hands TSO/USO superpackets to newPacket whose length fields do not match.
//   - Ports are asserted for TCP/UDP, the ICMP identifier for message types that have one. For
//     protocols whose port layout the reference does not know, IPv6 must report 0/0 (documented in
//     parseV6); IPv4 historically reports the first four upper-layer bytes and is not asserted.
//   - For an IPv6 non-first fragment IPHdrLen is compared with the offset of the fragment header,
//     as documented on IPv6FindUpperProtocol ("offset points at the fragment header").

import (
	"encoding/hex"
	"fmt"
	"net/netip"
	"testing"

	"github.com/google/gopacket"
	"github.com/google/gopacket/layers"
	"github.com/slackhq/nebula/firewall"
	"pgregory.net/rapid"
	"verifkit/pkt"
	"verifkit/pktgen"
	"verifkit/vk"
)

const (
	c20PID     = "C20"
	c20KeyGt8  = "ipv6-ext-chain-gt8"
	c20KeyEq8  = "ipv6-ext-chain-eq8-overrun"
	c20MaxWalk = 8 // the walker's documented limit (maxIPv6ExtHeaders); used ONLY to delimit the recorded finding classes
)

// c20KnownClass tells whether b falls into one of the two recorded finding classes. It is written
// against the wire format only (no call into the code under test):
//
//	gt8:  an IPv6 packet whose first 8 extension headers can each be stepped over (their leading
//	      bytes are in the buffer and none is a non-first fragment) and whose 9th header is again an
//	      extension header;
//	eq8:  exactly 8 such headers, the declared lengths carry the offset beyond the buffer, and the
//	      upper-layer protocol is not TCP/UDP/ICMPv6 (those are rejected later for lack of ports).
func c20KnownClass(b []byte) string {
	if len(b) < 40 || b[0]>>4 != 6 {
		return ""
	}
	next, off := b[6], 40
	for i := 0; i < c20MaxWalk; i++ {
		switch {
		case next == pkt.ProtoFragment:
			if off+8 > len(b) {
				return ""
			}
			if b[off+2] != 0 || b[off+3]&0xf8 != 0 {
				return ""
			}
			next, off = b[off], off+8
		case next == pkt.ProtoAH:
			if off+2 > len(b) {
				return ""
			}
			next, off = b[off], off+(int(b[off+1])+2)*4
		case pkt.IsExt(next):
			if off+2 > len(b) {
				return ""
			}
			next, off = b[off], off+(int(b[off+1])+1)*8
		default:
			return ""
		}
	}
	if pkt.IsExt(next) {
		return c20KeyGt8
	}
	if off > len(b) && next != pkt.ProtoTCP && next != pkt.ProtoUDP && next != pkt.ProtoICMPv6 {
		return c20KeyEq8
	}
	return ""
}

type c20Want struct {
	local, remote         netip.Addr
	localPort, remotePort uint16
}

// c20Oracle compares an ACCEPTED parse with the reference. It returns "" or a description of the
// disagreement.
func c20Oracle(b []byte, incoming bool, fp *firewall.ParsedPacket, ref *pkt.Info, rerr error) string {
	if rerr != nil {
		return fmt.Sprintf("accepted, but the reference cannot resolve the packet inside the buffer: %v (reported proto=%d hdrlen=%d)", rerr, fp.Protocol, fp.IPHdrLen)
	}
	var w c20Want
	if incoming {
		w.local, w.remote = ref.Dst, ref.Src
	} else {
		w.local, w.remote = ref.Src, ref.Dst
	}
	if fp.LocalAddr != w.local || fp.RemoteAddr != w.remote {
		return fmt.Sprintf("addresses local=%v remote=%v, reference local=%v remote=%v", fp.LocalAddr, fp.RemoteAddr, w.local, w.remote)
	}
	if fp.Protocol != ref.Proto {
		return fmt.Sprintf("protocol %d, reference %d", fp.Protocol, ref.Proto)
	}
	if ref.Version == 6 && !ref.NonFirst && pkt.IsExt(fp.Protocol) {
		return fmt.Sprintf("IPv6 upper-layer protocol reported as extension header %d", fp.Protocol)
	}
	if fp.Fragment != ref.NonFirst {
		return fmt.Sprintf("Fragment(non-first)=%v, reference %v", fp.Fragment, ref.NonFirst)
	}
	if fp.FragAny != ref.Frag {
		return fmt.Sprintf("FragAny=%v, reference %v", fp.FragAny, ref.Frag)
	}
	wantHdr := ref.L4Off
	if ref.Version == 6 && ref.NonFirst {
		wantHdr = ref.FragHdrOff
	}
	if fp.IPHdrLen != wantHdr {
		return fmt.Sprintf("IPHdrLen=%d, reference %d", fp.IPHdrLen, wantHdr)
	}
	if fp.IPHdrLen > len(b) {
		return fmt.Sprintf("IPHdrLen=%d beyond the %d byte buffer", fp.IPHdrLen, len(b))
	}
	if ref.NonFirst {
		if fp.LocalPort != 0 || fp.RemotePort != 0 {
			return fmt.Sprintf("non-first fragment reports ports %d/%d", fp.LocalPort, fp.RemotePort)
		}
		return ""
	}
	switch {
	case ref.Proto == pkt.ProtoTCP || ref.Proto == pkt.ProtoUDP:
		if !ref.HasPorts {
			return "accepted TCP/UDP although the ports are not inside the buffer"
		}
		if incoming {
			w.remotePort, w.localPort = ref.SrcPort, ref.DstPort
		} else {
			w.localPort, w.remotePort = ref.SrcPort, ref.DstPort
		}
		if fp.LocalPort != w.localPort || fp.RemotePort != w.remotePort {
			return fmt.Sprintf("ports local=%d remote=%d, reference local=%d remote=%d", fp.LocalPort, fp.RemotePort, w.localPort, w.remotePort)
		}
	case ref.Version == 4 && ref.Proto == pkt.ProtoICMP, ref.Version == 6 && ref.Proto == pkt.ProtoICMPv6:
		if !ref.HasICMP {
			return "accepted ICMP although type/code/checksum are not inside the buffer"
		}
		if fp.LocalPort != 0 {
			return fmt.Sprintf("ICMP LocalPort=%d", fp.LocalPort)
		}
		if ref.ICMPHasID() {
			if !ref.HasICMPRest {
				return "accepted ICMP echo-style message although the identifier is not inside the buffer"
			}
			if fp.RemotePort != ref.ICMPID {
				return fmt.Sprintf("ICMP identifier %d, reference %d", fp.RemotePort, ref.ICMPID)
			}
		} else if ref.Version == 6 && fp.RemotePort != 0 {
			return fmt.Sprintf("ICMPv6 type %d has no identifier but RemotePort=%d", ref.ICMPType, fp.RemotePort)
		}
	default:
		if ref.Version == 6 && (fp.LocalPort != 0 || fp.RemotePort != 0) {
			return fmt.Sprintf("IPv6 protocol %d is not inspected but ports %d/%d reported", ref.Proto, fp.LocalPort, fp.RemotePort)
		}
	}
	return ""
}

// c20Gopacket is the second opinion on the reference parser: on packets gopacket decodes without
// error (no fragments) it must see the same addresses, the same upper-layer offset and the same
// ports / ICMP type. Returns a label and, on disagreement, a message.
func c20Gopacket(b []byte, ref *pkt.Info) (string, string) {
	if ref.Frag || !ref.WellFormed() {
		return "", ""
	}
	first := layers.LayerTypeIPv4
	if ref.Version == 6 {
		first = layers.LayerTypeIPv6
	}
	p := gopacket.NewPacket(b, first, gopacket.DecodeOptions{NoCopy: true})
	declined := p.ErrorLayer() != nil
	nl := p.NetworkLayer()
	if nl == nil {
		return "gopacket-declined", ""
	}
	var src, dst netip.Addr
	switch l := nl.(type) {
	case *layers.IPv4:
		src, _ = netip.AddrFromSlice(l.SrcIP.To4())
		dst, _ = netip.AddrFromSlice(l.DstIP.To4())
		if int(l.IHL)*4 != ref.HdrLen || uint8(l.Protocol) != ref.Proto {
			return "", fmt.Sprintf("gopacket IHL=%d proto=%d, reference hdrlen=%d proto=%d", l.IHL, l.Protocol, ref.HdrLen, ref.Proto)
		}
	case *layers.IPv6:
		src, _ = netip.AddrFromSlice(l.SrcIP)
		dst, _ = netip.AddrFromSlice(l.DstIP)
	}
	if src != ref.Src || dst != ref.Dst {
		return "", fmt.Sprintf("gopacket addresses %v>%v, reference %v>%v", src, dst, ref.Src, ref.Dst)
	}
	if declined {
		return "gopacket-agrees-network-layer-only", ""
	}
	off := func(l gopacket.Layer) int { return len(b) - len(l.LayerContents()) - len(l.LayerPayload()) }
	// gopacket's opinion of the upper layer = the first layer behind the IP header and the extension
	// headers (NOT any later layer: protocols 4/41/47 carry whole inner packets that gopacket decodes too)
	var up gopacket.Layer
	for i, l := range p.Layers() {
		switch l.LayerType() {
		case layers.LayerTypeIPv4, layers.LayerTypeIPv6:
			if i == 0 {
				continue
			}
		case layers.LayerTypeIPv6HopByHop, layers.LayerTypeIPv6Routing, layers.LayerTypeIPv6Destination, layers.LayerTypeIPSecAH:
			if ref.Version == 4 {
				// IPv4 has no extension headers: protocol 0/43/60/51 behind an IPv4 header is just an upper
				// protocol nebula does not inspect. gopacket decodes them as IPv6 extension layers and walks
				// on into the payload; its opinion about what follows is not an opinion about this packet.
				return "gopacket-v4-with-ipv6-exthdr-protocol", ""
			}
			continue
		}
		up = l
		break
	}
	switch l := up.(type) {
	case *layers.TCP:
		if ref.Proto != pkt.ProtoTCP || off(l) != ref.L4Off || uint16(l.SrcPort) != ref.SrcPort || uint16(l.DstPort) != ref.DstPort ||
			ref.TCP == nil || l.Seq != ref.TCP.Seq || l.Ack != ref.TCP.Ack || int(l.DataOffset)*4 != ref.TCP.DataOff {
			return "", fmt.Sprintf("gopacket TCP at %d %d>%d, reference proto=%d at %d %d>%d", off(l), l.SrcPort, l.DstPort, ref.Proto, ref.L4Off, ref.SrcPort, ref.DstPort)
		}
		return "gopacket-agrees-tcp", ""
	case *layers.UDP:
		if ref.Proto != pkt.ProtoUDP || off(l) != ref.L4Off || uint16(l.SrcPort) != ref.SrcPort || uint16(l.DstPort) != ref.DstPort {
			return "", fmt.Sprintf("gopacket UDP at %d %d>%d, reference proto=%d at %d %d>%d", off(l), l.SrcPort, l.DstPort, ref.Proto, ref.L4Off, ref.SrcPort, ref.DstPort)
		}
		return "gopacket-agrees-udp", ""
	case *layers.ICMPv4:
		if ref.Version != 4 {
			break // ICMPv4 under IPv6 is just an unknown protocol to the classifier
		}
		if ref.Proto != pkt.ProtoICMP || off(l) != ref.L4Off || !ref.HasICMP || l.TypeCode.Type() != ref.ICMPType || l.TypeCode.Code() != ref.ICMPCode || l.Id != ref.ICMPID {
			return "", fmt.Sprintf("gopacket ICMPv4 at %d type %d id %d, reference proto=%d at %d type %d id %d", off(l), l.TypeCode.Type(), l.Id, ref.Proto, ref.L4Off, ref.ICMPType, ref.ICMPID)
		}
		return "gopacket-agrees-icmp4", ""
	case *layers.ICMPv6:
		// gopacket: contents = 4 bytes, payload = rest
		if ref.Version != 6 {
			break // ICMPv6 under IPv4 is just an unknown protocol to the classifier
		}
		if ref.Proto != pkt.ProtoICMPv6 || off(l) != ref.L4Off || !ref.HasICMP || l.TypeCode.Type() != ref.ICMPType || l.TypeCode.Code() != ref.ICMPCode {
			return "", fmt.Sprintf("gopacket ICMPv6 at %d type %d, reference proto=%d at %d type %d", off(l), l.TypeCode.Type(), ref.Proto, ref.L4Off, ref.ICMPType)
		}
		return "gopacket-agrees-icmp6", ""
	}
	if ref.Proto == pkt.ProtoTCP || ref.Proto == pkt.ProtoUDP || ref.HasICMP {
		return "", fmt.Sprintf("reference sees protocol %d at %d, gopacket's upper layer is %v", ref.Proto, ref.L4Off, up)
	}
	return "gopacket-other-proto", ""
}

func c20Labels(b []byte, ref *pkt.Info, rerr error, accepted bool) (labels []string, nontrivial bool) {
	add := func(s string) { labels = append(labels, s) }
	if accepted {
		add("accepted")
	} else {
		add("rejected")
	}
	if rerr != nil {
		add("ref-unresolved")
	}
	switch ref.Version {
	case 4:
		add("v4")
		if ref.HdrLen > 20 && rerr == nil {
			add("v4-options")
			nontrivial = true
		}
	case 6:
		add("v6")
		n := len(ref.Ext)
		switch {
		case n == 0:
			add("ext-0")
		case n <= 3:
			add("ext-1..3")
		case n <= 6:
			add("ext-4..6")
		case n <= 8:
			add("ext-7..8")
		default:
			add("ext-9+")
		}
		if n >= 7 {
			add("chain>=7")
		}
		if n > 0 {
			nontrivial = true
		}
	default:
		add("v-other")
	}
	if ref.Frag {
		nontrivial = true
		if ref.NonFirst {
			add("frag-nonfirst")
		} else {
			add("frag-first-or-atomic")
		}
	}
	if rerr == nil {
		switch {
		case ref.NonFirst:
		case ref.Proto == pkt.ProtoTCP:
			add("l4-tcp")
		case ref.Proto == pkt.ProtoUDP:
			add("l4-udp")
		case ref.HasICMP:
			add("l4-icmp")
		case ref.Version == 6 && pkt.IsExt(ref.Proto):
			add("l4-IMPOSSIBLE-ext")
		default:
			add("l4-unknown-proto")
		}
		if accepted && ref.DeclLen != len(b) {
			add("accepted-declared-length-differs")
		}
	}
	return
}

// c20One runs one input through newPacket (with a reused, dirty struct and with a fresh one) and
// the oracle. It returns a failure text or "".
func c20One(b []byte, incoming bool, gp bool) (fail string, labels []string, nontrivial bool, excluded string) {
	ref, rerr := pkt.Parse(b)
	// the "previous packet" left every field set (fixed content so that failures replay exactly)
	dirty := &firewall.ParsedPacket{Packet: firewall.Packet{LocalAddr: netip.MustParseAddr("203.0.113.7"), RemoteAddr: netip.MustParseAddr("2001:db8::7"),
		LocalPort: 0xdead, RemotePort: 0xbeef, Protocol: 99, Fragment: true}, IPHdrLen: 777, FragAny: true}
	if cls := c20KnownClass(b); cls != "" && vk.KnownOpen(c20PID, cls) {
		return "", nil, false, cls
	}
	fresh := &firewall.ParsedPacket{}
	errF := newPacket(b, incoming, fresh)
	errD := newPacket(b, incoming, dirty)
	labels, nontrivial = c20Labels(b, ref, rerr, errF == nil)
	if (errF == nil) != (errD == nil) {
		return fmt.Sprintf("verdict depends on the previous packet: fresh struct err=%v, reused struct err=%v", errF, errD), labels, nontrivial, ""
	}
	if errF == nil {
		if *fresh != *dirty {
			return fmt.Sprintf("residue from the previous packet: fresh %+v, reused %+v", *fresh, *dirty), labels, nontrivial, ""
		}
		if msg := c20Oracle(b, incoming, fresh, ref, rerr); msg != "" {
			return msg, labels, nontrivial, ""
		}
	}
	if gp && rerr == nil {
		l, msg := c20Gopacket(b, ref)
		if msg != "" {
			return "REFERENCE PARSER disagrees with gopacket (harness problem, not nebula): " + msg, labels, nontrivial, ""
		}
		if l != "" {
			labels = append(labels, l)
		}
	}
	return "", labels, nontrivial, ""
}

func c20Key(b []byte, incoming bool) string {
	if incoming {
		return "i" + string(b)
	}
	return "o" + string(b)
}

// Well-formed packets only (no truncation, mutation, wrong lengths): maximises the share of cases on
// which gopacket gives its second opinion on the reference parser, and covers the plain accepted
// paths densely.
func TestC20_WellFormed(t *testing.T) {
	vk.Check(t, 15000, func(rt *rapid.T) {
		c := pktgen.Draw(rt, pktgen.Benign)
		incoming := rapid.Bool().Draw(rt, "incoming")
		fail, labels, nt, excl := c20One(c.Bytes, incoming, true)
		if excl != "" {
			vk.Excluded(c20PID, excl)
			return
		}
		if fail != "" {
			rt.Fatalf("C20 violated: %s\nincoming=%v packet=%s", fail, incoming, hex.EncodeToString(c.Bytes))
		}
		vk.Case(c20PID, c20Key(c.Bytes, incoming), nt, append(labels, "benign-profile")...)
	})
}

func TestC20_Structured(t *testing.T) {
	vk.Check(t, 50000, func(rt *rapid.T) {
		c := pktgen.Draw(rt, pktgen.Hostile)
		incoming := rapid.Bool().Draw(rt, "incoming")
		fail, labels, nt, excl := c20One(c.Bytes, incoming, !c.Raw)
		if excl != "" {
			vk.Excluded(c20PID, excl)
			return
		}
		if fail != "" {
			rt.Fatalf("C20 violated: %s\nincoming=%v packet=%s", fail, incoming, hex.EncodeToString(c.Bytes))
		}
		if c.Trunc {
			labels = append(labels, "truncated")
		}
		if c.Mutated {
			labels = append(labels, "mutated")
		}
		if c.Raw {
			labels = append(labels, "raw-noise")
		}
		vk.Case(c20PID, c20Key(c.Bytes, incoming), nt, labels...)
		if nt && vk.WantSample(c20PID) {
			vk.Sample(c20PID, map[string]any{"incoming": incoming, "packet": hex.EncodeToString(c.Bytes), "labels": labels})
		}
	})
}

// Every truncation point of a drawn packet (up to 24 bytes into the upper layer).
func TestC20_TruncationSweep(t *testing.T) {
	o := pktgen.Hostile
	o.TruncPct, o.RawPct, o.MutatePct, o.BigPct = 0, 0, 0, 0
	vk.Check(t, 1500, func(rt *rapid.T) {
		c := pktgen.Draw(rt, o)
		incoming := rapid.Bool().Draw(rt, "incoming")
		full := c.Bytes
		lim := len(full)
		if ref, _ := pkt.Parse(full); ref != nil && ref.L4Off+24 < lim {
			lim = ref.L4Off + 24
		}
		if lim > 400 {
			lim = 400
		}
		for cut := 0; cut <= lim && cut <= len(full); cut++ {
			b := full[:cut:cut]
			fail, labels, nt, excl := c20One(b, incoming, false)
			if excl != "" {
				vk.Excluded(c20PID, excl)
				continue
			}
			if fail != "" {
				rt.Fatalf("C20 violated at truncation %d of %d: %s\nincoming=%v packet=%s", cut, len(full), fail, incoming, hex.EncodeToString(b))
			}
			vk.Case(c20PID, c20Key(b, incoming), nt, append(labels, "sweep")...)
		}
	})
}

// ---- recorded findings: probes -----------------------------------------------------------------

func c20ProbeInputs() map[string][]byte {
	s, d := netip.MustParseAddr("fd00::1"), netip.MustParseAddr("fd00::2")
	nine := make([]pkt.Ext, 9)
	for i := range nine {
		nine[i] = pkt.Ext{Type: pkt.ProtoDestOpts}
	}
	gt8 := (&pkt.Packet{V6: true, Src: s, Dst: d, TTL: 64, Ext: nine, Proto: pkt.ProtoTCP, L4: pkt.TCP{SrcPort: 1000, DstPort: 22, Flags: pkt.TCPSyn}}).Bytes()
	eight := make([]pkt.Ext, 8)
	for i := range eight {
		eight[i] = pkt.Ext{Type: pkt.ProtoDestOpts}
	}
	eight[7].ForceLen, eight[7].Len = true, 255
	eq8 := (&pkt.Packet{V6: true, Src: s, Dst: d, TTL: 64, Ext: eight, Proto: pkt.ProtoNoNext}).Bytes()
	return map[string][]byte{c20KeyGt8: gt8, c20KeyEq8: eq8}
}

func c20Probe(t *testing.T, key string) {
	defer vk.Flush()
	b := c20ProbeInputs()[key]
	if got := c20KnownClass(b); got != key {
		t.Fatalf("probe input for %s is classified as %q", key, got)
	}
	ref, rerr := pkt.Parse(b)
	for _, incoming := range []bool{true, false} {
		fp := &firewall.ParsedPacket{}
		err := newPacket(b, incoming, fp)
		if err != nil {
			continue // rejected: does not reproduce
		}
		msg := c20Oracle(b, incoming, fp, ref, rerr)
		if msg == "" {
			continue
		}
		if vk.KnownOpen(c20PID, key) {
			vk.ReportKnown(c20PID, key)
			return
		}
		t.Fatalf("C20 violated (%s): %s\nincoming=%v packet=%s", key, msg, incoming, hex.EncodeToString(b))
	}
}

func TestC20_Probe_ipv6_ext_chain_gt8(t *testing.T)         { c20Probe(t, c20KeyGt8) }
func TestC20_Probe_ipv6_ext_chain_eq8_overrun(t *testing.T) { c20Probe(t, c20KeyEq8) }

// ---- native fuzzing (thorough tier) ------------------------------------------------------------

func c20Seeds() [][]byte {
	s6, d6 := netip.MustParseAddr("fd00::1"), netip.MustParseAddr("fd00::2")
	s4, d4 := netip.MustParseAddr("10.0.0.1"), netip.MustParseAddr("10.0.0.2")
	tcp := pkt.TCP{SrcPort: 1000, DstPort: 443, Seq: 1, Flags: pkt.TCPSyn, Payload: []byte("x")}
	ps := []*pkt.Packet{
		{Src: s4, Dst: d4, TTL: 64, Proto: pkt.ProtoTCP, L4: tcp},
		{Src: s4, Dst: d4, TTL: 64, Proto: pkt.ProtoUDP, Options: []byte{7, 7, 4, 0, 1, 1, 1, 1}, L4: pkt.UDP{SrcPort: 53, DstPort: 53}},
		{Src: s4, Dst: d4, TTL: 64, Proto: pkt.ProtoICMP, L4: pkt.ICMP{Type: 8, ID: 7, Seq: 1}},
		{Src: s4, Dst: d4, TTL: 64, Proto: pkt.ProtoUDP, Flags: 1, L4: pkt.UDP{SrcPort: 1, DstPort: 2}},
		{Src: s4, Dst: d4, TTL: 64, Proto: pkt.ProtoUDP, FragOff: 185, L4: pkt.Raw("12345678")},
		{Src: s4, Dst: d4, TTL: 64, Proto: 47, L4: pkt.Raw("12345678")},
		{V6: true, Src: s6, Dst: d6, TTL: 64, Proto: pkt.ProtoTCP, L4: tcp},
		{V6: true, Src: s6, Dst: d6, TTL: 64, Proto: pkt.ProtoICMPv6, L4: pkt.ICMP{Type: 128, ID: 9}},
		{V6: true, Src: s6, Dst: d6, TTL: 64, Ext: []pkt.Ext{{Type: 0}, {Type: 43, Data: make([]byte, 22)}, {Type: 51}, {Type: 60}}, Proto: pkt.ProtoUDP, L4: pkt.UDP{SrcPort: 5, DstPort: 6}},
		{V6: true, Src: s6, Dst: d6, TTL: 64, Ext: []pkt.Ext{{Type: 60}, {Type: 44, MF: true, ID: 3}}, Proto: pkt.ProtoTCP, L4: tcp},
		{V6: true, Src: s6, Dst: d6, TTL: 64, Ext: []pkt.Ext{{Type: 44, FragOff: 5, ID: 3}}, Proto: pkt.ProtoTCP, L4: pkt.Raw("abcdefgh")},
		{V6: true, Src: s6, Dst: d6, TTL: 64, Ext: []pkt.Ext{{Type: 0}, {Type: 135}}, Proto: pkt.ProtoUDP, L4: pkt.UDP{SrcPort: 5, DstPort: 6}},
		{V6: true, Src: s6, Dst: d6, TTL: 64, Ext: []pkt.Ext{{Type: 60, ForceLen: true, Len: 255}}, Proto: 132, L4: pkt.Raw("abcdefgh")},
		{V6: true, Src: s6, Dst: d6, TTL: 64, Ext: []pkt.Ext{{Type: 60}, {Type: 60}, {Type: 60}, {Type: 60}, {Type: 60}, {Type: 60}, {Type: 60}}, Proto: pkt.ProtoTCP, L4: tcp},
		{V6: true, Src: s6, Dst: d6, TTL: 64, Ext: []pkt.Ext{{Type: 60}, {Type: 60}, {Type: 60}, {Type: 60}, {Type: 60}, {Type: 60}, {Type: 60}, {Type: 43}}, Proto: pkt.ProtoTCP, L4: tcp},
	}
	var out [][]byte
	for _, p := range ps {
		out = append(out, p.Bytes())
	}
	return out
}

func FuzzC20(f *testing.F) {
	for _, b := range c20Seeds() {
		f.Add(b, true)
		f.Add(b, false)
	}
	f.Add([]byte{}, true)
	f.Add([]byte{0x45}, false)
	f.Fuzz(func(t *testing.T, b []byte, incoming bool) {
		fail, _, _, excl := c20One(b, incoming, false)
		if excl != "" {
			return
		}
		if fail != "" {
			t.Fatalf("C20 violated: %s\nincoming=%v packet=%s", fail, incoming, hex.EncodeToString(b))
		}
	})
}
