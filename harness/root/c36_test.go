package nebula

// C36 (list level) - unusable underlay addresses are never used.
//
// A LightHouse with generated own overlay networks, remote_allow_list / remote_allow_ranges,
// static hosts, calculated remotes and (for clients) a configured lighthouse is driven inside a
// synctest bubble through generated histories: lighthouse answers and host updates with up to 30
// addresses (inside the own networks, denied, allowed, IPv4-mapped), tunnel-up / roaming events
// (under the callers' guards), wrong-responder blocks, completed handshakes, calculated remotes,
// DNS-style hostname results, tunnel closes and punch notifications. After every step every
// address in every RemoteList.CopyAddrs and every UDP destination the punch worker wrote to must
// satisfy the predicate of the property statement, computed by the C38 reference evaluator
// (c38_test.go); per-source caps and the persistence of static entries are checked as well.
// The multi-node wire-level part of C36 lives in the netsim harness.

import (
	"context"
	"fmt"
	"net/netip"
	"sort"
	"strings"
	"testing"
	"testing/synctest"
	"time"

	"github.com/gaissmai/bart"
	"github.com/slackhq/nebula/cert"
	"github.com/slackhq/nebula/config"
	"github.com/slackhq/nebula/header"
	"github.com/slackhq/nebula/test"
	"github.com/slackhq/nebula/udp"
	"pgregory.net/rapid"
	"verifkit/vk"
)

const c36Key = "punch-own-network"

type c36Conn struct {
	udp.NoopConn
	wrote []netip.AddrPort
}

func (c *c36Conn) WriteTo(b []byte, a netip.AddrPort) error {
	c.wrote = append(c.wrote, a)
	return nil
}

type c36Writer struct {
	version cert.Version
	tests   []netip.Addr
}

func (w *c36Writer) SendVia(*HostInfo, *Relay, []byte, []byte, []byte, bool, int) {}
func (w *c36Writer) Handshake(netip.Addr)                                        {}
func (w *c36Writer) SendMessageToHostInfo(header.MessageType, header.MessageSubType, *HostInfo, []byte, []byte, []byte) {
}
func (w *c36Writer) SendMessageToVpnAddr(t header.MessageType, st header.MessageSubType, a netip.Addr, p, _, _ []byte) {
	if t == header.Test {
		w.tests = append(w.tests, a)
	}
}
func (w *c36Writer) GetHostInfo(netip.Addr) *HostInfo { return nil }
func (w *c36Writer) GetCertState() *CertState         { return &CertState{initiatingVersion: w.version} }

// ---- configuration -----------------------------------------------------------------------------

type c36Range struct {
	e   c38Ent
	ref *c38Ref
}

type c36Cfg struct {
	amLH     bool
	nets     []netip.Prefix
	global   *c38Ref
	ranges   []c36Range
	statics  map[netip.Addr][]netip.AddrPort
	calc     bool
	settings map[string]any
	desc     string
}

var c36NetPool = []string{"10.128.0.1/24", "fd00::1/64", "192.168.100.1/24"}

// underlay addresses: inside the (possible) own networks, public, private, v6, mapped spellings
var c36U4 = []string{"10.128.0.77", "10.128.0.200", "192.168.100.9", "1.2.3.4", "1.2.3.5", "8.8.4.4", "203.0.113.7", "192.168.7.1", "192.168.7.5", "172.16.9.9", "10.1.1.1", "100.64.0.9"}
var c36U6 = []string{"fd00::77", "fd00::200", "2001:db8::1", "2001:db8::2", "2001:db8:1::9", "fe80::7", "::ffff:10.128.0.77", "::ffff:1.2.3.4", "::ffff:192.168.100.9", "::ffff:192.168.7.1"}
var c36AllowKeys = []string{"10.0.0.0/8", "10.128.0.0/16", "192.168.0.0/16", "192.168.7.0/24", "1.2.3.0/24", "1.2.3.4/32", "8.8.0.0/16", "203.0.113.0/24", "172.16.0.0/12", "100.64.0.0/10",
	"2001:db8::/32", "2001:db8:1::/48", "2001:db8::1/128", "fe80::/10", "fd00::/8"}
var c36RangeKeys = []string{"10.128.0.0/25", "10.128.0.128/25", "10.128.0.2/32", "10.128.0.0/24", "fd00::/64", "fd00::4/128", "0.0.0.0/0"}

func c36Addrs(s ...string) []netip.Addr {
	out := make([]netip.Addr, len(s))
	for i := range s {
		out[i] = netip.MustParseAddr(s[i])
	}
	return out
}

func c36U32(a netip.Addr) uint32 {
	b := a.As4()
	return uint32(b[0])<<24 | uint32(b[1])<<16 | uint32(b[2])<<8 | uint32(b[3])
}

func c36ProtoAddr(a netip.Addr) *Addr {
	b := a.As16()
	var hi, lo uint64
	for i := 0; i < 8; i++ {
		hi = hi<<8 | uint64(b[i])
		lo = lo<<8 | uint64(b[8+i])
	}
	return &Addr{Hi: hi, Lo: lo}
}

// overlay peers
var c36Peers = [][]netip.Addr{
	c36Addrs("10.128.0.2"), c36Addrs("10.128.0.3"), c36Addrs("fd00::4"), c36Addrs("10.128.0.130"), c36Addrs("10.128.0.5", "fd00::5"),
}
var c36LH = netip.MustParseAddr("10.128.0.100")

// c36GenAllow draws a VALID allow-list map: per family either nothing, a deny list (all false), an
// allow list (all true) or mixed values below an explicit default.
func c36GenAllow(rt *rapid.T, l string, maxN int) map[string]any {
	m := map[string]any{}
	mode4 := rapid.IntRange(0, 3).Draw(rt, l+"mode4")
	mode6 := rapid.IntRange(0, 3).Draw(rt, l+"mode6")
	for _, k := range rapid.SliceOfNDistinct(rapid.SampledFrom(c36AllowKeys), 0, maxN, func(s string) string { return s }).Draw(rt, l+"keys") {
		mode := mode6
		if !strings.Contains(k, ":") {
			mode = mode4
		}
		switch mode {
		case 0:
		case 1:
			m[k] = false
		case 2:
			m[k] = true
		case 3:
			m[k] = rapid.Bool().Draw(rt, l+"val")
		}
	}
	if mode4 == 3 {
		m["0.0.0.0/0"] = rapid.Bool().Draw(rt, l+"def4")
	}
	if mode6 == 3 {
		m["::/0"] = rapid.Bool().Draw(rt, l+"def6")
	}
	return m
}

func c36GenCfg(rt *rapid.T) c36Cfg {
	c := c36Cfg{statics: map[netip.Addr][]netip.AddrPort{}}
	c.amLH = rapid.IntRange(0, 2).Draw(rt, "amLighthouse") == 0
	c.nets = []netip.Prefix{netip.MustParsePrefix(c36NetPool[0])}
	for _, n := range c36NetPool[1:] {
		if rapid.Bool().Draw(rt, "net") {
			c.nets = append(c.nets, netip.MustParsePrefix(n))
		}
	}
	lhs := map[string]any{"am_lighthouse": c.amLH, "interval": 0}
	if rapid.IntRange(0, 4).Draw(rt, "hasGlobal") > 0 {
		m := c36GenAllow(rt, "g", 4)
		ref, refuse, _, _ := c38Build(m, false)
		if refuse {
			rt.Fatalf("harness: generated global allow list %s is not valid", c38Show(m))
		}
		c.global = ref
		lhs["remote_allow_list"] = m
		c.desc += " remote_allow_list=" + c38Show(m)
	}
	if rapid.IntRange(0, 2).Draw(rt, "hasRanges") > 0 {
		rm := map[string]any{}
		for _, k := range rapid.SliceOfNDistinct(rapid.SampledFrom(c36RangeKeys), 1, 3, func(s string) string { return s }).Draw(rt, "rangeKeys") {
			inner := c36GenAllow(rt, "r"+k, 3)
			ref, refuse, _, _ := c38Build(inner, false)
			if refuse {
				rt.Fatalf("harness: generated range allow list %s is not valid", c38Show(inner))
			}
			e, _, _ := c38ParseKey(k)
			c.ranges = append(c.ranges, c36Range{e, ref})
			rm[k] = inner
		}
		lhs["remote_allow_ranges"] = rm
		c.desc += " remote_allow_ranges=" + c38Show(rm)
	}
	shm := map[string]any{}
	addStatic := func(h netip.Addr, aps ...string) {
		var l []any
		for _, s := range aps {
			c.statics[h] = append(c.statics[h], netip.MustParseAddrPort(s))
			l = append(l, s)
		}
		shm[h.String()] = l
	}
	if !c.amLH {
		lhs["hosts"] = []any{c36LH.String()}
		addStatic(c36LH, "203.0.113.1:4242")
	}
	if rapid.Bool().Draw(rt, "staticHost") {
		all := []string{"203.0.113.2:4242", "10.128.0.200:4242", "192.168.7.5:4242", "[2001:db8::99]:4242", "[fd00::200]:4242", "1.2.3.4:4242", "192.168.100.9:4242"}
		pick := rapid.SliceOfNDistinct(rapid.SampledFrom(all), 1, 5, func(s string) string { return s }).Draw(rt, "staticAddrs")
		addStatic(c36Peers[0][0], pick...)
	}
	if rapid.Bool().Draw(rt, "calculated") {
		c.calc = true
		lhs["calculated_remotes"] = map[string]any{
			"10.128.0.0/24": []any{
				map[string]any{"mask": "192.168.7.0/24", "port": 4242},
				map[string]any{"mask": "10.128.0.0/25", "port": 4243}, // lands inside the own network for low hosts
				map[string]any{"mask": "1.2.3.0/24", "port": "4244"},
			},
			"fd00::/64": []any{map[string]any{"mask": "2001:db8::/64", "port": 4242}, map[string]any{"mask": "fd00::/48", "port": 4242}},
		}
	}
	c.settings = map[string]any{
		"lighthouse":      lhs,
		"listen":          map[string]any{"port": 4242},
		"static_host_map": shm,
		"static_map":      map[string]any{"network": "ip"},
		"punchy":          map[string]any{"punch": true, "respond": true, "delay": "1s", "respond_delay": "5s"},
	}
	c.desc = fmt.Sprintf("amLighthouse=%v nets=%v statics=%v calc=%v%s", c.amLH, c.nets, c.statics, c.calc, c.desc)
	return c
}

// ---- the predicate of the property statement ---------------------------------------------------

func c36Unmap(a netip.Addr) netip.Addr {
	if a.Is4In6() {
		b := a.As16()
		return netip.AddrFrom4([4]byte{b[12], b[13], b[14], b[15]})
	}
	return a
}

func (c *c36Cfg) inOwnNets(u netip.Addr) bool {
	v4, b := c38Bytes(u)
	for _, n := range c.nets {
		e, _, _ := c38ParseKey(n.String())
		if e.v4 == v4 && c38Match(b, e.b, e.bits) {
			return true
		}
	}
	return false
}

func (c *c36Cfg) inside(vpn netip.Addr) *c38Ref {
	v4, b := c38Bytes(vpn)
	best := -1
	var r *c38Ref
	for _, x := range c.ranges {
		if x.e.v4 == v4 && x.e.bits > best && c38Match(b, x.e.b, x.e.bits) {
			best, r = x.e.bits, x.ref
		}
	}
	return r
}

// usableAny: u may be used for a peer known under vpnAddrs when it is outside the own overlay
// networks, allowed globally and allowed by the range list of (at least the one) overlay address
// the information was filed under.
func (c *c36Cfg) usableAny(vpnAddrs []netip.Addr, u netip.Addr) (bool, string) {
	u = c36Unmap(u)
	if c.inOwnNets(u) {
		return false, "inside the node's own overlay networks"
	}
	if !c.global.allow(u) {
		return false, "denied by remote_allow_list"
	}
	for _, v := range vpnAddrs {
		if c.inside(v).allow(u) {
			return true, ""
		}
	}
	return false, "denied by remote_allow_ranges for the peer"
}

// usableAll is the guard the packet path applies before it lets an address be learned.
func (c *c36Cfg) usableAll(vpnAddrs []netip.Addr, u netip.Addr) bool {
	u = c36Unmap(u)
	if c.inOwnNets(u) || !c.global.allow(u) {
		return false
	}
	for _, v := range vpnAddrs {
		if !c.inside(v).allow(u) {
			return false
		}
	}
	return true
}

// ---- history ---------------------------------------------------------------------------------------

type c36Op struct {
	kind  int
	peer  int
	addrs []netip.AddrPort // v4 and v6 (possibly mapped) mixed
	u     netip.AddrPort
}

const (
	c36Reply = iota
	c36Update
	c36Learn
	c36Block
	c36Handshake
	c36Calc
	c36Close
	c36DNS
	c36Punch
	c36nOps
)

func c36GenAP(rt *rapid.T) netip.AddrPort {
	var a netip.Addr
	if rapid.IntRange(0, 2).Draw(rt, "fam") > 0 {
		a = netip.MustParseAddr(rapid.SampledFrom(c36U4).Draw(rt, "u4"))
	} else {
		a = netip.MustParseAddr(rapid.SampledFrom(c36U6).Draw(rt, "u6"))
	}
	return netip.AddrPortFrom(a, rapid.SampledFrom([]uint16{4242, 4243, 1}).Draw(rt, "port"))
}

func c36GenOps(rt *rapid.T, cfg c36Cfg) []c36Op {
	n := rapid.IntRange(1, 25).Draw(rt, "steps")
	ops := make([]c36Op, 0, n)
	for i := 0; i < n; i++ {
		o := c36Op{kind: rapid.IntRange(0, c36nOps-1).Draw(rt, "op"), peer: rapid.IntRange(0, len(c36Peers)-1).Draw(rt, "peer")}
		if rapid.Bool().Draw(rt, "favourMessages") {
			if cfg.amLH {
				o.kind = c36Update
			} else {
				o.kind = rapid.SampledFrom([]int{c36Reply, c36Reply, c36Punch}).Draw(rt, "msgKind")
			}
		}
		switch o.kind {
		case c36Reply, c36Update, c36Punch, c36DNS:
			max := 6
			if rapid.IntRange(0, 4).Draw(rt, "long") == 0 {
				max = 30
			}
			for k, m := 0, rapid.IntRange(0, max).Draw(rt, "nAddrs"); k < m; k++ {
				o.addrs = append(o.addrs, c36GenAP(rt))
			}
		case c36Learn, c36Block:
			o.u = c36GenAP(rt)
			o.u = netip.AddrPortFrom(c36Unmap(o.u.Addr()), o.u.Port()) // socket addresses are unmapped
		}
		ops = append(ops, o)
	}
	return ops
}

func c36Msg(t NebulaMeta_MessageType, about netip.Addr, v2 bool, addrs []netip.AddrPort) []byte {
	d := &NebulaMetaDetails{}
	if about.Is4() && !v2 {
		d.OldVpnAddr = c36U32(about)
	} else {
		d.VpnAddr = c36ProtoAddr(about)
	}
	for _, a := range addrs {
		if a.Addr().Is4() {
			d.V4AddrPorts = append(d.V4AddrPorts, &V4AddrPort{Addr: c36U32(a.Addr()), Port: uint32(a.Port())})
		} else {
			p := c36ProtoAddr(a.Addr())
			d.V6AddrPorts = append(d.V6AddrPorts, &V6AddrPort{Hi: p.Hi, Lo: p.Lo, Port: uint32(a.Port())})
		}
	}
	b, err := (&NebulaMeta{Type: t, Details: d}).Marshal()
	if err != nil {
		panic(err)
	}
	return b
}

type c36Result struct {
	failure    string
	hist       []string
	labels     map[string]bool
	nontrivial bool
	excluded   int
}

func c36Run(cfg c36Cfg, ops []c36Op) (res c36Result) {
	res.labels = map[string]bool{}
	ctx, cancel := context.WithCancel(context.Background())
	defer func() {
		cancel()
		synctest.Wait()
	}()
	l := test.NewLogger()
	c := config.NewC(l)
	for k, v := range cfg.settings {
		c.Settings[k] = v
	}
	nt := new(bart.Lite)
	for _, n := range cfg.nets {
		nt.Insert(n)
	}
	cs := &CertState{myVpnNetworks: cfg.nets, myVpnNetworksTable: nt}
	conn := &c36Conn{}
	punchy := NewPunchyFromConfig(l, c, conn)
	lh, err := NewLightHouseFromConfig(ctx, l, c, cs, nil, punchy)
	if err != nil {
		res.failure = "harness: NewLightHouseFromConfig: " + err.Error()
		return
	}
	w := &c36Writer{version: cert.Version2}
	lh.ifce = w
	punchy.Start(ctx, w, nil, lh) // the real punch worker, writing to the recording socket
	lhh := lh.NewRequestHandler()

	blocked := map[*RemoteList]map[netip.AddrPort]bool{}
	// the statement promises that static addresses survive tunnel closes and lighthouse answers; what
	// happens to one after a wrong host answered there (and after the block is lifted) is C37's
	// subject (finding unblock-no-rebuild), so such an address is no longer required to be present
	everBlocked := map[*RemoteList]map[netip.AddrPort]bool{}
	filteredFor := map[netip.Addr]bool{} // peers that were offered at least one unusable address
	fail := func(f string, a ...any) bool {
		res.failure = fmt.Sprintf(f, a...)
		return true
	}
	offered := func(key netip.Addr, vpn []netip.Addr, addrs []netip.AddrPort) {
		for _, a := range addrs {
			if ok, why := cfg.usableAny(vpn, a.Addr()); !ok {
				filteredFor[key] = true
				res.labels["offered:"+why] = true
			}
		}
	}

	// invariant over the whole cache
	check := func(step string) bool {
		lh.RLock()
		lists := map[*RemoteList][]netip.Addr{}
		for k, rl := range lh.addrMap {
			lists[rl] = append(lists[rl], k)
		}
		lh.RUnlock()
		for rl, keys := range lists {
			sort.Slice(keys, func(i, j int) bool { return keys[i].Compare(keys[j]) < 0 })
			rl.RLock()
			vpn := append([]netip.Addr{}, rl.vpnAddrs...)
			rl.RUnlock()
			// information is filed (and filtered) under the overlay address it was asked / told about,
			// which is any address the list is reachable under
			for _, k := range keys {
				known := false
				for _, v := range vpn {
					known = known || v == k
				}
				if !known {
					vpn = append(vpn, k)
				}
			}
			got := rl.CopyAddrs(nil)
			for _, a := range got {
				if ok, why := cfg.usableAny(vpn, a.Addr()); !ok {
					return fail("%s: candidate list of %v contains %v which is %s (list %v)", step, vpn, a, why, got)
				}
				if blocked[rl][a] {
					return fail("%s: candidate list of %v contains %v which is blocked after a wrong host answered (list %v)", step, vpn, a, got)
				}
			}
			// per-source caps
			rl.RLock()
			for owner, ca := range rl.cache {
				n4, n6, nr := 0, 0, 0
				if ca.v4 != nil {
					n4 = len(ca.v4.reported)
				}
				if ca.v6 != nil {
					n6 = len(ca.v6.reported)
				}
				if ca.relay != nil {
					nr = len(ca.relay.relay)
				}
				if n4 > 10 || n6 > 10 || nr > 10 {
					rl.RUnlock()
					return fail("%s: source %v contributes %d v4 / %d v6 / %d relay entries for %v (more than ten)", step, owner, n4, n6, nr, vpn)
				}
				if n4+n6 > 10 {
					res.labels["source>10-across-both-families(not asserted)"] = true
				}
			}
			rl.RUnlock()
			if len(got) > 0 {
				for _, k := range keys {
					if filteredFor[k] {
						res.nontrivial = true
					}
				}
			}
		}
		// static hosts keep their configured (usable) addresses
		for h, aps := range cfg.statics {
			lh.RLock()
			rl := lh.addrMap[h]
			lh.RUnlock()
			if rl == nil {
				return fail("%s: static host %v has no address list any more", step, h)
			}
			got := rl.CopyAddrs(nil)
			for _, ap := range aps {
				if ok, _ := cfg.usableAny([]netip.Addr{h}, ap.Addr()); !ok || everBlocked[rl][ap] {
					continue
				}
				found := false
				for _, g := range got {
					found = found || g == ap
				}
				if !found {
					return fail("%s: static host %v lost its configured address %v (list %v)", step, h, ap, got)
				}
			}
		}
		return false
	}
	if check("initial") {
		return
	}

	for i, o := range ops {
		p := c36Peers[o.peer]
		step := fmt.Sprintf("step %d", i)
		switch o.kind {
		case c36Reply:
			if cfg.amLH {
				continue
			}
			about := p[0]
			if len(p) > 1 && i%2 == 1 {
				about = p[1]
			}
			res.hist = append(res.hist, fmt.Sprintf("%d: lighthouse answers about %v: %v", i, about, o.addrs))
			offered(about, []netip.Addr{about}, o.addrs)
			lhh.HandleRequest(netip.MustParseAddrPort("203.0.113.1:4242"), []netip.Addr{c36LH}, c36Msg(NebulaMeta_HostQueryReply, about, i%3 == 0, o.addrs), w)
			res.labels["reply"] = true
		case c36Update:
			if !cfg.amLH {
				continue
			}
			res.hist = append(res.hist, fmt.Sprintf("%d: host update from %v: %v", i, p, o.addrs))
			offered(p[0], p, o.addrs)
			lhh.HandleRequest(netip.MustParseAddrPort("198.51.100.1:4242"), p, c36Msg(NebulaMeta_HostUpdateNotification, p[0], i%3 == 0, o.addrs), w)
			res.labels["update"] = true
		case c36Learn:
			// a handshake or roaming packet from o.u: the packet path only lets it through when it is
			// outside the own networks (outside.go) and allowed for all of the peer's addresses
			if !cfg.usableAll(p, o.u.Addr()) {
				res.labels["learn:refused-by-caller-guard"] = true
				continue
			}
			res.hist = append(res.hist, fmt.Sprintf("%d: tunnel with %v seen at %v", i, p, o.u))
			lh.QueryCache(p).LearnRemote(p[0], o.u)
			res.labels["learn"] = true
		case c36Block:
			lh.RLock()
			rl := lh.addrMap[p[0]]
			lh.RUnlock()
			if rl == nil {
				continue
			}
			u := o.u
			if cur := rl.CopyAddrs(nil); len(cur) > 0 {
				u = cur[int(o.u.Port())%len(cur)]
			}
			res.hist = append(res.hist, fmt.Sprintf("%d: wrong host answered for %v at %v", i, p, u))
			rl.BlockRemote(ViaSender{UdpAddr: u})
			if blocked[rl] == nil {
				blocked[rl] = map[netip.AddrPort]bool{}
			}
			blocked[rl][u] = true
			if everBlocked[rl] == nil {
				everBlocked[rl] = map[netip.AddrPort]bool{}
			}
			everBlocked[rl][u] = true
			res.labels["block"] = true
		case c36Handshake:
			lh.RLock()
			rl := lh.addrMap[p[0]]
			lh.RUnlock()
			if rl == nil {
				continue
			}
			res.hist = append(res.hist, fmt.Sprintf("%d: handshake with %v completed", i, p))
			rl.RefreshFromHandshake(p)
			delete(blocked, rl)
		case c36Calc:
			if _, static := cfg.statics[p[0]]; static {
				continue // the handshake manager never computes remotes for static hosts
			}
			res.hist = append(res.hist, fmt.Sprintf("%d: calculated remotes for %v", i, p[0]))
			if lh.addCalculatedRemotes(p[0]) {
				res.labels["calculated"] = true
				if p[0].Is4() {
					b := p[0].As4()
					offered(p[0], []netip.Addr{p[0]}, []netip.AddrPort{netip.AddrPortFrom(netip.AddrFrom4([4]byte{10, 128, 0, b[3] & 0x7f}), 4243)})
				}
			}
		case c36Close:
			res.hist = append(res.hist, fmt.Sprintf("%d: tunnel with %v closed", i, p))
			lh.RLock()
			rl := lh.addrMap[p[0]]
			lh.RUnlock()
			lh.DeleteVpnAddrs(p)
			lh.RLock()
			if lh.addrMap[p[0]] != rl {
				delete(blocked, rl)
			}
			lh.RUnlock()
			res.labels["close"] = true
		case c36DNS:
			h := c36Peers[0][0]
			if _, static := cfg.statics[h]; !static {
				continue
			}
			lh.RLock()
			rl := lh.addrMap[h]
			lh.RUnlock()
			ips := map[netip.AddrPort]struct{}{}
			var as []netip.AddrPort
			for _, a := range o.addrs {
				a = netip.AddrPortFrom(c36Unmap(a.Addr()), a.Port()) // the resolver unmaps
				ips[a] = struct{}{}
				as = append(as, a)
			}
			res.hist = append(res.hist, fmt.Sprintf("%d: hostnames of static host %v now resolve to %v", i, h, as))
			offered(h, []netip.Addr{h}, as)
			rl.Lock()
			if rl.hr != nil {
				rl.hr.ips.Store(&ips)
				rl.shouldRebuild = true
				res.labels["dns"] = true
			}
			rl.Unlock()
		case c36Punch:
			if cfg.amLH {
				continue
			}
			about := p[0]
			res.hist = append(res.hist, fmt.Sprintf("%d: lighthouse asks to punch towards %v at %v", i, about, o.addrs))
			conn.wrote = nil
			lhh.HandleRequest(netip.MustParseAddrPort("203.0.113.1:4242"), []netip.Addr{c36LH}, c36Msg(NebulaMeta_HostPunchNotification, about, i%3 == 0, o.addrs), w)
			time.Sleep(30 * time.Second)
			synctest.Wait()
			res.labels["punch"] = true
			if len(conn.wrote) > 0 {
				res.labels["punch:sent"] = true
			}
			for _, d := range conn.wrote {
				ok, why := cfg.usableAny([]netip.Addr{about}, d.Addr())
				if ok {
					continue
				}
				if cfg.inOwnNets(c36Unmap(d.Addr())) && vk.KnownOpen("C36", c36Key) {
					// recorded finding: the punch path checks the allow list but not the own networks
					if cfg.global.allow(c36Unmap(d.Addr())) && cfg.inside(about).allow(c36Unmap(d.Addr())) {
						res.excluded++
						continue
					}
					why = "denied by the allow list"
				}
				fail("%s: punch packet written to %v (for peer %v) which is %s", step, d, about, why)
				return
			}
			for _, a := range o.addrs {
				if ok, _ := cfg.usableAny([]netip.Addr{about}, a.Addr()); !ok {
					res.labels["punch:unusable-offered"] = true
					if len(conn.wrote) > 0 {
						res.nontrivial = true
					}
				}
			}
		}
		if check(step) {
			return
		}
	}
	return
}

func TestC36_ListLevel(t *testing.T) {
	vk.Check(t, 8000, func(rt *rapid.T) {
		cfg := c36GenCfg(rt)
		ops := c36GenOps(rt, cfg)
		var res c36Result
		rapid.SyncTest(rt, func(rt *rapid.T) {
			res = c36Run(cfg, ops)
		})
		if res.failure != "" {
			rt.Fatalf("%s\nconfig: %s\nhistory:\n%s", res.failure, cfg.desc, strings.Join(res.hist, "\n"))
		}
		for i := 0; i < res.excluded; i++ {
			vk.Excluded("C36", c36Key)
		}
		lb := []string{"history"}
		for k := range res.labels {
			lb = append(lb, k)
		}
		if cfg.amLH {
			lb = append(lb, "node:lighthouse")
		} else {
			lb = append(lb, "node:client")
		}
		if cfg.global != nil {
			lb = append(lb, "cfg:remote_allow_list")
		}
		if len(cfg.ranges) > 0 {
			lb = append(lb, "cfg:remote_allow_ranges")
		}
		if len(cfg.nets) > 1 {
			lb = append(lb, "cfg:several-own-networks")
		}
		sort.Strings(lb)
		vk.Case("C36", cfg.desc+"|"+strings.Join(res.hist, ";"), res.nontrivial, lb...)
		if res.nontrivial && vk.WantSample("C36") {
			h := res.hist
			if len(h) > 8 {
				h = append(append([]string{}, h[:8]...), fmt.Sprintf("... %d more", len(res.hist)-8))
			}
			vk.Sample("C36", map[string]any{"config": cfg.desc, "history": h})
		}
	})
}

// TestC36_Probe_punch_own_network: a configured lighthouse asks a client to punch towards an
// address that lies inside the client's own overlay network.
func TestC36_Probe_punch_own_network(t *testing.T) {
	defer vk.Flush()
	var wrote []netip.AddrPort
	synctest.Test(t, func(t *testing.T) {
		cfg := c36Cfg{nets: []netip.Prefix{netip.MustParsePrefix("10.128.0.1/24")}, statics: map[netip.Addr][]netip.AddrPort{}}
		cfg.settings = map[string]any{
			"lighthouse":      map[string]any{"am_lighthouse": false, "interval": 0, "hosts": []any{"10.128.0.100"}},
			"listen":          map[string]any{"port": 4242},
			"static_host_map": map[string]any{"10.128.0.100": []any{"203.0.113.1:4242"}},
			"punchy":          map[string]any{"punch": true, "respond": false, "delay": "1s"},
		}
		ctx, cancel := context.WithCancel(context.Background())
		defer func() { cancel(); synctest.Wait() }()
		l := test.NewLogger()
		c := config.NewC(l)
		for k, v := range cfg.settings {
			c.Settings[k] = v
		}
		nt := new(bart.Lite)
		nt.Insert(cfg.nets[0])
		conn := &c36Conn{}
		punchy := NewPunchyFromConfig(l, c, conn)
		lh, err := NewLightHouseFromConfig(ctx, l, c, &CertState{myVpnNetworks: cfg.nets, myVpnNetworksTable: nt}, nil, punchy)
		if err != nil {
			t.Fatalf("harness: %v", err)
		}
		w := &c36Writer{version: cert.Version2}
		lh.ifce = w
		punchy.Start(ctx, w, nil, lh)
		msg := c36Msg(NebulaMeta_HostPunchNotification, netip.MustParseAddr("10.128.0.9"), false,
			[]netip.AddrPort{netip.MustParseAddrPort("10.128.0.77:4242"), netip.MustParseAddrPort("1.2.3.4:4242")})
		lh.NewRequestHandler().HandleRequest(netip.MustParseAddrPort("203.0.113.1:4242"), []netip.Addr{netip.MustParseAddr("10.128.0.100")}, msg, w)
		time.Sleep(10 * time.Second)
		synctest.Wait()
		wrote = append(wrote, conn.wrote...)
	})
	vk.Case("C36", "probe/punch-own-network", true, "probe")
	reproduced := false
	for _, d := range wrote {
		if d == netip.MustParseAddrPort("10.128.0.77:4242") {
			reproduced = true
		}
	}
	if !reproduced {
		return
	}
	if vk.KnownOpen("C36", c36Key) {
		vk.ReportKnown("C36", c36Key)
		return
	}
	t.Fatalf("own overlay network 10.128.0.1/24; HostPunchNotification from lighthouse 10.128.0.100 about 10.128.0.9 listing [10.128.0.77:4242 1.2.3.4:4242]: punch packets written to %v - 10.128.0.77:4242 lies inside the node's own overlay network", wrote)
}
