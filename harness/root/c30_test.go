package nebula

// C30 - tunnel teardown decisions follow the liveness policy.
//
// A real connectionManager (wired like connection_manager_test.go, but with real certificates, a
// real CA pool and real cipher states so that the notifications it sends can be observed on the
// underlay) is ticked with generated tuples: inbound/outbound flags, explicit clock advances,
// counter values around the rekey threshold and the ceiling, peer certificate expiry, blocklisting,
// CA reloads, local certificate reloads, disconnect_invalid, drop_inactive, inactivity timeout,
// primary and non-primary tunnels. Time is the explicit `now` argument of doTrafficCheck.
//
// Oracle: the decision table transcribed from the property text (see c30Decide), compared with
// the observable effects of doTrafficCheck: tunnel removed or kept, CloseTunnel / Test packets on the
// underlay, re-handshake started, pendingDeletion / in / out / lastUsed, re-arming of the check.

import (
	"context"
	"fmt"
	"net/netip"
	"slices"
	"strings"
	"sync"
	"testing"
	"time"

	"github.com/rcrowley/go-metrics"
	"github.com/slackhq/nebula/cert"
	"github.com/slackhq/nebula/cert_test"
	"github.com/slackhq/nebula/config"
	"github.com/slackhq/nebula/handshake"
	"github.com/slackhq/nebula/header"
	"github.com/slackhq/nebula/overlay/overlaytest"
	"github.com/slackhq/nebula/test"
	"github.com/slackhq/nebula/udp"
	"pgregory.net/rapid"
	"verifkit/vk"
)

const c30PID = "C30"

var c30Base = time.Unix(1_900_000_000, 0)

// ---- fixture -------------------------------------------------------------------------------------------

type c30PeerVariant struct {
	peer     int // 0: address below mine, 1 and 2: above
	ca       int // 0 or 1
	notAfter time.Time
	addr     netip.Addr
	fp       string
	results  [4]*handshake.Result // per local certificate variant
}

var (
	c30Once     sync.Once
	c30CAs      [2]cert.Certificate
	c30CAAfter  [2]time.Time
	c30MyCS     [4]*CertState // 0,1: v2 certificate and its re-issue; 2,3: a v1-only node, certificate and re-issue
	c30Variants []*c30PeerVariant
	c30MyAddr   = netip.MustParseAddr("10.30.0.5")
	c30PeerAddr = []netip.Addr{netip.MustParseAddr("10.30.0.1"), netip.MustParseAddr("10.30.0.7"), netip.MustParseAddr("10.30.0.9")}
)

func c30Pool(cas [2]bool, blocked map[string]bool) *cert.CAPool {
	p := cert.NewCAPool()
	for i, on := range cas {
		if on {
			if err := p.AddCA(c30CAs[i]); err != nil {
				panic(err)
			}
		}
	}
	for fp := range blocked {
		p.BlocklistFingerprint(fp)
	}
	return p
}

func c30Setup() {
	c30Once.Do(func() {
		before := time.Unix(1_500_000_000, 0) // valid at wall-clock time too: CAPool.AddCA checks expiry against time.Now()
		var caKeys [2][]byte
		c30CAAfter = [2]time.Time{c30Base.Add(10 * 365 * 24 * time.Hour), c30Base.Add(600 * time.Second)}
		for i := range c30CAs {
			c30CAs[i], _, caKeys[i], _ = cert_test.NewTestCaCert(cert.Version2, cert.Curve_CURVE25519, before, c30CAAfter[i], nil, nil, nil)
		}
		full := c30Pool([2]bool{true, true}, nil)
		verifier := func(c cert.Certificate) (*cert.CachedCertificate, error) { return full.VerifyCertificate(c30Base, c) }
		mkCS := func(c cert.Certificate, privPEM []byte) *CertState {
			priv, _, _, err := cert.UnmarshalPrivateKeyFromPEM(privPEM)
			if err != nil {
				panic(err)
			}
			cs, err := newCertState(cert.Version2, nil, c, false, cert.Curve_CURVE25519, priv, "aes")
			if err != nil {
				panic(err)
			}
			return cs
		}
		// my certificate and a re-issued one (same key, same networks, different signature)
		myNet := []netip.Prefix{netip.PrefixFrom(c30MyAddr, 24)}
		myCert, myPub, myPrivPEM, _ := cert_test.NewTestCert(cert.Version2, cert.Curve_CURVE25519, c30CAs[0], caKeys[0], "me", before, c30CAAfter[0], myNet, nil, nil)
		c30MyCS[0] = mkCS(myCert, myPrivPEM)
		tbs := &cert.TBSCertificate{Version: cert.Version2, Curve: cert.Curve_CURVE25519, Name: "me", Networks: myNet,
			NotBefore: before, NotAfter: c30CAAfter[0].Add(-time.Hour), PublicKey: myPub}
		reissued, err := tbs.Sign(c30CAs[0], cert.Curve_CURVE25519, caKeys[0])
		if err != nil {
			panic(err)
		}
		c30MyCS[1] = mkCS(reissued, myPrivPEM)
		// the same node as a v1-only node (it cannot answer a v2 peer in kind): certificate and re-issue
		mkCS1 := func(c cert.Certificate, privPEM []byte) *CertState {
			priv, _, _, err := cert.UnmarshalPrivateKeyFromPEM(privPEM)
			if err != nil {
				panic(err)
			}
			cs, err := newCertState(cert.Version1, c, nil, false, cert.Curve_CURVE25519, priv, "aes")
			if err != nil {
				panic(err)
			}
			return cs
		}
		for i, na := range []time.Time{c30CAAfter[0], c30CAAfter[0].Add(-time.Hour)} {
			tbs1 := &cert.TBSCertificate{Version: cert.Version1, Curve: cert.Curve_CURVE25519, Name: "me", Networks: myNet,
				NotBefore: before, NotAfter: na, PublicKey: myPub}
			c1, err := tbs1.Sign(c30CAs[0], cert.Curve_CURVE25519, caKeys[0])
			if err != nil {
				panic(err)
			}
			c30MyCS[2+i] = mkCS1(c1, myPrivPEM)
		}

		type spec struct {
			ca    int
			after time.Duration
		}
		specs := []spec{{0, 30 * time.Second}, {0, 300 * time.Second}, {0, 5 * 365 * 24 * time.Hour}, {1, 300 * time.Second}, {1, 600 * time.Second}}
		for p, addr := range c30PeerAddr {
			for _, s := range specs {
				na := c30Base.Add(s.after)
				pc, _, privPEM, _ := cert_test.NewTestCert(cert.Version2, cert.Curve_CURVE25519, c30CAs[s.ca], caKeys[s.ca],
					fmt.Sprintf("peer%d", p), before, na, []netip.Prefix{netip.PrefixFrom(addr, 24)}, nil, nil)
				pcs := mkCS(pc, privPEM)
				v := &c30PeerVariant{peer: p, ca: s.ca, notAfter: na, addr: addr}
				for mine := 0; mine < 4; mine++ {
					im, err := handshake.NewMachine(c30MyCS[mine].DefaultVersion(), c30MyCS[mine].GetCredential, verifier, func() (uint32, error) { return 1, nil }, true, header.HandshakeIXPSK0)
					if err != nil {
						panic(err)
					}
					rm, err := handshake.NewMachine(cert.Version2, pcs.GetCredential, verifier, func() (uint32, error) { return 2, nil }, false, header.HandshakeIXPSK0)
					if err != nil {
						panic(err)
					}
					m1, err := im.Initiate(nil)
					if err != nil {
						panic(err)
					}
					m2, _, err := rm.ProcessPacket(nil, m1)
					if err != nil {
						panic(err)
					}
					_, res, err := im.ProcessPacket(nil, m2)
					if err != nil || res == nil {
						panic(fmt.Sprintf("fixture handshake failed: %v", err))
					}
					v.results[mine] = res
					v.fp = res.RemoteCert.Fingerprint
				}
				c30Variants = append(c30Variants, v)
			}
		}
	})
}

// ---- recording underlay ------------------------------------------------------------------------------

type c30Conn struct {
	udp.NoopConn
	pkts []header.H
}

func (c *c30Conn) WriteTo(b []byte, _ netip.AddrPort) error {
	var h header.H
	if err := h.Parse(b); err == nil {
		c.pkts = append(c.pkts, h)
	}
	return nil
}

// ---- world and model ------------------------------------------------------------------------------------

type c30Tun struct {
	id      int
	hi      *HostInfo
	v       *c30PeerVariant
	mine    int // local certificate variant the tunnel was built with
	idx     uint32
	removed bool
	// model state
	in, out, pending bool
	lastUsed         time.Time
}

type c30World struct {
	rt   *rapid.T
	hm   *HostMap
	hsm  *HandshakeManager
	lh   *LightHouse
	cm   *connectionManager
	f    *Interface
	conn *c30Conn
	now  time.Time

	tuns  []*c30Tun
	lists map[netip.Addr][]*c30Tun // model: per address, primary first

	// configuration (model copy)
	disconnectInvalid bool
	dropInactive      bool
	timeout           time.Duration
	cas               [2]bool
	blocked           map[string]bool
	mine              int

	ops       []string
	decisions map[string]bool
}

func c30NewWorld(rt *rapid.T) *c30World {
	l := test.NewLogger()
	hm := newHostMap(l)
	pr := []netip.Prefix{}
	hm.preferredRanges.Store(&pr)
	conf := config.NewC(l)
	lh, err := NewLightHouseFromConfig(context.Background(), l, conf, c30MyCS[0], nil, nil)
	if err != nil {
		rt.Fatalf("lighthouse: %v", err)
	}
	conn := &c30Conn{}
	hsm := NewHandshakeManager(l, hm, lh, conn, defaultHandshakeConfig)
	punchy := NewPunchyFromConfig(l, conf, nil)
	cm := newConnectionManagerFromConfig(l, conf, hm, punchy)
	f := &Interface{
		hostMap:            hm,
		inside:             &overlaytest.NoopTun{},
		outside:            conn,
		writers:            []udp.Conn{conn},
		firewall:           &Firewall{},
		lightHouse:         lh,
		pki:                &PKI{},
		handshakeManager:   hsm,
		connectionManager:  cm,
		relayManager:       NewRelayManager(context.Background(), l, hm, conf),
		myVpnAddrs:         c30MyCS[0].myVpnAddrs,
		myVpnAddrsTable:    c30MyCS[0].myVpnAddrsTable,
		myVpnNetworksTable: c30MyCS[0].myVpnNetworksTable,
		metricHandshakes:   metrics.NewHistogram(metrics.NewUniformSample(8)),
		cachedPacketMetrics: &cachedPacketMetrics{
			sent:    metrics.NewCounter(),
			dropped: metrics.NewCounter(),
		},
		l: l,
	}
	f.tryPromoteEvery.Store(1000)
	f.reQueryEvery.Store(5000)
	f.reQueryWait.Store(int64(time.Minute))
	cm.intf = f
	hsm.f = f
	w := &c30World{rt: rt, hm: hm, hsm: hsm, lh: lh, cm: cm, f: f, conn: conn, now: c30Base,
		lists: map[netip.Addr][]*c30Tun{}, blocked: map[string]bool{}, cas: [2]bool{true, true},
		timeout: 10 * time.Minute, decisions: map[string]bool{}}
	w.mine = rapid.IntRange(0, 3).Draw(rt, "localVariant")
	w.applyPKI()
	return w
}

func (w *c30World) applyPKI() {
	w.f.pki.cs.Store(c30MyCS[w.mine])
	w.f.pki.caPool.Store(c30Pool(w.cas, w.blocked))
}

func (w *c30World) logf(format string, args ...any) {
	w.ops = append(w.ops, fmt.Sprintf(format, args...))
}

func (w *c30World) fail(format string, args ...any) {
	w.rt.Helper()
	w.rt.Fatalf("%s\nhistory:\n  %s", fmt.Sprintf(format, args...), strings.Join(w.ops, "\n  "))
}

func (w *c30World) drain() {
	for {
		select {
		case <-w.lh.queryChan:
		case <-w.hsm.trigger:
		default:
			return
		}
	}
}

func (w *c30World) addTunnel() {
	rt := w.rt
	v := rapid.SampledFrom(c30Variants).Draw(rt, "variant")
	if rapid.Bool().Draw(rt, "longLived") {
		v = c30Variants[v.peer*5+2] // the certificate that outlives the history
	}
	if len(w.lists[v.addr]) >= MaxHostInfosPerVpnIp-1 {
		return // stay below the per-address cap: evictions belong to C28
	}
	mine := w.mine
	if rapid.IntRange(0, 3).Draw(rt, "oldcert") == 0 {
		mine = (mine + rapid.IntRange(1, 3).Draw(rt, "oldVariant")) % 4 // a tunnel that was built before the last local certificate reload
	}
	cs, err := newConnectionStateFromResult(v.results[mine])
	if err != nil {
		rt.Fatalf("connection state: %v", err)
	}
	t := &c30Tun{id: len(w.tuns) + 1, v: v, mine: mine, idx: uint32(100 + len(w.tuns)), out: true}
	t.hi = &HostInfo{
		ConnectionState: cs,
		localIndexId:    t.idx,
		remoteIndexId:   uint32(900 + len(w.tuns)),
		vpnAddrs:        []netip.Addr{v.addr},
		HandshakePacket: map[uint8][]byte{},
		relayState:      RelayState{relayForByAddr: map[netip.Addr]*Relay{}, relayForByIdx: map[uint32]*Relay{}},
	}
	t.hi.remotes = w.lh.QueryCache(t.hi.vpnAddrs)
	t.hi.SetRemote(netip.AddrPortFrom(netip.MustParseAddr("192.0.2.30"), uint16(6000+t.id)))
	w.hm.Lock()
	w.hm.unlockedAddHostInfo(t.hi, w.f)
	w.hm.Unlock()
	w.tuns = append(w.tuns, t)
	w.lists[v.addr] = append([]*c30Tun{t}, w.lists[v.addr]...)
	w.logf("add T%d peer=%v ca=%d notAfter=+%v mycert=%d idx=%d", t.id, v.addr, v.ca, v.notAfter.Sub(c30Base), mine, t.idx)
}

func (w *c30World) modelRemove(t *c30Tun) {
	t.removed = true
	l := w.lists[t.v.addr]
	l = slices.DeleteFunc(slices.Clone(l), func(x *c30Tun) bool { return x == t })
	w.lists[t.v.addr] = l
}

func (w *c30World) wheelCount(idx uint32) int {
	tw := w.cm.trafficTimer
	tw.m.Lock()
	defer tw.m.Unlock()
	n := 0
	count := func(l *TimeoutList[uint32]) {
		if l == nil {
			return
		}
		for it := l.Head; it != nil; it = it.Next {
			if it.Item == idx {
				n++
			}
		}
	}
	for _, l := range tw.t.wheel {
		count(l)
	}
	count(tw.t.expired)
	return n
}

// ---- the decision table, transcribed from the property statement -----------------------------------------------
//
//  1. peer certificate blocklisted                                  -> close (notify the peer)
//  2. peer certificate no longer valid and disconnect_invalid on    -> close
//  3. message counter exhausted                                     -> drop (no notification is possible)
//  4. inbound traffic since the last check                          -> keep; never removed for lack of traffic;
//     primary: start a re-handshake iff the local certificate changed or the counter passed the
//     rekey threshold; non-primary: keep (it may be swapped to primary or have its relays migrated)
//  5. no inbound traffic since a test probe was sent (pending)      -> drop
//  6. primary, no outbound traffic either                           -> close iff drop_inactive and idle >= timeout,
//     otherwise keep untouched
//  7. primary, outbound traffic only                                -> send a test probe, mark pending
//  8. non-primary without inbound traffic                           -> mark pending
type c30Expect struct {
	name        string
	removed     bool
	closePkt    bool // CloseTunnel notification expected on the underlay
	testPkt     bool
	rehandshake bool
	pending     bool
	kept        bool // tunnel stays and must be checked again (re-armed)
	mayPromote  bool
}

func (w *c30World) peerCertStatus(t *c30Tun) string {
	if w.blocked[t.v.fp] {
		return "blocklisted"
	}
	if !w.cas[t.v.ca] || w.now.After(c30CAAfter[t.v.ca]) || w.now.After(t.v.notAfter) {
		return "invalid"
	}
	return "valid"
}

func (w *c30World) decide(t *c30Tun, counter uint64) c30Expect {
	canSend := counter+1 < RejectAfterMessages && counter < RejectAfterMessages
	switch w.peerCertStatus(t) {
	case "blocklisted":
		return c30Expect{name: "close-blocklisted", removed: true, closePkt: canSend}
	case "invalid":
		if w.disconnectInvalid {
			return c30Expect{name: "close-invalid", removed: true, closePkt: canSend}
		}
	}
	if counter >= RejectAfterMessages {
		return c30Expect{name: "drop-exhausted", removed: true}
	}
	primary := w.lists[t.v.addr][0] == t
	in, out := t.in, t.out
	t.in, t.out = false, false
	if in || out {
		t.lastUsed = w.now
	}
	if in {
		t.pending = false
		if primary {
			e := c30Expect{name: "alive-primary", kept: true}
			if t.mine != w.mine {
				e.rehandshake, e.name = true, "alive-primary-rehandshake-cert"
			} else if counter >= RehandshakeAfterMessages {
				e.rehandshake, e.name = true, "alive-primary-rehandshake-counter"
			}
			return e
		}
		return c30Expect{name: "alive-nonprimary", kept: true, mayPromote: true}
	}
	if t.pending {
		return c30Expect{name: "drop-dead-after-probe", removed: true}
	}
	if primary {
		if !out {
			if w.dropInactive && w.now.Sub(t.lastUsed) >= w.timeout {
				return c30Expect{name: "close-inactive", removed: true, closePkt: canSend}
			}
			return c30Expect{name: "idle-kept", kept: true}
		}
		t.pending = true
		// the probe itself is outbound traffic on the tunnel
		t.out = canSend
		return c30Expect{name: "probe", kept: true, pending: true, testPkt: canSend}
	}
	t.pending = true
	return c30Expect{name: "nonprimary-idle-pending", kept: true, pending: true}
}

// ---- one generated tick ---------------------------------------------------------------------------------

var c30Counters = []uint64{3, RehandshakeAfterMessages - 1, RehandshakeAfterMessages, RehandshakeAfterMessages + 1,
	RejectAfterMessages - 2, RejectAfterMessages - 1, RejectAfterMessages, RejectAfterMessages + 7}

func (w *c30World) perturb() {
	rt := w.rt
	switch rapid.SampledFrom([]string{"none", "none", "none", "disconnectInvalid", "dropInactive", "timeout", "blocklist", "ca", "localcert", "promote", "add"}).Draw(rt, "perturb") {
	case "disconnectInvalid":
		w.disconnectInvalid = rapid.Bool().Draw(rt, "on")
		w.f.disconnectInvalid.Store(w.disconnectInvalid)
		w.logf("disconnect_invalid=%v", w.disconnectInvalid)
	case "dropInactive":
		w.dropInactive = rapid.Bool().Draw(rt, "on")
		w.cm.dropInactive.Store(w.dropInactive)
		w.logf("drop_inactive=%v", w.dropInactive)
	case "timeout":
		w.timeout = rapid.SampledFrom([]time.Duration{20 * time.Second, 60 * time.Second, 10 * time.Minute}).Draw(rt, "timeout")
		w.cm.inactivityTimeout.Store(int64(w.timeout))
		w.logf("inactivity_timeout=%v", w.timeout)
	case "blocklist":
		t := rapid.SampledFrom(w.tuns).Draw(rt, "victim")
		if rapid.Bool().Draw(rt, "unblock") {
			delete(w.blocked, t.v.fp)
			w.logf("unblock cert of T%d", t.id)
		} else {
			w.blocked[t.v.fp] = true
			w.logf("blocklist cert of T%d", t.id)
		}
		w.applyPKI()
	case "ca":
		w.cas = [2]bool{rapid.Bool().Draw(rt, "ca0"), rapid.Bool().Draw(rt, "ca1")}
		w.logf("CA reload: trusted=%v", w.cas)
		w.applyPKI()
	case "localcert":
		w.mine = (w.mine + rapid.IntRange(1, 3).Draw(rt, "variantStep")) % 4
		w.logf("local certificate reload -> variant %d", w.mine)
		w.applyPKI()
	case "promote":
		t := rapid.SampledFrom(w.tuns).Draw(rt, "who")
		w.hm.MakePrimary(t.hi)
		if !t.removed {
			l := slices.DeleteFunc(slices.Clone(w.lists[t.v.addr]), func(x *c30Tun) bool { return x == t })
			w.lists[t.v.addr] = append([]*c30Tun{t}, l...)
		}
		w.logf("MakePrimary T%d", t.id)
	case "add":
		if len(w.tuns) < 12 {
			w.addTunnel()
		}
	}
}

func (w *c30World) live() []*c30Tun {
	var out []*c30Tun
	for _, t := range w.tuns {
		if !t.removed {
			out = append(out, t)
		}
	}
	return out
}

func (w *c30World) tick() {
	rt := w.rt
	w.perturb()
	live := w.live()
	if len(live) == 0 && len(w.tuns) < 12 {
		w.addTunnel()
		live = w.live()
	}
	var t *c30Tun
	if len(live) > 0 && rapid.IntRange(0, 9).Draw(rt, "pickRemoved") != 0 {
		t = rapid.SampledFrom(live).Draw(rt, "tunnel")
	} else {
		t = rapid.SampledFrom(w.tuns).Draw(rt, "anyTunnel")
	}
	d := rapid.SampledFrom([]time.Duration{0, time.Second, time.Second, 5 * time.Second, 5 * time.Second, 10 * time.Second, 19 * time.Second, 20 * time.Second,
		31 * time.Second, 60 * time.Second, 5 * time.Minute, 10 * time.Minute}).Draw(rt, "advance")
	w.now = w.now.Add(d)
	if !t.removed {
		if rapid.Bool().Draw(rt, "in") {
			w.cm.In(t.hi)
			t.in = true
		}
		if rapid.Bool().Draw(rt, "out") {
			w.cm.Out(t.hi)
			t.out = true
		}
		if rapid.IntRange(0, 4).Draw(rt, "setCounter") == 0 {
			t.hi.ConnectionState.messageCounter.Store(rapid.SampledFrom(c30Counters).Draw(rt, "counter"))
		}
		if rapid.IntRange(0, 9).Draw(rt, "forcePending") == 0 {
			t.pending = rapid.Bool().Draw(rt, "pendingValue")
			t.hi.pendingDeletion.Store(t.pending)
		}
	}
	counter := t.hi.ConnectionState.messageCounter.Load()
	w.logf("check T%d at +%v in=%v out=%v pending=%v counter=%d", t.id, w.now.Sub(c30Base), t.in, t.out, t.pending, counter)

	// observation points before the check
	w.conn.pkts = w.conn.pkts[:0]
	if hi := w.hsm.QueryVpnAddr(t.v.addr); hi != nil {
		w.hsm.DeleteHostInfo(hi)
	}
	wheelBefore := w.wheelCount(t.idx)
	primaryBefore := w.hm.Hosts[t.v.addr]
	var others []*HostInfo
	for _, o := range w.tuns {
		if o != t && !o.removed {
			others = append(others, o.hi)
		}
	}

	w.cm.doTrafficCheck(t.idx, []byte(""), make([]byte, 12, 12), make([]byte, mtu), w.now)
	w.drain()

	if t.removed {
		// the index no longer resolves: nothing may happen
		if len(w.conn.pkts) != 0 || w.hsm.QueryVpnAddr(t.v.addr) != nil || w.wheelCount(t.idx) != wheelBefore || w.hm.Hosts[t.v.addr] != primaryBefore {
			w.fail("check of removed tunnel T%d had effects (packets %v)", t.id, w.conn.pkts)
		}
		w.decisions["removed-noop"] = true
		vk.Label(c30PID, "d:removed-noop")
		return
	}
	hadIn := t.in
	e := w.decide(t, counter)
	w.decisions[e.name] = true
	vk.Label(c30PID, "d:"+e.name)
	w.logf("  expect %s", e.name)

	gone := w.hm.Indexes[t.idx] != t.hi
	listed := slices.Contains(w.hm.unlockedGetHostList(t.v.addr), t.hi)
	if gone != e.removed || listed == e.removed {
		if hadIn && !e.removed {
			w.fail("T%d received traffic since the last check but was removed (expected %s)", t.id, e.name)
		}
		w.fail("T%d: expected %s (removed=%v) but after the check Indexes has it: %v, address list has it: %v", t.id, e.name, e.removed, !gone, listed)
	}
	var nClose, nTest, nOther int
	for _, p := range w.conn.pkts {
		switch {
		case p.Type == header.CloseTunnel && p.RemoteIndex == t.hi.remoteIndexId:
			nClose++
		case p.Type == header.Test && p.Subtype == header.TestRequest && p.RemoteIndex == t.hi.remoteIndexId:
			nTest++
		default:
			nOther++
		}
	}
	if (nClose > 0) != e.closePkt || nClose > 1 {
		w.fail("T%d: expected %s: CloseTunnel notification expected=%v, seen %d", t.id, e.name, e.closePkt, nClose)
	}
	if (nTest > 0) != e.testPkt || nTest > 1 {
		w.fail("T%d: expected %s: test probe expected=%v, seen %d", t.id, e.name, e.testPkt, nTest)
	}
	if nOther != 0 {
		w.fail("T%d: expected %s: unexpected packets on the underlay: %v", t.id, e.name, w.conn.pkts)
	}
	started := w.hsm.QueryVpnAddr(t.v.addr) != nil
	if started != e.rehandshake {
		w.fail("T%d: expected %s: re-handshake expected=%v started=%v (tunnel cert variant %d, current %d, counter %d)", t.id, e.name, e.rehandshake, started, t.mine, w.mine, counter)
	}
	for _, o := range others {
		if w.hm.Indexes[o.localIndexId] != o {
			w.fail("check of T%d removed another tunnel (index %d)", t.id, o.localIndexId)
		}
	}
	if e.removed {
		w.modelRemove(t)
		if w.wheelCount(t.idx) != wheelBefore {
			w.fail("T%d: removed (%s) but re-armed", t.id, e.name)
		}
		return
	}
	// kept
	if got := t.hi.pendingDeletion.Load(); got != t.pending {
		w.fail("T%d: expected %s: pendingDeletion=%v, want %v", t.id, e.name, got, t.pending)
	}
	if t.hi.in.Load() || t.hi.out.Load() != t.out {
		w.fail("T%d: expected %s: traffic flags after the check in=%v out=%v, want in=false out=%v", t.id, e.name, t.hi.in.Load(), t.hi.out.Load(), t.out)
	}
	if !t.hi.lastUsed.Equal(t.lastUsed) {
		w.fail("T%d: expected %s: lastUsed=%v, want %v", t.id, e.name, t.hi.lastUsed.Sub(c30Base), t.lastUsed.Sub(c30Base))
	}
	if got := w.wheelCount(t.idx) - wheelBefore; got != 1 {
		w.fail("T%d: expected %s: tunnel kept but the next check was scheduled %d times", t.id, e.name, got)
	}
	primaryAfter := w.hm.Hosts[t.v.addr]
	switch {
	case primaryAfter == primaryBefore:
	case e.mayPromote && primaryAfter == t.hi:
		l := slices.DeleteFunc(slices.Clone(w.lists[t.v.addr]), func(x *c30Tun) bool { return x == t })
		w.lists[t.v.addr] = append([]*c30Tun{t}, l...)
		vk.Label(c30PID, "d:alive-nonprimary-swapped")
	default:
		w.fail("T%d: expected %s: primary for %v changed unexpectedly", t.id, e.name, t.v.addr)
	}
}

func TestC30_LivenessPolicy(t *testing.T) {
	c30Setup()
	vk.Check(t, 10000, func(rt *rapid.T) {
		w := c30NewWorld(rt)
		w.disconnectInvalid = rapid.Bool().Draw(rt, "disconnectInvalid")
		w.f.disconnectInvalid.Store(w.disconnectInvalid)
		w.dropInactive = rapid.Bool().Draw(rt, "dropInactive")
		w.cm.dropInactive.Store(w.dropInactive)
		n := rapid.IntRange(1, 3).Draw(rt, "ntunnels")
		for i := 0; i < n; i++ {
			w.addTunnel()
		}
		steps := rapid.IntRange(1, 40).Draw(rt, "nticks")
		for i := 0; i < steps; i++ {
			w.tick()
		}
		delete(w.decisions, "removed-noop")
		nt := len(w.decisions) >= 3
		vk.Case(c30PID, strings.Join(w.ops, ";"), nt, fmt.Sprintf("hist:decisions=%d", min(len(w.decisions), 6)))
		if nt && vk.WantSample(c30PID) {
			vk.Sample(c30PID, map[string]any{"ops": w.ops})
		}
	})
}
