package nebula

// C18 - tracked flows are per-tuple and expire when idle (DESIGN.md section 4).
// Each history runs inside a testing/synctest bubble, so time.Now() inside the conntrack is the
// virtual clock and time.Sleep advances it exactly.
//
// Oracle (reference conntrack: tuple -> time last honoured): a packet that no rule allows may pass
// ONLY IF its tuple was established by an allowed packet and has not been idle longer than the
// timeout of its protocol; after an observed expiry the flow needs a rule again. Verdicts in
// [T, T+2 ticks] (tick = smallest timeout, the timer wheel's documented rounding) are don't-care.
// The statement is an "only if": a dropped packet of a live flow is recorded (label) but not failed.
//
// Known finding idle-flow-never-expires-without-churn (see findings.d): lookups never compare the
// entry's expiry with the clock; an entry disappears only after an unrelated INSERT moved the timer
// wheel past its slot and enough lookups purged the expired list up to it. While that finding is
// listed open, a stale flow that is still honoured is tolerated ONLY when that machinery had no
// chance (no fresh insert after the deadline followed by at least as many lookups as flows ever
// created); a stale flow honoured despite sufficient churn is always a violation, as is any
// untracked tuple that passes.

import (
	"fmt"
	"testing"
	"testing/synctest"
	"time"

	"github.com/slackhq/nebula/firewall"
	"pgregory.net/rapid"
	"verifkit/vk"
)

const c18Key = "idle-flow-never-expires-without-churn"

type c18Flow struct {
	last      time.Duration // virtual time last honoured / established
	advanced  bool          // a fresh insert happened after last+T+2tick
	lookups   int           // lookups since that insert
	bound     int           // flows ever created at that insert (upper bound of the expired list)
	uncertain bool          // a live flow was dropped: the statement does not say what follows
	T         time.Duration // timeout configured when the flow was last honoured
}

func c18Timeout(proto uint8, tcp, udp, def time.Duration) time.Duration {
	switch proto {
	case firewall.ProtoTCP:
		return tcp
	case firewall.ProtoUDP:
		return udp
	}
	return def
}

var c18Durations = []time.Duration{time.Second, 2 * time.Second, 5 * time.Second, 30 * time.Second, time.Minute, 3 * time.Minute, 10 * time.Minute, 12 * time.Minute}

func TestC18_ConntrackExpiry(t *testing.T) {
	vk.Check(t, 3000, func(rt *rapid.T) {
		rapid.SyncTest(rt, c18History)
	})
}

func c18History(rt *rapid.T) {
	tcp := rapid.SampledFrom(c18Durations).Draw(rt, "tcpTimeout")
	udp := rapid.SampledFrom(c18Durations).Draw(rt, "udpTimeout")
	def := rapid.SampledFrom(c18Durations).Draw(rt, "defaultTimeout")
	tick := min(tcp, udp, def)

	n := fwrGenNode(rt)
	np := rapid.IntRange(1, 2).Draw(rt, "nPeers")
	peers := make([]fwrPeer, np)
	hosts := make([]*HostInfo, np)
	for i := range peers {
		peers[i] = fwrGenPeer(rt, n, i, true)
		hosts[i] = fwrHost(n, peers[i])
	}
	// rules: the churn rule (inbound udp/9 from anyone to anything) plus a one-directional or random set
	rules := []fwrRule{{Incoming: true, Proto: firewall.ProtoUDP, Start: 9, End: 9, Host: "any", LocalCIDR: "any"}}
	ruleMode := rapid.SampledFrom([]string{"in-only", "in-only", "out-only", "random"}).Draw(rt, "ruleMode")
	switch ruleMode {
	case "in-only":
		rules = append(rules, fwrRule{Incoming: true, Host: "any", LocalCIDR: "any"})
	case "out-only":
		rules = append(rules, fwrRule{Incoming: false, Host: "any", LocalCIDR: "any"})
	default:
		rules = append(rules, fwrGenRuleSet(rt, rapid.IntRange(1, 4).Draw(rt, "nRules"), rapid.Bool().Draw(rt, "rulesDir"), 3)...)
	}
	fw, err := fwrNewFirewall(n, tcp, udp, def, rules)
	if err != nil {
		rt.Fatalf("rule set refused: %v", err)
	}
	pool := fwrPool(fwrTrusted)

	// flows: a few base tuples and near-duplicates differing in exactly one field
	type fl struct {
		p    firewall.Packet
		peer int
	}
	var flows []fl
	nb := rapid.IntRange(1, 3).Draw(rt, "baseFlows")
	for i := 0; i < nb; i++ {
		k := rapid.IntRange(0, np-1).Draw(rt, "flowPeer")
		p := fwrGenPacket(rt, n, peers[k])
		p.Fragment = false
		if p.LocalPort == 9 {
			p.LocalPort = 10
		}
		flows = append(flows, fl{p, k})
		for j := rapid.IntRange(0, 2).Draw(rt, "variants"); j > 0; j-- {
			q := p
			switch rapid.IntRange(0, 4).Draw(rt, "variantField") {
			case 0:
				q.LocalPort++
			case 1:
				q.RemotePort++
			case 2:
				q.Protocol = rapid.SampledFrom(fwrProtos).Draw(rt, "variantProto")
			case 3:
				q.Fragment = true
			case 4:
				o := fwrGenPacket(rt, n, peers[k])
				q.LocalAddr, q.RemoteAddr = o.LocalAddr, o.RemoteAddr
			}
			flows = append(flows, fl{q, k})
		}
	}

	model := map[firewall.Packet]*c18Flow{}
	created := 0 // tuples established for the first time ever (each is a real insert, hence a wheel advance)
	everSeen := map[firewall.Packet]bool{}
	var now time.Duration
	var trace []string
	staleProbes, hardProbes := 0, 0
	labels := map[string]int{}

	send := func(p firewall.Packet, incoming bool, k int, churn bool) {
		ruleOK, _, _ := fwrAllowed(rules, n, peers[k], fwrTrusted, p, incoming)
		Tcur := c18Timeout(p.Protocol, tcp, udp, def)
		f := model[p]
		// the idle timer of a flow is armed by its last honoured packet with the timeout configured at
		// that moment (timeouts can change on a reload, see the "retime" step)
		T := Tcur
		if f != nil && f.T != 0 {
			T = f.T
		}
		// every lookup purges at most one expired entry, before the tuple is looked up
		for _, g := range model {
			if g.advanced {
				g.lookups++
			}
		}
		err := fw.Drop(p, incoming, hosts[k], pool, nil)
		passed := err == nil
		if !churn {
			trace = append(trace, fmt.Sprintf("t=%v %+v incoming=%v peer=%d ruleOK=%v passed=%v", now, p, incoming, k, ruleOK, passed))
		}
		fail := func(msg string) {
			rt.Fatalf("%s\n packet=%+v incoming=%v peer=%d at t=%v (ruleAllowed=%v)\n timeouts tcp=%v udp=%v default=%v tick=%v\n rules=%v\n node=%+v peers=%+v\n history (churn omitted):\n  %s",
				msg, p, incoming, k, now, ruleOK, tcp, udp, def, tick, rules, n, peers, c18JoinLines(trace))
		}
		establish := func() {
			if !everSeen[p] {
				everSeen[p] = true
				created++
				// a fresh insert advances the wheel to now: flows past their deadline are on the expired list
				for q, g := range model {
					if q != p && !g.advanced && now > g.last+g.T+2*tick {
						g.advanced, g.lookups, g.bound = true, 0, created
					}
				}
			}
			model[p] = &c18Flow{last: now, T: Tcur}
		}
		switch {
		case f != nil && f.uncertain:
			labels["uncertain-skipped"]++
			if passed {
				f.last, f.T = now, Tcur
			}
		case f == nil:
			if passed && !ruleOK {
				fail("a packet that no rule allows passed although its tuple was never established (or had expired and was removed)")
			}
			if !passed && ruleOK {
				fail("a packet allowed by a rule was dropped (harness sanity, C16)")
			}
			if passed {
				establish()
				labels["established"]++
			} else {
				labels["untracked-dropped"]++
			}
		default:
			age := now - f.last
			switch {
			case age < T: // (idle exactly T is observed as expired by evict's `Expires - now > 0`; left to the don't-care zone)
				if passed {
					f.last, f.advanced, f.T = now, false, Tcur
					if !ruleOK {
						labels["live-honoured"]++
					}
				} else if ruleOK {
					fail("a packet allowed by a rule was dropped (harness sanity, C16)")
				} else {
					labels["live-flow-dropped(not-asserted)"]++
					f.uncertain = true
				}
			case age <= T+2*tick:
				labels["dont-care-zone"]++
				if passed {
					f.last, f.advanced, f.T = now, false, Tcur
				} else if ruleOK {
					fail("a packet allowed by a rule was dropped (harness sanity, C16)")
				} else {
					delete(model, p)
				}
			default: // expired
				if ruleOK {
					if !passed {
						fail("a packet allowed by a rule was dropped (harness sanity, C16)")
					}
					f.last, f.advanced, f.T = now, false, Tcur
					labels["expired-reestablished-by-rule"]++
					break
				}
				staleProbes++
				sufficient := f.advanced && f.lookups >= f.bound
				if sufficient {
					hardProbes++
				}
				if !passed {
					delete(model, p)
					labels["stale-probe-dropped"]++
					break
				}
				if sufficient {
					fail(fmt.Sprintf("expired flow still honoured: idle %v > timeout %v + 2 ticks, even though a fresh insert advanced the timer wheel past it and %d lookups (>= %d flows ever created) followed", age, T, f.lookups, f.bound))
				}
				if vk.KnownOpen("C18", c18Key) {
					vk.Excluded("C18", c18Key)
					labels["stale-probe-honoured(known-finding)"]++
					f.last, f.advanced, f.T = now, false, Tcur // the real table refreshed it
					break
				}
				fail(fmt.Sprintf("expired flow still honoured: idle %v > timeout %v + 2 ticks (tick %v)", age, T, tick))
			}
		}
	}

	churnSeq := 0
	steps := rapid.IntRange(4, 30).Draw(rt, "steps")
	for s := 0; s < steps; s++ {
		switch rapid.IntRange(0, 10).Draw(rt, "op") {
		case 10:
			// a reload that changes the conntrack timeouts: as Interface.reloadFirewall does, a new
			// firewall is built from the same rules and adopts the existing conntrack table
			tcp = rapid.SampledFrom(c18Durations).Draw(rt, "tcpTimeout2")
			udp = rapid.SampledFrom(c18Durations).Draw(rt, "udpTimeout2")
			def = rapid.SampledFrom(c18Durations).Draw(rt, "defaultTimeout2")
			nfw, err := fwrNewFirewall(n, tcp, udp, def, rules)
			if err != nil {
				rt.Fatalf("rule set refused on reload: %v", err)
			}
			ct := fw.Conntrack
			ct.Lock()
			nfw.rulesVersion = fw.rulesVersion + 1
			nfw.Conntrack = ct
			ct.Unlock()
			fw = nfw
			labels["timeouts-reloaded"]++
			trace = append(trace, fmt.Sprintf("reload with timeouts tcp=%v udp=%v default=%v", tcp, udp, def))
		case 0, 1, 2, 3, 4:
			f := flows[rapid.IntRange(0, len(flows)-1).Draw(rt, "flow")]
			send(f.p, rapid.Bool().Draw(rt, "incoming"), f.peer, false)
		case 5, 6, 7:
			T := rapid.SampledFrom([]time.Duration{tcp, udp, def}).Draw(rt, "sleepBase")
			d := rapid.SampledFrom([]time.Duration{T - 1, T, T + 1, T + tick, T + 2*tick, T + 2*tick + 1, T + 3*tick, 10 * T, T / 2, time.Millisecond, tick}).Draw(rt, "sleep")
			time.Sleep(d)
			now += d
			trace = append(trace, fmt.Sprintf("sleep %v", d))
		default:
			// burst of unrelated brand-new flows through the churn rule (udp/9 inbound)
			burst := rapid.SampledFrom([]int{1, 1, 2, 5, 20, 60, 200}).Draw(rt, "churn")
			trace = append(trace, fmt.Sprintf("churn %d new flows", burst))
			base := fwrGenPacket(rt, n, peers[0])
			for i := 0; i < burst; i++ {
				churnSeq++
				c := firewall.Packet{LocalAddr: base.LocalAddr, RemoteAddr: base.RemoteAddr, LocalPort: 9, RemotePort: uint16(1000 + churnSeq), Protocol: firewall.ProtoUDP}
				send(c, true, 0, true)
			}
			labels["churn-flows"] += burst
		}
	}
	ls := []string{"rules-" + ruleMode}
	for l, c := range labels {
		vk.LabelN("C18", l, int64(c))
	}
	if staleProbes > 0 {
		ls = append(ls, "history-with-stale-probe")
	}
	if hardProbes > 0 {
		ls = append(ls, "history-with-stale-probe-after-sufficient-churn")
	}
	vk.Case("C18", fmt.Sprintf("%v|%v|%v|%s|%s|%s", tcp, udp, def, fwrRulesKey(rules), fwrEnvKey(n, peers[0]), c18JoinLines(trace)), staleProbes > 0, ls...)
	if staleProbes > 0 && vk.WantSample("C18") {
		vk.Sample("C18", map[string]any{"timeouts": fmt.Sprint(tcp, udp, def), "rules": ruleMode, "history": trace})
	}
}

func c18JoinLines(ss []string) string {
	out := ""
	for i, s := range ss {
		if i > 0 {
			out += "\n  "
		}
		out += s
	}
	return out
}

// Probe: the minimal failing input of the recorded finding. One inbound UDP packet allowed by a
// rule establishes the flow; after 10 h of virtual idle time (udp timeout 1 m, nothing else
// happens) the reply direction, which no rule allows, must be dropped.
func TestC18_Probe_idle_flow_never_expires_without_churn(t *testing.T) {
	defer vk.Flush()
	reproduced := false
	synctest.Test(t, func(t *testing.T) {
		n := fwrNode{Networks: fwrNets("10.0.0.1/24")}
		peer := fwrPeer{Name: "h1", Networks: fwrNets("10.0.0.2/24"), Issuer: "sha1"}
		fw, err := fwrNewFirewall(n, 12*time.Minute, time.Minute, 10*time.Minute, []fwrRule{{Incoming: true, Host: "any"}})
		if err != nil {
			t.Fatal(err)
		}
		h := fwrHost(n, peer)
		p := firewall.Packet{LocalAddr: n.Networks[0].Addr(), RemoteAddr: peer.Networks[0].Addr(), LocalPort: 53, RemotePort: 4000, Protocol: firewall.ProtoUDP}
		if err := fw.Drop(p, true, h, fwrPool(fwrTrusted), nil); err != nil {
			t.Fatalf("inbound packet allowed by rule dropped: %v", err)
		}
		if err := fw.Drop(p, false, h, fwrPool(fwrTrusted), nil); err != nil {
			t.Fatalf("reply of a live flow dropped: %v", err)
		}
		time.Sleep(10 * time.Hour)
		reproduced = fw.Drop(p, false, h, fwrPool(fwrTrusted), nil) == nil
	})
	if !reproduced {
		return
	}
	if vk.KnownOpen("C18", c18Key) {
		vk.ReportKnown("C18", c18Key)
		return
	}
	t.Fatalf("C18 %s: a UDP flow (timeout 1m) established by one allowed inbound packet is still honoured for the outbound direction, which no rule allows, after 10h of idle time", c18Key)
}
