package nebula

// C13 - nonces are never reused and the ceiling is enforced (unit level, engines E-sched + E-race).
//
// Two tunnels of one Interface: A (direct peer, also our relay towards T) and T (reachable only
// through A). Their eKeys are harness ciphers (c13Gate) around the real noiseutil CipherState. In
// the scheduled test every sender parks inside the cipher, i.e. between counter reservation and
// seal, until the generated schedule releases it; in the parallel test the gate only records and
// yields. Senders are the real send paths: sendNoMetrics (data, test, close, lighthouse, control;
// direct and relayed), sendInsideMessage -> sendInsideEncrypt (hot path, single packets and USO
// superpackets, direct and relayed) and SendVia -> prepareSendVia.
//
// Oracle over the log of (key, nonce) pairs that reached the real AEAD and over the datagrams
// handed to the UDP writers (decoded and opened with the standard library AEADs, not noiseutil):
//  1. no (key, nonce) sealed twice;
//  2. every sealed nonce is above the counter value the run started from (the handshake's message
//     index in a fresh tunnel, everything consumed earlier otherwise);
//  3. nothing is sealed at or beyond RejectAfterMessages;
//  4. every emitted datagram opens under the nonce in its header (outer relay header and inner
//     header), that (key, nonce) was sealed by the emitting sender, and is emitted once;
//  5. refused calls emit nothing (every emitted datagram maps to a distinct sealed call);
//  6. when noiseutil.EncryptLockNeeded is set (always under GODEBUG=fips140=on, drawn otherwise):
//     nonces reach the AEAD in strictly increasing order per key and never two callers are inside
//     one key's cipher at once. Under FIPS the real AES-GCM additionally panics on a regression.

import (
	"crypto/aes"
	"crypto/cipher"
	"crypto/fips140"
	"encoding/binary"
	"errors"
	"fmt"
	"log/slog"
	"net/netip"
	"os"
	"runtime"
	"sort"
	"strings"
	"sync"
	"sync/atomic"
	"testing"
	"time"

	"github.com/flynn/noise"
	"github.com/rcrowley/go-metrics"
	"github.com/slackhq/nebula/handshake"
	"github.com/slackhq/nebula/header"
	"github.com/slackhq/nebula/noiseutil"
	"github.com/slackhq/nebula/overlay/batch"
	"github.com/slackhq/nebula/overlay/tio"
	"github.com/slackhq/nebula/udp"
	"golang.org/x/crypto/chacha20poly1305"
	"pgregory.net/rapid"
	"verifkit/vk"
)

const c13PID = "C13"

// ---- keys ---------------------------------------------------------------------------------------

type c13Keys struct {
	chacha bool
	key    [32]byte
	aead   cipher.AEAD
}

func c13NewKeys(chacha bool, fill byte) *c13Keys {
	k := &c13Keys{chacha: chacha}
	for i := range k.key {
		k.key[i] = fill ^ byte(i*11+3)
	}
	if chacha {
		a, err := chacha20poly1305.New(k.key[:])
		if err != nil {
			panic(err)
		}
		k.aead = a
	} else {
		b, err := aes.NewCipher(k.key[:])
		if err != nil {
			panic(err)
		}
		a, err := cipher.NewGCM(b)
		if err != nil {
			panic(err)
		}
		k.aead = a
	}
	return k
}

func (k *c13Keys) nonce(c uint64) []byte {
	nb := make([]byte, 12)
	if k.chacha {
		binary.LittleEndian.PutUint64(nb[4:], c)
	} else {
		binary.BigEndian.PutUint64(nb[4:], c)
	}
	return nb
}

func (k *c13Keys) noiseState() (*noise.CipherState, noise.CipherFunc) {
	cf := noiseutil.CipherAESGCM // the FIPS AEAD when GODEBUG=fips140=on
	if k.chacha {
		cf = noise.CipherChaChaPoly
	}
	return noise.UnsafeNewCipherState(noise.NewCipherSuite(noise.DH25519, cf, noise.HashSHA256), k.key, 0), cf
}

// connState builds the tunnel state. hsIndex >= 0: through the real constructor from a handshake
// result that consumed hsIndex messages (start is ignored); otherwise a state whose counter was
// advanced to start by earlier traffic. The gate is put around the real eKey.
func (k *c13Keys) connState(g *c13Gate, start uint64, hsIndex int) *ConnectionState {
	s, cf := k.noiseState()
	if hsIndex >= 0 {
		d, _ := k.noiseState()
		ci, err := newConnectionStateFromResult(&handshake.Result{EKey: s, DKey: d, Cipher: cf, MessageIndex: uint64(hsIndex), Initiator: true})
		if err != nil {
			panic(err)
		}
		g.inner, ci.eKey = ci.eKey, g
		return ci
	}
	g.inner = noiseutil.NewCipherState(s, cf)
	ci := &ConnectionState{eKey: g, window: NewBits(ReplayWindow)}
	ci.messageCounter.Store(start)
	return ci
}

// ---- recording / gated cipher -------------------------------------------------------------------

type c13LogEntry struct {
	seq    int64
	key    string
	w      int
	n      uint64
	sealed bool
	panic  string
}

const (
	c13EvParked = iota
	c13EvLeft
	c13EvDone
	c13EvExhausted // NextMessageCounter refused: the sender left its critical section without reaching the cipher
)

type c13Event struct {
	w      int
	kind   int
	key    string
	n      uint64
	sealed bool
	panic  string
}

type c13H struct {
	mu      sync.Mutex
	ids     map[*byte]int
	park    bool
	ev      chan c13Event
	release []chan struct{}
	log     []c13LogEntry
	seq     atomic.Int64
	yield   [][]uint8
	ypos    []int
	gids    sync.Map // goroutine id -> sender (scheduled test only)
}

type c13Gate struct {
	h         *c13H
	key       string
	inner     noiseutil.CipherState
	inside    atomic.Int32
	maxInside atomic.Int32
}

func (g *c13Gate) DecryptDanger(out, ad, ciphertext []byte, n uint64, nb []byte) ([]byte, error) {
	return nil, errors.New("c13: eKey must not decrypt")
}

func (g *c13Gate) Overhead() int { return g.inner.Overhead() }

func (g *c13Gate) EncryptDanger(out, ad, plaintext []byte, n uint64, nb []byte) (res []byte, err error) {
	w := g.h.ids[&nb[0]]
	occ := g.inside.Add(1)
	for {
		m := g.maxInside.Load()
		if occ <= m || g.maxInside.CompareAndSwap(m, occ) {
			break
		}
	}
	if g.h.park {
		g.h.ev <- c13Event{w: w, kind: c13EvParked, key: g.key, n: n}
		<-g.h.release[w]
	} else if p := g.h.yield[w]; len(p) > 0 {
		k := p[g.h.ypos[w]%len(p)]
		g.h.ypos[w]++
		for i := uint8(0); i < k; i++ {
			runtime.Gosched()
		}
	}
	e := c13LogEntry{seq: g.h.seq.Add(1), key: g.key, w: w, n: n}
	func() {
		defer func() {
			if r := recover(); r != nil {
				e.panic = fmt.Sprint(r)
				res, err = nil, fmt.Errorf("c13: cipher panicked: %v", r)
			}
		}()
		res, err = g.inner.EncryptDanger(out, ad, plaintext, n, nb)
	}()
	e.sealed = err == nil
	g.h.mu.Lock()
	g.h.log = append(g.h.log, e)
	g.h.mu.Unlock()
	g.inside.Add(-1)
	if g.h.park {
		g.h.ev <- c13Event{w: w, kind: c13EvLeft, key: g.key, n: n, sealed: e.sealed, panic: e.panic}
	}
	return res, err
}

// c13ExhaustCounter is Interface.messageMetrics.txExhausted: besides counting, it tells the
// scheduler which sender was just refused by NextMessageCounter (the only way through a send path's
// critical section that does not reach the cipher), so that every step of every sender is observed.
type c13ExhaustCounter struct {
	metrics.Counter
	h *c13H
}

func (c *c13ExhaustCounter) Inc(i int64) {
	c.Counter.Inc(i)
	if c.h.park {
		if w, ok := c.h.gids.Load(c13GoroutineID()); ok {
			c.h.ev <- c13Event{w: w.(int), kind: c13EvExhausted}
		}
	}
}

func c13GoroutineID() string {
	var buf [64]byte
	b := buf[:runtime.Stack(buf[:], false)] // "goroutine 123 [running]:..."
	f := strings.Fields(string(b))
	if len(f) >= 2 {
		return f[1]
	}
	return ""
}

type c13Conn struct {
	udp.NoopConn
	mu   sync.Mutex
	pkts [][]byte
}

func (c *c13Conn) WriteTo(b []byte, _ netip.AddrPort) error {
	c.mu.Lock()
	c.pkts = append(c.pkts, append([]byte{}, b...))
	c.mu.Unlock()
	return nil
}

func (c *c13Conn) WriteBatch(bufs [][]byte, _ []netip.AddrPort) (int, error) {
	c.mu.Lock()
	for _, b := range bufs {
		c.pkts = append(c.pkts, append([]byte{}, b...))
	}
	c.mu.Unlock()
	return len(bufs), nil
}

// ---- the world: one Interface, tunnel A (direct + relay) and tunnel T (behind A) -----------------

type c13World struct {
	f            *Interface
	hA, hT       *HostInfo
	ciA, ciT     *ConnectionState
	gA, gT       *c13Gate
	kA, kT       *c13Keys
	relay        *Relay
	h            *c13H
	conns        []*c13Conn
	nbs          [][]byte
	startA       uint64
	startT       uint64
	directRemote netip.AddrPort
}

func c13NewWorld(chacha bool, sA, sT c13Start, workers int, park bool) *c13World {
	startA, startT := sA.v, sT.v
	l := slog.New(slog.DiscardHandler)
	w := &c13World{startA: startA, startT: startT}
	w.h = &c13H{ids: map[*byte]int{}, park: park, ev: make(chan c13Event, 64*workers+64), release: make([]chan struct{}, workers),
		yield: make([][]uint8, workers), ypos: make([]int, workers)}
	w.kA, w.kT = c13NewKeys(chacha, 0x21), c13NewKeys(chacha, 0x9d)
	w.gA = &c13Gate{h: w.h, key: "A"}
	w.gT = &c13Gate{h: w.h, key: "T"}
	w.ciA = w.kA.connState(w.gA, startA, sA.hs)
	w.ciT = w.kT.connState(w.gT, startT, sT.hs)

	addrA, addrT := netip.MustParseAddr("10.13.0.2"), netip.MustParseAddr("10.13.0.3")
	newRS := func() RelayState {
		return RelayState{relayForByAddr: map[netip.Addr]*Relay{}, relayForByIdx: map[uint32]*Relay{}}
	}
	w.hA = &HostInfo{ConnectionState: w.ciA, remoteIndexId: 0xa1a1a1a1, localIndexId: 11, vpnAddrs: []netip.Addr{addrA}, relayState: newRS()}
	w.directRemote = netip.MustParseAddrPort("192.0.2.2:4242")
	w.hA.remote.Store(&w.directRemote)
	w.hT = &HostInfo{ConnectionState: w.ciT, remoteIndexId: 0x71717171, localIndexId: 12, vpnAddrs: []netip.Addr{addrT}, relayState: newRS()}
	w.relay = &Relay{Type: TerminalType, State: Established, LocalIndex: 77, RemoteIndex: 0x7e7e7e7e, PeerAddr: addrT}
	w.hA.relayState.InsertRelay(addrT, w.relay.LocalIndex, w.relay)
	w.hT.relayState.InsertRelayTo(addrA)

	w.f = &Interface{
		l:                 l,
		messageMetrics:    &MessageMetrics{txExhausted: &c13ExhaustCounter{Counter: metrics.NewCounter(), h: w.h}},
		connectionManager: &connectionManager{relayUsed: map[uint32]struct{}{}, relayUsedLock: &sync.RWMutex{}, l: l},
		hostMap:           &HostMap{Hosts: map[netip.Addr]*HostInfo{addrA: w.hA}},
		// the post-rebind branch of sendNoMetrics asks the lighthouse; a node that is a lighthouse itself returns at once
		lightHouse: &LightHouse{amLighthouse: true},
	}
	for i := 0; i < workers; i++ {
		c := &c13Conn{}
		w.conns = append(w.conns, c)
		w.f.writers = append(w.f.writers, c)
		nb := make([]byte, 12)
		w.nbs = append(w.nbs, nb)
		w.h.ids[&nb[0]] = i
		w.h.release[i] = make(chan struct{})
	}
	return w
}

// ---- sender operations --------------------------------------------------------------------------

type c13Op struct {
	Kind     string // ctl | ctlR | via | hot | hotR
	T        header.MessageType
	ST       header.MessageSubType
	Segs     int  // hot/hotR: number of segments (1 = plain packet, >1 = USO superpacket)
	Explicit bool // ctl: explicit remote (sendTo) instead of the hostinfo's
	Pay      int
}

func (o c13Op) String() string {
	switch o.Kind {
	case "ctl", "ctlR":
		return fmt.Sprintf("%s(%s/%d,%dB,explicit=%v)", o.Kind, header.TypeName(o.T), o.ST, o.Pay, o.Explicit)
	case "hot", "hotR":
		return fmt.Sprintf("%s(%dseg,%dB)", o.Kind, o.Segs, o.Pay)
	}
	return fmt.Sprintf("%s(%dB)", o.Kind, o.Pay)
}

// datagrams this op hands to the writer when nothing is refused
func (o c13Op) expectEmits() int {
	if o.Kind == "hot" || o.Kind == "hotR" {
		return o.Segs
	}
	return 1
}

var c13CtlTypes = []struct {
	t  header.MessageType
	st header.MessageSubType
}{
	{header.Message, header.MessageNone}, {header.Test, header.TestRequest}, {header.Test, header.TestReply},
	{header.CloseTunnel, 0}, {header.LightHouse, 0}, {header.Control, 0},
}

func c13DrawOp(rt *rapid.T) c13Op {
	o := c13Op{Kind: rapid.SampledFrom([]string{"ctl", "ctl", "hot", "hot", "hot", "via", "ctlR", "hotR"}).Draw(rt, "kind")}
	o.Pay = rapid.IntRange(1, 40).Draw(rt, "pay")
	switch o.Kind {
	case "ctl", "ctlR":
		ty := rapid.SampledFrom(c13CtlTypes).Draw(rt, "type")
		o.T, o.ST = ty.t, ty.st
		if o.Kind == "ctl" {
			o.Explicit = rapid.Bool().Draw(rt, "explicit")
		}
	case "hot", "hotR":
		o.Segs = rapid.SampledFrom([]int{1, 1, 1, 2, 3}).Draw(rt, "segs")
	}
	return o
}

// c13TunPacket builds an IPv4/UDP packet (or USO superpacket with segs segments of pay bytes).
func c13TunPacket(segs, pay int) tio.Packet {
	total := 28 + segs*pay
	b := make([]byte, total)
	b[0] = 0x45
	binary.BigEndian.PutUint16(b[2:], uint16(total))
	binary.BigEndian.PutUint16(b[4:], 0x1000)
	b[8], b[9] = 64, 17
	copy(b[12:], []byte{10, 13, 0, 1})
	copy(b[16:], []byte{10, 13, 0, 2})
	binary.BigEndian.PutUint16(b[20:], 4000)
	binary.BigEndian.PutUint16(b[22:], 5000)
	binary.BigEndian.PutUint16(b[24:], uint16(8+segs*pay))
	for i := 28; i < total; i++ {
		b[i] = byte(i)
	}
	p := tio.Packet{Bytes: b}
	if segs > 1 {
		p.GSO = tio.GSOInfo{Size: uint16(pay), HdrLen: 28, CsumStart: 20, Proto: tio.GSOProtoUDP}
	}
	return p
}

func (w *c13World) run(id int, o c13Op) {
	nb := w.nbs[id]
	payload := make([]byte, o.Pay)
	for i := range payload {
		payload[i] = byte(id*16 + i)
	}
	switch o.Kind {
	case "ctl":
		remote := netip.AddrPort{}
		if o.Explicit {
			remote = netip.MustParseAddrPort("198.51.100.7:4242")
		}
		w.f.sendNoMetrics(o.T, o.ST, w.ciA, w.hA, remote, payload, nb, make([]byte, 0, mtu), id)
	case "ctlR":
		w.f.sendNoMetrics(o.T, o.ST, w.ciT, w.hT, netip.AddrPort{}, payload, nb, make([]byte, 0, mtu), id)
	case "via":
		w.f.SendVia(w.hA, w.relay, payload, nb, make([]byte, 0, mtu), false, id)
	case "hot", "hotR":
		sb := batch.NewSendBatch(w.conns[id], batch.SendBatchCap, 1<<16)
		hi := w.hA
		if o.Kind == "hotR" {
			hi = w.hT
		}
		w.f.sendInsideMessage(hi, c13TunPacket(o.Segs, o.Pay), nb, sb)
		sb.Flush()
	}
}

// ---- oracle ------------------------------------------------------------------------------------

type c13Stats struct {
	sealed, refusedCipher map[string]int
	refusedCounter        int64
	emitted               int
}

func (w *c13World) analyse(ops []c13Op, lock bool) (fail []string, st c13Stats) {
	st.sealed, st.refusedCipher = map[string]int{}, map[string]int{}
	st.refusedCounter = w.f.messageMetrics.txExhausted.Count()
	log := append([]c13LogEntry{}, w.h.log...)
	sort.Slice(log, func(i, j int) bool { return log[i].seq < log[j].seq })
	start := map[string]uint64{"A": w.startA, "T": w.startT}
	type kn struct {
		key string
		n   uint64
	}
	sealedBy := map[kn]int{}
	last := map[string]uint64{}
	haveLast := map[string]bool{}
	for _, e := range log {
		if e.panic != "" {
			fail = append(fail, fmt.Sprintf("(6) the AEAD of key %s panicked for nonce %d of sender %d: %s", e.key, e.n, e.w, e.panic))
			continue
		}
		if !e.sealed {
			st.refusedCipher[e.key]++
			if e.n < RejectAfterMessages {
				fail = append(fail, fmt.Sprintf("harness: cipher refused nonce %d below the ceiling (key %s)", e.n, e.key))
			}
			continue
		}
		st.sealed[e.key]++
		k := kn{e.key, e.n}
		if prev, dup := sealedBy[k]; dup {
			fail = append(fail, fmt.Sprintf("(1) nonce %d sealed twice under key %s (senders %d and %d)", e.n, e.key, prev, e.w))
		}
		sealedBy[k] = e.w
		if e.n <= start[e.key] {
			fail = append(fail, fmt.Sprintf("(2) nonce %d sealed under key %s although counters up to %d were consumed before the run", e.n, e.key, start[e.key]))
		}
		if e.n >= RejectAfterMessages {
			fail = append(fail, fmt.Sprintf("(3) nonce %d (ceiling%+d) sealed under key %s by sender %d", e.n, int64(e.n-RejectAfterMessages), e.key, e.w))
		}
		if lock {
			if haveLast[e.key] && e.n <= last[e.key] {
				fail = append(fail, fmt.Sprintf("(6) lock needed: nonce %d reached the AEAD of key %s after nonce %d", e.n, e.key, last[e.key]))
			}
			last[e.key], haveLast[e.key] = e.n, true
		}
	}
	if lock {
		for _, g := range []*c13Gate{w.gA, w.gT} {
			if m := g.maxInside.Load(); m > 1 {
				fail = append(fail, fmt.Sprintf("(6) lock needed: %d senders were inside the cipher of key %s at once", m, g.key))
			}
		}
	}
	// emitted datagrams
	emittedOnce := map[kn]bool{}
	claim := func(id int, key string, n uint64, what string) {
		k := kn{key, n}
		by, ok := sealedBy[k]
		switch {
		case !ok:
			fail = append(fail, fmt.Sprintf("(4/5) sender %d emitted a %s with counter %d of key %s that was never sealed", id, what, n, key))
		case by != id:
			fail = append(fail, fmt.Sprintf("(4) sender %d emitted a %s with counter %d of key %s sealed by sender %d", id, what, n, key, by))
		case emittedOnce[k]:
			fail = append(fail, fmt.Sprintf("(4) counter %d of key %s emitted twice", n, key))
		}
		emittedOnce[k] = true
	}
	for id, c := range w.conns {
		if len(c.pkts) > ops[id].expectEmits() {
			fail = append(fail, fmt.Sprintf("(5) sender %d %v emitted %d datagrams, at most %d expected", id, ops[id], len(c.pkts), ops[id].expectEmits()))
		}
		for _, d := range c.pkts {
			st.emitted++
			if len(d) < header.Len+16 {
				fail = append(fail, fmt.Sprintf("(5) sender %d emitted a %d byte datagram %x", id, len(d), d))
				continue
			}
			ty, sub := d[0]&0x0f, d[1]
			idx := binary.BigEndian.Uint32(d[4:])
			n := binary.BigEndian.Uint64(d[8:])
			if ty == byte(header.Message) && sub == byte(header.MessageRelay) {
				if _, err := w.kA.aead.Open(nil, w.kA.nonce(n), d[len(d)-16:], d[:len(d)-16]); err != nil || idx != w.relay.RemoteIndex {
					fail = append(fail, fmt.Sprintf("(4) sender %d: relay datagram with header counter %d index %x does not verify under key A with that nonce (%v)", id, n, idx, err))
					continue
				}
				claim(id, "A", n, "relay datagram")
				if k := ops[id].Kind; k == "ctlR" || k == "hotR" {
					in := d[header.Len : len(d)-16]
					if len(in) < header.Len+16 {
						fail = append(fail, fmt.Sprintf("(4) sender %d: relayed inner packet too short (%d)", id, len(in)))
						continue
					}
					n2 := binary.BigEndian.Uint64(in[8:])
					if _, err := w.kT.aead.Open(nil, w.kT.nonce(n2), in[header.Len:], in[:header.Len]); err != nil || binary.BigEndian.Uint32(in[4:]) != w.hT.remoteIndexId {
						fail = append(fail, fmt.Sprintf("(4) sender %d: inner packet with header counter %d does not open under key T with that nonce (%v)", id, n2, err))
						continue
					}
					claim(id, "T", n2, "relayed inner packet")
				}
				continue
			}
			if _, err := w.kA.aead.Open(nil, w.kA.nonce(n), d[header.Len:], d[:header.Len]); err != nil || idx != w.hA.remoteIndexId {
				fail = append(fail, fmt.Sprintf("(4) sender %d: datagram type %d with header counter %d index %x does not open under key A with that nonce (%v)", id, ty, n, idx, err))
				continue
			}
			claim(id, "A", n, "datagram")
		}
	}
	return fail, st
}

// reservations the ops can make at most on each key
func c13Demand(ops []c13Op) (a, t uint64) {
	for _, o := range ops {
		switch o.Kind {
		case "ctl", "via":
			a++
		case "hot":
			a += uint64(o.Segs)
		case "ctlR":
			a++
			t++
		case "hotR":
			a += uint64(o.Segs)
			t += uint64(o.Segs)
		}
	}
	return
}

// c13Start is the counter state a tunnel starts the run with: v = highest counter consumed so far;
// hs >= 0 means the state comes straight out of newConnectionStateFromResult after a handshake of
// hs messages (then v == hs).
type c13Start struct {
	v   uint64
	hs  int
	cls string
}

func c13DrawStart(rt *rapid.T, label string, demand uint64) c13Start {
	cls := rapid.SampledFrom([]string{"handshake", "mid", "rehandshake", "below-ceiling", "below-ceiling", "below-ceiling", "at-ceiling", "past-ceiling"}).Draw(rt, label+"Class")
	st := c13Start{hs: -1, cls: cls}
	switch cls {
	case "handshake":
		st.hs = rapid.SampledFrom([]int{2, 2, 3, 5}).Draw(rt, label+"HsMessages") // IX has 2 messages
		st.v = uint64(st.hs)
	case "mid":
		st.v = rapid.SampledFrom([]uint64{3, 1000, 1 << 20, 1<<32 - 1, 1 << 40}).Draw(rt, label)
	case "rehandshake":
		st.v = RehandshakeAfterMessages - 3 + uint64(rapid.IntRange(0, 6).Draw(rt, label))
	case "below-ceiling":
		// the ceiling is crossed somewhere inside the run (k reservations still fit)
		st.v = RejectAfterMessages - 1 - rapid.Uint64Range(0, demand+2).Draw(rt, label)
	case "at-ceiling":
		st.v = RejectAfterMessages
	default:
		// only values the hot path can reach between two pins of NextMessageCounter are searched;
		// the 2^40 head-room itself is not exhausted
		st.v = RejectAfterMessages + 1 + rapid.Uint64Range(0, 64).Draw(rt, label)
	}
	return st
}

// c13SetLock sets noiseutil.EncryptLockNeeded for one case (it is fixed to true under FIPS).
func c13SetLock(rt *rapid.T) (lock bool, restore func()) {
	if fips140.Enabled() {
		return true, func() {}
	}
	old := noiseutil.EncryptLockNeeded
	lock = rapid.Bool().Draw(rt, "lockNeeded")
	noiseutil.EncryptLockNeeded = lock
	return lock, func() { noiseutil.EncryptLockNeeded = old }
}

func c13ModeNote() {
	if fips140.Enabled() {
		vk.Note(c13PID, "FIPS variant ran: GODEBUG=fips140=on is supported by this Go build offline; EncryptLockNeeded=true and AES-GCM is the strictly increasing FIPS AEAD (fips140 "+fips140.Version()+")")
	}
}

// ---- scheduled senders (E-sched) ----------------------------------------------------------------

const (
	c13Idle = iota
	c13Contending
	c13Finishing
	c13Parked
	c13Done
)

func TestC13_Schedules(t *testing.T) {
	c13ModeNote()
	vk.Check(t, 2500, func(rt *rapid.T) {
		lock, restore := c13SetLock(rt)
		defer restore()
		chacha := rapid.Bool().Draw(rt, "chacha")
		n := rapid.IntRange(2, 10).Draw(rt, "senders")
		ops := make([]c13Op, n)
		for i := range ops {
			ops[i] = c13DrawOp(rt)
		}
		dA, dT := c13Demand(ops)
		sA, sT := c13DrawStart(rt, "startA", dA), c13DrawStart(rt, "startT", dT)
		startA, clsA, startT, clsT := sA.v, sA.cls, sT.v, sT.cls
		w := c13NewWorld(chacha, sA, sT, n, true)

		state := make([]int, n)
		want := make([]string, n)      // lock the sender heads for while contending
		parkedKey := make([]string, n) // key it is parked in
		seg := make([]int, n)          // hot paths: segment in progress
		holder := map[string]int{"A": -1, "T": -1}
		var sched []string
		var harnessErr []string
		maxSame, contended, handoffRaces := 0, 0, 0

		firstKey := func(o c13Op) string {
			if o.Kind == "ctlR" || o.Kind == "hotR" {
				return "T"
			}
			return "A"
		}
		// where a sender goes after leaving the cipher of `key`
		next := func(id int, key string, sealed bool) (string, bool) {
			o := ops[id]
			switch o.Kind {
			case "hot":
				seg[id]++
				return "A", seg[id] < o.Segs
			case "ctlR":
				return "A", key == "T" && sealed
			case "hotR":
				if key == "T" && sealed {
					return "A", true
				}
				seg[id]++
				return "T", seg[id] < o.Segs
			}
			return "", false
		}
		blocked := func(id int) bool {
			return lock && state[id] == c13Contending && holder[want[id]] != -1
		}
		quiescent := func() bool {
			for id := range state {
				if state[id] == c13Finishing || (state[id] == c13Contending && !blocked(id)) {
					return false
				}
			}
			return true
		}
		handle := func(e c13Event) {
			switch e.kind {
			case c13EvParked:
				if lock {
					if holder[e.key] != -1 {
						harnessErr = append(harnessErr, fmt.Sprintf("sender %d entered the cipher of %s while sender %d was inside", e.w, e.key, holder[e.key]))
					}
					holder[e.key] = e.w
				}
				state[e.w], parkedKey[e.w] = c13Parked, e.key
				same := 0
				for id := range state {
					if state[id] == c13Parked && parkedKey[id] == e.key {
						same++
					}
				}
				if same > maxSame {
					maxSame = same
				}
			case c13EvDone:
				state[e.w] = c13Done
			case c13EvExhausted:
				// refused by NextMessageCounter on the key it was heading for
				if ops[e.w].Kind == "hotR" && want[e.w] == "A" {
					seg[e.w]++
					if seg[e.w] < ops[e.w].Segs {
						want[e.w] = "T"
						break
					}
				}
				state[e.w] = c13Finishing
			case c13EvLeft:
				if lock && holder[e.key] == e.w {
					holder[e.key] = -1
				}
				if k, more := next(e.w, e.key, e.sealed); more {
					state[e.w], want[e.w] = c13Contending, k
					if lock && holder[k] != -1 {
						contended++
					}
				} else {
					state[e.w] = c13Finishing
				}
			}
		}
		recv := func(what string) c13Event {
			select {
			case e := <-w.h.ev:
				return e
			case <-time.After(30 * time.Second):
				fmt.Printf("VERIF-INFRA: C13 senders did not become quiescent within 30s (%s, lock=%v ops=%v schedule %v states %v want %v)\n", what, lock, ops, sched, state, want)
				vk.Flush()
				os.Exit(3)
				panic("unreachable")
			}
		}
		settle := func(what string) {
			for !quiescent() {
				// more than one sender free to take the same lock: the winner is the Go runtime's choice
				if lock {
					cnt := map[string]int{}
					for id := range state {
						if state[id] == c13Contending && !blocked(id) {
							cnt[want[id]]++
						}
					}
					if cnt["A"] > 1 || cnt["T"] > 1 {
						handoffRaces++
					}
				}
				handle(recv(what))
			}
		}

		mode := rapid.SampledFrom([]string{"mixed", "mixed", "burst", "serial"}).Draw(rt, "mode")
		nextStart := 0
		for {
			var parked []int
			allDone := true
			for id := range state {
				if state[id] == c13Parked {
					parked = append(parked, id)
				}
				if state[id] != c13Done {
					allDone = false
				}
			}
			if allDone {
				break
			}
			// Candidate actions: start the next sender, or release a parked one. In lock mode actions that
			// would leave two senders free to take the same lock (winner chosen by the Go runtime) are
			// avoided whenever another action exists, so that the draws determine the interleaving.
			waiters := func(key string) int {
				c := 0
				for id := range state {
					if state[id] == c13Contending && want[id] == key {
						c++
					}
				}
				return c
			}
			mayWantAgain := func(id int, key string) bool {
				o := ops[id]
				return (o.Kind == "hot" && key == "A" && seg[id]+1 < o.Segs) || (o.Kind == "hotR" && key == "T" && seg[id]+1 < o.Segs)
			}
			canQueue := func(key string) bool { // may one more sender head for this lock?
				h := holder[key]
				return h == -1 || (waiters(key) == 0 && !mayWantAgain(h, key))
			}
			safe := func(start bool, id int) bool {
				if !lock {
					return true
				}
				if start {
					return canQueue(firstKey(ops[id]))
				}
				x := parkedKey[id]
				if waiters(x) > 0 && mayWantAgain(id, x) {
					return false
				}
				switch o := ops[id]; {
				case (o.Kind == "ctlR" || o.Kind == "hotR") && x == "T":
					return canQueue("A")
				case o.Kind == "hotR" && x == "A" && seg[id]+1 < o.Segs:
					return canQueue("T")
				}
				return true
			}
			type c13Act struct {
				start bool
				id    int
			}
			var cands, safeCands []c13Act
			if nextStart < n {
				cands = append(cands, c13Act{true, nextStart})
			}
			for _, id := range parked {
				cands = append(cands, c13Act{false, id})
			}
			for _, c := range cands {
				if safe(c.start, c.id) {
					safeCands = append(safeCands, c)
				}
			}
			if len(safeCands) > 0 {
				cands = safeCands
			}
			if len(cands) == 0 {
				harnessErr = append(harnessErr, "no sender is parked and none can be started, but not all are done")
				break
			}
			pick := 0
			switch {
			case len(cands) == 1:
			case mode == "burst" && cands[0].start:
			case mode == "serial" && cands[0].start:
				// releases first
				pick = 1
				if len(cands) > 2 {
					pick = 1 + rapid.IntRange(0, len(cands)-2).Draw(rt, "release")
				}
			default:
				pick = rapid.IntRange(0, len(cands)-1).Draw(rt, "act")
			}
			doStart := cands[pick].start
			if doStart {
				id := nextStart
				nextStart++
				sched = append(sched, fmt.Sprintf("s%d", id))
				state[id], want[id] = c13Contending, firstKey(ops[id])
				if blocked(id) {
					contended++
				}
				go func() {
					w.h.gids.Store(c13GoroutineID(), id)
					w.run(id, ops[id])
					w.h.ev <- c13Event{w: id, kind: c13EvDone}
				}()
				settle("start")
				continue
			}
			id := cands[pick].id
			sched = append(sched, fmt.Sprintf("r%d", id))
			state[id] = c13Finishing // until its `left` event says where it heads
			w.h.release[id] <- struct{}{}
			settle("release")
		}

		fail, st := w.analyse(ops, lock)
		for _, e := range harnessErr {
			if lock {
				fail = append(fail, "(6) "+e)
			} else {
				fail = append(fail, "harness: "+e)
			}
		}
		// below the ceiling nothing may be refused (keeps the check from passing vacuously)
		total := 0
		for _, o := range ops {
			total += o.expectEmits()
		}
		far := startA+dA < RejectAfterMessages && startT+dT < RejectAfterMessages
		if far && st.emitted != total {
			fail = append(fail, fmt.Sprintf("sanity: all counters stay below the ceiling but %d of %d datagrams were emitted", st.emitted, total))
		}
		desc := fmt.Sprintf("lock=%v chacha=%v startA=%s startT=%s ops=%v schedule=%s", lock, chacha, c13Rel(startA), c13Rel(startT), ops, strings.Join(sched, ","))
		if len(fail) > 0 {
			rt.Fatalf("C13 violated:\n  %s\ncase: %s\nlog: %s", strings.Join(fail, "\n  "), desc, c13LogText(w.h.log))
		}

		refused := int(st.refusedCounter) + st.refusedCipher["A"] + st.refusedCipher["T"]
		crossed := (st.sealed["A"]+st.sealed["T"] > 0) && refused > 0
		nontrivial := maxSame >= 2 || crossed || (lock && contended > 0)
		lab := []string{"mode:" + mode, fmt.Sprintf("lock:%v", lock), fmt.Sprintf("fips:%v", fips140.Enabled()), "startA:" + clsA, "startT:" + clsT}
		if chacha {
			lab = append(lab, "cipher:chacha")
		} else {
			lab = append(lab, "cipher:aesgcm")
		}
		if maxSame >= 2 {
			lab = append(lab, "in-flight-same-key:2+")
		}
		if maxSame >= 4 {
			lab = append(lab, "in-flight-same-key:4+")
		}
		if crossed {
			lab = append(lab, "crossed-ceiling")
		}
		if st.refusedCounter > 0 {
			lab = append(lab, "refused-by-NextMessageCounter")
		}
		if st.refusedCipher["A"]+st.refusedCipher["T"] > 0 {
			lab = append(lab, "refused-by-cipher")
		}
		if lock && contended > 0 {
			lab = append(lab, "lock-contended")
		}
		if handoffRaces > 0 {
			lab = append(lab, "lock-handoff-by-runtime")
		}
		seen := map[string]bool{}
		for _, o := range ops {
			if !seen[o.Kind] {
				seen[o.Kind] = true
				lab = append(lab, "op:"+o.Kind)
			}
			if o.Segs > 1 && !seen["uso"] {
				seen["uso"] = true
				lab = append(lab, "op:superpacket")
			}
		}
		vk.Case(c13PID, desc, nontrivial, lab...)
		if nontrivial && vk.WantSample(c13PID) {
			vk.Sample(c13PID, map[string]any{"kind": "schedule", "case": desc, "log": c13LogText(w.h.log)})
		}
	})
}

func c13Rel(v uint64) string {
	switch {
	case v >= RejectAfterMessages:
		return fmt.Sprintf("ceiling+%d", v-RejectAfterMessages)
	case RejectAfterMessages-v < 1<<20:
		return fmt.Sprintf("ceiling-%d", RejectAfterMessages-v)
	}
	return fmt.Sprint(v)
}

func c13LogText(log []c13LogEntry) string {
	l := append([]c13LogEntry{}, log...)
	sort.Slice(l, func(i, j int) bool { return l[i].seq < l[j].seq })
	var b strings.Builder
	for i, e := range l {
		if i >= 40 {
			fmt.Fprintf(&b, "... (%d more)", len(l)-i)
			break
		}
		r := "sealed"
		if !e.sealed {
			r = "refused"
		}
		if e.panic != "" {
			r = "PANIC"
		}
		fmt.Fprintf(&b, "%s:%s by %d %s; ", e.key, c13Rel(e.n), e.w, r)
	}
	return b.String()
}

// ---- real parallel senders (also the -race part) ------------------------------------------------

func TestC13_Parallel(t *testing.T) {
	c13ModeNote()
	vk.Check(t, 120, func(rt *rapid.T) {
		lock, restore := c13SetLock(rt)
		defer restore()
		chacha := rapid.Bool().Draw(rt, "chacha")
		n := rapid.IntRange(2, 16).Draw(rt, "senders")
		rounds := rapid.IntRange(5, 60).Draw(rt, "rounds")
		// every sender repeats a short generated pattern of operations
		pats := make([][]c13Op, n)
		var all []c13Op
		for i := range pats {
			pats[i] = rapid.SliceOfN(rapid.Custom(c13DrawOp), 1, 4).Draw(rt, "pattern")
			for r := 0; r < rounds; r++ {
				all = append(all, pats[i][r%len(pats[i])])
			}
		}
		dA, dT := c13Demand(all)
		sA, sT := c13DrawStart(rt, "startA", dA), c13DrawStart(rt, "startT", dT)
		startA, clsA, startT, clsT := sA.v, sA.cls, sT.v, sT.cls
		w := c13NewWorld(chacha, sA, sT, n, false)
		for i := 0; i < n; i++ {
			w.h.yield[i] = rapid.SliceOfN(rapid.Uint8Range(0, 3), 0, 5).Draw(rt, "yield")
		}
		var wg sync.WaitGroup
		gun := make(chan struct{})
		for id := 0; id < n; id++ {
			wg.Add(1)
			go func() {
				defer wg.Done()
				<-gun
				for r := 0; r < rounds; r++ {
					w.run(id, pats[id][r%len(pats[id])])
				}
			}()
		}
		close(gun)
		wg.Wait()

		// analyse() works per sender: give it one synthetic op per sender that allows all its rounds
		perSender := make([]c13Op, n)
		total := 0
		for id := range perSender {
			e := 0
			relayed := false
			for r := 0; r < rounds; r++ {
				o := pats[id][r%len(pats[id])]
				e += o.expectEmits()
				relayed = relayed || o.Kind == "ctlR" || o.Kind == "hotR"
			}
			total += e
			perSender[id] = c13Op{Kind: "hot", Segs: e}
			if relayed {
				perSender[id].Kind = "mixR"
			}
		}
		fail, st := w.analyseParallel(perSender, pats, lock)
		far := startA+dA < RejectAfterMessages && startT+dT < RejectAfterMessages
		if far && st.emitted != total {
			fail = append(fail, fmt.Sprintf("sanity: all counters stay below the ceiling but %d of %d datagrams were emitted", st.emitted, total))
		}
		desc := fmt.Sprintf("parallel lock=%v chacha=%v senders=%d rounds=%d startA=%s startT=%s patterns=%v", lock, chacha, n, rounds, c13Rel(startA), c13Rel(startT), pats)
		if len(fail) > 0 {
			if len(fail) > 12 {
				fail = append(fail[:12], fmt.Sprintf("... %d more", len(fail)-12))
			}
			rt.Fatalf("C13 violated:\n  %s\ncase: %s", strings.Join(fail, "\n  "), desc)
		}
		refused := int(st.refusedCounter) + st.refusedCipher["A"] + st.refusedCipher["T"]
		crossed := (st.sealed["A"]+st.sealed["T"] > 0) && refused > 0
		lab := []string{"parallel", fmt.Sprintf("parallel-lock:%v", lock), "parallel-startA:" + clsA, "parallel-startT:" + clsT}
		if crossed {
			lab = append(lab, "parallel-crossed-ceiling")
		}
		if w.gA.maxInside.Load() > 1 || w.gT.maxInside.Load() > 1 {
			lab = append(lab, "parallel-overlap-in-cipher")
		}
		vk.Case(c13PID, desc, true, lab...)
	})
}

// analyseParallel: same oracle as analyse; in the parallel test a sender emits many datagrams, and
// a relay datagram's payload is a T packet only when the sender's pattern has relayed ops AND the
// payload opens as one (SendVia payloads are opaque bytes), so inner packets are claimed when they
// carry T's remote index.
func (w *c13World) analyseParallel(perSender []c13Op, pats [][]c13Op, lock bool) ([]string, c13Stats) {
	// mark senders whose relay datagrams may be opaque SendVia payloads
	ops := make([]c13Op, len(perSender))
	copy(ops, perSender)
	for id := range ops {
		onlyRelayedInner := true
		for _, o := range pats[id] {
			if o.Kind == "via" {
				onlyRelayedInner = false
			}
		}
		if ops[id].Kind == "mixR" {
			if onlyRelayedInner {
				ops[id].Kind = "hotR"
			} else {
				ops[id].Kind = "hot" // mixed via + relayed: inner packets are not claimed (outer relay datagram still is)
			}
		}
	}
	return w.analyse(ops, lock)
}

// ---- hammer: tight loops of real parallel senders ------------------------------------------------

// TestC13_Hammer keeps 4-16 senders in tight loops over the three counter-reserving functions with
// reused buffers, so that reservations on one tunnel collide as often as the hardware allows (the
// window between reserving a counter and writing it into the header is a few instructions wide
// and no harness hook sits inside it). Same oracle.
func TestC13_Hammer(t *testing.T) {
	c13ModeNote()
	vk.Check(t, 12, func(rt *rapid.T) {
		lock, restore := c13SetLock(rt)
		defer restore()
		chacha := rapid.Bool().Draw(rt, "chacha")
		n := rapid.IntRange(4, 16).Draw(rt, "senders")
		rounds := rapid.IntRange(400, 2500).Draw(rt, "rounds")
		pats := make([][]string, n)
		for i := range pats {
			pats[i] = rapid.SliceOfN(rapid.SampledFrom([]string{"hot", "hot", "hot", "ctl", "via", "viaShort", "rebind"}), 1, 3).Draw(rt, "pattern")
		}
		demand := uint64(n * rounds)
		sA := c13DrawStart(rt, "startA", demand)
		w := c13NewWorld(chacha, sA, c13Start{v: 2, hs: 2}, n, false)
		var wg sync.WaitGroup
		var refusedShort atomic.Int64
		gun := make(chan struct{})
		for id := 0; id < n; id++ {
			wg.Add(1)
			go func() {
				defer wg.Done()
				nb, c := w.nbs[id], w.conns[id]
				tiny := make([]byte, 0, header.Len+8) // too small for header + payload + tag: the refused-relay-send path
				seg := c13TunPacket(1, 8+id).Bytes
				scratch := make([]byte, header.Len+len(seg)+16)
				out := make([]byte, 0, 256)
				ad := []byte("relayed-payload")
				<-gun
				for r := 0; r < rounds; r++ {
					switch pats[id][r%len(pats[id])] {
					case "hot":
						if p := w.f.sendInsideEncrypt(w.hA, w.ciA, seg, scratch, nb); p != nil {
							c.pkts = append(c.pkts, append([]byte{}, p...))
						}
					case "ctl":
						w.f.sendNoMetrics(header.Test, header.TestRequest, w.ciA, w.hA, w.directRemote, ad, nb, out[:0], id)
					case "rebind":
						// the underlay socket was rebound: the next control send on the tunnel takes the
						// "tell the lighthouse" branch, with its counter already reserved
						w.f.rebindCount.Add(1)
						w.f.sendNoMetrics(header.Test, header.TestRequest, w.ciA, w.hA, w.directRemote, ad, nb, out[:0], id)
					case "via":
						if p, err := w.f.prepareSendVia(w.hA, w.relay, ad, nb, out[:0], false); err == nil {
							c.pkts = append(c.pkts, append([]byte{}, p...))
						}
					case "viaShort":
						// a relay send refused for lack of buffer space reserves a counter and seals nothing
						if p, err := w.f.prepareSendVia(w.hA, w.relay, ad, nb, tiny[:0], false); err == nil {
							c.pkts = append(c.pkts, append([]byte{}, p...))
						} else {
							refusedShort.Add(1)
						}
					}
				}
			}()
		}
		close(gun)
		wg.Wait()
		per := make([]c13Op, n)
		for id := range per {
			per[id] = c13Op{Kind: "hot", Segs: rounds}
		}
		fail, st := w.analyse(per, lock)
		if want := n*rounds - int(refusedShort.Load()); sA.v+demand < RejectAfterMessages && st.emitted != want {
			fail = append(fail, fmt.Sprintf("sanity: all counters stay below the ceiling but %d of %d datagrams were emitted", st.emitted, want))
		}
		desc := fmt.Sprintf("hammer lock=%v chacha=%v senders=%d rounds=%d startA=%s patterns=%v", lock, chacha, n, rounds, c13Rel(sA.v), pats)
		if len(fail) > 0 {
			if len(fail) > 12 {
				fail = append(fail[:12], fmt.Sprintf("... %d more", len(fail)-12))
			}
			rt.Fatalf("C13 violated:\n  %s\ncase: %s", strings.Join(fail, "\n  "), desc)
		}
		lab := []string{"hammer", fmt.Sprintf("hammer-lock:%v", lock), "hammer-startA:" + sA.cls}
		if w.gA.maxInside.Load() > 1 {
			lab = append(lab, "hammer-overlap-in-cipher")
		}
		if st.sealed["A"] > 0 && int(st.refusedCounter)+st.refusedCipher["A"] > 0 {
			lab = append(lab, "hammer-crossed-ceiling")
		}
		vk.Case(c13PID, desc, true, lab...)
	})
}

// TestC13_RebindQueryUnderNonceLock: with the nonce-order lock in force (FIPS AEAD), a control send that
// takes the "underlay was rebound, tell the lighthouse" branch has its counter reserved already. The
// lighthouse query may block (its queue is bounded); the harness makes it block on purpose and lets a
// second sender run on the same tunnel meanwhile. Whatever happens, the cipher must see the counters
// of that tunnel in increasing order. Deterministic staging of what the hammer only hits by chance.
func TestC13_RebindQueryUnderNonceLock(t *testing.T) {
	c13ModeNote()
	vk.Check(t, 40, func(rt *rapid.T) {
		old := noiseutil.EncryptLockNeeded
		noiseutil.EncryptLockNeeded = true
		defer func() { noiseutil.EncryptLockNeeded = old }()
		chacha := rapid.Bool().Draw(rt, "chacha")
		sA := c13DrawStart(rt, "startA", 16)
		w := c13NewWorld(chacha, sA, c13Start{v: 2, hs: 2}, 2, false)
		lh := &LightHouse{queryChan: make(chan netip.Addr)} // unbuffered: the query blocks until somebody takes it
		lh.lighthouses.Store(&[]netip.Addr{})
		w.f.lightHouse = lh
		second := rapid.SampledFrom([]string{"hot", "ctl", "via"}).Draw(rt, "secondSender")
		w.f.rebindCount.Add(1)
		var wg sync.WaitGroup
		wg.Add(2)
		ad := []byte("payload")
		go func() {
			defer wg.Done()
			w.f.sendNoMetrics(header.Test, header.TestRequest, w.ciA, w.hA, w.directRemote, ad, w.nbs[0], make([]byte, 0, 256), 0)
		}()
		time.Sleep(2 * time.Millisecond) // the first sender is inside the branch, blocked in QueryServer
		go func() {
			defer wg.Done()
			switch second {
			case "hot":
				seg := c13TunPacket(1, 9).Bytes
				w.f.sendInsideEncrypt(w.hA, w.ciA, seg, make([]byte, header.Len+len(seg)+16), w.nbs[1])
			case "ctl":
				// another control send: it also sees the rebind and queues its own query
				w.f.sendNoMetrics(header.Test, header.TestReply, w.ciA, w.hA, w.directRemote, ad, w.nbs[1], make([]byte, 0, 256), 1)
			case "via":
				_, _ = w.f.prepareSendVia(w.hA, w.relay, ad, w.nbs[1], make([]byte, 0, 256), false)
			}
		}()
		time.Sleep(2 * time.Millisecond)
		// the lighthouse worker finally takes the queries
		done := make(chan struct{})
		go func() { wg.Wait(); close(done) }()
		for released := false; !released; {
			select {
			case <-lh.queryChan:
			case <-done:
				released = true
			case <-time.After(5 * time.Second):
				rt.Fatalf("harness: senders did not finish")
			}
		}
		w.h.mu.Lock()
		log := append([]c13LogEntry{}, w.h.log...)
		w.h.mu.Unlock()
		var last uint64
		for i, e := range log {
			if e.key != "A" {
				continue
			}
			if i > 0 && e.n <= last {
				rt.Fatalf("C13: with the nonce-order lock in force the cipher of one tunnel saw counter %d after counter %d (second sender: %s); a send that had reserved its counter let another one overtake it while it was asking the lighthouse after a rebind", e.n, last, second)
			}
			last = e.n
		}
		vk.Case(c13PID, fmt.Sprintf("rebind-query/%v/%s/%s", chacha, c13Rel(sA.v), second), len(log) >= 2, "rebind-query-blocked-under-nonce-lock", "second:"+second)
	})
}
