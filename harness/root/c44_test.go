package nebula

// C44 (unit level) - the DNS responder answers only from authenticated data.
//
// A dnsServer is built through newDnsServerFromConfig over a PKI holding a generated own
// certificate; a generated handshake history is applied through HostMap.unlockedAddHostInfo (the
// only production path that feeds the responder); generated query messages (packed to the wire
// format and unpacked again, as the server would see them) go to handleDnsRequest with a
// recording ResponseWriter whose remote address is loopback / own overlay address / a peer's
// overlay address / a neighbour inside the own network / foreign.
//
// Reference zone: built only from the completed handshakes and the own certificate. Oracle (no
// more than the statement):
//   - every A/AAAA answer is (name, address) of the zone (name compared case-insensitively), of the
//     right family, and belongs to a question echoed in the response (the responder echoes and
//     processes only the first question of a message, as miekg's SetReply does; the oracle judges
//     a response against the questions it echoes); no other record types but TXT appear;
//   - a response echoing a question for a known name is never NXDOMAIN and carries no record for a type the
//     name lacks (so "known name, other type" is NOERROR with an empty answer);
//   - TXT (certificate details) records appear only for loopback clients or clients at an own
//     overlay address and describe the certificate of the tunnel that currently holds the address
//     (or the own certificate).
// Completeness ("a known A record must be answered") is not part of the statement and is only
// recorded as a label.

import (
	"context"
	"fmt"
	"io"
	"log/slog"
	"net"
	"net/netip"
	"strings"
	"sync"
	"testing"
	"time"

	"github.com/gaissmai/bart"
	"github.com/miekg/dns"
	"github.com/slackhq/nebula/cert"
	"github.com/slackhq/nebula/cert_test"
	"github.com/slackhq/nebula/config"
	"pgregory.net/rapid"
	"verifkit/vk"
)

const c44KeyOtherType = "known-name-other-type-nxdomain"

var (
	c44CAOnce sync.Once
	c44CA     cert.Certificate
	c44CAKey  []byte
)

func c44Authority() (cert.Certificate, []byte) {
	c44CAOnce.Do(func() {
		c44CA, _, c44CAKey, _ = cert_test.NewTestCaCert(cert.Version2, cert.Curve_CURVE25519, time.Time{}, time.Time{}, nil, nil, nil)
	})
	return c44CA, c44CAKey
}

type c44Writer struct {
	remote net.Addr
	msgs   []*dns.Msg
}

func (w *c44Writer) LocalAddr() net.Addr       { return &net.UDPAddr{IP: net.IPv4(127, 0, 0, 1), Port: 53} }
func (w *c44Writer) RemoteAddr() net.Addr      { return w.remote }
func (w *c44Writer) Write([]byte) (int, error) { return 0, nil }
func (w *c44Writer) WriteMsg(m *dns.Msg) error { w.msgs = append(w.msgs, m); return nil }
func (w *c44Writer) Close() error              { return nil }
func (w *c44Writer) TsigStatus() error         { return nil }
func (w *c44Writer) TsigTimersOnly(bool)       {}
func (w *c44Writer) Hijack()                   {}

var c44Labels = []string{"web", "DB", "Host1", "host1", "a", "lighthouse", "Mail-2", "x9", "EXAMPLE", "corp", "n"}

func c44GenName(rt *rapid.T, tag string) string {
	n := rapid.IntRange(1, 3).Draw(rt, tag+".labels")
	var ls []string
	for i := 0; i < n; i++ {
		ls = append(ls, rapid.SampledFrom(c44Labels).Draw(rt, tag+".label"))
	}
	return strings.Join(ls, ".")
}

func c44FlipCase(rt *rapid.T, s string) string {
	mode := rapid.IntRange(0, 3).Draw(rt, "case.mode")
	switch mode {
	case 0:
		return s
	case 1:
		return strings.ToUpper(s)
	case 2:
		return strings.ToLower(s)
	}
	b := []byte(s)
	mask := rapid.Uint64().Draw(rt, "case.mask")
	for i := range b {
		if mask>>(uint(i)%64)&1 == 1 {
			switch {
			case b[i] >= 'a' && b[i] <= 'z':
				b[i] -= 32
			case b[i] >= 'A' && b[i] <= 'Z':
				b[i] += 32
			}
		}
	}
	return string(b)
}

// small address universe so that peers collide with each other and queries hit
func c44GenAddr(rt *rapid.T, tag string, v4 bool) netip.Addr {
	k := byte(rapid.IntRange(1, 12).Draw(rt, tag))
	if v4 {
		return netip.AddrFrom4([4]byte{10, 7, 0, k})
	}
	return netip.AddrFrom16([16]byte{0xfd, 0, 0, 7, 0, 0, 0, 0, 0, 0, 0, 0, 0, 0, 0, k})
}

type c44Peer struct {
	Name  string
	Addrs []netip.Addr
	Cert  cert.Certificate
	JSON  string
}

func c44MakeCert(name string, addrs []netip.Addr) (cert.Certificate, string) {
	ca, key := c44Authority()
	var nets []netip.Prefix
	for _, a := range addrs {
		bits := 24
		if a.Is6() {
			bits = 64
		}
		nets = append(nets, netip.PrefixFrom(a, bits))
	}
	c, _, privPEM, _ := cert_test.NewTestCert(cert.Version2, cert.Curve_CURVE25519, ca, key, name, time.Time{}, time.Time{}, nets, nil, nil)
	b, err := c.MarshalJSON()
	if err != nil {
		panic(err)
	}
	c44KeyOf[c] = privPEM
	return c, string(b)
}

// c44KeyOf remembers the private key of every certificate made here, so that the node's own
// certificate state can be built by the production constructor (all address/network tables filled
// exactly as in a running node) instead of by hand.
var c44KeyOf = map[cert.Certificate][]byte{}

func c44CertState(c cert.Certificate) *CertState {
	raw, _, curve, err := cert.UnmarshalPrivateKeyFromPEM(c44KeyOf[c])
	if err != nil {
		panic(err)
	}
	cs, err := newCertState(cert.Version2, nil, c, false, curve, raw, "aes")
	if err != nil {
		panic(err)
	}
	return cs
}

func c44GenAddrs(rt *rapid.T, tag string, avoid map[netip.Addr]bool) []netip.Addr {
	shape := rapid.SampledFrom([]string{"4", "6", "46", "64", "44", "66", "446", "664"}).Draw(rt, tag+".shape")
	var out []netip.Addr
	seen := map[netip.Addr]bool{}
	for _, ch := range shape {
		for try := 0; try < 20; try++ {
			a := c44GenAddr(rt, tag+".addr", ch == '4')
			if !avoid[a] && !seen[a] {
				seen[a] = true
				out = append(out, a)
				break
			}
		}
	}
	return out
}

// normalise a TXT payload / certificate JSON for comparison: the zone-file parser used by
// dns.NewRR strips quotes and splits on blanks, so compare without quotes, backslashes and blanks.
func c44Norm(s string) string {
	return strings.NewReplacer(`"`, "", `\`, "", " ", "").Replace(s)
}

type c44World struct {
	enabled   bool
	ownName   string
	ownAddrs  []netip.Addr
	ownJSON   string
	ds        *dnsServer
	known     map[string]bool                // lower-case fqdn
	zone      map[string]map[netip.Addr]bool // lower-case fqdn -> addresses ever authenticated under that name
	holder    map[netip.Addr]string          // overlay address -> JSON of the certificate of the tunnel now holding it
	peerAddrs []netip.Addr
	neverSeen []string // names of certificates that never completed a handshake
	pki       *PKI
	cfg       *config.C
	peerNames map[string]bool // lower-case fqdn of every peer that completed a handshake
	former    []string        // names this node's certificate carried before a renewal
	fuzzy     map[string]bool // former own names that a peer shares: the responder drops the shared entry, nothing is asserted about known-ness
	running   bool
}

func c44Build(rt *rapid.T) *c44World {
	w := &c44World{known: map[string]bool{}, zone: map[string]map[netip.Addr]bool{}, holder: map[netip.Addr]string{}, peerNames: map[string]bool{}, fuzzy: map[string]bool{}}
	l := slog.New(slog.NewTextHandler(io.Discard, nil))
	w.enabled = rapid.IntRange(0, 9).Draw(rt, "enabled") != 0
	w.ownName = c44GenName(rt, "own")
	w.ownAddrs = c44GenAddrs(rt, "own", nil)
	ownCert, ownJSON := c44MakeCert(w.ownName, w.ownAddrs)
	w.ownJSON = ownJSON

	own := map[netip.Addr]bool{}
	tbl := new(bart.Lite)
	for _, a := range w.ownAddrs {
		own[a] = true
		tbl.Insert(netip.PrefixFrom(a, a.BitLen()))
	}
	_ = tbl
	cs := c44CertState(ownCert)
	pki := &PKI{}
	pki.cs.Store(cs)

	c := config.NewC(l)
	c.Settings["lighthouse"] = map[string]any{"am_lighthouse": true, "serve_dns": w.enabled, "dns": map[string]any{"host": "127.0.0.1", "port": 0}}
	hm := newHostMap(l)
	ds, err := newDnsServerFromConfig(context.Background(), l, pki, hm, c)
	if err != nil {
		rt.Fatalf("harness: newDnsServerFromConfig: %v", err)
	}
	w.ds, w.pki, w.cfg = ds, pki, c
	f := &Interface{dnsServer: ds, hostMap: hm, l: l}

	add := func(name string, addrs []netip.Addr) {
		if !w.enabled {
			return
		}
		k := strings.ToLower(name) + "."
		w.known[k] = true
		if w.zone[k] == nil {
			w.zone[k] = map[netip.Addr]bool{}
		}
		for _, a := range addrs {
			w.zone[k][a] = true
		}
	}
	add(w.ownName, w.ownAddrs)

	n := rapid.IntRange(0, 5).Draw(rt, "npeers")
	uses := map[netip.Addr]int{}
	for i := 0; i < n; i++ {
		name := c44GenName(rt, "peer")
		if rapid.IntRange(0, 5).Draw(rt, "peer.sameAsOwn") == 0 {
			name = c44FlipCase(rt, w.ownName)
		}
		avoid := map[netip.Addr]bool{}
		for a := range own {
			avoid[a] = true
		}
		for a, k := range uses {
			if k >= MaxHostInfosPerVpnIp-1 {
				avoid[a] = true
			}
		}
		addrs := c44GenAddrs(rt, "peer", avoid)
		if len(addrs) == 0 {
			continue
		}
		pc, js := c44MakeCert(name, addrs)
		if rapid.IntRange(0, 4).Draw(rt, "peer.handshakes") == 0 {
			// certificate exists but the handshake never completes
			w.neverSeen = append(w.neverSeen, name)
			continue
		}
		hi := &HostInfo{
			ConnectionState: &ConnectionState{peerCert: &cert.CachedCertificate{Certificate: pc}},
			vpnAddrs:        addrs,
			localIndexId:    uint32(1000 + i),
			remoteIndexId:   uint32(2000 + i),
		}
		hm.Lock()
		hm.unlockedAddHostInfo(hi, f)
		hm.Unlock()
		add(name, addrs)
		w.peerNames[strings.ToLower(name)+"."] = true
		for _, a := range addrs {
			uses[a]++
			w.holder[a] = js
			w.peerAddrs = append(w.peerAddrs, a)
		}
	}
	return w
}

// renew replaces the node's certificate by one with another name and the same networks (which a PKI
// reload accepts) and reloads the configuration, as a SIGHUP after a certificate renewal does. The
// listener is brought up first (on an ephemeral loopback port) so that the reload is the
// "running, same address" path and starts nothing itself.
func (w *c44World) renew(rt *rapid.T) {
	if w.enabled && !w.running {
		go w.ds.Start()
		for i := 0; ; i++ {
			w.ds.serverMu.Lock()
			up := w.ds.server != nil
			w.ds.serverMu.Unlock()
			if up {
				break
			}
			if i > 5000 {
				rt.Fatalf("harness: the DNS listener did not come up")
			}
			time.Sleep(time.Millisecond)
		}
		w.running = true
	}
	newName := c44GenName(rt, "renew")
	switch rapid.IntRange(0, 5).Draw(rt, "renew.kind") {
	case 0:
		newName = c44FlipCase(rt, w.ownName) // same name for DNS purposes
	case 1:
		if len(w.former) > 0 {
			newName = rapid.SampledFrom(w.former).Draw(rt, "renew.back") // back to an earlier name
		}
	}
	nc, js := c44MakeCert(newName, w.ownAddrs)
	w.pki.cs.Store(c44CertState(nc))
	if err := w.ds.reload(w.cfg, false); err != nil {
		rt.Fatalf("harness: dns reload: %v", err)
	}
	oldK, newK := strings.ToLower(w.ownName)+".", strings.ToLower(newName)+"."
	if w.enabled && oldK != newK {
		if w.peerNames[oldK] {
			w.fuzzy[oldK] = true
		} else {
			delete(w.known, oldK)
		}
		for _, a := range w.ownAddrs {
			delete(w.zone[oldK], a)
		}
		w.former = append(w.former, w.ownName)
	}
	if w.enabled {
		delete(w.fuzzy, newK)
		w.known[newK] = true
		if w.zone[newK] == nil {
			w.zone[newK] = map[netip.Addr]bool{}
		}
		for _, a := range w.ownAddrs {
			w.zone[newK][a] = true
		}
	}
	w.ownName, w.ownJSON = newName, js
}

func (w *c44World) stop() {
	if w.running {
		w.ds.Stop()
		w.running = false
	}
}

var c44OtherTypes = []uint16{dns.TypeMX, dns.TypeANY, dns.TypeCNAME, dns.TypeSRV, dns.TypePTR, dns.TypeNS, dns.TypeSOA, dns.TypeHTTPS, 65280}

type c44Q struct {
	Name  string
	Type  uint16
	Class string // known | unknown | neverseen | ip-own | ip-peer | ip-unknown | junk
}

func (w *c44World) genQuestion(rt *rapid.T) c44Q {
	var q c44Q
	tk := rapid.SampledFrom([]string{"A", "A", "AAAA", "AAAA", "TXT", "TXT", "other", "other"}).Draw(rt, "q.type")
	switch tk {
	case "A":
		q.Type = dns.TypeA
	case "AAAA":
		q.Type = dns.TypeAAAA
	case "TXT":
		q.Type = dns.TypeTXT
	default:
		q.Type = rapid.SampledFrom(c44OtherTypes).Draw(rt, "q.other")
	}
	kinds := []string{"known", "known", "known", "unknown", "neverseen"}
	if len(w.former) > 0 {
		kinds = append(kinds, "former-own", "former-own", "former-own")
	}
	if q.Type == dns.TypeTXT {
		kinds = []string{"known", "ip-own", "ip-peer", "ip-peer", "ip-unknown", "junk", "unknown"}
	} else if rapid.IntRange(0, 9).Draw(rt, "q.ipname") == 0 {
		kinds = []string{"ip-own", "ip-peer"}
	}
	q.Class = rapid.SampledFrom(kinds).Draw(rt, "q.class")
	switch q.Class {
	case "known":
		var names []string
		names = append(names, w.ownName)
		for k := range w.zone {
			names = append(names, strings.TrimSuffix(k, "."))
		}
		// deterministic order: no dependence on map iteration
		sortStrings(names)
		q.Name = c44FlipCase(rt, rapid.SampledFrom(names).Draw(rt, "q.known")) + "."
	case "former-own":
		q.Name = c44FlipCase(rt, rapid.SampledFrom(w.former).Draw(rt, "q.former")) + "."
	case "neverseen":
		if len(w.neverSeen) > 0 {
			q.Name = c44FlipCase(rt, rapid.SampledFrom(w.neverSeen).Draw(rt, "q.never")) + "."
		} else {
			q.Name = "nobody." + c44GenName(rt, "q.unk") + "."
		}
	case "unknown":
		q.Name = rapid.SampledFrom([]string{"zz.", "unknown.example.", "web.web.web.web."}).Draw(rt, "q.unkfix")
		if rapid.Bool().Draw(rt, "q.unkgen") {
			q.Name = c44GenName(rt, "q.unk") + ".invalid."
		}
	case "ip-own":
		q.Name = rapid.SampledFrom(w.ownAddrs).Draw(rt, "q.ipown").String() + "."
	case "ip-peer":
		if len(w.peerAddrs) > 0 {
			q.Name = rapid.SampledFrom(w.peerAddrs).Draw(rt, "q.ippeer").String() + "."
		} else {
			q.Name = "10.7.0.200."
		}
	case "ip-unknown":
		q.Name = rapid.SampledFrom([]string{"10.7.0.200.", "192.0.2.1.", "fd00:0:0:7::c8."}).Draw(rt, "q.ipunk")
	case "junk":
		q.Name = rapid.SampledFrom([]string{".", "1.", "10.7.0.", "10.7.0.1.2.", "::.", "x.y."}).Draw(rt, "q.junk")
	}
	return q
}

func sortStrings(s []string) {
	for i := 1; i < len(s); i++ {
		for j := i; j > 0 && s[j] < s[j-1]; j-- {
			s[j], s[j-1] = s[j-1], s[j]
		}
	}
}

func (w *c44World) genClient(rt *rapid.T) (net.Addr, string, bool) {
	kind := rapid.SampledFrom([]string{"loopback", "own", "own", "peer", "peer", "neighbour", "foreign"}).Draw(rt, "client")
	var ip netip.Addr
	switch kind {
	case "loopback":
		ip = netip.MustParseAddr(rapid.SampledFrom([]string{"127.0.0.1", "127.8.9.10", "::1"}).Draw(rt, "client.lo"))
	case "own":
		ip = rapid.SampledFrom(w.ownAddrs).Draw(rt, "client.own")
	case "peer":
		if len(w.peerAddrs) > 0 {
			ip = rapid.SampledFrom(w.peerAddrs).Draw(rt, "client.peer")
		} else {
			ip, kind = netip.MustParseAddr("10.7.0.77"), "neighbour"
		}
	case "neighbour": // inside the own overlay network, but neither the own address nor a tunnel
		ip = netip.MustParseAddr(rapid.SampledFrom([]string{"10.7.0.77", "10.7.0.0", "10.7.0.255", "fd00:0:0:7::4d"}).Draw(rt, "client.nb"))
	default:
		ip = netip.MustParseAddr(rapid.SampledFrom([]string{"192.0.2.9", "8.8.8.8", "2001:db8::9", "128.0.0.1", "0.0.0.0"}).Draw(rt, "client.foreign"))
	}
	authorised := ip.IsLoopback()
	for _, a := range w.ownAddrs {
		if a == ip {
			authorised = true
		}
	}
	port := rapid.IntRange(1, 65535).Draw(rt, "client.port")
	return &net.UDPAddr{IP: net.IP(ip.AsSlice()), Port: port}, kind, authorised
}

// c44Ask sends one query message and returns what would go on the wire (nil if nothing usable).
func c44Ask(rt *rapid.T, ds *dnsServer, req *dns.Msg, client net.Addr) *dns.Msg {
	wire, err := req.Pack()
	if err != nil {
		rt.Fatalf("harness: cannot pack query %v: %v", req, err)
	}
	seen := new(dns.Msg)
	if err := seen.Unpack(wire); err != nil {
		rt.Fatalf("harness: cannot unpack query: %v", err)
	}
	wr := &c44Writer{remote: client}
	ds.handleDnsRequest(wr, seen)
	if len(wr.msgs) != 1 {
		rt.Fatalf("responder wrote %d messages for one query", len(wr.msgs))
	}
	out, err := wr.msgs[0].Pack()
	if err != nil {
		return nil // the real server would fail to send; nothing reaches the client
	}
	resp := new(dns.Msg)
	if err := resp.Unpack(out); err != nil {
		rt.Fatalf("responder produced an undecodable message: %v", err)
	}
	return resp
}

func TestC44_Responder(t *testing.T) {
	vk.Check(t, 12000, func(rt *rapid.T) {
		w := c44Build(rt)
		defer w.stop()
		renews := rapid.IntRange(0, 3).Draw(rt, "renewing") == 0
		nmsg := rapid.IntRange(1, 8).Draw(rt, "nmsgs")
		for mi := 0; mi < nmsg; mi++ {
			if renews && rapid.IntRange(0, 2).Draw(rt, "renewNow") == 0 {
				w.renew(rt)
				vk.Label("C44", "own-certificate-renewed-under-another-name")
			}
			c44OneMessage(rt, w)
		}
	})
}

func c44OneMessage(rt *rapid.T, w *c44World) {
	nq := rapid.SampledFrom([]int{1, 1, 1, 2, 2, 3}).Draw(rt, "nq")
	req := new(dns.Msg)
	req.Id = uint16(rapid.IntRange(0, 65535).Draw(rt, "id"))
	req.RecursionDesired = rapid.Bool().Draw(rt, "rd")
	if rapid.IntRange(0, 29).Draw(rt, "opcode.odd") == 0 {
		req.Opcode = rapid.SampledFrom([]int{dns.OpcodeNotify, dns.OpcodeUpdate, dns.OpcodeStatus}).Draw(rt, "opcode")
	}
	var qs []c44Q
	for i := 0; i < nq; i++ {
		q := w.genQuestion(rt)
		qs = append(qs, q)
		req.Question = append(req.Question, dns.Question{Name: q.Name, Qtype: q.Type, Qclass: dns.ClassINET})
	}
	client, clientKind, authorised := w.genClient(rt)

	resp := c44Ask(rt, w.ds, req, client)
	labels := []string{"client-" + clientKind, fmt.Sprintf("questions-%d", nq), map[bool]string{true: "enabled", false: "disabled"}[w.enabled]}
	desc := fmt.Sprintf("own=%s%v enabled=%v client=%v questions=%v", w.ownName, w.ownAddrs, w.enabled, client, qs)

	// non-triviality is a property of the generated message
	reqKnown, reqUnknown, reqKnownOther := false, false, false
	for _, q := range qs {
		if w.known[strings.ToLower(q.Name)] {
			reqKnown = true
			if q.Type != dns.TypeA && q.Type != dns.TypeAAAA {
				reqKnownOther = true
			}
		} else {
			reqUnknown = true
		}
	}
	nontrivial := (reqKnown && reqUnknown) || reqKnownOther

	// The response answers the questions it echoes (the responder, like every DNS server in practice,
	// echoes and processes only the first question of a multi-question message): the oracle is
	// applied to the echoed questions, which must come from the request.
	var eff []c44Q
	if resp != nil {
		for _, rq := range resp.Question {
			found := false
			for _, q := range qs {
				if q.Name == rq.Name && q.Type == rq.Qtype {
					eff = append(eff, q)
					found = true
					break
				}
			}
			if !found {
				rt.Fatalf("response echoes question %v that was not asked; %s", rq, desc)
			}
		}
		labels = append(labels, fmt.Sprintf("echoed-%d", len(eff)))
	}

	// classification of the echoed questions against the reference zone
	anyKnown, knownAddrQ, knownOtherQ := false, false, false
	for _, q := range eff {
		k := w.known[strings.ToLower(q.Name)]
		tn := dns.TypeToString[q.Type]
		if q.Type != dns.TypeA && q.Type != dns.TypeAAAA && q.Type != dns.TypeTXT {
			tn = "other"
		}
		labels = append(labels, "q-"+tn+"-"+q.Class)
		if k {
			anyKnown = true
			if q.Type == dns.TypeA || q.Type == dns.TypeAAAA {
				knownAddrQ = true
			} else {
				knownOtherQ = true
				labels = append(labels, "known-name-"+tn)
			}
		}
	}

	// recorded finding: every echoed question that names a known name asks for a type other than
	// A/AAAA (the class is defined by the input, not by the outcome)
	if req.Opcode == dns.OpcodeQuery && knownOtherQ && !knownAddrQ && vk.KnownOpen("C44", c44KeyOtherType) {
		vk.Excluded("C44", c44KeyOtherType)
		return
	}

	key := fmt.Sprintf("%v|%v|%s|%v|%v", w.enabled, authorised, clientKind, qs, w.zoneKey(qs))
	if resp == nil {
		vk.Case("C44", key, nontrivial, append(labels, "response-unpackable")...)
		return
	}
	if resp.Rcode == dns.RcodeNameError {
		labels = append(labels, "rcode-nxdomain")
	} else {
		labels = append(labels, "rcode-"+dns.RcodeToString[resp.Rcode])
	}
	for _, q := range eff {
		if q.Type == dns.TypeTXT && req.Opcode == dns.OpcodeQuery {
			switch {
			case len(resp.Answer) > 0:
				labels = append(labels, "txt-answered-"+clientKind)
			case !authorised:
				labels = append(labels, "txt-unauthorised-silent")
			default:
				labels = append(labels, "txt-authorised-empty")
			}
		}
	}
	if len(resp.Answer) > 0 {
		labels = append(labels, "answered")
	} else if resp.Rcode == dns.RcodeSuccess && anyKnown {
		labels = append(labels, "nodata")
	}
	vk.Case("C44", key, nontrivial, labels...)
	if vk.WantSample("C44") && nontrivial {
		vk.Sample("C44", map[string]any{"case": desc, "rcode": dns.RcodeToString[resp.Rcode], "answers": len(resp.Answer)})
	}

	if !resp.Response || resp.Id != req.Id {
		rt.Fatalf("not a response to the query (id %d/%d, qr=%v); %s", resp.Id, req.Id, resp.Response, desc)
	}
	if req.Opcode != dns.OpcodeQuery {
		if len(resp.Answer) != 0 {
			rt.Fatalf("answer records for opcode %d; %s", req.Opcode, desc)
		}
		return
	}

	// NXDOMAIN only for unknown names / NODATA for a known name lacking the type
	fuzzyAsked := false
	for _, q := range eff {
		if w.fuzzy[strings.ToLower(q.Name)] {
			fuzzyAsked = true
		}
	}
	if anyKnown && !fuzzyAsked && resp.Rcode != dns.RcodeSuccess {
		rt.Fatalf("message naming a known name answered with rcode %s (answers %d); %s", dns.RcodeToString[resp.Rcode], len(resp.Answer), desc)
	}

	for _, rr := range resp.Answer {
		h := rr.Header()
		lname := strings.ToLower(h.Name)
		switch r := rr.(type) {
		case *dns.A, *dns.AAAA:
			var addr netip.Addr
			if a, ok := r.(*dns.A); ok {
				addr, _ = netip.AddrFromSlice(a.A.To4())
			} else {
				addr, _ = netip.AddrFromSlice(r.(*dns.AAAA).AAAA.To16())
			}
			if (h.Rrtype == dns.TypeA) != addr.Is4() {
				rt.Fatalf("record %v has the wrong family; %s", rr, desc)
			}
			if !w.zone[lname][addr] {
				rt.Fatalf("answer %v is not (name, address) of a certificate that completed a handshake (zone for that name: %v); %s", rr, w.zone[lname], desc)
			}
			asked := false
			for _, q := range eff {
				if strings.EqualFold(q.Name, h.Name) && q.Type == h.Rrtype {
					asked = true
				}
			}
			if !asked {
				rt.Fatalf("answer %v matches no echoed question; %s", rr, desc)
			}
		case *dns.TXT:
			if !authorised {
				rt.Fatalf("certificate details %v sent to a client that is neither loopback nor an own overlay address; %s", rr, desc)
			}
			ip, err := netip.ParseAddr(strings.TrimSuffix(h.Name, "."))
			if err != nil {
				rt.Fatalf("TXT answer for a name that is not an address: %v; %s", rr, desc)
			}
			want, ok := w.holder[ip]
			for _, a := range w.ownAddrs {
				if a == ip {
					want, ok = w.ownJSON, true
				}
			}
			got := c44Norm(strings.Join(r.Txt, ""))
			if !ok || got != c44Norm(want) {
				rt.Fatalf("TXT answer for %v is %q, certificate of the tunnel holding it is %q; %s", ip, got, c44Norm(want), desc)
			}
			asked := false
			for _, q := range eff {
				if strings.EqualFold(q.Name, h.Name) && q.Type == dns.TypeTXT {
					asked = true
				}
			}
			if !asked {
				rt.Fatalf("answer %v matches no echoed question; %s", rr, desc)
			}
		default:
			rt.Fatalf("record %v of a type the zone cannot contain; %s", rr, desc)
		}
	}
	if len(resp.Ns) != 0 || len(resp.Extra) != 0 {
		rt.Fatalf("unexpected authority/additional records %v %v; %s", resp.Ns, resp.Extra, desc)
	}
}

// zoneKey summarises what the zone says about the asked names (part of the distinctness key).
func (w *c44World) zoneKey(qs []c44Q) string {
	var sb strings.Builder
	for _, q := range qs {
		z := w.zone[strings.ToLower(q.Name)]
		v4, v6 := 0, 0
		for a := range z {
			if a.Is4() {
				v4++
			} else {
				v6++
			}
		}
		fmt.Fprintf(&sb, "%d/%d;", v4, v6)
	}
	return sb.String()
}

func TestC44_Probe_known_name_other_type_nxdomain(t *testing.T) {
	defer vk.Flush()
	l := slog.New(slog.NewTextHandler(io.Discard, nil))
	own := []netip.Addr{netip.MustParseAddr("10.7.0.1")}
	oc, _ := c44MakeCert("lh", own)
	tbl := new(bart.Lite)
	tbl.Insert(netip.PrefixFrom(own[0], 32))
	pki := &PKI{}
	_ = tbl
	pki.cs.Store(c44CertState(oc))
	c := config.NewC(l)
	c.Settings["lighthouse"] = map[string]any{"am_lighthouse": true, "serve_dns": true}
	hm := newHostMap(l)
	ds, err := newDnsServerFromConfig(context.Background(), l, pki, hm, c)
	if err != nil {
		t.Fatal(err)
	}
	pa := []netip.Addr{netip.MustParseAddr("10.7.0.2")}
	pc, _ := c44MakeCert("web", pa)
	hm.Lock()
	hm.unlockedAddHostInfo(&HostInfo{ConnectionState: &ConnectionState{peerCert: &cert.CachedCertificate{Certificate: pc}}, vpnAddrs: pa, localIndexId: 1, remoteIndexId: 2}, &Interface{dnsServer: ds, hostMap: hm, l: l})
	hm.Unlock()

	var bad []string
	for _, qt := range []uint16{dns.TypeMX, dns.TypeTXT, dns.TypeANY} {
		req := new(dns.Msg)
		req.SetQuestion("web.", qt)
		wr := &c44Writer{remote: &net.UDPAddr{IP: net.IPv4(127, 0, 0, 1), Port: 4000}}
		ds.handleDnsRequest(wr, req)
		if len(wr.msgs) == 1 && wr.msgs[0].Rcode == dns.RcodeNameError {
			bad = append(bad, dns.TypeToString[qt])
		}
	}
	// sanity: the name is known (A answers) - otherwise the probe proves nothing
	req := new(dns.Msg)
	req.SetQuestion("web.", dns.TypeA)
	wr := &c44Writer{remote: &net.UDPAddr{IP: net.IPv4(127, 0, 0, 1), Port: 4000}}
	ds.handleDnsRequest(wr, req)
	if len(wr.msgs) != 1 || len(wr.msgs[0].Answer) != 1 {
		t.Fatalf("probe setup: A query for the handshaked peer is not answered: %v", wr.msgs)
	}
	switch {
	case len(bad) == 0:
	case vk.KnownOpen("C44", c44KeyOtherType):
		vk.ReportKnown("C44", c44KeyOtherType)
	default:
		t.Fatalf("C44 %s: query types %v for the known name web. (peer with a completed handshake) are answered NXDOMAIN instead of NOERROR with an empty answer", c44KeyOtherType, bad)
	}
}
