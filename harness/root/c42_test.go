package nebula

// C42 - certificate reload never changes a node's identity.
//
// A PKI is created by NewPKIFromConfig from a configuration with inline PEMs; a generated sequence
// of configuration reloads (config.C.ReloadConfigString, i.e. the registered reload callback) draws
// certificate bundles / key / CA bundle / blocklist from a pool: v1, v2, v1+v2 bundles with the same
// or different networks, curves and key pairs, expired certificates, mismatched keys, garbage,
// unreadable / empty / all-expired CA bundles, CA sets adding and removing CAs, blocklists. Tunnels
// to a few peers exist in a HostMap; after every reload the connection manager's decision
// (makeTrafficDecision) is taken for the peers that the reference trust state says are now
// blocklisted or untrusted.
//
// Oracle (reference = the certificates that were in use before the reload, never the guards):
//   - whenever getCertState() changes, the new state carries exactly the submitted certificates and the
//     change is identity preserving: same curve, same primary network, no previously held overlay
//     network removed or altered, and a v2 certificate is only dropped for a v1 certificate with the
//     same networks. "Adding certs is fine" (documented in reloadCerts): networks contributed by a
//     newly added certificate version are not a change. A network counts as removed only if it
//     disappears both from the effective list (v2's networks when present, else v1's) and from the
//     union over the certificates in use - the weakest reading.
//   - always: v1 and v2 in use share public key, curve and Networks()[0]; the private key matches.
//   - a reload whose CA bundle is unreadable leaves GetCAPool() untouched.
//   - a peer that the effective trust state blocklists gets closeTunnel at the next check; a peer whose
//     CA left the trust store gets closeTunnel when pki.disconnect_invalid is set.
// Whether a harmless reload must be accepted is not in the statement (recorded as labels only).

import (
	"fmt"
	"io"
	"log/slog"
	"net/netip"
	"sort"
	"strings"
	"sync"
	"testing"
	"time"

	"github.com/slackhq/nebula/cert"
	"github.com/slackhq/nebula/cert_test"
	"github.com/slackhq/nebula/config"
	"go.yaml.in/yaml/v3"
	"pgregory.net/rapid"
	"verifkit/vk"
)

const (
	c42KeyV1ToV2   = "v1-only-to-v2-only-unchecked"
	c42KeyV2ToV1Cv = "v2-only-to-v1-only-curve-unchecked"
)

var (
	c42From    = time.Date(2020, 1, 1, 0, 0, 0, 0, time.UTC)
	c42To      = time.Date(2099, 1, 1, 0, 0, 0, 0, time.UTC)
	c42Expired = time.Date(2021, 1, 1, 0, 0, 0, 0, time.UTC)
	c42Now     = time.Date(2030, 1, 1, 0, 0, 0, 0, time.UTC)
)

type c42CA struct {
	name string
	crt  cert.Certificate
	key  []byte
	pem  string
	fp   string
}

type c42Key struct {
	name  string
	curve cert.Curve
	pub   []byte
	pem   string // private key PEM
}

type c42Pool struct {
	cas   map[string]*c42CA // A, B: 25519 (peers + own), P: P256 (own), X: expired 25519
	keys  map[string]*c42Key
	mu    sync.Mutex
	certs map[string]cert.Certificate
	peers []*c42Peer
}

type c42Peer struct {
	ca   string
	crt  cert.Certificate
	fp   string
	addr netip.Addr
}

var (
	c42PoolOnce sync.Once
	c42P        *c42Pool
)

var c42Nets = map[string][]string{
	"A":  {"10.1.0.1/24"},
	"B":  {"10.2.0.1/24"},
	"A2": {"10.1.0.2/24"}, // same network, altered address
	"AW": {"10.1.0.1/16"}, // same address, altered prefix length
	"AC": {"10.1.0.1/24", "10.9.0.1/24"},
	"CA": {"10.9.0.1/24", "10.1.0.1/24"},
	"AD": {"10.1.0.1/24", "10.8.0.1/24"},
	"A6": {"10.1.0.1/24", "fd00:1::1/64"}, // v2 only
	"6":  {"fd00:1::1/64"},                // v2 only
}

func c42Prefixes(name string) []netip.Prefix {
	var out []netip.Prefix
	for _, s := range c42Nets[name] {
		out = append(out, netip.MustParsePrefix(s))
	}
	return out
}

func c42GetPool() *c42Pool {
	c42PoolOnce.Do(func() {
		p := &c42Pool{cas: map[string]*c42CA{}, keys: map[string]*c42Key{}, certs: map[string]cert.Certificate{}}
		mkCA := func(name string, curve cert.Curve, after time.Time) {
			c, _, key, pem := cert_test.NewTestCaCert(cert.Version2, curve, c42From, after, nil, nil, nil)
			fp, _ := c.Fingerprint()
			p.cas[name] = &c42CA{name: name, crt: c, key: key, pem: string(pem), fp: fp}
		}
		mkCA("A", cert.Curve_CURVE25519, c42To)
		mkCA("B", cert.Curve_CURVE25519, c42To)
		mkCA("P", cert.Curve_P256, c42To)
		mkCA("X", cert.Curve_CURVE25519, c42Expired)
		for _, n := range []string{"K1", "K2"} {
			pub, priv := cert_test.X25519Keypair()
			p.keys[n] = &c42Key{name: n, curve: cert.Curve_CURVE25519, pub: pub, pem: string(cert.MarshalPrivateKeyToPEM(cert.Curve_CURVE25519, priv))}
		}
		pub, priv := cert_test.P256Keypair()
		p.keys["KP"] = &c42Key{name: "KP", curve: cert.Curve_P256, pub: pub, pem: string(cert.MarshalPrivateKeyToPEM(cert.Curve_P256, priv))}
		for i, ca := range []string{"A", "A", "B", "B"} {
			addr := netip.AddrFrom4([4]byte{10, 1, 0, byte(50 + i)})
			c, _, _, _ := cert_test.NewTestCert(cert.Version2, cert.Curve_CURVE25519, p.cas[ca].crt, p.cas[ca].key, fmt.Sprintf("peer%d", i), c42From, c42To, []netip.Prefix{netip.PrefixFrom(addr, 24)}, nil, nil)
			fp, _ := c.Fingerprint()
			p.peers = append(p.peers, &c42Peer{ca: ca, crt: c, fp: fp, addr: addr})
		}
		c42P = p
	})
	return c42P
}

// c42CertSpec describes one own certificate.
type c42CertSpec struct {
	Ver     int    // 1 or 2
	Key     string // K1 K2 KP
	Nets    string
	Expired bool
}

func (s c42CertSpec) String() string {
	e := ""
	if s.Expired {
		e = ",expired"
	}
	return fmt.Sprintf("v%d(%s,%s%s)", s.Ver, s.Key, s.Nets, e)
}

func (p *c42Pool) ownCert(s c42CertSpec) cert.Certificate {
	p.mu.Lock()
	defer p.mu.Unlock()
	k := s.String()
	if c, ok := p.certs[k]; ok {
		return c
	}
	key := p.keys[s.Key]
	ca := p.cas["A"]
	if key.curve == cert.Curve_P256 {
		ca = p.cas["P"]
	}
	after := c42To
	if s.Expired {
		after = c42Expired
	}
	ver := cert.Version1
	if s.Ver == 2 {
		ver = cert.Version2
	}
	tbs := &cert.TBSCertificate{Version: ver, Curve: key.curve, Name: "node", Networks: c42Prefixes(s.Nets), NotBefore: c42From, NotAfter: after, PublicKey: key.pub}
	c, err := tbs.Sign(ca.crt, ca.crt.Curve(), ca.key)
	if err != nil {
		panic(fmt.Sprintf("harness: cannot sign %v: %v", s, err))
	}
	p.certs[k] = c
	return c
}

// c42Reload is one generated configuration.
type c42Reload struct {
	Certs     []c42CertSpec
	CertJunk  string // non-empty: pki.cert is this text instead of a bundle
	KeyFile   string // K1 K2 KP or "garbage"
	CAs       []string
	CAJunk    string // non-empty: pki.ca is this text ("" pki.ca when "EMPTY")
	Blocklist []int // peer indexes
	InitVer   int   // 0 = unset
}

func (r c42Reload) String() string {
	return fmt.Sprintf("{cert=%v%s key=%s ca=%v%s block=%v iv=%d}", r.Certs, r.CertJunk, r.KeyFile, r.CAs, r.CAJunk, r.Blocklist, r.InitVer)
}

func (r c42Reload) yaml(p *c42Pool) string {
	pki := map[string]any{}
	if r.CertJunk != "" {
		pki["cert"] = r.CertJunk
	} else {
		var sb strings.Builder
		for _, s := range r.Certs {
			b, err := p.ownCert(s).MarshalPEM()
			if err != nil {
				panic(err)
			}
			sb.Write(b)
		}
		pki["cert"] = sb.String()
	}
	if r.KeyFile == "garbage" {
		pki["key"] = "-----BEGIN NEBULA X25519 PRIVATE KEY-----\nAAAA\n-----END NEBULA X25519 PRIVATE KEY-----\n"
	} else {
		pki["key"] = p.keys[r.KeyFile].pem
	}
	switch {
	case r.CAJunk == "EMPTY":
		pki["ca"] = ""
	case r.CAJunk != "":
		pki["ca"] = r.CAJunk
	default:
		var sb strings.Builder
		for _, n := range r.CAs {
			sb.WriteString(p.cas[n].pem)
		}
		pki["ca"] = sb.String()
	}
	var bl []string
	for _, i := range r.Blocklist {
		bl = append(bl, p.peers[i].fp)
	}
	if len(bl) > 0 {
		pki["blocklist"] = bl
	}
	if r.InitVer != 0 {
		pki["initiating_version"] = r.InitVer
	}
	b, err := yaml.Marshal(map[string]any{"pki": pki})
	if err != nil {
		panic(err)
	}
	return string(b)
}

// caReadable is the reference reading of "the CA bundle can be read": at least one unexpired CA
// certificate and nothing undecodable.
func (r c42Reload) caReadable() bool {
	if r.CAJunk != "" {
		return false
	}
	ok := false
	for _, n := range r.CAs {
		if n != "X" {
			ok = true
		}
	}
	return ok
}

// c42Ident is the set of own certificates in use.
type c42Ident struct{ v1, v2 cert.Certificate }

func (s c42Ident) shape() string {
	switch {
	case s.v1 != nil && s.v2 != nil:
		return "v1+v2"
	case s.v1 != nil:
		return "v1"
	case s.v2 != nil:
		return "v2"
	}
	return "none"
}

func (s c42Ident) any() cert.Certificate {
	if s.v2 != nil {
		return s.v2
	}
	return s.v1
}

func (s c42Ident) effective() []netip.Prefix { return s.any().Networks() }

func (s c42Ident) union() map[netip.Prefix]bool {
	u := map[netip.Prefix]bool{}
	for _, c := range []cert.Certificate{s.v1, s.v2} {
		if c != nil {
			for _, n := range c.Networks() {
				u[n] = true
			}
		}
	}
	return u
}

// c42Preserves is the reference predicate: does replacing old by new keep the node's identity?
func c42Preserves(old, new c42Ident) (bool, string) {
	if old.any().Curve() != new.any().Curve() {
		return false, fmt.Sprintf("curve changes from %v to %v", old.any().Curve(), new.any().Curve())
	}
	if old.effective()[0] != new.effective()[0] {
		return false, fmt.Sprintf("primary network changes from %v to %v", old.effective()[0], new.effective()[0])
	}
	newEff := map[netip.Prefix]bool{}
	for _, n := range new.effective() {
		newEff[n] = true
	}
	newUnion := new.union()
	var goneEff, goneUnion []netip.Prefix
	for _, n := range old.effective() {
		if !newEff[n] {
			goneEff = append(goneEff, n)
		}
	}
	for n := range old.union() {
		if !newUnion[n] {
			goneUnion = append(goneUnion, n)
		}
	}
	if len(goneEff) > 0 && len(goneUnion) > 0 {
		return false, fmt.Sprintf("overlay network %v is removed or altered (new networks %v)", goneEff[0], new.effective())
	}
	if old.v2 != nil && new.v2 == nil {
		a, b := map[netip.Prefix]bool{}, map[netip.Prefix]bool{}
		for _, n := range old.v2.Networks() {
			a[n] = true
		}
		for _, n := range new.v1.Networks() {
			b[n] = true
		}
		same := len(a) == len(b)
		for n := range a {
			if !b[n] {
				same = false
			}
		}
		if !same {
			return false, fmt.Sprintf("v2 certificate dropped without an equivalent v1 (v2 %v, v1 %v)", old.v2.Networks(), new.v1.Networks())
		}
	}
	return true, ""
}

func c42SameCert(a, b cert.Certificate) bool {
	if a == nil || b == nil {
		return a == nil && b == nil
	}
	fa, _ := a.Fingerprint()
	fb, _ := b.Fingerprint()
	return fa == fb && a.Version() == b.Version()
}

// ---- generators ---------------------------------------------------------------------------------

var c42V1Nets = []string{"A", "A", "A", "B", "A2", "AW", "AC", "CA", "AD"}
var c42V2Nets = []string{"A", "A", "A", "B", "A2", "AW", "AC", "CA", "AD", "A6", "6"}

func c42GenCert(rt *rapid.T, ver int, key string) c42CertSpec {
	s := c42CertSpec{Ver: ver, Key: key}
	if ver == 1 {
		s.Nets = rapid.SampledFrom(c42V1Nets).Draw(rt, "v1.nets")
	} else {
		s.Nets = rapid.SampledFrom(c42V2Nets).Draw(rt, "v2.nets")
	}
	s.Expired = rapid.IntRange(0, 14).Draw(rt, "expired") == 0
	return s
}

func c42GenCAs(rt *rapid.T, r *c42Reload) {
	switch rapid.SampledFrom([]string{"AB", "AB", "AB", "A", "B", "ABX", "AX", "X", "garbage", "missing", "empty", "ABP"}).Draw(rt, "ca") {
	case "AB":
		r.CAs = []string{"A", "B"}
	case "A":
		r.CAs = []string{"A"}
	case "B":
		r.CAs = []string{"B"}
	case "ABX":
		r.CAs = []string{"A", "X", "B"}
	case "AX":
		r.CAs = []string{"X", "A"}
	case "X":
		r.CAs = []string{"X"}
	case "ABP":
		r.CAs = []string{"A", "B", "P"}
	case "garbage":
		r.CAJunk = "-----BEGIN NEBULA CERTIFICATE V2-----\nbm90IGEgY2VydGlmaWNhdGU=\n-----END NEBULA CERTIFICATE V2-----\n"
	case "missing":
		r.CAJunk = "/nonexistent/verif-c42/ca.crt"
	case "empty":
		r.CAJunk = "EMPTY"
	}
	nb := rapid.SampledFrom([]int{0, 0, 0, 1, 1, 2}).Draw(rt, "nblock")
	seen := map[int]bool{}
	for i := 0; i < nb; i++ {
		k := rapid.IntRange(0, 3).Draw(rt, "block")
		if !seen[k] {
			seen[k] = true
			r.Blocklist = append(r.Blocklist, k)
		}
	}
	sort.Ints(r.Blocklist)
}

// c42GenReload draws a configuration; cur (may be nil for the initial one) steers half of the draws
// toward renewals and near misses of the certificates in use.
func c42GenReload(rt *rapid.T, cur []c42CertSpec, curKey string, valid bool) c42Reload {
	var r c42Reload
	keys := []string{"K1", "K1", "K2", "KP"}
	key := rapid.SampledFrom(keys).Draw(rt, "key")
	if cur != nil && rapid.IntRange(0, 2).Draw(rt, "keepkey") != 0 {
		key = curKey
	}
	r.KeyFile = key
	shape := rapid.SampledFrom([]string{"v1", "v2", "v1v2", "v1v2", "v2v1"}).Draw(rt, "shape")
	same := rapid.IntRange(0, 2).Draw(rt, "samenets") != 0 // v1 and v2 drawn with equal networks
	mk := func(ver int) c42CertSpec {
		s := c42GenCert(rt, ver, key)
		if cur != nil && rapid.IntRange(0, 1).Draw(rt, "likecur") == 0 {
			// copy the networks of a certificate in use (same version if there is one)
			for _, c := range cur {
				s.Nets = c.Nets
				if c.Ver == ver {
					break
				}
			}
			if ver == 1 && (s.Nets == "A6" || s.Nets == "6") {
				s.Nets = "A"
			}
		}
		if valid {
			s.Expired = false
			if s.Nets == "CA" { // v2 certificates keep their networks sorted; a dual bundle needs equal first networks
				s.Nets = "AC"
			}
		}
		return s
	}
	switch shape {
	case "v1":
		r.Certs = []c42CertSpec{mk(1)}
	case "v2":
		r.Certs = []c42CertSpec{mk(2)}
	default:
		a, b := mk(1), mk(2)
		if same || valid {
			b.Nets = a.Nets
		}
		if !valid && rapid.IntRange(0, 9).Draw(rt, "otherkey") == 0 {
			b.Key = rapid.SampledFrom(keys).Draw(rt, "v2key") // possibly another key pair or curve
		}
		r.Certs = []c42CertSpec{a, b}
		if shape == "v2v1" {
			r.Certs = []c42CertSpec{b, a}
		}
	}
	if !valid {
		switch rapid.IntRange(0, 24).Draw(rt, "odd") {
		case 0:
			r.KeyFile = rapid.SampledFrom([]string{"K1", "K2", "KP", "garbage"}).Draw(rt, "wrongkey")
		case 1:
			r.CertJunk = rapid.SampledFrom([]string{"-----BEGIN NEBULA CERTIFICATE V2-----\nAAAA\n-----END NEBULA CERTIFICATE V2-----\n", "/nonexistent/verif-c42/host.crt"}).Draw(rt, "certjunk")
		case 2:
			r.Certs = append(r.Certs, r.Certs[0]) // the same version twice
		case 3:
			r.InitVer = rapid.SampledFrom([]int{1, 2, 3}).Draw(rt, "initver")
		}
	}
	c42GenCAs(rt, &r)
	if valid {
		r.CAs, r.CAJunk, r.Blocklist = []string{"A", "B"}, "", nil
	}
	return r
}

// ---- the property ---------------------------------------------------------------------------------

func TestC42_ReloadSequences(t *testing.T) {
	p := c42GetPool()
	l := slog.New(slog.NewTextHandler(io.Discard, nil))
	vk.Check(t, 4000, func(rt *rapid.T) {
		init := c42GenReload(rt, nil, "", true)
		disconnectInvalid := rapid.Bool().Draw(rt, "disconnect_invalid")
		c := config.NewC(l)
		if err := c.LoadString(init.yaml(p)); err != nil {
			rt.Fatalf("harness: initial config does not load: %v", err)
		}
		pki, err := NewPKIFromConfig(l, c)
		if err != nil {
			rt.Fatalf("harness: initial configuration %v refused: %v", init, err)
		}
		toIdent := func(specs []c42CertSpec) c42Ident {
			var id c42Ident
			for _, s := range specs {
				if s.Ver == 1 {
					id.v1 = p.ownCert(s)
				} else {
					id.v2 = p.ownCert(s)
				}
			}
			return id
		}
		curSpecs, curKey := init.Certs, init.KeyFile
		cur := toIdent(curSpecs)
		st := pki.getCertState()
		if !c42SameCert(st.v1Cert, cur.v1) || !c42SameCert(st.v2Cert, cur.v2) {
			rt.Fatalf("initial state does not carry the configured certificates %v", init)
		}

		// tunnels
		hm := newHostMap(l)
		ifce := &Interface{pki: pki, hostMap: hm, l: l}
		ifce.disconnectInvalid.Store(disconnectInvalid)
		cm := &connectionManager{hostMap: hm, l: l, intf: ifce}
		all, _ := cert.NewCAPoolFromPEM([]byte(p.cas["A"].pem + p.cas["B"].pem))
		for i, pr := range p.peers {
			cc, err := all.VerifyCertificate(c42Now, pr.crt)
			if err != nil {
				rt.Fatalf("harness: peer certificate does not verify: %v", err)
			}
			hi := &HostInfo{ConnectionState: &ConnectionState{peerCert: cc}, vpnAddrs: []netip.Addr{pr.addr}, localIndexId: uint32(100 + i), remoteIndexId: uint32(200 + i)}
			hm.Lock()
			hm.unlockedAddHostInfo(hi, ifce)
			hm.Unlock()
		}
		trusted := map[string]bool{"A": true, "B": true}
		blocked := map[int]bool{}

		accepted, refused := 0, 0
		var history []string
		labels := map[string]bool{}
		n := rapid.IntRange(1, 8).Draw(rt, "nreloads")
		for step := 0; step < n; step++ {
			r := c42GenReload(rt, curSpecs, curKey, false)
			history = append(history, r.String())
			desc := fmt.Sprintf("initial %v, in use %v, reloads %v", init, curSpecs, history)

			// recorded findings: exactly these transitions are skipped while listed as open
			if r.CertJunk == "" && len(r.Certs) == 1 {
				next := toIdent(r.Certs)
				ok, _ := c42Preserves(cur, next)
				if cur.shape() == "v1" && next.shape() == "v2" && !ok && vk.KnownOpen("C42", c42KeyV1ToV2) {
					vk.Excluded("C42", c42KeyV1ToV2)
					history[len(history)-1] += "(skipped)"
					continue
				}
				if cur.shape() == "v2" && next.shape() == "v1" && !ok && cur.any().Curve() != next.any().Curve() &&
					fmt.Sprint(cur.v2.Networks()) == fmt.Sprint(next.v1.Networks()) && vk.KnownOpen("C42", c42KeyV2ToV1Cv) {
					vk.Excluded("C42", c42KeyV2ToV1Cv)
					history[len(history)-1] += "(skipped)"
					continue
				}
			}

			before, poolBefore := pki.getCertState(), pki.GetCAPool()
			if err := c.ReloadConfigString(r.yaml(p)); err != nil {
				rt.Fatalf("harness: reload config does not parse: %v", err)
			}
			after, poolAfter := pki.getCertState(), pki.GetCAPool()

			if after != before {
				accepted++
				// the state in use must be what was submitted
				if r.CertJunk != "" {
					rt.Fatalf("certificate state replaced although pki.cert was unreadable; %s", desc)
				}
				next := toIdent(r.Certs)
				if !c42SameCert(after.v1Cert, next.v1) || !c42SameCert(after.v2Cert, next.v2) {
					rt.Fatalf("state after reload carries v1=%v v2=%v, submitted %v; %s", after.v1Cert, after.v2Cert, r.Certs, desc)
				}
				if ok, why := c42Preserves(cur, next); !ok {
					rt.Fatalf("reload accepted although %s (was %s %v, now %s %v); %s", why, cur.shape(), cur.effective(), next.shape(), next.effective(), desc)
				}
				labels["accept-"+cur.shape()+"->"+next.shape()] = true
				cur, curSpecs, curKey = next, r.Certs, r.KeyFile
			} else {
				refused++
				if r.CertJunk == "" && len(r.Certs) <= 2 {
					next := toIdent(r.Certs)
					if ok, _ := c42Preserves(cur, next); !ok {
						labels["refuse-identity-change-"+cur.shape()+"->"+next.shape()] = true
					} else {
						labels["refuse-other"] = true
					}
				} else {
					labels["refuse-malformed"] = true
				}
			}
			// invariants of the state in use
			if after.v1Cert == nil && after.v2Cert == nil {
				rt.Fatalf("no certificate in use; %s", desc)
			}
			if after.v1Cert != nil && after.v2Cert != nil {
				if string(after.v1Cert.PublicKey()) != string(after.v2Cert.PublicKey()) || after.v1Cert.Curve() != after.v2Cert.Curve() || after.v1Cert.Networks()[0] != after.v2Cert.Networks()[0] {
					rt.Fatalf("v1 and v2 in use do not share key pair / curve / primary network; %s", desc)
				}
			}
			for _, crt := range []cert.Certificate{after.v1Cert, after.v2Cert} {
				if crt != nil {
					if err := crt.VerifyPrivateKey(crt.Curve(), after.privateKey); err != nil {
						rt.Fatalf("private key in use does not match certificate v%d: %v; %s", crt.Version(), err, desc)
					}
				}
			}
			if got := after.myVpnNetworks; fmt.Sprint(got) != fmt.Sprint(cur.effective()) {
				rt.Fatalf("overlay networks in use %v differ from the certificates in use %v; %s", got, cur.effective(), desc)
			}

			// trust store
			if !r.caReadable() {
				labels["ca-unreadable"] = true
				if poolAfter != poolBefore {
					rt.Fatalf("trust store replaced although the CA bundle was unreadable (%v%s); %s", r.CAs, r.CAJunk, desc)
				}
			} else {
				trusted = map[string]bool{}
				for _, n := range r.CAs {
					trusted[n] = true
				}
				blocked = map[int]bool{}
				for _, i := range r.Blocklist {
					blocked[i] = true
				}
			}
			// next check of every tunnel whose peer is now blocklisted or untrusted
			for i, pr := range p.peers {
				switch {
				case blocked[i]:
					labels["peer-blocklisted"] = true
				case !trusted[pr.ca] && disconnectInvalid:
					labels["peer-untrusted"] = true
				case !trusted[pr.ca]:
					labels["peer-untrusted-kept"] = true
					continue
				default:
					continue
				}
				d, hi, _ := cm.makeTrafficDecision(uint32(100+i), c42Now)
				if d != closeTunnel || hi == nil {
					rt.Fatalf("peer %d (CA %s, blocklisted=%v, trusted CAs %v, disconnect_invalid=%v) is not disconnected at the next check (decision %v); %s",
						i, pr.ca, blocked[i], trusted, disconnectInvalid, d, desc)
				}
			}
		}
		var ls []string
		for k := range labels {
			ls = append(ls, k)
		}
		sort.Strings(ls)
		ls = append(ls, fmt.Sprintf("accepted-%d", min(accepted, 3)), fmt.Sprintf("refused-%d", min(refused, 3)))
		vk.Case("C42", fmt.Sprintf("%v|%v|%v", init, disconnectInvalid, history), accepted >= 1 && refused >= 1, ls...)
		if vk.WantSample("C42") && accepted >= 1 && refused >= 1 {
			vk.Sample("C42", map[string]any{"initial": init.String(), "reloads": history, "accepted": accepted, "refused": refused})
		}
	})
}

// ---- probes -------------------------------------------------------------------------------------

func c42ProbeRun(t *testing.T, first, second []c42CertSpec, k1, k2 string) (changed bool) {
	p := c42GetPool()
	l := slog.New(slog.NewTextHandler(io.Discard, nil))
	c := config.NewC(l)
	a := c42Reload{Certs: first, KeyFile: k1, CAs: []string{"A", "B"}}
	b := c42Reload{Certs: second, KeyFile: k2, CAs: []string{"A", "B"}}
	if err := c.LoadString(a.yaml(p)); err != nil {
		t.Fatal(err)
	}
	pki, err := NewPKIFromConfig(l, c)
	if err != nil {
		t.Fatalf("probe setup: %v", err)
	}
	before := pki.getCertState()
	if err := c.ReloadConfigString(b.yaml(p)); err != nil {
		t.Fatal(err)
	}
	return pki.getCertState() != before
}

func c42Probe(t *testing.T, key string, changed bool, what string) {
	defer vk.Flush()
	switch {
	case !changed:
	case vk.KnownOpen("C42", key):
		vk.ReportKnown("C42", key)
	default:
		t.Fatalf("C42 %s: %s", key, what)
	}
}

func TestC42_Probe_v1_only_to_v2_only_unchecked(t *testing.T) {
	ch := c42ProbeRun(t, []c42CertSpec{{Ver: 1, Key: "K1", Nets: "A"}}, []c42CertSpec{{Ver: 2, Key: "KP", Nets: "B"}}, "K1", "KP")
	c42Probe(t, c42KeyV1ToV2, ch, "reload from a v1-only certificate (10.1.0.1/24, X25519) to a v2-only certificate (10.2.0.1/24, P256) was accepted: networks and curve changed")
}

func TestC42_Probe_v2_only_to_v1_only_curve_unchecked(t *testing.T) {
	ch := c42ProbeRun(t, []c42CertSpec{{Ver: 2, Key: "KP", Nets: "A"}}, []c42CertSpec{{Ver: 1, Key: "K1", Nets: "A"}}, "KP", "K1")
	c42Probe(t, c42KeyV2ToV1Cv, ch, "reload from a v2-only P256 certificate to a v1-only X25519 certificate with the same networks was accepted: the curve changed")
}
