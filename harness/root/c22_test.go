package nebula

// C22 - firewall configuration parses exactly (DESIGN.md section 4).
// Rule maps as YAML delivers them (map[string]any with string/int/float/bool/list/nil values), an
// independent acceptance predicate written from the statement and the documented port grammar,
// and - for accepted lists - an independent translation of the TEXT into reference rules
// (fwref_test.go) whose verdicts are compared with the loaded firewall on a packet sweep.
//
// Interpretations: `code` is the (deprecated) alias of `port` (only one of them may be given);
// for proto icmp the port/code text is ignored; blanks around the two ends of a range are
// tolerated (Test_parsePort pins " 1 - 2    "), blanks or signs anywhere else are not; a range
// starting at 0 means any; non-string scalars are read as their YAML text (80 -> "80").

import (
	"fmt"
	"net/netip"
	"strconv"
	"strings"
	"testing"
	"time"

	"github.com/slackhq/nebula/config"
	"github.com/slackhq/nebula/firewall"
	"go.yaml.in/yaml/v3"
	"pgregory.net/rapid"
	"verifkit/vk"
)

const (
	c22KeyGroupEmptyList = "group-empty-list-panics"
	c22KeyGroupsNonStr   = "groups-nonstring-or-null-panics"
)

// ---- reference: text of a scalar, port grammar, acceptance, translation -------------------------

func c22Text(v any) string {
	switch x := v.(type) {
	case nil:
		return "<nil>"
	case string:
		return x
	case int:
		return strconv.Itoa(x)
	case float64:
		return strconv.FormatFloat(x, 'g', -1, 64)
	case bool:
		if x {
			return "true"
		}
		return "false"
	}
	panic(fmt.Sprintf("c22Text: generator produced %T", v))
}

func c22Field(m map[string]any, k string) string {
	v, ok := m[k]
	if !ok {
		return ""
	}
	return c22Text(v)
}

// decimal 0..65535, digits only
func c22Dec(s string) (int32, bool) {
	if s == "" {
		return 0, false
	}
	for i := 0; i < len(s); i++ {
		if s[i] < '0' || s[i] > '9' {
			return 0, false
		}
	}
	t := strings.TrimLeft(s, "0")
	if len(t) > 5 {
		return 0, false
	}
	v := int32(0)
	for i := 0; i < len(t); i++ {
		v = v*10 + int32(t[i]-'0')
	}
	if v > 65535 {
		return 0, false
	}
	return v, true
}

// c22Port: any -> (0,0); fragment -> (-1,-1); n -> (n,n); a-b -> (a,b); 0-x -> any
func c22Port(s string) (start, end int32, ok bool) {
	switch s {
	case "any":
		return 0, 0, true
	case "fragment":
		return -1, -1, true
	}
	i := strings.IndexByte(s, '-')
	if i < 0 {
		v, ok := c22Dec(s)
		return v, v, ok
	}
	l := strings.Trim(s[:i], " ")
	r := strings.Trim(s[i+1:], " ")
	a, okA := c22Dec(l)
	b, okB := c22Dec(r)
	if !okA || !okB {
		return 0, 0, false
	}
	if a == 0 {
		return 0, 0, true
	}
	if a > b {
		return 0, 0, false
	}
	return a, b, true
}

func c22CidrOK(s string) bool {
	if s == "" || s == "any" {
		return true
	}
	_, err := netip.ParsePrefix(s)
	return err == nil
}

type c22Verdict struct {
	Accept bool
	Reason string   // first reason for rejection
	Panic  string   // "" or the known-finding key of a value class that crashes the loader
	Rule   fwrRule  // translation when accepted
	Odd    bool     // range or odd port text
}

func c22Rule(elem any, incoming bool) c22Verdict {
	m, ok := elem.(map[string]any)
	if !ok {
		return c22Verdict{Reason: "rej-not-a-map"}
	}
	// group / groups
	group := m["group"]
	if l, ok := group.([]any); ok {
		if len(l) > 1 {
			return c22Verdict{Reason: "rej-group-multi"}
		}
		if len(l) == 0 {
			return c22Verdict{Panic: c22KeyGroupEmptyList}
		}
		group = l[0]
	}
	var groups []string
	if g, ok := m["groups"]; ok {
		switch x := g.(type) {
		case nil:
			return c22Verdict{Panic: c22KeyGroupsNonStr}
		case []any:
			for _, e := range x {
				s, ok := e.(string)
				if !ok {
					return c22Verdict{Panic: c22KeyGroupsNonStr}
				}
				groups = append(groups, s)
			}
		case []string:
			groups = append(groups, x...)
		default:
			groups = []string{c22Text(g)}
		}
	}
	if _, has := m["group"]; has {
		if gs := c22Text(group); gs != "" {
			if len(groups) > 0 {
				return c22Verdict{Reason: "rej-group-and-groups"}
			}
			groups = []string{gs}
		}
	}
	port, code := c22Field(m, "port"), c22Field(m, "code")
	if port != "" && code != "" {
		return c22Verdict{Reason: "rej-port-and-code"}
	}
	r := fwrRule{Incoming: incoming, Groups: groups, Host: c22Field(m, "host"), CIDR: c22Field(m, "cidr"),
		LocalCIDR: c22Field(m, "local_cidr"), CAName: c22Field(m, "ca_name"), CASha: c22Field(m, "ca_sha")}
	if r.Host == "" && len(groups) == 0 && r.CIDR == "" && r.LocalCIDR == "" && r.CAName == "" && r.CASha == "" {
		return c22Verdict{Reason: "rej-no-selector"}
	}
	text := port
	if code != "" {
		text = code
	}
	odd := false
	switch c22Field(m, "proto") {
	case "any":
		r.Proto = firewall.ProtoAny
	case "tcp":
		r.Proto = firewall.ProtoTCP
	case "udp":
		r.Proto = firewall.ProtoUDP
	case "icmp":
		r.Proto = firewall.ProtoICMP
	default:
		return c22Verdict{Reason: "rej-proto"}
	}
	if r.Proto != firewall.ProtoICMP {
		var ok bool
		if r.Start, r.End, ok = c22Port(text); !ok {
			return c22Verdict{Reason: "rej-port"}
		}
	}
	if _, err := strconv.Atoi(text); err != nil && text != "any" {
		odd = true // range, fragment, or anything that is not a plain number
	}
	if len(text) > 1 && text[0] == '0' {
		odd = true
	}
	if !c22CidrOK(r.CIDR) {
		return c22Verdict{Reason: "rej-cidr"}
	}
	if !c22CidrOK(r.LocalCIDR) {
		return c22Verdict{Reason: "rej-local-cidr"}
	}
	return c22Verdict{Accept: true, Rule: r, Odd: odd}
}

// c22Table evaluates one table value in order; the loader stops at the first rule it refuses.
func c22Table(v any, present bool, incoming bool) (accept bool, reason string, panicKey string, rules []fwrRule, odd bool) {
	if !present || v == nil {
		return true, "", "", nil, false
	}
	l, ok := v.([]any)
	if !ok {
		return false, "rej-not-a-list", "", nil, false
	}
	for _, e := range l {
		rv := c22Rule(e, incoming)
		if rv.Panic != "" {
			return false, "", rv.Panic, nil, false
		}
		if !rv.Accept {
			return false, rv.Reason, "", nil, odd
		}
		odd = odd || rv.Odd
		rules = append(rules, rv.Rule)
	}
	return true, "", "", rules, odd
}

// ---- generators ---------------------------------------------------------------------------------

var (
	c22GoodPorts = []any{"any", "fragment", "0", "80", "443", "65535", "080", "0080", 80, 443, 0, 65535, 80.0,
		"80-90", "79-81", "80 - 90", " 1 - 2    ", "0-100", "0-65535", "65535-65535", "65000-65535", "5-5", "1-2", "00-00080", "443-444", "1000-1000"}
	c22BadPorts = []any{"+80", "-80", " 80", "80 ", "0x50", "1e3", "८०", "４２", "65536", "99999", "4294967296", "4294967376", "18446744073709551696",
		"90-80", "80-", "-", " - ", "80--90", "80-90-100", "a-b", "1-b", "any-5", "5-any", "Any", "ANY", "Fragment", "fragment-1", "0-99999", "0-65536",
		"5-0", "80\t-90", "80-\t90", "1_000", "", "  ", "80,90", "80 90", "4\x002", "80.0", "1-65536", "65536-65537", "1--1",
		65536, -1, -80, 4294967296, 80.5, 1e6, true, false, nil}
	c22Protos    = []any{"any", "tcp", "udp", "icmp"}
	c22BadProtos = []any{"TCP", "Any", "icmpv6", "icmp6", "", "tcp ", " udp", 6, 17, nil, true, "all", "sctp", "tcp,udp"}
	c22BadCidrs  = []any{"10.0.0.0", "10.0.0.0/33", "garbage", 5, "fe80::1%eth0/64", "10.0.0.0/8 ", "/24", "::/129", "Any", "10.0.0.0/-1", "010.0.0.0/8"}
)

func c22GenPortText(rt *rapid.T) any {
	switch rapid.IntRange(0, 9).Draw(rt, "portKind") {
	case 0, 1, 2, 3:
		return rapid.SampledFrom(c22GoodPorts).Draw(rt, "goodPort")
	case 4, 5:
		return rapid.SampledFrom(c22BadPorts).Draw(rt, "badPort")
	default:
		// grammar: part ( '-' part ){0,2}; part = ws* sign? digits ws*
		part := func(i int) string {
			ws := []string{"", "", "", " ", "  ", "\t"}
			pre := []string{"", "", "", "", "+", "0x", "-"}
			dig := []string{"0", "00", "1", "2", "79", "80", "080", "81", "443", "1000", "65534", "65535", "65536", "99999", "4294967296", ""}
			return rapid.SampledFrom(ws).Draw(rt, fmt.Sprintf("ws%da", i)) + rapid.SampledFrom(pre).Draw(rt, fmt.Sprintf("pre%d", i)) +
				rapid.SampledFrom(dig).Draw(rt, fmt.Sprintf("dig%d", i)) + rapid.SampledFrom(ws).Draw(rt, fmt.Sprintf("ws%db", i))
		}
		n := rapid.SampledFrom([]int{1, 2, 2, 2, 3}).Draw(rt, "parts")
		ps := make([]string, n)
		for i := range ps {
			ps[i] = part(i)
		}
		return strings.Join(ps, "-")
	}
}

func c22AsAny(ss []string) []any {
	out := make([]any, len(ss))
	for i, s := range ss {
		out[i] = s
	}
	return out
}

// c22GenRuleMap: a valid rule (valid proto, port text from the good list or the grammar, at least
// one selector from the C16 universes) to which, in 2 of 5 draws, exactly one defect or oddity is
// applied - so that lists of several rules are not almost always refused.
func c22GenRuleMap(rt *rapid.T) any {
	m := map[string]any{}
	m["proto"] = rapid.SampledFrom(c22Protos).Draw(rt, "proto")
	if rapid.IntRange(0, 3).Draw(rt, "portFromGrammar") == 0 {
		m["port"] = c22GenPortText(rt)
	} else {
		m["port"] = rapid.SampledFrom(c22GoodPorts).Draw(rt, "goodPort")
	}
	// selectors
	switch rapid.IntRange(0, 7).Draw(rt, "selKind") {
	case 0, 1, 2:
		m["host"] = rapid.SampledFrom([]any{"any", "any", "h1", "h2", "h3"}).Draw(rt, "host")
	case 3:
		m["group"] = rapid.SampledFrom([]any{"g1", "g2", "any", 7, []any{"g1"}, []any{"any"}}).Draw(rt, "group")
	case 4:
		m["groups"] = c22AsAny(rapid.SliceOfN(rapid.SampledFrom([]string{"g1", "g2", "g3", "any"}), 1, 3).Draw(rt, "groups"))
	case 5:
		m["groups"] = rapid.SampledFrom([]any{"g1", "g2", "any", []string{"g1"}, []string{"g1", "g2"}}).Draw(rt, "groupsScalar")
	case 6:
		m["cidr"] = rapid.SampledFrom(fwrRuleCIDRs).Draw(rt, "cidr")
	case 7:
		m["local_cidr"] = rapid.SampledFrom(fwrRuleLocals).Draw(rt, "localOnly")
	}
	if rapid.IntRange(0, 4).Draw(rt, "hasLocal") == 0 {
		m["local_cidr"] = rapid.SampledFrom(fwrRuleLocals).Draw(rt, "local")
	}
	if rapid.IntRange(0, 7).Draw(rt, "hasCAName") == 0 {
		m["ca_name"] = rapid.SampledFrom(fwrRuleCANames).Draw(rt, "caName")
	}
	if rapid.IntRange(0, 7).Draw(rt, "hasCASha") == 0 {
		m["ca_sha"] = rapid.SampledFrom(fwrRuleCAShas).Draw(rt, "caSha")
	}
	if rapid.IntRange(0, 4).Draw(rt, "defect") > 1 {
		return m
	}
	switch rapid.IntRange(0, 19).Draw(rt, "defectKind") {
	case 0:
		return rapid.SampledFrom([]any{"port: 80", 5, nil, []any{"a"}}).Draw(rt, "nonMap")
	case 1:
		m["proto"] = rapid.SampledFrom(c22BadProtos).Draw(rt, "badProto")
	case 2:
		delete(m, "proto")
	case 3, 4, 5:
		m["port"] = rapid.SampledFrom(c22BadPorts).Draw(rt, "badPort")
	case 6:
		m["port"] = c22GenPortText(rt)
	case 7:
		delete(m, "port")
	case 8:
		m["code"] = m["port"]
		delete(m, "port")
	case 9:
		m["code"] = rapid.SampledFrom([]any{"8", 8, "", "any"}).Draw(rt, "codeToo")
	case 10:
		for _, k := range []string{"host", "group", "groups", "cidr", "local_cidr", "ca_name", "ca_sha"} {
			if rapid.Bool().Draw(rt, "blank-"+k) {
				delete(m, k)
			} else if _, ok := m[k]; ok {
				m[k] = ""
			}
		}
		if rapid.Bool().Draw(rt, "emptyGroups") {
			m["groups"] = []any{}
		}
	case 11:
		m["cidr"] = rapid.SampledFrom(c22BadCidrs).Draw(rt, "badCidr")
	case 12:
		m["local_cidr"] = rapid.SampledFrom(c22BadCidrs).Draw(rt, "badLocal")
	case 13:
		m["group"] = rapid.SampledFrom([]any{"g1", "", []any{"g2"}}).Draw(rt, "groupToo")
		m["groups"] = rapid.SampledFrom([]any{[]any{"g1"}, []any{}, "g3", ""}).Draw(rt, "groupsToo")
	case 14:
		m["group"] = []any{"g1", "g2"}
	case 15:
		m["group"] = []any{} // finding class
	case 16:
		// finding classes: null, or a list holding a non-string
		m["groups"] = rapid.SampledFrom([]any{nil, []any{1, 2}, []any{"g1", 5}, []any{nil}, []any{true}}).Draw(rt, "groupsBad")
	case 17:
		m["groups"] = rapid.SampledFrom([]any{5, true, "", []any{""}}).Draw(rt, "groupsOdd")
	case 18:
		m["host"] = rapid.SampledFrom([]any{5, "", "any"}).Draw(rt, "hostOdd")
	case 19:
		m["proto"] = "icmp" // port text of any kind is ignored
		m["port"] = rapid.SampledFrom(c22BadPorts).Draw(rt, "icmpPort")
	}
	return m
}

func c22GenTable(rt *rapid.T, label string) (any, bool) {
	switch rapid.IntRange(0, 39).Draw(rt, label+"Kind") {
	case 0, 1:
		return nil, false // key absent
	case 2:
		return rapid.SampledFrom([]any{nil, "port: 80", map[string]any{"port": "any", "proto": "any", "host": "any"}, 5}).Draw(rt, label+"NonList"), true
	}
	n := rapid.SampledFrom([]int{0, 1, 1, 1, 2, 2, 3, 4, 5}).Draw(rt, label+"Len")
	l := make([]any, n)
	for i := range l {
		l[i] = c22GenRuleMap(rt)
	}
	return l, true
}

// ---- the property -------------------------------------------------------------------------------

func c22Load(fw *Firewall, c *config.C, inbound bool) (err error, panicked any) {
	defer func() {
		if r := recover(); r != nil {
			panicked = r
		}
	}()
	return AddFirewallRulesFromConfig(fwrLogger, inbound, c, fw), nil
}

func c22DeepCopy(v any) any {
	switch x := v.(type) {
	case map[string]any:
		m := map[string]any{}
		for k, e := range x {
			m[k] = c22DeepCopy(e)
		}
		return m
	case []any:
		l := make([]any, len(x))
		for i, e := range x {
			l[i] = c22DeepCopy(e)
		}
		return l
	case []string:
		return append([]string{}, x...)
	}
	return v
}

func TestC22_ConfigParsesExactly(t *testing.T) {
	vk.Check(t, 10000, func(rt *rapid.T) {
		inV, inPresent := c22GenTable(rt, "inbound")
		var outV any
		outPresent := false
		if rapid.IntRange(0, 2).Draw(rt, "hasOutbound") == 0 {
			outV, outPresent = c22GenTable(rt, "outbound")
		}
		n := fwrGenNode(rt)
		peer := fwrGenPeer(rt, n, 0, true)
		viaYAML := rapid.IntRange(0, 3).Draw(rt, "viaYAML") == 0

		fwSettings := map[string]any{}
		if inPresent {
			fwSettings["inbound"] = inV
		}
		if outPresent {
			fwSettings["outbound"] = outV
		}
		desc := fmt.Sprintf("inbound=%#v outbound=%#v", inV, outV)

		// reference first (the loader mutates the maps it is given)
		type tbl struct {
			incoming bool
			accept   bool
			reason   string
			panicKey string
			rules    []fwrRule
			odd      bool
		}
		var tbls [2]tbl
		tbls[0].incoming, tbls[1].incoming = true, false
		tbls[0].accept, tbls[0].reason, tbls[0].panicKey, tbls[0].rules, tbls[0].odd = c22Table(inV, inPresent, true)
		tbls[1].accept, tbls[1].reason, tbls[1].panicKey, tbls[1].rules, tbls[1].odd = c22Table(outV, outPresent, false)

		c := config.NewC(fwrLogger)
		if viaYAML {
			b, err := yaml.Marshal(map[string]any{"firewall": fwSettings})
			if err != nil {
				rt.Fatalf("harness: yaml.Marshal: %v", err)
			}
			if err := c.LoadString(string(b)); err != nil {
				rt.Fatalf("harness: LoadString(%q): %v", b, err)
			}
		} else {
			c.Settings["firewall"] = c22DeepCopy(fwSettings)
		}

		fw := NewFirewall(fwrLogger, time.Minute, time.Minute, time.Minute, fwrNodeCert(n))
		fw.defaultLocalCIDRAny = n.DefaultLocalAny
		var all []fwrRule
		labels := []string{}
		if viaYAML {
			labels = append(labels, "via-yaml-text")
		}
		odd := false
		accepted := true
		for _, tb := range tbls {
			if tb.panicKey != "" && vk.KnownOpen("C22", tb.panicKey) {
				vk.Excluded("C22", tb.panicKey)
				return
			}
			err, panicked := c22Load(fw, c, tb.incoming)
			if panicked != nil {
				rt.Fatalf("loader crashed instead of accepting or rejecting (class %q): panic: %v\n %s", tb.panicKey, panicked, desc)
			}
			if tb.panicKey != "" {
				// class once recorded as crashing, now handled: either outcome is fine, but the
				// translation is unspecified, so stop here
				vk.Case("C22", "fixedpanic|"+desc, true, "formerly-crashing-class")
				return
			}
			if (err == nil) != tb.accept {
				rt.Fatalf("loader result differs from the documented acceptance rule: err=%v, reference accept=%v (%s)\n incoming=%v %s",
					err, tb.accept, tb.reason, tb.incoming, desc)
			}
			odd = odd || tb.odd
			if !tb.accept {
				labels = append(labels, tb.reason)
				accepted = false
				break
			}
			all = append(all, tb.rules...)
		}
		if !accepted {
			vk.Case("C22", desc, odd, append(labels, "rejected")...)
			return
		}
		labels = append(labels, "accepted")
		if len(all) == 0 {
			labels = append(labels, "accepted-empty")
		}
		if odd {
			labels = append(labels, "accepted-range-or-odd-port")
		}

		// packet sweep: range edges +-1, port 0, fragments, ICMP, other protocols
		h := fwrHost(n, peer)
		pool := fwrPool(fwrTrusted)
		probes := 0
		check := func(p firewall.Packet, incoming bool) {
			want, deciding, _ := fwrAllowed(all, n, peer, fwrTrusted, p, incoming)
			fwrFreshConntrack(fw)
			err := fw.Drop(p, incoming, h, pool, nil)
			if (err == nil) != want {
				rt.Fatalf("loaded rules admit a different packet set than the text describes: Drop=%v, text says allowed=%v (rule %d)\n packet=%+v incoming=%v\n %s\n translated=%v\n node=%+v peer=%+v",
					err, want, deciding, p, incoming, desc, all, n, peer)
			}
			probes++
			if want {
				vk.Label("C22", "probe-allowed")
			} else {
				vk.Label("C22", "probe-denied")
			}
		}
		for i, r := range all {
			if i >= 4 {
				break
			}
			base := fwrGenPacket(rt, n, peer)
			for _, port := range []int32{r.Start - 1, r.Start, r.End, r.End + 1, 0} {
				if port < 0 || port > 65535 {
					continue
				}
				p := base
				p.Fragment = false
				if r.Incoming {
					p.LocalPort = uint16(port)
				} else {
					p.RemotePort = uint16(port)
				}
				for _, proto := range []uint8{firewall.ProtoTCP, firewall.ProtoUDP, firewall.ProtoICMP} {
					p.Protocol = proto
					check(p, r.Incoming)
				}
			}
			f := base
			f.Fragment = true
			check(f, r.Incoming)
		}
		for k := 0; k < 3; k++ {
			check(fwrGenPacket(rt, n, peer), rapid.Bool().Draw(rt, "probeDir"))
		}
		vk.LabelN("C22", "probes", int64(probes))
		vk.Case("C22", desc+"|"+fwrEnvKey(n, peer), odd, labels...)
		if odd && vk.WantSample("C22") {
			vk.Sample("C22", map[string]any{"config": desc, "translated": fmt.Sprint(all), "probes": probes})
		}
	})
}

// ---- probes for the recorded finding classes ------------------------------------------------------

func c22Probe(t *testing.T, key string, rule map[string]any) {
	defer vk.Flush()
	c := config.NewC(fwrLogger)
	c.Settings["firewall"] = map[string]any{"inbound": []any{rule}}
	fw := NewFirewall(fwrLogger, time.Minute, time.Minute, time.Minute, fwrNodeCert(fwrNode{Networks: []netip.Prefix{fwrPfx("10.0.0.1/24")}}))
	_, panicked := c22Load(fw, c, true)
	if panicked == nil {
		return // does not reproduce
	}
	if vk.KnownOpen("C22", key) {
		vk.ReportKnown("C22", key)
		return
	}
	t.Fatalf("C22 %s: loading rule %#v crashes the loader instead of accepting or rejecting it: panic: %v", key, rule, panicked)
}

func TestC22_Probe_group_empty_list_panics(t *testing.T) {
	c22Probe(t, c22KeyGroupEmptyList, map[string]any{"port": "any", "proto": "any", "host": "any", "group": []any{}})
}

func TestC22_Probe_groups_nonstring_or_null_panics(t *testing.T) {
	c22Probe(t, c22KeyGroupsNonStr, map[string]any{"port": "any", "proto": "any", "groups": []any{"laptop", 5}})
	c22Probe(t, c22KeyGroupsNonStr, map[string]any{"port": "any", "proto": "any", "host": "any", "groups": nil})
}
