package nebula

// C19 - tracked flows are revalidated after a rule reload (DESIGN.md section 4).
// A real Interface{pki, firewall} is driven through Interface.reloadFirewall with generated YAML
// (config.ReloadConfigString, as the SIGHUP path does) interleaved with traffic; rulesVersion is
// pre-set close to 65535 in a third of the histories so that the uint16 wrap is crossed.
// Everything runs in a synctest bubble, so no flow ever times out (C18 is a separate property).
//
// Oracle, exactly the statement (reference: tuple -> possible original directions + rules epoch at
// which the flow was last honoured; rule semantics from the flat evaluator in fwref_test.go):
//   (1) a packet that the current rules do not allow in its own direction passes ONLY IF its tuple
//       is tracked and the flow's original direction is allowed by the CURRENT rules;
//   (2) once a flow was refused for that reason it is forgotten: reverting the rules does not
//       resurrect it, a rule has to allow a new packet first;
//   (3) if nothing about the rules changed since the flow was last honoured (reloads that only
//       touched non-rule firewall settings, identical reloads, refused reloads), the flow must
//       still be honoured.
// Not asserted (the statement is silent): whether a flow survives a reload that CHANGED the rules
// but still allows its original direction - the model follows the observed verdict there, and a
// flow that was never probed while it was disallowed may survive (revalidation is lazy).
// default_local_cidr_any and certificate unsafe-network changes count as rule changes.

import (
	"fmt"
	"net/netip"
	"strings"
	"testing"
	"testing/synctest"

	"github.com/slackhq/nebula/cert"
	"github.com/slackhq/nebula/config"
	"github.com/slackhq/nebula/firewall"
	"go.yaml.in/yaml/v3"
	"pgregory.net/rapid"
	"verifkit/vk"
)

const c19Key = "rules-version-wrap-resets-conntrack"

type c19Config struct {
	Rules           []fwrRule
	DefaultLocalAny bool
	TCP, UDP, Def   string
	InAction        string
	OutAction       string
	Invalid         bool // carries one rule the loader refuses
}

func c19Normalize(r fwrRule) fwrRule {
	if fwrIsICMP(r.Proto) {
		r.Proto = firewall.ProtoICMP
		r.Start, r.End = 0, 0
	}
	if len(r.Groups) == 0 && r.Host == "" && r.CIDR == "" && r.LocalCIDR == "" && r.CAName == "" && r.CASha == "" {
		r.Host = "any" // the loader wants a selector; same meaning as none
	}
	return r
}

func c19RuleMap(r fwrRule) map[string]any {
	m := map[string]any{}
	switch r.Proto {
	case firewall.ProtoAny:
		m["proto"] = "any"
	case firewall.ProtoTCP:
		m["proto"] = "tcp"
	case firewall.ProtoUDP:
		m["proto"] = "udp"
	default:
		m["proto"] = "icmp"
	}
	switch {
	case r.Start == 0 && r.End == 0:
		m["port"] = "any"
	case r.Start == -1:
		m["port"] = "fragment"
	case r.Start == r.End:
		m["port"] = int(r.Start)
	default:
		m["port"] = fmt.Sprintf("%d-%d", r.Start, r.End)
	}
	if len(r.Groups) == 1 {
		m["group"] = r.Groups[0]
	} else if len(r.Groups) > 1 {
		m["groups"] = r.Groups
	}
	for k, v := range map[string]string{"host": r.Host, "cidr": r.CIDR, "local_cidr": r.LocalCIDR, "ca_name": r.CAName, "ca_sha": r.CASha} {
		if v != "" {
			m[k] = v
		}
	}
	return m
}

func (c c19Config) yaml(rt interface{ Fatalf(string, ...any) }) string {
	in, out := []any{}, []any{}
	for _, r := range c.Rules {
		if r.Incoming {
			in = append(in, c19RuleMap(r))
		} else {
			out = append(out, c19RuleMap(r))
		}
	}
	if c.Invalid {
		in = append(in, map[string]any{"proto": "tcp", "port": "90-80", "host": "any"})
	}
	fwm := map[string]any{
		"inbound": in, "outbound": out,
		"conntrack":       map[string]any{"tcp_timeout": c.TCP, "udp_timeout": c.UDP, "default_timeout": c.Def},
		"inbound_action":  c.InAction,
		"outbound_action": c.OutAction,
	}
	if c.DefaultLocalAny {
		fwm["default_local_cidr_any"] = true
	}
	b, err := yaml.Marshal(map[string]any{"firewall": fwm})
	if err != nil {
		rt.Fatalf("harness: yaml.Marshal: %v", err)
	}
	return string(b)
}

// semantic identity of "the rules" (order-preserving text of the rule list + the settings that
// change what a rule means)
func (c c19Config) rulesKey(n fwrNode) string {
	return fmt.Sprintf("%s|dlca=%v|unsafe=%v", fwrRulesKey(c.Rules), c.DefaultLocalAny, n.Unsafe)
}

func c19GenRules(rt *rapid.T) []fwrRule {
	var rules []fwrRule
	if rapid.IntRange(0, 2).Draw(rt, "broadIn") == 0 {
		rules = append(rules, fwrRule{Incoming: true, Host: "any", LocalCIDR: "any"})
	}
	if rapid.IntRange(0, 3).Draw(rt, "broadOut") == 0 {
		rules = append(rules, fwrRule{Incoming: false, Host: "any", LocalCIDR: "any"})
	}
	for _, r := range fwrGenRuleSet(rt, rapid.IntRange(0, 3).Draw(rt, "nRules"), rapid.Bool().Draw(rt, "rulesDir"), 3) {
		rules = append(rules, c19Normalize(r))
	}
	return rapid.Permutation(rules).Draw(rt, "ruleOrder")
}

func c19GenSettings(rt *rapid.T, c *c19Config) {
	d := []string{"1m", "3m", "10m", "12m", "1h"}
	c.TCP = rapid.SampledFrom(d).Draw(rt, "tcpTimeout")
	c.UDP = rapid.SampledFrom(d).Draw(rt, "udpTimeout")
	c.Def = rapid.SampledFrom(d).Draw(rt, "defTimeout")
	c.InAction = rapid.SampledFrom([]string{"drop", "reject"}).Draw(rt, "inAction")
	c.OutAction = rapid.SampledFrom([]string{"drop", "reject"}).Draw(rt, "outAction")
}

type c19Flow struct {
	dirs  int // bit 1: original direction may be inbound, bit 2: outbound
	epoch int // rules epoch at which the flow was last honoured or established
}

func c19DirBit(incoming bool) int {
	if incoming {
		return 1
	}
	return 2
}

func TestC19_ReloadRevalidation(t *testing.T) {
	vk.Check(t, 6000, func(rt *rapid.T) {
		rapid.SyncTest(rt, c19History)
	})
}

func c19History(rt *rapid.T) {
	n := fwrGenNode(rt)
	n.DefaultLocalAny = false // driven by the config below
	peer := fwrGenPeer(rt, n, 0, true)
	h := fwrHost(n, peer)
	pool := fwrPool(fwrTrusted)

	mkCert := func(n fwrNode) *CertState {
		c := fwrNodeCert(n)
		c.version = cert.Version2
		return &CertState{v2Cert: c, initiatingVersion: cert.Version2}
	}
	pki := &PKI{}
	pki.cs.Store(mkCert(n))

	cur := c19Config{Rules: c19GenRules(rt), DefaultLocalAny: rapid.IntRange(0, 3).Draw(rt, "dlca") == 0}
	c19GenSettings(rt, &cur)
	cfg := config.NewC(fwrLogger)
	if err := cfg.LoadString(cur.yaml(rt)); err != nil {
		rt.Fatalf("harness: LoadString: %v", err)
	}
	fw, err := NewFirewallFromConfig(fwrLogger, pki.getCertState(), cfg)
	if err != nil {
		rt.Fatalf("initial config refused: %v\n%s", err, cur.yaml(rt))
	}
	nearWrap := rapid.IntRange(0, 2).Draw(rt, "nearWrap") == 0
	if nearWrap {
		// 1..4 below the wrap of the counter, whatever its width
		fw.rulesVersion = 0
		for k := rapid.IntRange(1, 4).Draw(rt, "belowWrap"); k > 0; k-- {
			fw.rulesVersion--
		}
	}
	f := &Interface{pki: pki, firewall: fw, l: fwrLogger}

	// effective state of the installed firewall
	eff, effNode := cur, n
	effNode.DefaultLocalAny = cur.DefaultLocalAny
	loaded := cur // what the config object currently holds (may have been refused)
	certNode := n // what the pki currently holds
	epoch := 0
	history := []c19Config{cur}

	// flows
	var pkts []firewall.Packet
	for i := rapid.IntRange(1, 4).Draw(rt, "nFlows"); i > 0; i-- {
		p := fwrGenPacket(rt, n, peer)
		pkts = append(pkts, p)
		if rapid.Bool().Draw(rt, "variant") {
			q := p
			q.RemotePort++
			pkts = append(pkts, q)
		}
	}
	model := map[firewall.Packet]*c19Flow{}
	var trace []string
	disagreeProbes, unchangedProbes, wraps, refused := 0, 0, 0, 0
	labels := map[string]int{}

	fail := func(msg string, p firewall.Packet, incoming bool) {
		rt.Fatalf("%s\n packet=%+v incoming=%v\n current rules=%v default_local_cidr_any=%v\n node=%+v\n peer=%+v\n rulesVersion=%d\n history:\n  %s",
			msg, p, incoming, eff.Rules, eff.DefaultLocalAny, effNode, peer, f.firewall.rulesVersion, strings.Join(trace, "\n  "))
	}
	// rule layer only; address authenticity (C17) is handled separately in send
	allowed := func(p firewall.Packet, incoming bool) bool {
		ok, _, _ := fwrAllowed(eff.Rules, effNode, peer, fwrTrusted, p, incoming)
		return ok
	}

	send := func(p firewall.Packet, incoming bool) {
		ruleOK := allowed(p, incoming)
		passed := f.firewall.Drop(p, incoming, h, pool, nil) == nil
		trace = append(trace, fmt.Sprintf("packet %+v incoming=%v ruleOK=%v passed=%v (v%d)", p, incoming, ruleOK, passed, f.firewall.rulesVersion))
		if !fwrRemoteAuthentic(effNode, peer, p.RemoteAddr) || !fwrLocalAuthentic(effNode, p.LocalAddr) {
			// the node-side address left the certificate (unsafe network removed): refused by the
			// address check (C17) before conntrack or rules are consulted; the flow is neither
			// honoured nor forgotten by this packet
			if passed {
				fail("packet with an address outside the current certificate passed (C17)", p, incoming)
			}
			labels["address-no-longer-certified"]++
			return
		}
		if ruleOK && !passed {
			fail("a packet allowed by the current rules was dropped (harness sanity, C16)", p, incoming)
		}
		fl := model[p]
		if fl == nil {
			if passed && !ruleOK {
				fail("a packet the current rules do not allow passed although no flow is tracked for its tuple (never established, or forgotten after a reload)", p, incoming)
			}
			if passed {
				model[p] = &c19Flow{dirs: c19DirBit(incoming), epoch: epoch}
				labels["established"]++
			} else {
				labels["untracked-dropped"]++
			}
			return
		}
		okDirs := 0
		for _, d := range []bool{true, false} {
			if fl.dirs&c19DirBit(d) != 0 && allowed(p, d) {
				okDirs |= c19DirBit(d)
			}
		}
		if fl.epoch != epoch && okDirs != fl.dirs {
			disagreeProbes++
		}
		switch {
		case okDirs == 0:
			// original direction no longer allowed: must be refused now and stay forgotten
			if passed && !ruleOK {
				fail(fmt.Sprintf("flow established under older rules is still honoured although its original direction (mask %d) is no longer allowed by the current rules", fl.dirs), p, incoming)
			}
			delete(model, p)
			labels["revalidation-refused"]++
			if passed {
				model[p] = &c19Flow{dirs: c19DirBit(incoming), epoch: epoch}
			}
		case okDirs == fl.dirs && fl.epoch == epoch:
			// nothing about the rules changed since the flow was last honoured
			if !ruleOK {
				unchangedProbes++
			}
			if !passed {
				fail("established flow was cut although nothing about the rules changed since it was last honoured", p, incoming)
			}
			labels["honoured-rules-unchanged"]++
		default:
			// rules changed and (some candidate of) the original direction is still allowed: the
			// statement does not say whether the flow survives - follow the observed verdict
			switch {
			case passed && !ruleOK:
				fl.dirs, fl.epoch = okDirs, epoch
				labels["changed-still-allowed-honoured"]++
			case passed:
				fl.dirs, fl.epoch = okDirs|c19DirBit(incoming), epoch
				labels["changed-still-allowed-passed-by-rule"]++
			default:
				delete(model, p)
				labels["changed-still-allowed-cut(not-asserted)"]++
			}
		}
	}

	reload := func(next c19Config, nextCertNode fwrNode, what string) {
		if fmt.Sprint(nextCertNode.Unsafe) != fmt.Sprint(certNode.Unsafe) {
			pki.cs.Store(mkCert(nextCertNode))
			certNode = nextCertNode
		}
		before := f.firewall
		beforeV := before.rulesVersion
		if err := cfg.ReloadConfigString(next.yaml(rt)); err != nil {
			rt.Fatalf("harness: ReloadConfigString: %v", err)
		}
		f.reloadFirewall(cfg)
		loaded = next
		history = append(history, next)
		rebuilt := f.firewall != before
		trace = append(trace, fmt.Sprintf("reload[%s] rebuilt=%v v%d->v%d invalid=%v rules=%v dlca=%v unsafe=%v", what, rebuilt, beforeV, f.firewall.rulesVersion, next.Invalid, next.Rules, next.DefaultLocalAny, certNode.Unsafe))
		if next.Invalid {
			if rebuilt {
				rt.Fatalf("a refused configuration replaced the firewall\n  %s", strings.Join(trace, "\n  "))
			}
			refused++
			return
		}
		if !rebuilt {
			return // nothing changed (identical text and certificate): the installed firewall stays
		}
		newNode := certNode
		newNode.DefaultLocalAny = next.DefaultLocalAny
		if next.rulesKey(newNode) != eff.rulesKey(effNode) {
			epoch++
			labels["reload-rules-changed"]++
		} else {
			labels["reload-rules-unchanged"]++
		}
		eff, effNode = next, newNode
		if beforeV+1 == 0 { // the counter wrapped
			wraps++
			if vk.KnownOpen("C19", c19Key) {
				// recorded finding: the wrap resets the conntrack table, whatever the rules say
				vk.Excluded("C19", c19Key)
				for p := range model {
					delete(model, p)
				}
			}
		}
	}

	steps := rapid.IntRange(4, 30).Draw(rt, "steps")
	for s := 0; s < steps; s++ {
		if rapid.IntRange(0, 9).Draw(rt, "op") < 6 {
			send(pkts[rapid.IntRange(0, len(pkts)-1).Draw(rt, "pkt")], rapid.Bool().Draw(rt, "incoming"))
			continue
		}
		next := loaded
		next.Invalid = false
		nextNode := certNode
		what := rapid.SampledFrom([]string{"identical", "settings-only", "settings-only", "new-rules", "new-rules", "revert", "edit-rules", "invalid", "cert-unsafe", "dlca", "many-then-new-rules"}).Draw(rt, "reloadKind")
		if what == "many-then-new-rules" && rapid.IntRange(0, 11).Draw(rt, "manyGate") != 0 {
			what = "new-rules" // the burst costs hundreds of reloads: keep it to about one reload step in a hundred
		}
		switch what {
		case "many-then-new-rules":
			// an operator's SIGHUP habit: N reloads that each flip a non-rule setting, then one that changes
			// the rules. However the per-flow record of "rules version last validated against" is encoded, a
			// flow that saw no packet across all of them is revalidated against the rules in force now.
			n := rapid.SampledFrom([]int{254, 255, 256, 511}).Draw(rt, "manyReloads")
			for k := 0; k < n; k++ {
				flip := loaded
				flip.Invalid = false
				if flip.OutAction == "drop" {
					flip.OutAction = "reject"
				} else {
					flip.OutAction = "drop"
				}
				reload(flip, certNode, "setting-flip")
			}
			labels["many-reloads-between-packets"]++
			next = loaded
			next.Rules = c19GenRules(rt)
		case "identical":
		case "settings-only":
			c19GenSettings(rt, &next)
		case "new-rules":
			next.Rules = c19GenRules(rt)
		case "revert":
			prev := history[rapid.IntRange(0, len(history)-1).Draw(rt, "revertTo")]
			prev.Invalid = false
			next = prev
		case "edit-rules":
			rs := append([]fwrRule{}, next.Rules...)
			if len(rs) > 0 && rapid.Bool().Draw(rt, "dropRule") {
				i := rapid.IntRange(0, len(rs)-1).Draw(rt, "dropIdx")
				rs = append(rs[:i], rs[i+1:]...)
			} else {
				rs = append(rs, c19Normalize(fwrGenRule(rt, rapid.Bool().Draw(rt, "addDir"))))
			}
			next.Rules = rs
		case "invalid":
			next.Invalid = true
			if rapid.Bool().Draw(rt, "invalidWithNewRules") {
				next.Rules = c19GenRules(rt)
			}
		case "cert-unsafe":
			um := rapid.IntRange(0, 7).Draw(rt, "newUnsafe")
			nextNode.Unsafe = nil
			for i := 0; i < 3; i++ {
				if um&(1<<i) != 0 {
					nextNode.Unsafe = append(nextNode.Unsafe, fwrPfx(fwrNodeUnsafe[i]))
				}
			}
		case "dlca":
			next.DefaultLocalAny = !next.DefaultLocalAny
		}
		reload(next, nextNode, what)
	}

	for l, c := range labels {
		vk.LabelN("C19", l, int64(c))
	}
	ls := []string{}
	if nearWrap {
		ls = append(ls, "history-near-wrap")
	}
	if wraps > 0 {
		ls = append(ls, "history-crossing-wrap")
	}
	if disagreeProbes > 0 {
		ls = append(ls, "history-probing-flow-under-disagreeing-rules")
	}
	if unchangedProbes > 0 {
		ls = append(ls, "history-probing-flow-after-rule-neutral-reload")
	}
	if refused > 0 {
		ls = append(ls, "history-with-refused-reload")
	}
	vk.Case("C19", fwrEnvKey(n, peer)+"|"+strings.Join(trace, "|"), disagreeProbes > 0, ls...)
	if disagreeProbes > 0 && vk.WantSample("C19") {
		vk.Sample("C19", map[string]any{"node": fmt.Sprintf("%+v", n), "peer": fmt.Sprintf("%+v", peer), "history": trace})
	}
}

// Probe: minimal input of the recorded finding. rulesVersion 65535, one inbound flow, then a reload
// that only changes firewall.outbound_action: the rules are the same, yet the reply is cut.
func TestC19_Probe_rules_version_wrap_resets_conntrack(t *testing.T) {
	defer vk.Flush()
	reproduced := false
	synctest.Test(t, func(t *testing.T) {
		n := fwrNode{Networks: fwrNets("10.0.0.1/24")}
		peer := fwrPeer{Name: "h1", Networks: fwrNets("10.0.0.2/24"), Issuer: "sha1"}
		c := fwrNodeCert(n)
		c.version = cert.Version2
		pki := &PKI{}
		pki.cs.Store(&CertState{v2Cert: c, initiatingVersion: cert.Version2})
		conf := c19Config{Rules: []fwrRule{{Incoming: true, Host: "any"}}, TCP: "12m", UDP: "3m", Def: "10m", InAction: "drop", OutAction: "drop"}
		cfg := config.NewC(fwrLogger)
		if err := cfg.LoadString(conf.yaml(t)); err != nil {
			t.Fatal(err)
		}
		fw, err := NewFirewallFromConfig(fwrLogger, pki.getCertState(), cfg)
		if err != nil {
			t.Fatal(err)
		}
		fw.rulesVersion = 0
		fw.rulesVersion-- // 65535: the next reload wraps
		f := &Interface{pki: pki, firewall: fw, l: fwrLogger}
		h := fwrHost(n, peer)
		p := firewall.Packet{LocalAddr: netip.MustParseAddr("10.0.0.1"), RemoteAddr: netip.MustParseAddr("10.0.0.2"), LocalPort: 80, RemotePort: 4000, Protocol: firewall.ProtoTCP}
		if err := f.firewall.Drop(p, true, h, fwrPool(fwrTrusted), nil); err != nil {
			t.Fatalf("inbound packet allowed by rule dropped: %v", err)
		}
		if err := f.firewall.Drop(p, false, h, fwrPool(fwrTrusted), nil); err != nil {
			t.Fatalf("reply of an established flow dropped: %v", err)
		}
		conf.OutAction = "reject"
		if err := cfg.ReloadConfigString(conf.yaml(t)); err != nil {
			t.Fatal(err)
		}
		f.reloadFirewall(cfg)
		if f.firewall == fw {
			t.Fatalf("reload did not install a new firewall")
		}
		reproduced = f.firewall.Drop(p, false, h, fwrPool(fwrTrusted), nil) != nil
	})
	if !reproduced {
		return
	}
	if vk.KnownOpen("C19", c19Key) {
		vk.ReportKnown("C19", c19Key)
		return
	}
	t.Fatalf("C19 %s: with rulesVersion 65535, a reload that only changes firewall.outbound_action (rules identical) wraps the version to 0 and resets conntrack: the reply of an established inbound flow is dropped", c19Key)
}
