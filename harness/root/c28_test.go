package nebula

// C28 - hostmap indexes stay consistent.
//
// A rapid state machine drives one real HostMap (plus a HandshakeManager for the pending side)
// through tunnel additions (direct, CheckAndComplete, Complete), removals of any tunnel ever
// created (including already removed ones: what racing closeTunnel callers do), promotions of any
// tunnel (including removed ones) and relay allocations, and compares every map with a reference
// model after every operation.
//
// Reference model (written from the property text and the documented behaviour in the hostmap.go
// comments, not from the implementation): per overlay address an ordered list of tunnels, newest or
// most recently promoted first, capped at five by fully retiring the last one; a live set; local
// index, remote index (last writer wins, removed only by its owner) and relay index ownership.

import (
	"errors"
	"fmt"
	"net/netip"
	"slices"
	"strings"
	"testing"

	"github.com/slackhq/nebula/test"
	"github.com/slackhq/nebula/udp"
	"pgregory.net/rapid"
	"verifkit/vk"
)

const c28PID = "C28"
const c28KeyStale = "stale-delete-after-index-reuse"

type c28Tun struct {
	id       int
	hi       *HostInfo
	idx      uint32
	ridx     uint32
	addrs    []netip.Addr
	live     bool
	pending  bool
	never    bool // never reached the main hostmap (refused or timed out while pending): real callers hold no reference
	relayIdx []uint32
}

func (t *c28Tun) String() string {
	return fmt.Sprintf("T%d(idx=%d,ridx=%d,addrs=%v)", t.id, t.idx, t.ridx, t.addrs)
}

type c28World struct {
	hm  *HostMap
	hsm *HandshakeManager
	lh  *LightHouse
	f   *Interface

	all      []*c28Tun
	lists    map[netip.Addr][]*c28Tun
	byIdx    map[uint32]*c28Tun
	byRemote map[uint32]*c28Tun
	relays   map[uint32]*c28Tun
	pendAddr map[netip.Addr]*c28Tun
	pendIdx  map[uint32]*c28Tun

	ops []string
	// coverage facts of this history
	evicted, delNonPrimary, promotedAfter bool
}

var c28Addrs = []netip.Addr{
	netip.MustParseAddr("10.28.0.1"), netip.MustParseAddr("10.28.0.2"),
	netip.MustParseAddr("10.28.0.3"), netip.MustParseAddr("fd28::4"),
}

func c28NewWorld() *c28World {
	l := test.NewLogger()
	hm := newHostMap(l)
	pr := []netip.Prefix{}
	hm.preferredRanges.Store(&pr)
	lh := newTestLighthouse()
	lh.queryChan = make(chan netip.Addr, 64)
	hsm := NewHandshakeManager(l, hm, lh, &udp.NoopConn{}, defaultHandshakeConfig)
	f := &Interface{hostMap: hm, handshakeManager: hsm, lightHouse: lh, l: l}
	hsm.f = f
	return &c28World{hm: hm, hsm: hsm, lh: lh, f: f,
		lists: map[netip.Addr][]*c28Tun{}, byIdx: map[uint32]*c28Tun{}, byRemote: map[uint32]*c28Tun{},
		relays: map[uint32]*c28Tun{}, pendAddr: map[netip.Addr]*c28Tun{}, pendIdx: map[uint32]*c28Tun{}}
}

func (w *c28World) drain() {
	for {
		select {
		case <-w.lh.queryChan:
		default:
			return
		}
	}
}

func c28NewHostInfo(addrs []netip.Addr, idx, ridx uint32, initiator bool, pkt []byte, hsTime uint64) *HostInfo {
	return &HostInfo{
		vpnAddrs:          slices.Clone(addrs),
		localIndexId:      idx,
		remoteIndexId:     ridx,
		ConnectionState:   &ConnectionState{initiator: initiator},
		HandshakePacket:   map[uint8][]byte{handshakePacketStage0: pkt},
		lastHandshakeTime: hsTime,
		relayState: RelayState{
			relayForByAddr: map[netip.Addr]*Relay{},
			relayForByIdx:  map[uint32]*Relay{},
		},
	}
}

// ---- reference model ------------------------------------------------------------------------

func c28Without(list []*c28Tun, t *c28Tun) []*c28Tun {
	out := make([]*c28Tun, 0, len(list))
	for _, x := range list {
		if x != t {
			out = append(out, x)
		}
	}
	return out
}

// modelRemove retires a live tunnel completely and reports whether no other tunnel holds any of
// its addresses afterwards.
func (w *c28World) modelRemove(t *c28Tun) bool {
	if t.live {
		for _, a := range t.addrs {
			l := c28Without(w.lists[a], t)
			if len(l) == 0 {
				delete(w.lists, a)
			} else {
				w.lists[a] = l
			}
		}
		if w.byIdx[t.idx] == t {
			delete(w.byIdx, t.idx)
		}
		if w.byRemote[t.ridx] == t {
			delete(w.byRemote, t.ridx)
		}
		for _, r := range t.relayIdx {
			if w.relays[r] == t {
				delete(w.relays, r)
			}
		}
		t.relayIdx = nil
		t.live = false
	}
	final := true
	for _, a := range t.addrs {
		if len(w.lists[a]) > 0 {
			final = false
		}
	}
	return final
}

func (w *c28World) modelAdd(t *c28Tun) {
	for _, a := range t.addrs {
		l := append([]*c28Tun{t}, c28Without(w.lists[a], t)...)
		w.lists[a] = l
		if len(l) > 5 {
			w.evicted = true
			w.modelRemove(l[len(l)-1])
		}
	}
	w.byIdx[t.idx] = t
	w.byRemote[t.ridx] = t
	t.live = true
	t.pending = false
}

func (w *c28World) modelPromote(t *c28Tun) (changed bool) {
	if !t.live {
		return false
	}
	for _, a := range t.addrs {
		if w.lists[a][0] != t {
			changed = true
		}
		w.lists[a] = append([]*c28Tun{t}, c28Without(w.lists[a], t)...)
	}
	return changed
}

// ---- comparison of the real maps with the model ---------------------------------------------------

func (w *c28World) tunOf(h *HostInfo) string {
	for _, t := range w.all {
		if t.hi == h {
			return t.String()
		}
	}
	return fmt.Sprintf("unknown hostinfo %p", h)
}

func (w *c28World) check(rt *rapid.T) {
	hm := w.hm
	fail := func(format string, args ...any) {
		rt.Helper()
		rt.Fatalf("%s\nhistory:\n  %s", fmt.Sprintf(format, args...), strings.Join(w.ops, "\n  "))
	}
	nHosts, nMore := 0, 0
	for _, a := range c28Addrs {
		want := w.lists[a]
		got := hm.unlockedGetHostList(a)
		if len(want) > 0 {
			nHosts++
		}
		if len(want) > 1 {
			nMore++
		}
		if len(got) > MaxHostInfosPerVpnIp {
			fail("address %v has %d tunnels (cap is five)", a, len(got))
		}
		seen := map[*HostInfo]bool{}
		for i, h := range got {
			if h == nil {
				fail("address %v: nil hostinfo at position %d", a, i)
			}
			if seen[h] {
				fail("address %v lists %s twice", a, w.tunOf(h))
			}
			seen[h] = true
			if !slices.Contains(h.vpnAddrs, a) {
				fail("address %v lists %s which does not own it", a, w.tunOf(h))
			}
			live := false
			for _, t := range w.all {
				if t.hi == h && t.live {
					live = true
				}
			}
			if !live {
				fail("address %v reaches removed tunnel %s", a, w.tunOf(h))
			}
		}
		if len(got) != len(want) {
			fail("address %v: hostmap lists %d tunnels, model %d (%v)", a, len(got), len(want), want)
		}
		for i := range want {
			if got[i] != want[i].hi {
				fail("address %v position %d: hostmap has %s, model %s", a, i, w.tunOf(got[i]), want[i])
			}
		}
		p, ok := hm.Hosts[a]
		if ok != (len(want) > 0) || (ok && p != want[0].hi) {
			fail("Hosts[%v] present=%v does not head the model list %v", a, ok, want)
		}
		ml, ok := hm.moreHosts[a]
		if ok != (len(want) > 1) {
			fail("moreHosts[%v] present=%v but the address is held by %d tunnels", a, ok, len(want))
		}
		if ok && ml[0] != hm.Hosts[a] {
			fail("moreHosts[%v][0] is not the primary", a)
		}
	}
	if len(hm.Hosts) != nHosts || len(hm.moreHosts) != nMore {
		fail("Hosts has %d keys (model %d), moreHosts %d (model %d)", len(hm.Hosts), nHosts, len(hm.moreHosts), nMore)
	}
	cmp := func(name string, real map[uint32]*HostInfo, model map[uint32]*c28Tun) {
		for k, h := range real {
			m := model[k]
			if m == nil {
				fail("%s[%d] = %s but the model has no such entry (stale reference)", name, k, w.tunOf(h))
			}
			if m.hi != h {
				fail("%s[%d] = %s, model says %s", name, k, w.tunOf(h), m)
			}
		}
		for k, m := range model {
			if real[k] == nil {
				fail("%s[%d] is missing, model says it belongs to live tunnel %s", name, k, m)
			}
		}
	}
	cmp("Indexes", hm.Indexes, w.byIdx)
	cmp("RemoteIndexes", hm.RemoteIndexes, w.byRemote)
	cmp("Relays", hm.Relays, w.relays)
	for k, t := range w.relays {
		if _, ok := t.hi.relayState.QueryRelayForByIdx(k); !ok {
			fail("Relays[%d] owner %s has no relay state for it", k, t)
		}
	}
	// pending side
	if len(w.hsm.vpnIps) != len(w.pendAddr) {
		fail("pending vpnIps has %d entries, model %d", len(w.hsm.vpnIps), len(w.pendAddr))
	}
	for a, t := range w.pendAddr {
		if hh := w.hsm.vpnIps[a]; hh == nil || hh.hostinfo != t.hi {
			fail("pending vpnIps[%v] does not hold %s", a, t)
		}
	}
	if len(w.hsm.indexes) != len(w.pendIdx) {
		fail("pending indexes has %d entries, model %d", len(w.hsm.indexes), len(w.pendIdx))
	}
	for i, t := range w.pendIdx {
		if hh := w.hsm.indexes[i]; hh == nil || hh.hostinfo != t.hi {
			fail("pending indexes[%d] does not hold %s", i, t)
		}
		if w.byIdx[i] != nil {
			fail("index %d is held by pending %s and by main %s", i, t, w.byIdx[i])
		}
	}
}

// ---- generators -------------------------------------------------------------------------------------

func c28DrawAddrs(rt *rapid.T) []netip.Addr {
	// skewed towards the first address so that the cap of five is reached
	n := rapid.SampledFrom([]int{1, 1, 1, 2, 2, 3}).Draw(rt, "naddrs")
	perm := rapid.Permutation([]int{0, 0, 1, 2, 3}).Draw(rt, "addrperm")
	var out []netip.Addr
	for _, p := range perm {
		a := c28Addrs[p]
		if !slices.Contains(out, a) {
			out = append(out, a)
		}
		if len(out) == n {
			break
		}
	}
	return out
}

func (w *c28World) freeIdx(rt *rapid.T) (uint32, bool) {
	var free []uint32
	for i := uint32(1); i <= 14; i++ {
		if w.byIdx[i] == nil && w.pendIdx[i] == nil {
			free = append(free, i)
		}
	}
	if len(free) == 0 {
		return 0, false
	}
	return rapid.SampledFrom(free).Draw(rt, "idx"), true
}

func (w *c28World) newTun(addrs []netip.Addr, idx, ridx uint32, initiator bool, pkt []byte, hsTime uint64) *c28Tun {
	t := &c28Tun{id: len(w.all) + 1, idx: idx, ridx: ridx, addrs: addrs}
	t.hi = c28NewHostInfo(addrs, idx, ridx, initiator, pkt, hsTime)
	w.all = append(w.all, t)
	return t
}

func (w *c28World) pick(rt *rapid.T, label string, pred func(*c28Tun) bool) *c28Tun {
	var c []*c28Tun
	for _, t := range w.all {
		if pred(t) {
			c = append(c, t)
		}
	}
	if len(c) == 0 {
		return nil
	}
	return rapid.SampledFrom(c).Draw(rt, label)
}

func (w *c28World) isPrimaryEverywhere(t *c28Tun) bool {
	for _, a := range t.addrs {
		if len(w.lists[a]) == 0 || w.lists[a][0] != t {
			return false
		}
	}
	return true
}

// staleClass: deleting an already removed tunnel whose local index (or one of the relay indexes it
// owned when it was removed) has since been handed to another live tunnel.
func (w *c28World) staleClass(t *c28Tun, oldRelays []uint32) bool {
	if t.live {
		return false
	}
	if w.byIdx[t.idx] != nil {
		return true
	}
	for _, r := range oldRelays {
		if w.relays[r] != nil {
			return true
		}
	}
	return false
}

func (w *c28World) logf(format string, args ...any) {
	w.ops = append(w.ops, fmt.Sprintf(format, args...))
}

var c28OpWeights = []string{
	"add", "add", "add", "add", "add", "add", "add",
	"delete", "delete", "delete", "delete",
	"promote", "promote", "promote",
	"relay", "relay",
	"cac", "cac", "cac",
	"pendstart", "pendcomplete", "pendcomplete", "penddelete",
	"readd",
}

func (w *c28World) step(rt *rapid.T) {
	op := rapid.SampledFrom(c28OpWeights).Draw(rt, "op")
	switch op {
	case "add":
		idx, ok := w.freeIdx(rt)
		if !ok {
			return
		}
		addrs := c28DrawAddrs(rt)
		ridx := rapid.Uint32Range(1, 5).Draw(rt, "ridx")
		t := w.newTun(addrs, idx, ridx, rapid.Bool().Draw(rt, "initiator"), []byte{byte(len(w.all))}, uint64(len(w.all)))
		w.logf("add %s", t)
		w.hm.Lock()
		w.hm.unlockedAddHostInfo(t.hi, w.f)
		w.hm.Unlock()
		w.modelAdd(t)
		vk.Label(c28PID, "op:add")

	case "readd":
		t := w.pick(rt, "live", func(t *c28Tun) bool { return t.live })
		if t == nil {
			return
		}
		w.logf("re-add live %s", t)
		w.hm.Lock()
		w.hm.unlockedAddHostInfo(t.hi, w.f)
		w.hm.Unlock()
		w.modelAdd(t)
		vk.Label(c28PID, "op:readd-live")

	case "delete":
		t := w.pick(rt, "any", func(t *c28Tun) bool { return !t.pending && !t.never })
		if t == nil {
			return
		}
		// relay indexes the hostinfo still remembers (the real relayState is never cleared)
		oldRelays := t.hi.relayState.CopyRelayForIdxs()
		if w.staleClass(t, oldRelays) && vk.KnownOpen(c28PID, c28KeyStale) {
			vk.Excluded(c28PID, c28KeyStale)
			return
		}
		wasLive := t.live
		if wasLive && !w.isPrimaryEverywhere(t) {
			w.delNonPrimary = true
			vk.Label(c28PID, "op:delete-nonprimary")
		} else if wasLive {
			vk.Label(c28PID, "op:delete-primary")
		} else {
			vk.Label(c28PID, "op:delete-removed")
		}
		w.logf("delete %s", t)
		got := w.hm.DeleteHostInfo(t.hi)
		want := w.modelRemove(t)
		if got != want {
			rt.Fatalf("DeleteHostInfo(%s) returned %v, but other tunnels holding its addresses: %v\nhistory:\n  %s",
				t, got, !want, strings.Join(w.ops, "\n  "))
		}

	case "promote":
		t := w.pick(rt, "any", func(t *c28Tun) bool { return !t.pending && !t.never })
		if t == nil {
			return
		}
		w.logf("MakePrimary %s", t)
		w.hm.MakePrimary(t.hi)
		changed := w.modelPromote(t)
		if changed && (w.evicted || w.delNonPrimary) {
			w.promotedAfter = true
		}
		if !t.live {
			vk.Label(c28PID, "op:promote-removed")
		} else if changed {
			vk.Label(c28PID, "op:promote-reorder")
		} else {
			vk.Label(c28PID, "op:promote-noop")
		}

	case "relay":
		t := w.pick(rt, "any", func(t *c28Tun) bool { return !t.pending && !t.never })
		if t == nil {
			return
		}
		target := rapid.SampledFrom(c28Addrs).Draw(rt, "target")
		typ := rapid.SampledFrom([]int{TerminalType, ForwardingType}).Draw(rt, "rtype")
		st := rapid.SampledFrom([]int{Requested, PeerRequested, Established}).Draw(rt, "rstate")
		w.logf("AddRelay via %s to %v", t, target)
		idx, err := AddRelay(w.hm.l, t.hi, w.hm, target, nil, typ, st)
		if !t.live {
			if err == nil {
				rt.Fatalf("AddRelay on removed tunnel %s succeeded (index %d)\nhistory:\n  %s", t, idx, strings.Join(w.ops, "\n  "))
			}
			vk.Label(c28PID, "op:relay-removed")
			break
		}
		if err != nil {
			rt.Fatalf("AddRelay on live tunnel %s failed: %v", t, err)
		}
		if idx == 0 || w.relays[idx] != nil {
			rt.Fatalf("AddRelay handed out relay index %d which is zero or already owned by %v", idx, w.relays[idx])
		}
		if w.modelPromote(t) && (w.evicted || w.delNonPrimary) {
			w.promotedAfter = true
		}
		w.relays[idx] = t
		t.relayIdx = append(t.relayIdx, idx)
		vk.Label(c28PID, "op:relay")

	case "cac":
		// responder path: a fresh hostinfo with an arbitrary (possibly held) local index
		idx := rapid.Uint32Range(1, 14).Draw(rt, "idx")
		addrs := c28DrawAddrs(rt)
		ridx := rapid.Uint32Range(1, 5).Draw(rt, "ridx")
		pkt := []byte{rapid.ByteRange(0, 12).Draw(rt, "pkt")}
		hsTime := rapid.Uint64Range(0, uint64(len(w.all)+2)).Draw(rt, "hstime")
		t := w.newTun(addrs, idx, ridx, false, pkt, hsTime)
		w.logf("CheckAndComplete %s pkt=%x time=%d", t, pkt, hsTime)
		heldMain, heldPend := w.byIdx[idx] != nil, w.pendIdx[idx] != nil
		_, err := w.hsm.CheckAndComplete(t.hi, handshakePacketStage0, w.f)
		switch {
		case err == nil:
			if heldMain || heldPend {
				rt.Fatalf("CheckAndComplete accepted %s although index %d is already held (main=%v pending=%v)\nhistory:\n  %s",
					t, idx, heldMain, heldPend, strings.Join(w.ops, "\n  "))
			}
			w.modelAdd(t)
			vk.Label(c28PID, "op:cac-added")
		case errors.Is(err, ErrLocalIndexCollision):
			if !heldMain && !heldPend {
				rt.Fatalf("CheckAndComplete reported an index collision for free index %d", idx)
			}
			t.never = true
			vk.Label(c28PID, "op:cac-collision")
		case errors.Is(err, ErrAlreadySeen), errors.Is(err, ErrExistingHostInfo):
			if len(w.lists[addrs[0]]) == 0 {
				rt.Fatalf("CheckAndComplete returned %v but no tunnel holds %v", err, addrs[0])
			}
			t.never = true
			vk.Label(c28PID, "op:cac-refused")
		default:
			rt.Fatalf("CheckAndComplete: unexpected error %v", err)
		}

	case "pendstart":
		a := rapid.SampledFrom(c28Addrs).Draw(rt, "addr")
		hi := w.hsm.StartHandshake(a, nil)
		w.drain()
		if cur := w.pendAddr[a]; cur != nil {
			if cur.hi != hi {
				rt.Fatalf("StartHandshake(%v) replaced the pending handshake", a)
			}
			return
		}
		hh := w.hsm.vpnIps[a]
		idx, err := w.hsm.allocateIndex(hh)
		if err != nil {
			rt.Fatalf("allocateIndex: %v", err)
		}
		t := &c28Tun{id: len(w.all) + 1, hi: hi, idx: idx, addrs: []netip.Addr{a}, pending: true}
		w.all = append(w.all, t)
		w.pendAddr[a] = t
		w.pendIdx[idx] = t
		w.logf("StartHandshake %v -> pending T%d idx=%d", a, t.id, idx)
		vk.Label(c28PID, "op:pending-start")

	case "pendcomplete":
		t := w.pick(rt, "pending", func(t *c28Tun) bool { return t.pending })
		if t == nil {
			return
		}
		// what continueHandshake does before Complete: the certificate's address list (which
		// contains the address we asked for, at any position) replaces vpnAddrs
		addrs := c28DrawAddrs(rt)
		if !slices.Contains(addrs, t.addrs[0]) {
			pos := rapid.IntRange(0, len(addrs)).Draw(rt, "pos")
			addrs = slices.Insert(addrs, pos, t.addrs[0])
		}
		target := t.addrs[0]
		t.addrs = addrs
		t.ridx = rapid.Uint32Range(1, 5).Draw(rt, "ridx")
		t.hi.vpnAddrs = slices.Clone(addrs)
		t.hi.remoteIndexId = t.ridx
		t.hi.ConnectionState = &ConnectionState{initiator: true}
		t.hi.lastHandshakeTime = uint64(len(w.all))
		w.logf("Complete %s", t)
		w.hsm.Complete(t.hi, w.f)
		delete(w.pendAddr, target)
		delete(w.pendIdx, t.idx)
		w.modelAdd(t)
		vk.Label(c28PID, "op:pending-complete")

	case "penddelete":
		t := w.pick(rt, "pending", func(t *c28Tun) bool { return t.pending })
		if t == nil {
			return
		}
		w.logf("pending delete (timeout) %s", t)
		w.hsm.DeleteHostInfo(t.hi)
		delete(w.pendAddr, t.addrs[0])
		delete(w.pendIdx, t.idx)
		t.pending = false
		t.never = true
		vk.Label(c28PID, "op:pending-timeout")
	}
}

func TestC28_HostMapModel(t *testing.T) {
	vk.Check(t, 30000, func(rt *rapid.T) {
		w := c28NewWorld()
		n := rapid.IntRange(1, 60).Draw(rt, "nops")
		for i := 0; i < n; i++ {
			w.step(rt)
			w.check(rt)
		}
		nt := (w.evicted || w.delNonPrimary) && w.promotedAfter
		var labels []string
		if w.evicted {
			labels = append(labels, "hist:eviction")
		}
		if w.delNonPrimary {
			labels = append(labels, "hist:delete-nonprimary")
		}
		if w.promotedAfter {
			labels = append(labels, "hist:later-promotion")
		}
		if nt {
			labels = append(labels, "hist:nontrivial")
		}
		vk.Case(c28PID, strings.Join(w.ops, ";"), nt, labels...)
		if nt && vk.WantSample(c28PID) {
			vk.Sample(c28PID, map[string]any{"ops": w.ops})
		}
	})
}

// TestC28_Probe_stale_delete_after_index_reuse runs the recorded failing history: tunnel A is removed, its local
// index is handed to tunnel B, then a second (stale) removal of A arrives.
func TestC28_Probe_stale_delete_after_index_reuse(t *testing.T) {
	defer vk.Flush()
	w := c28NewWorld()
	a := []netip.Addr{c28Addrs[0]}
	A := w.newTun(a, 1, 1, false, []byte{1}, 1)
	B := w.newTun(a, 1, 2, false, []byte{2}, 2)
	w.hm.Lock()
	w.hm.unlockedAddHostInfo(A.hi, w.f)
	w.hm.Unlock()
	w.hm.DeleteHostInfo(A.hi)
	w.hm.Lock()
	w.hm.unlockedAddHostInfo(B.hi, w.f)
	w.hm.Unlock()
	w.hm.DeleteHostInfo(A.hi) // stale second delete (e.g. a racing closeTunnel caller)
	reproduced := w.hm.Indexes[1] != B.hi && w.hm.Hosts[a[0]] == B.hi
	if !reproduced {
		return
	}
	if vk.KnownOpen(c28PID, c28KeyStale) {
		vk.ReportKnown(c28PID, c28KeyStale)
		return
	}
	t.Fatalf("a second removal of already removed tunnel A (index 1) unlinked live tunnel B from Indexes while B is still the primary in Hosts")
}
